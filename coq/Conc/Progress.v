(** * Progress of the release/acquire view machines RAn.v (P, C) and RA3n.v (P, W, C).

    RAnproof.v / RA3nproof.v show that no execution races.  This file shows that every execution makes
    progress, for every [len > 0], every interleaving, every admissible (stale) read:

    (A) WAIT-FREEDOM.  [remaining t] is the number of own steps a thread still needs to finish the operation it
        is in (pc 0: 0, the operation has returned; pc 2: cnt - off + 1; pc 3: 1).
        - a step of ANOTHER thread leaves the whole thread record untouched ([*_other_step]): no operation
          waits for, or is delayed by, another thread;
        - an own step at pc <> 0 decreases [remaining] by exactly one ([*_own_step_decreases]);
        - [remaining <= len] in every reachable configuration ([*_remaining_le]);
        - hence, in ANY continuation (the other threads may run, be suspended for ever, or be gone), the thread
          is back at pc 0 after exactly [remaining] own steps ([*_returns]), and a whole operation - the step at
          pc 0 that starts it included - returns (granted-and-published, or refused) within [len + 1] own steps
          ([*_operation_bounded]; a fortiori within len + 2).

    (B) A FRESH LOOK IS EXACT.  At pc 0 with a request above the remembered availability, the thread loads the
        index it follows.  If the message read is the latest one - because the read choice selects it
        (j >= length - 1: always the case in a sequentially consistent run) or because the thread's view has
        already reached it (the two threads have synchronised: then EVERY admissible read is the latest) - the
        refreshed availability is exactly the true one
           consumer / worker : ca' = lastabs (followed index) - pos  = pos (followed thread) - pos
           producer          : ca' = lastabs (Mci) + len - 1 - pos   = pos C + len - 1 - pos P
        and the request is granted iff it does not exceed the true availability ([*_fresh_look_*]).
        For an arbitrary (stale) read the load never over-estimates ([*_load_sound]).

    (C) DRAINS.  From every reachable configuration the explicit continuation [drain] (every thread finishes the
        operation it is in; then the follower repeatedly takes a fresh look and handles one item) leads to a
        configuration where every pc is 0 and the consumer has consumed everything that was published:
        RAn: pos C = pos P;  RA3n: pos W = pos P (the worker catches up) and then pos C = pos W.

    The control part of a thread (pc, ca, pos, cnt, off) evolves in all five threads of the two machines by the
    same function [knext] of the availability [a] a load would return; (A) and the loops of (C) are proved once,
    for an abstract machine whose threads move by [knext], and instantiated twice. *)
From Coq Require Import List Arith Lia Bool.
Import ListNotations.
Require MRB.Conc.RA MRB.Conc.RAproof MRB.Conc.RAn MRB.Conc.RAnproof.
Require MRB.Conc.RA3 MRB.Conc.RA3proof MRB.Conc.RA3n MRB.Conc.RA3nproof.

Local Arguments Nat.leb : simpl never.
Local Arguments Nat.ltb : simpl never.
Local Arguments Nat.modulo : simpl never.
Local Arguments Nat.max : simpl never.
Local Arguments Nat.min : simpl never.

Ltac splits := repeat match goal with |- _ /\ _ => split end.

(* ================================================================================================ *)
(** ** The control part of a thread and its transition function *)

Record kctl := mkCtl { kpc : nat; kca : nat; kpos : nat; kcnt : nat; koff : nat }.

(* [a]: the availability a load of the followed index would compute; [n0]: the requested count. *)
Definition knext (a n0 : nat) (k : kctl) : kctl :=
  match kpc k with
  | 0 => let n := Nat.max 1 n0 in
         if n <=? kca k then mkCtl 2 (kca k) (kpos k) n 0
         else mkCtl (if n <=? a then 2 else 0) a (kpos k) n 0
  | 2 => mkCtl (if kcnt k <=? koff k + 1 then 3 else 2) (kca k) (kpos k) (kcnt k) (koff k + 1)
  | 3 => mkCtl 0 (kca k - kcnt k) (kpos k + kcnt k) (kcnt k) 0
  | _ => k
  end.

(* own steps still needed to be back at pc 0 *)
Definition krem (k : kctl) : nat :=
  match kpc k with 2 => kcnt k - koff k + 1 | 3 => 1 | _ => 0 end.

(* [pc_ok] of RAnproof.v / [pc_okn] of RA3nproof.v *)
Definition kok (k : kctl) : Prop :=
  (kpc k = 0 /\ koff k = 0) \/
  (kpc k = 2 /\ koff k < kcnt k /\ kcnt k <= kca k) \/
  (kpc k = 3 /\ koff k = kcnt k /\ kcnt k <= kca k).

Lemma knext_rem a n0 k : kok k -> kpc k <> 0 -> krem (knext a n0 k) + 1 = krem k.
Proof.
  intros [[H0 _]|[(H2&Ho&Hc)|(H3&Ho&Hc)]] Hne; [congruence| |].
  - unfold knext, krem. rewrite H2.
    destruct (kcnt k <=? koff k + 1) eqn:E; [apply Nat.leb_le in E | apply Nat.leb_gt in E];
      cbn [kpc kcnt koff]; lia.
  - unfold knext, krem. rewrite H3. cbn [kpc]. reflexivity.
Qed.

Lemma krem_zero k : kok k -> krem k = 0 -> kpc k = 0.
Proof.
  intros [[H0 _]|[(H2&Ho&Hc)|(H3&Ho&Hc)]]; auto; unfold krem; [rewrite H2 | rewrite H3]; lia.
Qed.

Lemma krem_pc0 k : kpc k = 0 -> krem k = 0.
Proof. intros H; unfold krem; rewrite H; reflexivity. Qed.

Lemma krem_le k : kok k -> krem k <= kca k + 1.
Proof.
  intros [[H0 _]|[(H2&Ho&Hc)|(H3&Ho&Hc)]]; unfold krem; [rewrite H0 | rewrite H2 | rewrite H3]; lia.
Qed.

(* one whole operation "request 1 item": check (fast, or a load returning [a1 >= 1]), one access, publish *)
Lemma kpop1 a1 a2 a3 k :
  kpc k = 0 -> (kca k < 1 -> 1 <= a1) ->
  kpc (knext a3 1 (knext a2 1 (knext a1 1 k))) = 0 /\
  kpos (knext a3 1 (knext a2 1 (knext a1 1 k))) = kpos k + 1.
Proof.
  destruct k as [p a q n o]; cbn [kpc kca kpos]; intros -> H.
  assert (E1 : exists a', knext a1 1 (mkCtl 0 a q n o) = mkCtl 2 a' q 1 0).
  { unfold knext; cbn [kpc kca kpos kcnt koff]. change (Nat.max 1 1) with 1.
    destruct (1 <=? a) eqn:E; [eexists; reflexivity|]. apply Nat.leb_gt in E.
    destruct (1 <=? a1) eqn:E'; [eexists; reflexivity|]. apply Nat.leb_gt in E'. specialize (H E). lia. }
  destruct E1 as [a' ->].
  change (knext a2 1 (mkCtl 2 a' q 1 0)) with (mkCtl 3 a' q 1 1).
  change (knext a3 1 (mkCtl 3 a' q 1 1)) with (mkCtl 0 (a' - 1) (q + 1) 1 0).
  split; reflexivity.
Qed.

Lemma fold3 {A B} (f : A -> B -> A) a x y z : fold_left f [x; y; z] a = f (f (f a x) y) z.
Proof. reflexivity. Qed.

Fixpoint count {A} (f : A -> bool) (l : list A) : nat :=
  match l with [] => 0 | x :: l' => (if f x then 1 else 0) + count f l' end.

Lemma count_app {A} (f : A -> bool) l1 l2 : count f (l1 ++ l2) = count f l1 + count f l2.
Proof. induction l1 as [|x l1 IH]; cbn [count app]; [reflexivity | rewrite IH; lia]. Qed.

Lemma count_repeat_false {A} (f : A -> bool) x n : f x = false -> count f (repeat x n) = 0.
Proof. intros H; induction n as [|n IH]; cbn [count repeat]; [reflexivity | rewrite H, IH; reflexivity]. Qed.

Lemma count_repeat_true {A} (f : A -> bool) x n : f x = true -> count f (repeat x n) = n.
Proof. intros H; induction n as [|n IH]; cbn [count repeat]; [reflexivity | rewrite H, IH; reflexivity]. Qed.

(* ================================================================================================ *)
(** ** (A), once: a machine whose threads move by [knext] is wait-free *)
Section Generic.
Variables (cfg entry tid : Type).
Variable teq : tid -> tid -> bool.
Hypothesis teq_spec : forall a b, teq a b = true <-> a = b.
Variable who : entry -> tid.
Variable step : cfg -> entry -> cfg.
Variable ctlof : tid -> cfg -> kctl.
Variable Inv : cfg -> Prop.
Variable len : nat.
Hypothesis Inv_step : forall c e, Inv c -> Inv (step c e).
Hypothesis Inv_ok : forall c t, Inv c -> kok (ctlof t c).
Hypothesis Inv_cap : forall c t, Inv c -> kca (ctlof t c) + 1 <= len.
Hypothesis own_step : forall c e, exists a n0, ctlof (who e) (step c e) = knext a n0 (ctlof (who e) c).
Hypothesis other_step : forall c e t, who e <> t -> ctlof t (step c e) = ctlof t c.

Definition run (c : cfg) (s : list entry) : cfg := fold_left step s c.
Definition gown (t : tid) (s : list entry) : nat := count (fun e => teq (who e) t) s.

Lemma run_app c s1 s2 : run c (s1 ++ s2) = run (run c s1) s2.
Proof. apply fold_left_app. Qed.

Lemma Inv_run s : forall c, Inv c -> Inv (run c s).
Proof. induction s as [|e s IH]; intros c I; cbn [run fold_left]; auto. apply IH, Inv_step, I. Qed.

Lemma teq_false a b : a <> b -> teq a b = false.
Proof. intros H. destruct (teq a b) eqn:E; auto. apply teq_spec in E. contradiction. Qed.
Lemma teq_refl a : teq a a = true.
Proof. apply teq_spec; reflexivity. Qed.

(* steps of the other threads are invisible *)
Lemma G_other_run t s : forall c, gown t s = 0 -> ctlof t (run c s) = ctlof t c.
Proof.
  induction s as [|e s IH]; intros c H; cbn [run fold_left]; [reflexivity|].
  unfold gown in H; cbn [count] in H.
  destruct (teq (who e) t) eqn:E; [lia|].
  change (ctlof t (run (step c e) s) = ctlof t c).
  rewrite IH by (unfold gown; lia).
  apply other_step. intros Hw. rewrite Hw, teq_refl in E. discriminate.
Qed.

(* an own step inside an operation brings the thread one step closer to returning *)
Lemma G_own_dec c e :
  Inv c -> kpc (ctlof (who e) c) <> 0 -> krem (ctlof (who e) (step c e)) + 1 = krem (ctlof (who e) c).
Proof.
  intros I Hne. destruct (own_step c e) as (a & n0 & ->). apply knext_rem; auto.
Qed.

Lemma G_rem_le c t : Inv c -> krem (ctlof t c) <= len.
Proof. intros I. pose proof (krem_le _ (Inv_ok c t I)). pose proof (Inv_cap c t I). lia. Qed.

(* whatever the continuation, after exactly [krem] own steps the thread is back at pc 0 *)
Theorem G_returns t s : forall c, Inv c -> krem (ctlof t c) <= gown t s ->
  exists s1 s2, s = s1 ++ s2 /\ gown t s1 = krem (ctlof t c) /\ kpc (ctlof t (run c s1)) = 0.
Proof.
  induction s as [|e s IH]; intros c I H.
  - exists [], []. unfold gown in *; cbn [count] in *. splits; auto; [lia|].
    cbn [run fold_left]. apply krem_zero; [apply Inv_ok; auto | lia].
  - destruct (krem (ctlof t c)) as [|r] eqn:Er.
    + exists [], (e :: s). splits; auto. cbn [run fold_left]. apply krem_zero; [apply Inv_ok; auto | exact Er].
    + unfold gown in H; cbn [count] in H.
      destruct (teq (who e) t) eqn:E.
      * apply teq_spec in E. subst t.
        assert (Hne : kpc (ctlof (who e) c) <> 0) by (intros H0; apply krem_pc0 in H0; lia).
        pose proof (G_own_dec c e I Hne) as Hd.
        destruct (IH (step c e) (Inv_step c e I)) as (s1 & s2 & -> & Ho & Hp); [unfold gown; lia|].
        exists (e :: s1), s2. splits; auto.
        unfold gown in *; cbn [count]. rewrite teq_refl. lia.
      * assert (Hne : who e <> t) by (intros Hw; rewrite Hw, teq_refl in E; discriminate).
        pose proof (other_step c e t Hne) as Hs.
        destruct (IH (step c e) (Inv_step c e I)) as (s1 & s2 & -> & Ho & Hp); [rewrite Hs; unfold gown; lia|].
        exists (e :: s1), s2. splits; auto.
        -- unfold gown in *; cbn [count]. rewrite E, Hs in *. lia.
Qed.

Lemma G_split_first t s : 1 <= gown t s ->
  exists s0 e s', s = s0 ++ e :: s' /\ gown t s0 = 0 /\ who e = t.
Proof.
  induction s as [|e s IH]; unfold gown; cbn [count]; intros H; [lia|].
  destruct (teq (who e) t) eqn:E.
  - apply teq_spec in E. exists [], e, s. splits; auto.
  - destruct IH as (s0 & e' & s' & -> & H0 & Hw); [unfold gown; lia|].
    exists (e :: s0), e', s'. splits; auto. unfold gown in *; cbn [count]. rewrite E. lia.
Qed.

(* a whole operation, its first step (at pc 0) included, returns within len + 1 own steps *)
Theorem G_operation t s c : Inv c -> len + 1 <= gown t s ->
  exists s1 s2, s = s1 ++ s2 /\ 1 <= gown t s1 /\ gown t s1 <= len + 1 /\ kpc (ctlof t (run c s1)) = 0.
Proof.
  intros I H.
  destruct (Nat.eq_dec (kpc (ctlof t c)) 0) as [H0|Hne].
  - destruct (G_split_first t s) as (s0 & e & s' & -> & Hs0 & Hw); [lia|].
    unfold gown in H; rewrite count_app in H; cbn [count] in H. fold (gown t s0) in H. fold (gown t s') in H.
    subst t. rewrite teq_refl in H.
    set (c1 := step (run c s0) e).
    assert (I1 : Inv c1) by (apply Inv_step, Inv_run, I).
    pose proof (G_rem_le c1 (who e) I1) as Hr.
    destruct (G_returns (who e) s' c1 I1) as (s1 & s2 & -> & Ho & Hp); [lia|].
    exists (s0 ++ e :: s1), s2. splits.
    + rewrite <- app_assoc. reflexivity.
    + unfold gown; rewrite count_app; cbn [count]. rewrite teq_refl. lia.
    + unfold gown in *; rewrite count_app; cbn [count]. rewrite teq_refl. lia.
    + rewrite run_app. exact Hp.
  - pose proof (G_rem_le c t I) as Hr.
    destruct (G_returns t s c I) as (s1 & s2 & -> & Ho & Hp); [lia|].
    exists s1, s2. splits; auto; try lia.
    assert (krem (ctlof t c) <> 0) by (intros Hz; apply Hne, krem_zero; auto). lia.
Qed.

(* running alone: [krem] own steps finish the current operation *)
Lemma G_finish e : forall r c, Inv c -> krem (ctlof (who e) c) = r ->
  kpc (ctlof (who e) (run c (repeat e r))) = 0.
Proof.
  induction r as [|r IH]; intros c I Hr; cbn [repeat run fold_left].
  - apply krem_zero; auto.
  - change (kpc (ctlof (who e) (run (step c e) (repeat e r))) = 0).
    apply IH; [apply Inv_step, I|].
    assert (Hne : kpc (ctlof (who e) c) <> 0) by (intros H0; apply krem_pc0 in H0; lia).
    pose proof (G_own_dec c e I Hne). lia.
Qed.
End Generic.

(* ================================================================================================ *)
(** ** The loop of (C), once: a follower that handles one item per round catches up with its leader *)
Section CatchUp.
Variables (cfg entry : Type).
Variable step : cfg -> entry -> cfg.
Variables (Inv Good : cfg -> Prop).
Variable round : list entry.
Variables (posF posL pcF : cfg -> nat).
Hypothesis pop : forall c, Inv c -> Good c -> pcF c = 0 -> posF c < posL c ->
  let c' := fold_left step round c in
  Inv c' /\ Good c' /\ pcF c' = 0 /\ posF c' = posF c + 1 /\ posL c' = posL c.

Lemma catch_up : forall d c, Inv c -> Good c -> pcF c = 0 -> posF c + d = posL c ->
  let c' := fold_left step (concat (repeat round d)) c in
  Inv c' /\ Good c' /\ pcF c' = 0 /\ posF c' = posL c' /\ posL c' = posL c.
Proof.
  induction d as [|d IH]; intros c I G H0 Hd; cbn [repeat concat fold_left].
  - splits; auto; lia.
  - rewrite fold_left_app.
    destruct (pop c I G H0) as (I1 & G1 & H1 & Hp & Hl); [lia|].
    destruct (IH _ I1 G1 H1) as (I2 & G2 & H2 & Hp2 & Hl2); [lia|].
    splits; auto; lia.
Qed.
End CatchUp.

(* ================================================================================================ *)
(** ** The two-stage machine RAn.v *)
Module Two.
Import MRB.Conc.RA MRB.Conc.RAproof MRB.Conc.RAn MRB.Conc.RAnproof.

Definition entry := (bool * nat * nat)%type.
Definition who (e : entry) : bool := fst (fst e).               (* true = P, false = C *)
Definition thr (b : bool) (c : cfg_n) : thr_n := if b then P c else C c.
Definition ctl (t : thr_n) : kctl := mkCtl (pc t) (ca t) (pos t) (cnt t) (off t).

(* number of script entries of thread b *)
Definition own_steps (b : bool) (s : list entry) : nat := count (fun e => Bool.eqb (who e) b) s.
(* own steps the thread still needs to finish the operation it is in *)
Definition remaining (t : thr_n) : nat :=
  match pc t with 2 => cnt t - off t + 1 | 3 => 1 | _ => 0 end.

(* the availability a load with read choice j would compute *)
Definition loadP (len j : nat) (c : cfg_n) : nat :=
  pavail len (ix (P c)) (mval (nth (pick (vci (V (P c))) (length (Mci c)) j) (Mci c) dmsg)).
Definition loadC (len j : nat) (c : cfg_n) : nat :=
  dist len (ix (C c)) (mval (nth (pick (vpi (V (C c))) (length (Mpi c)) j) (Mpi c) dmsg)).

Lemma stepP_ctl len j n0 c : ctl (P (stepP_n len j n0 c)) = knext (loadP len j c) n0 (ctl (P c)).
Proof.
  unfold stepP_n, stepP_a, knext, ctl, loadP. cbn [kpc kca kpos kcnt koff].
  destruct (pc (P c)) as [|[|[|[|p]]]] eqn:E; cbv beta iota zeta; rewrite ?E; try reflexivity.
  destruct (Nat.max 1 n0 <=? ca (P c)); reflexivity.
Qed.
Lemma stepC_ctl len j n0 c : ctl (C (stepC_n len j n0 c)) = knext (loadC len j c) n0 (ctl (C c)).
Proof.
  unfold stepC_n, stepC_a, knext, ctl, loadC. cbn [kpc kca kpos kcnt koff].
  destruct (pc (C c)) as [|[|[|[|p]]]] eqn:E; cbv beta iota zeta; rewrite ?E; try reflexivity.
  destruct (Nat.max 1 n0 <=? ca (C c)); reflexivity.
Qed.

(* what a step of one thread leaves alone: the other thread's whole record and the other thread's index *)
Lemma stepP_frame len j n0 c : C (stepP_n len j n0 c) = C c /\ Mci (stepP_n len j n0 c) = Mci c.
Proof.
  unfold stepP_n, stepP_a.
  destruct (pc (P c)) as [|[|[|[|p]]]]; cbv beta iota zeta; try (split; reflexivity).
  destruct (Nat.max 1 n0 <=? ca (P c)); split; reflexivity.
Qed.
Lemma stepC_frame len j n0 c : P (stepC_n len j n0 c) = P c /\ Mpi (stepC_n len j n0 c) = Mpi c.
Proof.
  unfold stepC_n, stepC_a.
  destruct (pc (C c)) as [|[|[|[|p]]]]; cbv beta iota zeta; try (split; reflexivity).
  destruct (Nat.max 1 n0 <=? ca (C c)); split; reflexivity.
Qed.

(** *** (A) *)
(* NON-INTERFERENCE: a step of the other thread leaves the thread record (pc, off, cnt, ca, pos, view) as it is *)
Theorem RAn_other_step len c e b : who e <> b -> thr b (step_n len c e) = thr b c.
Proof.
  destruct e as [[[|] j] n0]; destruct b; cbn [who fst thr]; intros H; try congruence.
  - exact (proj1 (stepP_frame len j n0 c)).
  - exact (proj1 (stepC_frame len j n0 c)).
Qed.

Lemma own_step_ctl len c e :
  exists a n0, ctl (thr (who e) (step_n len c e)) = knext a n0 (ctl (thr (who e) c)).
Proof.
  destruct e as [[[|] j] n0]; cbn [who fst thr].
  - exists (loadP len j c), n0. exact (stepP_ctl len j n0 c).
  - exists (loadC len j c), n0. exact (stepC_ctl len j n0 c).
Qed.

Lemma inv_ok len c b : InvN len c -> kok (ctl (thr b c)).
Proof. intros I. destruct b; [exact (i_pcP len c I) | exact (i_pcC len c I)]. Qed.

Section A.
Variable len : nat.
Hypothesis Hlen : 0 < len.

Lemma inv_cap c b : InvN len c -> kca (ctl (thr b c)) + 1 <= len.
Proof. intros I. destruct b; [exact (caP_cap len Hlen c I) | exact (caC_cap len Hlen c I)]. Qed.

Lemma other_step_ctl c e b : who e <> b -> ctl (thr b (step_n len c e)) = ctl (thr b c).
Proof. intros H. rewrite RAn_other_step; auto. Qed.

Lemma eqb_spec2 : forall a b : bool, Bool.eqb a b = true <-> a = b.
Proof. intros a b; split; [apply eqb_prop | intros ->; apply eqb_reflx]. Qed.

(* an own step inside an operation: one step closer to returning *)
Theorem RAn_own_step_decreases c e :
  InvN len c -> pc (thr (who e) c) <> 0 ->
  remaining (thr (who e) (step_n len c e)) + 1 = remaining (thr (who e) c).
Proof.
  intros I Hne.
  exact (G_own_dec cfg_n entry bool who (step_n len) (fun b c => ctl (thr b c)) (InvN len)
           (fun c b => inv_ok len c b) (own_step_ctl len) c e I Hne).
Qed.

Theorem RAn_remaining_le c b : InvN len c -> remaining (thr b c) <= len.
Proof.
  intros I.
  exact (G_rem_le cfg_n bool (fun b c => ctl (thr b c)) (InvN len) len
           (fun c b => inv_ok len c b) inv_cap c b I).
Qed.

(* from any configuration satisfying the invariant, in ANY continuation s: after exactly [remaining] own steps
   the operation has returned (the thread is at pc 0) *)
Theorem RAn_returns_from c b s :
  InvN len c -> remaining (thr b c) <= own_steps b s ->
  exists s1 s2, s = s1 ++ s2 /\ own_steps b s1 = remaining (thr b c) /\ pc (thr b (exec_n len c s1)) = 0.
Proof.
  intros I H.
  exact (G_returns cfg_n entry bool Bool.eqb eqb_spec2 who (step_n len) (fun b c => ctl (thr b c)) (InvN len)
           (step_invn len Hlen) (fun c b => inv_ok len c b) (own_step_ctl len) other_step_ctl b s c I H).
Qed.

Theorem RAn_operation_from c b s :
  InvN len c -> len + 1 <= own_steps b s ->
  exists s1 s2, s = s1 ++ s2 /\ 1 <= own_steps b s1 /\ own_steps b s1 <= len + 1 /\
                pc (thr b (exec_n len c s1)) = 0.
Proof.
  intros I H.
  exact (G_operation cfg_n entry bool Bool.eqb eqb_spec2 who (step_n len) (fun b c => ctl (thr b c)) (InvN len) len
           (step_invn len Hlen) (fun c b => inv_ok len c b) inv_cap (own_step_ctl len) other_step_ctl b s c I H).
Qed.

(* steps of the other thread only: nothing changes for b *)
Theorem RAn_others_invisible c b s : own_steps b s = 0 -> ctl (thr b (exec_n len c s)) = ctl (thr b c).
Proof.
  intros H.
  exact (G_other_run cfg_n entry bool Bool.eqb eqb_spec2 who (step_n len) (fun b c => ctl (thr b c))
           other_step_ctl b s c H).
Qed.

Lemma finish c e : InvN len c -> pc (thr (who e) (exec_n len c (repeat e (remaining (thr (who e) c))))) = 0.
Proof.
  intros I.
  exact (G_finish cfg_n entry bool who (step_n len) (fun b c => ctl (thr b c)) (InvN len)
           (step_invn len Hlen) (fun c b => inv_ok len c b) (own_step_ctl len) e _ c I eq_refl).
Qed.

Lemma inv_exec s : forall c, InvN len c -> InvN len (exec_n len c s).
Proof. exact (Inv_run cfg_n entry (step_n len) (InvN len) (step_invn len Hlen) s). Qed.
End A.

(* ---- the statements of (A) for reachable configurations ---- *)
Theorem RAn_returns : forall len, 0 < len -> forall script s b,
  let c := exec_n len (init_n len) script in
  remaining (thr b c) <= own_steps b s ->
  exists s1 s2, s = s1 ++ s2 /\ own_steps b s1 = remaining (thr b c) /\ pc (thr b (exec_n len c s1)) = 0.
Proof. intros len Hlen script s b c H. apply RAn_returns_from; auto. apply exec_invn; auto. Qed.

Theorem RAn_remaining_bounded : forall len, 0 < len -> forall script b,
  remaining (thr b (exec_n len (init_n len) script)) <= len.
Proof. intros len Hlen script b. apply RAn_remaining_le; auto. apply exec_invn; auto. Qed.

Theorem RAn_operation_bounded : forall len, 0 < len -> forall script s b,
  let c := exec_n len (init_n len) script in
  len + 1 <= own_steps b s ->
  exists s1 s2, s = s1 ++ s2 /\ 1 <= own_steps b s1 /\ own_steps b s1 <= len + 1 /\
                pc (thr b (exec_n len c s1)) = 0.
Proof. intros len Hlen script s b c H. apply RAn_operation_from; auto. apply exec_invn; auto. Qed.

Theorem RAn_own_step : forall len, 0 < len -> forall script e,
  let c := exec_n len (init_n len) script in
  pc (thr (who e) c) <> 0 -> remaining (thr (who e) (step_n len c e)) + 1 = remaining (thr (who e) c).
Proof. intros len Hlen script e c H. apply RAn_own_step_decreases; auto. apply exec_invn; auto. Qed.

(* the other thread suspended for ever or gone: the thread alone finishes its operation *)
Theorem RAn_returns_alone : forall len, 0 < len -> forall script e,
  let c := exec_n len (init_n len) script in
  pc (thr (who e) (exec_n len c (repeat e (remaining (thr (who e) c))))) = 0.
Proof. intros len Hlen script e c. apply finish; auto. apply exec_invn; auto. Qed.

(** *** (B) *)
Section B.
Variable len : nat.
Hypothesis Hlen : 0 < len.

Lemma pick_latest lo n j : n - 1 <= Nat.max j lo -> pick lo n j = n - 1.
Proof. intros H. unfold pick. apply Nat.min_r. exact H. Qed.

(* the read is the latest message (by choice, or because the view is already there): the load is exact *)
Lemma loadC_fresh c j : InvN len c -> length (Mpi c) - 1 <= Nat.max j (vpi (V (C c))) ->
  loadC len j c = lastabs (Mpi c) - pos (C c).
Proof.
  intros I Hj. unfold loadC. rewrite pick_latest by exact Hj.
  pose proof (i_npi len c I) as Hn.
  assert (Hi : length (Mpi c) - 1 < length (Mpi c)) by lia.
  pose proof (Forall_nth_msg _ _ _ (i_mpi len c I) Hi) as [Hmv _].
  rewrite Hmv, (i_ixC len c I). fold (lastabs (Mpi c)). rewrite (i_lpi len c I).
  pose proof (posC_le_posPn len Hlen c I). pose proof (posP_ltn len Hlen c I).
  apply dist_mod; lia.
Qed.
Lemma loadP_fresh c j : InvN len c -> length (Mci c) - 1 <= Nat.max j (vci (V (P c))) ->
  loadP len j c = lastabs (Mci c) + len - 1 - pos (P c).
Proof.
  intros I Hj. unfold loadP. rewrite pick_latest by exact Hj.
  pose proof (i_nci len c I) as Hn.
  assert (Hi : length (Mci c) - 1 < length (Mci c)) by lia.
  pose proof (Forall_nth_msg _ _ _ (i_mci len c I) Hi) as [Hmv _].
  rewrite Hmv, (i_ixP len c I). fold (lastabs (Mci c)). rewrite (i_lci len c I).
  pose proof (posC_le_posPn len Hlen c I). pose proof (posP_ltn len Hlen c I).
  rewrite pavail_mod by lia. lia.
Qed.

(* any admissible read: the load never over-estimates, and is never below what the thread had seen *)
Lemma loadC_sound c j : InvN len c ->
  seenCn c - pos (C c) <= loadC len j c /\ loadC len j c <= lastabs (Mpi c) - pos (C c).
Proof.
  intros I. unfold loadC.
  destruct (i_vC len c I) as (V1 & _).
  pose proof (pick_bounds_n (vpi (V (C c))) (length (Mpi c)) j V1) as [Hi1 Hi2].
  set (i := pick (vpi (V (C c))) (length (Mpi c)) j) in *.
  pose proof (Forall_nth_msg _ _ i (i_mpi len c I) Hi2) as [Hmv _].
  pose proof (sorted_last_n _ i (i_spi len c I) Hi2) as Hl.
  assert (Hs : seenCn c <= mabs (nth i (Mpi c) dmsg)) by (unfold seenCn; apply (i_spi len c I); lia).
  pose proof (i_caC len c I) as Hca. pose proof (i_lpi len c I) as Hlp.
  pose proof (posP_ltn len Hlen c I).
  rewrite Hmv, (i_ixC len c I), dist_mod by lia. lia.
Qed.
Lemma loadP_sound c j : InvN len c ->
  seenPn c + len - 1 - pos (P c) <= loadP len j c /\ loadP len j c <= lastabs (Mci c) + len - 1 - pos (P c).
Proof.
  intros I. unfold loadP.
  destruct (i_vP len c I) as (_ & V2 & _).
  pose proof (pick_bounds_n (vci (V (P c))) (length (Mci c)) j V2) as [Hi1 Hi2].
  set (i := pick (vci (V (P c))) (length (Mci c)) j) in *.
  pose proof (Forall_nth_msg _ _ i (i_mci len c I) Hi2) as [Hmv _].
  pose proof (sorted_last_n _ i (i_sci len c I) Hi2) as Hl.
  assert (Hs : seenPn c <= mabs (nth i (Mci c) dmsg)) by (unfold seenPn; apply (i_sci len c I); lia).
  pose proof (i_caP len c I) as Hca. pose proof (i_lci len c I) as Hlc.
  pose proof (posC_le_posPn len Hlen c I). pose proof (posP_ltn len Hlen c I).
  rewrite Hmv, (i_ixP len c I), pavail_mod by lia. lia.
Qed.

(* the state of a thread after a step at pc 0 that has to load *)
Lemma knext_load a n0 k : kpc k = 0 -> kca k < Nat.max 1 n0 ->
  knext a n0 k = mkCtl (if Nat.max 1 n0 <=? a then 2 else 0) a (kpos k) (Nat.max 1 n0) 0.
Proof.
  intros H0 Hca. unfold knext. rewrite H0. cbv zeta.
  destruct (Nat.max 1 n0 <=? kca k) eqn:E; [apply Nat.leb_le in E; lia | reflexivity].
Qed.

Theorem fresh_look_C c j n0 :
  InvN len c -> pc (C c) = 0 -> ca (C c) < Nat.max 1 n0 ->
  length (Mpi c) - 1 <= Nat.max j (vpi (V (C c))) ->
  let c' := stepC_n len j n0 c in
  ca (C c') = lastabs (Mpi c) - pos (C c) /\ lastabs (Mpi c) = pos (P c) /\
  (pc (C c') = 2 /\ cnt (C c') = Nat.max 1 n0 /\ Nat.max 1 n0 <= pos (P c) - pos (C c) \/
   pc (C c') = 0 /\ pos (P c) - pos (C c) < Nat.max 1 n0).
Proof.
  intros I H0 Hca Hj c'.
  pose proof (stepC_ctl len j n0 c) as E. fold c' in E.
  rewrite (knext_load _ n0 (ctl (C c)) H0 Hca), (loadC_fresh c j I Hj) in E.
  pose proof (i_lpi len c I) as Hl.
  pose proof (f_equal kca E) as Eca. pose proof (f_equal kpc E) as Epc. pose proof (f_equal kcnt E) as Ecnt.
  cbn [ctl kca kpc kcnt] in Eca, Epc, Ecnt.
  splits; auto.
  destruct (Nat.max 1 n0 <=? lastabs (Mpi c) - pos (C c)) eqn:L;
    [apply Nat.leb_le in L; left | apply Nat.leb_gt in L; right]; splits; auto; lia.
Qed.

Theorem fresh_look_P c j n0 :
  InvN len c -> pc (P c) = 0 -> ca (P c) < Nat.max 1 n0 ->
  length (Mci c) - 1 <= Nat.max j (vci (V (P c))) ->
  let c' := stepP_n len j n0 c in
  ca (P c') = lastabs (Mci c) + len - 1 - pos (P c) /\ lastabs (Mci c) = pos (C c) /\
  (pc (P c') = 2 /\ cnt (P c') = Nat.max 1 n0 /\ Nat.max 1 n0 <= pos (C c) + len - 1 - pos (P c) \/
   pc (P c') = 0 /\ pos (C c) + len - 1 - pos (P c) < Nat.max 1 n0).
Proof.
  intros I H0 Hca Hj c'.
  pose proof (stepP_ctl len j n0 c) as E. fold c' in E.
  rewrite (knext_load _ n0 (ctl (P c)) H0 Hca), (loadP_fresh c j I Hj) in E.
  pose proof (i_lci len c I) as Hl.
  pose proof (f_equal kca E) as Eca. pose proof (f_equal kpc E) as Epc. pose proof (f_equal kcnt E) as Ecnt.
  cbn [ctl kca kpc kcnt] in Eca, Epc, Ecnt.
  splits; auto.
  destruct (Nat.max 1 n0 <=? lastabs (Mci c) + len - 1 - pos (P c)) eqn:L;
    [apply Nat.leb_le in L; left | apply Nat.leb_gt in L; right]; splits; auto; lia.
Qed.

(* a stale look: never more than the truth *)
Theorem stale_look_C c j n0 :
  InvN len c -> pc (C c) = 0 -> ca (C c) < Nat.max 1 n0 ->
  ca (C (stepC_n len j n0 c)) <= pos (P c) - pos (C c).
Proof.
  intros I H0 Hca. pose proof (stepC_ctl len j n0 c) as E.
  rewrite (knext_load _ n0 (ctl (C c)) H0 Hca) in E. pose proof (f_equal kca E) as Eca. cbn [ctl kca] in Eca.
  rewrite Eca, <- (i_lpi len c I). apply loadC_sound; auto.
Qed.
Theorem stale_look_P c j n0 :
  InvN len c -> pc (P c) = 0 -> ca (P c) < Nat.max 1 n0 ->
  ca (P (stepP_n len j n0 c)) <= pos (C c) + len - 1 - pos (P c).
Proof.
  intros I H0 Hca. pose proof (stepP_ctl len j n0 c) as E.
  rewrite (knext_load _ n0 (ctl (P c)) H0 Hca) in E. pose proof (f_equal kca E) as Eca. cbn [ctl kca] in Eca.
  rewrite Eca, <- (i_lci len c I). apply loadP_sound; auto.
Qed.
End B.

(* ---- the statements of (B) for reachable configurations ---- *)
Theorem RAn_fresh_look_consumer : forall len, 0 < len -> forall script j n0,
  let c := exec_n len (init_n len) script in
  pc (C c) = 0 -> ca (C c) < Nat.max 1 n0 ->
  length (Mpi c) - 1 <= Nat.max j (vpi (V (C c))) ->
  let c' := stepC_n len j n0 c in
  ca (C c') = lastabs (Mpi c) - pos (C c) /\ lastabs (Mpi c) = pos (P c) /\
  (pc (C c') = 2 /\ cnt (C c') = Nat.max 1 n0 /\ Nat.max 1 n0 <= pos (P c) - pos (C c) \/
   pc (C c') = 0 /\ pos (P c) - pos (C c) < Nat.max 1 n0).
Proof. intros len Hlen script j n0 c. apply fresh_look_C; auto. apply exec_invn; auto. Qed.

Theorem RAn_fresh_look_producer : forall len, 0 < len -> forall script j n0,
  let c := exec_n len (init_n len) script in
  pc (P c) = 0 -> ca (P c) < Nat.max 1 n0 ->
  length (Mci c) - 1 <= Nat.max j (vci (V (P c))) ->
  let c' := stepP_n len j n0 c in
  ca (P c') = lastabs (Mci c) + len - 1 - pos (P c) /\ lastabs (Mci c) = pos (C c) /\
  (pc (P c') = 2 /\ cnt (P c') = Nat.max 1 n0 /\ Nat.max 1 n0 <= pos (C c) + len - 1 - pos (P c) \/
   pc (P c') = 0 /\ pos (C c) + len - 1 - pos (P c) < Nat.max 1 n0).
Proof. intros len Hlen script j n0 c. apply fresh_look_P; auto. apply exec_invn; auto. Qed.

Theorem RAn_load_sound : forall len, 0 < len -> forall script j n0,
  let c := exec_n len (init_n len) script in
  (pc (C c) = 0 -> ca (C c) < Nat.max 1 n0 -> ca (C (stepC_n len j n0 c)) <= pos (P c) - pos (C c)) /\
  (pc (P c) = 0 -> ca (P c) < Nat.max 1 n0 -> ca (P (stepP_n len j n0 c)) <= pos (C c) + len - 1 - pos (P c)).
Proof.
  intros len Hlen script j n0 c. pose proof (exec_invn len Hlen script) as I. fold c in I.
  split; intros; [apply stale_look_C | apply stale_look_P]; auto.
Qed.

(** *** (C) *)
Definition eP : entry := (true, 0, 0).     (* inside an operation the read choice and the count are ignored *)
Definition eC : entry := (false, 0, 0).
(* one pop of one item with a fresh look (read choice J): check, read the slot, publish *)
Definition pop3 (J : nat) : list entry := [(false, J, 1); (false, J, 1); (false, J, 1)].

Definition drain (len : nat) (c : cfg_n) : list entry :=
  let s1 := repeat eP (remaining (P c)) in
  let c1 := exec_n len c s1 in
  let s2 := repeat eC (remaining (C c1)) in
  let c2 := exec_n len c1 s2 in
  s1 ++ s2 ++ concat (repeat (pop3 (length (Mpi c2))) (pos (P c2) - pos (C c2))).

Section C.
Variable len : nat.
Hypothesis Hlen : 0 < len.

Lemma exec_app c s1 s2 : exec_n len c (s1 ++ s2) = exec_n len (exec_n len c s1) s2.
Proof. apply fold_left_app. Qed.

Lemma step_n_C c j n : step_n len c (false, j, n) = stepC_n len j n c.
Proof. reflexivity. Qed.

Lemma stepC_facts c j n : InvN len c ->
  InvN len (stepC_n len j n c) /\ P (stepC_n len j n c) = P c /\ Mpi (stepC_n len j n c) = Mpi c /\
  ctl (C (stepC_n len j n c)) = knext (loadC len j c) n (ctl (C c)).
Proof.
  intros I. destruct (stepC_frame len j n c) as [F F']. splits; auto.
  - exact (step_invn len Hlen c (false, j, n) I).
  - apply stepC_ctl.
Qed.

(* (the intermediate configurations are generalised at once: conversion must never look inside them) *)
Lemma popC P0 M0 J c :
  length M0 - 1 <= J ->
  InvN len c -> (P c = P0 /\ Mpi c = M0) -> pc (C c) = 0 -> pos (C c) < pos (P c) ->
  let c' := fold_left (step_n len) (pop3 J) c in
  InvN len c' /\ (P c' = P0 /\ Mpi c' = M0) /\ pc (C c') = 0 /\ pos (C c') = pos (C c) + 1 /\
  pos (P c') = pos (P c).
Proof.
  intros HJ I [GP GM] H0 Hlt c'. subst c'. unfold pop3. rewrite fold3, !step_n_C.
  assert (Ha : kca (ctl (C c)) < 1 -> 1 <= loadC len J c).
  { intros _. rewrite loadC_fresh; auto; [|rewrite GM; lia]. rewrite (i_lpi len c I). lia. }
  destruct (stepC_facts c J 1 I) as (I1 & F1 & F1' & E1).
  revert I1 F1 F1' E1. generalize (stepC_n len J 1 c). intros c1 I1 F1 F1' E1.
  destruct (stepC_facts c1 J 1 I1) as (I2 & F2 & F2' & E2).
  revert I2 F2 F2' E2. generalize (stepC_n len J 1 c1). intros c2 I2 F2 F2' E2.
  destruct (stepC_facts c2 J 1 I2) as (I3 & F3 & F3' & E3).
  revert I3 F3 F3' E3. generalize (stepC_n len J 1 c2). intros c3 I3 F3 F3' E3.
  rewrite E1 in E2. rewrite E2 in E3.
  destruct (kpop1 (loadC len J c) (loadC len J c1) (loadC len J c2) (ctl (C c)) H0 Ha) as [K1 K2].
  rewrite <- E3 in K1, K2. cbn [ctl kpc kpos] in K1, K2.
  splits; auto; congruence.
Qed.

Theorem drains_from c : InvN len c ->
  let c' := exec_n len c (drain len c) in
  pc (P c') = 0 /\ pc (C c') = 0 /\ pos (C c') = pos (P c').
Proof.
  intros I. unfold drain.
  set (s1 := repeat eP (remaining (P c))). set (c1 := exec_n len c s1).
  set (s2 := repeat eC (remaining (C c1))). set (c2 := exec_n len c1 s2).
  set (s3 := concat _). cbv zeta.
  rewrite !exec_app. fold c1. fold c2.
  assert (I1 : InvN len c1) by (apply inv_exec; auto).
  assert (I2 : InvN len c2) by (apply inv_exec; auto).
  assert (HP1 : pc (P c1) = 0) by exact (finish len Hlen c eP I).
  assert (HC2 : pc (C c2) = 0) by exact (finish len Hlen c1 eC I1).
  assert (HP2 : pc (P c2) = 0).
  { pose proof (RAn_others_invisible len c1 true s2 (count_repeat_false _ eC _ eq_refl)) as E.
    pose proof (f_equal kpc E) as E'. cbn [ctl thr kpc] in E'. fold c2 in E'. congruence. }
  pose proof (posC_le_posPn len Hlen c2 I2) as Hle.
  destruct (catch_up cfg_n entry (step_n len) (InvN len) (fun x => P x = P c2 /\ Mpi x = Mpi c2)
              (pop3 (length (Mpi c2))) (fun x => pos (C x)) (fun x => pos (P x)) (fun x => pc (C x))
              (fun x => popC (P c2) (Mpi c2) (length (Mpi c2)) x ltac:(lia))
              (pos (P c2) - pos (C c2)) c2 I2 (conj eq_refl eq_refl) HC2 ltac:(lia))
    as (I3 & [G3 _] & H3 & Hp3 & _).
  fold s3 in I3, G3, H3, Hp3. change (fold_left (step_n len) s3 c2) with (exec_n len c2 s3) in *.
  splits; auto. rewrite G3; exact HP2.
Qed.
End C.

(* from every reachable configuration some continuation drains the ring *)
Theorem RAn_drains : forall len, 0 < len -> forall script, exists s',
  let c' := exec_n len (init_n len) (script ++ s') in
  pc (P c') = 0 /\ pc (C c') = 0 /\ pos (C c') = pos (P c').
Proof.
  intros len Hlen script. exists (drain len (exec_n len (init_n len) script)).
  cbv zeta. rewrite exec_app. apply drains_from; auto. apply exec_invn; auto.
Qed.

(** *** Examples, len = 4 *)
Definition after_push3 := exec_n 4 (init_n 4) [sP 3; sP 3; sP 3; sP 3; sP 3].   (* P has published 3 items *)
(* (B) a stale read (choice 0: the initial message) sees nothing and refuses; a fresh read sees all 3 *)
Example stale_vs_fresh :
  let st := stepC_n 4 0 2 after_push3 in let fr := stepC_n 4 99 2 after_push3 in
  (ca (C st), pc (C st)) = (0, 0) /\ (ca (C fr), pc (C fr)) = (3, 2) /\
  pos (P after_push3) - pos (C after_push3) = 3.
Proof. vm_compute. auto. Qed.
(* once the consumer's view has reached the producer's latest message, even read choice 0 is exact *)
Example synchronised_is_exact :
  let c := exec_n 4 after_push3 [sC 1; sC 1; sC 1; (false, 0, 2)] in (ca (C c), pc (C c)) = (2, 2).
Proof. vm_compute. auto. Qed.
(* (C) both threads in the middle of an operation (P about to publish a 3rd item, C has read 1 of a window of 2
   and has a stale view of the rest): [drain] = P finishes (1 step), C finishes (2 steps), C pops 1 item with
   a fresh look (3 steps); afterwards everything published has been consumed *)
Definition midway := exec_n 4 (init_n 4) [sP 2; sP 2; sP 2; sP 2; (false, 0, 1); sC 2; sC 2; sP 1; sP 1].
Example drain_midway :
  summary midway = (false, (2, 6, 1, 3), (0, 4, 2, 2)) /\
  drain 4 midway = [(true, 0, 0); (false, 0, 0); (false, 0, 0); (false, 3, 1); (false, 3, 1); (false, 3, 1)] /\
  summary (exec_n 4 midway (drain 4 midway)) = (false, (3, 7, 0, 0), (3, 7, 0, 0)).
Proof. vm_compute. auto. Qed.
End Two.

(* ================================================================================================ *)
(** ** The three-stage machine RA3n.v *)
Module Three.
Import MRB.Conc.RA MRB.Conc.RA3 MRB.Conc.RA3proof MRB.Conc.RA3n MRB.Conc.RA3nproof.

Definition entry := (tid * nat * nat)%type.
Definition who (e : entry) : tid := fst (fst e).
Definition thr (t : tid) (c : cfg3n) : thr3n := match t with TP => P3 c | TW => W3 c | TC => C3 c end.
Definition ctl (t : thr3n) : kctl := mkCtl (pc3 t) (ca3 t) (pos3 t) (cnt3 t) (off3 t).
Definition tid_eqb (a b : tid) : bool :=
  match a, b with TP, TP | TW, TW | TC, TC => true | _, _ => false end.

(* number of script entries of thread t *)
Definition own_steps (t : tid) (s : list entry) : nat := count (fun e => tid_eqb (who e) t) s.
(* own steps the thread still needs to finish the operation it is in *)
Definition remaining (t : thr3n) : nat :=
  match pc3 t with 2 => cnt3 t - off3 t + 1 | 3 => 1 | _ => 0 end.

(* the availability a load with read choice j would compute: P follows C, W follows P, C follows W *)
Definition loadP (len j : nat) (c : cfg3n) : nat :=
  pavail len (ix3 (P3 c)) (mval3 (nth (pick (vci3 (V3 (P3 c))) (length (Mci3 c)) j) (Mci3 c) dmsg3)).
Definition loadW (len j : nat) (c : cfg3n) : nat :=
  dist len (ix3 (W3 c)) (mval3 (nth (pick (vpi3 (V3 (W3 c))) (length (Mpi3 c)) j) (Mpi3 c) dmsg3)).
Definition loadC (len j : nat) (c : cfg3n) : nat :=
  dist len (ix3 (C3 c)) (mval3 (nth (pick (vwi3 (V3 (C3 c))) (length (Mwi3 c)) j) (Mwi3 c) dmsg3)).

Lemma stepP_ctl len j n0 c : ctl (P3 (stepP3_n len j n0 c)) = knext (loadP len j c) n0 (ctl (P3 c)).
Proof.
  unfold stepP3_n, stepP3_a, knext, ctl, loadP. cbn [kpc kca kpos kcnt koff].
  destruct (pc3 (P3 c)) as [|[|[|[|p]]]] eqn:E; cbv beta iota zeta; rewrite ?E; try reflexivity.
  destruct (Nat.max 1 n0 <=? ca3 (P3 c)); reflexivity.
Qed.
Lemma stepW_ctl len j n0 c : ctl (W3 (stepW3_n len j n0 c)) = knext (loadW len j c) n0 (ctl (W3 c)).
Proof.
  unfold stepW3_n, stepW3_a, knext, ctl, loadW. cbn [kpc kca kpos kcnt koff].
  destruct (pc3 (W3 c)) as [|[|[|[|p]]]] eqn:E; cbv beta iota zeta; rewrite ?E; try reflexivity.
  destruct (Nat.max 1 n0 <=? ca3 (W3 c)); reflexivity.
Qed.
Lemma stepC_ctl len j n0 c : ctl (C3 (stepC3_n len j n0 c)) = knext (loadC len j c) n0 (ctl (C3 c)).
Proof.
  unfold stepC3_n, stepC3_a, knext, ctl, loadC. cbn [kpc kca kpos kcnt koff].
  destruct (pc3 (C3 c)) as [|[|[|[|p]]]] eqn:E; cbv beta iota zeta; rewrite ?E; try reflexivity.
  destruct (Nat.max 1 n0 <=? ca3 (C3 c)); reflexivity.
Qed.

(* what a step of one thread leaves alone: the other threads' whole records and the other threads' indices *)
Lemma stepP_frame len j n0 c :
  W3 (stepP3_n len j n0 c) = W3 c /\ C3 (stepP3_n len j n0 c) = C3 c /\
  Mwi3 (stepP3_n len j n0 c) = Mwi3 c /\ Mci3 (stepP3_n len j n0 c) = Mci3 c.
Proof.
  unfold stepP3_n, stepP3_a.
  destruct (pc3 (P3 c)) as [|[|[|[|p]]]]; cbv beta iota zeta; try (splits; reflexivity).
  destruct (Nat.max 1 n0 <=? ca3 (P3 c)); splits; reflexivity.
Qed.
Lemma stepW_frame len j n0 c :
  P3 (stepW3_n len j n0 c) = P3 c /\ C3 (stepW3_n len j n0 c) = C3 c /\
  Mpi3 (stepW3_n len j n0 c) = Mpi3 c /\ Mci3 (stepW3_n len j n0 c) = Mci3 c.
Proof.
  unfold stepW3_n, stepW3_a.
  destruct (pc3 (W3 c)) as [|[|[|[|p]]]]; cbv beta iota zeta; try (splits; reflexivity).
  destruct (Nat.max 1 n0 <=? ca3 (W3 c)); splits; reflexivity.
Qed.
Lemma stepC_frame len j n0 c :
  P3 (stepC3_n len j n0 c) = P3 c /\ W3 (stepC3_n len j n0 c) = W3 c /\
  Mpi3 (stepC3_n len j n0 c) = Mpi3 c /\ Mwi3 (stepC3_n len j n0 c) = Mwi3 c.
Proof.
  unfold stepC3_n, stepC3_a.
  destruct (pc3 (C3 c)) as [|[|[|[|p]]]]; cbv beta iota zeta; try (splits; reflexivity).
  destruct (Nat.max 1 n0 <=? ca3 (C3 c)); splits; reflexivity.
Qed.

(** *** (A) *)
(* NON-INTERFERENCE: a step of another thread leaves the thread record (pc, off, cnt, ca, pos, view) as it is *)
Theorem RA3n_other_step len c e t : who e <> t -> thr t (step3_n len c e) = thr t c.
Proof.
  destruct e as [[[| |] j] n0]; destruct t; cbn [who fst thr]; intros H; try congruence.
  - exact (proj1 (stepP_frame len j n0 c)).
  - exact (proj1 (proj2 (stepP_frame len j n0 c))).
  - exact (proj1 (stepW_frame len j n0 c)).
  - exact (proj1 (proj2 (stepW_frame len j n0 c))).
  - exact (proj1 (stepC_frame len j n0 c)).
  - exact (proj1 (proj2 (stepC_frame len j n0 c))).
Qed.

Lemma own_step_ctl len c e :
  exists a n0, ctl (thr (who e) (step3_n len c e)) = knext a n0 (ctl (thr (who e) c)).
Proof.
  destruct e as [[[| |] j] n0]; cbn [who fst thr].
  - exists (loadP len j c), n0. exact (stepP_ctl len j n0 c).
  - exists (loadW len j c), n0. exact (stepW_ctl len j n0 c).
  - exists (loadC len j c), n0. exact (stepC_ctl len j n0 c).
Qed.

Lemma inv_ok len c t : Inv3n len c -> kok (ctl (thr t c)).
Proof. intros I. destruct t; [exact (k_pcP len c I) | exact (k_pcW len c I) | exact (k_pcC len c I)]. Qed.

Lemma tid_eqb_spec : forall a b : tid, tid_eqb a b = true <-> a = b.
Proof. intros [| |] [| |]; cbn; split; intros H; try reflexivity; try discriminate. Qed.

Section A.
Variable len : nat.
Hypothesis Hlen : 0 < len.

Lemma inv_cap c t : Inv3n len c -> kca (ctl (thr t c)) + 1 <= len.
Proof.
  intros I. destruct (order3n len Hlen c I) as (_&_&_&_&_&_&HP&HW&HC). destruct t; cbn [ctl thr kca]; assumption.
Qed.

Lemma other_step_ctl c e t : who e <> t -> ctl (thr t (step3_n len c e)) = ctl (thr t c).
Proof. intros H. rewrite RA3n_other_step; auto. Qed.

(* an own step inside an operation: one step closer to returning *)
Theorem RA3n_own_step_decreases c e :
  Inv3n len c -> pc3 (thr (who e) c) <> 0 ->
  remaining (thr (who e) (step3_n len c e)) + 1 = remaining (thr (who e) c).
Proof.
  intros I Hne.
  exact (G_own_dec cfg3n entry tid who (step3_n len) (fun t c => ctl (thr t c)) (Inv3n len)
           (fun c t => inv_ok len c t) (own_step_ctl len) c e I Hne).
Qed.

Theorem RA3n_remaining_le c t : Inv3n len c -> remaining (thr t c) <= len.
Proof.
  intros I.
  exact (G_rem_le cfg3n tid (fun t c => ctl (thr t c)) (Inv3n len) len
           (fun c t => inv_ok len c t) inv_cap c t I).
Qed.

Theorem RA3n_returns_from c t s :
  Inv3n len c -> remaining (thr t c) <= own_steps t s ->
  exists s1 s2, s = s1 ++ s2 /\ own_steps t s1 = remaining (thr t c) /\ pc3 (thr t (exec3_n len c s1)) = 0.
Proof.
  intros I H.
  exact (G_returns cfg3n entry tid tid_eqb tid_eqb_spec who (step3_n len) (fun t c => ctl (thr t c)) (Inv3n len)
           (step3n_inv len Hlen) (fun c t => inv_ok len c t) (own_step_ctl len) other_step_ctl t s c I H).
Qed.

Theorem RA3n_operation_from c t s :
  Inv3n len c -> len + 1 <= own_steps t s ->
  exists s1 s2, s = s1 ++ s2 /\ 1 <= own_steps t s1 /\ own_steps t s1 <= len + 1 /\
                pc3 (thr t (exec3_n len c s1)) = 0.
Proof.
  intros I H.
  exact (G_operation cfg3n entry tid tid_eqb tid_eqb_spec who (step3_n len) (fun t c => ctl (thr t c)) (Inv3n len)
           len (step3n_inv len Hlen) (fun c t => inv_ok len c t) inv_cap (own_step_ctl len) other_step_ctl
           t s c I H).
Qed.

Theorem RA3n_others_invisible c t s : own_steps t s = 0 -> ctl (thr t (exec3_n len c s)) = ctl (thr t c).
Proof.
  intros H.
  exact (G_other_run cfg3n entry tid tid_eqb tid_eqb_spec who (step3_n len) (fun t c => ctl (thr t c))
           other_step_ctl t s c H).
Qed.

Lemma finish c e : Inv3n len c -> pc3 (thr (who e) (exec3_n len c (repeat e (remaining (thr (who e) c))))) = 0.
Proof.
  intros I.
  exact (G_finish cfg3n entry tid who (step3_n len) (fun t c => ctl (thr t c)) (Inv3n len)
           (step3n_inv len Hlen) (fun c t => inv_ok len c t) (own_step_ctl len) e _ c I eq_refl).
Qed.

Lemma inv_exec s : forall c, Inv3n len c -> Inv3n len (exec3_n len c s).
Proof. exact (Inv_run cfg3n entry (step3_n len) (Inv3n len) (step3n_inv len Hlen) s). Qed.
End A.

(* ---- the statements of (A) for reachable configurations ---- *)
Theorem RA3n_returns : forall len, 0 < len -> forall script s t,
  let c := exec3_n len (init3_n len) script in
  remaining (thr t c) <= own_steps t s ->
  exists s1 s2, s = s1 ++ s2 /\ own_steps t s1 = remaining (thr t c) /\ pc3 (thr t (exec3_n len c s1)) = 0.
Proof. intros len Hlen script s t c H. apply RA3n_returns_from; auto. apply exec3n_inv; auto. Qed.

Theorem RA3n_remaining_bounded : forall len, 0 < len -> forall script t,
  remaining (thr t (exec3_n len (init3_n len) script)) <= len.
Proof. intros len Hlen script t. apply RA3n_remaining_le; auto. apply exec3n_inv; auto. Qed.

Theorem RA3n_operation_bounded : forall len, 0 < len -> forall script s t,
  let c := exec3_n len (init3_n len) script in
  len + 1 <= own_steps t s ->
  exists s1 s2, s = s1 ++ s2 /\ 1 <= own_steps t s1 /\ own_steps t s1 <= len + 1 /\
                pc3 (thr t (exec3_n len c s1)) = 0.
Proof. intros len Hlen script s t c H. apply RA3n_operation_from; auto. apply exec3n_inv; auto. Qed.

Theorem RA3n_own_step : forall len, 0 < len -> forall script e,
  let c := exec3_n len (init3_n len) script in
  pc3 (thr (who e) c) <> 0 -> remaining (thr (who e) (step3_n len c e)) + 1 = remaining (thr (who e) c).
Proof. intros len Hlen script e c H. apply RA3n_own_step_decreases; auto. apply exec3n_inv; auto. Qed.

(* the other threads suspended for ever or gone: the thread alone finishes its operation *)
Theorem RA3n_returns_alone : forall len, 0 < len -> forall script e,
  let c := exec3_n len (init3_n len) script in
  pc3 (thr (who e) (exec3_n len c (repeat e (remaining (thr (who e) c))))) = 0.
Proof. intros len Hlen script e c. apply finish; auto. apply exec3n_inv; auto. Qed.

(** *** (B) *)
Section B.
Variable len : nat.
Hypothesis Hlen : 0 < len.

Lemma pick_latest lo n j : n - 1 <= Nat.max j lo -> pick lo n j = n - 1.
Proof. intros H. unfold pick. apply Nat.min_r. exact H. Qed.

Lemma loadW_fresh c j : Inv3n len c -> length (Mpi3 c) - 1 <= Nat.max j (vpi3 (V3 (W3 c))) ->
  loadW len j c = lastabs3 (Mpi3 c) - pos3 (W3 c).
Proof.
  intros I Hj. unfold loadW. rewrite pick_latest by exact Hj.
  pose proof (k_npi len c I) as Hn.
  assert (Hi : length (Mpi3 c) - 1 < length (Mpi3 c)) by lia.
  pose proof (Forall_nth_msg3 _ _ _ (k_mpi len c I) Hi) as [Hmv _].
  rewrite Hmv, (k_ixW len c I). fold (lastabs3 (Mpi3 c)). rewrite (k_lpi len c I).
  destruct (order3n len Hlen c I) as (O1&O2&O3&_).
  apply dist_mod; lia.
Qed.
Lemma loadC_fresh c j : Inv3n len c -> length (Mwi3 c) - 1 <= Nat.max j (vwi3 (V3 (C3 c))) ->
  loadC len j c = lastabs3 (Mwi3 c) - pos3 (C3 c).
Proof.
  intros I Hj. unfold loadC. rewrite pick_latest by exact Hj.
  pose proof (k_nwi len c I) as Hn.
  assert (Hi : length (Mwi3 c) - 1 < length (Mwi3 c)) by lia.
  pose proof (Forall_nth_msg3 _ _ _ (k_mwi len c I) Hi) as [Hmv _].
  rewrite Hmv, (k_ixC len c I). fold (lastabs3 (Mwi3 c)). rewrite (k_lwi len c I).
  destruct (order3n len Hlen c I) as (O1&O2&O3&_).
  apply dist_mod; lia.
Qed.
Lemma loadP_fresh c j : Inv3n len c -> length (Mci3 c) - 1 <= Nat.max j (vci3 (V3 (P3 c))) ->
  loadP len j c = lastabs3 (Mci3 c) + len - 1 - pos3 (P3 c).
Proof.
  intros I Hj. unfold loadP. rewrite pick_latest by exact Hj.
  pose proof (k_nci len c I) as Hn.
  assert (Hi : length (Mci3 c) - 1 < length (Mci3 c)) by lia.
  pose proof (Forall_nth_msg3 _ _ _ (k_mci len c I) Hi) as [Hmv _].
  rewrite Hmv, (k_ixP len c I). fold (lastabs3 (Mci3 c)). rewrite (k_lci len c I).
  destruct (order3n len Hlen c I) as (O1&O2&O3&_).
  rewrite pavail_mod by lia. lia.
Qed.

(* any admissible read: the load never over-estimates, and is never below what the thread had seen *)
Lemma loadW_sound c j : Inv3n len c ->
  seenW3n c - pos3 (W3 c) <= loadW len j c /\ loadW len j c <= lastabs3 (Mpi3 c) - pos3 (W3 c).
Proof.
  intros I. unfold loadW.
  destruct (k_vW len c I) as (V1 & _).
  pose proof (pick_bounds3n (vpi3 (V3 (W3 c))) (length (Mpi3 c)) j V1) as [Hi1 Hi2].
  set (i := pick (vpi3 (V3 (W3 c))) (length (Mpi3 c)) j) in *.
  pose proof (Forall_nth_msg3 _ _ i (k_mpi len c I) Hi2) as [Hmv _].
  pose proof (sorted3_last_n _ i (k_spi len c I) Hi2) as Hl.
  assert (Hs : seenW3n c <= mabs3 (nth i (Mpi3 c) dmsg3)) by (unfold seenW3n; apply (k_spi len c I); lia).
  pose proof (k_caW len c I) as Hca. pose proof (k_lpi len c I) as Hlp.
  destruct (order3n len Hlen c I) as (O1&O2&O3&_).
  rewrite Hmv, (k_ixW len c I), dist_mod by lia. lia.
Qed.
Lemma loadC_sound c j : Inv3n len c ->
  seenC3n c - pos3 (C3 c) <= loadC len j c /\ loadC len j c <= lastabs3 (Mwi3 c) - pos3 (C3 c).
Proof.
  intros I. unfold loadC.
  destruct (k_vC len c I) as (_ & V2 & _).
  pose proof (pick_bounds3n (vwi3 (V3 (C3 c))) (length (Mwi3 c)) j V2) as [Hi1 Hi2].
  set (i := pick (vwi3 (V3 (C3 c))) (length (Mwi3 c)) j) in *.
  pose proof (Forall_nth_msg3 _ _ i (k_mwi len c I) Hi2) as [Hmv _].
  pose proof (sorted3_last_n _ i (k_swi len c I) Hi2) as Hl.
  assert (Hs : seenC3n c <= mabs3 (nth i (Mwi3 c) dmsg3)) by (unfold seenC3n; apply (k_swi len c I); lia).
  pose proof (k_caC len c I) as Hca. pose proof (k_lwi len c I) as Hlp.
  destruct (order3n len Hlen c I) as (O1&O2&O3&_).
  rewrite Hmv, (k_ixC len c I), dist_mod by lia. lia.
Qed.
Lemma loadP_sound c j : Inv3n len c ->
  seenP3n c + len - 1 - pos3 (P3 c) <= loadP len j c /\
  loadP len j c <= lastabs3 (Mci3 c) + len - 1 - pos3 (P3 c).
Proof.
  intros I. unfold loadP.
  destruct (k_vP len c I) as (_ & _ & V3' & _).
  pose proof (pick_bounds3n (vci3 (V3 (P3 c))) (length (Mci3 c)) j V3') as [Hi1 Hi2].
  set (i := pick (vci3 (V3 (P3 c))) (length (Mci3 c)) j) in *.
  pose proof (Forall_nth_msg3 _ _ i (k_mci len c I) Hi2) as [Hmv _].
  pose proof (sorted3_last_n _ i (k_sci len c I) Hi2) as Hl.
  assert (Hs : seenP3n c <= mabs3 (nth i (Mci3 c) dmsg3)) by (unfold seenP3n; apply (k_sci len c I); lia).
  pose proof (k_caP len c I) as Hca. pose proof (k_lci len c I) as Hlc.
  destruct (order3n len Hlen c I) as (O1&O2&O3&_).
  rewrite Hmv, (k_ixP len c I), pavail_mod by lia. lia.
Qed.

Lemma knext_load a n0 k : kpc k = 0 -> kca k < Nat.max 1 n0 ->
  knext a n0 k = mkCtl (if Nat.max 1 n0 <=? a then 2 else 0) a (kpos k) (Nat.max 1 n0) 0.
Proof.
  intros H0 Hca. unfold knext. rewrite H0. cbv zeta.
  destruct (Nat.max 1 n0 <=? kca k) eqn:E; [apply Nat.leb_le in E; lia | reflexivity].
Qed.

Theorem fresh_look_W c j n0 :
  Inv3n len c -> pc3 (W3 c) = 0 -> ca3 (W3 c) < Nat.max 1 n0 ->
  length (Mpi3 c) - 1 <= Nat.max j (vpi3 (V3 (W3 c))) ->
  let c' := stepW3_n len j n0 c in
  ca3 (W3 c') = lastabs3 (Mpi3 c) - pos3 (W3 c) /\ lastabs3 (Mpi3 c) = pos3 (P3 c) /\
  (pc3 (W3 c') = 2 /\ cnt3 (W3 c') = Nat.max 1 n0 /\ Nat.max 1 n0 <= pos3 (P3 c) - pos3 (W3 c) \/
   pc3 (W3 c') = 0 /\ pos3 (P3 c) - pos3 (W3 c) < Nat.max 1 n0).
Proof.
  intros I H0 Hca Hj c'.
  pose proof (stepW_ctl len j n0 c) as E. fold c' in E.
  rewrite (knext_load _ n0 (ctl (W3 c)) H0 Hca), (loadW_fresh c j I Hj) in E.
  pose proof (k_lpi len c I) as Hl.
  pose proof (f_equal kca E) as Eca. pose proof (f_equal kpc E) as Epc. pose proof (f_equal kcnt E) as Ecnt.
  cbn [ctl kca kpc kcnt] in Eca, Epc, Ecnt.
  splits; auto.
  destruct (Nat.max 1 n0 <=? lastabs3 (Mpi3 c) - pos3 (W3 c)) eqn:L;
    [apply Nat.leb_le in L; left | apply Nat.leb_gt in L; right]; splits; auto; lia.
Qed.

Theorem fresh_look_C c j n0 :
  Inv3n len c -> pc3 (C3 c) = 0 -> ca3 (C3 c) < Nat.max 1 n0 ->
  length (Mwi3 c) - 1 <= Nat.max j (vwi3 (V3 (C3 c))) ->
  let c' := stepC3_n len j n0 c in
  ca3 (C3 c') = lastabs3 (Mwi3 c) - pos3 (C3 c) /\ lastabs3 (Mwi3 c) = pos3 (W3 c) /\
  (pc3 (C3 c') = 2 /\ cnt3 (C3 c') = Nat.max 1 n0 /\ Nat.max 1 n0 <= pos3 (W3 c) - pos3 (C3 c) \/
   pc3 (C3 c') = 0 /\ pos3 (W3 c) - pos3 (C3 c) < Nat.max 1 n0).
Proof.
  intros I H0 Hca Hj c'.
  pose proof (stepC_ctl len j n0 c) as E. fold c' in E.
  rewrite (knext_load _ n0 (ctl (C3 c)) H0 Hca), (loadC_fresh c j I Hj) in E.
  pose proof (k_lwi len c I) as Hl.
  pose proof (f_equal kca E) as Eca. pose proof (f_equal kpc E) as Epc. pose proof (f_equal kcnt E) as Ecnt.
  cbn [ctl kca kpc kcnt] in Eca, Epc, Ecnt.
  splits; auto.
  destruct (Nat.max 1 n0 <=? lastabs3 (Mwi3 c) - pos3 (C3 c)) eqn:L;
    [apply Nat.leb_le in L; left | apply Nat.leb_gt in L; right]; splits; auto; lia.
Qed.

Theorem fresh_look_P c j n0 :
  Inv3n len c -> pc3 (P3 c) = 0 -> ca3 (P3 c) < Nat.max 1 n0 ->
  length (Mci3 c) - 1 <= Nat.max j (vci3 (V3 (P3 c))) ->
  let c' := stepP3_n len j n0 c in
  ca3 (P3 c') = lastabs3 (Mci3 c) + len - 1 - pos3 (P3 c) /\ lastabs3 (Mci3 c) = pos3 (C3 c) /\
  (pc3 (P3 c') = 2 /\ cnt3 (P3 c') = Nat.max 1 n0 /\ Nat.max 1 n0 <= pos3 (C3 c) + len - 1 - pos3 (P3 c) \/
   pc3 (P3 c') = 0 /\ pos3 (C3 c) + len - 1 - pos3 (P3 c) < Nat.max 1 n0).
Proof.
  intros I H0 Hca Hj c'.
  pose proof (stepP_ctl len j n0 c) as E. fold c' in E.
  rewrite (knext_load _ n0 (ctl (P3 c)) H0 Hca), (loadP_fresh c j I Hj) in E.
  pose proof (k_lci len c I) as Hl.
  pose proof (f_equal kca E) as Eca. pose proof (f_equal kpc E) as Epc. pose proof (f_equal kcnt E) as Ecnt.
  cbn [ctl kca kpc kcnt] in Eca, Epc, Ecnt.
  splits; auto.
  destruct (Nat.max 1 n0 <=? lastabs3 (Mci3 c) + len - 1 - pos3 (P3 c)) eqn:L;
    [apply Nat.leb_le in L; left | apply Nat.leb_gt in L; right]; splits; auto; lia.
Qed.

(* a stale look: never more than the truth *)
Theorem stale_look c j n0 : Inv3n len c ->
  (pc3 (W3 c) = 0 -> ca3 (W3 c) < Nat.max 1 n0 -> ca3 (W3 (stepW3_n len j n0 c)) <= pos3 (P3 c) - pos3 (W3 c)) /\
  (pc3 (C3 c) = 0 -> ca3 (C3 c) < Nat.max 1 n0 -> ca3 (C3 (stepC3_n len j n0 c)) <= pos3 (W3 c) - pos3 (C3 c)) /\
  (pc3 (P3 c) = 0 -> ca3 (P3 c) < Nat.max 1 n0 ->
   ca3 (P3 (stepP3_n len j n0 c)) <= pos3 (C3 c) + len - 1 - pos3 (P3 c)).
Proof.
  intros I. splits; intros H0 Hca.
  - pose proof (stepW_ctl len j n0 c) as E.
    rewrite (knext_load _ n0 (ctl (W3 c)) H0 Hca) in E. pose proof (f_equal kca E) as Eca. cbn [ctl kca] in Eca.
    rewrite Eca, <- (k_lpi len c I). apply loadW_sound; auto.
  - pose proof (stepC_ctl len j n0 c) as E.
    rewrite (knext_load _ n0 (ctl (C3 c)) H0 Hca) in E. pose proof (f_equal kca E) as Eca. cbn [ctl kca] in Eca.
    rewrite Eca, <- (k_lwi len c I). apply loadC_sound; auto.
  - pose proof (stepP_ctl len j n0 c) as E.
    rewrite (knext_load _ n0 (ctl (P3 c)) H0 Hca) in E. pose proof (f_equal kca E) as Eca. cbn [ctl kca] in Eca.
    rewrite Eca, <- (k_lci len c I). apply loadP_sound; auto.
Qed.
End B.

(* ---- the statements of (B) for reachable configurations ---- *)
Theorem RA3n_fresh_look_worker : forall len, 0 < len -> forall script j n0,
  let c := exec3_n len (init3_n len) script in
  pc3 (W3 c) = 0 -> ca3 (W3 c) < Nat.max 1 n0 ->
  length (Mpi3 c) - 1 <= Nat.max j (vpi3 (V3 (W3 c))) ->
  let c' := stepW3_n len j n0 c in
  ca3 (W3 c') = lastabs3 (Mpi3 c) - pos3 (W3 c) /\ lastabs3 (Mpi3 c) = pos3 (P3 c) /\
  (pc3 (W3 c') = 2 /\ cnt3 (W3 c') = Nat.max 1 n0 /\ Nat.max 1 n0 <= pos3 (P3 c) - pos3 (W3 c) \/
   pc3 (W3 c') = 0 /\ pos3 (P3 c) - pos3 (W3 c) < Nat.max 1 n0).
Proof. intros len Hlen script j n0 c. apply fresh_look_W; auto. apply exec3n_inv; auto. Qed.

Theorem RA3n_fresh_look_consumer : forall len, 0 < len -> forall script j n0,
  let c := exec3_n len (init3_n len) script in
  pc3 (C3 c) = 0 -> ca3 (C3 c) < Nat.max 1 n0 ->
  length (Mwi3 c) - 1 <= Nat.max j (vwi3 (V3 (C3 c))) ->
  let c' := stepC3_n len j n0 c in
  ca3 (C3 c') = lastabs3 (Mwi3 c) - pos3 (C3 c) /\ lastabs3 (Mwi3 c) = pos3 (W3 c) /\
  (pc3 (C3 c') = 2 /\ cnt3 (C3 c') = Nat.max 1 n0 /\ Nat.max 1 n0 <= pos3 (W3 c) - pos3 (C3 c) \/
   pc3 (C3 c') = 0 /\ pos3 (W3 c) - pos3 (C3 c) < Nat.max 1 n0).
Proof. intros len Hlen script j n0 c. apply fresh_look_C; auto. apply exec3n_inv; auto. Qed.

Theorem RA3n_fresh_look_producer : forall len, 0 < len -> forall script j n0,
  let c := exec3_n len (init3_n len) script in
  pc3 (P3 c) = 0 -> ca3 (P3 c) < Nat.max 1 n0 ->
  length (Mci3 c) - 1 <= Nat.max j (vci3 (V3 (P3 c))) ->
  let c' := stepP3_n len j n0 c in
  ca3 (P3 c') = lastabs3 (Mci3 c) + len - 1 - pos3 (P3 c) /\ lastabs3 (Mci3 c) = pos3 (C3 c) /\
  (pc3 (P3 c') = 2 /\ cnt3 (P3 c') = Nat.max 1 n0 /\ Nat.max 1 n0 <= pos3 (C3 c) + len - 1 - pos3 (P3 c) \/
   pc3 (P3 c') = 0 /\ pos3 (C3 c) + len - 1 - pos3 (P3 c) < Nat.max 1 n0).
Proof. intros len Hlen script j n0 c. apply fresh_look_P; auto. apply exec3n_inv; auto. Qed.

Theorem RA3n_load_sound : forall len, 0 < len -> forall script j n0,
  let c := exec3_n len (init3_n len) script in
  (pc3 (W3 c) = 0 -> ca3 (W3 c) < Nat.max 1 n0 -> ca3 (W3 (stepW3_n len j n0 c)) <= pos3 (P3 c) - pos3 (W3 c)) /\
  (pc3 (C3 c) = 0 -> ca3 (C3 c) < Nat.max 1 n0 -> ca3 (C3 (stepC3_n len j n0 c)) <= pos3 (W3 c) - pos3 (C3 c)) /\
  (pc3 (P3 c) = 0 -> ca3 (P3 c) < Nat.max 1 n0 ->
   ca3 (P3 (stepP3_n len j n0 c)) <= pos3 (C3 c) + len - 1 - pos3 (P3 c)).
Proof. intros len Hlen script j n0 c. apply stale_look; auto. apply exec3n_inv; auto. Qed.

(** *** (C) *)
Definition eP : entry := (TP, 0, 0).     (* inside an operation the read choice and the count are ignored *)
Definition eW : entry := (TW, 0, 0).
Definition eC : entry := (TC, 0, 0).
(* one operation on one item with a fresh look (read choice J): check, access the slot, publish *)
Definition op3 (t : tid) (J : nat) : list entry := [(t, J, 1); (t, J, 1); (t, J, 1)].

Definition drain (len : nat) (c : cfg3n) : list entry :=
  let s1 := repeat eP (remaining (P3 c)) in
  let c1 := exec3_n len c s1 in
  let s2 := repeat eW (remaining (W3 c1)) in
  let c2 := exec3_n len c1 s2 in
  let s3 := repeat eC (remaining (C3 c2)) in
  let c3 := exec3_n len c2 s3 in
  let s4 := concat (repeat (op3 TW (length (Mpi3 c3))) (pos3 (P3 c3) - pos3 (W3 c3))) in
  let c4 := exec3_n len c3 s4 in
  let s5 := concat (repeat (op3 TC (length (Mwi3 c4))) (pos3 (W3 c4) - pos3 (C3 c4))) in
  s1 ++ s2 ++ s3 ++ s4 ++ s5.

Section C.
Variable len : nat.
Hypothesis Hlen : 0 < len.

Lemma exec_app c s1 s2 : exec3_n len c (s1 ++ s2) = exec3_n len (exec3_n len c s1) s2.
Proof. apply fold_left_app. Qed.

Lemma step3_n_W c j n : step3_n len c (TW, j, n) = stepW3_n len j n c.
Proof. reflexivity. Qed.
Lemma step3_n_C c j n : step3_n len c (TC, j, n) = stepC3_n len j n c.
Proof. reflexivity. Qed.

Lemma stepW_facts c j n : Inv3n len c ->
  Inv3n len (stepW3_n len j n c) /\
  (P3 (stepW3_n len j n c) = P3 c /\ C3 (stepW3_n len j n c) = C3 c /\ Mpi3 (stepW3_n len j n c) = Mpi3 c) /\
  ctl (W3 (stepW3_n len j n c)) = knext (loadW len j c) n (ctl (W3 c)).
Proof.
  intros I. destruct (stepW_frame len j n c) as (F1 & F2 & F3 & F4). splits; auto.
  - exact (step3n_inv len Hlen c (TW, j, n) I).
  - apply stepW_ctl.
Qed.
Lemma stepC_facts c j n : Inv3n len c ->
  Inv3n len (stepC3_n len j n c) /\
  (P3 (stepC3_n len j n c) = P3 c /\ W3 (stepC3_n len j n c) = W3 c /\ Mwi3 (stepC3_n len j n c) = Mwi3 c) /\
  ctl (C3 (stepC3_n len j n c)) = knext (loadC len j c) n (ctl (C3 c)).
Proof.
  intros I. destruct (stepC_frame len j n c) as (F1 & F2 & F3 & F4). splits; auto.
  - exact (step3n_inv len Hlen c (TC, j, n) I).
  - apply stepC_ctl.
Qed.

(* the worker handles one item; the producer, the consumer and the producer's index stay as they are *)
Lemma popW P0 C0 M0 J c :
  length M0 - 1 <= J ->
  Inv3n len c -> (P3 c = P0 /\ C3 c = C0 /\ Mpi3 c = M0) -> pc3 (W3 c) = 0 -> pos3 (W3 c) < pos3 (P3 c) ->
  let c' := fold_left (step3_n len) (op3 TW J) c in
  Inv3n len c' /\ (P3 c' = P0 /\ C3 c' = C0 /\ Mpi3 c' = M0) /\ pc3 (W3 c') = 0 /\
  pos3 (W3 c') = pos3 (W3 c) + 1 /\ pos3 (P3 c') = pos3 (P3 c).
Proof.
  intros HJ I (GP & GC & GM) H0 Hlt c'. subst c'. unfold op3. rewrite fold3, !step3_n_W.
  assert (Ha : kca (ctl (W3 c)) < 1 -> 1 <= loadW len J c).
  { intros _. rewrite loadW_fresh; auto; [|rewrite GM; lia]. rewrite (k_lpi len c I). lia. }
  destruct (stepW_facts c J 1 I) as (I1 & (F1 & F1' & F1'') & E1).
  revert I1 F1 F1' F1'' E1. generalize (stepW3_n len J 1 c). intros c1 I1 F1 F1' F1'' E1.
  destruct (stepW_facts c1 J 1 I1) as (I2 & (F2 & F2' & F2'') & E2).
  revert I2 F2 F2' F2'' E2. generalize (stepW3_n len J 1 c1). intros c2 I2 F2 F2' F2'' E2.
  destruct (stepW_facts c2 J 1 I2) as (I3 & (F3 & F3' & F3'') & E3).
  revert I3 F3 F3' F3'' E3. generalize (stepW3_n len J 1 c2). intros c3 I3 F3 F3' F3'' E3.
  rewrite E1 in E2. rewrite E2 in E3.
  destruct (kpop1 (loadW len J c) (loadW len J c1) (loadW len J c2) (ctl (W3 c)) H0 Ha) as [K1 K2].
  rewrite <- E3 in K1, K2. cbn [ctl kpc kpos] in K1, K2.
  splits; auto; congruence.
Qed.

(* the consumer handles one item; the producer, the worker and the worker's index stay as they are *)
Lemma popC P0 W0 M0 J c :
  length M0 - 1 <= J ->
  Inv3n len c -> (P3 c = P0 /\ W3 c = W0 /\ Mwi3 c = M0) -> pc3 (C3 c) = 0 -> pos3 (C3 c) < pos3 (W3 c) ->
  let c' := fold_left (step3_n len) (op3 TC J) c in
  Inv3n len c' /\ (P3 c' = P0 /\ W3 c' = W0 /\ Mwi3 c' = M0) /\ pc3 (C3 c') = 0 /\
  pos3 (C3 c') = pos3 (C3 c) + 1 /\ pos3 (W3 c') = pos3 (W3 c).
Proof.
  intros HJ I (GP & GW & GM) H0 Hlt c'. subst c'. unfold op3. rewrite fold3, !step3_n_C.
  assert (Ha : kca (ctl (C3 c)) < 1 -> 1 <= loadC len J c).
  { intros _. rewrite loadC_fresh; auto; [|rewrite GM; lia]. rewrite (k_lwi len c I). lia. }
  destruct (stepC_facts c J 1 I) as (I1 & (F1 & F1' & F1'') & E1).
  revert I1 F1 F1' F1'' E1. generalize (stepC3_n len J 1 c). intros c1 I1 F1 F1' F1'' E1.
  destruct (stepC_facts c1 J 1 I1) as (I2 & (F2 & F2' & F2'') & E2).
  revert I2 F2 F2' F2'' E2. generalize (stepC3_n len J 1 c1). intros c2 I2 F2 F2' F2'' E2.
  destruct (stepC_facts c2 J 1 I2) as (I3 & (F3 & F3' & F3'') & E3).
  revert I3 F3 F3' F3'' E3. generalize (stepC3_n len J 1 c2). intros c3 I3 F3 F3' F3'' E3.
  rewrite E1 in E2. rewrite E2 in E3.
  destruct (kpop1 (loadC len J c) (loadC len J c1) (loadC len J c2) (ctl (C3 c)) H0 Ha) as [K1 K2].
  rewrite <- E3 in K1, K2. cbn [ctl kpc kpos] in K1, K2.
  splits; auto; congruence.
Qed.

Lemma pc_kept c t e r : who e <> t -> pc3 (thr t (exec3_n len c (repeat e r))) = pc3 (thr t c).
Proof.
  intros H.
  assert (Hc : own_steps t (repeat e r) = 0).
  { apply count_repeat_false. destruct (tid_eqb (who e) t) eqn:E; auto. apply tid_eqb_spec in E. contradiction. }
  pose proof (f_equal kpc (RA3n_others_invisible len c t (repeat e r) Hc)) as E. exact E.
Qed.

Theorem drains_from c : Inv3n len c ->
  let c' := exec3_n len c (drain len c) in
  pc3 (P3 c') = 0 /\ pc3 (W3 c') = 0 /\ pc3 (C3 c') = 0 /\
  pos3 (W3 c') = pos3 (P3 c') /\ pos3 (C3 c') = pos3 (W3 c').
Proof.
  intros I. unfold drain.
  set (s1 := repeat eP (remaining (P3 c))). set (c1 := exec3_n len c s1).
  set (s2 := repeat eW (remaining (W3 c1))). set (c2 := exec3_n len c1 s2).
  set (s3 := repeat eC (remaining (C3 c2))). set (c3 := exec3_n len c2 s3).
  set (s4 := concat (repeat (op3 TW (length (Mpi3 c3))) (pos3 (P3 c3) - pos3 (W3 c3)))).
  set (c4 := exec3_n len c3 s4).
  set (s5 := concat (repeat (op3 TC (length (Mwi3 c4))) (pos3 (W3 c4) - pos3 (C3 c4)))).
  cbv zeta. rewrite !exec_app. fold c1. fold c2. fold c3. fold c4.
  assert (I1 : Inv3n len c1) by (apply inv_exec; auto).
  assert (I2 : Inv3n len c2) by (apply inv_exec; auto).
  assert (I3 : Inv3n len c3) by (apply inv_exec; auto).
  (* every thread finishes the operation it is in *)
  assert (HP1 : pc3 (P3 c1) = 0) by exact (finish len Hlen c eP I).
  assert (HW2 : pc3 (W3 c2) = 0) by exact (finish len Hlen c1 eW I1).
  assert (HC3 : pc3 (C3 c3) = 0) by exact (finish len Hlen c2 eC I2).
  assert (HP2 : pc3 (P3 c2) = 0).
  { rewrite <- HP1. apply (pc_kept c1 TP eW). cbn; discriminate. }
  assert (HP3 : pc3 (P3 c3) = 0).
  { rewrite <- HP2. apply (pc_kept c2 TP eC). cbn; discriminate. }
  assert (HW3 : pc3 (W3 c3) = 0).
  { rewrite <- HW2. apply (pc_kept c2 TW eC). cbn; discriminate. }
  clearbody c3. clear I I1 I2 HP1 HW2 HP2 s1 s2 s3 c1 c2 c.
  (* the worker catches up with the producer *)
  destruct (order3n len Hlen c3 I3) as (_ & O2 & _).
  destruct (catch_up cfg3n entry (step3_n len) (Inv3n len)
              (fun x => P3 x = P3 c3 /\ C3 x = C3 c3 /\ Mpi3 x = Mpi3 c3)
              (op3 TW (length (Mpi3 c3))) (fun x => pos3 (W3 x)) (fun x => pos3 (P3 x)) (fun x => pc3 (W3 x))
              (fun x => popW (P3 c3) (C3 c3) (Mpi3 c3) (length (Mpi3 c3)) x ltac:(lia))
              (pos3 (P3 c3) - pos3 (W3 c3)) c3 I3 (conj eq_refl (conj eq_refl eq_refl)) HW3 ltac:(lia))
    as (I4 & (G4P & G4C & _) & HW4 & Hp4 & _).
  fold s4 in I4, G4P, G4C, HW4, Hp4.
  change (fold_left (step3_n len) s4 c3) with c4 in *.
  assert (HP4 : pc3 (P3 c4) = 0) by (rewrite G4P; exact HP3).
  assert (HC4 : pc3 (C3 c4) = 0) by (rewrite G4C; exact HC3).
  clearbody c4. clear s4 HP3 HC3 HW3 G4P G4C O2 I3 c3.
  (* the consumer catches up with the worker *)
  destruct (order3n len Hlen c4 I4) as (O1 & _).
  destruct (catch_up cfg3n entry (step3_n len) (Inv3n len)
              (fun x => P3 x = P3 c4 /\ W3 x = W3 c4 /\ Mwi3 x = Mwi3 c4)
              (op3 TC (length (Mwi3 c4))) (fun x => pos3 (C3 x)) (fun x => pos3 (W3 x)) (fun x => pc3 (C3 x))
              (fun x => popC (P3 c4) (W3 c4) (Mwi3 c4) (length (Mwi3 c4)) x ltac:(lia))
              (pos3 (W3 c4) - pos3 (C3 c4)) c4 I4 (conj eq_refl (conj eq_refl eq_refl)) HC4 ltac:(lia))
    as (I5 & (G5P & G5W & _) & HC5 & Hp5 & _).
  fold s5 in I5, G5P, G5W, HC5, Hp5.
  change (fold_left (step3_n len) s5 c4) with (exec3_n len c4 s5) in *.
  splits; auto.
  - rewrite G5P; exact HP4.
  - rewrite G5W; exact HW4.
  - rewrite G5W, G5P. exact Hp4.
Qed.
End C.

(* from every reachable configuration some continuation drains the pipeline *)
Theorem RA3n_drains : forall len, 0 < len -> forall script, exists s',
  let c' := exec3_n len (init3_n len) (script ++ s') in
  pc3 (P3 c') = 0 /\ pc3 (W3 c') = 0 /\ pc3 (C3 c') = 0 /\
  pos3 (W3 c') = pos3 (P3 c') /\ pos3 (C3 c') = pos3 (W3 c').
Proof.
  intros len Hlen script. exists (drain len (exec3_n len (init3_n len) script)).
  cbv zeta. rewrite exec_app. apply drains_from; auto. apply exec3n_inv; auto.
Qed.
(** *** Examples, len = 4 *)
Definition after_push3 := exec3_n 4 (init3_n 4) [sP 3; sP 3; sP 3; sP 3; sP 3].   (* P has published 3 items *)
(* (B) the worker: a stale read (choice 0: the initial message) sees nothing and refuses; a fresh read sees all 3 *)
Example stale_vs_fresh :
  let st := stepW3_n 4 0 2 after_push3 in let fr := stepW3_n 4 99 2 after_push3 in
  (ca3 (W3 st), pc3 (W3 st)) = (0, 0) /\ (ca3 (W3 fr), pc3 (W3 fr)) = (3, 2) /\
  pos3 (P3 after_push3) - pos3 (W3 after_push3) = 3.
Proof. vm_compute. auto. Qed.
(* (C) P about to publish a 3rd item, W has edited 1 of a window of 2, C has just been refused on a stale read:
   [drain] = P finishes (1 step), W finishes (2 steps), W handles 1 item, C handles 3 items *)
Definition midway :=
  exec3_n 4 (init3_n 4) [sP 2; sP 2; sP 2; sP 2; (TW, 0, 1); sW 2; sW 2; sP 1; sP 1; (TC, 0, 1)].
Example drain_midway :
  summary3 midway = (false, (2, 6, 1, 3), (0, 4, 2, 2), (0, 4, 0, 0)) /\
  drain 4 midway = [eP] ++ [eW; eW] ++ op3 TW 3 ++ op3 TC 3 ++ op3 TC 3 ++ op3 TC 3 /\
  summary3 (exec3_n 4 midway (drain 4 midway)) = (false, (3, 7, 0, 0), (3, 7, 0, 0), (3, 7, 0, 0)).
Proof. vm_compute. auto. Qed.
End Three.

(* ================================================================================================ *)
Print Assumptions Two.RAn_other_step.
Print Assumptions Two.RAn_own_step.
Print Assumptions Two.RAn_remaining_bounded.
Print Assumptions Two.RAn_returns.
Print Assumptions Two.RAn_operation_bounded.
Print Assumptions Two.RAn_returns_alone.
Print Assumptions Two.RAn_fresh_look_consumer.
Print Assumptions Two.RAn_fresh_look_producer.
Print Assumptions Two.RAn_load_sound.
Print Assumptions Two.RAn_drains.
Print Assumptions Three.RA3n_other_step.
Print Assumptions Three.RA3n_own_step.
Print Assumptions Three.RA3n_remaining_bounded.
Print Assumptions Three.RA3n_returns.
Print Assumptions Three.RA3n_operation_bounded.
Print Assumptions Three.RA3n_returns_alone.
Print Assumptions Three.RA3n_fresh_look_worker.
Print Assumptions Three.RA3n_fresh_look_consumer.
Print Assumptions Three.RA3n_fresh_look_producer.
Print Assumptions Three.RA3n_load_sound.
Print Assumptions Three.RA3n_drains.
