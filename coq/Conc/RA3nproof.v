(** * Race freedom of the multi-slot three-stage release/acquire machine (RA3n.v).

    [pipeline3_n_race_free : forall len script, 0 < len -> race3 (exec3_n len (init3_n len) script) = false]

    The invariant is [Inv3] of RA3proof.v with the "frontier" [pos + off] of a thread in the place of [pos]
    for recorded slot accesses:
    - a recorded slot access of a thread sits at a position strictly below its frontier;
    - at pc 0 the window is empty ([off = 0]); at pc 2 [off < cnt <= ca]; at pc 3 [off = cnt <= ca];
    - [ca] is bounded by what the thread has seen of the index it follows, exactly as before
      (P: [ca + pos + 1 <= seen_C + len], W: [ca + pos <= seen_P], C: [ca + pos <= seen_W]);
    - the per-slot argument "congruent modulo len and closer than len => not above" is unchanged.
    The pure list facts ([sorted3], [lastabs3], ...) and [wcover] are reused from RA3proof.v. *)
Require Import MRB.Conc.RA MRB.Conc.RA3 MRB.Conc.RA3proof MRB.Conc.RA3n.
From Coq Require Import List Arith Lia Bool.
Import ListNotations.

Local Arguments Nat.leb : simpl never.
Local Arguments Nat.ltb : simpl never.
Local Arguments Nat.modulo : simpl never.
Local Arguments Nat.max : simpl never.
Local Arguments Nat.min : simpl never.

(* Pure facts of RA3proof.v.  There they were stated inside a section with [0 < len] in the context and
   picked that hypothesis up although they do not depend on it: restated here without it. *)
Lemma nth_app_last3n (M : list msg3) x : nth (length M) (M ++ [x]) dmsg3 = x.
Proof. exact (nth_app_last3 1 Nat.lt_0_1 M x). Qed.
Lemma sorted3_app_n M x : 0 < length M -> sorted3 M -> lastabs3 M <= mabs3 x -> sorted3 (M ++ [x]).
Proof. exact (sorted3_app 1 Nat.lt_0_1 M x). Qed.
Lemma sorted3_last_n M i : sorted3 M -> i < length M -> mabs3 (nth i M dmsg3) <= lastabs3 M.
Proof. exact (sorted3_last 1 Nat.lt_0_1 M i). Qed.
Lemma lastabs3_app_n M x : lastabs3 (M ++ [x]) = mabs3 x.
Proof. exact (lastabs3_app 1 Nat.lt_0_1 M x). Qed.
Lemma pick_bounds3n lo n j : lo < n -> lo <= pick lo n j /\ pick lo n j < n.
Proof. exact (pick_bounds 1 Nat.lt_0_1 lo n j). Qed.

Ltac splits := repeat match goal with |- _ /\ _ => split end.

Section Inv3n.
Variable len : nat.
Hypothesis Hlen : 0 < len.

Definition mtn3 (c : cfg3n) (k : nat) : meta3 := nth k (metas3 c) dmeta3.

Definition view_ok3n (c : cfg3n) (v : view3) : Prop :=
  vpi3 v < length (Mpi3 c) /\ vwi3 v < length (Mwi3 c) /\ vci3 v < length (Mci3 c) /\
  wP3 v <= pos3 (P3 c) /\ wW3 v <= pos3 (W3 c) /\ wC3 v <= pos3 (C3 c) /\
  mabs3 (nth (vpi3 v) (Mpi3 c) dmsg3) <= wP3 v /\
  mabs3 (nth (vwi3 v) (Mwi3 c) dmsg3) <= wW3 v /\
  mabs3 (nth (vci3 v) (Mci3 c) dmsg3) <= wC3 v /\
  wC3 v <= wW3 v /\ wW3 v <= wP3 v /\ wP3 v + 1 <= wC3 v + len /\
  (forall k, k < len -> wcover (mtn3 c k) v) /\
  (forall k, k < len -> rpos3 (mtn3 c k) < wC3 v -> rclk3 (mtn3 c k) <= kc3 v).

Definition msg_ok3n (c : cfg3n) (m : msg3) : Prop :=
  mval3 m = mabs3 m mod len /\ view_ok3n c (mview3 m).

Definition seenP3n (c : cfg3n) := mabs3 (nth (vci3 (V3 (P3 c))) (Mci3 c) dmsg3).
Definition seenW3n (c : cfg3n) := mabs3 (nth (vpi3 (V3 (W3 c))) (Mpi3 c) dmsg3).
Definition seenC3n (c : cfg3n) := mabs3 (nth (vwi3 (V3 (C3 c))) (Mwi3 c) dmsg3).

(* pc 0: no window; pc 2: window granted, [off] slots done, more to do; pc 3: window done, not yet published *)
Definition pc_okn (t : thr3n) : Prop :=
  (pc3 t = 0 /\ off3 t = 0) \/
  (pc3 t = 2 /\ off3 t < cnt3 t /\ cnt3 t <= ca3 t) \/
  (pc3 t = 3 /\ off3 t = cnt3 t /\ cnt3 t <= ca3 t).

(* every recorded slot access sits strictly below the frontier [pos + off] of the accessing thread *)
Definition slot_okn (c : cfg3n) (k : nat) : Prop :=
  wpos3 (mtn3 c k) mod len = k /\ rpos3 (mtn3 c k) mod len = k /\
  (wt (mtn3 c k) = TP ->
     wpos3 (mtn3 c k) < pos3 (P3 c) + off3 (P3 c) /\ wclk3 (mtn3 c k) <= kp3 (V3 (P3 c))) /\
  (wt (mtn3 c k) = TW ->
     wpos3 (mtn3 c k) < pos3 (W3 c) + off3 (W3 c) /\ wclk3 (mtn3 c k) <= kw3 (V3 (W3 c))) /\
  rpos3 (mtn3 c k) < pos3 (C3 c) + off3 (C3 c) /\ rclk3 (mtn3 c k) <= kc3 (V3 (C3 c)).

Record Inv3n (c : cfg3n) : Prop := mkInv3n {
  k_metas : length (metas3 c) = len;
  k_npi : 0 < length (Mpi3 c); k_nwi : 0 < length (Mwi3 c); k_nci : 0 < length (Mci3 c);
  k_spi : sorted3 (Mpi3 c); k_swi : sorted3 (Mwi3 c); k_sci : sorted3 (Mci3 c);
  k_lpi : lastabs3 (Mpi3 c) = pos3 (P3 c);
  k_lwi : lastabs3 (Mwi3 c) = pos3 (W3 c);
  k_lci : lastabs3 (Mci3 c) = pos3 (C3 c);
  k_mpi : Forall (msg_ok3n c) (Mpi3 c);
  k_mwi : Forall (msg_ok3n c) (Mwi3 c);
  k_mci : Forall (msg_ok3n c) (Mci3 c);
  k_wpi : forall i, i < length (Mpi3 c) -> mabs3 (nth i (Mpi3 c) dmsg3) <= wP3 (mview3 (nth i (Mpi3 c) dmsg3));
  k_wwi : forall i, i < length (Mwi3 c) -> mabs3 (nth i (Mwi3 c) dmsg3) <= wW3 (mview3 (nth i (Mwi3 c) dmsg3));
  k_wci : forall i, i < length (Mci3 c) -> mabs3 (nth i (Mci3 c) dmsg3) <= wC3 (mview3 (nth i (Mci3 c) dmsg3));
  k_vP : view_ok3n c (V3 (P3 c));
  k_vW : view_ok3n c (V3 (W3 c));
  k_vC : view_ok3n c (V3 (C3 c));
  k_ixP : ix3 (P3 c) = pos3 (P3 c) mod len;
  k_ixW : ix3 (W3 c) = pos3 (W3 c) mod len;
  k_ixC : ix3 (C3 c) = pos3 (C3 c) mod len;
  k_caP : ca3 (P3 c) + pos3 (P3 c) + 1 <= seenP3n c + len;
  k_caW : ca3 (W3 c) + pos3 (W3 c) <= seenW3n c;
  k_caC : ca3 (C3 c) + pos3 (C3 c) <= seenC3n c;
  k_pcP : pc_okn (P3 c); k_pcW : pc_okn (W3 c); k_pcC : pc_okn (C3 c);
  k_slot : forall k, k < len -> slot_okn c k;
  k_race : race3 c = false
}.

(* ---- view_ok3n is stable under "growth" of the configuration ---- *)
Definition grows3n (c c' : cfg3n) : Prop :=
  (exists xs, Mpi3 c' = Mpi3 c ++ xs) /\ (exists xs, Mwi3 c' = Mwi3 c ++ xs) /\ (exists xs, Mci3 c' = Mci3 c ++ xs) /\
  pos3 (P3 c) <= pos3 (P3 c') /\ pos3 (W3 c) <= pos3 (W3 c') /\ pos3 (C3 c) <= pos3 (C3 c') /\
  (forall k, k < len ->
     mtn3 c' k = mtn3 c k \/
     (wt (mtn3 c' k) = TP /\ pos3 (P3 c) <= wpos3 (mtn3 c' k) /\
      rpos3 (mtn3 c' k) = rpos3 (mtn3 c k) /\ rclk3 (mtn3 c' k) = rclk3 (mtn3 c k)) \/
     (wt (mtn3 c' k) = TW /\ pos3 (W3 c) <= wpos3 (mtn3 c' k) /\
      rpos3 (mtn3 c' k) = rpos3 (mtn3 c k) /\ rclk3 (mtn3 c' k) = rclk3 (mtn3 c k)) \/
     (pos3 (C3 c) <= rpos3 (mtn3 c' k) /\ wt (mtn3 c' k) = wt (mtn3 c k) /\
      wpos3 (mtn3 c' k) = wpos3 (mtn3 c k) /\ wclk3 (mtn3 c' k) = wclk3 (mtn3 c k))).

Lemma view_ok3n_grows c c' v : grows3n c c' -> view_ok3n c v -> view_ok3n c' v.
Proof.
  intros (Hpi & Hwi & Hci & HpP & HpW & HpC & Hm) (H1&H2&H3&H4&H5&H6&H7&H8&H9&H10&H11&H12&H13&H14).
  destruct Hpi as [xs Hpi]. destruct Hwi as [ys Hwi]. destruct Hci as [zs Hci].
  unfold view_ok3n. rewrite Hpi, Hwi, Hci, !app_length.
  splits; try lia.
  - rewrite app_nth1 by lia; auto.
  - rewrite app_nth1 by lia; auto.
  - rewrite app_nth1 by lia; auto.
  - intros k Hk. specialize (H13 k Hk). unfold wcover in *.
    destruct (Hm k Hk) as [E|[(E0&E1&E2&E3)|[(E0&E1&E2&E3)|(E1&E0&E2&E3)]]].
    + rewrite E; auto.
    + rewrite E0. intros Hw; lia.
    + rewrite E0. intros Hw; lia.
    + rewrite E0, E2, E3. auto.
  - intros k Hk Hw. specialize (H14 k Hk).
    destruct (Hm k Hk) as [E|[(E0&E1&E2&E3)|[(E0&E1&E2&E3)|(E1&E0&E2&E3)]]].
    + rewrite E in *; auto.
    + rewrite E2, E3 in *; auto.
    + rewrite E2, E3 in *; auto.
    + lia.
Qed.

Lemma msgs_ok3n_grows c c' M : grows3n c c' -> Forall (msg_ok3n c) M -> Forall (msg_ok3n c') M.
Proof.
  intros G F. eapply Forall_impl; [|exact F].
  intros m [A B]; split; auto. eapply view_ok3n_grows; eauto.
Qed.

(* acquiring the view [mv] of a message: indices [a b c0] are the new coherence points *)
Lemma view_ok3n_acq c v mv a b c0 :
  view_ok3n c v -> view_ok3n c mv ->
  a < length (Mpi3 c) -> b < length (Mwi3 c) -> c0 < length (Mci3 c) ->
  mabs3 (nth a (Mpi3 c) dmsg3) <= Nat.max (wP3 v) (wP3 mv) ->
  mabs3 (nth b (Mwi3 c) dmsg3) <= Nat.max (wW3 v) (wW3 mv) ->
  mabs3 (nth c0 (Mci3 c) dmsg3) <= Nat.max (wC3 v) (wC3 mv) ->
  view_ok3n c (vjoin3 (mkV3 a b c0 (kp3 v) (kw3 v) (kc3 v) (wP3 v) (wW3 v) (wC3 v)) mv).
Proof.
  intros (A1&A2&A3&A4&A5&A6&A7&A8&A9&A10&A11&A12&A13&A14) (B1&B2&B3&B4&B5&B6&B7&B8&B9&B10&B11&B12&B13&B14)
         Ha Hb Hc Ma Mb Mc.
  unfold view_ok3n, vjoin3; simpl. splits; try lia.
  - destruct (Nat.max_spec a (vpi3 mv)) as [[_ ->]|[_ ->]]; lia.
  - destruct (Nat.max_spec b (vwi3 mv)) as [[_ ->]|[_ ->]]; lia.
  - destruct (Nat.max_spec c0 (vci3 mv)) as [[_ ->]|[_ ->]]; lia.
  - intros k Hk. specialize (A13 k Hk). specialize (B13 k Hk). unfold wcover in *; simpl.
    destruct (wt (mtn3 c k)); auto; intros Hw.
    + destruct (Nat.max_spec (wP3 v) (wP3 mv)) as [[_ E]|[_ E]]; rewrite E in Hw;
      [specialize (B13 Hw) | specialize (A13 Hw)]; lia.
    + destruct (Nat.max_spec (wW3 v) (wW3 mv)) as [[_ E]|[_ E]]; rewrite E in Hw;
      [specialize (B13 Hw) | specialize (A13 Hw)]; lia.
  - intros k Hk Hw.
    destruct (Nat.max_spec (wC3 v) (wC3 mv)) as [[_ E]|[_ E]]; rewrite E in Hw.
    + specialize (B14 k Hk Hw); lia.
    + specialize (A14 k Hk Hw); lia.
Qed.

(* Order of the three stages; the frontier of a thread never passes what it has seen of the index it follows;
   the remembered availability never exceeds the capacity len - 1. *)
Lemma order3n c : Inv3n c ->
  pos3 (C3 c) <= pos3 (W3 c) /\ pos3 (W3 c) <= pos3 (P3 c) /\ pos3 (P3 c) + 1 <= pos3 (C3 c) + len /\
  pos3 (C3 c) + off3 (C3 c) <= pos3 (W3 c) /\
  pos3 (W3 c) + off3 (W3 c) <= pos3 (P3 c) /\
  pos3 (P3 c) + off3 (P3 c) + 1 <= pos3 (C3 c) + len /\
  ca3 (P3 c) + 1 <= len /\ ca3 (W3 c) + 1 <= len /\ ca3 (C3 c) + 1 <= len.
Proof.
  intros I.
  pose proof (k_caP c I) as HcaP. pose proof (k_caW c I) as HcaW. pose proof (k_caC c I) as HcaC.
  pose proof (k_lpi c I) as Hlpi. pose proof (k_lwi c I) as Hlwi. pose proof (k_lci c I) as Hlci.
  destruct (k_vP c I) as (_&_&A&_). destruct (k_vW c I) as (B&_). destruct (k_vC c I) as (_&C&_).
  pose proof (sorted3_last_n _ _ (k_sci c I) A) as HsP.
  pose proof (sorted3_last_n _ _ (k_spi c I) B) as HsW.
  pose proof (sorted3_last_n _ _ (k_swi c I) C) as HsC.
  assert (HoP : off3 (P3 c) <= ca3 (P3 c)) by (destruct (k_pcP c I) as [[_ X]|[(_&X&Y)|(_&X&Y)]]; lia).
  assert (HoW : off3 (W3 c) <= ca3 (W3 c)) by (destruct (k_pcW c I) as [[_ X]|[(_&X&Y)|(_&X&Y)]]; lia).
  assert (HoC : off3 (C3 c) <= ca3 (C3 c)) by (destruct (k_pcC c I) as [[_ X]|[(_&X&Y)|(_&X&Y)]]; lia).
  unfold seenP3n, seenW3n, seenC3n in *. lia.
Qed.

Ltac inv3n_fields I :=
  pose proof (k_metas _ I) as Hmetas;
  pose proof (k_npi _ I) as Hnpi; pose proof (k_nwi _ I) as Hnwi; pose proof (k_nci _ I) as Hnci;
  pose proof (k_spi _ I) as Hspi; pose proof (k_swi _ I) as Hswi; pose proof (k_sci _ I) as Hsci;
  pose proof (k_lpi _ I) as Hlpi; pose proof (k_lwi _ I) as Hlwi; pose proof (k_lci _ I) as Hlci;
  pose proof (k_mpi _ I) as Hmpi; pose proof (k_mwi _ I) as Hmwi; pose proof (k_mci _ I) as Hmci;
  pose proof (k_wpi _ I) as Hwpi; pose proof (k_wwi _ I) as Hwwi; pose proof (k_wci _ I) as Hwci;
  pose proof (k_vP _ I) as HvP; pose proof (k_vW _ I) as HvW; pose proof (k_vC _ I) as HvC;
  pose proof (k_ixP _ I) as HixP; pose proof (k_ixW _ I) as HixW; pose proof (k_ixC _ I) as HixC;
  pose proof (k_caP _ I) as HcaP; pose proof (k_caW _ I) as HcaW; pose proof (k_caC _ I) as HcaC;
  pose proof (k_pcP _ I) as HpcP; pose proof (k_pcW _ I) as HpcW; pose proof (k_pcC _ I) as HpcC;
  pose proof (k_slot _ I) as Hslot; pose proof (k_race _ I) as Hrace;
  pose proof (order3n _ I) as (Hcw & Hwp & Hpc & HfC & HfW & HfP & HcapP & HcapW & HcapC).

(* a step that only changes thread-local control state of one thread (not its frontier) keeps the slots fine *)
Lemma slot_okn_pcP c k t' : slot_okn c k ->
  pos3 t' + off3 t' = pos3 (P3 c) + off3 (P3 c) -> kp3 (V3 (P3 c)) <= kp3 (V3 t') ->
  slot_okn (mkC3n (Mpi3 c) (Mwi3 c) (Mci3 c) (metas3 c) t' (W3 c) (C3 c) (race3 c)) k.
Proof.
  unfold slot_okn, mtn3; simpl. intros (S1&S2&S3&S4&S5&S6) Hpos Hk.
  splits; auto. intros E. destruct (S3 E) as (T1&T2). split; lia.
Qed.
Lemma slot_okn_pcW c k t' : slot_okn c k ->
  pos3 t' + off3 t' = pos3 (W3 c) + off3 (W3 c) -> kw3 (V3 (W3 c)) <= kw3 (V3 t') ->
  slot_okn (mkC3n (Mpi3 c) (Mwi3 c) (Mci3 c) (metas3 c) (P3 c) t' (C3 c) (race3 c)) k.
Proof.
  unfold slot_okn, mtn3; simpl. intros (S1&S2&S3&S4&S5&S6) Hpos Hk.
  splits; auto. intros E. destruct (S4 E) as (T1&T2). split; lia.
Qed.
Lemma slot_okn_pcC c k t' : slot_okn c k ->
  pos3 t' + off3 t' = pos3 (C3 c) + off3 (C3 c) -> kc3 (V3 (C3 c)) <= kc3 (V3 t') ->
  slot_okn (mkC3n (Mpi3 c) (Mwi3 c) (Mci3 c) (metas3 c) (P3 c) (W3 c) t' (race3 c)) k.
Proof.
  unfold slot_okn, mtn3; simpl. intros (S1&S2&S3&S4&S5&S6) Hpos Hk.
  splits; auto; lia.
Qed.

(* ======================= producer ======================= *)

(* ---------- P, pc = 0, remembered availability suffices: grant a window of n = max 1 n0 ---------- *)
Lemma P_fast c j n0 : Inv3n c -> pc3 (P3 c) = 0 -> Nat.max 1 n0 <= ca3 (P3 c) -> Inv3n (stepP3_n len j n0 c).
Proof.
  intros I Hpc0 Hca. inv3n_fields I.
  destruct HpcP as [[_ Hoff]|[(X&_)|(X&_)]]; try congruence.
  unfold stepP3_n, stepP3_a. rewrite Hpc0. cbv beta iota zeta.
  set (n := Nat.max 1 n0) in *. assert (Hn : 1 <= n) by (unfold n; lia). clearbody n.
  destruct (n <=? ca3 (P3 c)) eqn:E; [|apply Nat.leb_gt in E; lia].
  constructor; simpl; auto.
  - right; left; simpl. splits; auto; lia.
  - intros k Hk. apply slot_okn_pcP; simpl; auto; lia.
Qed.

(* ---------- P, pc = 0, must look at the consumer's index (acquire load, any admissible message) ---------- *)
Lemma P_load c j n0 : Inv3n c -> pc3 (P3 c) = 0 -> ca3 (P3 c) < Nat.max 1 n0 -> Inv3n (stepP3_n len j n0 c).
Proof.
  intros I Hpc0 Hca. inv3n_fields I.
  destruct HpcP as [[_ Hoff]|[(X&_)|(X&_)]]; try congruence.
  unfold stepP3_n, stepP3_a. rewrite Hpc0. cbv beta iota zeta.
  set (n := Nat.max 1 n0) in *. assert (Hn : 1 <= n) by (unfold n; lia). clearbody n.
  destruct (n <=? ca3 (P3 c)) eqn:E; [apply Nat.leb_le in E; lia|]. clear E.
  pose proof HvP as (P1&P2&P3'&P4&P5&P6&P7&P8&P9&P10&P11&P12&P13&P14).
  pose proof (pick_bounds3n (vci3 (V3 (P3 c))) (length (Mci3 c)) j P3') as [Hi1 Hi2].
  set (i := pick (vci3 (V3 (P3 c))) (length (Mci3 c)) j) in *.
  set (m := nth i (Mci3 c) dmsg3).
  pose proof (Forall_nth_msg3 _ _ i Hmci Hi2) as [Hmv Hmok]. fold m in Hmv, Hmok.
  pose proof (Hwci i Hi2) as Hmw. fold m in Hmw.
  assert (Hseen : seenP3n c <= mabs3 m) by (unfold seenP3n, m; apply Hsci; lia).
  assert (Hm : mabs3 m = mabs3 (nth i (Mci3 c) dmsg3)) by reflexivity.
  clearbody m. clearbody i.
  assert (HmC : mabs3 m <= pos3 (C3 c)) by (rewrite <- Hlci, Hm; apply sorted3_last_n; auto).
  assert (Ha : pavail len (ix3 (P3 c)) (mval3 m) = len - 1 - (pos3 (P3 c) - mabs3 m)).
  { rewrite HixP, Hmv. apply pavail_mod; lia. }
  set (v1 := vjoin3 _ (mview3 m)).
  assert (Hv1 : view_ok3n c v1).
  { apply view_ok3n_acq; auto; try lia. }
  constructor; simpl; auto.
  - unfold seenP3n; simpl. rewrite Ha.
    assert (mabs3 m <= mabs3 (nth (Nat.max i (vci3 (mview3 m))) (Mci3 c) dmsg3))
      by (rewrite Hm; apply Hsci; destruct Hmok as (_&_&Q&_); lia).
    lia.
  - unfold pc_okn; simpl.
    destruct (n <=? pavail len (ix3 (P3 c)) (mval3 m)) eqn:E;
      [apply Nat.leb_le in E; right; left; splits; auto; lia | left; auto].
  - intros k Hk. apply slot_okn_pcP; simpl; auto; lia.
Qed.

(* ---------- P, pc = 2: the non-atomic write of slot (pos + off) mod len of the granted window ---------- *)
Lemma P_write c j n0 : Inv3n c -> pc3 (P3 c) = 2 -> Inv3n (stepP3_n len j n0 c).
Proof.
  intros I Hpc2. inv3n_fields I.
  destruct HpcP as [[X _]|[(_&Hoff&Hcnt)|(X&_)]]; try congruence.
  unfold stepP3_n, stepP3_a. rewrite Hpc2. cbv beta iota zeta.
  pose proof HvP as (P1&P2&P3'&P4&P5&P6&P7&P8&P9&P10&P11&P12&P13&P14).
  assert (Hk0 : wadd len (ix3 (P3 c)) (off3 (P3 c)) = (pos3 (P3 c) + off3 (P3 c)) mod len)
    by (rewrite HixP; apply wadd_mod; lia).
  set (k0 := wadd len (ix3 (P3 c)) (off3 (P3 c))) in *.
  set (q := pos3 (P3 c) + off3 (P3 c)) in *.
  assert (Hk : k0 < len) by (rewrite Hk0; apply Nat.mod_upper_bound; lia).
  destruct (Hslot _ Hk) as (S1&S2&S3&S4&S5&S6).
  fold (mtn3 c k0).
  assert (HseenP : q + 2 <= wC3 (V3 (P3 c)) + len) by (unfold seenP3n in HcaP; lia).
  (* the consumer's last read of this slot is one lap (or more) below, and covered by the producer's view *)
  assert (Hr : rpos3 (mtn3 c k0) + len <= q).
  { apply (congr_le len);
      [exact Hlen | rewrite (mod_plus_len len Hlen), S2, Hk0; reflexivity | lia]. }
  assert (Hcov : rclk3 (mtn3 c k0) <= kc3 (V3 (P3 c))) by (apply P14; auto; lia).
  (* the worker's last write of this slot (if the last writer is the worker) likewise *)
  assert (Hwc : wcov TP (mtn3 c k0) (V3 (P3 c)) = true).
  { unfold wcov. destruct (wt (mtn3 c k0)) eqn:Ew; auto.
    destruct (S4 eq_refl) as (T1&T2).
    assert (Hw : wpos3 (mtn3 c k0) + len <= q).
    { apply (congr_le len);
        [exact Hlen | rewrite (mod_plus_len len Hlen), S1, Hk0; reflexivity | lia]. }
    apply Nat.leb_le. specialize (P13 _ Hk). unfold wcover in P13. rewrite Ew in P13.
    apply P13. lia. }
  assert (Hb : negb (wcov TP (mtn3 c k0) (V3 (P3 c))) || negb (rclk3 (mtn3 c k0) <=? kc3 (V3 (P3 c))) = false).
  { rewrite Hwc. simpl. apply negb_false_iff, Nat.leb_le; auto. }
  rewrite Hb, orb_false_r.
  set (c' := mkC3n _ _ _ _ _ _ _ _).
  assert (Hmt : forall k, k < len -> k <> k0 -> mtn3 c' k = mtn3 c k)
    by (intros; unfold mtn3, c'; simpl; apply nth_upd_neq; auto).
  assert (Hmt0 : mtn3 c' k0 = mkMeta3 TP q (kp3 (V3 (P3 c))) (rpos3 (mtn3 c k0)) (rclk3 (mtn3 c k0)))
    by (unfold mtn3, c'; simpl; apply nth_upd_eq; lia).
  assert (G : grows3n c c').
  { unfold grows3n; splits; simpl; try (exists []; rewrite app_nil_r; reflexivity); try lia.
    intros k Hk'. destruct (Nat.eq_dec k k0) as [->|Hne].
    - right; left. rewrite Hmt0; simpl; splits; auto; lia.
    - left; auto. }
  constructor; simpl; auto.
  - rewrite upd_length; auto.
  - apply (msgs_ok3n_grows c c' _ G Hmpi).
  - apply (msgs_ok3n_grows c c' _ G Hmwi).
  - apply (msgs_ok3n_grows c c' _ G Hmci).
  - apply (view_ok3n_grows c c' _ G HvP).
  - apply (view_ok3n_grows c c' _ G HvW).
  - apply (view_ok3n_grows c c' _ G HvC).
  - unfold pc_okn; simpl.
    destruct (cnt3 (P3 c) <=? off3 (P3 c) + 1) eqn:E; [apply Nat.leb_le in E | apply Nat.leb_gt in E].
    + right; right; splits; auto; lia.
    + right; left; splits; auto; lia.
  - intros k Hk'. unfold slot_okn. destruct (Nat.eq_dec k k0) as [->|Hne].
    + rewrite Hmt0; simpl. splits; auto; try lia; intros E; discriminate E.
    + rewrite (Hmt k Hk' Hne). destruct (Hslot k Hk') as (T1&T2&T3&T4&T5&T6).
      unfold c'; simpl. splits; auto.
      intros E. destruct (T3 E) as (U1&U2). split; [lia|auto].
Qed.

(* ---------- P, pc = 3: advance by cnt + release store of the new index ---------- *)
Lemma P_store c j n0 : Inv3n c -> pc3 (P3 c) = 3 -> Inv3n (stepP3_n len j n0 c).
Proof.
  intros I Hpc3. inv3n_fields I.
  destruct HpcP as [[X _]|[(X&_)|(_&Hoff&Hcnt)]]; try congruence.
  unfold stepP3_n, stepP3_a. rewrite Hpc3. cbv beta iota zeta.
  pose proof HvP as (P1&P2&P3'&P4&P5&P6&P7&P8&P9&P10&P11&P12&P13&P14).
  assert (Hix' : wadd len (ix3 (P3 c)) (cnt3 (P3 c)) = (pos3 (P3 c) + cnt3 (P3 c)) mod len)
    by (rewrite HixP; apply wadd_mod; lia).
  set (p' := pos3 (P3 c) + cnt3 (P3 c)) in *.
  set (v1 := mkV3 (length (Mpi3 c)) _ _ _ _ _ p' _ _).
  set (m := mkM3 _ _ v1).
  set (c' := mkC3n _ _ _ _ _ _ _ _).
  assert (G : grows3n c c').
  { unfold grows3n; splits; simpl; try lia; try (exists []; rewrite app_nil_r; reflexivity).
    - exists [m]; reflexivity.
    - intros; left; reflexivity. }
  assert (Hnth : forall i, i < length (Mpi3 c) -> nth i (Mpi3 c ++ [m]) dmsg3 = nth i (Mpi3 c) dmsg3)
    by (intros; apply nth_app_l3; auto).
  assert (HseenP : p' + 1 <= wC3 (V3 (P3 c)) + len) by (unfold seenP3n in HcaP; lia).
  assert (Hv1 : view_ok3n c' v1).
  { unfold view_ok3n, v1, c'; simpl. rewrite app_length; simpl. splits; try lia.
    - rewrite nth_app_last3n; simpl; lia.
    - intros k Hk. unfold wcover. destruct (Hslot k Hk) as (_&_&S3&S4&_).
      specialize (P13 k Hk). unfold wcover in P13. unfold mtn3 in *; simpl.
      destruct (wt (nth k (metas3 c) dmeta3)) eqn:Ew; auto.
      intros _. destruct (S3 eq_refl) as (_&T). exact T.
    - intros k Hk Hw. apply P14; auto. }
  constructor; simpl; auto.
  - rewrite app_length; simpl; lia.
  - apply sorted3_app_n; auto. simpl. lia.
  - rewrite lastabs3_app_n; reflexivity.
  - apply Forall_app1.
    + apply (msgs_ok3n_grows c c' _ G Hmpi).
    + split; simpl; auto.
  - apply (msgs_ok3n_grows c c' _ G Hmwi).
  - apply (msgs_ok3n_grows c c' _ G Hmci).
  - intros i Hi. rewrite app_length in Hi; simpl in Hi.
    destruct (Nat.eq_dec i (length (Mpi3 c))) as [->|Hne].
    + rewrite nth_app_last3n; simpl; lia.
    + rewrite Hnth by lia. apply Hwpi; lia.
  - destruct Hv1 as (A1&A2&A3&A4&A5&A6&A7&A8&A9&A10&A11&A12&A13&A14). unfold view_ok3n; simpl. splits; auto.
    intros k Hk. specialize (A13 k Hk). unfold wcover in *; simpl in *.
    destruct (wt (mtn3 c' k)); auto; intros Hw; specialize (A13 Hw); lia.
  - apply (view_ok3n_grows c c' _ G HvW).
  - apply (view_ok3n_grows c c' _ G HvC).
  - unfold seenP3n in *; simpl. lia.
  - unfold seenW3n in *; simpl. destruct HvW as (C1&_). rewrite Hnth by auto. auto.
  - left; simpl; auto.
  - intros k Hk. destruct (Hslot k Hk) as (S1&S2&S3&S4&S5&S6).
    unfold slot_okn, mtn3 in *; simpl. splits; auto.
    intros E. destruct (S3 E) as (U1&U2). split; lia.
Qed.

(* ======================= worker ======================= *)
Lemma W_fast c j n0 : Inv3n c -> pc3 (W3 c) = 0 -> Nat.max 1 n0 <= ca3 (W3 c) -> Inv3n (stepW3_n len j n0 c).
Proof.
  intros I Hpc0 Hca. inv3n_fields I.
  destruct HpcW as [[_ Hoff]|[(X&_)|(X&_)]]; try congruence.
  unfold stepW3_n, stepW3_a. rewrite Hpc0. cbv beta iota zeta.
  set (n := Nat.max 1 n0) in *. assert (Hn : 1 <= n) by (unfold n; lia). clearbody n.
  destruct (n <=? ca3 (W3 c)) eqn:E; [|apply Nat.leb_gt in E; lia].
  constructor; simpl; auto.
  - right; left; simpl. splits; auto; lia.
  - intros k Hk. apply slot_okn_pcW; simpl; auto; lia.
Qed.

(* ---------- W, pc = 0, must look at the producer's index (acquire load, any admissible message) ---------- *)
Lemma W_load c j n0 : Inv3n c -> pc3 (W3 c) = 0 -> ca3 (W3 c) < Nat.max 1 n0 -> Inv3n (stepW3_n len j n0 c).
Proof.
  intros I Hpc0 Hca. inv3n_fields I.
  destruct HpcW as [[_ Hoff]|[(X&_)|(X&_)]]; try congruence.
  unfold stepW3_n, stepW3_a. rewrite Hpc0. cbv beta iota zeta.
  set (n := Nat.max 1 n0) in *. assert (Hn : 1 <= n) by (unfold n; lia). clearbody n.
  destruct (n <=? ca3 (W3 c)) eqn:E; [apply Nat.leb_le in E; lia|]. clear E.
  pose proof HvW as (P1&P2&P3'&P4&P5&P6&P7&P8&P9&P10&P11&P12&P13&P14).
  pose proof (pick_bounds3n (vpi3 (V3 (W3 c))) (length (Mpi3 c)) j P1) as [Hi1 Hi2].
  set (i := pick (vpi3 (V3 (W3 c))) (length (Mpi3 c)) j) in *.
  set (m := nth i (Mpi3 c) dmsg3).
  pose proof (Forall_nth_msg3 _ _ i Hmpi Hi2) as [Hmv Hmok]. fold m in Hmv, Hmok.
  pose proof (Hwpi i Hi2) as Hmw. fold m in Hmw.
  assert (Hseen : seenW3n c <= mabs3 m) by (unfold seenW3n, m; apply Hspi; lia).
  assert (Hm : mabs3 m = mabs3 (nth i (Mpi3 c) dmsg3)) by reflexivity.
  clearbody m. clearbody i.
  assert (HmP : mabs3 m <= pos3 (P3 c)) by (rewrite <- Hlpi, Hm; apply sorted3_last_n; auto).
  assert (Ha : dist len (ix3 (W3 c)) (mval3 m) = mabs3 m - pos3 (W3 c)).
  { rewrite HixW, Hmv. apply dist_mod; lia. }
  set (v1 := vjoin3 _ (mview3 m)).
  assert (Hv1 : view_ok3n c v1) by (apply view_ok3n_acq; auto; try lia).
  constructor; simpl; auto.
  - unfold seenW3n; simpl. rewrite Ha.
    assert (mabs3 m <= mabs3 (nth (Nat.max i (vpi3 (mview3 m))) (Mpi3 c) dmsg3))
      by (rewrite Hm; apply Hspi; destruct Hmok as (Q&_); lia).
    lia.
  - unfold pc_okn; simpl.
    destruct (n <=? dist len (ix3 (W3 c)) (mval3 m)) eqn:E;
      [apply Nat.leb_le in E; right; left; splits; auto; lia | left; auto].
  - intros k Hk. apply slot_okn_pcW; simpl; auto; lia.
Qed.

(* ---------- W, pc = 2: the in-place edit (read-modify-write) of slot (pos + off) mod len ---------- *)
Lemma W_write c j n0 : Inv3n c -> pc3 (W3 c) = 2 -> Inv3n (stepW3_n len j n0 c).
Proof.
  intros I Hpc2. inv3n_fields I.
  destruct HpcW as [[X _]|[(_&Hoff&Hcnt)|(X&_)]]; try congruence.
  unfold stepW3_n, stepW3_a. rewrite Hpc2. cbv beta iota zeta.
  pose proof HvW as (P1&P2&P3'&P4&P5&P6&P7&P8&P9&P10&P11&P12&P13&P14).
  assert (Hk0 : wadd len (ix3 (W3 c)) (off3 (W3 c)) = (pos3 (W3 c) + off3 (W3 c)) mod len)
    by (rewrite HixW; apply wadd_mod; lia).
  set (k0 := wadd len (ix3 (W3 c)) (off3 (W3 c))) in *.
  set (q := pos3 (W3 c) + off3 (W3 c)) in *.
  assert (Hk : k0 < len) by (rewrite Hk0; apply Nat.mod_upper_bound; lia).
  destruct (Hslot _ Hk) as (S1&S2&S3&S4&S5&S6).
  fold (mtn3 c k0).
  assert (HseenW : q + 1 <= wP3 (V3 (W3 c))) by (unfold seenW3n in HcaW; lia).
  (* the consumer's last read of this slot is one lap (or more) below, and covered by the worker's view *)
  assert (Hr : rpos3 (mtn3 c k0) + len <= q).
  { apply (congr_le len);
      [exact Hlen | rewrite (mod_plus_len len Hlen), S2, Hk0; reflexivity | lia]. }
  assert (Hcov : rclk3 (mtn3 c k0) <= kc3 (V3 (W3 c))) by (apply P14; auto; lia).
  (* the producer's last write of this slot is not above the position being edited, hence below the
     watermark the worker acquired *)
  assert (Hwc : wcov TW (mtn3 c k0) (V3 (W3 c)) = true).
  { unfold wcov. destruct (wt (mtn3 c k0)) eqn:Ew; auto.
    destruct (S3 eq_refl) as (T1&T2).
    assert (Hw : wpos3 (mtn3 c k0) <= q).
    { apply (congr_le len); [exact Hlen | rewrite S1, Hk0; reflexivity | lia]. }
    apply Nat.leb_le. specialize (P13 _ Hk). unfold wcover in P13. rewrite Ew in P13.
    apply P13. lia. }
  assert (Hb : negb (wcov TW (mtn3 c k0) (V3 (W3 c))) || negb (rclk3 (mtn3 c k0) <=? kc3 (V3 (W3 c))) = false).
  { rewrite Hwc. simpl. apply negb_false_iff, Nat.leb_le; auto. }
  rewrite Hb, orb_false_r.
  set (c' := mkC3n _ _ _ _ _ _ _ _).
  assert (Hmt : forall k, k < len -> k <> k0 -> mtn3 c' k = mtn3 c k)
    by (intros; unfold mtn3, c'; simpl; apply nth_upd_neq; auto).
  assert (Hmt0 : mtn3 c' k0 = mkMeta3 TW q (kw3 (V3 (W3 c))) (rpos3 (mtn3 c k0)) (rclk3 (mtn3 c k0)))
    by (unfold mtn3, c'; simpl; apply nth_upd_eq; lia).
  assert (G : grows3n c c').
  { unfold grows3n; splits; simpl; try (exists []; rewrite app_nil_r; reflexivity); try lia.
    intros k Hk'. destruct (Nat.eq_dec k k0) as [->|Hne].
    - right; right; left. rewrite Hmt0; simpl; splits; auto; lia.
    - left; auto. }
  constructor; simpl; auto.
  - rewrite upd_length; auto.
  - apply (msgs_ok3n_grows c c' _ G Hmpi).
  - apply (msgs_ok3n_grows c c' _ G Hmwi).
  - apply (msgs_ok3n_grows c c' _ G Hmci).
  - apply (view_ok3n_grows c c' _ G HvP).
  - apply (view_ok3n_grows c c' _ G HvW).
  - apply (view_ok3n_grows c c' _ G HvC).
  - unfold pc_okn; simpl.
    destruct (cnt3 (W3 c) <=? off3 (W3 c) + 1) eqn:E; [apply Nat.leb_le in E | apply Nat.leb_gt in E].
    + right; right; splits; auto; lia.
    + right; left; splits; auto; lia.
  - intros k Hk'. unfold slot_okn. destruct (Nat.eq_dec k k0) as [->|Hne].
    + rewrite Hmt0; simpl. splits; auto; try lia; intros E; discriminate E.
    + rewrite (Hmt k Hk' Hne). destruct (Hslot k Hk') as (T1&T2&T3&T4&T5&T6).
      unfold c'; simpl. splits; auto.
      intros E. destruct (T4 E) as (U1&U2). split; [lia|auto].
Qed.

(* ---------- W, pc = 3: advance by cnt + release store of the new index ---------- *)
Lemma W_store c j n0 : Inv3n c -> pc3 (W3 c) = 3 -> Inv3n (stepW3_n len j n0 c).
Proof.
  intros I Hpc3. inv3n_fields I.
  destruct HpcW as [[X _]|[(X&_)|(_&Hoff&Hcnt)]]; try congruence.
  unfold stepW3_n, stepW3_a. rewrite Hpc3. cbv beta iota zeta.
  pose proof HvW as (P1&P2&P3'&P4&P5&P6&P7&P8&P9&P10&P11&P12&P13&P14).
  assert (Hix' : wadd len (ix3 (W3 c)) (cnt3 (W3 c)) = (pos3 (W3 c) + cnt3 (W3 c)) mod len)
    by (rewrite HixW; apply wadd_mod; lia).
  set (p' := pos3 (W3 c) + cnt3 (W3 c)) in *.
  set (v1 := mkV3 _ (length (Mwi3 c)) _ _ _ _ _ p' _).
  set (m := mkM3 _ _ v1).
  set (c' := mkC3n _ _ _ _ _ _ _ _).
  assert (G : grows3n c c').
  { unfold grows3n; splits; simpl; try lia; try (exists []; rewrite app_nil_r; reflexivity).
    - exists [m]; reflexivity.
    - intros; left; reflexivity. }
  assert (Hnth : forall i, i < length (Mwi3 c) -> nth i (Mwi3 c ++ [m]) dmsg3 = nth i (Mwi3 c) dmsg3)
    by (intros; apply nth_app_l3; auto).
  assert (HseenW : p' <= wP3 (V3 (W3 c))) by (unfold seenW3n in HcaW; lia).
  assert (Hv1 : view_ok3n c' v1).
  { unfold view_ok3n, v1, c'; simpl. rewrite app_length; simpl. splits; try lia.
    - rewrite nth_app_last3n; simpl; lia.
    - intros k Hk. unfold wcover. destruct (Hslot k Hk) as (_&_&S3&S4&_).
      specialize (P13 k Hk). unfold wcover in P13. unfold mtn3 in *; simpl.
      destruct (wt (nth k (metas3 c) dmeta3)) eqn:Ew; auto.
      intros _. destruct (S4 eq_refl) as (_&T). exact T.
    - intros k Hk Hw. apply P14; auto. }
  constructor; simpl; auto.
  - rewrite app_length; simpl; lia.
  - apply sorted3_app_n; auto. simpl. lia.
  - rewrite lastabs3_app_n; reflexivity.
  - apply (msgs_ok3n_grows c c' _ G Hmpi).
  - apply Forall_app1.
    + apply (msgs_ok3n_grows c c' _ G Hmwi).
    + split; simpl; auto.
  - apply (msgs_ok3n_grows c c' _ G Hmci).
  - intros i Hi. rewrite app_length in Hi; simpl in Hi.
    destruct (Nat.eq_dec i (length (Mwi3 c))) as [->|Hne].
    + rewrite nth_app_last3n; simpl; lia.
    + rewrite Hnth by lia. apply Hwwi; lia.
  - apply (view_ok3n_grows c c' _ G HvP).
  - destruct Hv1 as (A1&A2&A3&A4&A5&A6&A7&A8&A9&A10&A11&A12&A13&A14). unfold view_ok3n; simpl. splits; auto.
    intros k Hk. specialize (A13 k Hk). unfold wcover in *; simpl in *.
    destruct (wt (mtn3 c' k)); auto; intros Hw; specialize (A13 Hw); lia.
  - apply (view_ok3n_grows c c' _ G HvC).
  - unfold seenW3n in *; simpl. lia.
  - unfold seenC3n in *; simpl. destruct HvC as (_&C2&_). rewrite Hnth by auto. auto.
  - left; simpl; auto.
  - intros k Hk. destruct (Hslot k Hk) as (S1&S2&S3&S4&S5&S6).
    unfold slot_okn, mtn3 in *; simpl. splits; auto.
    intros E. destruct (S4 E) as (U1&U2). split; lia.
Qed.

(* ======================= consumer ======================= *)
Lemma C_fast c j n0 : Inv3n c -> pc3 (C3 c) = 0 -> Nat.max 1 n0 <= ca3 (C3 c) -> Inv3n (stepC3_n len j n0 c).
Proof.
  intros I Hpc0 Hca. inv3n_fields I.
  destruct HpcC as [[_ Hoff]|[(X&_)|(X&_)]]; try congruence.
  unfold stepC3_n, stepC3_a. rewrite Hpc0. cbv beta iota zeta.
  set (n := Nat.max 1 n0) in *. assert (Hn : 1 <= n) by (unfold n; lia). clearbody n.
  destruct (n <=? ca3 (C3 c)) eqn:E; [|apply Nat.leb_gt in E; lia].
  constructor; simpl; auto.
  - right; left; simpl. splits; auto; lia.
  - intros k Hk. apply slot_okn_pcC; simpl; auto; lia.
Qed.

(* ---------- C, pc = 0, must look at the worker's index (acquire load, any admissible message) ---------- *)
Lemma C_load c j n0 : Inv3n c -> pc3 (C3 c) = 0 -> ca3 (C3 c) < Nat.max 1 n0 -> Inv3n (stepC3_n len j n0 c).
Proof.
  intros I Hpc0 Hca. inv3n_fields I.
  destruct HpcC as [[_ Hoff]|[(X&_)|(X&_)]]; try congruence.
  unfold stepC3_n, stepC3_a. rewrite Hpc0. cbv beta iota zeta.
  set (n := Nat.max 1 n0) in *. assert (Hn : 1 <= n) by (unfold n; lia). clearbody n.
  destruct (n <=? ca3 (C3 c)) eqn:E; [apply Nat.leb_le in E; lia|]. clear E.
  pose proof HvC as (P1&P2&P3'&P4&P5&P6&P7&P8&P9&P10&P11&P12&P13&P14).
  pose proof (pick_bounds3n (vwi3 (V3 (C3 c))) (length (Mwi3 c)) j P2) as [Hi1 Hi2].
  set (i := pick (vwi3 (V3 (C3 c))) (length (Mwi3 c)) j) in *.
  set (m := nth i (Mwi3 c) dmsg3).
  pose proof (Forall_nth_msg3 _ _ i Hmwi Hi2) as [Hmv Hmok]. fold m in Hmv, Hmok.
  pose proof (Hwwi i Hi2) as Hmw. fold m in Hmw.
  assert (Hseen : seenC3n c <= mabs3 m) by (unfold seenC3n, m; apply Hswi; lia).
  assert (Hm : mabs3 m = mabs3 (nth i (Mwi3 c) dmsg3)) by reflexivity.
  clearbody m. clearbody i.
  assert (HmW : mabs3 m <= pos3 (W3 c)) by (rewrite <- Hlwi, Hm; apply sorted3_last_n; auto).
  assert (Ha : dist len (ix3 (C3 c)) (mval3 m) = mabs3 m - pos3 (C3 c)).
  { rewrite HixC, Hmv. apply dist_mod; lia. }
  set (v1 := vjoin3 _ (mview3 m)).
  assert (Hv1 : view_ok3n c v1) by (apply view_ok3n_acq; auto; try lia).
  constructor; simpl; auto.
  - unfold seenC3n; simpl. rewrite Ha.
    assert (mabs3 m <= mabs3 (nth (Nat.max i (vwi3 (mview3 m))) (Mwi3 c) dmsg3))
      by (rewrite Hm; apply Hswi; destruct Hmok as (_&Q&_); lia).
    lia.
  - unfold pc_okn; simpl.
    destruct (n <=? dist len (ix3 (C3 c)) (mval3 m)) eqn:E;
      [apply Nat.leb_le in E; right; left; splits; auto; lia | left; auto].
  - intros k Hk. apply slot_okn_pcC; simpl; auto; lia.
Qed.

(* ---------- C, pc = 2: the non-atomic read of slot (pos + off) mod len of the granted window ---------- *)
Lemma C_read c j n0 : Inv3n c -> pc3 (C3 c) = 2 -> Inv3n (stepC3_n len j n0 c).
Proof.
  intros I Hpc2. inv3n_fields I.
  destruct HpcC as [[X _]|[(_&Hoff&Hcnt)|(X&_)]]; try congruence.
  unfold stepC3_n, stepC3_a. rewrite Hpc2. cbv beta iota zeta.
  pose proof HvC as (P1&P2&P3'&P4&P5&P6&P7&P8&P9&P10&P11&P12&P13&P14).
  assert (Hk0 : wadd len (ix3 (C3 c)) (off3 (C3 c)) = (pos3 (C3 c) + off3 (C3 c)) mod len)
    by (rewrite HixC; apply wadd_mod; lia).
  set (k0 := wadd len (ix3 (C3 c)) (off3 (C3 c))) in *.
  set (q := pos3 (C3 c) + off3 (C3 c)) in *.
  assert (Hk : k0 < len) by (rewrite Hk0; apply Nat.mod_upper_bound; lia).
  destruct (Hslot _ Hk) as (S1&S2&S3&S4&S5&S6).
  fold (mtn3 c k0).
  assert (HseenC : q + 1 <= wW3 (V3 (C3 c))) by (unfold seenC3n in HcaC; lia).
  (* the last write of this slot (by the producer or by the worker) is not above the position being read,
     hence below the watermarks the consumer acquired *)
  assert (Hwc : wcov TC (mtn3 c k0) (V3 (C3 c)) = true).
  { unfold wcov. specialize (P13 _ Hk). unfold wcover in P13.
    destruct (wt (mtn3 c k0)) eqn:Ew; auto; apply Nat.leb_le; apply P13.
    - destruct (S3 eq_refl) as (T1&T2).
      assert (Hw : wpos3 (mtn3 c k0) <= q)
        by (apply (congr_le len); [exact Hlen | rewrite S1, Hk0; reflexivity | lia]).
      lia.
    - destruct (S4 eq_refl) as (T1&T2).
      assert (Hw : wpos3 (mtn3 c k0) <= q)
        by (apply (congr_le len); [exact Hlen | rewrite S1, Hk0; reflexivity | lia]).
      lia. }
  rewrite Hwc. simpl. rewrite orb_false_r.
  set (c' := mkC3n _ _ _ _ _ _ _ _).
  assert (Hmt : forall k, k < len -> k <> k0 -> mtn3 c' k = mtn3 c k)
    by (intros; unfold mtn3, c'; simpl; apply nth_upd_neq; auto).
  assert (Hmt0 : mtn3 c' k0 = mkMeta3 (wt (mtn3 c k0)) (wpos3 (mtn3 c k0)) (wclk3 (mtn3 c k0)) q (kc3 (V3 (C3 c))))
    by (unfold mtn3, c'; simpl; apply nth_upd_eq; lia).
  assert (G : grows3n c c').
  { unfold grows3n; splits; simpl; try (exists []; rewrite app_nil_r; reflexivity); try lia.
    intros k Hk'. destruct (Nat.eq_dec k k0) as [->|Hne].
    - right; right; right. rewrite Hmt0; simpl; splits; auto; lia.
    - left; auto. }
  constructor; simpl; auto.
  - rewrite upd_length; auto.
  - apply (msgs_ok3n_grows c c' _ G Hmpi).
  - apply (msgs_ok3n_grows c c' _ G Hmwi).
  - apply (msgs_ok3n_grows c c' _ G Hmci).
  - apply (view_ok3n_grows c c' _ G HvP).
  - apply (view_ok3n_grows c c' _ G HvW).
  - apply (view_ok3n_grows c c' _ G HvC).
  - unfold pc_okn; simpl.
    destruct (cnt3 (C3 c) <=? off3 (C3 c) + 1) eqn:E; [apply Nat.leb_le in E | apply Nat.leb_gt in E].
    + right; right; splits; auto; lia.
    + right; left; splits; auto; lia.
  - intros k Hk'. unfold slot_okn. destruct (Nat.eq_dec k k0) as [->|Hne].
    + rewrite Hmt0; simpl. splits; auto; lia.
    + rewrite (Hmt k Hk' Hne). destruct (Hslot k Hk') as (T1&T2&T3&T4&T5&T6).
      unfold c'; simpl. splits; auto; lia.
Qed.

(* ---------- C, pc = 3: advance by cnt + release store of the new index ---------- *)
Lemma C_store c j n0 : Inv3n c -> pc3 (C3 c) = 3 -> Inv3n (stepC3_n len j n0 c).
Proof.
  intros I Hpc3. inv3n_fields I.
  destruct HpcC as [[X _]|[(X&_)|(_&Hoff&Hcnt)]]; try congruence.
  unfold stepC3_n, stepC3_a. rewrite Hpc3. cbv beta iota zeta.
  pose proof HvC as (P1&P2&P3'&P4&P5&P6&P7&P8&P9&P10&P11&P12&P13&P14).
  assert (Hix' : wadd len (ix3 (C3 c)) (cnt3 (C3 c)) = (pos3 (C3 c) + cnt3 (C3 c)) mod len)
    by (rewrite HixC; apply wadd_mod; lia).
  set (p' := pos3 (C3 c) + cnt3 (C3 c)) in *.
  set (v1 := mkV3 _ _ (length (Mci3 c)) _ _ _ _ _ p').
  set (m := mkM3 _ _ v1).
  set (c' := mkC3n _ _ _ _ _ _ _ _).
  assert (G : grows3n c c').
  { unfold grows3n; splits; simpl; try lia; try (exists []; rewrite app_nil_r; reflexivity).
    - exists [m]; reflexivity.
    - intros; left; reflexivity. }
  assert (Hnth : forall i, i < length (Mci3 c) -> nth i (Mci3 c ++ [m]) dmsg3 = nth i (Mci3 c) dmsg3)
    by (intros; apply nth_app_l3; auto).
  assert (HseenC : p' <= wW3 (V3 (C3 c))) by (unfold seenC3n in HcaC; lia).
  assert (Hv1 : view_ok3n c' v1).
  { unfold view_ok3n, v1, c'; simpl. rewrite app_length; simpl. splits; try lia.
    - rewrite nth_app_last3n; simpl; lia.
    - intros k Hk. apply P13; auto.
    - intros k Hk Hw. destruct (Hslot k Hk) as (_&_&_&_&_&S6). exact S6. }
  constructor; simpl; auto.
  - rewrite app_length; simpl; lia.
  - apply sorted3_app_n; auto. simpl. lia.
  - rewrite lastabs3_app_n; reflexivity.
  - apply (msgs_ok3n_grows c c' _ G Hmpi).
  - apply (msgs_ok3n_grows c c' _ G Hmwi).
  - apply Forall_app1.
    + apply (msgs_ok3n_grows c c' _ G Hmci).
    + split; simpl; auto.
  - intros i Hi. rewrite app_length in Hi; simpl in Hi.
    destruct (Nat.eq_dec i (length (Mci3 c))) as [->|Hne].
    + rewrite nth_app_last3n; simpl; lia.
    + rewrite Hnth by lia. apply Hwci; lia.
  - apply (view_ok3n_grows c c' _ G HvP).
  - apply (view_ok3n_grows c c' _ G HvW).
  - destruct Hv1 as (A1&A2&A3&A4&A5&A6&A7&A8&A9&A10&A11&A12&A13&A14). unfold view_ok3n; simpl. splits; auto.
  - unfold seenP3n in *; simpl. destruct HvP as (_&_&C3'&_). rewrite Hnth by auto. lia.
  - unfold seenC3n in *; simpl. lia.
  - left; simpl; auto.
  - intros k Hk. destruct (Hslot k Hk) as (S1&S2&S3&S4&S5&S6).
    unfold slot_okn, mtn3 in *; simpl. splits; auto; lia.
Qed.

(* ======================= assembly ======================= *)
Lemma step3n_inv c s : Inv3n c -> Inv3n (step3_n len c s).
Proof.
  intros I. destruct s as [[[| |] j] n0]; unfold step3_n, step3_a.
  - change (Inv3n (stepP3_n len j n0 c)).
    destruct (k_pcP c I) as [[H0 _]|[[H2 _]|[H3 _]]].
    + destruct (Nat.max 1 n0 <=? ca3 (P3 c)) eqn:E; [apply Nat.leb_le in E | apply Nat.leb_gt in E].
      * apply P_fast; auto.
      * apply P_load; auto.
    + apply P_write; auto.
    + apply P_store; auto.
  - change (Inv3n (stepW3_n len j n0 c)).
    destruct (k_pcW c I) as [[H0 _]|[[H2 _]|[H3 _]]].
    + destruct (Nat.max 1 n0 <=? ca3 (W3 c)) eqn:E; [apply Nat.leb_le in E | apply Nat.leb_gt in E].
      * apply W_fast; auto.
      * apply W_load; auto.
    + apply W_write; auto.
    + apply W_store; auto.
  - change (Inv3n (stepC3_n len j n0 c)).
    destruct (k_pcC c I) as [[H0 _]|[[H2 _]|[H3 _]]].
    + destruct (Nat.max 1 n0 <=? ca3 (C3 c)) eqn:E; [apply Nat.leb_le in E | apply Nat.leb_gt in E].
      * apply C_fast; auto.
      * apply C_load; auto.
    + apply C_read; auto.
    + apply C_store; auto.
Qed.

Lemma nth_init_meta3n k :
  k < len -> nth k (map (fun k => mkMeta3 TC k 0 k 0) (seq 0 len)) dmeta3 = mkMeta3 TC k 0 k 0.
Proof.
  intros Hk. rewrite (nth_indep _ dmeta3 (mkMeta3 TC 0 0 0 0)) by (rewrite map_length, seq_length; auto).
  change (mkMeta3 TC 0 0 0 0) with ((fun k => mkMeta3 TC k 0 k 0) 0).
  rewrite map_nth. rewrite seq_nth by auto. reflexivity.
Qed.

Lemma init3n_inv : Inv3n (init3_n len).
Proof.
  assert (Hv : forall a b c0, view_ok3n (init3_n len) (vinit len a b c0)).
  { intros. unfold view_ok3n, init3_n, vinit, mtn3; simpl. splits; try lia.
    - intros k Hk. unfold wcover. rewrite nth_init_meta3n by auto. simpl. auto.
    - intros k Hk Hw. rewrite nth_init_meta3n in * by auto. simpl in *. lia. }
  assert (Hs : forall x, sorted3 [x]).
  { intros x i j Hij Hj. simpl in Hj. assert (i = 0) by lia. assert (j = 0) by lia. subst. lia. }
  assert (Hm : forall c0, msg_ok3n c0 (mkM3 0 len (vinit len 0 0 0)) <-> view_ok3n c0 (vinit len 0 0 0)).
  { intros; unfold msg_ok3n; simpl. split; [tauto|]. intros; split; auto. symmetry; apply Nat.mod_same; lia. }
  constructor; simpl; auto; try (unfold pc_okn; simpl; auto; fail);
    try (symmetry; apply Nat.mod_same; lia);
    try apply Hv;
    try (constructor; [|constructor]; apply Hm, Hv);
    try (intros i Hi; assert (i = 0) by lia; subst; simpl; lia).
  - rewrite map_length, seq_length; reflexivity.
  - unfold seenP3n; simpl. lia.
  - intros k Hk. unfold slot_okn, mtn3; simpl. rewrite nth_init_meta3n by auto. simpl.
    splits; try lia; try (apply Nat.mod_small; auto); intros E; discriminate E.
Qed.

Theorem exec3n_inv script : Inv3n (exec3_n len (init3_n len) script).
Proof.
  unfold exec3_n, exec3_a. change (step3_a true true true len) with (step3_n len).
  generalize init3n_inv. generalize (init3_n len).
  induction script as [|s script IH]; intros c I; simpl; auto.
  apply IH. apply step3n_inv; auto.
Qed.
End Inv3n.

(* Every release/acquire-consistent execution of the multi-slot three-stage pipeline
   (any interleaving, any stale read, any sequence of requested window sizes) is race free. *)
Theorem pipeline3_n_race_free : forall len script, 0 < len -> race3 (exec3_n len (init3_n len) script) = false.
Proof. intros len script Hl. apply (k_race len _ (exec3n_inv len Hl script)). Qed.
Print Assumptions pipeline3_n_race_free.
