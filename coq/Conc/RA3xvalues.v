(** * What the consumer reads on the extended THREE-stage release/acquire machine (RA3x.v): a VALUE layer.

    Values are threaded alongside the machine of RA3x.v (producer P -> worker W -> consumer C, multi-slot
    windows, stale reads, all interleavings, [Reset] / [Detach] / [Sync] / [Attach] of the worker and of the
    consumer).  With [fr t = pos t + off t] the absolute position of the slot a thread accesses next and
    [slot t = wadd len (ix t) (off t)] its ring slot:
    - the producer's per-slot write step (pc 2) stores [pv (fr P)] into [slot P] of the value array [vals];
    - the worker's per-slot edit step (pc 2) replaces the content x of [slot W] by [f x] and appends the absolute
      position [fr W] it believes it is editing to the ghost list [wlog];
    - the consumer's per-slot read step (pc 2) appends the content of [slot C] to [clog] and the absolute
      position [fr C] it believes it is reading to [plog].
    The slots initially hold arbitrary values [init k].  No other step touches the value state.

    For all [len > 0] and all scripts:
    - [consumed_values_3x]   clog = map (fun p => if edited p then f (pv p) else pv p) plog, where
                             [edited p = existsb (Nat.eqb p) wlog] is evaluated on the worker's log AT THE END of
                             the execution: every value the consumer gets is exactly the pushed value of that
                             position, transformed exactly once if the worker ever touches that position and
                             not at all if the worker skipped it by a reset; never an initial, stale, torn,
                             not-yet-written or half-processed (edited later) value;
    - [consumed_positions_increasing_3x]
                             plog is strictly increasing, every element is >= len and < the worker's PUBLISHED
                             position (nothing unreleased is read - also while the worker is detached);
                             wlog is strictly increasing (each position is edited at most once, in order),
                             every element is >= len and < the producer's published position;
    - [no_reset_prefix_3x]   if the script contains no [Reset] command: plog = seq len (length plog),
                             wlog = seq len (length wlog), clog = map (fun p => f (pv p)) plog - exactly the
                             prefix, everything edited - with Detach / Sync / Attach allowed.
                             Split: [no_worker_reset_3x] (no worker Reset: wlog is a prefix and everything the
                             consumer reads is edited - the consumer may reset) and [no_consumer_reset_3x] (no
                             consumer Reset: plog is a prefix - the worker may reset);
    - [edit_status_frozen_3x] the logs only grow, and everything the worker edits after a moment lies at or above
                             its frontier of that moment, which is >= its published position >= everything the
                             consumer has read or may read: whether such a position counts as edited never
                             changes afterwards.  (This is what makes "edited, evaluated at the end" the right
                             reading of (1).)

    The race-freedom invariant [Inv3x] of RA3xproof.v is reused as is (through the order facts of the three
    frontiers it implies, [frontier_facts]); the value invariant [VI] is a statement about the slot metadata, the
    three frontiers and the value state only:
      [d, b)  (readable or about to be published, not yet read): the slot was last written at exactly that
              position - by W iff the position is in wlog, by P otherwise (skipped by a worker reset);
      [b, a)  (pushed, not yet reached by the worker): last written by P at exactly that position;
    a worker reset moves b forwards inside [b, a], a consumer reset moves d forwards ([VI_jump]). *)
From Coq Require Import List Arith Lia Bool Sorted.
Import ListNotations.
Require Import MRB.Conc.RA MRB.Conc.RA3 MRB.Conc.RA3proof MRB.Conc.RA3x MRB.Conc.RA3xproof.

Local Arguments Nat.leb : simpl never.
Local Arguments Nat.ltb : simpl never.
Local Arguments Nat.modulo : simpl never.
Local Arguments Nat.max : simpl never.
Local Arguments Nat.min : simpl never.
Local Arguments Nat.sub : simpl never.
Local Arguments Nat.add : simpl never.

(* value array, the consumer's log of values, the consumer's log of (believed) absolute positions, the worker's
   ghost log of (believed) absolute positions it has edited *)
Record vst := mkVst { vals : list nat; clog : list nat; plog : list nat; wlog : list nat }.

(* has position p been edited, according to the worker's log? *)
Definition edited (wl : list nat) (p : nat) : bool := existsb (Nat.eqb p) wl.

(* ---------- pure facts ---------- *)
Lemma mod_close_eq len a b : 0 < len -> a mod len = b mod len -> a < b + len -> b < a + len -> a = b.
Proof.
  intros Hl E H1 H2.
  assert (Hab : a <= b) by (apply (congr_le len); [exact Hl | exact E | exact H1]).
  assert (Hba : b <= a) by (apply (congr_le len); [exact Hl | symmetry; exact E | exact H2]).
  lia.
Qed.

Lemma ssorted_snoc (l : list nat) (x : nat) :
  StronglySorted lt l -> Forall (fun y => y < x) l -> StronglySorted lt (l ++ [x]).
Proof.
  intros S. induction S as [|a l S IH Ha]; intros F; cbn [app].
  - constructor; constructor.
  - inversion F as [|a' l' Fa Fl]; subst. constructor.
    + apply IH; exact Fl.
    + apply Forall_app; split; [exact Ha | constructor; [exact Fa | constructor]].
Qed.

Lemma edited_snoc wl q p : edited (wl ++ [q]) p = edited wl p || (p =? q).
Proof. unfold edited. rewrite existsb_app. cbn [existsb]. rewrite orb_false_r. reflexivity. Qed.

Lemma edited_app wl l p : edited (wl ++ l) p = edited wl p || edited l p.
Proof. unfold edited. apply existsb_app. Qed.

Lemma edited_above wl b p : Forall (fun q => q < b) wl -> b <= p -> edited wl p = false.
Proof.
  intros F Hp. unfold edited. induction F as [|q l Hq F IH]; cbn [existsb]; [reflexivity|].
  apply orb_false_iff. split; [apply Nat.eqb_neq; lia | exact IH].
Qed.

Lemma edited_below l b p : Forall (fun q => b <= q) l -> p < b -> edited l p = false.
Proof.
  intros F Hp. unfold edited. induction F as [|q l Hq F IH]; cbn [existsb]; [reflexivity|].
  apply orb_false_iff. split; [apply Nat.eqb_neq; lia | exact IH].
Qed.

Lemma edited_seq lo n p : lo <= p < lo + n -> edited (seq lo n) p = true.
Proof.
  intros Hp. unfold edited. apply existsb_exists. exists p. split; [apply in_seq; exact Hp | apply Nat.eqb_refl].
Qed.

Lemma seq_snoc_front lo q : lo <= q -> seq lo (q - lo) ++ [q] = seq lo (q + 1 - lo).
Proof.
  intros H. replace (q + 1 - lo) with (S (q - lo)) by lia. rewrite seq_S. f_equal. f_equal. lia.
Qed.

Ltac splits := repeat match goal with |- _ /\ _ => split end.

Section Values3x.
Variable len : nat.
Hypothesis Hlen : 0 < len.
Variables (pv f init : nat -> nat).

(* frontier of a thread: the absolute position of the slot it accesses next; the ring slot of that access *)
Definition fr (t : thr3x) : nat := pos3 t + off3 t.
Definition slot (t : thr3x) : nat := wadd len (ix3 t) (off3 t).

(* The value step for script entry [s] in configuration [c] (the configuration BEFORE the machine step). *)
Definition vstep (c : cfg3x) (s : tid * cmd) (v : vst) : vst :=
  match snd s with
  | Op _ _ =>
    match fst s with
    | TP => if pc3 (P3 c) =? 2
            then mkVst (upd (slot (P3 c)) (pv (fr (P3 c))) (vals v)) (clog v) (plog v) (wlog v)
            else v
    | TW => if pc3 (W3 c) =? 2
            then mkVst (upd (slot (W3 c)) (f (nth (slot (W3 c)) (vals v) 0)) (vals v)) (clog v) (plog v)
                       (wlog v ++ [fr (W3 c)])
            else v
    | TC => if pc3 (C3 c) =? 2
            then mkVst (vals v) (clog v ++ [nth (slot (C3 c)) (vals v) 0]) (plog v ++ [fr (C3 c)]) (wlog v)
            else v
    end
  | _ => v
  end.

Fixpoint vexec (c : cfg3x) (v : vst) (script : list (tid * cmd)) : cfg3x * vst :=
  match script with
  | [] => (c, v)
  | s :: r => vexec (step3_x len c s) (vstep c s v) r
  end.

Definition vinit0 : vst := mkVst (map init (seq 0 len)) [] [] [].

(* the machine run alongside the values is exactly [exec3_x] *)
Lemma vexec_fst script : forall c v, fst (vexec c v script) = exec3_x len c script.
Proof.
  induction script as [|s r IH]; intros c v; [reflexivity|].
  cbn [vexec]. rewrite IH. reflexivity.
Qed.

Lemma vexec_app s1 s2 : forall c v,
  vexec c v (s1 ++ s2) = vexec (fst (vexec c v s1)) (snd (vexec c v s1)) s2.
Proof.
  induction s1 as [|s r IH]; intros c v; [reflexivity|].
  cbn [app vexec]. apply IH.
Qed.

(* ---------- the value invariant ---------- *)
(* what the consumer must find at position p, given the worker's log *)
Definition expect (wl : list nat) (p : nat) : nat := if edited wl p then f (pv p) else pv p.

(* the value a slot holds, from the race detector's record of its last write *)
Definition val_of (m : meta3) : nat :=
  match wt m with TP => pv (wpos3 m) | TW => f (pv (wpos3 m)) | TC => init (wpos3 m) end.

(* over the slot metadata [ms], the frontiers [a] (producer), [b] (worker), [d] (consumer) and the value state *)
Record VI (ms : list meta3) (a b d : nat) (v : vst) : Prop := mkVI {
  v_len : length (vals v) = len;
  (* the stored value is determined by the last recorded write of the slot *)
  v_val : forall k, k < len -> nth k (vals v) 0 = val_of (nth k ms dmeta3);
  (* below the worker's frontier, not yet read: last written at exactly that position,
     by the worker iff the worker's log has the position, by the producer otherwise (skipped by a reset) *)
  v_e1 : forall p, d <= p < b ->
           wpos3 (nth (p mod len) ms dmeta3) = p /\
           ((wt (nth (p mod len) ms dmeta3) = TW /\ edited (wlog v) p = true) \/
            (wt (nth (p mod len) ms dmeta3) = TP /\ edited (wlog v) p = false));
  (* pushed, not yet reached by the worker: last written by the producer at exactly that position *)
  v_e2 : forall p, b <= p < a ->
           wpos3 (nth (p mod len) ms dmeta3) = p /\ wt (nth (p mod len) ms dmeta3) = TP;
  v_wsrt : StronglySorted lt (wlog v);
  v_wbd : Forall (fun p => len <= p < b) (wlog v);
  v_psrt : StronglySorted lt (plog v);
  v_pbd : Forall (fun p => len <= p < d) (plog v);
  v_log : clog v = map (expect (wlog v)) (plog v);
  v_pos : len <= d
}.

Definition VInv (c : cfg3x) (v : vst) : Prop :=
  VI (metas3 c) (fr (P3 c)) (fr (W3 c)) (fr (C3 c)) v.

Lemma wbd_lt (b : nat) (wl : list nat) : Forall (fun p => len <= p < b) wl -> Forall (fun q => q < b) wl.
Proof. intros F. eapply Forall_impl; [|exact F]. cbv beta. intros q Hq. lia. Qed.

(* ---------------- the three slot accesses and the jumps, as pure facts ---------------- *)

(** producer writes position [a] *)
Lemma VI_P ms a b d v k0 x y z :
  VI ms a b d v -> length ms = len -> d <= b -> b <= a -> a + 1 <= d + len -> k0 = a mod len ->
  VI (upd k0 (mkMeta3 TP a x y z) ms) (a + 1) b d
     (mkVst (upd k0 (pv a) (vals v)) (clog v) (plog v) (wlog v)).
Proof.
  intros [VL VV E1 E2 WS WB PS PB LG VP] LM Hdb Hba Hcap Ek. subst k0.
  assert (Hk : a mod len < len) by (apply Nat.mod_upper_bound; lia).
  constructor; cbn [vals clog plog wlog].
  - rewrite upd_length. exact VL.
  - intros k Hk'. destruct (Nat.eq_dec (a mod len) k) as [Ek|Hne].
    + subst k.
      rewrite nth_upd_eq by (rewrite VL; exact Hk).
      rewrite nth_upd_eq by (rewrite LM; exact Hk).
      reflexivity.
    + rewrite nth_upd_neq by exact Hne. rewrite nth_upd_neq by exact Hne. apply VV. exact Hk'.
  - intros p Hp. destruct (Nat.eq_dec (a mod len) (p mod len)) as [E|Hne].
    + exfalso. assert (Hap : a = p) by (apply (mod_close_eq len); [exact Hlen | exact E | lia | lia]). lia.
    + rewrite nth_upd_neq by exact Hne. apply E1. exact Hp.
  - intros p Hp. destruct (Nat.eq_dec (a mod len) (p mod len)) as [E|Hne].
    + assert (Hap : a = p) by (apply (mod_close_eq len); [exact Hlen | exact E | lia | lia]). subst p.
      rewrite nth_upd_eq by (rewrite LM; exact Hk). cbn [wt wpos3]. split; reflexivity.
    + rewrite nth_upd_neq by exact Hne. apply E2.
      assert (Hpa : p <> a) by (intros Epa; apply Hne; rewrite Epa; reflexivity). lia.
  - exact WS.
  - exact WB.
  - exact PS.
  - exact PB.
  - exact LG.
  - exact VP.
Qed.

(** worker edits position [b] in place *)
Lemma VI_W ms a b d v k0 x y z :
  VI ms a b d v -> length ms = len -> d <= b -> b < a -> a <= d + len -> k0 = b mod len ->
  VI (upd k0 (mkMeta3 TW b x y z) ms) a (b + 1) d
     (mkVst (upd k0 (f (nth k0 (vals v) 0)) (vals v)) (clog v) (plog v) (wlog v ++ [b])).
Proof.
  intros [VL VV E1 E2 WS WB PS PB LG VP] LM Hdb Hba Hcap Ek. subst k0.
  assert (Hk : b mod len < len) by (apply Nat.mod_upper_bound; lia).
  assert (Cur : wpos3 (nth (b mod len) ms dmeta3) = b /\ wt (nth (b mod len) ms dmeta3) = TP) by (apply E2; lia).
  destruct Cur as [CP CW].
  constructor; cbn [vals clog plog wlog].
  - rewrite upd_length. exact VL.
  - intros k Hk'. destruct (Nat.eq_dec (b mod len) k) as [Ek|Hne].
    + subst k.
      rewrite nth_upd_eq by (rewrite VL; exact Hk).
      rewrite nth_upd_eq by (rewrite LM; exact Hk).
      rewrite VV by exact Hk. unfold val_of. rewrite CW, CP. reflexivity.
    + rewrite nth_upd_neq by exact Hne. rewrite nth_upd_neq by exact Hne. apply VV. exact Hk'.
  - intros p Hp. destruct (Nat.eq_dec (b mod len) (p mod len)) as [E|Hne].
    + assert (Hbp : b = p) by (apply (mod_close_eq len); [exact Hlen | exact E | lia | lia]). subst p.
      rewrite nth_upd_eq by (rewrite LM; exact Hk). cbn [wt wpos3]. split; [reflexivity|].
      left. split; [reflexivity|]. rewrite edited_snoc, Nat.eqb_refl. apply orb_true_r.
    + rewrite nth_upd_neq by exact Hne.
      assert (Hpb : p <> b) by (intros Epb; apply Hne; rewrite Epb; reflexivity).
      assert (Hq : (p =? b) = false) by (apply Nat.eqb_neq; exact Hpb).
      destruct (E1 p) as [Ep [[Et Ee]|[Et Ee]]]; [lia | | ]; (split; [exact Ep|]).
      * left. split; [exact Et|]. rewrite edited_snoc, Ee. reflexivity.
      * right. split; [exact Et|]. rewrite edited_snoc, Ee, Hq. reflexivity.
  - intros p Hp. destruct (Nat.eq_dec (b mod len) (p mod len)) as [E|Hne].
    + exfalso. assert (Hbp : b = p) by (apply (mod_close_eq len); [exact Hlen | exact E | lia | lia]). lia.
    + rewrite nth_upd_neq by exact Hne. apply E2. lia.
  - apply ssorted_snoc; [exact WS | apply (wbd_lt b); exact WB].
  - apply Forall_app. split.
    + eapply Forall_impl; [|exact WB]. cbv beta. intros q Hq. lia.
    + constructor; [lia | constructor].
  - exact PS.
  - exact PB.
  - rewrite LG. apply map_ext_in. intros p Hp.
    rewrite Forall_forall in PB. specialize (PB p Hp). cbv beta in PB.
    unfold expect. rewrite edited_snoc.
    assert (Hq : (p =? b) = false) by (apply Nat.eqb_neq; lia).
    rewrite Hq, orb_false_r. reflexivity.
  - exact VP.
Qed.

(** what the slot of a position in [d, b) holds *)
Lemma VI_cur ms a b d v p : VI ms a b d v -> d <= p < b -> nth (p mod len) (vals v) 0 = expect (wlog v) p.
Proof.
  intros [VL VV E1 E2 WS WB PS PB LG VP] Hp.
  assert (Hk : p mod len < len) by (apply Nat.mod_upper_bound; lia).
  rewrite VV by exact Hk. unfold val_of, expect.
  destruct (E1 p Hp) as [Ep [[Et Ee]|[Et Ee]]]; rewrite Et, Ep, Ee; reflexivity.
Qed.

(** consumer reads position [d] *)
Lemma VI_C ms a b d v k0 x y :
  VI ms a b d v -> length ms = len -> d < b -> k0 = d mod len ->
  VI (upd k0 (mkMeta3 (wt (nth k0 ms dmeta3)) (wpos3 (nth k0 ms dmeta3)) (wclk3 (nth k0 ms dmeta3)) x y) ms)
     a b (d + 1) (mkVst (vals v) (clog v ++ [nth k0 (vals v) 0]) (plog v ++ [d]) (wlog v)).
Proof.
  intros V LM Hdb Ek. subst k0.
  pose proof (VI_cur ms a b d v d V) as Cur.
  destruct V as [VL VV E1 E2 WS WB PS PB LG VP].
  assert (Hk : d mod len < len) by (apply Nat.mod_upper_bound; lia).
  set (ms' := upd (d mod len) _ ms).
  assert (Hsame : forall k, wt (nth k ms' dmeta3) = wt (nth k ms dmeta3) /\
                            wpos3 (nth k ms' dmeta3) = wpos3 (nth k ms dmeta3)).
  { intros k. unfold ms'. destruct (Nat.eq_dec (d mod len) k) as [Ek|Hne].
    - subst k. rewrite nth_upd_eq by (rewrite LM; exact Hk). cbn [wt wpos3]. split; reflexivity.
    - rewrite nth_upd_neq by exact Hne. split; reflexivity. }
  constructor; cbn [vals clog plog wlog].
  - exact VL.
  - intros k Hk'. rewrite VV by exact Hk'. unfold val_of.
    destruct (Hsame k) as [Hw Hp]. rewrite Hw, Hp. reflexivity.
  - intros p Hp. destruct (Hsame (p mod len)) as [Hw Hq]. rewrite Hw, Hq. apply E1. lia.
  - intros p Hp. destruct (Hsame (p mod len)) as [Hw Hq]. rewrite Hw, Hq. apply E2. exact Hp.
  - exact WS.
  - exact WB.
  - apply ssorted_snoc; [exact PS|]. eapply Forall_impl; [|exact PB]. cbv beta. intros q Hq. lia.
  - apply Forall_app. split.
    + eapply Forall_impl; [|exact PB]. cbv beta. intros q Hq. lia.
    + constructor; [lia | constructor].
  - rewrite map_app, LG. cbn [map]. f_equal. f_equal. apply Cur. lia.
  - lia.
Qed.

(** no slot is touched; the worker's frontier moves forwards (not beyond the producer's: a worker reset - the
    skipped positions keep the producer's write and are not in the worker's log), the consumer's frontier moves
    forwards (a consumer reset) *)
Lemma VI_jump ms a b d v b' d' :
  VI ms a b d v -> b <= b' -> b' <= a -> d <= d' -> VI ms a b' d' v.
Proof.
  intros [VL VV E1 E2 WS WB PS PB LG VP] Hb Hba Hd.
  constructor.
  - exact VL.
  - exact VV.
  - intros p Hp. destruct (Nat.lt_ge_cases p b) as [Hlt|Hge].
    + apply E1. lia.
    + destruct (E2 p) as [Ep Et]; [lia|]. split; [exact Ep|]. right. split; [exact Et|].
      apply (edited_above (wlog v) b p); [apply (wbd_lt b); exact WB | exact Hge].
  - intros p Hp. apply E2. lia.
  - exact WS.
  - eapply Forall_impl; [|exact WB]. cbv beta. intros q Hq. lia.
  - exact PS.
  - eapply Forall_impl; [|exact PB]. cbv beta. intros q Hq. lia.
  - exact LG.
  - lia.
Qed.

(* ---------------- what the race-freedom invariant says about the three frontiers ---------------- *)
Lemma frontier_facts c : Inv3x len c ->
  fr (C3 c) <= fr (W3 c) /\ fr (W3 c) <= fr (P3 c) /\ fr (P3 c) + 1 <= fr (C3 c) + len /\
  fr (C3 c) <= lastabs3 (Mwi3 c) /\ fr (W3 c) <= pos3 (P3 c) /\
  off3 (P3 c) <= len /\ off3 (W3 c) <= len /\ off3 (C3 c) <= len /\
  (pc3 (W3 c) = 2 -> fr (W3 c) < fr (P3 c)) /\
  (pc3 (C3 c) = 2 -> fr (C3 c) < fr (W3 c)).
Proof.
  intros I.
  pose proof (order3x len Hlen c I) as (Hcw & Hwp & Hpc & HfC & HfW & HfP & HcapP & HcapW & HcapC).
  pose proof (x_caW len c I) as HcaW. pose proof (x_caC len c I) as HcaC.
  pose proof (x_lpi len c I) as Hlpi. pose proof (x_lwi len c I) as Hlwi. pose proof (x_lci len c I) as Hlci.
  destruct (x_vW len c I) as (B&_). destruct (x_vC len c I) as (_&C&_).
  pose proof (sorted3_last_x _ _ (x_spi len c I) B) as HsW.
  pose proof (sorted3_last_x _ _ (x_swi len c I) C) as HsC.
  pose proof (off_le_ca_x len Hlen _ (x_pcP len c I)) as HoP.
  pose proof (off_le_ca_r len Hlen _ _ (x_pcW len c I)) as HoW.
  pose proof (off_le_ca_r len Hlen _ _ (x_pcC len c I)) as HoC.
  unfold seenW3x, seenC3x in *. unfold fr.
  split; [lia|]. split; [lia|]. split; [lia|]. split; [lia|]. split; [lia|].
  split; [lia|]. split; [lia|]. split; [lia|]. split.
  - intros Hpc2.
    destruct (x_pcW len c I) as [[[X _]|[(_&X&Y)|(X&_)]]|(X&_)]; [congruence | | congruence | congruence]. lia.
  - intros Hpc2.
    destruct (x_pcC len c I) as [[[X _]|[(_&X&Y)|(X&_)]]|(X&_)]; [congruence | | congruence | congruence]. lia.
Qed.

Lemma slot_mod ix p off : ix = p mod len -> off <= len -> wadd len ix off = (p + off) mod len.
Proof. intros E H. subst ix. apply wadd_mod; [exact Hlen | exact H]. Qed.

(* ---------- the effect of every step, in terms of metadata, frontiers and the value state ---------- *)
Definition is_wreset (s : tid * cmd) : bool := match s with (TW, Reset _) => true | _ => false end.
Definition is_creset (s : tid * cmd) : bool := match s with (TC, Reset _) => true | _ => false end.

(* A step that touches no slot: metadata, the producer's frontier and the value state are unchanged; the
   worker's / the consumer's frontier does not move backwards - and does not move at all unless the step is the
   store of its reset (pc 5); a thread gets to pc 5 only by its own Reset command. *)
Definition eff_quiet (c : cfg3x) (s : tid * cmd) : Prop :=
  let c' := step3_x len c s in
  metas3 c' = metas3 c /\ fr (P3 c') = fr (P3 c) /\
  fr (W3 c) <= fr (W3 c') /\ fr (C3 c) <= fr (C3 c') /\
  (pc3 (W3 c) <> 5 -> fr (W3 c') = fr (W3 c)) /\
  (pc3 (C3 c) <> 5 -> fr (C3 c') = fr (C3 c)) /\
  (pc3 (W3 c) <> 5 -> is_wreset s = false -> pc3 (W3 c') <> 5) /\
  (pc3 (C3 c) <> 5 -> is_creset s = false -> pc3 (C3 c') <> 5) /\
  (forall v, vstep c s v = v).

Definition eff_write (c : cfg3x) (s : tid * cmd) : Prop :=
  let c' := step3_x len c s in
  let q := fr (P3 c) in
  (exists x y z, metas3 c' = upd (q mod len) (mkMeta3 TP q x y z) (metas3 c)) /\
  fr (P3 c') = q + 1 /\ fr (W3 c') = fr (W3 c) /\ fr (C3 c') = fr (C3 c) /\
  pc3 (W3 c') = pc3 (W3 c) /\ pc3 (C3 c') = pc3 (C3 c) /\
  (forall v, vstep c s v = mkVst (upd (q mod len) (pv q) (vals v)) (clog v) (plog v) (wlog v)).

Definition eff_edit (c : cfg3x) (s : tid * cmd) : Prop :=
  let c' := step3_x len c s in
  let q := fr (W3 c) in
  (exists x y z, metas3 c' = upd (q mod len) (mkMeta3 TW q x y z) (metas3 c)) /\
  fr (P3 c') = fr (P3 c) /\ fr (W3 c') = q + 1 /\ fr (C3 c') = fr (C3 c) /\
  pc3 (W3 c') <> 5 /\ pc3 (C3 c') = pc3 (C3 c) /\
  (forall v, vstep c s v = mkVst (upd (q mod len) (f (nth (q mod len) (vals v) 0)) (vals v))
                                 (clog v) (plog v) (wlog v ++ [q])).

Definition eff_read (c : cfg3x) (s : tid * cmd) : Prop :=
  let c' := step3_x len c s in
  let q := fr (C3 c) in
  let m := nth (q mod len) (metas3 c) dmeta3 in
  (exists x y, metas3 c' = upd (q mod len) (mkMeta3 (wt m) (wpos3 m) (wclk3 m) x y) (metas3 c)) /\
  fr (P3 c') = fr (P3 c) /\ fr (W3 c') = fr (W3 c) /\ fr (C3 c') = q + 1 /\
  pc3 (W3 c') = pc3 (W3 c) /\ pc3 (C3 c') <> 5 /\
  (forall v, vstep c s v = mkVst (vals v) (clog v ++ [nth (q mod len) (vals v) 0]) (plog v ++ [q]) (wlog v)).

Lemma eff_quiet_refl c s : step3_x len c s = c -> (forall v, vstep c s v = v) -> eff_quiet c s.
Proof.
  intros E Hv. unfold eff_quiet. cbv zeta. rewrite E. splits; auto.
Qed.

(* the nine components of [eff_quiet], once the step has been unfolded *)
Ltac pcne5 :=
  intros; simpl; repeat match goal with |- context[if ?b then _ else _] => destruct b end; discriminate.
Ltac q9 Hpc :=
  splits;
  [ reflexivity
  | first [reflexivity | unfold fr; simpl; lia]
  | unfold fr; simpl; lia
  | unfold fr; simpl; lia
  | first [intros X; congruence | intros _; unfold fr; simpl; lia]
  | first [intros X; congruence | intros _; unfold fr; simpl; lia]
  | first [intros _ X; cbn in X; discriminate X | intros X _; exact X | pcne5
          | intros; simpl; rewrite Hpc; discriminate]
  | first [intros _ X; cbn in X; discriminate X | intros X _; exact X | pcne5
          | intros; simpl; rewrite Hpc; discriminate]
  | intros v; unfold vstep; cbn [fst snd]; try rewrite Hpc; reflexivity ].

Lemma step_cases c s : Inv3x len c -> eff_quiet c s \/ eff_write c s \/ eff_edit c s \/ eff_read c s.
Proof.
  intros I.
  pose proof (x_pcP len c I) as HpcP. pose proof (x_pcW len c I) as HpcW. pose proof (x_pcC len c I) as HpcC.
  pose proof (x_ixP len c I) as HixP. pose proof (x_ixW len c I) as HixW. pose proof (x_ixC len c I) as HixC.
  destruct (frontier_facts c I) as (_ & _ & _ & _ & _ & HoP & HoW & HoC & _ & _).
  destruct s as [[| |] k].
  - (* ---------------- producer ---------------- *)
    destruct k as [j n|j| | |]; try (left; apply eff_quiet_refl; reflexivity).
    destruct HpcP as [[H0 Hoff]|[(H2&Hoff&Hcnt)|(H3&Hoff&Hcnt)]].
    + (* pc 0: check / load / grant *)
      left. unfold eff_quiet, step3_x, step3_a; cbn [fst snd]; unfold stepP3_a, opP3_a. rewrite H0. cbv zeta.
      destruct (Nat.max 1 n <=? ca3 (P3 c)); q9 H0.
    + (* pc 2: write one slot *)
      right; left.
      assert (Hk0 : slot (P3 c) = fr (P3 c) mod len) by (apply slot_mod; [exact HixP | exact HoP]).
      unfold eff_write, step3_x, step3_a; cbn [fst snd]; unfold stepP3_a, opP3_a. rewrite H2. cbv zeta.
      fold (slot (P3 c)). fold (fr (P3 c)). rewrite Hk0.
      splits;
        [ eexists _, _, _; reflexivity | unfold fr; simpl; lia | reflexivity | reflexivity | reflexivity
        | reflexivity | intros v; unfold vstep; cbn [fst snd]; rewrite H2, Hk0; reflexivity ].
    + (* pc 3: advance + release store *)
      left. unfold eff_quiet, step3_x, step3_a; cbn [fst snd]; unfold stepP3_a, opP3_a. rewrite H3. cbv zeta.
      q9 H3.
  - (* ---------------- worker ---------------- *)
    destruct k as [j n|j| | |].
    + (* Op *)
      destruct HpcW as [[[H0 Hoff]|[(H2&Hoff&Hcnt)|(H3&Hoff&Hcnt)]]|(H5&Hoff&Hge&Hle&Hnix)].
      * (* pc 0: check / load / grant *)
        left. unfold eff_quiet, step3_x, step3_a; cbn [fst snd]; unfold stepW3_a, opW3_a. rewrite H0. cbv zeta.
        destruct (Nat.max 1 n <=? ca3 (W3 c)); q9 H0.
      * (* pc 2: edit one slot *)
        right; right; left.
        assert (Hk0 : slot (W3 c) = fr (W3 c) mod len) by (apply slot_mod; [exact HixW | exact HoW]).
        unfold eff_edit, step3_x, step3_a; cbn [fst snd]; unfold stepW3_a, opW3_a. rewrite H2. cbv zeta.
        fold (slot (W3 c)). fold (fr (W3 c)). rewrite Hk0.
        splits;
          [ eexists _, _, _; reflexivity | reflexivity | unfold fr; simpl; lia | reflexivity | pcne5
          | reflexivity | intros v; unfold vstep; cbn [fst snd]; rewrite H2, Hk0; reflexivity ].
      * (* pc 3: advance (published or local) *)
        left. unfold eff_quiet, step3_x, step3_a; cbn [fst snd]; unfold stepW3_a, opW3_a. rewrite H3. cbv zeta.
        unfold finishW, localW, publishW. destruct (det3 (W3 c)); q9 H3.
      * (* pc 5: the store of a reset: the frontier jumps forwards *)
        left. unfold eff_quiet, step3_x, step3_a; cbn [fst snd]; unfold stepW3_a, opW3_a. rewrite H5. cbv zeta.
        unfold finishW, localW, publishW. destruct (det3 (W3 c)); q9 H5.
    + (* Reset: the load *)
      left. destruct (pc3 (W3 c)) as [|p0] eqn:E.
      * unfold eff_quiet, step3_x, step3_a; cbn [fst snd]; unfold stepW3_a. rewrite E. unfold resetW_a. cbv zeta.
        q9 E.
      * apply eff_quiet_refl; [unfold step3_x, step3_a; cbn [fst snd]; unfold stepW3_a; rewrite E|]; reflexivity.
    + (* Detach *)
      left. destruct (pc3 (W3 c)) as [|p0] eqn:E.
      * unfold eff_quiet, step3_x, step3_a; cbn [fst snd]; unfold stepW3_a. rewrite E. unfold detachW. cbv zeta.
        q9 E.
      * apply eff_quiet_refl; [unfold step3_x, step3_a; cbn [fst snd]; unfold stepW3_a; rewrite E|]; reflexivity.
    + (* Attach *)
      left. destruct (pc3 (W3 c)) as [|p0] eqn:E.
      * destruct HpcW as [[[_ Hoff]|[(X&_)|(X&_)]]|(X&_)]; try congruence.
        unfold eff_quiet, step3_x, step3_a; cbn [fst snd]; unfold stepW3_a. rewrite E. unfold publishW. cbv zeta.
        q9 E.
      * apply eff_quiet_refl; [unfold step3_x, step3_a; cbn [fst snd]; unfold stepW3_a; rewrite E|]; reflexivity.
    + (* Sync *)
      left. destruct (pc3 (W3 c)) as [|p0] eqn:E.
      * destruct HpcW as [[[_ Hoff]|[(X&_)|(X&_)]]|(X&_)]; try congruence.
        unfold eff_quiet, step3_x, step3_a; cbn [fst snd]; unfold stepW3_a. rewrite E. unfold publishW. cbv zeta.
        q9 E.
      * apply eff_quiet_refl; [unfold step3_x, step3_a; cbn [fst snd]; unfold stepW3_a; rewrite E|]; reflexivity.
  - (* ---------------- consumer ---------------- *)
    destruct k as [j n|j| | |].
    + (* Op *)
      destruct HpcC as [[[H0 Hoff]|[(H2&Hoff&Hcnt)|(H3&Hoff&Hcnt)]]|(H5&Hoff&Hge&Hle&Hnix)].
      * (* pc 0: check / load / grant *)
        left. unfold eff_quiet, step3_x, step3_a; cbn [fst snd]; unfold stepC3_a, opC3_a. rewrite H0. cbv zeta.
        destruct (Nat.max 1 n <=? ca3 (C3 c)); q9 H0.
      * (* pc 2: read one slot *)
        right; right; right.
        assert (Hk0 : slot (C3 c) = fr (C3 c) mod len) by (apply slot_mod; [exact HixC | exact HoC]).
        unfold eff_read, step3_x, step3_a; cbn [fst snd]; unfold stepC3_a, opC3_a. rewrite H2. cbv zeta.
        fold (slot (C3 c)). fold (fr (C3 c)). rewrite Hk0.
        splits;
          [ eexists _, _; reflexivity | reflexivity | reflexivity | unfold fr; simpl; lia | reflexivity
          | pcne5 | intros v; unfold vstep; cbn [fst snd]; rewrite H2, Hk0; reflexivity ].
      * (* pc 3: advance (published or local) *)
        left. unfold eff_quiet, step3_x, step3_a; cbn [fst snd]; unfold stepC3_a, opC3_a. rewrite H3. cbv zeta.
        unfold finishC, localC, publishC. destruct (det3 (C3 c)); q9 H3.
      * (* pc 5: the store of a reset: the frontier jumps forwards *)
        left. unfold eff_quiet, step3_x, step3_a; cbn [fst snd]; unfold stepC3_a, opC3_a. rewrite H5. cbv zeta.
        unfold finishC, localC, publishC. destruct (det3 (C3 c)); q9 H5.
    + (* Reset: the load *)
      left. destruct (pc3 (C3 c)) as [|p0] eqn:E.
      * unfold eff_quiet, step3_x, step3_a; cbn [fst snd]; unfold stepC3_a. rewrite E. unfold resetC_a. cbv zeta.
        q9 E.
      * apply eff_quiet_refl; [unfold step3_x, step3_a; cbn [fst snd]; unfold stepC3_a; rewrite E|]; reflexivity.
    + (* Detach *)
      left. destruct (pc3 (C3 c)) as [|p0] eqn:E.
      * unfold eff_quiet, step3_x, step3_a; cbn [fst snd]; unfold stepC3_a. rewrite E. unfold detachC. cbv zeta.
        q9 E.
      * apply eff_quiet_refl; [unfold step3_x, step3_a; cbn [fst snd]; unfold stepC3_a; rewrite E|]; reflexivity.
    + (* Attach *)
      left. destruct (pc3 (C3 c)) as [|p0] eqn:E.
      * destruct HpcC as [[[_ Hoff]|[(X&_)|(X&_)]]|(X&_)]; try congruence.
        unfold eff_quiet, step3_x, step3_a; cbn [fst snd]; unfold stepC3_a. rewrite E. unfold publishC. cbv zeta.
        q9 E.
      * apply eff_quiet_refl; [unfold step3_x, step3_a; cbn [fst snd]; unfold stepC3_a; rewrite E|]; reflexivity.
    + (* Sync *)
      left. destruct (pc3 (C3 c)) as [|p0] eqn:E.
      * destruct HpcC as [[[_ Hoff]|[(X&_)|(X&_)]]|(X&_)]; try congruence.
        unfold eff_quiet, step3_x, step3_a; cbn [fst snd]; unfold stepC3_a. rewrite E. unfold publishC. cbv zeta.
        q9 E.
      * apply eff_quiet_refl; [unfold step3_x, step3_a; cbn [fst snd]; unfold stepC3_a; rewrite E|]; reflexivity.
Qed.

(* ---------- preservation ---------- *)
Lemma vstep_inv c s v : Inv3x len c -> VInv c v -> VInv (step3_x len c s) (vstep c s v).
Proof.
  intros I V.
  pose proof (step3x_inv len Hlen c s I) as I'.
  destruct (frontier_facts c I) as (F1 & F2 & F3 & _).
  destruct (frontier_facts _ I') as (G1 & G2 & _).
  pose proof (x_metas len c I) as LM.
  unfold VInv in *.
  destruct (step_cases c s I) as [Q|[E|[E|E]]].
  - (* no slot touched; possibly the store of a reset *)
    unfold eff_quiet in Q. cbv zeta in Q. destruct Q as (Qm & Qp & Qw & Qc & _ & _ & _ & _ & Qv).
    rewrite Qp in G2. rewrite Qv, Qm, Qp.
    apply (VI_jump _ _ (fr (W3 c)) (fr (C3 c))); [exact V | exact Qw | exact G2 | exact Qc].
  - (* the producer writes the slot of position fr P *)
    unfold eff_write in E. cbv zeta in E. destruct E as ((x & y & z & Em) & EP & EW & EC & _ & _ & Ev).
    rewrite Ev, Em, EP, EW, EC.
    apply VI_P; [exact V | exact LM | exact F1 | exact F2 | exact F3 | reflexivity].
  - (* the worker edits the slot of position fr W *)
    unfold eff_edit in E. cbv zeta in E. destruct E as ((x & y & z & Em) & EP & EW & EC & _ & _ & Ev).
    rewrite EP, EW in G2.
    rewrite Ev, Em, EP, EW, EC.
    apply VI_W; [exact V | exact LM | exact F1 | lia | lia | reflexivity].
  - (* the consumer reads the slot of position fr C *)
    unfold eff_read in E. cbv zeta in E. destruct E as ((x & y & Em) & EP & EW & EC & _ & _ & Ev).
    rewrite EW, EC in G1.
    rewrite Ev, Em, EP, EW, EC.
    apply VI_C; [exact V | exact LM | lia | reflexivity].
Qed.

(* Without worker resets: the worker is never at pc 5, its log is gap-free up to its frontier.
   Without consumer resets: likewise for the consumer. *)
Definition NRW (c : cfg3x) (v : vst) : Prop := pc3 (W3 c) <> 5 /\ wlog v = seq len (fr (W3 c) - len).
Definition NRC (c : cfg3x) (v : vst) : Prop := pc3 (C3 c) <> 5 /\ plog v = seq len (fr (C3 c) - len).

Lemma vstep_nrw c s v :
  Inv3x len c -> VInv c v -> is_wreset s = false -> NRW c v -> NRW (step3_x len c s) (vstep c s v).
Proof.
  intros I V Hs [N1 N2].
  destruct (frontier_facts c I) as (F1 & _).
  pose proof (v_pos _ _ _ _ _ V) as Hlo.
  destruct (step_cases c s I) as [Q|[E|[E|E]]].
  - unfold eff_quiet in Q. cbv zeta in Q. destruct Q as (_ & _ & _ & _ & Qw & _ & Qpw & _ & Qv).
    split; [apply Qpw; assumption|]. rewrite Qv, Qw by exact N1. exact N2.
  - unfold eff_write in E. cbv zeta in E. destruct E as (_ & _ & EW & _ & EpW & _ & Ev).
    split; [rewrite EpW; exact N1|]. rewrite Ev, EW. cbn [wlog]. exact N2.
  - unfold eff_edit in E. cbv zeta in E. destruct E as (_ & _ & EW & _ & EpW & _ & Ev).
    split; [exact EpW|]. rewrite Ev, EW. cbn [wlog]. rewrite N2. apply seq_snoc_front. lia.
  - unfold eff_read in E. cbv zeta in E. destruct E as (_ & _ & EW & _ & EpW & _ & Ev).
    split; [rewrite EpW; exact N1|]. rewrite Ev, EW. cbn [wlog]. exact N2.
Qed.

Lemma vstep_nrc c s v :
  Inv3x len c -> VInv c v -> is_creset s = false -> NRC c v -> NRC (step3_x len c s) (vstep c s v).
Proof.
  intros I V Hs [N1 N2].
  pose proof (v_pos _ _ _ _ _ V) as Hlo.
  destruct (step_cases c s I) as [Q|[E|[E|E]]].
  - unfold eff_quiet in Q. cbv zeta in Q. destruct Q as (_ & _ & _ & _ & _ & Qc & _ & Qpc & Qv).
    split; [apply Qpc; assumption|]. rewrite Qv, Qc by exact N1. exact N2.
  - unfold eff_write in E. cbv zeta in E. destruct E as (_ & _ & _ & EC & _ & EpC & Ev).
    split; [rewrite EpC; exact N1|]. rewrite Ev, EC. cbn [plog]. exact N2.
  - unfold eff_edit in E. cbv zeta in E. destruct E as (_ & _ & _ & EC & _ & EpC & Ev).
    split; [rewrite EpC; exact N1|]. rewrite Ev, EC. cbn [plog]. exact N2.
  - unfold eff_read in E. cbv zeta in E. destruct E as (_ & _ & _ & EC & _ & EpC & Ev).
    split; [exact EpC|]. rewrite Ev, EC. cbn [plog]. rewrite N2. apply seq_snoc_front. exact Hlo.
Qed.

(* The logs only grow; what the worker's log gains lies at or above the worker's frontier before the step; the
   frontiers of worker and consumer never move backwards. *)
Definition ext (b : nat) (v v' : vst) : Prop :=
  (exists l, wlog v' = wlog v ++ l /\ Forall (fun p => b <= p) l) /\
  (exists l, plog v' = plog v ++ l) /\ (exists l, clog v' = clog v ++ l).

Lemma vstep_ext c s v : Inv3x len c ->
  fr (W3 c) <= fr (W3 (step3_x len c s)) /\ ext (fr (W3 c)) v (vstep c s v).
Proof.
  intros I. unfold ext.
  destruct (step_cases c s I) as [Q|[E|[E|E]]].
  - unfold eff_quiet in Q. cbv zeta in Q. destruct Q as (_ & _ & Qw & _ & _ & _ & _ & _ & Qv).
    rewrite Qv. split; [exact Qw|].
    splits; exists []; rewrite app_nil_r; try reflexivity. split; [reflexivity | constructor].
  - unfold eff_write in E. cbv zeta in E. destruct E as (_ & _ & EW & _ & _ & _ & Ev).
    rewrite Ev, EW. cbn [wlog plog clog]. split; [lia|].
    splits; exists []; rewrite app_nil_r; try reflexivity. split; [reflexivity | constructor].
  - unfold eff_edit in E. cbv zeta in E. destruct E as (_ & _ & EW & _ & _ & _ & Ev).
    rewrite Ev, EW. cbn [wlog plog clog]. split; [lia|].
    splits; [exists [fr (W3 c)] | exists [] | exists []]; rewrite ?app_nil_r; try reflexivity.
    split; [reflexivity | constructor; [lia | constructor]].
  - unfold eff_read in E. cbv zeta in E. destruct E as (_ & _ & EW & _ & _ & _ & Ev).
    rewrite Ev, EW. cbn [wlog plog clog]. split; [lia|].
    splits; [exists [] | exists [fr (C3 c)] | exists [nth (fr (C3 c) mod len) (vals v) 0]];
      rewrite ?app_nil_r; try reflexivity.
    split; [reflexivity | constructor].
Qed.

Lemma ext_trans b b' v v' v'' : b <= b' -> ext b v v' -> ext b' v' v'' -> ext b v v''.
Proof.
  intros Hb ((l1 & A1 & A2) & (l2 & A3) & (l3 & A4)) ((m1 & B1 & B2) & (m2 & B3) & (m3 & B4)).
  unfold ext. splits.
  - exists (l1 ++ m1). rewrite B1, A1, app_assoc. split; [reflexivity|].
    apply Forall_app. split; [exact A2|]. eapply Forall_impl; [|exact B2]. cbv beta. intros q Hq. lia.
  - exists (l2 ++ m2). rewrite B3, A3, app_assoc. reflexivity.
  - exists (l3 ++ m3). rewrite B4, A4, app_assoc. reflexivity.
Qed.

Lemma vinit_inv : VInv (init3_x len) vinit0.
Proof.
  unfold VInv, vinit0, init3_x, fr. cbn [metas3 P3 W3 C3 pos3 off3].
  constructor; cbn [vals clog plog wlog].
  - rewrite map_length, seq_length. reflexivity.
  - intros k Hk. rewrite (nth_init_meta3x len k Hk). unfold val_of. cbn [wt wpos3].
    rewrite (nth_indep _ 0 (init 0)) by (rewrite map_length, seq_length; exact Hk).
    rewrite map_nth, seq_nth by exact Hk. reflexivity.
  - intros p Hp. lia.
  - intros p Hp. lia.
  - constructor.
  - constructor.
  - constructor.
  - constructor.
  - reflexivity.
  - lia.
Qed.

Lemma vinit_nrw : NRW (init3_x len) vinit0.
Proof.
  unfold NRW, vinit0, init3_x, fr; cbn [wlog W3 pos3 off3 pc3]. split; [discriminate|].
  replace (len + 0 - len) with 0 by lia. reflexivity.
Qed.

Lemma vinit_nrc : NRC (init3_x len) vinit0.
Proof.
  unfold NRC, vinit0, init3_x, fr; cbn [plog C3 pos3 off3 pc3]. split; [discriminate|].
  replace (len + 0 - len) with 0 by lia. reflexivity.
Qed.

Lemma vexec_inv script : forall c v, Inv3x len c -> VInv c v ->
  Inv3x len (fst (vexec c v script)) /\ VInv (fst (vexec c v script)) (snd (vexec c v script)).
Proof.
  induction script as [|s r IH]; intros c v I V; cbn [vexec]; [cbn [fst snd]; split; assumption|].
  apply IH; [apply step3x_inv; assumption | apply vstep_inv; assumption].
Qed.

Lemma vexec_nrw script : forall c v, Inv3x len c -> VInv c v ->
  forallb (fun s => negb (is_wreset s)) script = true -> NRW c v ->
  NRW (fst (vexec c v script)) (snd (vexec c v script)).
Proof.
  induction script as [|s r IH]; intros c v I V Hs N; cbn [vexec]; [cbn [fst snd]; exact N|].
  cbn [forallb] in Hs. apply andb_true_iff in Hs. destruct Hs as [Hs Hr].
  apply negb_true_iff in Hs.
  apply IH; [apply step3x_inv; assumption | apply vstep_inv; assumption | exact Hr | apply vstep_nrw; assumption].
Qed.

Lemma vexec_nrc script : forall c v, Inv3x len c -> VInv c v ->
  forallb (fun s => negb (is_creset s)) script = true -> NRC c v ->
  NRC (fst (vexec c v script)) (snd (vexec c v script)).
Proof.
  induction script as [|s r IH]; intros c v I V Hs N; cbn [vexec]; [cbn [fst snd]; exact N|].
  cbn [forallb] in Hs. apply andb_true_iff in Hs. destruct Hs as [Hs Hr].
  apply negb_true_iff in Hs.
  apply IH; [apply step3x_inv; assumption | apply vstep_inv; assumption | exact Hr | apply vstep_nrc; assumption].
Qed.

Lemma vexec_ext script : forall c v, Inv3x len c -> ext (fr (W3 c)) v (snd (vexec c v script)).
Proof.
  induction script as [|s r IH]; intros c v I; cbn [vexec].
  - cbn [snd]. unfold ext. splits; exists []; rewrite app_nil_r; try reflexivity.
    split; [reflexivity | constructor].
  - destruct (vstep_ext c s v I) as [Hb E1].
    apply (ext_trans _ _ _ _ _ Hb E1). apply IH. apply step3x_inv; assumption.
Qed.

End Values3x.

(* The value state after running [script] from the initial configuration, the slots holding [init k]. *)
Definition vrun (len : nat) (pv f init : nat -> nat) (script : list (tid * cmd)) : vst :=
  snd (vexec len pv f (init3_x len) (vinit0 len init) script).

Lemma vrun_inv len pv f init script : 0 < len ->
  Inv3x len (exec3_x len (init3_x len) script) /\
  VInv len pv f init (exec3_x len (init3_x len) script) (vrun len pv f init script).
Proof.
  intros Hl.
  pose proof (vexec_inv len Hl pv f init script _ _ (init3x_inv len Hl) (vinit_inv len Hl pv f init)) as [I V].
  rewrite vexec_fst in I, V. split; assumption.
Qed.

(** (1) Every value the consumer reads is the value pushed at the position it believes it is reading, with the
    worker's transformation applied exactly once if the worker's log - AT THE END of the execution - has that
    position, and not at all otherwise. *)
Theorem consumed_values_3x : forall len pv f init script, 0 < len ->
  let v := vrun len pv f init script in
  clog v = map (fun p => if existsb (Nat.eqb p) (wlog v) then f (pv p) else pv p) (plog v).
Proof.
  intros len pv f init script Hl v. destruct (vrun_inv len pv f init script Hl) as [_ V].
  exact (v_log len pv f init _ _ _ _ _ V).
Qed.

(** (2) The positions read are strictly increasing, start at [len] and lie below the position the WORKER HAS
    PUBLISHED; the positions edited are strictly increasing (no position is edited twice), start at [len] and
    lie below the position the producer has published. *)
Theorem consumed_positions_increasing_3x : forall len pv f init script, 0 < len ->
  let c := exec3_x len (init3_x len) script in
  let v := vrun len pv f init script in
  StronglySorted lt (plog v) /\ Forall (fun p => len <= p < publishedW3 c) (plog v) /\
  StronglySorted lt (wlog v) /\ Forall (fun p => len <= p < publishedP3 c) (wlog v).
Proof.
  intros len pv f init script Hl c v. destruct (vrun_inv len pv f init script Hl) as [I V].
  fold c in I, V. fold v in V.
  destruct (frontier_facts len Hl c I) as (_ & _ & _ & FC & FW & _).
  pose proof (x_lpi len c I) as Hlpi.
  unfold publishedW3, publishedP3. rewrite <- !lastabs3_last, Hlpi.
  split; [exact (v_psrt len pv f init _ _ _ _ _ V)|]. split.
  - eapply Forall_impl; [|exact (v_pbd len pv f init _ _ _ _ _ V)]. cbv beta. intros a Ha. lia.
  - split; [exact (v_wsrt len pv f init _ _ _ _ _ V)|].
    eapply Forall_impl; [|exact (v_wbd len pv f init _ _ _ _ _ V)]. cbv beta. intros a Ha. lia.
Qed.

(* the same, as explicit statements about any two entries of the logs *)
Lemma ssorted_nth_lt (l : list nat) : StronglySorted lt l ->
  forall i j, i < j < length l -> nth i l 0 < nth j l 0.
Proof.
  intros S. induction S as [|a l S IH Ha]; intros i j Hij; cbn [length] in Hij; [lia|].
  destruct j as [|j]; [lia|]. destruct i as [|i]; cbn [nth].
  - rewrite Forall_forall in Ha. apply Ha. apply nth_In. lia.
  - apply IH. lia.
Qed.

Corollary consumed_positions_lt_3x : forall len pv f init script i j, 0 < len ->
  let v := vrun len pv f init script in
  (i < j < length (plog v) -> nth i (plog v) 0 < nth j (plog v) 0) /\
  (i < j < length (wlog v) -> nth i (wlog v) 0 < nth j (wlog v) 0).
Proof.
  intros len pv f init script i j Hl v.
  destruct (consumed_positions_increasing_3x len pv f init script Hl) as (S1 & _ & S2 & _).
  split; intros Hij; apply ssorted_nth_lt; assumption.
Qed.

(** (3a) Without WORKER resets the worker's log is exactly a prefix of the positions, and everything the consumer
    reads has been edited (the consumer may reset). *)
Theorem no_worker_reset_3x : forall len pv f init script, 0 < len ->
  (forall j, ~ In (TW, Reset j) script) ->
  let v := vrun len pv f init script in
  wlog v = seq len (length (wlog v)) /\ clog v = map (fun p => f (pv p)) (plog v).
Proof.
  intros len pv f init script Hl Hnr v.
  assert (Hs : forallb (fun s => negb (is_wreset s)) script = true).
  { apply forallb_forall. intros [[| |] k] Hin; destruct k as [j n|j| | |]; try reflexivity.
    exfalso. exact (Hnr j Hin). }
  pose proof (vexec_nrw len Hl pv f init script _ _ (init3x_inv len Hl) (vinit_inv len Hl pv f init) Hs
                        (vinit_nrw len Hl init)) as [_ N].
  rewrite vexec_fst in N. fold (vrun len pv f init script) in N. fold v in N.
  destruct (vrun_inv len pv f init script Hl) as [I V]. fold v in V.
  destruct (frontier_facts len Hl _ I) as (F1 & _).
  split; [rewrite N at 1; rewrite N, seq_length; reflexivity|].
  rewrite (v_log len pv f init _ _ _ _ _ V). apply map_ext_in. intros p Hp.
  pose proof (v_pbd len pv f init _ _ _ _ _ V) as PB. rewrite Forall_forall in PB. specialize (PB p Hp).
  cbv beta in PB. unfold expect. rewrite N, edited_seq by lia. reflexivity.
Qed.

(** (3b) Without CONSUMER resets the consumed positions are exactly a prefix: nothing is lost (the worker may
    reset: then some of the items arrive unedited, see (1)). *)
Theorem no_consumer_reset_3x : forall len pv f init script, 0 < len ->
  (forall j, ~ In (TC, Reset j) script) ->
  let v := vrun len pv f init script in
  plog v = seq len (length (plog v)).
Proof.
  intros len pv f init script Hl Hnr v.
  assert (Hs : forallb (fun s => negb (is_creset s)) script = true).
  { apply forallb_forall. intros [[| |] k] Hin; destruct k as [j n|j| | |]; try reflexivity.
    exfalso. exact (Hnr j Hin). }
  pose proof (vexec_nrc len Hl pv f init script _ _ (init3x_inv len Hl) (vinit_inv len Hl pv f init) Hs
                        (vinit_nrc len Hl init)) as [_ N].
  rewrite vexec_fst in N. fold (vrun len pv f init script) in N. fold v in N.
  rewrite N at 1. rewrite N, seq_length. reflexivity.
Qed.

(** (3) Without any Reset command (Detach / Sync / Attach allowed): exactly the prefix, everything edited. *)
Theorem no_reset_prefix_3x : forall len pv f init script, 0 < len ->
  (forall t j, ~ In (t, Reset j) script) ->
  let v := vrun len pv f init script in
  plog v = seq len (length (plog v)) /\ wlog v = seq len (length (wlog v)) /\
  clog v = map (fun p => f (pv p)) (plog v).
Proof.
  intros len pv f init script Hl Hnr v.
  destruct (no_worker_reset_3x len pv f init script Hl (fun j => Hnr TW j)) as [A B].
  pose proof (no_consumer_reset_3x len pv f init script Hl (fun j => Hnr TC j)) as C.
  split; [exact C | split; [exact A | exact B]].
Qed.

(** (4) The logs only grow.  Whatever the worker edits after a moment lies at or above its frontier
    [pos W + off W] of that moment; that frontier is at or above the position the worker had PUBLISHED, and
    everything the consumer had read lies strictly below the published position.  So whether a position below the
    frontier - in particular any position the consumer has read or may read - counts as edited never changes:
    the consumer never sees a value that is edited later. *)
Theorem edit_status_frozen_3x : forall len pv f init s1 s2, 0 < len ->
  let c1 := exec3_x len (init3_x len) s1 in
  let v1 := vrun len pv f init s1 in
  let v2 := vrun len pv f init (s1 ++ s2) in
  (exists l, wlog v2 = wlog v1 ++ l /\ Forall (fun p => pos3 (W3 c1) + off3 (W3 c1) <= p) l) /\
  (exists l, plog v2 = plog v1 ++ l) /\ (exists l, clog v2 = clog v1 ++ l) /\
  (forall p, p < pos3 (W3 c1) + off3 (W3 c1) ->
             existsb (Nat.eqb p) (wlog v2) = existsb (Nat.eqb p) (wlog v1)) /\
  publishedW3 c1 <= pos3 (W3 c1) + off3 (W3 c1) /\
  Forall (fun p => p < publishedW3 c1) (plog v1).
Proof.
  intros len pv f init s1 s2 Hl c1 v1 v2.
  destruct (vrun_inv len pv f init s1 Hl) as [I V]. fold c1 in I, V. fold v1 in V.
  assert (E : ext (fr (W3 c1)) v1 v2).
  { unfold v2, vrun. rewrite vexec_app. rewrite vexec_fst. fold (vrun len pv f init s1). fold v1. fold c1.
    apply vexec_ext; [exact Hl | exact I]. }
  destruct E as ((l1 & A1 & A2) & E2 & E3).
  destruct (consumed_positions_increasing_3x len pv f init s1 Hl) as (_ & PB & _). fold c1 v1 in PB.
  pose proof (x_lwi len c1 I) as Hlwi.
  splits.
  - exists l1. split; [exact A1 | exact A2].
  - exact E2.
  - exact E3.
  - intros p Hp. fold (edited (wlog v2) p). fold (edited (wlog v1) p).
    rewrite A1, edited_app, (edited_below l1 (fr (W3 c1)) p A2 Hp). apply orb_false_r.
  - unfold publishedW3. rewrite <- lastabs3_last. lia.
  - eapply Forall_impl; [|exact PB]. cbv beta. intros a Ha. lia.
Qed.

(* ------------------------------------------------------------------------------------------------ *)
(* Examples, len = 4 (capacity 3): the value pushed at position p is 10 * p, the worker's transformation is
   f = S, the slots initially hold 0.  Shown: (clog, plog, wlog).  The scripts are RA3x.v's.          *)
Definition pv_demo (p : nat) : nat := 10 * p.
Definition logs3 (len : nat) (script : list (tid * cmd)) : list nat * list nat * list nat :=
  let v := vrun len pv_demo S (fun _ => 0) script in (clog v, plog v, wlog v).

(* ---- detached WORKER ([demo_wdet]) ----
   P pushes positions 4,5,6.  W detaches and edits two windows (position 4, then 5 and 6): its log has 4,5,6 but
   nothing is published - C asks and gets nothing.  W syncs; C reads the three EDITED values.  Second lap
   (positions 7,8,9 in slots 3,0,1): one item edited while detached, Attach, two more attached; C reads them. *)
Example demo_wdet_before_sync : logs3 4 (firstn 14 demo_wdet) = ([], [], [4; 5; 6]).
Proof. vm_compute. reflexivity. Qed.
Example demo_wdet_after_sync : logs3 4 (firstn 20 demo_wdet) = ([41; 51; 61], [4; 5; 6], [4; 5; 6]).
Proof. vm_compute. reflexivity. Qed.
Example demo_wdet_logs :
  logs3 4 demo_wdet = ([41; 51; 61; 71; 81; 91], [4; 5; 6; 7; 8; 9], [4; 5; 6; 7; 8; 9]).
Proof. vm_compute. reflexivity. Qed.

(* ---- WORKER reset_index ([demo_wreset]) ----
   W edits position 4, then resets to position 7 while P is pushing: positions 5 and 6 are SKIPPED.  C reads them
   UNEDITED (50, 60 - not 51, 61), then the edited 7, 8, 9.  The worker's log never gets 5 or 6. *)
Example demo_wreset_skipped : logs3 4 (firstn 20 demo_wreset) = ([41; 50; 60], [4; 5; 6], [4]).
Proof. vm_compute. reflexivity. Qed.
Example demo_wreset_logs :
  logs3 4 demo_wreset = ([41; 50; 60; 71; 81; 91], [4; 5; 6; 7; 8; 9], [4; 7; 8; 9]).
Proof. vm_compute. reflexivity. Qed.

(* ... a reset while DETACHED, skipping everything; after the Sync C reads three unedited items. *)
Example demo_wdet_reset_logs :
  logs3 4 (firstn 6 demo_wdet ++ [kW (Reset 99); sW 0; sC 1; kW Sync; sC 3; sC 3; sC 3; sC 3; sC 3])
  = ([40; 50; 60], [4; 5; 6], []).
Proof. vm_compute. reflexivity. Qed.

(* ---- CONSUMER reset_index ([demo_creset]) ----
   W edits positions 4,5 and - interleaved with C's reset - 6.  C reads 4, resets to 6 (position 5 is skipped,
   never read, although edited), reads 6. *)
Example demo_creset_logs : logs3 4 demo_creset = ([41; 61], [4; 6], [4; 5; 6]).
Proof. vm_compute. reflexivity. Qed.

(* ---- detached CONSUMER ([demo_cdet]): no reset anywhere - exactly the prefix, everything edited ---- *)
Example demo_cdet_logs : logs3 4 demo_cdet = ([41; 51; 61; 71; 81], [4; 5; 6; 7; 8], [4; 5; 6; 7; 8]).
Proof. vm_compute. reflexivity. Qed.

Print Assumptions consumed_values_3x.
Print Assumptions consumed_positions_increasing_3x.
Print Assumptions no_reset_prefix_3x.
Print Assumptions edit_status_frozen_3x.
