(* Scratch prototype: three-stage pipeline (producer -> worker -> consumer) under the
   release/acquire view machine. Threads P (push one), W (edit one in place), C (pop one).
   Detector: last write epoch (with writer id) and consumer read clock per slot. *)
From Coq Require Import List Arith Lia Bool.
Import ListNotations.
Require Import MRB.Conc.RA.   (* wadd dist pavail, mod lemmas, upd *)

Inductive tid := TP | TW | TC.
Record view3 := mkV3 { vpi3 : nat; vwi3 : nat; vci3 : nat; kp3 : nat; kw3 : nat; kc3 : nat; wP3 : nat; wW3 : nat; wC3 : nat }.
Definition vjoin3 (a b : view3) : view3 :=
  mkV3 (max (vpi3 a) (vpi3 b)) (max (vwi3 a) (vwi3 b)) (max (vci3 a) (vci3 b))
       (max (kp3 a) (kp3 b)) (max (kw3 a) (kw3 b)) (max (kc3 a) (kc3 b))
       (max (wP3 a) (wP3 b)) (max (wW3 a) (wW3 b)) (max (wC3 a) (wC3 b)).
Record msg3 := mkM3 { mval3 : nat; mabs3 : nat; mview3 : view3 }.
Record meta3 := mkMeta3 { wt : tid; wpos3 : nat; wclk3 : nat; rpos3 : nat; rclk3 : nat }.
Record thr3 := mkT3 { ix3 : nat; ca3 : nat; V3 : view3; pc3 : nat; pos3 : nat }.
Record cfg3 := mkC3 { Mpi3 : list msg3; Mwi3 : list msg3; Mci3 : list msg3; metas3 : list meta3;
                      P3 : thr3; W3 : thr3; C3 : thr3; race3 : bool }.
Definition dmsg3 := mkM3 0 0 (mkV3 0 0 0 0 0 0 0 0 0).
Definition dmeta3 := mkMeta3 TP 0 0 0 0.

(* is the last write of [m] covered by view [v] when accessed by thread [me]? *)
Definition wcov (me : tid) (m : meta3) (v : view3) : bool :=
  match wt m, me with
  | TP, TP => true | TW, TW => true | TC, _ => true
  | TP, _ => wclk3 m <=? kp3 v
  | TW, _ => wclk3 m <=? kw3 v
  end.

Section M3.
Variable len : nat.

Definition stepP (j : nat) (c : cfg3) : cfg3 :=
  let t := P3 c in
  match pc3 t with
  | 0 =>
    if 1 <=? ca3 t then (mkC3 (Mpi3 c) (Mwi3 c) (Mci3 c) (metas3 c) (mkT3 (ix3 t) (ca3 t) (V3 t) 2 (pos3 t)) (W3 c) (C3 c) (race3 c))
    else
      let i := pick (vci3 (V3 t)) (length (Mci3 c)) j in
      let m := nth i (Mci3 c) dmsg3 in
      let v0 := V3 t in
      let v1 := vjoin3 (mkV3 (vpi3 v0) (vwi3 v0) i (kp3 v0) (kw3 v0) (kc3 v0) (wP3 v0) (wW3 v0) (wC3 v0)) (mview3 m) in
      let a := pavail len (ix3 t) (mval3 m) in
      (mkC3 (Mpi3 c) (Mwi3 c) (Mci3 c) (metas3 c) (mkT3 (ix3 t) a v1 (if 1 <=? a then 2 else 0) (pos3 t)) (W3 c) (C3 c) (race3 c))
  | 2 =>
    let mt := nth (ix3 t) (metas3 c) dmeta3 in
    let bad := negb (wcov TP mt (V3 t)) || negb (rclk3 mt <=? kc3 (V3 t)) in
    (mkC3 (Mpi3 c) (Mwi3 c) (Mci3 c) (upd (ix3 t) (mkMeta3 TP (pos3 t) (kp3 (V3 t)) (rpos3 mt) (rclk3 mt)) (metas3 c)) (mkT3 (ix3 t) (ca3 t) (V3 t) 3 (pos3 t)) (W3 c) (C3 c) (race3 c || bad))
  | 3 =>
    let ix' := wadd len (ix3 t) 1 in
    let v0 := V3 t in
    let v1 := (mkV3 (length (Mpi3 c)) (vwi3 v0) (vci3 v0) (kp3 v0) (kw3 v0) (kc3 v0) (S (pos3 t)) (wW3 v0) (wC3 v0)) in
    let m := mkM3 ix' (S (pos3 t)) v1 in
    (mkC3 (Mpi3 c ++ [m]) (Mwi3 c) (Mci3 c) (metas3 c) (mkT3 ix' (ca3 t - 1) (mkV3 (vpi3 v1) (vwi3 v1) (vci3 v1) (S (kp3 v1)) (kw3 v1) (kc3 v1) (wP3 v1) (wW3 v1) (wC3 v1)) 0 (S (pos3 t))) (W3 c) (C3 c) (race3 c))
  | _ => c
  end.

Definition stepW (j : nat) (c : cfg3) : cfg3 :=
  let t := W3 c in
  match pc3 t with
  | 0 =>
    if 1 <=? ca3 t then (mkC3 (Mpi3 c) (Mwi3 c) (Mci3 c) (metas3 c) (P3 c) (mkT3 (ix3 t) (ca3 t) (V3 t) 2 (pos3 t)) (C3 c) (race3 c))
    else
      let i := pick (vpi3 (V3 t)) (length (Mpi3 c)) j in
      let m := nth i (Mpi3 c) dmsg3 in
      let v0 := V3 t in
      let v1 := vjoin3 (mkV3 i (vwi3 v0) (vci3 v0) (kp3 v0) (kw3 v0) (kc3 v0) (wP3 v0) (wW3 v0) (wC3 v0)) (mview3 m) in
      let a := dist len (ix3 t) (mval3 m) in
      (mkC3 (Mpi3 c) (Mwi3 c) (Mci3 c) (metas3 c) (P3 c) (mkT3 (ix3 t) a v1 (if 1 <=? a then 2 else 0) (pos3 t)) (C3 c) (race3 c))
  | 2 =>
    let mt := nth (ix3 t) (metas3 c) dmeta3 in
    let bad := negb (wcov TW mt (V3 t)) || negb (rclk3 mt <=? kc3 (V3 t)) in
    (mkC3 (Mpi3 c) (Mwi3 c) (Mci3 c) (upd (ix3 t) (mkMeta3 TW (pos3 t) (kw3 (V3 t)) (rpos3 mt) (rclk3 mt)) (metas3 c)) (P3 c) (mkT3 (ix3 t) (ca3 t) (V3 t) 3 (pos3 t)) (C3 c) (race3 c || bad))
  | 3 =>
    let ix' := wadd len (ix3 t) 1 in
    let v0 := V3 t in
    let v1 := (mkV3 (vpi3 v0) (length (Mwi3 c)) (vci3 v0) (kp3 v0) (kw3 v0) (kc3 v0) (wP3 v0) (S (pos3 t)) (wC3 v0)) in
    let m := mkM3 ix' (S (pos3 t)) v1 in
    (mkC3 (Mpi3 c) (Mwi3 c ++ [m]) (Mci3 c) (metas3 c) (P3 c) (mkT3 ix' (ca3 t - 1) (mkV3 (vpi3 v1) (vwi3 v1) (vci3 v1) (kp3 v1) (S (kw3 v1)) (kc3 v1) (wP3 v1) (wW3 v1) (wC3 v1)) 0 (S (pos3 t))) (C3 c) (race3 c))
  | _ => c
  end.

Definition stepC (j : nat) (c : cfg3) : cfg3 :=
  let t := C3 c in
  match pc3 t with
  | 0 =>
    if 1 <=? ca3 t then (mkC3 (Mpi3 c) (Mwi3 c) (Mci3 c) (metas3 c) (P3 c) (W3 c) (mkT3 (ix3 t) (ca3 t) (V3 t) 2 (pos3 t)) (race3 c))
    else
      let i := pick (vwi3 (V3 t)) (length (Mwi3 c)) j in
      let m := nth i (Mwi3 c) dmsg3 in
      let v0 := V3 t in
      let v1 := vjoin3 (mkV3 (vpi3 v0) i (vci3 v0) (kp3 v0) (kw3 v0) (kc3 v0) (wP3 v0) (wW3 v0) (wC3 v0)) (mview3 m) in
      let a := dist len (ix3 t) (mval3 m) in
      (mkC3 (Mpi3 c) (Mwi3 c) (Mci3 c) (metas3 c) (P3 c) (W3 c) (mkT3 (ix3 t) a v1 (if 1 <=? a then 2 else 0) (pos3 t)) (race3 c))
  | 2 =>
    let mt := nth (ix3 t) (metas3 c) dmeta3 in
    let bad := negb (wcov TC mt (V3 t)) in
    (mkC3 (Mpi3 c) (Mwi3 c) (Mci3 c) (upd (ix3 t) (mkMeta3 (wt mt) (wpos3 mt) (wclk3 mt) (pos3 t) (kc3 (V3 t))) (metas3 c)) (P3 c) (W3 c) (mkT3 (ix3 t) (ca3 t) (V3 t) 3 (pos3 t)) (race3 c || bad))
  | 3 =>
    let ix' := wadd len (ix3 t) 1 in
    let v0 := V3 t in
    let v1 := (mkV3 (vpi3 v0) (vwi3 v0) (length (Mci3 c)) (kp3 v0) (kw3 v0) (kc3 v0) (wP3 v0) (wW3 v0) (S (pos3 t))) in
    let m := mkM3 ix' (S (pos3 t)) v1 in
    (mkC3 (Mpi3 c) (Mwi3 c) (Mci3 c ++ [m]) (metas3 c) (P3 c) (W3 c) (mkT3 ix' (ca3 t - 1) (mkV3 (vpi3 v1) (vwi3 v1) (vci3 v1) (kp3 v1) (kw3 v1) (S (kc3 v1)) (wP3 v1) (wW3 v1) (wC3 v1)) 0 (S (pos3 t))) (race3 c))
  | _ => c
  end.

Definition step3 (c : cfg3) (s : tid * nat) : cfg3 :=
  match fst s with TP => stepP (snd s) c | TW => stepW (snd s) c | TC => stepC (snd s) c end.
Definition exec3 (c : cfg3) (script : list (tid * nat)) : cfg3 := fold_left step3 script c.

Definition vinit (kp kw kc : nat) := mkV3 0 0 0 kp kw kc len len len.
Definition init3 : cfg3 :=
  mkC3 [mkM3 0 len (vinit 0 0 0)] [mkM3 0 len (vinit 0 0 0)] [mkM3 0 len (vinit 0 0 0)]
       (map (fun k => mkMeta3 TC k 0 k 0) (seq 0 len))
       (mkT3 0 0 (vinit 1 0 0) 0 len) (mkT3 0 0 (vinit 0 1 0) 0 len) (mkT3 0 0 (vinit 0 0 1) 0 len) false.
End M3.
