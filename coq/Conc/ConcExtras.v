(** * Two further properties of the release/acquire view machines (RAn.v, RA3n.v, RAx.v), for every [len > 0]
      and every script (any interleaving, any admissible stale read, any sequence of window sizes / commands).

    ** (A) JOINED CONSERVATION (C02, second sentence)
       "Once all threads have finished and been joined, consumed items followed by the items still in the buffer
        equal the accepted pushes: nothing is lost, duplicated, reordered or seen half-processed."

       Three-stage value machine (RA3nvalues.v):
       - [conservation_3n_any_time]  at EVERY moment (also in the middle of windows), with the frontiers
             [fr t = pos t + off t] (the next slot a thread will touch):
               clog v ++ [slots of positions fr C .. fr P - 1, in ring order]
             = [item p | p = len .. fr P - 1],  item p = f (pv p) if p < fr W (the worker has edited it), pv p otherwise;
       - [joined_conservation_3n]    all three threads between operations (pc 0): the same with the published
             positions [pos3] in the place of the frontiers;
       - [joined_conservation_3n_caught_up]  ... and the worker has caught up ([pos W = pos P]):
               clog v ++ buffer = map (f . pv) (seq len (pos P - len)).
       Two-stage machine with reset / detach (RAxvalues.v), scripts without a consumer [Reset]:
       - [conservation_x_any_time], [joined_conservation_x] :
               clog v ++ buffer = map pv (seq len (pos P - len)).
       (Detach / Sync / Attach are allowed: the LOCAL consumer position is what counts.)

    ** (B) AVAILABILITY ERRS ONLY TOWARDS REFUSING (C05)
       For the three machines, at every moment of every execution, for every thread: the remembered availability
       [ca] - counted from the thread's published position [pos], as the machines do (a window of [cnt] slots is
       granted when [cnt <= ca]; [ca] is decremented by [cnt] only at the publish step, pc 3) - never reaches beyond
       the TRUE limit, i.e. the REAL current position of the thread it follows:
         consumer (follows the producer, in RA3n the worker):  pos C + ca C     <= pos P   (pos W)
         worker   (RA3n, follows the producer):                pos W + ca W     <= pos P
         producer (follows the consumer, one slot kept free):  pos P + ca P + 1 <= pos C + len
       and the part of the current window already handled lies within it: [off <= ca].  In other words what is
       still available AFTER the [off] slots already accessed, [ca - off], satisfies
         pos + off + (ca - off) <= limit.
       ([ca_under_n], [ca_under_3n], [ca_under_x]; for RAx the consumer's REAL position is its local one, which
        is >= the published one also while detached; the producer's bound is given for both.)
       Consequences ([granted_within_n], [granted_within_3n], [granted_within_x]): a granted window
       ([pc = 2] or [3]) lies entirely below the limit, and at [pc = 2] the position being accessed is strictly
       below the followed thread's real position (for the producer: strictly below [pos C + len - 1]).

       The LITERAL form "pos + off + ca <= limit" (offset ADDED to an availability that is counted from [pos]) is
       FALSE in all three machines, because [ca] is not decremented while a window is being accessed:
       [ca_plus_off_n_refuted], [ca_plus_off_3n_refuted], [ca_plus_off_x_refuted] (concrete witnesses).

       Non-vacuity: [stale_*] examples - after a stale read [ca] is STRICTLY smaller than the true availability.

    Nothing is assumed: every [Print Assumptions] at the end reports "Closed under the global context". *)
From Coq Require Import List Arith Lia Bool.
Import ListNotations.
Require MRB.Conc.RA MRB.Conc.RAproof MRB.Conc.RAn MRB.Conc.RAnproof.
Require MRB.Conc.RA3 MRB.Conc.RA3proof MRB.Conc.RA3n MRB.Conc.RA3nproof MRB.Conc.RA3nvalues.
Require MRB.Conc.RAx MRB.Conc.RAxproof MRB.Conc.RAxvalues.

Local Arguments Nat.leb : simpl never.
Local Arguments Nat.ltb : simpl never.
Local Arguments Nat.modulo : simpl never.
Local Arguments Nat.max : simpl never.
Local Arguments Nat.min : simpl never.
Local Arguments Nat.sub : simpl never.
Local Arguments Nat.add : simpl never.

Ltac splits := repeat match goal with |- _ /\ _ => split end.

(* ---------- pure list facts ---------- *)
Lemma seq_split_at (a d e : nat) : a <= d -> d <= e -> seq a (d - a) ++ seq d (e - d) = seq a (e - a).
Proof.
  intros Had Hde.
  replace (e - a) with ((d - a) + (e - d)) by lia.
  rewrite seq_app. replace (a + (d - a)) with d by lia. reflexivity.
Qed.

(* ================================================================================================== *)
(** * The three-stage machine RA3n.v                                                                  *)
(* ================================================================================================== *)
Module ThreeStage.
Import MRB.Conc.RA MRB.Conc.RA3 MRB.Conc.RA3proof MRB.Conc.RA3n MRB.Conc.RA3nproof MRB.Conc.RA3nvalues.

(** ** (A) conservation *)

(** the accepted push of absolute position [p], as it is stored once the worker's frontier is [w] *)
Definition item3 (pv f : nat -> nat) (w p : nat) : nat := if p <? w then f (pv p) else pv p.

(** the contents of the ring slots of the absolute positions [lo .. hi - 1], in ring order *)
Definition ring3 (len : nat) (v : vst) (lo hi : nat) : list nat :=
  map (fun p => nth (p mod len) (vals v) 0) (seq lo (hi - lo)).

(** the pure fact: the value invariant [VI] with ordered frontiers [d <= b <= a] gives conservation *)
Lemma VI_conservation len pv f init ms a b d v :
  0 < len -> VI len pv f init ms a b d v -> d <= b -> b <= a ->
  clog v ++ ring3 len v d a = map (item3 pv f b) (seq len (a - len)).
Proof.
  intros Hlen [VL VV E1 E2 LG VP] Hdb Hba.
  rewrite LG. unfold ring3.
  rewrite <- (seq_split_at len d a) by lia. rewrite map_app. f_equal.
  - apply map_ext_in. intros p Hp. apply in_seq in Hp. unfold item3.
    destruct (Nat.ltb_spec p b) as [Hlt|Hge]; [reflexivity | lia].
  - apply map_ext_in. intros p Hp. apply in_seq in Hp.
    assert (Hk : p mod len < len) by (apply Nat.mod_upper_bound; lia).
    rewrite (VV _ Hk). unfold val_of, item3.
    destruct (Nat.ltb_spec p b) as [Hlt|Hge].
    + destruct (E1 p) as [Ew Ep]; [lia|]. rewrite Ew, Ep. reflexivity.
    + destruct (E2 p) as [Ew Ep]; [lia|]. rewrite Ew, Ep. reflexivity.
Qed.

(** At every moment of every execution: consumed ++ ring contents between the consumer's and the producer's
    frontier = the accepted pushes, the worker's transformation applied exactly to those below its frontier. *)
Theorem conservation_3n_any_time len pv f init script : 0 < len ->
  let '(c, v) := vexec_n len pv f (init3_n len) (vinit0 len init) script in
  c = exec3_n len (init3_n len) script /\
  clog v ++ ring3 len v (fr (C3 c)) (fr (P3 c))
  = map (item3 pv f (fr (W3 c))) (seq len (fr (P3 c) - len)).
Proof.
  intros Hl.
  pose proof (vexec_n_inv len Hl pv f init script _ _ (init3n_inv len Hl) (vinit_n_inv len Hl pv f init)) as [I V].
  pose proof (vexec_n_fst len pv f script (init3_n len) (vinit0 len init)) as E.
  destruct (vexec_n len pv f (init3_n len) (vinit0 len init) script) as [c v]. cbn [fst snd] in *.
  split; [exact E|].
  destruct (frontier_facts len Hl c I) as (F1 & F2 & _).
  exact (VI_conservation len pv f init _ _ _ _ v Hl V F1 F2).
Qed.

(** JOINED: all three threads are between operations (finished). *)
Theorem joined_conservation_3n len pv f init script : 0 < len ->
  let '(c, v) := vexec_n len pv f (init3_n len) (vinit0 len init) script in
  pc3 (P3 c) = 0 -> pc3 (W3 c) = 0 -> pc3 (C3 c) = 0 ->
  clog v ++ ring3 len v (pos3 (C3 c)) (pos3 (P3 c))
  = map (item3 pv f (pos3 (W3 c))) (seq len (pos3 (P3 c) - len)).
Proof.
  intros Hl.
  pose proof (vexec_n_inv len Hl pv f init script _ _ (init3n_inv len Hl) (vinit_n_inv len Hl pv f init)) as [I V].
  destruct (vexec_n len pv f (init3_n len) (vinit0 len init) script) as [c v]. cbn [fst snd] in *.
  intros HpcP HpcW HpcC.
  assert (HoP : off3 (P3 c) = 0)
    by (destruct (k_pcP len c I) as [[_ X]|[(X&_)|(X&_)]]; [exact X | congruence | congruence]).
  assert (HoW : off3 (W3 c) = 0)
    by (destruct (k_pcW len c I) as [[_ X]|[(X&_)|(X&_)]]; [exact X | congruence | congruence]).
  assert (HoC : off3 (C3 c) = 0)
    by (destruct (k_pcC len c I) as [[_ X]|[(X&_)|(X&_)]]; [exact X | congruence | congruence]).
  destruct (frontier_facts len Hl c I) as (F1 & F2 & _).
  pose proof (VI_conservation len pv f init _ _ _ _ v Hl V F1 F2) as K.
  unfold fr in K. rewrite HoP, HoW, HoC, !Nat.add_0_r in K. exact K.
Qed.

(** ... and the worker has caught up with the producer: everything accepted has been transformed. *)
Corollary joined_conservation_3n_caught_up len pv f init script : 0 < len ->
  let '(c, v) := vexec_n len pv f (init3_n len) (vinit0 len init) script in
  pc3 (P3 c) = 0 -> pc3 (W3 c) = 0 -> pc3 (C3 c) = 0 -> pos3 (W3 c) = pos3 (P3 c) ->
  clog v ++ ring3 len v (pos3 (C3 c)) (pos3 (P3 c))
  = map (fun p => f (pv p)) (seq len (pos3 (P3 c) - len)).
Proof.
  intros Hl. pose proof (joined_conservation_3n len pv f init script Hl) as J.
  destruct (vexec_n len pv f (init3_n len) (vinit0 len init) script) as [c v].
  intros HpcP HpcW HpcC Hwp. rewrite (J HpcP HpcW HpcC), Hwp.
  apply map_ext_in. intros p Hp. apply in_seq in Hp. unfold item3.
  destruct (Nat.ltb_spec p (pos3 (P3 c))) as [Hlt|Hge]; [reflexivity | lia].
Qed.

(** ... and in that case, if the consumer has caught up as well, the buffer is empty and the log is everything. *)
Corollary joined_all_consumed_3n len pv f init script : 0 < len ->
  let '(c, v) := vexec_n len pv f (init3_n len) (vinit0 len init) script in
  pc3 (P3 c) = 0 -> pc3 (W3 c) = 0 -> pc3 (C3 c) = 0 ->
  pos3 (W3 c) = pos3 (P3 c) -> pos3 (C3 c) = pos3 (P3 c) ->
  clog v = map (fun p => f (pv p)) (seq len (pos3 (P3 c) - len)).
Proof.
  intros Hl. pose proof (joined_conservation_3n_caught_up len pv f init script Hl) as J.
  destruct (vexec_n len pv f (init3_n len) (vinit0 len init) script) as [c v].
  intros HpcP HpcW HpcC Hwp Hcp. rewrite <- (J HpcP HpcW HpcC Hwp).
  unfold ring3. rewrite Hcp, Nat.sub_diag. cbn [seq map]. rewrite app_nil_r. reflexivity.
Qed.

(* Example, len = 4, pv p = 10 * p, f = S, slots initially 0.  P pushes 3 (positions 4,5,6), W works 2 (4,5),
   C consumes 1 (4); all three at pc 0: consumed [41], buffer [51; 60] (position 6 pushed, not yet worked). *)
Definition joined_demo : list (tid * nat * nat) :=
  [ sP 3; sP 3; sP 3; sP 3; sP 3;  sW 2; sW 2; sW 2; sW 2;  sC 1; sC 1; sC 1 ].
Example joined_demo_values :
  let r := vexec_n 4 (fun p => 10 * p) S (init3_n 4) (vinit0 4 (fun _ => 0)) joined_demo in
  (pc3 (P3 (fst r)), pc3 (W3 (fst r)), pc3 (C3 (fst r))) = (0, 0, 0) /\
  (pos3 (C3 (fst r)), pos3 (W3 (fst r)), pos3 (P3 (fst r))) = (5, 6, 7) /\
  clog (snd r) = [41] /\ ring3 4 (snd r) 5 7 = [51; 60] /\
  map (item3 (fun p => 10 * p) S 6) (seq 4 3) = [41; 51; 60].
Proof. vm_compute. repeat split; reflexivity. Qed.

(** ** (B) availability errs only towards refusing *)

(** what the invariant says, in terms of the REAL positions *)
Lemma ca_under_inv3n len c : Inv3n len c ->
  (pos3 (C3 c) + ca3 (C3 c) <= pos3 (W3 c) /\ off3 (C3 c) <= ca3 (C3 c)) /\
  (pos3 (W3 c) + ca3 (W3 c) <= pos3 (P3 c) /\ off3 (W3 c) <= ca3 (W3 c)) /\
  (pos3 (P3 c) + ca3 (P3 c) + 1 <= pos3 (C3 c) + len /\ off3 (P3 c) <= ca3 (P3 c)).
Proof.
  intros I.
  pose proof (k_caP len c I) as HcaP. pose proof (k_caW len c I) as HcaW. pose proof (k_caC len c I) as HcaC.
  pose proof (k_lpi len c I) as Hlpi. pose proof (k_lwi len c I) as Hlwi. pose proof (k_lci len c I) as Hlci.
  destruct (k_vP len c I) as (_&_&A&_). destruct (k_vW len c I) as (B&_). destruct (k_vC len c I) as (_&C&_).
  pose proof (sorted3_last_n _ _ (k_sci len c I) A) as HsP.
  pose proof (sorted3_last_n _ _ (k_spi len c I) B) as HsW.
  pose proof (sorted3_last_n _ _ (k_swi len c I) C) as HsC.
  assert (HoP : off3 (P3 c) <= ca3 (P3 c)) by (destruct (k_pcP len c I) as [[_ X]|[(_&X&Y)|(_&X&Y)]]; lia).
  assert (HoW : off3 (W3 c) <= ca3 (W3 c)) by (destruct (k_pcW len c I) as [[_ X]|[(_&X&Y)|(_&X&Y)]]; lia).
  assert (HoC : off3 (C3 c) <= ca3 (C3 c)) by (destruct (k_pcC len c I) as [[_ X]|[(_&X&Y)|(_&X&Y)]]; lia).
  unfold seenP3n, seenW3n, seenC3n in *. lia.
Qed.

Theorem ca_under_3n : forall len script, 0 < len ->
  let c := exec3_n len (init3_n len) script in
  (* consumer, follows the worker *)
  (pos3 (C3 c) + ca3 (C3 c) <= pos3 (W3 c) /\ off3 (C3 c) <= ca3 (C3 c)) /\
  (* worker, follows the producer *)
  (pos3 (W3 c) + ca3 (W3 c) <= pos3 (P3 c) /\ off3 (W3 c) <= ca3 (W3 c)) /\
  (* producer, follows the consumer one lap ahead, one slot kept free *)
  (pos3 (P3 c) + ca3 (P3 c) + 1 <= pos3 (C3 c) + len /\ off3 (P3 c) <= ca3 (P3 c)).
Proof. intros len script Hl c. exact (ca_under_inv3n len c (exec3n_inv len Hl script)). Qed.

(** the same with the offset: what is still available after the [off] slots already handled *)
Corollary ca_under_3n_off : forall len script, 0 < len ->
  let c := exec3_n len (init3_n len) script in
  pos3 (C3 c) + off3 (C3 c) + (ca3 (C3 c) - off3 (C3 c)) <= pos3 (W3 c) /\
  pos3 (W3 c) + off3 (W3 c) + (ca3 (W3 c) - off3 (W3 c)) <= pos3 (P3 c) /\
  pos3 (P3 c) + off3 (P3 c) + (ca3 (P3 c) - off3 (P3 c)) + 1 <= pos3 (C3 c) + len.
Proof. intros len script Hl. pose proof (ca_under_3n len script Hl) as H. cbv zeta in *. lia. Qed.

(** every granted window lies within the true availability; the position being accessed is strictly below the
    real position of the followed thread *)
Corollary granted_within_3n : forall len script, 0 < len ->
  let c := exec3_n len (init3_n len) script in
  (pc3 (C3 c) = 2 \/ pc3 (C3 c) = 3 -> pos3 (C3 c) + cnt3 (C3 c) <= pos3 (W3 c)) /\
  (pc3 (W3 c) = 2 \/ pc3 (W3 c) = 3 -> pos3 (W3 c) + cnt3 (W3 c) <= pos3 (P3 c)) /\
  (pc3 (P3 c) = 2 \/ pc3 (P3 c) = 3 -> pos3 (P3 c) + cnt3 (P3 c) + 1 <= pos3 (C3 c) + len) /\
  (pc3 (C3 c) = 2 -> pos3 (C3 c) + off3 (C3 c) < pos3 (W3 c)) /\
  (pc3 (W3 c) = 2 -> pos3 (W3 c) + off3 (W3 c) < pos3 (P3 c)) /\
  (pc3 (P3 c) = 2 -> pos3 (P3 c) + off3 (P3 c) + 1 < pos3 (C3 c) + len).
Proof.
  intros len script Hl c. pose proof (exec3n_inv len Hl script) as I. fold c in I.
  pose proof (ca_under_inv3n len c I) as ((C1&C2)&(W1&W2)&(P1&P2)).
  pose proof (k_pcP len c I) as HP. pose proof (k_pcW len c I) as HW. pose proof (k_pcC len c I) as HC.
  unfold pc_okn in *. splits; intros Hpc; lia.
Qed.

(** the literal form (offset ADDED to [ca]) is false: the consumer is granted a window of 2 out of [ca = 3] and
    has read one slot: pos 4, off 1, ca 3, the worker is at 7. *)
Definition lit3_witness : list (tid * nat * nat) :=
  [ sP 3; sP 3; sP 3; sP 3; sP 3;  sW 3; sW 3; sW 3; sW 3; sW 3;  sC 2; sC 2 ].
Theorem ca_plus_off_3n_refuted :
  ~ (forall len script, 0 < len ->
       let c := exec3_n len (init3_n len) script in
       pos3 (C3 c) + off3 (C3 c) + ca3 (C3 c) <= pos3 (W3 c)).
Proof.
  intros H. specialize (H 4 lit3_witness (Nat.lt_0_succ 3)). vm_compute in H. lia.
Qed.
Example lit3_witness_state :
  let c := exec3_n 4 (init3_n 4) lit3_witness in
  (pos3 (C3 c), off3 (C3 c), ca3 (C3 c), pc3 (C3 c), pos3 (W3 c)) = (4, 1, 3, 2, 7).
Proof. vm_compute. reflexivity. Qed.

(** non-vacuity: STALE reads make [ca] strictly smaller than the true availability (len = 4, capacity 3).
    P pushes 2, then 1 (messages "P at 6", "P at 7").
    c1: W reads the stale message "P at 6" (choice 1): ca = 2 although 3 items are really there; it is granted 2.
    c2: W works those 2 and publishes ("W at 6"); C reads the worker's INITIAL message (choice 0): ca = 0
        although 2 items are really available: refused.
    c3: C then reads the latest message, pops 2 and publishes ("C at 6"); P reads the consumer's INITIAL message
        (choice 0): ca = 0 although 2 slots are really free: refused. *)
Definition stale3_pre : list (tid * nat * nat) := [ sP 2; sP 2; sP 2; sP 2; sP 1; sP 1; sP 1; (TW, 1, 2) ].
Example stale_3n :
  let c1 := exec3_n 4 (init3_n 4) stale3_pre in
  let c2 := exec3_n 4 (init3_n 4) (stale3_pre ++ [ sW 2; sW 2; sW 2; (TC, 0, 2) ]) in
  let c3 := exec3_n 4 (init3_n 4) (stale3_pre ++ [ sW 2; sW 2; sW 2; (TC, 0, 2); sC 2; sC 2; sC 2; sC 2;
                                                    (TP, 0, 2) ]) in
  (ca3 (W3 c1), pos3 (P3 c1) - pos3 (W3 c1), pc3 (W3 c1)) = (2, 3, 2) /\
  (ca3 (C3 c2), pos3 (W3 c2) - pos3 (C3 c2), pc3 (C3 c2)) = (0, 2, 0) /\
  (ca3 (P3 c3), pos3 (C3 c3) + 4 - 1 - pos3 (P3 c3), pc3 (P3 c3)) = (0, 2, 0) /\
  race3 c3 = false.
Proof. vm_compute. repeat split; reflexivity. Qed.

End ThreeStage.

(* ================================================================================================== *)
(** * The two-stage machine RAn.v                                                                     *)
(* ================================================================================================== *)
Module TwoStage.
Import MRB.Conc.RA MRB.Conc.RAproof MRB.Conc.RAn MRB.Conc.RAnproof.

Lemma ca_under_invn len c : InvN len c ->
  (pos (C c) + ca (C c) <= pos (P c) /\ off (C c) <= ca (C c)) /\
  (pos (P c) + ca (P c) + 1 <= pos (C c) + len /\ off (P c) <= ca (P c)).
Proof.
  intros I.
  pose proof (i_caP len c I) as HcaP. pose proof (i_caC len c I) as HcaC.
  pose proof (i_lpi len c I) as Hlpi. pose proof (i_lci len c I) as Hlci.
  destruct (i_vP len c I) as (_&A&_). destruct (i_vC len c I) as (B&_).
  pose proof (sorted_last_n _ _ (i_sci len c I) A) as HsP.
  pose proof (sorted_last_n _ _ (i_spi len c I) B) as HsC.
  assert (HoP : off (P c) <= ca (P c)) by (destruct (i_pcP len c I) as [[_ X]|[(_&X&Y)|(_&X&Y)]]; lia).
  assert (HoC : off (C c) <= ca (C c)) by (destruct (i_pcC len c I) as [[_ X]|[(_&X&Y)|(_&X&Y)]]; lia).
  unfold seenPn, seenCn in *. lia.
Qed.

Theorem ca_under_n : forall len script, 0 < len ->
  let c := exec_n len (init_n len) script in
  (* consumer, follows the producer *)
  (pos (C c) + ca (C c) <= pos (P c) /\ off (C c) <= ca (C c)) /\
  (* producer, follows the consumer one lap ahead, one slot kept free *)
  (pos (P c) + ca (P c) + 1 <= pos (C c) + len /\ off (P c) <= ca (P c)).
Proof. intros len script Hl c. exact (ca_under_invn len c (exec_invn len Hl script)). Qed.

Corollary ca_under_n_off : forall len script, 0 < len ->
  let c := exec_n len (init_n len) script in
  pos (C c) + off (C c) + (ca (C c) - off (C c)) <= pos (P c) /\
  pos (P c) + off (P c) + (ca (P c) - off (P c)) + 1 <= pos (C c) + len.
Proof. intros len script Hl. pose proof (ca_under_n len script Hl) as H. cbv zeta in *. lia. Qed.

Corollary granted_within_n : forall len script, 0 < len ->
  let c := exec_n len (init_n len) script in
  (pc (C c) = 2 \/ pc (C c) = 3 -> pos (C c) + cnt (C c) <= pos (P c)) /\
  (pc (P c) = 2 \/ pc (P c) = 3 -> pos (P c) + cnt (P c) + 1 <= pos (C c) + len) /\
  (pc (C c) = 2 -> pos (C c) + off (C c) < pos (P c)) /\
  (pc (P c) = 2 -> pos (P c) + off (P c) + 1 < pos (C c) + len).
Proof.
  intros len script Hl c. pose proof (exec_invn len Hl script) as I. fold c in I.
  pose proof (ca_under_invn len c I) as ((C1&C2)&(P1&P2)).
  pose proof (i_pcP len c I) as HP. pose proof (i_pcC len c I) as HC.
  unfold pc_ok in *. splits; intros Hpc; lia.
Qed.

(** the literal form is false: C is granted 2 out of ca = 3 and has read one slot: pos 4, off 1, ca 3, P at 7 *)
Definition lit_witness : list (bool * nat * nat) := [ sP 3; sP 3; sP 3; sP 3; sP 3; sC 2; sC 2 ].
Theorem ca_plus_off_n_refuted :
  ~ (forall len script, 0 < len ->
       let c := exec_n len (init_n len) script in
       pos (C c) + off (C c) + ca (C c) <= pos (P c)).
Proof.
  intros H. specialize (H 4 lit_witness (Nat.lt_0_succ 3)). vm_compute in H. lia.
Qed.
Example lit_witness_state :
  let c := exec_n 4 (init_n 4) lit_witness in
  (pos (C c), off (C c), ca (C c), pc (C c), pos (P c)) = (4, 1, 3, 2, 7).
Proof. vm_compute. reflexivity. Qed.
(** and likewise for the producer: granted 2 out of ca = 3, one slot written: 4 + 1 + 3 + 1 > 4 + 4 *)
Theorem ca_plus_off_n_refuted_P :
  ~ (forall len script, 0 < len ->
       let c := exec_n len (init_n len) script in
       pos (P c) + off (P c) + ca (P c) + 1 <= pos (C c) + len).
Proof.
  intros H. specialize (H 4 [sP 2; sP 2] (Nat.lt_0_succ 3)). vm_compute in H. lia.
Qed.

(** non-vacuity.  P pushes 2 then 1 (messages: P at 6, P at 7); C reads the stale message "P at 6": ca = 2 < 3,
    and is granted its window of 2.  After C's pop, P reads the consumer's INITIAL message: ca = 0 although 2 slots
    are really free; the producer is refused. *)
Example stale_n :
  let c1 := exec_n 4 (init_n 4) [ sP 2; sP 2; sP 2; sP 2; sP 1; sP 1; sP 1; (false, 1, 2) ] in
  let c2 := exec_n 4 (init_n 4) [ sP 2; sP 2; sP 2; sP 2; sP 1; sP 1; sP 1; (false, 1, 2); sC 2; sC 2; sC 2;
                                  (true, 0, 2) ] in
  (ca (C c1), pos (P c1) - pos (C c1), pc (C c1)) = (2, 3, 2) /\
  (ca (P c2), pos (C c2) + 4 - 1 - pos (P c2), pc (P c2)) = (0, 2, 0).
Proof. vm_compute. split; reflexivity. Qed.

End TwoStage.

(* ================================================================================================== *)
(** * The two-stage machine with reset / detach, RAx.v                                                *)
(* ================================================================================================== *)
Module Extended.
Import MRB.Conc.RA MRB.Conc.RAproof MRB.Conc.RAx MRB.Conc.RAxproof MRB.Conc.RAxvalues.

(** ** (A) conservation, scripts without a consumer [Reset] *)

Definition ringx (len : nat) (v : vst) (lo hi : nat) : list nat :=
  map (fun p => nth (p mod len) (vals v) 0) (seq lo (hi - lo)).

Lemma VInv_conservation len pv c v : 0 < len ->
  VInv len pv c v -> NR len c v -> frontC c <= frontP c ->
  clog v ++ ringx len v (frontC c) (frontP c) = map pv (seq len (frontP c - len)).
Proof.
  intros Hlen VI [_ N] Hcp.
  pose proof (v_lo len pv c v VI) as Hlo.
  rewrite (v_log len pv c v VI), N. unfold ringx.
  rewrite <- (seq_split_at len (frontC c) (frontP c)) by lia. rewrite map_app. f_equal.
  apply map_ext_in. intros p Hp. apply in_seq in Hp.
  assert (Hk : p mod len < len) by (apply Nat.mod_upper_bound; lia).
  assert (Hw : W c (p mod len) = p) by (apply (v_rng len pv c v VI); lia).
  rewrite (v_val len pv c v VI _ Hk) by (rewrite Hw; lia). rewrite Hw. reflexivity.
Qed.

Lemma vrun_nr len pv init script : 0 < len -> (forall j, ~ In (false, Reset j) script) ->
  NR len (exec_x len (init_x len) script) (vrun len pv init script).
Proof.
  intros Hl Hnr.
  assert (Hs : forallb (fun s => negb (is_creset s)) script = true).
  { apply forallb_forall. intros [[|] k] Hin; destruct k as [j n|j| | |]; try reflexivity.
    exfalso. exact (Hnr j Hin). }
  pose proof (vexec_nr len Hl pv script _ _ (init_invx len Hl) (vinit_inv len Hl pv init) Hs (vinit_nr len init))
    as N.
  rewrite vexec_fst in N. exact N.
Qed.

(** At every moment of every execution without a consumer [Reset] (Detach / Sync / Attach allowed): consumed ++
    ring contents between the consumer's and the producer's frontier = the accepted pushes. *)
Theorem conservation_x_any_time : forall len pv init script, 0 < len ->
  (forall j, ~ In (false, Reset j) script) ->
  let c := exec_x len (init_x len) script in
  let v := vrun len pv init script in
  clog v ++ ringx len v (pos (C c) + off (C c)) (pos (P c) + off (P c))
  = map pv (seq len (pos (P c) + off (P c) - len)).
Proof.
  intros len pv init script Hl Hnr c v.
  destruct (vrun_inv len pv init script Hl) as [I VI]. fold c in I, VI. fold v in VI.
  pose proof (vrun_nr len pv init script Hl Hnr) as N. fold c in N. fold v in N.
  pose proof (frontC_le_posP len Hl c I) as HfC.
  apply (VInv_conservation len pv c v Hl VI N). unfold frontC, frontP. lia.
Qed.

(** JOINED: both threads are between operations. *)
Theorem joined_conservation_x : forall len pv init script, 0 < len ->
  (forall j, ~ In (false, Reset j) script) ->
  let c := exec_x len (init_x len) script in
  let v := vrun len pv init script in
  pc (P c) = 0 -> pc (C c) = 0 ->
  clog v ++ ringx len v (pos (C c)) (pos (P c)) = map pv (seq len (pos (P c) - len)).
Proof.
  intros len pv init script Hl Hnr c v HpcP HpcC.
  pose proof (conservation_x_any_time len pv init script Hl Hnr) as K. cbv zeta in K. fold c in K. fold v in K.
  pose proof (exec_invx len Hl script) as I. fold c in I.
  assert (HoP : off (P c) = 0)
    by (destruct (i_pcP len c I) as [[_ X]|[(X&_)|(X&_)]]; [exact X | congruence | congruence]).
  assert (HoC : off (C c) = 0)
    by (destruct (i_pcC len c I) as [[[_ X]|[(X&_)|(X&_)]]|(X&_)]; [exact X | congruence | congruence | congruence]).
  rewrite HoP, HoC, !Nat.add_0_r in K. exact K.
Qed.

(* Examples (RAxvalues.v's conventions: len = 4, pv p = 100 + p, slots initially 7).
   [demo_detached] cut after the first 16 entries: C detached, popped 2 (positions 4,5) locally, synced; P has
   pushed positions 4..8 (the last two wrap into slots 3, 0).  Both at pc 0. *)
Example joined_x_detached :
  let c := exec_x 4 (init_x 4) (firstn 16 demo_detached) in
  let v := vrun 4 pv_demo init_demo (firstn 16 demo_detached) in
  (pc (P c), pc (C c), pos (C c), pos (P c), det (C c)) = (0, 0, 6, 9, true) /\
  clog v = [104; 105] /\ ringx 4 v 6 9 = [106; 107; 108].
Proof. vm_compute. repeat split; reflexivity. Qed.

(* With a consumer [Reset] conservation fails, as it must (positions 5, 6 are skipped, and position 5's slot is
   overwritten): RAx.v's [demo_reset]. *)
Example reset_breaks_conservation_x :
  let c := exec_x 4 (init_x 4) demo_reset in
  let v := vrun 4 pv_demo init_demo demo_reset in
  (pc (P c), pc (C c)) = (0, 0) /\
  clog v ++ ringx 4 v (pos (C c)) (pos (P c)) = [104; 107; 108; 109] /\
  map pv_demo (seq 4 (pos (P c) - 4)) = [104; 105; 106; 107; 108; 109].
Proof. vm_compute. repeat split; reflexivity. Qed.

(** ** (B) availability errs only towards refusing *)

Lemma ca_under_invx len c : InvX len c ->
  (pos (C c) + ca (C c) <= pos (P c) /\ off (C c) <= ca (C c)) /\
  (pos (P c) + ca (P c) + 1 <= publishedC c + len /\ publishedC c <= pos (C c) /\ off (P c) <= ca (P c)).
Proof.
  intros I.
  pose proof (i_caP len c I) as HcaP. pose proof (i_caC len c I) as HcaC.
  pose proof (i_lpi len c I) as Hlpi. pose proof (i_lci len c I) as Hlci.
  destruct (i_vP len c I) as (_&A&_). destruct (i_vC len c I) as (B&_).
  pose proof (sorted_last_x _ _ (i_sci len c I) A) as HsP.
  pose proof (sorted_last_x _ _ (i_spi len c I) B) as HsC.
  assert (HoP : off (P c) <= ca (P c)) by (destruct (i_pcP len c I) as [[_ X]|[(_&X&Y)|(_&X&Y)]]; lia).
  assert (HoC : off (C c) <= ca (C c))
    by (destruct (i_pcC len c I) as [[[_ X]|[(_&X&Y)|(_&X&Y)]]|(_&X&_)]; lia).
  unfold publishedC. rewrite <- lastabs_last.
  unfold seenPx, seenCx in *. lia.
Qed.

Theorem ca_under_x : forall len script, 0 < len ->
  let c := exec_x len (init_x len) script in
  (* consumer, follows the producer; also at pc 5 (between the load and the store of a reset) *)
  (pos (C c) + ca (C c) <= pos (P c) /\ off (C c) <= ca (C c)) /\
  (* producer, follows the consumer: bounded by the consumer's REAL (local) position, and even by the
     PUBLISHED one, which lags behind while the consumer is detached *)
  (pos (P c) + ca (P c) + 1 <= pos (C c) + len /\
   pos (P c) + ca (P c) + 1 <= publishedC c + len /\
   off (P c) <= ca (P c)).
Proof.
  intros len script Hl c.
  pose proof (ca_under_invx len c (exec_invx len Hl script)) as ((C1&C2)&(P1&P2&P3)).
  splits; try assumption. lia.
Qed.

Corollary ca_under_x_off : forall len script, 0 < len ->
  let c := exec_x len (init_x len) script in
  pos (C c) + off (C c) + (ca (C c) - off (C c)) <= pos (P c) /\
  pos (P c) + off (P c) + (ca (P c) - off (P c)) + 1 <= pos (C c) + len.
Proof. intros len script Hl. pose proof (ca_under_x len script Hl) as H. cbv zeta in *. lia. Qed.

Corollary granted_within_x : forall len script, 0 < len ->
  let c := exec_x len (init_x len) script in
  (pc (C c) = 2 \/ pc (C c) = 3 -> pos (C c) + cnt (C c) <= pos (P c)) /\
  (pc (P c) = 2 \/ pc (P c) = 3 -> pos (P c) + cnt (P c) + 1 <= pos (C c) + len) /\
  (pc (C c) = 2 -> pos (C c) + off (C c) < pos (P c)) /\
  (pc (P c) = 2 -> pos (P c) + off (P c) + 1 < pos (C c) + len) /\
  (* the position loaded by a reset in progress is not beyond the producer's real position either *)
  (pc (C c) = 5 -> pos (C c) <= npos (C c) <= pos (P c)).
Proof.
  intros len script Hl c. pose proof (exec_invx len Hl script) as I. fold c in I.
  pose proof (ca_under_invx len c I) as ((C1&C2)&(P1&P2&P3)).
  pose proof (i_pcP len c I) as HP. pose proof (i_pcC len c I) as HC.
  pose proof (seenCx_le_posP len Hl c I) as Hs.
  unfold pc_okC, pc_ok in *. splits; intros Hpc; lia.
Qed.

(** the literal form is false here too (same witness as for RAn.v) *)
Definition litx_witness : list (bool * cmd) := [ sP 3; sP 3; sP 3; sP 3; sP 3; sC 2; sC 2 ].
Theorem ca_plus_off_x_refuted :
  ~ (forall len script, 0 < len ->
       let c := exec_x len (init_x len) script in
       pos (C c) + off (C c) + ca (C c) <= pos (P c)).
Proof.
  intros H. specialize (H 4 litx_witness (Nat.lt_0_succ 3)). vm_compute in H. lia.
Qed.
Example litx_witness_state :
  let c := exec_x 4 (init_x 4) litx_witness in
  (pos (C c), off (C c), ca (C c), pc (C c), pos (P c)) = (4, 1, 3, 2, 7).
Proof. vm_compute. reflexivity. Qed.

(** non-vacuity.  (1) RAxvalues.v's [demo_stale] up to the consumer's first, STALE load: it sees "P at 6" while P
    is at 7: ca = 2 < 3.  (2) ... up to the producer's STALE load ("C at 4" while C is at 6): ca = 0 < 2, refused.
    (3) Detached consumer ([demo_detached] before the Sync): C is locally at 6, published 4; the producer reads
    the LATEST message and still gets ca = 0 although 2 slots are really free: it errs towards refusing. *)
Example stale_x :
  let c1 := exec_x 4 (init_x 4) (firstn 8 demo_stale) in
  let c2 := exec_x 4 (init_x 4) (firstn 12 demo_stale) in
  let c3 := exec_x 4 (init_x 4) (firstn 11 demo_detached) in
  (ca (C c1), pos (P c1) - pos (C c1), pc (C c1)) = (2, 3, 2) /\
  (ca (P c2), pos (C c2) + 4 - 1 - pos (P c2), pc (P c2)) = (0, 2, 0) /\
  (ca (P c3), pos (C c3) + 4 - 1 - pos (P c3), publishedC c3, pc (P c3)) = (0, 2, 4, 0).
Proof. vm_compute. repeat split; reflexivity. Qed.

End Extended.

Print Assumptions ThreeStage.conservation_3n_any_time.
Print Assumptions ThreeStage.joined_conservation_3n.
Print Assumptions ThreeStage.joined_conservation_3n_caught_up.
Print Assumptions ThreeStage.joined_all_consumed_3n.
Print Assumptions Extended.conservation_x_any_time.
Print Assumptions Extended.joined_conservation_x.
Print Assumptions ThreeStage.ca_under_3n.
Print Assumptions ThreeStage.ca_under_3n_off.
Print Assumptions ThreeStage.granted_within_3n.
Print Assumptions ThreeStage.ca_plus_off_3n_refuted.
Print Assumptions TwoStage.ca_under_n.
Print Assumptions TwoStage.ca_under_n_off.
Print Assumptions TwoStage.granted_within_n.
Print Assumptions TwoStage.ca_plus_off_n_refuted.
Print Assumptions TwoStage.ca_plus_off_n_refuted_P.
Print Assumptions Extended.ca_under_x.
Print Assumptions Extended.ca_under_x_off.
Print Assumptions Extended.granted_within_x.
Print Assumptions Extended.ca_plus_off_x_refuted.
