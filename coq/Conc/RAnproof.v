(** * Race freedom of the multi-slot two-stage release/acquire machine (RAn.v).

    [spsc_n_race_free : forall len script, 0 < len -> race (exec_n len (init_n len) script) = false]
    is proved completely (no case missing); [Print Assumptions] at the end of the file reports
    "Closed under the global context".

    The invariant is the one of RAproof.v with the "frontier" [pos + off] of a thread in the place of [pos]:
    - a recorded slot access of a thread sits at a position strictly below its frontier;
    - at pc 0 the window is empty ([off = 0]); at pc 2 [off < cnt <= ca]; at pc 3 [off = cnt <= ca];
    - [ca] is bounded by what the thread has seen of the other index, exactly as before
      (P: [ca + pos + 1 <= seen_C + len], C: [ca + pos <= seen_P]); with [cnt <= ca] this gives the grant bounds
      [pos + cnt + 1 <= seen_C + len] and [pos + cnt <= seen_P];
    - the per-slot argument "congruent modulo len and closer than len => equal" is unchanged.
    The pure list facts ([sorted], [lastabs], ...) are reused from RAproof.v. *)
Require Import MRB.Conc.RA MRB.Conc.RAproof MRB.Conc.RAn.
From Coq Require Import List Arith Lia Bool.
Import ListNotations.

Local Arguments Nat.leb : simpl never.
Local Arguments Nat.ltb : simpl never.
Local Arguments Nat.modulo : simpl never.
Local Arguments Nat.max : simpl never.
Local Arguments Nat.min : simpl never.

(* Pure list facts of RAproof.v.  There they were stated inside a section with [0 < len] in the context and
   picked that hypothesis up although they do not depend on it: restated here without it. *)
Lemma nth_app_last_n (M : list msg) x : nth (length M) (M ++ [x]) dmsg = x.
Proof. exact (nth_app_last 1 Nat.lt_0_1 M x). Qed.
Lemma sorted_app_n M x : 0 < length M -> sorted M -> lastabs M <= mabs x -> sorted (M ++ [x]).
Proof. exact (sorted_app 1 Nat.lt_0_1 M x). Qed.
Lemma sorted_last_n M i : sorted M -> i < length M -> mabs (nth i M dmsg) <= lastabs M.
Proof. exact (sorted_last 1 Nat.lt_0_1 M i). Qed.
Lemma lastabs_app_n M x : lastabs (M ++ [x]) = mabs x.
Proof. exact (lastabs_app 1 Nat.lt_0_1 M x). Qed.
Lemma pick_bounds_n lo n j : lo < n -> lo <= pick lo n j /\ pick lo n j < n.
Proof. exact (pick_bounds 1 Nat.lt_0_1 lo n j). Qed.

Section InvN.
Variable len : nat.
Hypothesis Hlen : 0 < len.

Definition mtn (c : cfg_n) (k : nat) : meta := nth k (metas c) dmeta.

Definition view_okn (c : cfg_n) (v : view) : Prop :=
  vpi v < length (Mpi c) /\ vci v < length (Mci c) /\
  wP v <= pos (P c) /\ wC v <= pos (C c) /\
  mabs (nth (vpi v) (Mpi c) dmsg) <= wP v /\
  mabs (nth (vci v) (Mci c) dmsg) <= wC v /\
  (forall k, k < len -> wpos (mtn c k) < wP v -> wclk (mtn c k) <= kp v) /\
  (forall k, k < len -> rpos (mtn c k) < wC v -> rclk (mtn c k) <= kc v).

Definition msg_okn (c : cfg_n) (m : msg) : Prop :=
  mval m = mabs m mod len /\ view_okn c (mview m).

Definition seenPn (c : cfg_n) := mabs (nth (vci (V (P c))) (Mci c) dmsg).
Definition seenCn (c : cfg_n) := mabs (nth (vpi (V (C c))) (Mpi c) dmsg).

(* pc 0: no window; pc 2: window granted, [off] slots done, more to do; pc 3: window done, not yet published *)
Definition pc_ok (t : thr_n) : Prop :=
  (pc t = 0 /\ off t = 0) \/
  (pc t = 2 /\ off t < cnt t /\ cnt t <= ca t) \/
  (pc t = 3 /\ off t = cnt t /\ cnt t <= ca t).

Record InvN (c : cfg_n) : Prop := mkInvN {
  i_metas : length (metas c) = len;
  i_npi : 0 < length (Mpi c);
  i_nci : 0 < length (Mci c);
  i_spi : sorted (Mpi c);
  i_sci : sorted (Mci c);
  i_lpi : lastabs (Mpi c) = pos (P c);
  i_lci : lastabs (Mci c) = pos (C c);
  i_mpi : Forall (msg_okn c) (Mpi c);
  i_mci : Forall (msg_okn c) (Mci c);
  i_wpi : forall i, i < length (Mpi c) -> mabs (nth i (Mpi c) dmsg) <= wP (mview (nth i (Mpi c) dmsg));
  i_wci : forall i, i < length (Mci c) -> mabs (nth i (Mci c) dmsg) <= wC (mview (nth i (Mci c) dmsg));
  i_vP : view_okn c (V (P c));
  i_vC : view_okn c (V (C c));
  i_ixP : ix (P c) = pos (P c) mod len;
  i_ixC : ix (C c) = pos (C c) mod len;
  i_caP : ca (P c) + pos (P c) + 1 <= seenPn c + len;
  i_caC : ca (C c) + pos (C c) <= seenCn c;
  i_pcP : pc_ok (P c);
  i_pcC : pc_ok (C c);
  i_slot : forall k, k < len ->
     wpos (mtn c k) mod len = k /\ rpos (mtn c k) mod len = k /\
     wpos (mtn c k) < pos (P c) + off (P c) /\ rpos (mtn c k) < pos (C c) + off (C c) /\
     wclk (mtn c k) <= kp (V (P c)) /\ rclk (mtn c k) <= kc (V (C c));
  i_race : race c = false
}.

(* ---- view_okn is stable under "growth" of the configuration ---- *)
Definition growsn (c c' : cfg_n) : Prop :=
  (exists xs, Mpi c' = Mpi c ++ xs) /\ (exists ys, Mci c' = Mci c ++ ys) /\
  pos (P c) <= pos (P c') /\ pos (C c) <= pos (C c') /\
  (forall k, k < len ->
     (mtn c' k = mtn c k) \/
     (pos (P c) <= wpos (mtn c' k) /\ rpos (mtn c' k) = rpos (mtn c k) /\ rclk (mtn c' k) = rclk (mtn c k)) \/
     (pos (C c) <= rpos (mtn c' k) /\ wpos (mtn c' k) = wpos (mtn c k) /\ wclk (mtn c' k) = wclk (mtn c k))).

Lemma view_okn_grows c c' v : growsn c c' -> view_okn c v -> view_okn c' v.
Proof.
  intros (Hpi & Hci & HpP & HpC & Hm) (H1 & H2 & H3 & H4 & H5 & H6 & H7 & H8).
  destruct Hpi as [xs Hpi]. destruct Hci as [ys Hci].
  unfold view_okn. rewrite Hpi, Hci, !app_length.
  repeat split; try lia.
  - rewrite app_nth1 by lia; auto.
  - rewrite app_nth1 by lia; auto.
  - intros k Hk Hw. destruct (Hm k Hk) as [E|[(E1&E2&E3)|(E1&E2&E3)]].
    + rewrite E in *; auto.
    + lia.
    + rewrite E2, E3 in *; auto.
  - intros k Hk Hw. destruct (Hm k Hk) as [E|[(E1&E2&E3)|(E1&E2&E3)]].
    + rewrite E in *; auto.
    + rewrite E2, E3 in *; auto.
    + lia.
Qed.

Lemma msgs_okn_grows c c' M : growsn c c' -> Forall (msg_okn c) M -> Forall (msg_okn c') M.
Proof.
  intros G F. eapply Forall_impl; [|exact F].
  intros m [A B]; split; auto. eapply view_okn_grows; eauto.
Qed.

Lemma posC_le_posPn c : InvN c -> pos (C c) <= pos (P c).
Proof.
  intros I. pose proof (i_caC c I) as H1. pose proof (i_lpi c I) as H2.
  destruct (i_vC c I) as (A&_).
  pose proof (sorted_last_n (Mpi c) (vpi (V (C c))) (i_spi c I) A). unfold seenCn in *. lia.
Qed.
Lemma posP_ltn c : InvN c -> pos (P c) + 1 <= pos (C c) + len.
Proof.
  intros I. pose proof (i_caP c I) as H1. pose proof (i_lci c I) as H2.
  destruct (i_vP c I) as (_&A&_).
  pose proof (sorted_last_n (Mci c) (vci (V (P c))) (i_sci c I) A). unfold seenPn in *. lia.
Qed.

(* the frontier of a thread never passes what it has seen of the other index *)
Lemma frontC_le_posP c : InvN c -> pos (C c) + off (C c) <= pos (P c).
Proof.
  intros I. pose proof (i_caC c I) as H1. pose proof (i_lpi c I) as H2.
  pose proof (posC_le_posPn c I) as H3.
  destruct (i_vC c I) as (A&_).
  pose proof (sorted_last_n (Mpi c) (vpi (V (C c))) (i_spi c I) A) as H4. unfold seenCn in *.
  destruct (i_pcC c I) as [[_ X]|[(_&X&Y)|(_&X&Y)]]; lia.
Qed.
Lemma frontP_lt c : InvN c -> pos (P c) + off (P c) + 1 <= pos (C c) + len.
Proof.
  intros I. pose proof (i_caP c I) as H1. pose proof (i_lci c I) as H2.
  pose proof (posP_ltn c I) as H3.
  destruct (i_vP c I) as (_&A&_).
  pose proof (sorted_last_n (Mci c) (vci (V (P c))) (i_sci c I) A) as H4. unfold seenPn in *.
  destruct (i_pcP c I) as [[_ X]|[(_&X&Y)|(_&X&Y)]]; lia.
Qed.
(* the remembered availability never exceeds the capacity len - 1 *)
Lemma caP_cap c : InvN c -> ca (P c) + 1 <= len.
Proof.
  intros I. pose proof (i_caP c I) as H1. pose proof (i_lci c I) as H2.
  pose proof (posC_le_posPn c I) as H3.
  destruct (i_vP c I) as (_&A&_).
  pose proof (sorted_last_n (Mci c) (vci (V (P c))) (i_sci c I) A) as H4. unfold seenPn in *. lia.
Qed.
Lemma caC_cap c : InvN c -> ca (C c) + 1 <= len.
Proof.
  intros I. pose proof (i_caC c I) as H1. pose proof (i_lpi c I) as H2.
  pose proof (posP_ltn c I) as H3.
  destruct (i_vC c I) as (A&_).
  pose proof (sorted_last_n (Mpi c) (vpi (V (C c))) (i_spi c I) A) as H4. unfold seenCn in *. lia.
Qed.

Ltac splits := repeat match goal with |- _ /\ _ => split end.
Ltac inv_fields I :=
  pose proof (i_metas _ I) as Hmetas; pose proof (i_npi _ I) as Hnpi; pose proof (i_nci _ I) as Hnci;
  pose proof (i_spi _ I) as Hspi; pose proof (i_sci _ I) as Hsci;
  pose proof (i_lpi _ I) as Hlpi; pose proof (i_lci _ I) as Hlci;
  pose proof (i_mpi _ I) as Hmpi; pose proof (i_mci _ I) as Hmci;
  pose proof (i_wpi _ I) as Hwpi; pose proof (i_wci _ I) as Hwci;
  pose proof (i_vP _ I) as HvP; pose proof (i_vC _ I) as HvC;
  pose proof (i_ixP _ I) as HixP; pose proof (i_ixC _ I) as HixC;
  pose proof (i_caP _ I) as HcaP; pose proof (i_caC _ I) as HcaC;
  pose proof (i_pcP _ I) as HpcP; pose proof (i_pcC _ I) as HpcC;
  pose proof (i_slot _ I) as Hslot; pose proof (i_race _ I) as Hrace;
  pose proof (posC_le_posPn _ I) as Hcp; pose proof (posP_ltn _ I) as Hpc;
  pose proof (frontC_le_posP _ I) as HfC; pose proof (frontP_lt _ I) as HfP;
  pose proof (caP_cap _ I) as HcapP; pose proof (caC_cap _ I) as HcapC.

(* ================= producer ================= *)

(* ---------- P, pc = 0, remembered availability suffices: grant a window of n = max 1 n0 ---------- *)
Lemma stepP_fast c j n0 : InvN c -> pc (P c) = 0 -> Nat.max 1 n0 <= ca (P c) -> InvN (stepP_n len j n0 c).
Proof.
  intros I Hpc0 Hca. inv_fields I.
  destruct HpcP as [[_ Hoff]|[(X&_)|(X&_)]]; try congruence.
  unfold stepP_n, stepP_a. rewrite Hpc0. cbv zeta.
  set (n := Nat.max 1 n0) in *. assert (Hn : 1 <= n) by (unfold n; lia). clearbody n.
  destruct (n <=? ca (P c)) eqn:E; [|apply Nat.leb_gt in E; lia].
  constructor; simpl; auto.
  - right; left; simpl. splits; auto; lia.
  - intros k Hk. destruct (Hslot k Hk) as (S1&S2&S3&S4&S5&S6).
    unfold mtn in *; simpl. splits; auto; lia.
Qed.

(* ---------- P, pc = 0, must look at the consumer's index (acquire load, any admissible message) ---------- *)
Lemma stepP_load c j n0 : InvN c -> pc (P c) = 0 -> ca (P c) < Nat.max 1 n0 -> InvN (stepP_n len j n0 c).
Proof.
  intros I Hpc0 Hca. inv_fields I.
  destruct HpcP as [[_ Hoff]|[(X&_)|(X&_)]]; try congruence.
  unfold stepP_n, stepP_a. rewrite Hpc0. cbv zeta.
  set (n := Nat.max 1 n0) in *. assert (Hn : 1 <= n) by (unfold n; lia). clearbody n.
  destruct (n <=? ca (P c)) eqn:E; [apply Nat.leb_le in E; lia|]. clear E.
  destruct HvP as (P1&P2&P3&P4&P5&P6&P7&P8).
  pose proof (pick_bounds_n (vci (V (P c))) (length (Mci c)) j P2) as [Hi1 Hi2].
  set (i := pick (vci (V (P c))) (length (Mci c)) j) in *.
  set (m := nth i (Mci c) dmsg).
  pose proof (Forall_nth_msg _ _ i Hmci Hi2) as [Hmv Hmok]. fold m in Hmv, Hmok.
  pose proof (Hwci i Hi2) as Hmw. fold m in Hmw.
  destruct Hmok as (Q1&Q2&Q3&Q4&Q5&Q6&Q7&Q8).
  assert (Hseen : seenPn c <= mabs m) by (unfold seenPn, m; apply Hsci; lia).
  assert (Hm : mabs m = mabs (nth i (Mci c) dmsg)) by reflexivity.
  clearbody m. clearbody i.
  assert (HmC : mabs m <= pos (C c)) by (rewrite <- Hlci, Hm; apply sorted_last_n; auto).
  assert (Ha : pavail len (ix (P c)) (mval m) = len - 1 - (pos (P c) - mabs m)).
  { rewrite HixP, Hmv. apply pavail_mod; lia. }
  set (v1 := vjoin _ (mview m)).
  assert (Hv1 : view_okn c v1).
  { unfold view_okn, v1, vjoin; simpl. splits; try lia.
    - destruct (Nat.max_spec (vpi (V (P c))) (vpi (mview m))) as [[_ ->]|[_ ->]]; lia.
    - destruct (Nat.max_spec i (vci (mview m))) as [[_ ->]|[_ ->]]; lia.
    - intros k Hk Hw.
      destruct (Nat.max_spec (wP (V (P c))) (wP (mview m))) as [[_ E]|[_ E]]; rewrite E in Hw.
      + specialize (Q7 k Hk Hw); lia.
      + specialize (P7 k Hk Hw); lia.
    - intros k Hk Hw.
      destruct (Nat.max_spec (wC (V (P c))) (wC (mview m))) as [[_ E]|[_ E]]; rewrite E in Hw.
      + specialize (Q8 k Hk Hw); lia.
      + specialize (P8 k Hk Hw); lia. }
  constructor; simpl; auto.
  - (* caP *)
    unfold seenPn; simpl. rewrite Ha.
    assert (mabs m <= mabs (nth (Nat.max i (vci (mview m))) (Mci c) dmsg)) by (rewrite Hm; apply Hsci; lia).
    lia.
  - (* pcP *)
    unfold pc_ok; simpl.
    destruct (n <=? pavail len (ix (P c)) (mval m)) eqn:E;
      [apply Nat.leb_le in E; right; left; splits; auto; lia | left; auto].
  - (* slots *)
    intros k Hk. destruct (Hslot k Hk) as (S1&S2&S3&S4&S5&S6).
    unfold mtn in *; simpl. splits; auto; try lia.
Qed.

(* ---------- P, pc = 2: the non-atomic write of slot (pos + off) mod len of the granted window ---------- *)
Lemma stepP_write c j n0 : InvN c -> pc (P c) = 2 -> InvN (stepP_n len j n0 c).
Proof.
  intros I Hpc2. inv_fields I.
  destruct HpcP as [[X _]|[(_&Hoff&Hcnt)|(X&_)]]; try congruence.
  unfold stepP_n, stepP_a. rewrite Hpc2. cbv zeta.
  destruct HvP as (P1&P2&P3&P4&P5&P6&P7&P8).
  assert (Hk0 : wadd len (ix (P c)) (off (P c)) = (pos (P c) + off (P c)) mod len)
    by (rewrite HixP; apply wadd_mod; lia).
  set (k0 := wadd len (ix (P c)) (off (P c))) in *.
  set (q := pos (P c) + off (P c)) in *.
  assert (Hk : k0 < len) by (rewrite Hk0; apply Nat.mod_upper_bound; lia).
  destruct (Hslot _ Hk) as (S1&S2&S3&S4&S5&S6).
  fold (mtn c k0).
  (* the consumer's last read of this slot is one lap (or more) below, and covered by the producer's view *)
  assert (Hr : rpos (mtn c k0) + len <= q).
  { apply (congr_le len);
      [exact Hlen | rewrite (mod_plus_len len Hlen), S2, Hk0; reflexivity | lia]. }
  assert (Hcov : rclk (mtn c k0) <= kc (V (P c))).
  { apply P8; auto. unfold seenPn in HcaP. lia. }
  assert (Hb : negb (rclk (mtn c k0) <=? kc (V (P c))) = false)
    by (apply negb_false_iff, Nat.leb_le; auto).
  rewrite Hb, orb_false_r.
  set (c' := mkCn _ _ _ _ _ _).
  assert (Hmt : forall k, k < len -> k <> k0 -> mtn c' k = mtn c k)
    by (intros; unfold mtn, c'; simpl; apply nth_upd_neq; auto).
  assert (Hmt0 : mtn c' k0 = mkMeta q (kp (V (P c))) (rpos (mtn c k0)) (rclk (mtn c k0)))
    by (unfold mtn, c'; simpl; apply nth_upd_eq; lia).
  assert (G : growsn c c').
  { unfold growsn; splits; simpl; try (exists []; rewrite app_nil_r; reflexivity); try lia.
    intros k Hk'. destruct (Nat.eq_dec k k0) as [->|Hne].
    - right; left. rewrite Hmt0; simpl; splits; auto; lia.
    - left; auto. }
  constructor; simpl; auto.
  - rewrite upd_length; auto.
  - apply (msgs_okn_grows c c' _ G Hmpi).
  - apply (msgs_okn_grows c c' _ G Hmci).
  - apply (view_okn_grows c c' _ G). unfold view_okn; splits; auto.
  - apply (view_okn_grows c c' _ G HvC).
  - unfold pc_ok; simpl.
    destruct (cnt (P c) <=? off (P c) + 1) eqn:E; [apply Nat.leb_le in E | apply Nat.leb_gt in E].
    + right; right; splits; auto; lia.
    + right; left; splits; auto; lia.
  - intros k Hk'. destruct (Nat.eq_dec k k0) as [->|Hne].
    + rewrite Hmt0; simpl. splits; auto; try lia.
    + rewrite (Hmt k Hk' Hne). destruct (Hslot k Hk') as (T1&T2&T3&T4&T5&T6).
      splits; auto; lia.
Qed.

(* ---------- P, pc = 3: advance by cnt + release store of the new index ---------- *)
Lemma stepP_store c j n0 : InvN c -> pc (P c) = 3 -> InvN (stepP_n len j n0 c).
Proof.
  intros I Hpc3. inv_fields I.
  destruct HpcP as [[X _]|[(X&_)|(_&Hoff&Hcnt)]]; try congruence.
  unfold stepP_n, stepP_a. rewrite Hpc3. cbv zeta.
  destruct HvP as (P1&P2&P3&P4&P5&P6&P7&P8).
  assert (Hix' : wadd len (ix (P c)) (cnt (P c)) = (pos (P c) + cnt (P c)) mod len)
    by (rewrite HixP; apply wadd_mod; lia).
  set (p' := pos (P c) + cnt (P c)) in *.
  set (v1 := mkV (length (Mpi c)) _ _ _ p' _).
  set (m := mkM _ _ v1).
  set (c' := mkCn _ _ _ _ _ _).
  assert (G : growsn c c').
  { unfold growsn; splits; simpl; try lia.
    - exists [m]; reflexivity.
    - exists []; rewrite app_nil_r; reflexivity.
    - intros; left; reflexivity. }
  assert (Hnth : forall i, i < length (Mpi c) -> nth i (Mpi c ++ [m]) dmsg = nth i (Mpi c) dmsg)
    by (intros; apply nth_app_l; auto).
  assert (Hv1 : view_okn c' v1).
  { unfold view_okn, v1, c'; simpl. rewrite app_length; simpl. splits; try lia.
    - rewrite nth_app_last_n; simpl; lia.
    - intros k Hk Hw. destruct (Hslot k Hk) as (_&_&_&_&S5&_). exact S5.
    - intros k Hk Hw. apply P8; auto. }
  constructor; simpl; auto.
  - rewrite app_length; simpl; lia.
  - apply sorted_app_n; auto. simpl. lia.
  - rewrite lastabs_app_n; reflexivity.
  - apply Forall_app1.
    + apply (msgs_okn_grows c c' _ G Hmpi).
    + split; simpl; auto.
  - apply (msgs_okn_grows c c' _ G Hmci).
  - intros i Hi. rewrite app_length in Hi; simpl in Hi.
    destruct (Nat.eq_dec i (length (Mpi c))) as [->|Hne].
    + rewrite nth_app_last_n; simpl; lia.
    + rewrite Hnth by lia. apply Hwpi; lia.
  - destruct Hv1 as (A1&A2&A3&A4&A5&A6&A7&A8). unfold view_okn; simpl. splits; auto.
  - apply (view_okn_grows c c' _ G HvC).
  - unfold seenPn in *; simpl. lia.
  - unfold seenCn in *; simpl. destruct HvC as (C1&_). rewrite Hnth by auto. auto.
  - left; simpl; auto.
  - intros k Hk. destruct (Hslot k Hk) as (S1&S2&S3&S4&S5&S6).
    unfold mtn in *; simpl. splits; auto; try lia.
Qed.

(* ================= consumer ================= *)
Lemma stepC_fast c j n0 : InvN c -> pc (C c) = 0 -> Nat.max 1 n0 <= ca (C c) -> InvN (stepC_n len j n0 c).
Proof.
  intros I Hpc0 Hca. inv_fields I.
  destruct HpcC as [[_ Hoff]|[(X&_)|(X&_)]]; try congruence.
  unfold stepC_n, stepC_a. rewrite Hpc0. cbv zeta.
  set (n := Nat.max 1 n0) in *. assert (Hn : 1 <= n) by (unfold n; lia). clearbody n.
  destruct (n <=? ca (C c)) eqn:E; [|apply Nat.leb_gt in E; lia].
  constructor; simpl; auto.
  - right; left; simpl. splits; auto; lia.
  - intros k Hk. destruct (Hslot k Hk) as (S1&S2&S3&S4&S5&S6).
    unfold mtn in *; simpl. splits; auto; lia.
Qed.

Lemma stepC_load c j n0 : InvN c -> pc (C c) = 0 -> ca (C c) < Nat.max 1 n0 -> InvN (stepC_n len j n0 c).
Proof.
  intros I Hpc0 Hca. inv_fields I.
  destruct HpcC as [[_ Hoff]|[(X&_)|(X&_)]]; try congruence.
  unfold stepC_n, stepC_a. rewrite Hpc0. cbv zeta.
  set (n := Nat.max 1 n0) in *. assert (Hn : 1 <= n) by (unfold n; lia). clearbody n.
  destruct (n <=? ca (C c)) eqn:E; [apply Nat.leb_le in E; lia|]. clear E.
  destruct HvC as (P1&P2&P3&P4&P5&P6&P7&P8).
  pose proof (pick_bounds_n (vpi (V (C c))) (length (Mpi c)) j P1) as [Hi1 Hi2].
  set (i := pick (vpi (V (C c))) (length (Mpi c)) j) in *.
  set (m := nth i (Mpi c) dmsg).
  pose proof (Forall_nth_msg _ _ i Hmpi Hi2) as [Hmv Hmok]. fold m in Hmv, Hmok.
  pose proof (Hwpi i Hi2) as Hmw. fold m in Hmw.
  destruct Hmok as (Q1&Q2&Q3&Q4&Q5&Q6&Q7&Q8).
  assert (Hseen : seenCn c <= mabs m) by (unfold seenCn, m; apply Hspi; lia).
  assert (Hm : mabs m = mabs (nth i (Mpi c) dmsg)) by reflexivity.
  clearbody m. clearbody i.
  assert (HmP : mabs m <= pos (P c)) by (rewrite <- Hlpi, Hm; apply sorted_last_n; auto).
  assert (Ha : dist len (ix (C c)) (mval m) = mabs m - pos (C c)).
  { rewrite HixC, Hmv. apply dist_mod; lia. }
  set (v1 := vjoin _ (mview m)).
  assert (Hv1 : view_okn c v1).
  { unfold view_okn, v1, vjoin; simpl. splits; try lia.
    - destruct (Nat.max_spec i (vpi (mview m))) as [[_ ->]|[_ ->]]; lia.
    - destruct (Nat.max_spec (vci (V (C c))) (vci (mview m))) as [[_ ->]|[_ ->]]; lia.
    - intros k Hk Hw.
      destruct (Nat.max_spec (wP (V (C c))) (wP (mview m))) as [[_ E]|[_ E]]; rewrite E in Hw.
      + specialize (Q7 k Hk Hw); lia.
      + specialize (P7 k Hk Hw); lia.
    - intros k Hk Hw.
      destruct (Nat.max_spec (wC (V (C c))) (wC (mview m))) as [[_ E]|[_ E]]; rewrite E in Hw.
      + specialize (Q8 k Hk Hw); lia.
      + specialize (P8 k Hk Hw); lia. }
  constructor; simpl; auto.
  - unfold seenCn; simpl. rewrite Ha.
    assert (mabs m <= mabs (nth (Nat.max i (vpi (mview m))) (Mpi c) dmsg)) by (rewrite Hm; apply Hspi; lia).
    lia.
  - unfold pc_ok; simpl.
    destruct (n <=? dist len (ix (C c)) (mval m)) eqn:E;
      [apply Nat.leb_le in E; right; left; splits; auto; lia | left; auto].
  - intros k Hk. destruct (Hslot k Hk) as (S1&S2&S3&S4&S5&S6).
    unfold mtn in *; simpl. splits; auto; try lia.
Qed.

(* ---------- C, pc = 2: the non-atomic read of slot (pos + off) mod len of the granted window ---------- *)
Lemma stepC_read c j n0 : InvN c -> pc (C c) = 2 -> InvN (stepC_n len j n0 c).
Proof.
  intros I Hpc2. inv_fields I.
  destruct HpcC as [[X _]|[(_&Hoff&Hcnt)|(X&_)]]; try congruence.
  unfold stepC_n, stepC_a. rewrite Hpc2. cbv zeta.
  destruct HvC as (P1&P2&P3&P4&P5&P6&P7&P8).
  assert (Hk0 : wadd len (ix (C c)) (off (C c)) = (pos (C c) + off (C c)) mod len)
    by (rewrite HixC; apply wadd_mod; lia).
  set (k0 := wadd len (ix (C c)) (off (C c))) in *.
  set (q := pos (C c) + off (C c)) in *.
  assert (Hk : k0 < len) by (rewrite Hk0; apply Nat.mod_upper_bound; lia).
  destruct (Hslot _ Hk) as (S1&S2&S3&S4&S5&S6).
  fold (mtn c k0).
  (* the producer's last write of this slot is not above the position being read ... *)
  assert (Hw : wpos (mtn c k0) <= q).
  { apply (congr_le len); [exact Hlen | rewrite S1, Hk0; reflexivity | lia]. }
  (* ... hence below the watermark the consumer acquired *)
  assert (Hcov : wclk (mtn c k0) <= kp (V (C c))).
  { apply P7; auto. unfold seenCn in HcaC. lia. }
  assert (Hb : negb (wclk (mtn c k0) <=? kp (V (C c))) = false)
    by (apply negb_false_iff, Nat.leb_le; auto).
  rewrite Hb, orb_false_r.
  set (c' := mkCn _ _ _ _ _ _).
  assert (Hmt : forall k, k < len -> k <> k0 -> mtn c' k = mtn c k)
    by (intros; unfold mtn, c'; simpl; apply nth_upd_neq; auto).
  assert (Hmt0 : mtn c' k0 = mkMeta (wpos (mtn c k0)) (wclk (mtn c k0)) q (kc (V (C c))))
    by (unfold mtn, c'; simpl; apply nth_upd_eq; lia).
  assert (G : growsn c c').
  { unfold growsn; splits; simpl; try (exists []; rewrite app_nil_r; reflexivity); try lia.
    intros k Hk'. destruct (Nat.eq_dec k k0) as [->|Hne].
    - right; right. rewrite Hmt0; simpl; splits; auto; lia.
    - left; auto. }
  constructor; simpl; auto.
  - rewrite upd_length; auto.
  - apply (msgs_okn_grows c c' _ G Hmpi).
  - apply (msgs_okn_grows c c' _ G Hmci).
  - apply (view_okn_grows c c' _ G HvP).
  - apply (view_okn_grows c c' _ G). unfold view_okn; splits; auto.
  - unfold pc_ok; simpl.
    destruct (cnt (C c) <=? off (C c) + 1) eqn:E; [apply Nat.leb_le in E | apply Nat.leb_gt in E].
    + right; right; splits; auto; lia.
    + right; left; splits; auto; lia.
  - intros k Hk'. destruct (Nat.eq_dec k k0) as [->|Hne].
    + rewrite Hmt0; simpl. splits; auto; try lia.
    + rewrite (Hmt k Hk' Hne). destruct (Hslot k Hk') as (T1&T2&T3&T4&T5&T6).
      splits; auto; lia.
Qed.

Lemma stepC_store c j n0 : InvN c -> pc (C c) = 3 -> InvN (stepC_n len j n0 c).
Proof.
  intros I Hpc3. inv_fields I.
  destruct HpcC as [[X _]|[(X&_)|(_&Hoff&Hcnt)]]; try congruence.
  unfold stepC_n, stepC_a. rewrite Hpc3. cbv zeta.
  destruct HvC as (P1&P2&P3&P4&P5&P6&P7&P8).
  assert (Hix' : wadd len (ix (C c)) (cnt (C c)) = (pos (C c) + cnt (C c)) mod len)
    by (rewrite HixC; apply wadd_mod; lia).
  set (p' := pos (C c) + cnt (C c)) in *.
  set (v1 := mkV _ (length (Mci c)) _ _ _ p').
  set (m := mkM _ _ v1).
  set (c' := mkCn _ _ _ _ _ _).
  assert (G : growsn c c').
  { unfold growsn; splits; simpl; try lia.
    - exists []; rewrite app_nil_r; reflexivity.
    - exists [m]; reflexivity.
    - intros; left; reflexivity. }
  assert (Hnth : forall i, i < length (Mci c) -> nth i (Mci c ++ [m]) dmsg = nth i (Mci c) dmsg)
    by (intros; apply nth_app_l; auto).
  assert (Hv1 : view_okn c' v1).
  { unfold view_okn, v1, c'; simpl. rewrite app_length; simpl. splits; try lia.
    - rewrite nth_app_last_n; simpl; lia.
    - intros k Hk Hw. apply P7; auto.
    - intros k Hk Hw. destruct (Hslot k Hk) as (_&_&_&_&_&S6). exact S6. }
  constructor; simpl; auto.
  - rewrite app_length; simpl; lia.
  - apply sorted_app_n; auto. simpl. lia.
  - rewrite lastabs_app_n; reflexivity.
  - apply (msgs_okn_grows c c' _ G Hmpi).
  - apply Forall_app1.
    + apply (msgs_okn_grows c c' _ G Hmci).
    + split; simpl; auto.
  - intros i Hi. rewrite app_length in Hi; simpl in Hi.
    destruct (Nat.eq_dec i (length (Mci c))) as [->|Hne].
    + rewrite nth_app_last_n; simpl; lia.
    + rewrite Hnth by lia. apply Hwci; lia.
  - apply (view_okn_grows c c' _ G HvP).
  - destruct Hv1 as (A1&A2&A3&A4&A5&A6&A7&A8). unfold view_okn; simpl. splits; auto.
  - unfold seenPn in *; simpl. destruct (i_vP c I) as (_&C2&_). rewrite Hnth by auto. lia.
  - unfold seenCn in *; simpl. lia.
  - left; simpl; auto.
  - intros k Hk. destruct (Hslot k Hk) as (S1&S2&S3&S4&S5&S6).
    unfold mtn in *; simpl. splits; auto; try lia.
Qed.

Lemma step_invn c s : InvN c -> InvN (step_n len c s).
Proof.
  intros I. destruct s as [[[|] j] n0]; unfold step_n, step_a.
  - change (InvN (stepP_n len j n0 c)).
    destruct (i_pcP c I) as [[H0 _]|[[H2 _]|[H3 _]]].
    + destruct (Nat.max 1 n0 <=? ca (P c)) eqn:E; [apply Nat.leb_le in E | apply Nat.leb_gt in E].
      * apply stepP_fast; auto.
      * apply stepP_load; auto.
    + apply stepP_write; auto.
    + apply stepP_store; auto.
  - change (InvN (stepC_n len j n0 c)).
    destruct (i_pcC c I) as [[H0 _]|[[H2 _]|[H3 _]]].
    + destruct (Nat.max 1 n0 <=? ca (C c)) eqn:E; [apply Nat.leb_le in E | apply Nat.leb_gt in E].
      * apply stepC_fast; auto.
      * apply stepC_load; auto.
    + apply stepC_read; auto.
    + apply stepC_store; auto.
Qed.

Lemma init_invn : InvN (init_n len).
Proof.
  assert (Hv : forall kp0 kc0, view_okn (init_n len) (mkV 0 0 kp0 kc0 len len)).
  { intros. unfold view_okn, init_n, mtn; simpl. splits; try lia.
    - intros k Hk Hw. rewrite nth_init_meta by auto. simpl. lia.
    - intros k Hk Hw. rewrite nth_init_meta by auto. simpl. lia. }
  constructor; simpl; auto.
  - rewrite map_length, seq_length; reflexivity.
  - intros i j Hij Hj. simpl in Hj. assert (i = 0) by lia. assert (j = 0) by lia. subst. lia.
  - intros i j Hij Hj. simpl in Hj. assert (i = 0) by lia. assert (j = 0) by lia. subst. lia.
  - constructor; [|constructor]. split; simpl; [symmetry; apply Nat.mod_same; lia | apply Hv].
  - constructor; [|constructor]. split; simpl; [symmetry; apply Nat.mod_same; lia | apply Hv].
  - intros i Hi. assert (i = 0) by lia. subst; simpl; lia.
  - intros i Hi. assert (i = 0) by lia. subst; simpl; lia.
  - apply Hv.
  - apply Hv.
  - symmetry; apply Nat.mod_same; lia.
  - symmetry; apply Nat.mod_same; lia.
  - unfold seenPn; simpl. lia.
  - left; simpl; auto.
  - left; simpl; auto.
  - intros k Hk. unfold mtn; simpl. rewrite nth_init_meta by auto. simpl.
    splits; try lia; apply Nat.mod_small; auto.
Qed.

Theorem exec_invn script : InvN (exec_n len (init_n len) script).
Proof.
  unfold exec_n, exec_a. change (step_a true true len) with (step_n len).
  generalize init_invn. generalize (init_n len).
  induction script as [|s script IH]; intros c I; simpl; auto.
  apply IH. apply step_invn; auto.
Qed.
End InvN.

(* Every release/acquire-consistent execution of the multi-slot machine
   (any interleaving, any stale read, any sequence of requested window sizes) is race free. *)
Theorem spsc_n_race_free : forall len script, 0 < len -> race (exec_n len (init_n len) script) = false.
Proof. intros len script Hl. apply (i_race len _ (exec_invn len Hl script)). Qed.
Print Assumptions spsc_n_race_free.
