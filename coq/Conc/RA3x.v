(** * The multi-slot THREE-stage release/acquire view machine of RA3n.v, extended - for the WORKER and for the
      CONSUMER - with what RAx.v added to the two-stage machine:
      - [reset_index]   (the thread jumps to the published index of the thread it follows), and
      - DETACHED operation ([Detached]: local advance without publishing, [sync_index], [attach]).

    Everything of RA3n.v is kept: three threads, producer P -> worker W -> consumer C; P writes slots, W edits
    slots in place (read-modify-write: a write carrying the worker's clock), C reads slots; C follows W's index,
    W follows P's, P follows C's; append-only message lists for the three index locations (value, absolute
    position, view); stale reads (a load may read any message at or after the loading thread's view and - when
    it is an acquire load - joins the view of the message read); release stores (the appended message carries
    the storing thread's view); multi-slot windows ([cnt3], [off3]); the vector-clock race detector on every
    slot access ([metas3], [race3]: last write epoch with writer id, consumer read clock).

    ** Script entries
    A script entry is [(thread, command)], thread in {TP, TW, TC}, with

      Inductive cmd := Op (j n : nat) | Reset (j : nat) | Detach | Attach | Sync.

    - [Op j n]   : one step of a push (P) / edit (W) / pop (C) operation exactly as in RA3n.v: read choice [j],
                   requested count [n] (looked at only at pc 0, when an operation starts).  If the thread is in
                   the middle of ANY operation (pc <> 0, including a reset at pc 5) [Op] performs the next step
                   of that operation (j and n are then irrelevant: only steps at pc 0 load anything).
    - [Reset j], [Detach], [Attach], [Sync] are accepted by the WORKER and by the CONSUMER, only at pc 0
                   (between two operations).  Everywhere else - for the producer, or at pc <> 0 - they are
                   no-ops (the configuration is returned unchanged).

    ** Steps of the worker / the consumer (new ones marked +; "followed index" = P's for W, W's for C)
      pc 0, Op      check / load the followed index / grant                 (RA3n.v)
      pc 2, Op      access one slot of the window (W: edit, C: read)        (RA3n.v)
      pc 3, Op      ix := ix (+) cnt, pos := pos + cnt, ca := ca - cnt, pc := 0, and
                      attached : append the message (release store, watermark = the new pos)   (RA3n.v)
                  +   detached : nothing else - NO message is appended, the clock is not advanced
                                 ([Detached::advance] = [advance_local])
    + pc 0, Reset j "pc 4", the LOAD of [reset_index]: read any admissible message m of the followed index
                    (choice j, acquire: join its view), remember it: nix := mval m, npos := mabs m; pc := 5.
                    (The load is executed by the script entry that starts the reset, so a thread never RESTS at
                    pc 4; the resting pcs are 0, 2, 3, 5.)
    + pc 5, Op      the STORE of [reset_index]: ix := nix, pos := npos, ca := 0, pc := 0, and
                      attached : append the message (release store, watermark = the new pos)
                      detached : no message ([Detached::reset_index] only sets the local index)
    + pc 0, Detach  det := true
    + pc 0, Sync    append a message for the CURRENT local index (release store with the thread's view,
                    watermark = pos); ix, pos, ca unchanged.  ([Detached::sync_index]; also accepted while
                    attached, where it republishes the already published position - harmless.)
    + pc 0, Attach  Sync, and det := false.

    A worker reset SKIPS the items between its old and its new position: they reach the consumer unedited
    (the crate's documented behaviour).  The detector does not care whether an item was edited: it checks that
    every slot access is ordered after the previous conflicting accesses of the same slot.

    While the worker is detached the consumer keeps seeing the last PUBLISHED worker index; while the consumer
    is detached the producer keeps seeing the last published consumer index.

    The thread record gets the fields [det3] (detached?), [nix3], [npos3] (index / absolute position loaded by a
    reset in progress).  The producer never changes them.  (go_back / set_index of the crate are not modelled.)

    [acqP] / [acqW] / [acqC] say whether the index loads of the producer / worker / consumer (including the
    load of a reset) join the view of the message read; [exec3_x] is the machine with all three set. *)
From Coq Require Import List Arith Lia Bool.
Import ListNotations.
Require Import MRB.Conc.RA.    (* wadd dist pavail pick upd *)
Require Import MRB.Conc.RA3.   (* tid view3 vjoin3 msg3 meta3 dmsg3 dmeta3 wcov vinit *)

Inductive cmd := Op (j n : nat) | Reset (j : nat) | Detach | Attach | Sync.

(* New records (RA3.v's / RA3n.v's lack the new fields); same field names, they shadow RA3's. *)
Record thr3x := mkT3x { ix3 : nat; ca3 : nat; V3 : view3; pc3 : nat; pos3 : nat; cnt3 : nat; off3 : nat;
                        det3 : bool; nix3 : nat; npos3 : nat }.
Record cfg3x := mkC3x { Mpi3 : list msg3; Mwi3 : list msg3; Mci3 : list msg3; metas3 : list meta3;
                        P3 : thr3x; W3 : thr3x; C3 : thr3x; race3 : bool }.

Definition vzero3 := mkV3 0 0 0 0 0 0 0 0 0.

(* The absolute position a thread has PUBLISHED: that of the last message of its index. *)
Definition publishedP3 (c : cfg3x) : nat := mabs3 (last (Mpi3 c) dmsg3).
Definition publishedW3 (c : cfg3x) : nat := mabs3 (last (Mwi3 c) dmsg3).
Definition publishedC3 (c : cfg3x) : nat := mabs3 (last (Mci3 c) dmsg3).

(* ---- thread-record updates shared by the three threads ---- *)
(* pc 0, grant a window of n slots from the remembered availability *)
Definition t_grant (t : thr3x) (n : nat) : thr3x :=
  mkT3x (ix3 t) (ca3 t) (V3 t) 2 (pos3 t) n 0 (det3 t) (nix3 t) (npos3 t).
(* pc 0, after a load: availability a, view v; grant n if possible *)
Definition t_load (t : thr3x) (a : nat) (v : view3) (n : nat) : thr3x :=
  mkT3x (ix3 t) a v (if n <=? a then 2 else 0) (pos3 t) n 0 (det3 t) (nix3 t) (npos3 t).
(* pc 2, one slot of the window done *)
Definition t_slot (t : thr3x) : thr3x :=
  mkT3x (ix3 t) (ca3 t) (V3 t) (if cnt3 t <=? off3 t + 1 then 3 else 2) (pos3 t) (cnt3 t) (off3 t + 1)
        (det3 t) (nix3 t) (npos3 t).
(* end of an operation: new index, position, availability, view, mode *)
Definition t_end (t : thr3x) (ix' p' ca' : nat) (v : view3) (d : bool) : thr3x :=
  mkT3x ix' ca' v 0 p' (cnt3 t) 0 d (nix3 t) (npos3 t).
(* "pc 4": the load of a reset has read message m *)
Definition t_reset (t : thr3x) (v : view3) (m : msg3) : thr3x :=
  mkT3x (ix3 t) (ca3 t) v 5 (pos3 t) (cnt3 t) (off3 t) (det3 t) (mval3 m) (mabs3 m).
Definition t_detach (t : thr3x) : thr3x :=
  mkT3x (ix3 t) (ca3 t) (V3 t) (pc3 t) (pos3 t) (cnt3 t) (off3 t) true (nix3 t) (npos3 t).

Section M3x.
Variables (acqP acqW acqC : bool).
Variable len : nat.

(* ---------------- producer: exactly RA3n.v (the new fields are carried along) ---------------- *)
Definition opP3_a (j n0 : nat) (c : cfg3x) : cfg3x :=
  let t := P3 c in
  match pc3 t with
  | 0 =>
    let n := Nat.max 1 n0 in
    if n <=? ca3 t then
      mkC3x (Mpi3 c) (Mwi3 c) (Mci3 c) (metas3 c) (t_grant t n) (W3 c) (C3 c) (race3 c)
    else
      let i := pick (vci3 (V3 t)) (length (Mci3 c)) j in
      let m := nth i (Mci3 c) dmsg3 in
      let v0 := V3 t in
      let v1 := vjoin3 (mkV3 (vpi3 v0) (vwi3 v0) i (kp3 v0) (kw3 v0) (kc3 v0) (wP3 v0) (wW3 v0) (wC3 v0))
                       (if acqP then mview3 m else vzero3) in
      let a := pavail len (ix3 t) (mval3 m) in
      mkC3x (Mpi3 c) (Mwi3 c) (Mci3 c) (metas3 c) (t_load t a v1 n) (W3 c) (C3 c) (race3 c)
  | 2 =>
    let k := wadd len (ix3 t) (off3 t) in
    let mt := nth k (metas3 c) dmeta3 in
    let bad := negb (wcov TP mt (V3 t)) || negb (rclk3 mt <=? kc3 (V3 t)) in
    mkC3x (Mpi3 c) (Mwi3 c) (Mci3 c)
          (upd k (mkMeta3 TP (pos3 t + off3 t) (kp3 (V3 t)) (rpos3 mt) (rclk3 mt)) (metas3 c))
          (t_slot t) (W3 c) (C3 c) (race3 c || bad)
  | 3 =>
    let ix' := wadd len (ix3 t) (cnt3 t) in
    let p' := pos3 t + cnt3 t in
    let v0 := V3 t in
    let v1 := mkV3 (length (Mpi3 c)) (vwi3 v0) (vci3 v0) (kp3 v0) (kw3 v0) (kc3 v0) p' (wW3 v0) (wC3 v0) in
    let m := mkM3 ix' p' v1 in
    mkC3x (Mpi3 c ++ [m]) (Mwi3 c) (Mci3 c) (metas3 c)
          (t_end t ix' p' (ca3 t - cnt3 t)
                 (mkV3 (vpi3 v1) (vwi3 v1) (vci3 v1) (S (kp3 v1)) (kw3 v1) (kc3 v1) (wP3 v1) (wW3 v1) (wC3 v1))
                 (det3 t))
          (W3 c) (C3 c) (race3 c)
  | _ => c
  end.

(* ---------------- worker ---------------- *)

(* End of an operation WITH a release store: the local index becomes (ix', p'), the remembered availability
   ca', the mode d; a message (ix', p', view with watermark p') is appended; the clock is advanced; pc := 0. *)
Definition publishW (c : cfg3x) (ix' p' ca' : nat) (d : bool) : cfg3x :=
  let t := W3 c in
  let v0 := V3 t in
  let v1 := mkV3 (vpi3 v0) (length (Mwi3 c)) (vci3 v0) (kp3 v0) (kw3 v0) (kc3 v0) (wP3 v0) p' (wC3 v0) in
  let m := mkM3 ix' p' v1 in
  mkC3x (Mpi3 c) (Mwi3 c ++ [m]) (Mci3 c) (metas3 c) (P3 c)
        (t_end t ix' p' ca'
               (mkV3 (vpi3 v1) (vwi3 v1) (vci3 v1) (kp3 v1) (S (kw3 v1)) (kc3 v1) (wP3 v1) (wW3 v1) (wC3 v1)) d)
        (C3 c) (race3 c).

(* End of an operation WITHOUT a store (detached): only the thread-local fields change. *)
Definition localW (c : cfg3x) (ix' p' ca' : nat) : cfg3x :=
  let t := W3 c in
  mkC3x (Mpi3 c) (Mwi3 c) (Mci3 c) (metas3 c) (P3 c) (t_end t ix' p' ca' (V3 t) (det3 t)) (C3 c) (race3 c).

Definition finishW (c : cfg3x) (ix' p' ca' : nat) : cfg3x :=
  if det3 (W3 c) then localW c ix' p' ca' else publishW c ix' p' ca' false.

Definition opW3_a (j n0 : nat) (c : cfg3x) : cfg3x :=
  let t := W3 c in
  match pc3 t with
  | 0 =>
    let n := Nat.max 1 n0 in
    if n <=? ca3 t then
      mkC3x (Mpi3 c) (Mwi3 c) (Mci3 c) (metas3 c) (P3 c) (t_grant t n) (C3 c) (race3 c)
    else
      let i := pick (vpi3 (V3 t)) (length (Mpi3 c)) j in
      let m := nth i (Mpi3 c) dmsg3 in
      let v0 := V3 t in
      let v1 := vjoin3 (mkV3 i (vwi3 v0) (vci3 v0) (kp3 v0) (kw3 v0) (kc3 v0) (wP3 v0) (wW3 v0) (wC3 v0))
                       (if acqW then mview3 m else vzero3) in
      let a := dist len (ix3 t) (mval3 m) in
      mkC3x (Mpi3 c) (Mwi3 c) (Mci3 c) (metas3 c) (P3 c) (t_load t a v1 n) (C3 c) (race3 c)
  | 2 =>
    let k := wadd len (ix3 t) (off3 t) in
    let mt := nth k (metas3 c) dmeta3 in
    let bad := negb (wcov TW mt (V3 t)) || negb (rclk3 mt <=? kc3 (V3 t)) in
    mkC3x (Mpi3 c) (Mwi3 c) (Mci3 c)
          (upd k (mkMeta3 TW (pos3 t + off3 t) (kw3 (V3 t)) (rpos3 mt) (rclk3 mt)) (metas3 c))
          (P3 c) (t_slot t) (C3 c) (race3 c || bad)
  | 3 => finishW c (wadd len (ix3 t) (cnt3 t)) (pos3 t + cnt3 t) (ca3 t - cnt3 t)
  | 5 => finishW c (nix3 t) (npos3 t) 0
  | _ => c
  end.

(* "pc 4": the load of the worker's reset_index (the producer's index). *)
Definition resetW_a (j : nat) (c : cfg3x) : cfg3x :=
  let t := W3 c in
  let i := pick (vpi3 (V3 t)) (length (Mpi3 c)) j in
  let m := nth i (Mpi3 c) dmsg3 in
  let v0 := V3 t in
  let v1 := vjoin3 (mkV3 i (vwi3 v0) (vci3 v0) (kp3 v0) (kw3 v0) (kc3 v0) (wP3 v0) (wW3 v0) (wC3 v0))
                   (if acqW then mview3 m else vzero3) in
  mkC3x (Mpi3 c) (Mwi3 c) (Mci3 c) (metas3 c) (P3 c) (t_reset t v1 m) (C3 c) (race3 c).

Definition detachW (c : cfg3x) : cfg3x :=
  mkC3x (Mpi3 c) (Mwi3 c) (Mci3 c) (metas3 c) (P3 c) (t_detach (W3 c)) (C3 c) (race3 c).

(* ---------------- consumer ---------------- *)
Definition publishC (c : cfg3x) (ix' p' ca' : nat) (d : bool) : cfg3x :=
  let t := C3 c in
  let v0 := V3 t in
  let v1 := mkV3 (vpi3 v0) (vwi3 v0) (length (Mci3 c)) (kp3 v0) (kw3 v0) (kc3 v0) (wP3 v0) (wW3 v0) p' in
  let m := mkM3 ix' p' v1 in
  mkC3x (Mpi3 c) (Mwi3 c) (Mci3 c ++ [m]) (metas3 c) (P3 c) (W3 c)
        (t_end t ix' p' ca'
               (mkV3 (vpi3 v1) (vwi3 v1) (vci3 v1) (kp3 v1) (kw3 v1) (S (kc3 v1)) (wP3 v1) (wW3 v1) (wC3 v1)) d)
        (race3 c).

Definition localC (c : cfg3x) (ix' p' ca' : nat) : cfg3x :=
  let t := C3 c in
  mkC3x (Mpi3 c) (Mwi3 c) (Mci3 c) (metas3 c) (P3 c) (W3 c) (t_end t ix' p' ca' (V3 t) (det3 t)) (race3 c).

Definition finishC (c : cfg3x) (ix' p' ca' : nat) : cfg3x :=
  if det3 (C3 c) then localC c ix' p' ca' else publishC c ix' p' ca' false.

Definition opC3_a (j n0 : nat) (c : cfg3x) : cfg3x :=
  let t := C3 c in
  match pc3 t with
  | 0 =>
    let n := Nat.max 1 n0 in
    if n <=? ca3 t then
      mkC3x (Mpi3 c) (Mwi3 c) (Mci3 c) (metas3 c) (P3 c) (W3 c) (t_grant t n) (race3 c)
    else
      let i := pick (vwi3 (V3 t)) (length (Mwi3 c)) j in
      let m := nth i (Mwi3 c) dmsg3 in
      let v0 := V3 t in
      let v1 := vjoin3 (mkV3 (vpi3 v0) i (vci3 v0) (kp3 v0) (kw3 v0) (kc3 v0) (wP3 v0) (wW3 v0) (wC3 v0))
                       (if acqC then mview3 m else vzero3) in
      let a := dist len (ix3 t) (mval3 m) in
      mkC3x (Mpi3 c) (Mwi3 c) (Mci3 c) (metas3 c) (P3 c) (W3 c) (t_load t a v1 n) (race3 c)
  | 2 =>
    let k := wadd len (ix3 t) (off3 t) in
    let mt := nth k (metas3 c) dmeta3 in
    let bad := negb (wcov TC mt (V3 t)) in
    mkC3x (Mpi3 c) (Mwi3 c) (Mci3 c)
          (upd k (mkMeta3 (wt mt) (wpos3 mt) (wclk3 mt) (pos3 t + off3 t) (kc3 (V3 t))) (metas3 c))
          (P3 c) (W3 c) (t_slot t) (race3 c || bad)
  | 3 => finishC c (wadd len (ix3 t) (cnt3 t)) (pos3 t + cnt3 t) (ca3 t - cnt3 t)
  | 5 => finishC c (nix3 t) (npos3 t) 0
  | _ => c
  end.

(* "pc 4": the load of the consumer's reset_index (the worker's index). *)
Definition resetC_a (j : nat) (c : cfg3x) : cfg3x :=
  let t := C3 c in
  let i := pick (vwi3 (V3 t)) (length (Mwi3 c)) j in
  let m := nth i (Mwi3 c) dmsg3 in
  let v0 := V3 t in
  let v1 := vjoin3 (mkV3 (vpi3 v0) i (vci3 v0) (kp3 v0) (kw3 v0) (kc3 v0) (wP3 v0) (wW3 v0) (wC3 v0))
                   (if acqC then mview3 m else vzero3) in
  mkC3x (Mpi3 c) (Mwi3 c) (Mci3 c) (metas3 c) (P3 c) (W3 c) (t_reset t v1 m) (race3 c).

Definition detachC (c : cfg3x) : cfg3x :=
  mkC3x (Mpi3 c) (Mwi3 c) (Mci3 c) (metas3 c) (P3 c) (W3 c) (t_detach (C3 c)) (race3 c).

(* ---------------- commands ---------------- *)
Definition stepP3_a (k : cmd) (c : cfg3x) : cfg3x :=
  match k with
  | Op j n => opP3_a j n c
  | _ => c
  end.

Definition stepW3_a (k : cmd) (c : cfg3x) : cfg3x :=
  let t := W3 c in
  match k with
  | Op j n => opW3_a j n c
  | Reset j => match pc3 t with 0 => resetW_a j c | _ => c end
  | Detach  => match pc3 t with 0 => detachW c | _ => c end
  | Attach  => match pc3 t with 0 => publishW c (ix3 t) (pos3 t) (ca3 t) false | _ => c end
  | Sync    => match pc3 t with 0 => publishW c (ix3 t) (pos3 t) (ca3 t) (det3 t) | _ => c end
  end.

Definition stepC3_a (k : cmd) (c : cfg3x) : cfg3x :=
  let t := C3 c in
  match k with
  | Op j n => opC3_a j n c
  | Reset j => match pc3 t with 0 => resetC_a j c | _ => c end
  | Detach  => match pc3 t with 0 => detachC c | _ => c end
  | Attach  => match pc3 t with 0 => publishC c (ix3 t) (pos3 t) (ca3 t) false | _ => c end
  | Sync    => match pc3 t with 0 => publishC c (ix3 t) (pos3 t) (ca3 t) (det3 t) | _ => c end
  end.

(* script entry: (thread, command) *)
Definition step3_a (c : cfg3x) (s : tid * cmd) : cfg3x :=
  match fst s with
  | TP => stepP3_a (snd s) c
  | TW => stepW3_a (snd s) c
  | TC => stepC3_a (snd s) c
  end.
Definition exec3_a (c : cfg3x) (script : list (tid * cmd)) : cfg3x := fold_left step3_a script c.

(* As in RA3.v / RA3n.v all three threads start at absolute position [len]; slot k was last "written" by nobody
   that matters (writer id TC: always covered) and read at position k with clock 0.  All threads start
   attached. *)
Definition init3_x : cfg3x :=
  mkC3x [mkM3 0 len (vinit len 0 0 0)] [mkM3 0 len (vinit len 0 0 0)] [mkM3 0 len (vinit len 0 0 0)]
        (map (fun k => mkMeta3 TC k 0 k 0) (seq 0 len))
        (mkT3x 0 0 (vinit len 1 0 0) 0 len 0 0 false 0 0) (mkT3x 0 0 (vinit len 0 1 0) 0 len 0 0 false 0 0)
        (mkT3x 0 0 (vinit len 0 0 1) 0 len 0 0 false 0 0) false.

End M3x.

(* The release/acquire machine: all index loads acquire. *)
Definition stepP3_x := stepP3_a true.
Definition stepW3_x := stepW3_a true.
Definition stepC3_x := stepC3_a true.
Definition step3_x := step3_a true true true.
Definition exec3_x := exec3_a true true true.

(* ------------------------------------------------------------------------------------------------ *)
(* Examples, len = 4 (capacity 3).  Read choice 99 = always the latest message.                       *)
Definition sP (n : nat) : tid * cmd := (TP, Op 99 n).
Definition sW (n : nat) : tid * cmd := (TW, Op 99 n).
Definition sC (n : nat) : tid * cmd := (TC, Op 99 n).
Definition kW (k : cmd) : tid * cmd := (TW, k).
Definition kC (k : cmd) : tid * cmd := (TC, k).

(* (race, P: (ix, pos, ca, pc), W: (ix, pos, ca, pc, det), C: (ix, pos, ca, pc, det),
    (position published by W, position published by C)) *)
Definition summary3 (c : cfg3x) :=
  (race3 c, (ix3 (P3 c), pos3 (P3 c), ca3 (P3 c), pc3 (P3 c)),
            (ix3 (W3 c), pos3 (W3 c), ca3 (W3 c), pc3 (W3 c), det3 (W3 c)),
            (ix3 (C3 c), pos3 (C3 c), ca3 (C3 c), pc3 (C3 c), det3 (C3 c)),
            (publishedW3 c, publishedC3 c)).

(* With [Op] commands only the machine is RA3n.v's: the demo script of RA3n.v gives the same result. *)
Definition demo3 : list (tid * cmd) :=
  [ sP 3; sP 3; sP 3; sP 3; sP 3;
    sW 2; sW 2; sW 2; sW 2;
    sC 2; sC 2; sC 2; sC 2;
    sP 2; sW 1; sP 2; sW 1; sP 2; sW 1; sP 2;
    sW 2; sW 2; sW 2; sW 2;
    sC 3; sC 3; sC 3; sC 3; sC 3 ].
Example demo3_race_free :
  summary3 (exec3_x 4 (init3_x 4) demo3)
  = (false, (1, 9, 0, 0), (1, 9, 0, 0, false), (1, 9, 0, 0, false), (9, 9)).
Proof. vm_compute. reflexivity. Qed.

(* ---- detached WORKER ----
   P fills the ring (positions 4,5,6).  W detaches and edits two windows (1 item, then 2 items): its local index
   moves to 7, nothing is published.  C wants to pop: it still sees W at 4 - blocked.  W syncs (publishes 7).
   C pops the 3 items.  P refills (positions 7,8,9), W edits 1 item locally (-> 8), attaches (publishes 8),
   edits 2 more (attached: published at once, -> 10), C pops 3. *)
Definition demo_wdet : list (tid * cmd) :=
  [ sP 3; sP 3; sP 3; sP 3; sP 3;          (* P: load+grant 3, write slots 0,1,2, publish       -> pos 7 *)
    kW Detach;
    sW 1; sW 1; sW 1;                      (* W: load+grant 1, edit slot 0, LOCAL advance       -> pos 5 *)
    sW 2; sW 2; sW 2; sW 2;                (* W: grant 2 from ca, edit slots 1,2, LOCAL advance -> pos 7 *)
    sC 1;                                  (* C: load: W still at 4, nothing to pop, no grant            *)
    kW Sync;                               (* W: publish 7                                               *)
    sC 3; sC 3; sC 3; sC 3; sC 3;          (* C: load+grant 3, read slots 0,1,2, publish        -> pos 7 *)
    sP 3; sP 3; sP 3; sP 3; sP 3;          (* P: load+grant 3, write slots 3,0,1, publish       -> pos 10 *)
    sW 1; sW 1; sW 1;                      (* W: load+grant 1, edit slot 3, local advance       -> pos 8 *)
    kW Attach;                             (* W: publish 8, attached again                               *)
    sW 2; sW 2; sW 2; sW 2;                (* W: grant 2 from ca, edit slots 0,1, publish       -> pos 10 *)
    sC 3; sC 3; sC 3; sC 3; sC 3 ].        (* C: load+grant 3, read slots 3,0,1, publish        -> pos 10 *)

Example demo_wdet_blocked :   (* before the sync: W is at 7 locally, 4 is published, C got nothing *)
  summary3 (exec3_x 4 (init3_x 4) (firstn 14 demo_wdet))
  = (false, (3, 7, 0, 0), (3, 7, 0, 0, true), (0, 4, 0, 0, false), (4, 4)).
Proof. vm_compute. reflexivity. Qed.
Example demo_wdet_synced :    (* after the sync and C's pop *)
  summary3 (exec3_x 4 (init3_x 4) (firstn 20 demo_wdet))
  = (false, (3, 7, 0, 0), (3, 7, 0, 0, true), (3, 7, 0, 0, false), (7, 7)).
Proof. vm_compute. reflexivity. Qed.
Example demo_wdet_attach :    (* just after Attach: 8 published, W attached, 2 more items remembered *)
  summary3 (exec3_x 4 (init3_x 4) (firstn 29 demo_wdet))
  = (false, (2, 10, 0, 0), (0, 8, 2, 0, false), (3, 7, 0, 0, false), (8, 7)).
Proof. vm_compute. reflexivity. Qed.
Example demo_wdet_race_free :
  summary3 (exec3_x 4 (init3_x 4) demo_wdet)
  = (false, (2, 10, 0, 0), (2, 10, 0, 0, false), (2, 10, 0, 0, false), (10, 10)).
Proof. vm_compute. reflexivity. Qed.

(* The same script with a Relaxed load (no join) of the consumer / the worker / the producer races. *)
Example demo_wdet_consumer_relaxed_races : race3 (exec3_a true true false 4 (init3_x 4) demo_wdet) = true.
Proof. vm_compute. reflexivity. Qed.
Example demo_wdet_worker_relaxed_races : race3 (exec3_a true false true 4 (init3_x 4) demo_wdet) = true.
Proof. vm_compute. reflexivity. Qed.
Example demo_wdet_producer_relaxed_races : race3 (exec3_a false true true 4 (init3_x 4) demo_wdet) = true.
Proof. vm_compute. reflexivity. Qed.

(* Reset while detached: the worker's local index jumps, nothing is published (C stays blocked) until the sync. *)
Example demo_wdet_reset :
  summary3 (exec3_x 4 (init3_x 4) (firstn 6 demo_wdet ++ [kW (Reset 99); sW 0; sC 1]))
  = (false, (3, 7, 0, 0), (3, 7, 0, 0, true), (0, 4, 0, 0, false), (4, 4)).
Proof. vm_compute. reflexivity. Qed.
Example demo_wdet_reset_sync :   (* ... then Sync: C pops the three UNEDITED items *)
  summary3 (exec3_x 4 (init3_x 4)
              (firstn 6 demo_wdet ++ [kW (Reset 99); sW 0; sC 1; kW Sync; sC 3; sC 3; sC 3; sC 3; sC 3]))
  = (false, (3, 7, 0, 0), (3, 7, 0, 0, true), (3, 7, 0, 0, false), (7, 7)).
Proof. vm_compute. reflexivity. Qed.

(* ---- WORKER reset_index, the producer keeps pushing ----
   P pushes 3 (positions 4,5,6); W edits 1 (position 4); C pops it; P starts pushing 1 more (position 7) and,
   interleaved with P's write and store, W resets: it loads P's index (position 7 - the store of 8 has not
   happened yet) and publishes 7: the items at positions 5 and 6 are SKIPPED, never edited.
   C pops them (unedited: the last writer of their slots is P).  P pushes 2 more (positions 8, 9), W edits
   positions 7, 8, 9, C pops them. *)
Definition demo_wreset : list (tid * cmd) :=
  [ sP 3; sP 3; sP 3; sP 3; sP 3;          (* P: load+grant 3, write slots 0,1,2, publish       -> pos 7 *)
    sW 1; sW 1; sW 1;                      (* W: load+grant 1, edit slot 0, publish             -> pos 5 *)
    sC 1; sC 1; sC 1;                      (* C: load+grant 1, read slot 0, publish             -> pos 5 *)
    sP 1;                                  (* P: load (C at 5): 1 free slot, grant                       *)
    kW (Reset 99);                         (* W: reset, the load: sees P at 7                            *)
    sP 1; sP 1;                            (* P: write slot 3 (pos 7), publish                  -> pos 8 *)
    sW 0;                                  (* W: reset, the store: ix 3, pos 7 published (5, 6 skipped)  *)
    sC 2; sC 2; sC 2; sC 2;                (* C: load+grant 2, read slots 1,2 (unedited), publish -> pos 7 *)
    sP 2; sP 2; sP 2; sP 2;                (* P: load (C at 7): 2 free, write slots 0,1, publish -> pos 10 *)
    sW 3; sW 3; sW 3; sW 3; sW 3;          (* W: load+grant 3, edit slots 3,0,1, publish        -> pos 10 *)
    sC 3; sC 3; sC 3; sC 3; sC 3 ].        (* C: load+grant 3, read slots 3,0,1, publish        -> pos 10 *)

Example demo_wreset_mid :   (* just after the reset: W at 7 = what it published; P at 8; C at 5 *)
  summary3 (exec3_x 4 (init3_x 4) (firstn 16 demo_wreset))
  = (false, (0, 8, 0, 0), (3, 7, 0, 0, false), (1, 5, 0, 0, false), (7, 5)).
Proof. vm_compute. reflexivity. Qed.
Example demo_wreset_skipped_popped :   (* C has popped the two skipped items *)
  summary3 (exec3_x 4 (init3_x 4) (firstn 20 demo_wreset))
  = (false, (0, 8, 0, 0), (3, 7, 0, 0, false), (3, 7, 0, 0, false), (7, 7)).
Proof. vm_compute. reflexivity. Qed.
Example demo_wreset_race_free :
  summary3 (exec3_x 4 (init3_x 4) demo_wreset)
  = (false, (2, 10, 0, 0), (2, 10, 0, 0, false), (2, 10, 0, 0, false), (10, 10)).
Proof. vm_compute. reflexivity. Qed.

(* A reset with a stale read choice reads the oldest message it may (the one at the thread's view); that is
   never behind the local index: here W has seen P at 7 and edited up to 5, the "stale" reset takes it to 7. *)
Example demo_wreset_stale :
  summary3 (exec3_x 4 (init3_x 4) (firstn 8 demo_wreset ++ [kW (Reset 0); sW 0]))
  = (false, (3, 7, 0, 0), (3, 7, 0, 0, false), (0, 4, 0, 0, false), (7, 4)).
Proof. vm_compute. reflexivity. Qed.

(* The same script with Relaxed loads (no join) of the worker / the consumer / the producer races (the worker
   variant already at W's first edit, as in RA3n.v). *)
Example demo_wreset_worker_relaxed_races : race3 (exec3_a true false true 4 (init3_x 4) demo_wreset) = true.
Proof. vm_compute. reflexivity. Qed.
Example demo_wreset_consumer_relaxed_races : race3 (exec3_a true true false 4 (init3_x 4) demo_wreset) = true.
Proof. vm_compute. reflexivity. Qed.
Example demo_wreset_producer_relaxed_races : race3 (exec3_a false true true 4 (init3_x 4) demo_wreset) = true.
Proof. vm_compute. reflexivity. Qed.

(* The load of the worker's RESET must be Acquire even if the worker never touches a slot: W only resets
   (skipping all three items) and C pops them.  With acquire loads this is race free - C's view of P's writes
   comes through W's message; with a Relaxed worker load W publishes 7 with a view that does not cover P's
   writes of the skipped items, and C's first read (entry 9 of the script) races with P's write. *)
Definition demo_wreset_only : list (tid * cmd) :=
  [ sP 3; sP 3; sP 3; sP 3; sP 3; kW (Reset 99); sW 0; sC 3; sC 3 ].
Example demo_wreset_only_race_free : race3 (exec3_x 4 (init3_x 4) demo_wreset_only) = false.
Proof. vm_compute. reflexivity. Qed.
Example demo_wreset_only_relaxed_no_race_yet :
  race3 (exec3_a true false true 4 (init3_x 4) (firstn 8 demo_wreset_only)) = false.
Proof. vm_compute. reflexivity. Qed.
Example demo_wreset_only_relaxed_races :
  race3 (exec3_a true false true 4 (init3_x 4) demo_wreset_only) = true.
Proof. vm_compute. reflexivity. Qed.

(* ---- CONSUMER reset_index ----
   P pushes 3; W edits 2 (positions 4,5, published 6); C pops 1 (position 4); W starts editing position 6 and,
   interleaved, C resets: it loads W's index (6 - the store of 7 has not happened yet) and publishes 6: the
   item at position 5 is skipped, never read.  P then gets 2 free slots; C pops the item at position 6. *)
Definition demo_creset : list (tid * cmd) :=
  [ sP 3; sP 3; sP 3; sP 3; sP 3;          (* P: load+grant 3, write slots 0,1,2, publish       -> pos 7 *)
    sW 2; sW 2; sW 2; sW 2;                (* W: load+grant 2, edit slots 0,1, publish          -> pos 6 *)
    sC 1; sC 1; sC 1;                      (* C: load+grant 1, read slot 0, publish             -> pos 5 *)
    sW 1;                                  (* W: grant 1 from ca                                          *)
    kC (Reset 99);                         (* C: reset, the load: sees W at 6                            *)
    sW 1; sW 1;                            (* W: edit slot 2 (pos 6), publish                   -> pos 7 *)
    sC 0;                                  (* C: reset, the store: ix 2, pos 6 published (5 skipped)     *)
    sP 2; sP 2; sP 2; sP 2;                (* P: load (C at 6): 2 free, write slots 3,0, publish -> pos 9 *)
    sC 1; sC 1; sC 1 ].                    (* C: load+grant 1, read slot 2, publish             -> pos 7 *)

Example demo_creset_mid :
  summary3 (exec3_x 4 (init3_x 4) (firstn 17 demo_creset))
  = (false, (3, 7, 0, 0), (3, 7, 0, 0, false), (2, 6, 0, 0, false), (7, 6)).
Proof. vm_compute. reflexivity. Qed.
Example demo_creset_race_free :
  summary3 (exec3_x 4 (init3_x 4) demo_creset)
  = (false, (1, 9, 0, 0), (3, 7, 0, 0, false), (3, 7, 0, 0, false), (7, 7)).
Proof. vm_compute. reflexivity. Qed.
Example demo_creset_producer_relaxed_races : race3 (exec3_a false true true 4 (init3_x 4) demo_creset) = true.
Proof. vm_compute. reflexivity. Qed.

(* ---- detached CONSUMER (as in RAx.v, now behind a worker) ----
   P pushes 3, W edits 3.  C detaches and pops 2 (local index 6, 4 published).  P still sees C at 4: no free slot.
   C syncs (publishes 6); P gets 2 slots (positions 7,8 = slots 3,0), W edits them; C pops 1 (detached),
   attaches (publishes 7), pops 2 more. *)
Definition demo_cdet : list (tid * cmd) :=
  [ sP 3; sP 3; sP 3; sP 3; sP 3;
    sW 3; sW 3; sW 3; sW 3; sW 3;
    kC Detach;
    sC 2; sC 2; sC 2; sC 2;
    sP 2;
    kC Sync;
    sP 2; sP 2; sP 2; sP 2;
    sW 2; sW 2; sW 2; sW 2;
    sC 1; sC 1; sC 1;
    kC Attach;
    sC 2; sC 2; sC 2; sC 2 ].

Example demo_cdet_blocked :   (* before the sync: C is at 6 locally, 4 is published, P got nothing *)
  summary3 (exec3_x 4 (init3_x 4) (firstn 16 demo_cdet))
  = (false, (3, 7, 0, 0), (3, 7, 0, 0, false), (2, 6, 1, 0, true), (7, 4)).
Proof. vm_compute. reflexivity. Qed.
Example demo_cdet_race_free :
  summary3 (exec3_x 4 (init3_x 4) demo_cdet)
  = (false, (1, 9, 0, 0), (1, 9, 0, 0, false), (1, 9, 0, 0, false), (9, 9)).
Proof. vm_compute. reflexivity. Qed.
Example demo_cdet_producer_relaxed_races : race3 (exec3_a false true true 4 (init3_x 4) demo_cdet) = true.
Proof. vm_compute. reflexivity. Qed.
