(** * C02 on the MULTI-SLOT three-stage release/acquire machine (RA3n.v): what the consumer reads.

    Values are threaded alongside the machine of RA3n.v exactly as RA3values.v does for RA3.v, but per SLOT ACCESS
    of a window: at a pc-2 step the producer stores [pv p] into the slot it accesses, where
    [p = pos + off] is the absolute position of that slot of its window; the worker replaces the value it finds
    in the slot by [f] of it; the consumer appends the value it finds to its log.

    For every script - any interleaving, any admissible stale read, any sequence of requested window sizes - the
    consumer's log is, at every moment (also in the middle of a window), the list
    [f (pv len); f (pv (len+1)); ...] of length "number of slots the consumer has accessed so far"
    ([consumed] = pos + off - len of the consumer): a prefix of the pushed sequence with the worker's
    transformation applied item by item, in order, nothing lost, duplicated, reordered or seen half-processed.

    The proof reuses the race-freedom invariant [Inv3n] of RA3nproof.v (only through the order facts it implies
    about the three frontiers [pos + off]); the value invariant itself ([VI]) is a statement about the slot
    metadata, the three frontiers and the value store only, and its three preservation lemmas
    ([VI_P], [VI_W], [VI_C]) are pure list/arithmetic facts. *)
From Coq Require Import List Arith Lia Bool.
Import ListNotations.
Require Import MRB.Conc.RA MRB.Conc.RA3 MRB.Conc.RA3proof MRB.Conc.RA3n MRB.Conc.RA3nproof.
Local Arguments Nat.leb : simpl never.
Local Arguments Nat.ltb : simpl never.
Local Arguments Nat.modulo : simpl never.
Local Arguments Nat.max : simpl never.
Local Arguments Nat.min : simpl never.
Local Arguments Nat.sub : simpl never.
Local Arguments Nat.add : simpl never.

Record vst := mkVst { vals : list nat; clog : list nat }.

(** frontier of a thread: absolute position of the next slot it will access *)
Definition fr (t : thr3n) : nat := pos3 t + off3 t.

Section ValuesN.
Variable len : nat.
Hypothesis Hlen : 0 < len.
Variables (pv f : nat -> nat) (init : nat -> nat).

(** ring slot the thread accesses at its next pc-2 step *)
Definition slot (t : thr3n) : nat := wadd len (ix3 t) (off3 t).

Definition vstepP (c : cfg3n) (v : vst) : vst :=
  if pc3 (P3 c) =? 2 then mkVst (upd (slot (P3 c)) (pv (fr (P3 c))) (vals v)) (clog v) else v.
Definition vstepW (c : cfg3n) (v : vst) : vst :=
  if pc3 (W3 c) =? 2 then mkVst (upd (slot (W3 c)) (f (nth (slot (W3 c)) (vals v) 0)) (vals v)) (clog v) else v.
Definition vstepC (c : cfg3n) (v : vst) : vst :=
  if pc3 (C3 c) =? 2 then mkVst (vals v) (clog v ++ [nth (slot (C3 c)) (vals v) 0]) else v.

Definition vstep_n (c : cfg3n) (s : tid * nat * nat) (v : vst) : vst :=
  match fst (fst s) with TP => vstepP c v | TW => vstepW c v | TC => vstepC c v end.

Fixpoint vexec_n (c : cfg3n) (v : vst) (script : list (tid * nat * nat)) : cfg3n * vst :=
  match script with
  | [] => (c, v)
  | s :: r => vexec_n (step3_n len c s) (vstep_n c s v) r
  end.

Definition vinit0 : vst := mkVst (map init (seq 0 len)) [].

(** number of slots the consumer has accessed so far (all three threads start at absolute position [len]) *)
Definition consumed (c : cfg3n) : nat := fr (C3 c) - len.

Definition val_of (m : meta3) : nat :=
  match wt m with TP => pv (wpos3 m) | TW => f (pv (wpos3 m)) | TC => init (wpos3 m) end.

(** The value invariant, over the slot metadata [ms], the frontiers [a] (producer), [b] (worker), [d] (consumer)
    and the value state. *)
Record VI (ms : list meta3) (a b d : nat) (v : vst) : Prop := mkVI {
  v_len : length (vals v) = len;
  (* the stored value is determined by the last recorded write of the slot *)
  v_val : forall k, k < len -> nth k (vals v) 0 = val_of (nth k ms dmeta3);
  (* worked, not yet consumed: last written by the worker at exactly that position *)
  v_e1 : forall p, d <= p < b -> wt (nth (p mod len) ms dmeta3) = TW /\ wpos3 (nth (p mod len) ms dmeta3) = p;
  (* pushed, not yet worked: last written by the producer at exactly that position *)
  v_e2 : forall p, b <= p < a -> wt (nth (p mod len) ms dmeta3) = TP /\ wpos3 (nth (p mod len) ms dmeta3) = p;
  v_log : clog v = map (fun p => f (pv p)) (seq len (d - len));
  v_pos : len <= d
}.

Definition VInv (c : cfg3n) (v : vst) : Prop :=
  VI (metas3 c) (fr (P3 c)) (fr (W3 c)) (fr (C3 c)) v.

Lemma VI_eq ms a b d v a' b' d' : VI ms a b d v -> a = a' -> b = b' -> d = d' -> VI ms a' b' d' v.
Proof. intros V Ea Eb Ed. subst a' b' d'. exact V. Qed.

Lemma mod_close_eq a b : a mod len = b mod len -> a < b + len -> b < a + len -> a = b.
Proof.
  intros E H1 H2.
  assert (Hab : a <= b) by (apply (congr_le len); [exact Hlen | exact E | exact H1]).
  assert (Hba : b <= a) by (apply (congr_le len); [exact Hlen | symmetry; exact E | exact H2]).
  lia.
Qed.

(* ---------------- the three slot accesses, as pure facts ---------------- *)

(** producer writes position [a] *)
Lemma VI_P ms a b d v k0 x y z :
  VI ms a b d v -> length ms = len -> d <= b -> b <= a -> a + 1 <= d + len -> k0 = a mod len ->
  VI (upd k0 (mkMeta3 TP a x y z) ms) (a + 1) b d (mkVst (upd k0 (pv a) (vals v)) (clog v)).
Proof.
  intros [VL VV E1 E2 LG VP] LM Hdb Hba Hcap Ek. subst k0.
  assert (Hk : a mod len < len) by (apply Nat.mod_upper_bound; lia).
  constructor; cbn [vals clog].
  - rewrite upd_length. exact VL.
  - intros k Hk'. destruct (Nat.eq_dec (a mod len) k) as [Ek|Hne].
    + subst k.
      rewrite nth_upd_eq by (rewrite ?VL, ?LM; exact Hk).
      rewrite nth_upd_eq by (rewrite ?VL, ?LM; exact Hk).
      reflexivity.
    + rewrite nth_upd_neq by exact Hne. rewrite nth_upd_neq by exact Hne. apply VV. exact Hk'.
  - intros p Hp. destruct (Nat.eq_dec (a mod len) (p mod len)) as [E|Hne].
    + exfalso. assert (Hap : a = p) by (apply mod_close_eq; [exact E | lia | lia]). lia.
    + rewrite nth_upd_neq by exact Hne. apply E1. exact Hp.
  - intros p Hp. destruct (Nat.eq_dec (a mod len) (p mod len)) as [E|Hne].
    + assert (Hap : a = p) by (apply mod_close_eq; [exact E | lia | lia]). subst p.
      rewrite nth_upd_eq by (rewrite LM; exact Hk). cbn [wt wpos3]. split; reflexivity.
    + rewrite nth_upd_neq by exact Hne. apply E2.
      assert (Hpa : p <> a) by (intros Epa; apply Hne; rewrite Epa; reflexivity). lia.
  - exact LG.
  - exact VP.
Qed.

(** worker edits position [b] in place *)
Lemma VI_W ms a b d v k0 x y z :
  VI ms a b d v -> length ms = len -> d <= b -> b < a -> a <= d + len -> k0 = b mod len ->
  VI (upd k0 (mkMeta3 TW b x y z) ms) a (b + 1) d
     (mkVst (upd k0 (f (nth k0 (vals v) 0)) (vals v)) (clog v)).
Proof.
  intros [VL VV E1 E2 LG VP] LM Hdb Hba Hcap Ek. subst k0.
  assert (Hk : b mod len < len) by (apply Nat.mod_upper_bound; lia).
  assert (Cur : wt (nth (b mod len) ms dmeta3) = TP /\ wpos3 (nth (b mod len) ms dmeta3) = b) by (apply E2; lia).
  destruct Cur as [CW CP].
  constructor; cbn [vals clog].
  - rewrite upd_length. exact VL.
  - intros k Hk'. destruct (Nat.eq_dec (b mod len) k) as [Ek|Hne].
    + subst k.
      rewrite nth_upd_eq by (rewrite ?VL, ?LM; exact Hk).
      rewrite nth_upd_eq by (rewrite ?VL, ?LM; exact Hk).
      rewrite VV by exact Hk. unfold val_of. rewrite CW, CP. reflexivity.
    + rewrite nth_upd_neq by exact Hne. rewrite nth_upd_neq by exact Hne. apply VV. exact Hk'.
  - intros p Hp. destruct (Nat.eq_dec (b mod len) (p mod len)) as [E|Hne].
    + assert (Hbp : b = p) by (apply mod_close_eq; [exact E | lia | lia]). subst p.
      rewrite nth_upd_eq by (rewrite LM; exact Hk). cbn [wt wpos3]. split; reflexivity.
    + rewrite nth_upd_neq by exact Hne. apply E1.
      assert (Hpb : p <> b) by (intros Epb; apply Hne; rewrite Epb; reflexivity). lia.
  - intros p Hp. destruct (Nat.eq_dec (b mod len) (p mod len)) as [E|Hne].
    + exfalso. assert (Hbp : b = p) by (apply mod_close_eq; [exact E | lia | lia]). lia.
    + rewrite nth_upd_neq by exact Hne. apply E2. lia.
  - exact LG.
  - exact VP.
Qed.

(** consumer reads position [d] *)
Lemma VI_C ms a b d v k0 x y :
  VI ms a b d v -> length ms = len -> d < b -> k0 = d mod len ->
  VI (upd k0 (mkMeta3 (wt (nth k0 ms dmeta3)) (wpos3 (nth k0 ms dmeta3)) (wclk3 (nth k0 ms dmeta3)) x y) ms)
     a b (d + 1) (mkVst (vals v) (clog v ++ [nth k0 (vals v) 0])).
Proof.
  intros [VL VV E1 E2 LG VP] LM Hdb Ek. subst k0.
  assert (Hk : d mod len < len) by (apply Nat.mod_upper_bound; lia).
  assert (Cur : wt (nth (d mod len) ms dmeta3) = TW /\ wpos3 (nth (d mod len) ms dmeta3) = d) by (apply E1; lia).
  destruct Cur as [CW CP].
  set (ms' := upd (d mod len) _ ms).
  assert (Hsame : forall k, wt (nth k ms' dmeta3) = wt (nth k ms dmeta3) /\
                            wpos3 (nth k ms' dmeta3) = wpos3 (nth k ms dmeta3)).
  { intros k. unfold ms'. destruct (Nat.eq_dec (d mod len) k) as [Ek|Hne].
    - subst k. rewrite nth_upd_eq by (rewrite LM; exact Hk). cbn [wt wpos3]. split; reflexivity.
    - rewrite nth_upd_neq by exact Hne. split; reflexivity. }
  constructor; cbn [vals clog].
  - exact VL.
  - intros k Hk'. rewrite VV by exact Hk'. unfold val_of.
    destruct (Hsame k) as [Hw Hp]. rewrite Hw, Hp. reflexivity.
  - intros p Hp. destruct (Hsame (p mod len)) as [Hw Hq]. rewrite Hw, Hq. apply E1. lia.
  - intros p Hp. destruct (Hsame (p mod len)) as [Hw Hq]. rewrite Hw, Hq. apply E2. exact Hp.
  - rewrite LG. replace (d + 1 - len) with (S (d - len)) by lia.
    rewrite seq_S, map_app. cbn [map]. f_equal. f_equal.
    rewrite VV by exact Hk. unfold val_of. rewrite CW, CP.
    replace (len + (d - len)) with d by lia. reflexivity.
  - lia.
Qed.

(* ---------------- what the race-freedom invariant says about the three frontiers ---------------- *)
Lemma frontier_facts c : Inv3n len c ->
  fr (C3 c) <= fr (W3 c) /\ fr (W3 c) <= fr (P3 c) /\ fr (P3 c) + 1 <= fr (C3 c) + len /\
  (pc3 (P3 c) = 2 -> off3 (P3 c) <= len) /\
  (pc3 (W3 c) = 2 -> off3 (W3 c) <= len /\ fr (W3 c) < fr (P3 c)) /\
  (pc3 (C3 c) = 2 -> off3 (C3 c) <= len /\ fr (C3 c) < fr (W3 c)).
Proof.
  intros I.
  pose proof (order3n len Hlen c I) as (Hcw & Hwp & Hpc & HfC & HfW & HfP & HcapP & HcapW & HcapC).
  pose proof (k_caW len c I) as HcaW. pose proof (k_caC len c I) as HcaC.
  pose proof (k_lpi len c I) as Hlpi. pose proof (k_lwi len c I) as Hlwi.
  destruct (k_vW len c I) as (B&_). destruct (k_vC len c I) as (_&C&_).
  pose proof (sorted3_last_n _ _ (k_spi len c I) B) as HsW.
  pose proof (sorted3_last_n _ _ (k_swi len c I) C) as HsC.
  unfold seenW3n, seenC3n in *. unfold fr.
  split; [lia|]. split; [lia|]. split; [lia|]. split; [|split].
  - intros Hpc2. lia.
  - intros Hpc2. destruct (k_pcW len c I) as [[X _]|[(_&X&Y)|(X&_)]]; [congruence | | congruence]. lia.
  - intros Hpc2. destruct (k_pcC len c I) as [[X _]|[(_&X&Y)|(X&_)]]; [congruence | | congruence]. lia.
Qed.

Lemma slot_mod ix p off : ix = p mod len -> off <= len -> wadd len ix off = (p + off) mod len.
Proof. intros E H. subst ix. apply wadd_mod; [exact Hlen | exact H]. Qed.

(* ---------------- one machine step preserves the value invariant ---------------- *)
Lemma P_vstep c v j n0 : Inv3n len c -> VInv c v -> VInv (stepP3_n len j n0 c) (vstepP c v).
Proof.
  intros I V. destruct (frontier_facts c I) as (F1&F2&F3&FP&FW&FC).
  pose proof (k_metas len c I) as LM. unfold VInv in *. unfold vstepP, stepP3_n, stepP3_a.
  destruct (k_pcP len c I) as [[Hpc Hoff]|[(Hpc&Hoff&Hcnt)|(Hpc&Hoff&Hcnt)]]; rewrite Hpc; cbn [Nat.eqb];
    cbv beta iota zeta.
  - destruct (Nat.max 1 n0 <=? ca3 (P3 c));
      (eapply VI_eq; [exact V | unfold fr; cbn [P3 W3 C3 pos3 off3]; lia ..]).
  - specialize (FP Hpc).
    assert (Hk0 : slot (P3 c) = fr (P3 c) mod len) by (apply slot_mod; [apply (k_ixP len c I) | exact FP]).
    change (wadd len (ix3 (P3 c)) (off3 (P3 c))) with (slot (P3 c)).
    change (pos3 (P3 c) + off3 (P3 c)) with (fr (P3 c)).
    cbn [metas3 P3 W3 C3].
    eapply VI_eq;
      [ eapply VI_P; [exact V | exact LM | exact F1 | exact F2 | exact F3 | exact Hk0]
      | unfold fr; cbn [pos3 off3]; lia .. ].
  - eapply VI_eq; [exact V | unfold fr; cbn [P3 W3 C3 pos3 off3]; lia ..].
Qed.

Lemma W_vstep c v j n0 : Inv3n len c -> VInv c v -> VInv (stepW3_n len j n0 c) (vstepW c v).
Proof.
  intros I V. destruct (frontier_facts c I) as (F1&F2&F3&FP&FW&FC).
  pose proof (k_metas len c I) as LM. unfold VInv in *. unfold vstepW, stepW3_n, stepW3_a.
  destruct (k_pcW len c I) as [[Hpc Hoff]|[(Hpc&Hoff&Hcnt)|(Hpc&Hoff&Hcnt)]]; rewrite Hpc; cbn [Nat.eqb];
    cbv beta iota zeta.
  - destruct (Nat.max 1 n0 <=? ca3 (W3 c));
      (eapply VI_eq; [exact V | unfold fr; cbn [P3 W3 C3 pos3 off3]; lia ..]).
  - destruct (FW Hpc) as [FW1 FW2].
    assert (Hk0 : slot (W3 c) = fr (W3 c) mod len) by (apply slot_mod; [apply (k_ixW len c I) | exact FW1]).
    change (wadd len (ix3 (W3 c)) (off3 (W3 c))) with (slot (W3 c)).
    change (pos3 (W3 c) + off3 (W3 c)) with (fr (W3 c)).
    cbn [metas3 P3 W3 C3].
    eapply VI_eq;
      [ eapply VI_W; [exact V | exact LM | exact F1 | exact FW2 | lia | exact Hk0]
      | unfold fr; cbn [pos3 off3]; lia .. ].
  - eapply VI_eq; [exact V | unfold fr; cbn [P3 W3 C3 pos3 off3]; lia ..].
Qed.

Lemma C_vstep c v j n0 : Inv3n len c -> VInv c v -> VInv (stepC3_n len j n0 c) (vstepC c v).
Proof.
  intros I V. destruct (frontier_facts c I) as (F1&F2&F3&FP&FW&FC).
  pose proof (k_metas len c I) as LM. unfold VInv in *. unfold vstepC, stepC3_n, stepC3_a.
  destruct (k_pcC len c I) as [[Hpc Hoff]|[(Hpc&Hoff&Hcnt)|(Hpc&Hoff&Hcnt)]]; rewrite Hpc; cbn [Nat.eqb];
    cbv beta iota zeta.
  - destruct (Nat.max 1 n0 <=? ca3 (C3 c));
      (eapply VI_eq; [exact V | unfold fr; cbn [P3 W3 C3 pos3 off3]; lia ..]).
  - destruct (FC Hpc) as [FC1 FC2].
    assert (Hk0 : slot (C3 c) = fr (C3 c) mod len) by (apply slot_mod; [apply (k_ixC len c I) | exact FC1]).
    change (wadd len (ix3 (C3 c)) (off3 (C3 c))) with (slot (C3 c)).
    change (pos3 (C3 c) + off3 (C3 c)) with (fr (C3 c)).
    cbn [metas3 P3 W3 C3].
    eapply VI_eq;
      [ eapply VI_C; [exact V | exact LM | exact FC2 | exact Hk0]
      | unfold fr; cbn [pos3 off3]; lia .. ].
  - eapply VI_eq; [exact V | unfold fr; cbn [P3 W3 C3 pos3 off3]; lia ..].
Qed.

Lemma vstep_n_inv c v s : Inv3n len c -> VInv c v -> VInv (step3_n len c s) (vstep_n c s v).
Proof.
  intros I V. destruct s as [[[| |] j] n0].
  - exact (P_vstep c v j n0 I V).
  - exact (W_vstep c v j n0 I V).
  - exact (C_vstep c v j n0 I V).
Qed.

Lemma vinit_n_inv : VInv (init3_n len) vinit0.
Proof.
  unfold VInv, vinit0, init3_n, fr. cbn [metas3 P3 W3 C3 pos3 off3].
  constructor; cbn [vals clog].
  - rewrite map_length, seq_length. reflexivity.
  - intros k Hk. rewrite nth_init_meta3n by exact Hk. unfold val_of. cbn [wt wpos3].
    rewrite (nth_indep _ 0 (init 0)) by (rewrite map_length, seq_length; exact Hk).
    rewrite map_nth, seq_nth by exact Hk. reflexivity.
  - intros p Hp. lia.
  - intros p Hp. lia.
  - replace (len + 0 - len) with 0 by lia. reflexivity.
  - lia.
Qed.

Theorem vexec_n_inv script : forall c v, Inv3n len c -> VInv c v ->
  Inv3n len (fst (vexec_n c v script)) /\ VInv (fst (vexec_n c v script)) (snd (vexec_n c v script)).
Proof.
  induction script as [|s r IH]; intros c v I V.
  - cbn [vexec_n fst snd]. split; [exact I | exact V].
  - cbn [vexec_n]. apply IH; [apply step3n_inv; [exact Hlen | exact I] | apply vstep_n_inv; [exact I | exact V]].
Qed.

(** the value layer is a pure observer: the configuration reached is the one of the machine of RA3n.v *)
Lemma vexec_n_fst script : forall c v, fst (vexec_n c v script) = exec3_n len c script.
Proof.
  induction script as [|s r IH]; intros c v.
  - reflexivity.
  - cbn [vexec_n]. rewrite IH. reflexivity.
Qed.
End ValuesN.

(** The consumed sequence is always a prefix of the pushed sequence with the worker's transformation applied:
    for every script (any interleaving, any stale reads, any window sizes) the consumer's log is
    [f (pv len); f (pv (len+1)); ...], one entry per slot the consumer has accessed so far
    ([consumed len c = pos3 (C3 c) + off3 (C3 c) - len]).  The configuration is the one the machine of RA3n.v
    reaches on that script, and it is race free. *)
Theorem consumed_is_prefix_n len pv f init script : 0 < len ->
  let '(c, v) := vexec_n len pv f (init3_n len) (vinit0 len init) script in
  c = exec3_n len (init3_n len) script /\
  clog v = map (fun p => f (pv p)) (seq len (consumed len c)) /\
  race3 c = false.
Proof.
  intros Hl.
  pose proof (vexec_n_inv len Hl pv f init script _ _ (init3n_inv len Hl) (vinit_n_inv len Hl pv f init)) as [I V].
  pose proof (vexec_n_fst len pv f script (init3_n len) (vinit0 len init)) as E.
  destruct (vexec_n len pv f (init3_n len) (vinit0 len init) script) as [c v]. cbn [fst snd] in *.
  split; [exact E | split; [exact (v_log _ _ _ _ _ _ _ _ _ V) | exact (k_race len c I)]].
Qed.

(** Between two operations of the consumer (pc 0) the window is empty, so the log has exactly
    [pos3 (C3 c) - len] entries: the whole of every published window, nothing else. *)
Corollary consumed_between_ops len pv f init script : 0 < len ->
  let '(c, v) := vexec_n len pv f (init3_n len) (vinit0 len init) script in
  pc3 (C3 c) = 0 ->
  length (clog v) = pos3 (C3 c) - len /\
  clog v = map (fun p => f (pv p)) (seq len (pos3 (C3 c) - len)).
Proof.
  intros Hl.
  pose proof (vexec_n_inv len Hl pv f init script _ _ (init3n_inv len Hl) (vinit_n_inv len Hl pv f init)) as [I V].
  destruct (vexec_n len pv f (init3_n len) (vinit0 len init) script) as [c v]. cbn [fst snd] in *.
  intros Hpc0.
  assert (Hoff : off3 (C3 c) = 0) by (destruct (k_pcC len c I) as [[_ X]|[(X&_)|(X&_)]]; [exact X | congruence | congruence]).
  pose proof (v_log _ _ _ _ _ _ _ _ _ V) as LG. unfold fr in LG. rewrite Hoff, Nat.add_0_r in LG.
  split; [|exact LG]. rewrite LG, map_length, seq_length. reflexivity.
Qed.

(** In general the log length is the number of slots accessed, at most the worker's published position. *)
Corollary consumed_length len pv f init script : 0 < len ->
  let '(c, v) := vexec_n len pv f (init3_n len) (vinit0 len init) script in
  length (clog v) = pos3 (C3 c) + off3 (C3 c) - len /\ pos3 (C3 c) + off3 (C3 c) <= pos3 (W3 c).
Proof.
  intros Hl.
  pose proof (vexec_n_inv len Hl pv f init script _ _ (init3n_inv len Hl) (vinit_n_inv len Hl pv f init)) as [I V].
  destruct (vexec_n len pv f (init3_n len) (vinit0 len init) script) as [c v]. cbn [fst snd] in *.
  pose proof (v_log _ _ _ _ _ _ _ _ _ V) as LG. unfold fr in LG.
  pose proof (order3n len Hl c I) as (_ & _ & _ & HfC & _).
  split; [rewrite LG, map_length, seq_length; reflexivity | exact HfC].
Qed.

(* ------------------------------------------------------------------------------------------------ *)
(* Examples, len = 4 (capacity 3), pushed values pv p = 10 * p, worker transformation f = S, slots initially 0.
   Shown: (summary3 of the configuration, value store, consumer log).                                      *)
Definition show_n (r : cfg3n * vst) := (summary3 (fst r), vals (snd r), clog (snd r)).
Definition run_n (len : nat) (s : list (tid * nat * nat)) :=
  show_n (vexec_n len (fun p => 10 * p) S (init3_n len) (vinit0 len (fun _ => 0)) s).

(* [demo3] of RA3n.v: windows of 3 / 2 / 2 / 2+1 / 2 / 3 slots, the producer's and the worker's second window
   and the consumer's last window WRAP (slots 3,0 and 2,3,0).  Positions 4..8 are consumed, in order, each
   transformed exactly once; slot 0 holds position 8's value, slots 1..3 positions 5..7. *)
Example demo3_values :
  run_n 4 demo3 = ((false, (1, 9, 0, 0), (1, 9, 0, 0), (1, 9, 0, 0)), [81; 51; 61; 71], [41; 51; 61; 71; 81]).
Proof. vm_compute. reflexivity. Qed.

(* Stale reads.  P pushes a window of 3; W works a window of 1 and then a window of 2 (two messages).
   C asks for 2 and reads the INITIAL message of the worker's index (choice 0): nothing available, no grant;
   asks for 2 again and reads the worker's FIRST message (choice 1, stale: the latest says 3): 1 available, no
   grant; asks for 1: granted from the remembered availability; reads slot 0, publishes; asks for 2, reads the
   same stale message again: 0 available; finally reads the latest message, is granted 2 and reads the first
   slot of that window.  The consumer is now in the MIDDLE of a window (pc 2, pos 5, off 1): the log has
   pos + off - len = 2 entries. *)
Definition stale3 : list (tid * nat * nat) :=
  [ sP 3; sP 3; sP 3; sP 3; sP 3;
    sW 1; sW 1; sW 1;
    sW 2; sW 2; sW 2; sW 2;
    (TC, 0, 2); (TC, 1, 2); (TC, 1, 1); sC 1; sC 1;
    (TC, 1, 2); sC 2; sC 2 ].

Example stale3_values :
  run_n 4 stale3 = ((false, (3, 7, 0, 0), (3, 7, 0, 0), (1, 5, 2, 2)), [41; 51; 61; 0], [41; 51]).
Proof. vm_compute. reflexivity. Qed.

Example stale3_consumed :
  consumed 4 (exec3_n 4 (init3_n 4) stale3) = 2 /\ off3 (C3 (exec3_n 4 (init3_n 4) stale3)) = 1.
Proof. vm_compute. split; reflexivity. Qed.

(* ... continued: C finishes its window (slots 1,2); P pushes a second window of 3 (slots 3,0,1: wraps);
   W works it, interleaved with C: C's first request for 3 comes before W has published and is not granted,
   its second one is, and it has read slots 3,0 of that wrapped window so far (pc 2, pos 7, off 2).  Slots 0,1 already hold the transformed values of positions 8,9, slot 2 still the
   consumed value of position 6. *)
Example stale3_wrap_values :
  run_n 4 (stale3 ++ [sC 2; sC 2;
                      sP 3; sP 3; sP 3; sP 3; sP 3;
                      sW 3; sW 3; sW 3; sC 3; sW 3; sW 3; sC 3; sC 3; sC 3])
  = ((false, (2, 10, 0, 0), (2, 10, 0, 0), (3, 7, 3, 2)), [81; 91; 61; 71], [41; 51; 61; 71; 81]).
Proof. vm_compute. reflexivity. Qed.

Print Assumptions consumed_is_prefix_n.
