(** * What the consumer reads on the extended release/acquire machine (RAx.v): a VALUE layer.

    Values are threaded alongside the machine of RAx.v (multi-slot windows, stale reads, all interleavings,
    [Reset], [Detach] / [Sync] / [Attach]):
    - the producer's per-slot write step (pc 2) for absolute position [p = pos P + off P] stores [pv p] into
      slot [wadd len (ix P) (off P)] of the value array [vals];
    - the consumer's per-slot read step (pc 2) appends the value it finds in slot [wadd len (ix C) (off C)] to
      [clog] and - separately - the absolute position [pos C + off C] it believes it is reading to [plog].
    The slots initially hold arbitrary values [init k].

    For all [len > 0] and all scripts:
    - [consumed_values_x]               clog = map pv plog: every value read is exactly the value pushed at that
                                        position - never an initial, stale, overwritten or not-yet-written slot,
                                        also across resets and while detached;
    - [consumed_positions_increasing_x] plog is strictly increasing, every element is >= len (both threads start at
                                        absolute position [len], see [init_x]) and below the position the producer
                                        has published: the consumed sequence is a subsequence of the pushed one, in
                                        order, nothing duplicated or reordered;
    - [no_reset_prefix_x]               if the script has no [Reset] command, plog = seq len (length plog): exactly
                                        a prefix, nothing lost.  (Items are skipped only by [Reset].)

    The race-freedom invariant [InvX] of RAxproof.v is reused as is; the value invariant [VInv] below only adds
    "every slot of a pushed, not yet read position was last written at exactly that position" ([v_rng]). *)
From Coq Require Import List Arith Lia Bool Sorted.
Import ListNotations.
Require Import MRB.Conc.RA MRB.Conc.RAproof MRB.Conc.RAx MRB.Conc.RAxproof.

Local Arguments Nat.leb : simpl never.
Local Arguments Nat.ltb : simpl never.
Local Arguments Nat.modulo : simpl never.
Local Arguments Nat.max : simpl never.
Local Arguments Nat.min : simpl never.
Local Arguments Nat.sub : simpl never.
Local Arguments Nat.add : simpl never.

(* value array, the consumer's log of values, the consumer's log of (believed) absolute positions *)
Record vst := mkVst { vals : list nat; clog : list nat; plog : list nat }.

(* ---------- pure facts ---------- *)
Lemma mod_close_eq len a b : 0 < len -> a mod len = b mod len -> a < b + len -> b < a + len -> a = b.
Proof.
  intros Hl E H1 H2.
  assert (a <= b) by (apply (congr_le len); auto).
  assert (b <= a) by (apply (congr_le len); auto). lia.
Qed.

Lemma ssorted_snoc (l : list nat) (x : nat) :
  StronglySorted lt l -> Forall (fun y => y < x) l -> StronglySorted lt (l ++ [x]).
Proof.
  intros S. induction S as [|a l S IH Ha]; intros F; cbn [app].
  - constructor; constructor.
  - inversion F as [|a' l' Fa Fl]; subst. constructor.
    + apply IH; exact Fl.
    + apply Forall_app; split; [exact Ha | constructor; [exact Fa | constructor]].
Qed.

Lemma nth_upd_if {A} k j (x d : A) l :
  k < length l -> nth j (upd k x l) d = if Nat.eqb k j then x else nth j l d.
Proof.
  intros H. destruct (Nat.eqb_spec k j) as [->|Hne]; [apply nth_upd_eq | apply nth_upd_neq]; auto.
Qed.

Section Values.
Variable len : nat.
Hypothesis Hlen : 0 < len.
Variables (pv init : nat -> nat).

(* The value step for script entry [s] in configuration [c] (the configuration BEFORE the machine step). *)
Definition vstep (c : cfg_x) (s : bool * cmd) (v : vst) : vst :=
  match snd s with
  | Op _ _ =>
    if fst s then
      if pc (P c) =? 2
      then mkVst (upd (wadd len (ix (P c)) (off (P c))) (pv (pos (P c) + off (P c))) (vals v)) (clog v) (plog v)
      else v
    else
      if pc (C c) =? 2
      then mkVst (vals v) (clog v ++ [nth (wadd len (ix (C c)) (off (C c))) (vals v) 0])
                 (plog v ++ [pos (C c) + off (C c)])
      else v
  | _ => v
  end.

Fixpoint vexec (c : cfg_x) (v : vst) (script : list (bool * cmd)) : cfg_x * vst :=
  match script with
  | [] => (c, v)
  | s :: r => vexec (step_x len c s) (vstep c s v) r
  end.

Definition vinit0 : vst := mkVst (map init (seq 0 len)) [] [].

(* the machine run alongside the values is exactly [exec_x] *)
Lemma vexec_fst script : forall c v, fst (vexec c v script) = exec_x len c script.
Proof.
  induction script as [|s r IH]; intros c v; [reflexivity|].
  cbn [vexec]. rewrite IH. reflexivity.
Qed.

(* ---------- the value invariant ---------- *)
(* frontiers: the next position the producer writes / the consumer reads (inside a window: pos + off) *)
Definition frontP (c : cfg_x) : nat := pos (P c) + off (P c).
Definition frontC (c : cfg_x) : nat := pos (C c) + off (C c).
(* the absolute position of the last write of slot k (from the race detector's metadata) *)
Definition W (c : cfg_x) (k : nat) : nat := wpos (mtx c k).

Record VInv (c : cfg_x) (v : vst) : Prop := mkVInv {
  v_len : length (vals v) = len;
  (* a slot the producer has written holds the value pushed at the position of its last write *)
  v_val : forall k, k < len -> len <= W c k -> nth k (vals v) 0 = pv (W c k);
  (* written, not yet read: the slot of that position was last written at exactly that position *)
  v_rng : forall p, frontC c <= p < frontP c -> W c (p mod len) = p;
  v_lo  : len <= frontC c;
  v_srt : StronglySorted lt (plog v);
  v_bd  : Forall (fun p => len <= p < frontC c) (plog v);
  v_log : clog v = map pv (plog v)
}.

(* Without resets: the consumer is never at pc 5, and the log of positions is gap-free up to the frontier. *)
Definition NR (c : cfg_x) (v : vst) : Prop := pc (C c) <> 5 /\ plog v = seq len (frontC c - len).

Definition is_creset (s : bool * cmd) : bool :=
  match s with (false, Reset _) => true | _ => false end.

(* A step that touches no slot: the metadata and the producer's frontier are unchanged, the consumer's frontier
   does not move backwards - and does not move at all unless the step is the store of a reset (pc 5). *)
Definition quiet (c c' : cfg_x) : Prop :=
  metas c' = metas c /\ frontP c' = frontP c /\ frontC c <= frontC c' /\
  (pc (C c) <> 5 -> frontC c' = frontC c).

Lemma quiet_refl c : quiet c c.
Proof. unfold quiet; repeat split; auto. Qed.

Lemma quiet_inv c c' v : quiet c c' -> VInv c v -> VInv c' v.
Proof.
  intros (Qm & Qp & Qc & _) [VL VV VR VO VS VB VG].
  assert (HW : forall k, W c' k = W c k) by (intros k; unfold W, mtx; rewrite Qm; reflexivity).
  constructor; auto.
  - intros k Hk Hw. rewrite HW in *. auto.
  - intros p Hp. rewrite HW. apply VR. lia.
  - lia.
  - eapply Forall_impl; [|exact VB]. cbv beta. intros a Ha. lia.
Qed.

Lemma seenCx_le_posP c : InvX len c -> seenCx c <= pos (P c).
Proof.
  intros I. pose proof (i_lpi len c I) as H2. destruct (i_vC len c I) as (A&_).
  pose proof (sorted_last_x (Mpi c) (vpi (V (C c))) (i_spi len c I) A). unfold seenCx. lia.
Qed.

(* ---------- the effect of every step, in terms of frontiers and last-write positions ---------- *)
Definition eff_quiet (c : cfg_x) (s : bool * cmd) : Prop :=
  quiet c (step_x len c s) /\ (forall v, vstep c s v = v) /\
  (pc (C c) <> 5 -> is_creset s = false -> pc (C (step_x len c s)) <> 5).

Definition eff_write (c : cfg_x) (s : bool * cmd) : Prop :=
  let c' := step_x len c s in
  let q := frontP c in
  is_creset s = false /\
  frontP c' = q + 1 /\ frontC c' = frontC c /\ pc (C c') = pc (C c) /\
  (forall k, k < len -> W c' k = if Nat.eqb (q mod len) k then q else W c k) /\
  (forall v, vstep c s v = mkVst (upd (q mod len) (pv q) (vals v)) (clog v) (plog v)).

Definition eff_read (c : cfg_x) (s : bool * cmd) : Prop :=
  let c' := step_x len c s in
  let q := frontC c in
  is_creset s = false /\
  frontP c' = frontP c /\ frontC c' = q + 1 /\ pc (C c') <> 5 /\ q < pos (P c) /\
  (forall k, k < len -> W c' k = W c k) /\
  (forall v, vstep c s v = mkVst (vals v) (clog v ++ [nth (q mod len) (vals v) 0]) (plog v ++ [q])).

Ltac splits := repeat match goal with |- _ /\ _ => split end.

Lemma step_cases c s : InvX len c -> eff_quiet c s \/ eff_write c s \/ eff_read c s.
Proof.
  intros I.
  pose proof (i_pcP len c I) as HpcP. pose proof (i_pcC len c I) as HpcC.
  pose proof (i_ixP len c I) as HixP. pose proof (i_ixC len c I) as HixC.
  pose proof (i_metas len c I) as Hmetas.
  pose proof (caP_cap len Hlen c I) as HcapP. pose proof (caC_cap len Hlen c I) as HcapC.
  destruct s as [[|] k].
  - (* ---------------- producer ---------------- *)
    destruct k as [j n|j| | |];
      try (left; unfold eff_quiet, step_x, step_a; cbn [fst snd]; unfold stepP_a;
           splits; [apply quiet_refl | reflexivity | auto]).
    destruct HpcP as [[H0 Hoff]|[(H2&Hoff&Hcnt)|(H3&Hoff&Hcnt)]].
    + (* pc 0: check / load / grant *)
      left. unfold eff_quiet, step_x, step_a; cbn [fst snd]; unfold stepP_a, opP_a. rewrite H0. cbv zeta.
      splits.
      * destruct (Nat.max 1 n <=? ca (P c)); unfold quiet, frontP, frontC; simpl; splits; auto; lia.
      * intros v. unfold vstep; cbn [fst snd]. rewrite H0. reflexivity.
      * destruct (Nat.max 1 n <=? ca (P c)); simpl; auto.
    + (* pc 2: write one slot *)
      right; left.
      assert (Hk0 : wadd len (ix (P c)) (off (P c)) = (pos (P c) + off (P c)) mod len)
        by (rewrite HixP; apply wadd_mod; lia).
      unfold eff_write, step_x, step_a; cbn [fst snd]; unfold stepP_a, opP_a. rewrite H2. cbv zeta.
      rewrite Hk0. fold (frontP c).
      assert (Hk : frontP c mod len < len) by (apply Nat.mod_upper_bound; lia).
      splits.
      * reflexivity.
      * unfold frontP; simpl. lia.
      * reflexivity.
      * reflexivity.
      * intros k Hk'. unfold W, mtx; simpl. rewrite nth_upd_if by lia.
        destruct (Nat.eqb (frontP c mod len) k); reflexivity.
      * intros v. unfold vstep; cbn [fst snd]. rewrite H2, Hk0. reflexivity.
    + (* pc 3: advance + release store *)
      left. unfold eff_quiet, step_x, step_a; cbn [fst snd]; unfold stepP_a, opP_a. rewrite H3. cbv zeta.
      splits.
      * unfold quiet, frontP, frontC; simpl; splits; auto; lia.
      * intros v. unfold vstep; cbn [fst snd]. rewrite H3. reflexivity.
      * simpl; auto.
  - (* ---------------- consumer ---------------- *)
    destruct k as [j n|j| | |].
    + (* Op *)
      destruct HpcC as [[[H0 Hoff]|[(H2&Hoff&Hcnt)|(H3&Hoff&Hcnt)]]|(H5&Hoff&Hge&Hle&Hnix)].
      * (* pc 0 *)
        left. unfold eff_quiet, step_x, step_a; cbn [fst snd]; unfold stepC_a, opC_a. rewrite H0. cbv zeta.
        splits.
        -- destruct (Nat.max 1 n <=? ca (C c)); unfold quiet, frontP, frontC; simpl; splits; auto; lia.
        -- intros v. unfold vstep; cbn [fst snd]. rewrite H0. reflexivity.
        -- intros _ _. destruct (Nat.max 1 n <=? ca (C c)); simpl; [discriminate|].
           match goal with |- context[if ?b then 2 else 0] => destruct b end; discriminate.
      * (* pc 2: read one slot *)
        right; right.
        assert (Hk0 : wadd len (ix (C c)) (off (C c)) = (pos (C c) + off (C c)) mod len)
          by (rewrite HixC; apply wadd_mod; lia).
        pose proof (i_caC len c I) as HcaC. pose proof (seenCx_le_posP c I) as Hseen.
        unfold eff_read, step_x, step_a; cbn [fst snd]; unfold stepC_a, opC_a. rewrite H2. cbv zeta.
        rewrite Hk0. fold (frontC c).
        assert (Hk : frontC c mod len < len) by (apply Nat.mod_upper_bound; lia).
        splits.
        -- reflexivity.
        -- reflexivity.
        -- unfold frontC; simpl. lia.
        -- simpl. destruct (cnt (C c) <=? off (C c) + 1); discriminate.
        -- unfold frontC. lia.
        -- intros k Hk'. unfold W, mtx; simpl. rewrite nth_upd_if by lia.
           destruct (Nat.eqb_spec (frontC c mod len) k) as [<-|Hne]; reflexivity.
        -- intros v. unfold vstep; cbn [fst snd]. rewrite H2, Hk0. reflexivity.
      * (* pc 3: advance (published or local) *)
        left. unfold eff_quiet, step_x, step_a; cbn [fst snd]; unfold stepC_a, opC_a. rewrite H3. cbv zeta.
        unfold finishC, localC, publishC.
        splits.
        -- destruct (det (C c)); unfold quiet, frontP, frontC; simpl; splits; auto; lia.
        -- intros v. unfold vstep; cbn [fst snd]. rewrite H3. reflexivity.
        -- intros _ _. destruct (det (C c)); simpl; discriminate.
      * (* pc 5: the store of a reset *)
        left. unfold eff_quiet, step_x, step_a; cbn [fst snd]; unfold stepC_a, opC_a. rewrite H5. cbv zeta.
        unfold finishC, localC, publishC.
        splits.
        -- destruct (det (C c)); unfold quiet, frontP, frontC; simpl; splits; auto; try lia; congruence.
        -- intros v. unfold vstep; cbn [fst snd]. rewrite H5. reflexivity.
        -- intros X; congruence.
    + (* Reset *)
      left. unfold eff_quiet, step_x, step_a; cbn [fst snd]; unfold stepC_a.
      destruct (pc (C c)) as [|p0] eqn:E.
      * unfold resetC_a. cbv zeta. splits.
        -- unfold quiet, frontP, frontC; simpl; splits; auto.
        -- reflexivity.
        -- intros _ X. cbn [is_creset] in X. discriminate.
      * splits; [apply quiet_refl | reflexivity | intros X _; rewrite E; exact X].
    + (* Detach *)
      left. unfold eff_quiet, step_x, step_a; cbn [fst snd]; unfold stepC_a.
      destruct (pc (C c)) as [|p0] eqn:E.
      * unfold detachC. cbv zeta. splits.
        -- unfold quiet, frontP, frontC; simpl; splits; auto.
        -- reflexivity.
        -- intros _ _. simpl. rewrite E. discriminate.
      * splits; [apply quiet_refl | reflexivity | intros X _; rewrite E; exact X].
    + (* Attach *)
      left. unfold eff_quiet, step_x, step_a; cbn [fst snd]; unfold stepC_a.
      destruct (pc (C c)) as [|p0] eqn:E.
      * destruct HpcC as [[[_ Hoff]|[(X&_)|(X&_)]]|(X&_)]; try congruence.
        unfold publishC. cbv zeta. splits.
        -- unfold quiet, frontP, frontC; simpl; splits; auto; lia.
        -- reflexivity.
        -- intros _ _. simpl. discriminate.
      * splits; [apply quiet_refl | reflexivity | intros X _; rewrite E; exact X].
    + (* Sync *)
      left. unfold eff_quiet, step_x, step_a; cbn [fst snd]; unfold stepC_a.
      destruct (pc (C c)) as [|p0] eqn:E.
      * destruct HpcC as [[[_ Hoff]|[(X&_)|(X&_)]]|(X&_)]; try congruence.
        unfold publishC. cbv zeta. splits.
        -- unfold quiet, frontP, frontC; simpl; splits; auto; lia.
        -- reflexivity.
        -- intros _ _. simpl. discriminate.
      * splits; [apply quiet_refl | reflexivity | intros X _; rewrite E; exact X].
Qed.

(* ---------- preservation ---------- *)
Lemma vstep_inv c s v : InvX len c -> VInv c v -> VInv (step_x len c s) (vstep c s v).
Proof.
  intros I VI.
  pose proof (frontP_lt len Hlen c I) as HfP. pose proof (frontC_le_posP len Hlen c I) as HfC.
  fold (frontP c) in HfP. fold (frontC c) in HfC.
  assert (HposP : pos (P c) <= frontP c) by (unfold frontP; lia).
  assert (HposC : pos (C c) <= frontC c) by (unfold frontC; lia).
  destruct (step_cases c s I) as [(Q & Hv & _)|[E|E]].
  - rewrite Hv. apply (quiet_inv c); assumption.
  - (* the producer writes the slot of position q = frontP c *)
    destruct E as (_ & EP & EC & _ & EW & Ev). rewrite Ev.
    destruct VI as [VL VV VR VO VS VB VG].
    set (q := frontP c) in *.
    assert (Hk : q mod len < len) by (apply Nat.mod_upper_bound; lia).
    constructor; cbn [vals clog plog]; auto.
    + rewrite upd_length; exact VL.
    + intros k Hk' Hw. rewrite (EW k Hk') in *. rewrite nth_upd_if by lia.
      destruct (Nat.eqb (q mod len) k); [reflexivity | apply VV; assumption].
    + intros p Hp. rewrite EP, EC in Hp.
      assert (Hpl : p mod len < len) by (apply Nat.mod_upper_bound; lia).
      rewrite (EW _ Hpl).
      destruct (Nat.eqb_spec (q mod len) (p mod len)) as [Em|Hne].
      * apply (mod_close_eq len); [exact Hlen | exact Em | lia | lia].
      * apply VR. destruct (Nat.eq_dec p q) as [->|Hn]; [congruence | lia].
    + rewrite EC; exact VO.
    + rewrite EC; exact VB.
  - (* the consumer reads the slot of position q = frontC c *)
    destruct E as (_ & EP & EC & _ & Hlt & EW & Ev). rewrite Ev.
    destruct VI as [VL VV VR VO VS VB VG].
    set (q := frontC c) in *.
    assert (Hk : q mod len < len) by (apply Nat.mod_upper_bound; lia).
    assert (Hcur : W c (q mod len) = q) by (apply VR; lia).
    constructor; cbn [vals clog plog]; auto.
    + intros k Hk' Hw. rewrite (EW k Hk') in *. apply VV; assumption.
    + intros p Hp. rewrite EP, EC in Hp.
      assert (Hpl : p mod len < len) by (apply Nat.mod_upper_bound; lia).
      rewrite (EW _ Hpl). apply VR. lia.
    + lia.
    + apply ssorted_snoc; [exact VS|].
      eapply Forall_impl; [|exact VB]. cbv beta. intros a Ha. lia.
    + apply Forall_app; split.
      * eapply Forall_impl; [|exact VB]. cbv beta. intros a Ha. lia.
      * constructor; [lia | constructor].
    + rewrite map_app, VG. cbn [map]. f_equal. f_equal.
      rewrite (VV _ Hk) by (rewrite Hcur; lia). rewrite Hcur. reflexivity.
Qed.

Lemma vstep_nr c s v :
  InvX len c -> VInv c v -> is_creset s = false -> NR c v -> NR (step_x len c s) (vstep c s v).
Proof.
  intros I VI Hs [N1 N2].
  destruct (step_cases c s I) as [(Q & Hv & Hpc)|[E|E]].
  - rewrite Hv. destruct Q as (_ & _ & _ & Qe). split; [apply Hpc; assumption|].
    rewrite Qe by assumption. exact N2.
  - destruct E as (_ & _ & EC & Epc & _ & Ev). rewrite Ev. split; [rewrite Epc; exact N1|].
    cbn [plog]. rewrite EC. exact N2.
  - destruct E as (_ & _ & EC & Epc & _ & _ & Ev). rewrite Ev. split; [exact Epc|].
    cbn [plog]. rewrite EC, N2. pose proof (v_lo c v VI) as Hlo.
    replace (frontC c + 1 - len) with (S (frontC c - len)) by lia.
    rewrite seq_S. f_equal. f_equal. lia.
Qed.

Lemma vinit_inv : VInv (init_x len) vinit0.
Proof.
  constructor; unfold vinit0, frontC, frontP, init_x; cbn [vals clog plog P C pos off].
  - rewrite map_length, seq_length. reflexivity.
  - intros k Hk Hw. exfalso. unfold W, mtx in Hw. cbn [metas] in Hw.
    rewrite nth_init_meta in Hw by exact Hk. cbn [wpos] in Hw. lia.
  - intros p Hp. lia.
  - lia.
  - constructor.
  - constructor.
  - reflexivity.
Qed.

Lemma vinit_nr : NR (init_x len) vinit0.
Proof.
  unfold NR, vinit0, frontC, init_x; cbn [plog C pos off pc]. split; [discriminate|].
  rewrite Nat.add_0_r, Nat.sub_diag. reflexivity.
Qed.

Lemma vexec_inv script : forall c v, InvX len c -> VInv c v ->
  InvX len (fst (vexec c v script)) /\ VInv (fst (vexec c v script)) (snd (vexec c v script)).
Proof.
  induction script as [|s r IH]; intros c v I VI; cbn [vexec]; [cbn [fst snd]; auto|].
  apply IH; [apply step_invx; assumption | apply vstep_inv; assumption].
Qed.

Lemma vexec_nr script : forall c v, InvX len c -> VInv c v ->
  forallb (fun s => negb (is_creset s)) script = true -> NR c v ->
  NR (fst (vexec c v script)) (snd (vexec c v script)).
Proof.
  induction script as [|s r IH]; intros c v I VI Hs N; cbn [vexec]; [cbn [fst snd]; auto|].
  cbn [forallb] in Hs. apply andb_true_iff in Hs. destruct Hs as [Hs Hr].
  apply negb_true_iff in Hs.
  apply IH; [apply step_invx; assumption | apply vstep_inv; assumption | exact Hr | apply vstep_nr; assumption].
Qed.
End Values.

(* The value state after running [script] from the initial configuration, the slots holding [init k]. *)
Definition vrun (len : nat) (pv init : nat -> nat) (script : list (bool * cmd)) : vst :=
  snd (vexec len pv (init_x len) (vinit0 len init) script).

Lemma vrun_inv len pv init script : 0 < len ->
  InvX len (exec_x len (init_x len) script) /\ VInv len pv (exec_x len (init_x len) script) (vrun len pv init script).
Proof.
  intros Hl.
  pose proof (vexec_inv len Hl pv script _ _ (init_invx len Hl) (vinit_inv len Hl pv init)) as [I VI].
  rewrite vexec_fst in I, VI. split; assumption.
Qed.

(** (1) Every value the consumer reads is the value pushed at the position it believes it is reading. *)
Theorem consumed_values_x : forall len pv init script, 0 < len ->
  let v := vrun len pv init script in
  clog v = map pv (plog v).
Proof.
  intros len pv init script Hl v. destruct (vrun_inv len pv init script Hl) as [_ VI].
  exact (v_log len pv _ _ VI).
Qed.

(** (2) The positions read are strictly increasing, start at [len], and lie below the position the producer has
    published: the consumed sequence is a subsequence of the pushed sequence, in order. *)
Theorem consumed_positions_increasing_x : forall len pv init script, 0 < len ->
  let c := exec_x len (init_x len) script in
  let v := vrun len pv init script in
  StronglySorted lt (plog v) /\ Forall (fun p => len <= p < publishedP c) (plog v).
Proof.
  intros len pv init script Hl c v. destruct (vrun_inv len pv init script Hl) as [I VI].
  fold c in I, VI. fold v in VI.
  split; [exact (v_srt len pv _ _ VI)|].
  pose proof (frontC_le_posP len Hl c I) as HfC. pose proof (i_lpi len c I) as Hlpi.
  unfold publishedP. rewrite <- lastabs_last, Hlpi.
  eapply Forall_impl; [|exact (v_bd len pv _ _ VI)]. cbv beta. unfold frontC. intros a Ha. lia.
Qed.

(* the same, as an explicit statement about any two entries of the log *)
Corollary consumed_positions_lt_x : forall len pv init script i j, 0 < len ->
  let v := vrun len pv init script in
  i < j < length (plog v) -> nth i (plog v) 0 < nth j (plog v) 0.
Proof.
  intros len pv init script i j Hl v Hij.
  destruct (consumed_positions_increasing_x len pv init script Hl) as [S _]. fold v in S.
  revert S i j Hij. generalize (plog v). intros l S.
  induction S as [|a l S IH Ha]; intros i j Hij; cbn [length] in Hij; [lia|].
  destruct j as [|j]; [lia|]. destruct i as [|i]; cbn [nth].
  - rewrite Forall_forall in Ha. apply Ha. apply nth_In. lia.
  - apply IH. lia.
Qed.

(** (3) Without resets the consumed sequence is exactly a prefix of the pushed sequence: nothing is lost.
    ([Reset] entries of the producer are no-ops of the machine; only the consumer's matter.) *)
Theorem no_consumer_reset_prefix_x : forall len pv init script, 0 < len ->
  (forall j, ~ In (false, Reset j) script) ->
  let v := vrun len pv init script in
  plog v = seq len (length (plog v)).
Proof.
  intros len pv init script Hl Hnr v.
  assert (Hs : forallb (fun s => negb (is_creset s)) script = true).
  { apply forallb_forall. intros [[|] k] Hin; destruct k as [j n|j| | |]; try reflexivity.
    exfalso. exact (Hnr j Hin). }
  pose proof (vexec_nr len Hl pv script _ _ (init_invx len Hl) (vinit_inv len Hl pv init) Hs (vinit_nr len init))
    as [_ N].
  fold (vrun len pv init script) in N. fold v in N.
  rewrite N, seq_length. reflexivity.
Qed.

Theorem no_reset_prefix_x : forall len pv init script, 0 < len ->
  (forall t j, ~ In (t, Reset j) script) ->
  let v := vrun len pv init script in
  plog v = seq len (length (plog v)).
Proof.
  intros len pv init script Hl Hnr. apply no_consumer_reset_prefix_x; [exact Hl|].
  intros j. apply Hnr.
Qed.

(* ------------------------------------------------------------------------------------------------ *)
(* Examples, len = 4 (capacity 3), the value pushed at position p is 100 + p, the slots initially hold 7.
   Shown: (clog, plog).                                                                             *)
Definition pv_demo (p : nat) : nat := 100 + p.
Definition init_demo (k : nat) : nat := 7.
Definition logs (len : nat) (script : list (bool * cmd)) : list nat * list nat :=
  let v := vrun len pv_demo init_demo script in (clog v, plog v).

(* Stale reads on both sides, windows of 2, wrap-around (position 8 = slot 0, overwriting the item of position 4
   after it has been read). *)
Definition demo_stale : list (bool * cmd) :=
  [ sP 2; sP 2; sP 2; sP 2;              (* P: load+grant 2, write slots 0,1 (positions 4,5), publish -> pos 6 *)
    sP 1; sP 1; sP 1;                    (* P: grant 1 from ca, write slot 2 (position 6), publish    -> pos 7 *)
    (false, Op 1 2);                     (* C: STALE load: message 1 (P at 6), not the latest (P at 7): grant 2 *)
    sC 2; sC 2; sC 2;                    (* C: read slots 0,1 (positions 4,5), publish                -> pos 6 *)
    (true, Op 0 2);                      (* P: STALE load: sees C at 4: nothing free, no grant                  *)
    sP 2; sP 2; sP 2; sP 2;              (* P: load (C at 6): grant 2, write slots 3,0 (positions 7,8) -> pos 9 *)
    (false, Op 2 3);                     (* C: STALE load: message 2 (P at 7): 1 available < 3, no grant        *)
    sC 1; sC 1; sC 1;                    (* C: grant 1 from ca, read slot 2 (position 6), publish     -> pos 7 *)
    sC 2; sC 2; sC 2; sC 2 ].            (* C: load (P at 9): grant 2, read slots 3,0 (positions 7,8) -> pos 9 *)
Example demo_stale_logs :
  logs 4 demo_stale = ([104; 105; 106; 107; 108], [4; 5; 6; 7; 8])
  /\ summary (exec_x 4 (init_x 4) demo_stale) = (false, (1, 9, 0, 0), (1, 9, 0, 0, false), 9).
Proof. vm_compute. split; reflexivity. Qed.

(* RAx.v's reset demo: positions 5 and 6 are skipped by the reset; the slot of position 5 (slot 1) is overwritten
   by position 9 without ever having been read; what IS read is the value pushed at that position. *)
Example demo_reset_logs : logs 4 demo_reset = ([104; 107; 108; 109], [4; 7; 8; 9]).
Proof. vm_compute. reflexivity. Qed.

(* RAx.v's detached demo: reads made while detached (positions 4,5,6), a wrap into a slot read while detached
   (position 8 = slot 0), reads after re-attaching (7, 8). *)
Example demo_detached_logs : logs 4 demo_detached = ([104; 105; 106; 107; 108], [4; 5; 6; 7; 8]).
Proof. vm_compute. reflexivity. Qed.

(* A reset while detached (after reading position 4; positions 5, 6 skipped), then one more push and a pop. *)
Example demo_detached_reset_logs :
  logs 4 (firstn 6 demo_detached ++ [sC 1; sC 1; sC 1; kC (Reset 99); sC 0; kC Sync;
                                     sP 2; sP 2; sP 2; sP 2; sC 2; sC 2; sC 2; sC 2])
  = ([104; 107; 108], [4; 7; 8]).
Proof. vm_compute. reflexivity. Qed.

Print Assumptions consumed_values_x.
Print Assumptions consumed_positions_increasing_x.
Print Assumptions no_reset_prefix_x.
