(** * The thread-local arithmetic of the release/acquire machine is the arithmetic of the Rust source.

    The machines of Conc/ compute a thread's next index, remembered availability and grant decision with [wadd], [dist],
    [pavail].  The same decisions are made by the kernels TRANSLATED FROM THE RUST SOURCE on every run (gen/Kernels.v, K-tie):
    for every state of the multi-slot two-stage machine [RAn], the producer's / consumer's step at pc 0 (request [n]: grant
    from the remembered availability, else one load and a refresh) is [check] as written in iterator_trait.rs with the
    [_available] of prod_iter.rs / cons_iter.rs, applied to the value of the message the machine reads; and the step at pc 3
    (publication) is [advance]: the stored index is the one the source stores, the remembered availability decreases as in
    [advance_local].  So an arithmetic slip in the source (wrap condition, off-by-one in the producer's reserve slot,
    forgotten cache update) breaks these lemmas for a symbolic state - not only the sampled executions of S-script. *)
From Coq Require Import List Arith Lia Bool.
Import ListNotations.
Require Import MRB.Base.Ring MRB.Model.KernelM MRB.gen.Kernels MRB.Proofs.KernelTie.
Require MRB.Conc.RA MRB.Conc.RAn.

Lemma wadd_same : RA.wadd = Ring.wadd.  Proof. reflexivity. Qed.
Lemma dist_same : RA.dist = Ring.dist.  Proof. reflexivity. Qed.
Lemma pavail_same : RA.pavail = Ring.pavail.  Proof. reflexivity. Qed.

Section Tie.
Variables (acqP acqC : bool) (len : nat).
Hypothesis Hmax : len + len < usize_max.

(** the message the producer would read at pc 0 with read choice [j] *)
Definition msgP (c : RAn.cfg_n) (j : nat) : RA.msg :=
  nth (RA.pick (RA.vci (RAn.V (RAn.P c))) (length (RAn.Mci c)) j) (RAn.Mci c) RA.dmsg.
Definition msgC (c : RAn.cfg_n) (j : nat) : RA.msg :=
  nth (RA.pick (RA.vpi (RAn.V (RAn.C c))) (length (RAn.Mpi c)) j) (RAn.Mpi c) RA.dmsg.

(** pc 0 of the producer = [check(n)] of the source with [ProdIter::_available] on the value read *)
Theorem machine_check_P c j n0 :
  RAn.pc (RAn.P c) = 0 -> RAn.ix (RAn.P c) < len -> RA.mval (msgP c j) < len ->
  let t := RAn.P c in let t' := RAn.P (RAn.stepP_a acqP len j n0 c) in
  run (g_check (mkE (RA.mval (msgP c j)) len) (g_prod_available (mkE (RA.mval (msgP c j)) len)) (Nat.max 1 n0)) (mkL (RAn.ix t) (RAn.ca t))
  = Some (RAn.pc t' =? 2, mkL (RAn.ix t') (RAn.ca t'), []).
Proof.
  intros Hpc Hix Hs t t'. rewrite (tie_check_prod len _ _ _ Hix Hs Hmax).
  unfold t', RAn.stepP_a. rewrite Hpc. fold t. unfold msgP. fold t.
  destruct (Nat.max 1 n0 <=? RAn.ca t) eqn:E; cbn [RAn.P RAn.pc RAn.ix RAn.ca]; [reflexivity|].
  rewrite pavail_same. destruct (Nat.max 1 n0 <=? Ring.pavail len (RAn.ix t) _); reflexivity.
Qed.

Theorem machine_check_C c j n0 :
  RAn.pc (RAn.C c) = 0 -> RAn.ix (RAn.C c) < len -> RA.mval (msgC c j) < len ->
  let t := RAn.C c in let t' := RAn.C (RAn.stepC_a acqC len j n0 c) in
  run (g_check (mkE (RA.mval (msgC c j)) len) (g_cons_available (mkE (RA.mval (msgC c j)) len)) (Nat.max 1 n0)) (mkL (RAn.ix t) (RAn.ca t))
  = Some (RAn.pc t' =? 2, mkL (RAn.ix t') (RAn.ca t'), []).
Proof.
  intros Hpc Hix Hs t t'. rewrite (tie_check_cons len _ _ _ Hix Hs Hmax).
  unfold t', RAn.stepC_a. rewrite Hpc. fold t. unfold msgC. fold t.
  destruct (Nat.max 1 n0 <=? RAn.ca t) eqn:E; cbn [RAn.C RAn.pc RAn.ix RAn.ca]; [reflexivity|].
  rewrite dist_same. destruct (Nat.max 1 n0 <=? Ring.dist len (RAn.ix t) _); reflexivity.
Qed.

(** pc 3 = [advance(cnt)] of the source: new local index, new remembered availability, and THE VALUE STORED in the index word *)
Theorem machine_advance_P c j n0 succ :
  RAn.pc (RAn.P c) = 3 -> RAn.ix (RAn.P c) < len -> succ < len -> RAn.cnt (RAn.P c) <= len ->
  let t := RAn.P c in let c' := RAn.stepP_a acqP len j n0 c in let t' := RAn.P c' in
  run (g_advance (mkE succ len) (RAn.cnt t)) (mkL (RAn.ix t) (RAn.ca t))
  = Some (tt, mkL (RAn.ix t') (RAn.ca t'), [RA.mval (last (RAn.Mpi c') RA.dmsg)]).
Proof.
  intros Hpc Hix Hs Hn t c' t'. rewrite (tie_advance len succ _ _ Hix Hs Hmax _ Hn).
  unfold t', c', RAn.stepP_a. rewrite Hpc. fold t. cbn [RAn.P RAn.Mpi RAn.ix RAn.ca].
  rewrite last_last. cbn [RA.mval]. rewrite wadd_same. reflexivity.
Qed.

Theorem machine_advance_C c j n0 succ :
  RAn.pc (RAn.C c) = 3 -> RAn.ix (RAn.C c) < len -> succ < len -> RAn.cnt (RAn.C c) <= len ->
  let t := RAn.C c in let c' := RAn.stepC_a acqC len j n0 c in let t' := RAn.C c' in
  run (g_advance (mkE succ len) (RAn.cnt t)) (mkL (RAn.ix t) (RAn.ca t))
  = Some (tt, mkL (RAn.ix t') (RAn.ca t'), [RA.mval (last (RAn.Mci c') RA.dmsg)]).
Proof.
  intros Hpc Hix Hs Hn t c' t'. rewrite (tie_advance len succ _ _ Hix Hs Hmax _ Hn).
  unfold t', c', RAn.stepC_a. rewrite Hpc. fold t. cbn [RAn.C RAn.Mci RAn.ix RAn.ca].
  rewrite last_last. cbn [RA.mval]. rewrite wadd_same. reflexivity.
Qed.
End Tie.

(** in every reachable state of the machine the side conditions hold: the four equalities above are unconditional along executions *)
Require Import MRB.Conc.RAnproof.
Theorem machine_is_source_arithmetic : forall len script, 0 < len -> len + len < usize_max ->
  let c := RAn.exec_n len (RAn.init_n len) script in
  (forall j n0, RAn.pc (RAn.P c) = 0 ->
     run (g_check (mkE (RA.mval (msgP c j)) len) (g_prod_available (mkE (RA.mval (msgP c j)) len)) (Nat.max 1 n0)) (mkL (RAn.ix (RAn.P c)) (RAn.ca (RAn.P c)))
     = Some (RAn.pc (RAn.P (RAn.stepP_a true len j n0 c)) =? 2,
             mkL (RAn.ix (RAn.P (RAn.stepP_a true len j n0 c))) (RAn.ca (RAn.P (RAn.stepP_a true len j n0 c))), [])) /\
  (forall j n0, RAn.pc (RAn.C c) = 0 ->
     run (g_check (mkE (RA.mval (msgC c j)) len) (g_cons_available (mkE (RA.mval (msgC c j)) len)) (Nat.max 1 n0)) (mkL (RAn.ix (RAn.C c)) (RAn.ca (RAn.C c)))
     = Some (RAn.pc (RAn.C (RAn.stepC_a true len j n0 c)) =? 2,
             mkL (RAn.ix (RAn.C (RAn.stepC_a true len j n0 c))) (RAn.ca (RAn.C (RAn.stepC_a true len j n0 c))), [])) /\
  (forall j n0 succ, RAn.pc (RAn.P c) = 3 -> succ < len ->
     run (g_advance (mkE succ len) (RAn.cnt (RAn.P c))) (mkL (RAn.ix (RAn.P c)) (RAn.ca (RAn.P c)))
     = Some (tt, mkL (RAn.ix (RAn.P (RAn.stepP_a true len j n0 c))) (RAn.ca (RAn.P (RAn.stepP_a true len j n0 c))),
             [RA.mval (last (RAn.Mpi (RAn.stepP_a true len j n0 c)) RA.dmsg)])) /\
  (forall j n0 succ, RAn.pc (RAn.C c) = 3 -> succ < len ->
     run (g_advance (mkE succ len) (RAn.cnt (RAn.C c))) (mkL (RAn.ix (RAn.C c)) (RAn.ca (RAn.C c)))
     = Some (tt, mkL (RAn.ix (RAn.C (RAn.stepC_a true len j n0 c))) (RAn.ca (RAn.C (RAn.stepC_a true len j n0 c))),
             [RA.mval (last (RAn.Mci (RAn.stepC_a true len j n0 c)) RA.dmsg)])).
Proof.
  intros len script Hl Hmax c.
  pose proof (exec_invn len Hl script) as I. fold c in I.
  assert (HixP : RAn.ix (RAn.P c) < len) by (rewrite (i_ixP len c I); apply Nat.mod_upper_bound; lia).
  assert (HixC : RAn.ix (RAn.C c) < len) by (rewrite (i_ixC len c I); apply Nat.mod_upper_bound; lia).
  assert (HmP : forall j, RA.mval (msgP c j) < len).
  { intros j. unfold msgP. destruct (i_vP len c I) as (_ & Hv & _).
    pose proof (pick_bounds_n (RA.vci (RAn.V (RAn.P c))) (length (RAn.Mci c)) j Hv) as [_ Hb].
    pose proof (proj1 (Forall_forall _ _) (i_mci len c I) _ (nth_In _ RA.dmsg Hb)) as [E _].
    rewrite E. apply Nat.mod_upper_bound; lia. }
  assert (HmC : forall j, RA.mval (msgC c j) < len).
  { intros j. unfold msgC. destruct (i_vC len c I) as (Hv & _).
    pose proof (pick_bounds_n (RA.vpi (RAn.V (RAn.C c))) (length (RAn.Mpi c)) j Hv) as [_ Hb].
    pose proof (proj1 (Forall_forall _ _) (i_mpi len c I) _ (nth_In _ RA.dmsg Hb)) as [E _].
    rewrite E. apply Nat.mod_upper_bound; lia. }
  repeat match goal with |- _ /\ _ => split end.
  - intros j n0 Hpc. apply (machine_check_P true len Hmax c j n0 Hpc HixP (HmP j)).
  - intros j n0 Hpc. apply (machine_check_C true len Hmax c j n0 Hpc HixC (HmC j)).
  - intros j n0 succ Hpc Hs. apply (machine_advance_P true len Hmax c j n0 succ Hpc HixP Hs).
    pose proof (caP_cap len Hl c I). destruct (i_pcP len c I) as [[E _]|[(E & _)|(_ & _ & E)]]; [congruence|congruence|lia].
  - intros j n0 succ Hpc Hs. apply (machine_advance_C true len Hmax c j n0 succ Hpc HixC Hs).
    pose proof (caC_cap len Hl c I). destruct (i_pcC len c I) as [[E _]|[(E & _)|(_ & _ & E)]]; [congruence|congruence|lia].
Qed.

(** three stages: the WORKER's request gate is [check] with [WorkIter::_available] on the value read from the producer's index *)
Require MRB.Conc.RA3 MRB.Conc.RA3n.
Section Tie3.
Variables (acqW : bool) (len : nat).
Hypothesis Hmax : len + len < usize_max.
Definition msgW (c : RA3n.cfg3n) (j : nat) : RA3.msg3 :=
  nth (RA.pick (RA3.vpi3 (RA3n.V3 (RA3n.W3 c))) (length (RA3n.Mpi3 c)) j) (RA3n.Mpi3 c) RA3.dmsg3.

Theorem machine_check_W c j n0 :
  RA3n.pc3 (RA3n.W3 c) = 0 -> RA3n.ix3 (RA3n.W3 c) < len -> RA3.mval3 (msgW c j) < len ->
  let t := RA3n.W3 c in let t' := RA3n.W3 (RA3n.stepW3_a acqW len j n0 c) in
  run (g_check (mkE (RA3.mval3 (msgW c j)) len) (g_work_available (mkE (RA3.mval3 (msgW c j)) len)) (Nat.max 1 n0)) (mkL (RA3n.ix3 t) (RA3n.ca3 t))
  = Some (RA3n.pc3 t' =? 2, mkL (RA3n.ix3 t') (RA3n.ca3 t'), []).
Proof.
  intros Hpc Hix Hs t t'. rewrite (tie_check_work len _ _ _ Hix Hs Hmax).
  unfold t', RA3n.stepW3_a. rewrite Hpc. fold t. unfold msgW. fold t.
  destruct (Nat.max 1 n0 <=? RA3n.ca3 t) eqn:E; cbn [RA3n.W3 RA3n.pc3 RA3n.ix3 RA3n.ca3]; [reflexivity|].
  rewrite dist_same. destruct (Nat.max 1 n0 <=? Ring.dist len (RA3n.ix3 t) _); reflexivity.
Qed.
End Tie3.
Print Assumptions machine_check_W.

(** the reset / detached machine RAx: [reset_index] (load, then jump and - attached - store), [Detached::reset_index] (no store),
    [Detached::advance] (local), [sync_index] / [attach] (store of the unchanged index) are the translated source functions *)
Require MRB.Conc.RAx.
Section TieX.
Variables (acqC : bool) (len : nat).

Definition msgXC (c : RAx.cfg_x) (j : nat) : RA.msg :=
  nth (RA.pick (RA.vpi (RAx.V (RAx.C c))) (length (RAx.Mpi c)) j) (RAx.Mpi c) RA.dmsg.

(* Reset j at pc 0 followed by the consumer's next Op entry, attached: ConsIter::reset_index *)
Theorem machine_reset_attached c j j' n' :
  RAx.pc (RAx.C c) = 0 -> RAx.det (RAx.C c) = false ->
  let c2 := RAx.opC_a acqC len j' n' (RAx.resetC_a acqC j c) in
  run (g_cons_reset (mkE (RA.mval (msgXC c j)) len)) (mkL (RAx.ix (RAx.C c)) (RAx.ca (RAx.C c)))
  = Some (tt, mkL (RAx.ix (RAx.C c2)) (RAx.ca (RAx.C c2)), [RA.mval (last (RAx.Mci c2) RA.dmsg)]).
Proof.
  intros Hpc Hd c2. rewrite (proj1 (tie_reset len _ _ _)).
  unfold c2, RAx.opC_a, RAx.resetC_a. cbn [RAx.C RAx.pc RAx.nix RAx.npos]. unfold RAx.finishC. cbn [RAx.C RAx.det]. rewrite Hd.
  unfold RAx.publishC. cbn [RAx.C RAx.Mci RAx.ix RAx.ca]. rewrite last_last. reflexivity.
Qed.

(* the same while detached: Detached::reset_index - nothing is stored *)
Theorem machine_reset_detached c j j' n' :
  RAx.pc (RAx.C c) = 0 -> RAx.det (RAx.C c) = true ->
  let c2 := RAx.opC_a acqC len j' n' (RAx.resetC_a acqC j c) in
  run (g_dreset (mkE (RA.mval (msgXC c j)) len)) (mkL (RAx.ix (RAx.C c)) (RAx.ca (RAx.C c)))
  = Some (tt, mkL (RAx.ix (RAx.C c2)) (RAx.ca (RAx.C c2)), []) /\ RAx.Mci c2 = RAx.Mci c.
Proof.
  intros Hpc Hd c2. rewrite (tie_dreset len _ _ _).
  unfold c2, RAx.opC_a, RAx.resetC_a. cbn [RAx.C RAx.pc RAx.nix RAx.npos]. unfold RAx.finishC. cbn [RAx.C RAx.det]. rewrite Hd.
  unfold RAx.localC. cbn [RAx.C RAx.Mci RAx.ix RAx.ca]. split; reflexivity.
Qed.

(* the end of a detached operation: Detached::advance - local index and remembered availability only *)
Theorem machine_advance_detached c j n0 succ :
  RAx.pc (RAx.C c) = 3 -> RAx.det (RAx.C c) = true -> RAx.ix (RAx.C c) < len -> succ < len -> len + len < usize_max ->
  RAx.cnt (RAx.C c) <= len ->
  let c2 := RAx.opC_a acqC len j n0 c in
  run (g_dadvance (mkE succ len) (RAx.cnt (RAx.C c))) (mkL (RAx.ix (RAx.C c)) (RAx.ca (RAx.C c)))
  = Some (tt, mkL (RAx.ix (RAx.C c2)) (RAx.ca (RAx.C c2)), []) /\ RAx.Mci c2 = RAx.Mci c.
Proof.
  intros Hpc Hd Hix Hs Hmax Hn c2. rewrite (proj1 (tie_dadvance len succ _ _ Hix Hs Hmax _ Hn)).
  unfold c2, RAx.opC_a. rewrite Hpc. unfold RAx.finishC. rewrite Hd. unfold RAx.localC. cbn [RAx.C RAx.Mci RAx.ix RAx.ca].
  rewrite wadd_same. split; reflexivity.
Qed.

(* Sync / Attach: sync_index stores the current local index and changes nothing else *)
Theorem machine_sync c succ :
  RAx.pc (RAx.C c) = 0 ->
  let c2 := RAx.stepC_a acqC len RAx.Sync c in let c3 := RAx.stepC_a acqC len RAx.Attach c in
  run (g_sync_index (mkE succ len)) (mkL (RAx.ix (RAx.C c)) (RAx.ca (RAx.C c)))
  = Some (tt, mkL (RAx.ix (RAx.C c2)) (RAx.ca (RAx.C c2)), [RA.mval (last (RAx.Mci c2) RA.dmsg)]) /\
  run (g_sync_index (mkE succ len)) (mkL (RAx.ix (RAx.C c)) (RAx.ca (RAx.C c)))
  = Some (tt, mkL (RAx.ix (RAx.C c3)) (RAx.ca (RAx.C c3)), [RA.mval (last (RAx.Mci c3) RA.dmsg)]).
Proof.
  intros Hpc c2 c3. rewrite (proj1 (tie_sync len succ _ _)).
  unfold c2, c3, RAx.stepC_a. rewrite Hpc. unfold RAx.publishC. cbn [RAx.C RAx.Mci RAx.ix RAx.ca]. rewrite !last_last. split; reflexivity.
Qed.
End TieX.

Print Assumptions machine_reset_attached.
Print Assumptions machine_reset_detached.
Print Assumptions machine_advance_detached.
Print Assumptions machine_sync.
Print Assumptions machine_is_source_arithmetic.
Print Assumptions machine_check_P.
Print Assumptions machine_check_C.
Print Assumptions machine_advance_P.
Print Assumptions machine_advance_C.
