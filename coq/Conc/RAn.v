(** * The two-stage release/acquire view machine of RA.v with MULTI-SLOT operations
      (the crate's slice operations: [push_slice], [copy_slice], ...).

    As in RA.v: two threads (P pushes, C pops), index locations are append-only message lists
    (value, absolute position, view); a load may read any message at or after the loading thread's view
    (stale reads) and joins the view of the message read; a store appends a message carrying the storing
    thread's view; every slot access goes through the vector-clock race detector ([metas], [race]).

    New here: one operation handles a WINDOW of [cnt >= 1] consecutive ring slots.
    A script entry is [(thread, read choice j, requested count n)].  The count is consulted only at pc 0,
    when an operation starts, and is remembered in the thread record (fields [cnt], [off]).

      pc 0  check : let n := max 1 (requested count)     -- a request of 0 items is treated as a request of 1
                    if n <= ca then grant (pc := 2, cnt := n, off := 0)
                    else load the other index (any admissible message, acquire),
                         ca := fresh availability ([pavail] for P, [dist] for C);
                         if n <= ca then grant else stay at pc 0
                    (a request n > len - 1 is never granted: ca <= len - 1 always; the thread stays at pc 0
                     and its next step starts a new operation with the count of that script entry)
      pc 2  access ONE slot of the window: slot [wadd len ix off] at absolute position [pos + off]
                    (write for P, read for C; exactly the race checks of RA.v), off := off + 1,
                    and when off = cnt go to pc 3
      pc 3  publish: ix := wadd len ix cnt, pos := pos + cnt, ca := ca - cnt,
                    append the message with the thread's view (watermark pos + cnt), pc := 0.

    The booleans [acqP] / [acqC] say whether the producer's / the consumer's index load is (at least) Acquire,
    i.e. joins the view of the message read.  [stepP_n], [stepC_n], [exec_n] are the machine with both set;
    the examples at the end show that dropping either join makes the detector fire. *)
From Coq Require Import List Arith Lia Bool.
Import ListNotations.
Require Import MRB.Conc.RA.

(* The thread record of RA.v lacks [cnt] and [off]: new records, same field names (they shadow RA's). *)
Record thr_n := mkTn { ix : nat; ca : nat; V : view; pc : nat; pos : nat; cnt : nat; off : nat }.
Record cfg_n := mkCn { Mpi : list msg; Mci : list msg; metas : list meta; P : thr_n; C : thr_n; race : bool }.

Definition vzero := mkV 0 0 0 0 0 0.

Section M.
Variables (acqP acqC : bool).
Variable len : nat.

Definition stepP_a (j n0 : nat) (c : cfg_n) : cfg_n :=
  let t := P c in
  match pc t with
  | 0 =>
    let n := Nat.max 1 n0 in
    if n <=? ca t then
      mkCn (Mpi c) (Mci c) (metas c) (mkTn (ix t) (ca t) (V t) 2 (pos t) n 0) (C c) (race c)
    else
      let i := pick (vci (V t)) (length (Mci c)) j in
      let m := nth i (Mci c) dmsg in
      let v0 := V t in
      let v1 := vjoin (mkV (vpi v0) i (kp v0) (kc v0) (wP v0) (wC v0)) (if acqP then mview m else vzero) in
      let a := pavail len (ix t) (mval m) in
      mkCn (Mpi c) (Mci c) (metas c)
           (mkTn (ix t) a v1 (if n <=? a then 2 else 0) (pos t) n 0) (C c) (race c)
  | 2 =>
    let k := wadd len (ix t) (off t) in
    let mt := nth k (metas c) dmeta in
    let bad := negb (rclk mt <=? kc (V t)) in
    mkCn (Mpi c) (Mci c) (upd k (mkMeta (pos t + off t) (kp (V t)) (rpos mt) (rclk mt)) (metas c))
         (mkTn (ix t) (ca t) (V t) (if cnt t <=? off t + 1 then 3 else 2) (pos t) (cnt t) (off t + 1))
         (C c) (race c || bad)
  | 3 =>
    let ix' := wadd len (ix t) (cnt t) in
    let p' := pos t + cnt t in
    let v0 := V t in
    let v1 := mkV (length (Mpi c)) (vci v0) (kp v0) (kc v0) p' (wC v0) in
    let m := mkM ix' p' v1 in
    mkCn (Mpi c ++ [m]) (Mci c) (metas c)
         (mkTn ix' (ca t - cnt t) (mkV (vpi v1) (vci v1) (S (kp v1)) (kc v1) (wP v1) (wC v1)) 0 p' (cnt t) 0)
         (C c) (race c)
  | _ => c
  end.

Definition stepC_a (j n0 : nat) (c : cfg_n) : cfg_n :=
  let t := C c in
  match pc t with
  | 0 =>
    let n := Nat.max 1 n0 in
    if n <=? ca t then
      mkCn (Mpi c) (Mci c) (metas c) (P c) (mkTn (ix t) (ca t) (V t) 2 (pos t) n 0) (race c)
    else
      let i := pick (vpi (V t)) (length (Mpi c)) j in
      let m := nth i (Mpi c) dmsg in
      let v0 := V t in
      let v1 := vjoin (mkV i (vci v0) (kp v0) (kc v0) (wP v0) (wC v0)) (if acqC then mview m else vzero) in
      let a := dist len (ix t) (mval m) in
      mkCn (Mpi c) (Mci c) (metas c) (P c)
           (mkTn (ix t) a v1 (if n <=? a then 2 else 0) (pos t) n 0) (race c)
  | 2 =>
    let k := wadd len (ix t) (off t) in
    let mt := nth k (metas c) dmeta in
    let bad := negb (wclk mt <=? kp (V t)) in
    mkCn (Mpi c) (Mci c) (upd k (mkMeta (wpos mt) (wclk mt) (pos t + off t) (kc (V t))) (metas c))
         (P c)
         (mkTn (ix t) (ca t) (V t) (if cnt t <=? off t + 1 then 3 else 2) (pos t) (cnt t) (off t + 1))
         (race c || bad)
  | 3 =>
    let ix' := wadd len (ix t) (cnt t) in
    let p' := pos t + cnt t in
    let v0 := V t in
    let v1 := mkV (vpi v0) (length (Mci c)) (kp v0) (kc v0) (wP v0) p' in
    let m := mkM ix' p' v1 in
    mkCn (Mpi c) (Mci c ++ [m]) (metas c) (P c)
         (mkTn ix' (ca t - cnt t) (mkV (vpi v1) (vci v1) (kp v1) (S (kc v1)) (wP v1) (wC v1)) 0 p' (cnt t) 0)
         (race c)
  | _ => c
  end.

(* script entry: (thread (true = P), read choice, requested count) *)
Definition step_a (c : cfg_n) (s : bool * nat * nat) : cfg_n :=
  let '(b, j, n) := s in if b then stepP_a j n c else stepC_a j n c.
Definition exec_a (c : cfg_n) (script : list (bool * nat * nat)) : cfg_n := fold_left step_a script c.

(* As in RA.v both threads start at absolute position [len] (so that "one lap earlier" never underflows);
   slot k was last written / read at position k, with clock 0. *)
Definition init_n : cfg_n :=
  mkCn [mkM 0 len (vbot len)] [mkM 0 len (vbot len)]
       (map (fun k => mkMeta k 0 k 0) (seq 0 len))
       (mkTn 0 0 (v0P len) 0 len 0 0) (mkTn 0 0 (v0C len) 0 len 0 0) false.

End M.

(* The release/acquire machine: both index loads acquire. *)
Definition stepP_n := stepP_a true.
Definition stepC_n := stepC_a true.
Definition step_n := step_a true true.
Definition exec_n := exec_a true true.

(* ------------------------------------------------------------------------------------------------ *)
(* Examples, len = 4 (capacity 3).  [P n] / [Cs n] : one step of the producer / consumer, always reading the
   latest message of the other index (read choice 99), requested count n (only looked at when an operation
   starts).                                                                                              *)
Definition sP (n : nat) : bool * nat * nat := (true, 99, n).
Definition sC (n : nat) : bool * nat * nat := (false, 99, n).

(* P pushes a window of 3 (check, 3 writes, publish); C pops 2 (check, 2 reads, publish);
   P asks for 2 more while C is popping 1: P's window wraps around the end of the ring (slots 3 and 0). *)
Definition demo : list (bool * nat * nat) :=
  [ sP 3; sP 3; sP 3; sP 3; sP 3;            (* P: load+grant 3, write 0,1,2, publish -> ix 3      *)
    sC 2; sC 2; sC 2; sC 2;                  (* C: load+grant 2, read 0,1, publish    -> ix 2      *)
    sP 2; sC 1; sP 2; sC 1; sP 2; sC 1; sP 2 (* P: load+grant 2, write 3,0, publish   -> ix 1 ;
                                                C: grant 1 from the remembered ca, read 2, publish -> ix 3 *)
  ].

Definition summary (c : cfg_n) :=
  (race c, (ix (P c), pos (P c), ca (P c), pc (P c)), (ix (C c), pos (C c), ca (C c), pc (C c))).

Example demo_race_free :
  summary (exec_n 4 (init_n 4) demo) = (false, (1, 9, 0, 0), (3, 7, 0, 0)).
Proof. vm_compute. reflexivity. Qed.

(* Same script, but the consumer's load of the producer index does not join the message view
   (a Relaxed load): the consumer's first read of slot 0 is not ordered after the producer's write. *)
Example demo_consumer_relaxed_races :
  race (exec_a true false 4 (init_n 4) demo) = true.
Proof. vm_compute. reflexivity. Qed.

(* Same script, but the producer's load of the consumer index does not join: the producer's second window
   overwrites slot 0 without being ordered after the consumer's read of it. *)
Example demo_producer_relaxed_races :
  race (exec_a false true 4 (init_n 4) demo) = true.
Proof. vm_compute. reflexivity. Qed.

(* A stale read simply does not grant: C reads the initial message (choice 0) and stays at pc 0. *)
Example demo_stale_read :
  summary (exec_n 4 (init_n 4) [sP 3; sP 3; sP 3; sP 3; sP 3; (false, 0, 2)])
  = (false, (3, 7, 0, 0), (0, 4, 0, 0)).
Proof. vm_compute. reflexivity. Qed.

(* A request larger than the capacity is never granted. *)
Example demo_too_large :
  summary (exec_n 4 (init_n 4) [sP 4; sP 4; sP 4]) = (false, (0, 4, 3, 0), (0, 4, 0, 0)).
Proof. vm_compute. reflexivity. Qed.
