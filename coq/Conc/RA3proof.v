Require Import MRB.Conc.RA MRB.Conc.RA3.
From Coq Require Import List Arith Lia Bool.
Import ListNotations.
Local Arguments Nat.leb : simpl never.
Local Arguments Nat.ltb : simpl never.
Local Arguments Nat.modulo : simpl never.
Local Arguments Nat.max : simpl never.
Local Arguments Nat.min : simpl never.
Ltac splits := repeat match goal with |- _ /\ _ => split end.

Section Inv3.
Variable len : nat.
Hypothesis Hlen : 0 < len.

Definition sorted3 (M : list msg3) : Prop :=
  forall i j, i <= j -> j < length M -> mabs3 (nth i M dmsg3) <= mabs3 (nth j M dmsg3).
Definition lastabs3 (M : list msg3) : nat := mabs3 (nth (length M - 1) M dmsg3).
Definition mt3 (c : cfg3) (k : nat) : meta3 := nth k (metas3 c) dmeta3.

(* write-coverage of one slot meta by one view *)
Definition wcover (m : meta3) (v : view3) : Prop :=
  match wt m with
  | TP => wpos3 m < wP3 v -> wclk3 m <= kp3 v
  | TW => wpos3 m < wW3 v -> wclk3 m <= kw3 v
  | TC => True
  end.

Definition view_ok3 (c : cfg3) (v : view3) : Prop :=
  vpi3 v < length (Mpi3 c) /\ vwi3 v < length (Mwi3 c) /\ vci3 v < length (Mci3 c) /\
  wP3 v <= pos3 (P3 c) /\ wW3 v <= pos3 (W3 c) /\ wC3 v <= pos3 (C3 c) /\
  mabs3 (nth (vpi3 v) (Mpi3 c) dmsg3) <= wP3 v /\
  mabs3 (nth (vwi3 v) (Mwi3 c) dmsg3) <= wW3 v /\
  mabs3 (nth (vci3 v) (Mci3 c) dmsg3) <= wC3 v /\
  wC3 v <= wW3 v /\ wW3 v <= wP3 v /\ wP3 v + 1 <= wC3 v + len /\
  (forall k, k < len -> wcover (mt3 c k) v) /\
  (forall k, k < len -> rpos3 (mt3 c k) < wC3 v -> rclk3 (mt3 c k) <= kc3 v).

Definition msg_ok3 (c : cfg3) (m : msg3) : Prop :=
  mval3 m = mabs3 m mod len /\ view_ok3 c (mview3 m).

Definition seenP3 (c : cfg3) := mabs3 (nth (vci3 (V3 (P3 c))) (Mci3 c) dmsg3).
Definition seenW3 (c : cfg3) := mabs3 (nth (vpi3 (V3 (W3 c))) (Mpi3 c) dmsg3).
Definition seenC3 (c : cfg3) := mabs3 (nth (vwi3 (V3 (C3 c))) (Mwi3 c) dmsg3).

Definition pc_ok (t : thr3) : Prop :=
  pc3 t = 0 \/ (pc3 t = 2 /\ 1 <= ca3 t) \/ (pc3 t = 3 /\ 1 <= ca3 t).

Definition slot_ok (c : cfg3) (k : nat) : Prop :=
  let m := mt3 c k in
  wpos3 m mod len = k /\ rpos3 m mod len = k /\
  (wt m = TP -> wpos3 m <= pos3 (P3 c) /\ (wpos3 m = pos3 (P3 c) -> pc3 (P3 c) = 3 /\ k = ix3 (P3 c)) /\ wclk3 m <= kp3 (V3 (P3 c))) /\
  (wt m = TW -> wpos3 m <= pos3 (W3 c) /\ (wpos3 m = pos3 (W3 c) -> pc3 (W3 c) = 3 /\ k = ix3 (W3 c)) /\ wclk3 m <= kw3 (V3 (W3 c))) /\
  rpos3 m <= pos3 (C3 c) /\ (rpos3 m = pos3 (C3 c) -> pc3 (C3 c) = 3 /\ k = ix3 (C3 c)) /\ rclk3 m <= kc3 (V3 (C3 c)).

Record Inv3 (c : cfg3) : Prop := mkInv3 {
  j_metas : length (metas3 c) = len;
  j_npi : 0 < length (Mpi3 c); j_nwi : 0 < length (Mwi3 c); j_nci : 0 < length (Mci3 c);
  j_spi : sorted3 (Mpi3 c); j_swi : sorted3 (Mwi3 c); j_sci : sorted3 (Mci3 c);
  j_lpi : lastabs3 (Mpi3 c) = pos3 (P3 c);
  j_lwi : lastabs3 (Mwi3 c) = pos3 (W3 c);
  j_lci : lastabs3 (Mci3 c) = pos3 (C3 c);
  j_mpi : Forall (msg_ok3 c) (Mpi3 c);
  j_mwi : Forall (msg_ok3 c) (Mwi3 c);
  j_mci : Forall (msg_ok3 c) (Mci3 c);
  j_wpi : forall i, i < length (Mpi3 c) -> mabs3 (nth i (Mpi3 c) dmsg3) <= wP3 (mview3 (nth i (Mpi3 c) dmsg3));
  j_wwi : forall i, i < length (Mwi3 c) -> mabs3 (nth i (Mwi3 c) dmsg3) <= wW3 (mview3 (nth i (Mwi3 c) dmsg3));
  j_wci : forall i, i < length (Mci3 c) -> mabs3 (nth i (Mci3 c) dmsg3) <= wC3 (mview3 (nth i (Mci3 c) dmsg3));
  j_vP : view_ok3 c (V3 (P3 c));
  j_vW : view_ok3 c (V3 (W3 c));
  j_vC : view_ok3 c (V3 (C3 c));
  j_ixP : ix3 (P3 c) = pos3 (P3 c) mod len;
  j_ixW : ix3 (W3 c) = pos3 (W3 c) mod len;
  j_ixC : ix3 (C3 c) = pos3 (C3 c) mod len;
  j_caP : ca3 (P3 c) + pos3 (P3 c) + 1 <= seenP3 c + len;
  j_caW : ca3 (W3 c) + pos3 (W3 c) <= seenW3 c;
  j_caC : ca3 (C3 c) + pos3 (C3 c) <= seenC3 c;
  j_pcP : pc_ok (P3 c); j_pcW : pc_ok (W3 c); j_pcC : pc_ok (C3 c);
  j_slot : forall k, k < len -> slot_ok c k;
  j_race : race3 c = false
}.

(* ---- list facts ---- *)
Lemma nth_app_l3 (M : list msg3) x i : i < length M -> nth i (M ++ [x]) dmsg3 = nth i M dmsg3.
Proof. intros; apply app_nth1; auto. Qed.
Lemma nth_app_last3 (M : list msg3) x : nth (length M) (M ++ [x]) dmsg3 = x.
Proof. rewrite app_nth2 by lia. rewrite Nat.sub_diag. reflexivity. Qed.
Lemma sorted3_app M x : 0 < length M -> sorted3 M -> lastabs3 M <= mabs3 x -> sorted3 (M ++ [x]).
Proof.
  intros Hn Hs Hl i j Hij Hj. rewrite app_length in Hj; simpl in Hj.
  destruct (Nat.eq_dec j (length M)) as [->|Hne].
  - rewrite nth_app_last3.
    destruct (Nat.eq_dec i (length M)) as [->|Hi].
    + rewrite nth_app_last3; lia.
    + rewrite nth_app_l3 by lia. unfold lastabs3 in Hl.
      specialize (Hs i (length M - 1) ltac:(lia) ltac:(lia)). lia.
  - rewrite !nth_app_l3 by lia. apply Hs; lia.
Qed.
Lemma sorted3_last M i : sorted3 M -> i < length M -> mabs3 (nth i M dmsg3) <= lastabs3 M.
Proof. intros Hs Hi. unfold lastabs3. apply Hs; lia. Qed.
Lemma lastabs3_app M x : lastabs3 (M ++ [x]) = mabs3 x.
Proof. unfold lastabs3. rewrite app_length; simpl. replace (length M + 1 - 1) with (length M) by lia.
  rewrite nth_app_last3; reflexivity. Qed.
Lemma Forall_nth_msg3 (Q : msg3 -> Prop) M i : Forall Q M -> i < length M -> Q (nth i M dmsg3).
Proof. intros F Hi. rewrite Forall_forall in F. apply F. apply nth_In; auto. Qed.
Lemma Forall_app1 {A} (Q : A -> Prop) l x : Forall Q l -> Q x -> Forall Q (l ++ [x]).
Proof. intros; apply Forall_app; split; auto. Qed.
Lemma mod_plus_len a : (a + len) mod len = a mod len.
Proof. replace (a + len) with (a + 1 * len) by lia. apply Nat.mod_add; lia. Qed.

(* ---- growth ---- *)
Definition grows3 (c c' : cfg3) : Prop :=
  (exists xs, Mpi3 c' = Mpi3 c ++ xs) /\ (exists xs, Mwi3 c' = Mwi3 c ++ xs) /\ (exists xs, Mci3 c' = Mci3 c ++ xs) /\
  pos3 (P3 c) <= pos3 (P3 c') /\ pos3 (W3 c) <= pos3 (W3 c') /\ pos3 (C3 c) <= pos3 (C3 c') /\
  (forall k, k < len ->
     mt3 c' k = mt3 c k \/
     (wt (mt3 c' k) = TP /\ wpos3 (mt3 c' k) = pos3 (P3 c) /\ rpos3 (mt3 c' k) = rpos3 (mt3 c k) /\ rclk3 (mt3 c' k) = rclk3 (mt3 c k)) \/
     (wt (mt3 c' k) = TW /\ wpos3 (mt3 c' k) = pos3 (W3 c) /\ rpos3 (mt3 c' k) = rpos3 (mt3 c k) /\ rclk3 (mt3 c' k) = rclk3 (mt3 c k)) \/
     (rpos3 (mt3 c' k) = pos3 (C3 c) /\ wt (mt3 c' k) = wt (mt3 c k) /\ wpos3 (mt3 c' k) = wpos3 (mt3 c k) /\ wclk3 (mt3 c' k) = wclk3 (mt3 c k))).

Lemma view_ok3_grows c c' v : grows3 c c' -> view_ok3 c v -> view_ok3 c' v.
Proof.
  intros (Hpi & Hwi & Hci & HpP & HpW & HpC & Hm) (H1&H2&H3&H4&H5&H6&H7&H8&H9&H10&H11&H12&H13&H14).
  destruct Hpi as [xs Hpi]. destruct Hwi as [ys Hwi]. destruct Hci as [zs Hci].
  unfold view_ok3. rewrite Hpi, Hwi, Hci, !app_length.
  splits; try lia.
  - rewrite app_nth1 by lia; auto.
  - rewrite app_nth1 by lia; auto.
  - rewrite app_nth1 by lia; auto.
  - intros k Hk. specialize (H13 k Hk). unfold wcover in *.
    destruct (Hm k Hk) as [E|[(E0&E1&E2&E3)|[(E0&E1&E2&E3)|(E1&E0&E2&E3)]]].
    + rewrite E; auto.
    + rewrite E0. intros; lia.
    + rewrite E0. intros; lia.
    + rewrite E0, E2, E3. auto.
  - intros k Hk Hw. specialize (H14 k Hk).
    destruct (Hm k Hk) as [E|[(E0&E1&E2&E3)|[(E0&E1&E2&E3)|(E1&E0&E2&E3)]]].
    + rewrite E in *; auto.
    + rewrite E2, E3 in *; auto.
    + rewrite E2, E3 in *; auto.
    + lia.
Qed.
Lemma msgs_ok3_grows c c' M : grows3 c c' -> Forall (msg_ok3 c) M -> Forall (msg_ok3 c') M.
Proof.
  intros G F. eapply Forall_impl; [|exact F].
  intros m [A B]; split; auto. eapply view_ok3_grows; eauto.
Qed.

(* acquiring message [m] (index i of list M_x, i at or after the reader's coherence point) *)
Lemma maxl a b c : a <= c -> b <= c -> Nat.max a b <= c. Proof. lia. Qed.


Lemma pick_bounds lo n j : lo < n -> lo <= pick lo n j /\ pick lo n j < n.
Proof. unfold pick; intros; lia. Qed.

Lemma view_ok3_acq c v mv a b c0 :
  view_ok3 c v -> view_ok3 c mv ->
  a < length (Mpi3 c) -> b < length (Mwi3 c) -> c0 < length (Mci3 c) ->
  mabs3 (nth a (Mpi3 c) dmsg3) <= Nat.max (wP3 v) (wP3 mv) ->
  mabs3 (nth b (Mwi3 c) dmsg3) <= Nat.max (wW3 v) (wW3 mv) ->
  mabs3 (nth c0 (Mci3 c) dmsg3) <= Nat.max (wC3 v) (wC3 mv) ->
  view_ok3 c (vjoin3 (mkV3 a b c0 (kp3 v) (kw3 v) (kc3 v) (wP3 v) (wW3 v) (wC3 v)) mv).
Proof.
  intros (A1&A2&A3&A4&A5&A6&A7&A8&A9&A10&A11&A12&A13&A14) (B1&B2&B3&B4&B5&B6&B7&B8&B9&B10&B11&B12&B13&B14)
         Ha Hb Hc Ma Mb Mc.
  unfold view_ok3, vjoin3; simpl. splits; try lia.
  - destruct (Nat.max_spec a (vpi3 mv)) as [[_ ->]|[_ ->]]; lia.
  - destruct (Nat.max_spec b (vwi3 mv)) as [[_ ->]|[_ ->]]; lia.
  - destruct (Nat.max_spec c0 (vci3 mv)) as [[_ ->]|[_ ->]]; lia.
  - intros k Hk. specialize (A13 k Hk). specialize (B13 k Hk). unfold wcover in *; simpl.
    destruct (wt (mt3 c k)); auto; intros Hw.
    + destruct (Nat.max_spec (wP3 v) (wP3 mv)) as [[_ E]|[_ E]]; rewrite E in Hw;
      [specialize (B13 Hw) | specialize (A13 Hw)]; lia.
    + destruct (Nat.max_spec (wW3 v) (wW3 mv)) as [[_ E]|[_ E]]; rewrite E in Hw;
      [specialize (B13 Hw) | specialize (A13 Hw)]; lia.
  - intros k Hk Hw.
    destruct (Nat.max_spec (wC3 v) (wC3 mv)) as [[_ E]|[_ E]]; rewrite E in Hw.
    + specialize (B14 k Hk Hw); lia.
    + specialize (A14 k Hk Hw); lia.
Qed.

(* order of the three stages, derived *)
Lemma order3 c : Inv3 c ->
  pos3 (C3 c) <= pos3 (W3 c) /\ pos3 (W3 c) <= pos3 (P3 c) /\ pos3 (P3 c) + 1 <= pos3 (C3 c) + len.
Proof.
  intros I.
  pose proof (j_caP c I). pose proof (j_caW c I). pose proof (j_caC c I).
  pose proof (j_lpi c I). pose proof (j_lwi c I). pose proof (j_lci c I).
  destruct (j_vP c I) as (_&_&A&_). destruct (j_vW c I) as (B&_). destruct (j_vC c I) as (_&C&_).
  pose proof (sorted3_last _ _ (j_sci c I) A). pose proof (sorted3_last _ _ (j_spi c I) B).
  pose proof (sorted3_last _ _ (j_swi c I) C).
  unfold seenP3, seenW3, seenC3 in *. lia.
Qed.

Ltac inv3_fields I :=
  pose proof (j_metas _ I) as Hmetas;
  pose proof (j_npi _ I) as Hnpi; pose proof (j_nwi _ I) as Hnwi; pose proof (j_nci _ I) as Hnci;
  pose proof (j_spi _ I) as Hspi; pose proof (j_swi _ I) as Hswi; pose proof (j_sci _ I) as Hsci;
  pose proof (j_lpi _ I) as Hlpi; pose proof (j_lwi _ I) as Hlwi; pose proof (j_lci _ I) as Hlci;
  pose proof (j_mpi _ I) as Hmpi; pose proof (j_mwi _ I) as Hmwi; pose proof (j_mci _ I) as Hmci;
  pose proof (j_wpi _ I) as Hwpi; pose proof (j_wwi _ I) as Hwwi; pose proof (j_wci _ I) as Hwci;
  pose proof (j_vP _ I) as HvP; pose proof (j_vW _ I) as HvW; pose proof (j_vC _ I) as HvC;
  pose proof (j_ixP _ I) as HixP; pose proof (j_ixW _ I) as HixW; pose proof (j_ixC _ I) as HixC;
  pose proof (j_caP _ I) as HcaP; pose proof (j_caW _ I) as HcaW; pose proof (j_caC _ I) as HcaC;
  pose proof (j_pcP _ I) as HpcP; pose proof (j_pcW _ I) as HpcW; pose proof (j_pcC _ I) as HpcC;
  pose proof (j_slot _ I) as Hslot; pose proof (j_race _ I) as Hrace;
  pose proof (order3 _ I) as (Hcw & Hwp & Hpc).

(* a step that only changes thread-local control state of one thread (pc) keeps the slots fine *)
Lemma slot_ok_pcP c k t' : slot_ok c k -> pc3 (P3 c) <> 3 -> pos3 t' = pos3 (P3 c) -> ix3 t' = ix3 (P3 c) ->
  kp3 (V3 (P3 c)) <= kp3 (V3 t') ->
  slot_ok (mkC3 (Mpi3 c) (Mwi3 c) (Mci3 c) (metas3 c) t' (W3 c) (C3 c) (race3 c)) k.
Proof.
  unfold slot_ok, mt3; simpl. intros (S1&S2&S3&S4&S5&S6&S7) Hpc Hpos Hix Hk. rewrite Hpos.
  splits; auto. intros E. destruct (S3 E) as (T1&T2&T3). splits; auto; try lia.
Qed.
Lemma slot_ok_pcW c k t' : slot_ok c k -> pc3 (W3 c) <> 3 -> pos3 t' = pos3 (W3 c) -> ix3 t' = ix3 (W3 c) ->
  kw3 (V3 (W3 c)) <= kw3 (V3 t') ->
  slot_ok (mkC3 (Mpi3 c) (Mwi3 c) (Mci3 c) (metas3 c) (P3 c) t' (C3 c) (race3 c)) k.
Proof.
  unfold slot_ok, mt3; simpl. intros (S1&S2&S3&S4&S5&S6&S7) Hpc Hpos Hix Hk. rewrite Hpos.
  splits; auto. intros E. destruct (S4 E) as (T1&T2&T3). splits; auto; try lia.
Qed.
Lemma slot_ok_pcC c k t' : slot_ok c k -> pc3 (C3 c) <> 3 -> pos3 t' = pos3 (C3 c) -> ix3 t' = ix3 (C3 c) ->
  kc3 (V3 (C3 c)) <= kc3 (V3 t') ->
  slot_ok (mkC3 (Mpi3 c) (Mwi3 c) (Mci3 c) (metas3 c) (P3 c) (W3 c) t' (race3 c)) k.
Proof.
  unfold slot_ok, mt3; simpl. intros (S1&S2&S3&S4&S5&S6&S7) Hpc Hpos Hix Hk. rewrite Hpos.
  splits; auto; try lia.
Qed.

(* ======================= producer ======================= *)
Lemma P_fast c j : Inv3 c -> pc3 (P3 c) = 0 -> 1 <= ca3 (P3 c) -> Inv3 (stepP len j c).
Proof.
  intros I Hpc0 Hca. inv3_fields I.
  unfold stepP. rewrite Hpc0. destruct (1 <=? ca3 (P3 c)) eqn:E; [|apply Nat.leb_gt in E; lia].
  constructor; simpl; auto.
  - right; left; auto.
  - intros k Hk. apply slot_ok_pcP; simpl; auto; congruence.
Qed.

Lemma P_load c j : Inv3 c -> pc3 (P3 c) = 0 -> ca3 (P3 c) = 0 -> Inv3 (stepP len j c).
Proof.
  intros I Hpc0 Hca. inv3_fields I.
  unfold stepP. rewrite Hpc0. destruct (1 <=? ca3 (P3 c)) eqn:E; [apply Nat.leb_le in E; lia|]. clear E.
  pose proof HvP as (P1&P2&P3'&P4&P5&P6&P7&P8&P9&P10&P11&P12&P13&P14).
  pose proof (pick_bounds (vci3 (V3 (P3 c))) (length (Mci3 c)) j P3') as [Hi1 Hi2].
  set (i := pick (vci3 (V3 (P3 c))) (length (Mci3 c)) j) in *.
  set (m := nth i (Mci3 c) dmsg3).
  pose proof (Forall_nth_msg3 _ _ i Hmci Hi2) as [Hmv Hmok]. fold m in Hmv, Hmok.
  pose proof (Hwci i Hi2) as Hmw. fold m in Hmw.
  assert (Hseen : seenP3 c <= mabs3 m) by (unfold seenP3, m; apply Hsci; lia).
  assert (Hm : mabs3 m = mabs3 (nth i (Mci3 c) dmsg3)) by reflexivity.
  clearbody m. clearbody i.
  assert (HmC : mabs3 m <= pos3 (C3 c)) by (rewrite <- Hlci, Hm; apply sorted3_last; auto).
  assert (Ha : pavail len (ix3 (P3 c)) (mval3 m) = len - 1 - (pos3 (P3 c) - mabs3 m)).
  { rewrite HixP, Hmv. apply pavail_mod; lia. }
  set (v1 := vjoin3 _ (mview3 m)).
  assert (Hv1 : view_ok3 c v1).
  { apply view_ok3_acq; auto; try lia. }
  constructor; simpl; auto.
  - unfold seenP3; simpl. rewrite Ha.
    assert (mabs3 m <= mabs3 (nth (Nat.max i (vci3 (mview3 m))) (Mci3 c) dmsg3)) by (rewrite Hm; apply Hsci; destruct Hmok as (_&_&Q&_); lia).
    lia.
  - unfold pc_ok; simpl. destruct (1 <=? pavail len (ix3 (P3 c)) (mval3 m)) eqn:E; [apply Nat.leb_le in E; right; left; auto | left; auto].
  - intros k Hk. apply slot_ok_pcP; simpl; auto; try congruence. unfold v1, vjoin3; simpl. lia.
Qed.

Lemma P_write c j : Inv3 c -> pc3 (P3 c) = 2 -> Inv3 (stepP len j c).
Proof.
  intros I Hpc2. inv3_fields I.
  destruct HpcP as [X|[[_ Hca]|[X _]]]; try congruence.
  unfold stepP. rewrite Hpc2.
  pose proof HvP as (P1&P2&P3'&P4&P5&P6&P7&P8&P9&P10&P11&P12&P13&P14).
  assert (Hk : ix3 (P3 c) < len) by (rewrite HixP; apply Nat.mod_upper_bound; lia).
  pose proof (Hslot _ Hk) as (S1&S2&S3&S4&S5&S6&S7).
  fold (mt3 c (ix3 (P3 c))).
  remember (mt3 c (ix3 (P3 c))) as mt eqn:Emt.
  assert (HseenP : pos3 (P3 c) + 2 <= wC3 (V3 (P3 c)) + len) by (unfold seenP3 in HcaP; lia).
  (* consumer's last read of this slot is covered *)
  assert (Hr : rpos3 mt + len <= pos3 (P3 c)).
  { assert (rpos3 mt <> pos3 (P3 c)).
    { intros Heq. assert (E : rpos3 mt = pos3 (C3 c)) by lia.
      destruct (S6 E) as [Hc3 _]. destruct HpcC as [Y|[[Y _]|[_ Y]]]; try congruence.
      destruct HvC as (_&C2&_). pose proof (sorted3_last _ _ Hswi C2). unfold seenC3 in HcaC. lia. }
    apply (congr_le len); auto; try lia. rewrite mod_plus_len, S2, HixP; reflexivity. }
  assert (Hcov : rclk3 mt <= kc3 (V3 (P3 c))) by (rewrite Emt; apply P14; auto; rewrite <- Emt; lia).
  (* worker's last write of this slot is covered (if the last writer is the worker) *)
  assert (Hwc : wcov TP mt (V3 (P3 c)) = true).
  { unfold wcov. destruct (wt mt) eqn:Ew; auto.
    destruct (S4 eq_refl) as (T1&T2&T3).
    assert (wpos3 mt <> pos3 (P3 c)).
    { intros Heq. assert (E : wpos3 mt = pos3 (W3 c)) by lia.
      destruct (T2 E) as [Hc3 _]. destruct HpcW as [Y|[[Y _]|[_ Y]]]; try congruence.
      destruct HvW as (C1&_). pose proof (sorted3_last _ _ Hspi C1). unfold seenW3 in HcaW. lia. }
    assert (wpos3 mt + len <= pos3 (P3 c)).
    { apply (congr_le len); auto; try lia. rewrite mod_plus_len, S1, HixP; reflexivity. }
    apply Nat.leb_le. specialize (P13 _ Hk). rewrite <- Emt in P13. unfold wcover in P13. rewrite Ew in P13.
    apply P13. lia. }
  assert (Hb : negb (wcov TP mt (V3 (P3 c))) || negb (rclk3 mt <=? kc3 (V3 (P3 c))) = false).
  { rewrite Hwc. simpl. apply negb_false_iff, Nat.leb_le; auto. }
  rewrite Hb, orb_false_r.
  set (c' := mkC3 _ _ _ _ _ _ _ _).
  assert (Hmt : forall k, k < len -> k <> ix3 (P3 c) -> mt3 c' k = mt3 c k)
    by (intros; unfold mt3, c'; simpl; apply nth_upd_neq; auto).
  assert (Hmt0 : mt3 c' (ix3 (P3 c)) = mkMeta3 TP (pos3 (P3 c)) (kp3 (V3 (P3 c))) (rpos3 mt) (rclk3 mt))
    by (unfold mt3, c'; simpl; apply nth_upd_eq; lia).
  assert (G : grows3 c c').
  { unfold grows3; splits; simpl; try (exists []; rewrite app_nil_r; reflexivity); try lia.
    intros k Hk'. destruct (Nat.eq_dec k (ix3 (P3 c))) as [->|Hne].
    - right; left. rewrite Hmt0, <- Emt; simpl; auto.
    - left; auto. }
  constructor; simpl; auto.
  - rewrite upd_length; auto.
  - apply (msgs_ok3_grows c c' _ G Hmpi).
  - apply (msgs_ok3_grows c c' _ G Hmwi).
  - apply (msgs_ok3_grows c c' _ G Hmci).
  - apply (view_ok3_grows c c' _ G HvP).
  - apply (view_ok3_grows c c' _ G HvW).
  - apply (view_ok3_grows c c' _ G HvC).
  - right; right; auto.
  - intros k Hk'. unfold slot_ok. destruct (Nat.eq_dec k (ix3 (P3 c))) as [->|Hne].
    + rewrite Hmt0; simpl. splits; auto; try lia; try congruence.
    + rewrite (Hmt k Hk' Hne). destruct (Hslot k Hk') as (T1&T2&T3&T4&T5&T6&T7).
      unfold c'; simpl. splits; auto.
      intros E. destruct (T3 E) as (U1&U2&U3). splits; auto. intros E2. destruct (U2 E2); congruence.
Qed.

Lemma P_store c j : Inv3 c -> pc3 (P3 c) = 3 -> Inv3 (stepP len j c).
Proof.
  intros I Hpc3. inv3_fields I.
  destruct HpcP as [X|[[X _]|[_ Hca]]]; try congruence.
  unfold stepP. rewrite Hpc3.
  pose proof HvP as (P1&P2&P3'&P4&P5&P6&P7&P8&P9&P10&P11&P12&P13&P14).
  assert (Hix' : wadd len (ix3 (P3 c)) 1 = (pos3 (P3 c) + 1) mod len) by (rewrite HixP; apply wadd_mod; lia).
  set (v1 := mkV3 (length (Mpi3 c)) _ _ _ _ _ (S (pos3 (P3 c))) _ _).
  set (m := mkM3 _ _ v1).
  set (c' := mkC3 _ _ _ _ _ _ _ _).
  assert (G : grows3 c c').
  { unfold grows3; splits; simpl; try lia; try (exists []; rewrite app_nil_r; reflexivity).
    - exists [m]; reflexivity.
    - intros; left; reflexivity. }
  assert (Hnth : forall i, i < length (Mpi3 c) -> nth i (Mpi3 c ++ [m]) dmsg3 = nth i (Mpi3 c) dmsg3)
    by (intros; apply nth_app_l3; auto).
  assert (HseenP : pos3 (P3 c) + 2 <= wC3 (V3 (P3 c)) + len) by (unfold seenP3 in HcaP; lia).
  assert (Hv1 : view_ok3 c' v1).
  { unfold view_ok3, v1, c'; simpl. rewrite app_length; simpl. splits; try lia.
    - rewrite nth_app_last3; simpl; lia.
    - intros k Hk. unfold wcover. destruct (Hslot k Hk) as (_&_&S3&S4&_).
      specialize (P13 k Hk). unfold wcover in P13. unfold mt3 in *; simpl.
      destruct (wt (nth k (metas3 c) dmeta3)) eqn:Ew; auto.
      intros _. destruct (S3 eq_refl) as (_&_&T). exact T.
    - intros k Hk Hw. apply P14; auto. }
  constructor; simpl; auto.
  - rewrite app_length; simpl; lia.
  - apply sorted3_app; auto. simpl. lia.
  - rewrite lastabs3_app; reflexivity.
  - apply Forall_app1.
    + apply (msgs_ok3_grows c c' _ G Hmpi).
    + split; simpl; auto. rewrite Hix'. f_equal; lia.
  - apply (msgs_ok3_grows c c' _ G Hmwi).
  - apply (msgs_ok3_grows c c' _ G Hmci).
  - intros i Hi. rewrite app_length in Hi; simpl in Hi.
    destruct (Nat.eq_dec i (length (Mpi3 c))) as [->|Hne].
    + rewrite nth_app_last3; simpl; lia.
    + rewrite Hnth by lia. apply Hwpi; lia.
  - destruct Hv1 as (A1&A2&A3&A4&A5&A6&A7&A8&A9&A10&A11&A12&A13&A14). unfold view_ok3; simpl. splits; auto.
    intros k Hk. specialize (A13 k Hk). unfold wcover in *; simpl in *.
    destruct (wt (mt3 c' k)); auto; intros Hw; specialize (A13 Hw); lia.
  - apply (view_ok3_grows c c' _ G HvW).
  - apply (view_ok3_grows c c' _ G HvC).
  - rewrite Hix'. f_equal; lia.
  - unfold seenP3 in *; simpl. lia.
  - unfold seenW3 in *; simpl. destruct HvW as (C1&_). rewrite Hnth by auto. auto.
  - left; auto.
  - intros k Hk. destruct (Hslot k Hk) as (S1&S2&S3&S4&S5&S6&S7).
    unfold slot_ok, mt3 in *; simpl. splits; auto.
    intros E. destruct (S3 E) as (U1&U2&U3). splits; auto; try lia.
Qed.

(* ======================= worker ======================= *)
Lemma W_fast c j : Inv3 c -> pc3 (W3 c) = 0 -> 1 <= ca3 (W3 c) -> Inv3 (stepW len j c).
Proof.
  intros I Hpc0 Hca. inv3_fields I.
  unfold stepW. rewrite Hpc0. destruct (1 <=? ca3 (W3 c)) eqn:E; [|apply Nat.leb_gt in E; lia].
  constructor; simpl; auto.
  - right; left; auto.
  - intros k Hk. apply slot_ok_pcW; simpl; auto; congruence.
Qed.

Lemma W_load c j : Inv3 c -> pc3 (W3 c) = 0 -> ca3 (W3 c) = 0 -> Inv3 (stepW len j c).
Proof.
  intros I Hpc0 Hca. inv3_fields I.
  unfold stepW. rewrite Hpc0. destruct (1 <=? ca3 (W3 c)) eqn:E; [apply Nat.leb_le in E; lia|]. clear E.
  pose proof HvW as (P1&P2&P3'&P4&P5&P6&P7&P8&P9&P10&P11&P12&P13&P14).
  pose proof (pick_bounds (vpi3 (V3 (W3 c))) (length (Mpi3 c)) j P1) as [Hi1 Hi2].
  set (i := pick (vpi3 (V3 (W3 c))) (length (Mpi3 c)) j) in *.
  set (m := nth i (Mpi3 c) dmsg3).
  pose proof (Forall_nth_msg3 _ _ i Hmpi Hi2) as [Hmv Hmok]. fold m in Hmv, Hmok.
  pose proof (Hwpi i Hi2) as Hmw. fold m in Hmw.
  assert (Hseen : seenW3 c <= mabs3 m) by (unfold seenW3, m; apply Hspi; lia).
  assert (Hm : mabs3 m = mabs3 (nth i (Mpi3 c) dmsg3)) by reflexivity.
  clearbody m. clearbody i.
  assert (HmP : mabs3 m <= pos3 (P3 c)) by (rewrite <- Hlpi, Hm; apply sorted3_last; auto).
  assert (Ha : dist len (ix3 (W3 c)) (mval3 m) = mabs3 m - pos3 (W3 c)).
  { rewrite HixW, Hmv. apply dist_mod; lia. }
  set (v1 := vjoin3 _ (mview3 m)).
  assert (Hv1 : view_ok3 c v1) by (apply view_ok3_acq; auto; try lia).
  constructor; simpl; auto.
  - unfold seenW3; simpl. rewrite Ha.
    assert (mabs3 m <= mabs3 (nth (Nat.max i (vpi3 (mview3 m))) (Mpi3 c) dmsg3)) by (rewrite Hm; apply Hspi; destruct Hmok as (Q&_); lia).
    lia.
  - unfold pc_ok; simpl. destruct (1 <=? dist len (ix3 (W3 c)) (mval3 m)) eqn:E; [apply Nat.leb_le in E; right; left; auto | left; auto].
  - intros k Hk. apply slot_ok_pcW; simpl; auto; try congruence. unfold v1, vjoin3; simpl. lia.
Qed.

Lemma W_write c j : Inv3 c -> pc3 (W3 c) = 2 -> Inv3 (stepW len j c).
Proof.
  intros I Hpc2. inv3_fields I.
  destruct HpcW as [X|[[_ Hca]|[X _]]]; try congruence.
  unfold stepW. rewrite Hpc2.
  pose proof HvW as (P1&P2&P3'&P4&P5&P6&P7&P8&P9&P10&P11&P12&P13&P14).
  assert (Hk : ix3 (W3 c) < len) by (rewrite HixW; apply Nat.mod_upper_bound; lia).
  pose proof (Hslot _ Hk) as (S1&S2&S3&S4&S5&S6&S7).
  fold (mt3 c (ix3 (W3 c))).
  remember (mt3 c (ix3 (W3 c))) as mt eqn:Emt.
  assert (HseenW : pos3 (W3 c) + 1 <= wP3 (V3 (W3 c))) by (unfold seenW3 in HcaW; lia).
  assert (Hr : rpos3 mt + len <= pos3 (W3 c)).
  { assert (rpos3 mt <> pos3 (W3 c)).
    { intros Heq. assert (E : rpos3 mt = pos3 (C3 c)) by lia.
      destruct (S6 E) as [Hc3 _]. destruct HpcC as [Y|[[Y _]|[_ Y]]]; try congruence.
      destruct HvC as (_&C2&_). pose proof (sorted3_last _ _ Hswi C2). unfold seenC3 in HcaC. lia. }
    apply (congr_le len); auto; try lia. rewrite mod_plus_len, S2, HixW; reflexivity. }
  assert (Hcov : rclk3 mt <= kc3 (V3 (W3 c))) by (rewrite Emt; apply P14; auto; rewrite <- Emt; lia).
  assert (Hwc : wcov TW mt (V3 (W3 c)) = true).
  { unfold wcov. destruct (wt mt) eqn:Ew; auto.
    destruct (S3 eq_refl) as (T1&T2&T3).
    assert (wpos3 mt <= pos3 (W3 c)).
    { apply (congr_le len); auto; try lia. }
    apply Nat.leb_le. specialize (P13 _ Hk). rewrite <- Emt in P13. unfold wcover in P13. rewrite Ew in P13.
    apply P13. lia. }
  assert (Hb : negb (wcov TW mt (V3 (W3 c))) || negb (rclk3 mt <=? kc3 (V3 (W3 c))) = false).
  { rewrite Hwc. simpl. apply negb_false_iff, Nat.leb_le; auto. }
  rewrite Hb, orb_false_r.
  set (c' := mkC3 _ _ _ _ _ _ _ _).
  assert (Hmt : forall k, k < len -> k <> ix3 (W3 c) -> mt3 c' k = mt3 c k)
    by (intros; unfold mt3, c'; simpl; apply nth_upd_neq; auto).
  assert (Hmt0 : mt3 c' (ix3 (W3 c)) = mkMeta3 TW (pos3 (W3 c)) (kw3 (V3 (W3 c))) (rpos3 mt) (rclk3 mt))
    by (unfold mt3, c'; simpl; apply nth_upd_eq; lia).
  assert (G : grows3 c c').
  { unfold grows3; splits; simpl; try (exists []; rewrite app_nil_r; reflexivity); try lia.
    intros k Hk'. destruct (Nat.eq_dec k (ix3 (W3 c))) as [->|Hne].
    - right; right; left. rewrite Hmt0, <- Emt; simpl; auto.
    - left; auto. }
  constructor; simpl; auto.
  - rewrite upd_length; auto.
  - apply (msgs_ok3_grows c c' _ G Hmpi).
  - apply (msgs_ok3_grows c c' _ G Hmwi).
  - apply (msgs_ok3_grows c c' _ G Hmci).
  - apply (view_ok3_grows c c' _ G HvP).
  - apply (view_ok3_grows c c' _ G HvW).
  - apply (view_ok3_grows c c' _ G HvC).
  - right; right; auto.
  - intros k Hk'. unfold slot_ok. destruct (Nat.eq_dec k (ix3 (W3 c))) as [->|Hne].
    + rewrite Hmt0; simpl. splits; auto; try lia; try congruence.
    + rewrite (Hmt k Hk' Hne). destruct (Hslot k Hk') as (T1&T2&T3&T4&T5&T6&T7).
      unfold c'; simpl. splits; auto.
      intros E. destruct (T4 E) as (U1&U2&U3). splits; auto. intros E2. destruct (U2 E2); congruence.
Qed.

Lemma W_store c j : Inv3 c -> pc3 (W3 c) = 3 -> Inv3 (stepW len j c).
Proof.
  intros I Hpc3. inv3_fields I.
  destruct HpcW as [X|[[X _]|[_ Hca]]]; try congruence.
  unfold stepW. rewrite Hpc3.
  pose proof HvW as (P1&P2&P3'&P4&P5&P6&P7&P8&P9&P10&P11&P12&P13&P14).
  assert (Hix' : wadd len (ix3 (W3 c)) 1 = (pos3 (W3 c) + 1) mod len) by (rewrite HixW; apply wadd_mod; lia).
  set (v1 := mkV3 _ (length (Mwi3 c)) _ _ _ _ _ (S (pos3 (W3 c))) _).
  set (m := mkM3 _ _ v1).
  set (c' := mkC3 _ _ _ _ _ _ _ _).
  assert (G : grows3 c c').
  { unfold grows3; splits; simpl; try lia; try (exists []; rewrite app_nil_r; reflexivity).
    - exists [m]; reflexivity.
    - intros; left; reflexivity. }
  assert (Hnth : forall i, i < length (Mwi3 c) -> nth i (Mwi3 c ++ [m]) dmsg3 = nth i (Mwi3 c) dmsg3)
    by (intros; apply nth_app_l3; auto).
  assert (HseenW : pos3 (W3 c) + 1 <= wP3 (V3 (W3 c))) by (unfold seenW3 in HcaW; lia).
  assert (Hv1 : view_ok3 c' v1).
  { unfold view_ok3, v1, c'; simpl. rewrite app_length; simpl. splits; try lia.
    - rewrite nth_app_last3; simpl; lia.
    - intros k Hk. unfold wcover. destruct (Hslot k Hk) as (_&_&S3&S4&_).
      specialize (P13 k Hk). unfold wcover in P13. unfold mt3 in *; simpl.
      destruct (wt (nth k (metas3 c) dmeta3)) eqn:Ew; auto.
      intros _. destruct (S4 eq_refl) as (_&_&T). exact T.
    - intros k Hk Hw. apply P14; auto. }
  constructor; simpl; auto.
  - rewrite app_length; simpl; lia.
  - apply sorted3_app; auto. simpl. lia.
  - rewrite lastabs3_app; reflexivity.
  - apply (msgs_ok3_grows c c' _ G Hmpi).
  - apply Forall_app1.
    + apply (msgs_ok3_grows c c' _ G Hmwi).
    + split; simpl; auto. rewrite Hix'. f_equal; lia.
  - apply (msgs_ok3_grows c c' _ G Hmci).
  - intros i Hi. rewrite app_length in Hi; simpl in Hi.
    destruct (Nat.eq_dec i (length (Mwi3 c))) as [->|Hne].
    + rewrite nth_app_last3; simpl; lia.
    + rewrite Hnth by lia. apply Hwwi; lia.
  - apply (view_ok3_grows c c' _ G HvP).
  - destruct Hv1 as (A1&A2&A3&A4&A5&A6&A7&A8&A9&A10&A11&A12&A13&A14). unfold view_ok3; simpl. splits; auto.
    intros k Hk. specialize (A13 k Hk). unfold wcover in *; simpl in *.
    destruct (wt (mt3 c' k)); auto; intros Hw; specialize (A13 Hw); lia.
  - apply (view_ok3_grows c c' _ G HvC).
  - rewrite Hix'. f_equal; lia.
  - unfold seenW3 in *; simpl. lia.
  - unfold seenC3 in *; simpl. destruct HvC as (_&C2&_). rewrite Hnth by auto. auto.
  - left; auto.
  - intros k Hk. destruct (Hslot k Hk) as (S1&S2&S3&S4&S5&S6&S7).
    unfold slot_ok, mt3 in *; simpl. splits; auto.
    intros E. destruct (S4 E) as (U1&U2&U3). splits; auto; try lia.
Qed.

(* ======================= consumer ======================= *)
Lemma C_fast c j : Inv3 c -> pc3 (C3 c) = 0 -> 1 <= ca3 (C3 c) -> Inv3 (stepC len j c).
Proof.
  intros I Hpc0 Hca. inv3_fields I.
  unfold stepC. rewrite Hpc0. destruct (1 <=? ca3 (C3 c)) eqn:E; [|apply Nat.leb_gt in E; lia].
  constructor; simpl; auto.
  - right; left; auto.
  - intros k Hk. apply slot_ok_pcC; simpl; auto; congruence.
Qed.

Lemma C_load c j : Inv3 c -> pc3 (C3 c) = 0 -> ca3 (C3 c) = 0 -> Inv3 (stepC len j c).
Proof.
  intros I Hpc0 Hca. inv3_fields I.
  unfold stepC. rewrite Hpc0. destruct (1 <=? ca3 (C3 c)) eqn:E; [apply Nat.leb_le in E; lia|]. clear E.
  pose proof HvC as (P1&P2&P3'&P4&P5&P6&P7&P8&P9&P10&P11&P12&P13&P14).
  pose proof (pick_bounds (vwi3 (V3 (C3 c))) (length (Mwi3 c)) j P2) as [Hi1 Hi2].
  set (i := pick (vwi3 (V3 (C3 c))) (length (Mwi3 c)) j) in *.
  set (m := nth i (Mwi3 c) dmsg3).
  pose proof (Forall_nth_msg3 _ _ i Hmwi Hi2) as [Hmv Hmok]. fold m in Hmv, Hmok.
  pose proof (Hwwi i Hi2) as Hmw. fold m in Hmw.
  assert (Hseen : seenC3 c <= mabs3 m) by (unfold seenC3, m; apply Hswi; lia).
  assert (Hm : mabs3 m = mabs3 (nth i (Mwi3 c) dmsg3)) by reflexivity.
  clearbody m. clearbody i.
  assert (HmW : mabs3 m <= pos3 (W3 c)) by (rewrite <- Hlwi, Hm; apply sorted3_last; auto).
  assert (Ha : dist len (ix3 (C3 c)) (mval3 m) = mabs3 m - pos3 (C3 c)).
  { rewrite HixC, Hmv. apply dist_mod; lia. }
  set (v1 := vjoin3 _ (mview3 m)).
  assert (Hv1 : view_ok3 c v1) by (apply view_ok3_acq; auto; try lia).
  constructor; simpl; auto.
  - unfold seenC3; simpl. rewrite Ha.
    assert (mabs3 m <= mabs3 (nth (Nat.max i (vwi3 (mview3 m))) (Mwi3 c) dmsg3)) by (rewrite Hm; apply Hswi; destruct Hmok as (_&Q&_); lia).
    lia.
  - unfold pc_ok; simpl. destruct (1 <=? dist len (ix3 (C3 c)) (mval3 m)) eqn:E; [apply Nat.leb_le in E; right; left; auto | left; auto].
  - intros k Hk. apply slot_ok_pcC; simpl; auto; try congruence. unfold v1, vjoin3; simpl. lia.
Qed.

Lemma C_read c j : Inv3 c -> pc3 (C3 c) = 2 -> Inv3 (stepC len j c).
Proof.
  intros I Hpc2. inv3_fields I.
  destruct HpcC as [X|[[_ Hca]|[X _]]]; try congruence.
  unfold stepC. rewrite Hpc2.
  pose proof HvC as (P1&P2&P3'&P4&P5&P6&P7&P8&P9&P10&P11&P12&P13&P14).
  assert (Hk : ix3 (C3 c) < len) by (rewrite HixC; apply Nat.mod_upper_bound; lia).
  pose proof (Hslot _ Hk) as (S1&S2&S3&S4&S5&S6&S7).
  fold (mt3 c (ix3 (C3 c))).
  remember (mt3 c (ix3 (C3 c))) as mt eqn:Emt.
  assert (HseenC : pos3 (C3 c) + 1 <= wW3 (V3 (C3 c))) by (unfold seenC3 in HcaC; lia).
  assert (Hwc : wcov TC mt (V3 (C3 c)) = true).
  { unfold wcov. specialize (P13 _ Hk). rewrite <- Emt in P13. unfold wcover in P13.
    destruct (wt mt) eqn:Ew; auto; apply Nat.leb_le; apply P13.
    - destruct (S3 eq_refl) as (T1&T2&T3).
      assert (wpos3 mt <= pos3 (C3 c)) by (apply (congr_le len); auto; lia). lia.
    - destruct (S4 eq_refl) as (T1&T2&T3).
      assert (wpos3 mt <= pos3 (C3 c)) by (apply (congr_le len); auto; lia). lia. }
  rewrite Hwc. simpl. rewrite orb_false_r.
  set (c' := mkC3 _ _ _ _ _ _ _ _).
  assert (Hmt : forall k, k < len -> k <> ix3 (C3 c) -> mt3 c' k = mt3 c k)
    by (intros; unfold mt3, c'; simpl; apply nth_upd_neq; auto).
  assert (Hmt0 : mt3 c' (ix3 (C3 c)) = mkMeta3 (wt mt) (wpos3 mt) (wclk3 mt) (pos3 (C3 c)) (kc3 (V3 (C3 c))))
    by (unfold mt3, c'; simpl; apply nth_upd_eq; lia).
  assert (G : grows3 c c').
  { unfold grows3; splits; simpl; try (exists []; rewrite app_nil_r; reflexivity); try lia.
    intros k Hk'. destruct (Nat.eq_dec k (ix3 (C3 c))) as [->|Hne].
    - right; right; right. rewrite Hmt0, <- Emt; simpl; auto.
    - left; auto. }
  constructor; simpl; auto.
  - rewrite upd_length; auto.
  - apply (msgs_ok3_grows c c' _ G Hmpi).
  - apply (msgs_ok3_grows c c' _ G Hmwi).
  - apply (msgs_ok3_grows c c' _ G Hmci).
  - apply (view_ok3_grows c c' _ G HvP).
  - apply (view_ok3_grows c c' _ G HvW).
  - apply (view_ok3_grows c c' _ G HvC).
  - right; right; auto.
  - intros k Hk'. unfold slot_ok. destruct (Nat.eq_dec k (ix3 (C3 c))) as [->|Hne].
    + rewrite Hmt0; simpl. splits; auto; try lia.
    + rewrite (Hmt k Hk' Hne). destruct (Hslot k Hk') as (T1&T2&T3&T4&T5&T6&T7).
      unfold c'; simpl. splits; auto.
      intros E2. destruct (T6 E2); congruence.
Qed.

Lemma C_store c j : Inv3 c -> pc3 (C3 c) = 3 -> Inv3 (stepC len j c).
Proof.
  intros I Hpc3. inv3_fields I.
  destruct HpcC as [X|[[X _]|[_ Hca]]]; try congruence.
  unfold stepC. rewrite Hpc3.
  pose proof HvC as (P1&P2&P3'&P4&P5&P6&P7&P8&P9&P10&P11&P12&P13&P14).
  assert (Hix' : wadd len (ix3 (C3 c)) 1 = (pos3 (C3 c) + 1) mod len) by (rewrite HixC; apply wadd_mod; lia).
  set (v1 := mkV3 _ _ (length (Mci3 c)) _ _ _ _ _ (S (pos3 (C3 c)))).
  set (m := mkM3 _ _ v1).
  set (c' := mkC3 _ _ _ _ _ _ _ _).
  assert (G : grows3 c c').
  { unfold grows3; splits; simpl; try lia; try (exists []; rewrite app_nil_r; reflexivity).
    - exists [m]; reflexivity.
    - intros; left; reflexivity. }
  assert (Hnth : forall i, i < length (Mci3 c) -> nth i (Mci3 c ++ [m]) dmsg3 = nth i (Mci3 c) dmsg3)
    by (intros; apply nth_app_l3; auto).
  assert (HseenC : pos3 (C3 c) + 1 <= wW3 (V3 (C3 c))) by (unfold seenC3 in HcaC; lia).
  assert (Hv1 : view_ok3 c' v1).
  { unfold view_ok3, v1, c'; simpl. rewrite app_length; simpl. splits; try lia.
    - rewrite nth_app_last3; simpl; lia.
    - intros k Hk. apply P13; auto.
    - intros k Hk Hw. destruct (Hslot k Hk) as (_&_&_&_&_&_&S7). exact S7. }
  constructor; simpl; auto.
  - rewrite app_length; simpl; lia.
  - apply sorted3_app; auto. simpl. lia.
  - rewrite lastabs3_app; reflexivity.
  - apply (msgs_ok3_grows c c' _ G Hmpi).
  - apply (msgs_ok3_grows c c' _ G Hmwi).
  - apply Forall_app1.
    + apply (msgs_ok3_grows c c' _ G Hmci).
    + split; simpl; auto. rewrite Hix'. f_equal; lia.
  - intros i Hi. rewrite app_length in Hi; simpl in Hi.
    destruct (Nat.eq_dec i (length (Mci3 c))) as [->|Hne].
    + rewrite nth_app_last3; simpl; lia.
    + rewrite Hnth by lia. apply Hwci; lia.
  - apply (view_ok3_grows c c' _ G HvP).
  - apply (view_ok3_grows c c' _ G HvW).
  - destruct Hv1 as (A1&A2&A3&A4&A5&A6&A7&A8&A9&A10&A11&A12&A13&A14). unfold view_ok3; simpl. splits; auto.
  - rewrite Hix'. f_equal; lia.
  - unfold seenP3 in *; simpl. destruct HvP as (_&_&C3'&_). rewrite Hnth by auto. lia.
  - unfold seenC3 in *; simpl. lia.
  - left; auto.
  - intros k Hk. destruct (Hslot k Hk) as (S1&S2&S3&S4&S5&S6&S7).
    unfold slot_ok, mt3 in *; simpl. splits; auto; try lia.
Qed.

(* ======================= assembly ======================= *)
Lemma step3_inv c s : Inv3 c -> Inv3 (step3 len c s).
Proof.
  intros I. destruct s as [[| |] j]; unfold step3; simpl.
  - destruct (j_pcP c I) as [H0|[[H2 _]|[H3 _]]].
    + destruct (ca3 (P3 c)) eqn:E; [apply P_load | apply P_fast]; auto; lia.
    + apply P_write; auto.
    + apply P_store; auto.
  - destruct (j_pcW c I) as [H0|[[H2 _]|[H3 _]]].
    + destruct (ca3 (W3 c)) eqn:E; [apply W_load | apply W_fast]; auto; lia.
    + apply W_write; auto.
    + apply W_store; auto.
  - destruct (j_pcC c I) as [H0|[[H2 _]|[H3 _]]].
    + destruct (ca3 (C3 c)) eqn:E; [apply C_load | apply C_fast]; auto; lia.
    + apply C_read; auto.
    + apply C_store; auto.
Qed.

Lemma nth_init_meta3 k : k < len -> nth k (map (fun k => mkMeta3 TC k 0 k 0) (seq 0 len)) dmeta3 = mkMeta3 TC k 0 k 0.
Proof.
  intros Hk. rewrite (nth_indep _ dmeta3 (mkMeta3 TC 0 0 0 0)) by (rewrite map_length, seq_length; auto).
  change (mkMeta3 TC 0 0 0 0) with ((fun k => mkMeta3 TC k 0 k 0) 0).
  rewrite map_nth. rewrite seq_nth by auto. reflexivity.
Qed.

Lemma init3_inv : Inv3 (init3 len).
Proof.
  assert (Hv : forall a b c0, view_ok3 (init3 len) (vinit len a b c0)).
  { intros. unfold view_ok3, init3, vinit, mt3; simpl. splits; try lia.
    - intros k Hk. unfold wcover. rewrite nth_init_meta3 by auto. simpl. auto.
    - intros k Hk Hw. rewrite nth_init_meta3 in * by auto. simpl in *. lia. }
  assert (Hs : forall x, sorted3 [x]).
  { intros x i j Hij Hj. simpl in Hj. assert (i = 0) by lia. assert (j = 0) by lia. subst. lia. }
  assert (Hm : forall c0, msg_ok3 c0 (mkM3 0 len (vinit len 0 0 0)) <-> view_ok3 c0 (vinit len 0 0 0)).
  { intros; unfold msg_ok3; simpl. split; [tauto|]. intros; split; auto. symmetry; apply Nat.mod_same; lia. }
  constructor; simpl; auto; try (unfold pc_ok; simpl; auto; fail);
    try (symmetry; apply Nat.mod_same; lia);
    try apply Hv;
    try (constructor; [|constructor]; apply Hm, Hv);
    try (intros i Hi; assert (i = 0) by lia; subst; simpl; lia).
  - rewrite map_length, seq_length; reflexivity.
  - unfold seenP3; simpl. lia.
  - intros k Hk. unfold slot_ok, mt3; simpl. rewrite nth_init_meta3 by auto. simpl.
    splits; try lia; try (apply Nat.mod_small; auto); try congruence.
Qed.

Theorem exec3_inv script : Inv3 (exec3 len (init3 len) script).
Proof.
  unfold exec3. generalize init3_inv. generalize (init3 len).
  induction script as [|s script IH]; intros c I; simpl; auto.
  apply IH. apply step3_inv; auto.
Qed.
End Inv3.

Theorem pipeline3_race_free : forall len script, 0 < len -> race3 (exec3 len (init3 len) script) = false.
Proof. intros len script Hl. apply (j_race len _ (exec3_inv len Hl script)). Qed.
Print Assumptions pipeline3_race_free.
