(** * C04 under concurrency: the stage order and the capacity bound hold at every moment of every execution
      of the release/acquire machines (any interleaving, any stale read, any window sizes) - also in the middle of
      an operation, where a thread's frontier is its position plus the slots of its window it has already accessed. *)
From Coq Require Import List Arith Lia Bool.
Import ListNotations.
Require MRB.Conc.RA3n MRB.Conc.RA3nproof MRB.Conc.RAx MRB.Conc.RAxproof.

Theorem order_always_3n : forall len script, 0 < len ->
  let c := RA3n.exec3_n len (RA3n.init3_n len) script in
  RA3n.pos3 (RA3n.C3 c) <= RA3n.pos3 (RA3n.W3 c) /\ RA3n.pos3 (RA3n.W3 c) <= RA3n.pos3 (RA3n.P3 c) /\
  RA3n.pos3 (RA3n.P3 c) + 1 <= RA3n.pos3 (RA3n.C3 c) + len /\
  RA3n.pos3 (RA3n.C3 c) + RA3n.off3 (RA3n.C3 c) <= RA3n.pos3 (RA3n.W3 c) /\
  RA3n.pos3 (RA3n.W3 c) + RA3n.off3 (RA3n.W3 c) <= RA3n.pos3 (RA3n.P3 c) /\
  RA3n.pos3 (RA3n.P3 c) + RA3n.off3 (RA3n.P3 c) + 1 <= RA3n.pos3 (RA3n.C3 c) + len.
Proof.
  intros len script Hl c.
  pose proof (RA3nproof.order3n len Hl c (RA3nproof.exec3n_inv len Hl script)) as H.
  repeat match goal with |- _ /\ _ => split end; apply H.
Qed.

(** two stages with reset_index and a detached consumer *)
Theorem order_always_x : forall len script, 0 < len ->
  let c := RAx.exec_x len (RAx.init_x len) script in
  RAx.pos (RAx.C c) + RAx.off (RAx.C c) <= RAx.pos (RAx.P c) /\
  RAx.pos (RAx.P c) + RAx.off (RAx.P c) + 1 <= RAx.pos (RAx.C c) + len.
Proof.
  intros len script Hl c. pose proof (RAxproof.exec_invx len Hl script) as I. fold c in I. split.
  - apply (RAxproof.frontC_le_posP len Hl c I).
  - apply (RAxproof.frontP_lt len Hl c I).
Qed.

Print Assumptions order_always_3n.
Print Assumptions order_always_x.
