(** * Race freedom of the extended release/acquire machine (RAx.v): multi-slot operations,
      [reset_index], detached operation of the consumer (local advance, sync, attach).

    [spsc_x_race_free : forall len script, 0 < len -> race (exec_x len (init_x len) script) = false]
    is proved completely - BOTH extensions, no step case missing; [Print Assumptions] at the end reports
    "Closed under the global context".  Two further theorems about all executions:
    [published_le_local]       the position published by the consumer is <= its local position, = when attached;
    [consumer_never_goes_back] the consumer's local position is monotone (a reset never moves it backwards).

    The invariant [InvX] is [InvN] of RAnproof.v with these changes:
    - [i_lci] the consumer's PUBLISHED position [lastabs (Mci c)] is only <= its LOCAL position [pos (C c)]
      ([i_att]: equal while attached).  Nothing else was using the equality: the producer's availability bound
      [i_caP] goes through the consumer MESSAGE it saw ([seenPx]), i.e. through a published position, so all it
      may write lies below [published + len] <= [pos C + len]; the consumer reads at positions >= [pos C]
      >= published, below what it saw of the producer ([i_caC]).  The watermark of a consumer message is its own
      (published) position, and reads made later are at positions >= the local position at that time, so old
      views stay valid ([growsx]) whether or not the later advance is published.
    - [pc_okC] the consumer has a fourth resting state, pc 5, between the load and the store of a reset; there
      the loaded position satisfies [pos C <= npos C <= seenCx c] and [nix C = npos C mod len].
      "Not backwards" comes from the view rule: the message read is at or after the consumer's view, and
      [i_caC] ([pos C + ca C <= seenCx c]) says everything the consumer was ever granted lies at or below the
      message AT its view; the message list is sorted by position.
    - every way of ending a consumer operation (pc 3 / pc 5, attached / detached, Sync, Attach) is an instance of
      [publishC_inv] (with store) or [localC_inv] (without): new local position p' >= the read frontier
      [pos C + off C], and p' + ca' <= seenCx c.
    The pure list facts ([sorted], [lastabs], ...) are reused from RAproof.v. *)
Require Import MRB.Conc.RA MRB.Conc.RAproof MRB.Conc.RAx.
From Coq Require Import List Arith Lia Bool.
Import ListNotations.

Local Arguments Nat.leb : simpl never.
Local Arguments Nat.ltb : simpl never.
Local Arguments Nat.modulo : simpl never.
Local Arguments Nat.max : simpl never.
Local Arguments Nat.min : simpl never.

(* Pure list facts of RAproof.v (stated there inside a section with [0 < len] in the context, which they picked
   up although they do not depend on it): restated without it. *)
Lemma nth_app_last_x (M : list msg) x : nth (length M) (M ++ [x]) dmsg = x.
Proof. exact (nth_app_last 1 Nat.lt_0_1 M x). Qed.
Lemma sorted_app_x M x : 0 < length M -> sorted M -> lastabs M <= mabs x -> sorted (M ++ [x]).
Proof. exact (sorted_app 1 Nat.lt_0_1 M x). Qed.
Lemma sorted_last_x M i : sorted M -> i < length M -> mabs (nth i M dmsg) <= lastabs M.
Proof. exact (sorted_last 1 Nat.lt_0_1 M i). Qed.
Lemma lastabs_app_x M x : lastabs (M ++ [x]) = mabs x.
Proof. exact (lastabs_app 1 Nat.lt_0_1 M x). Qed.
Lemma pick_bounds_x lo n j : lo < n -> lo <= pick lo n j /\ pick lo n j < n.
Proof. exact (pick_bounds 1 Nat.lt_0_1 lo n j). Qed.

(* [lastabs] (RAproof.v) is the absolute position of the last message: RAx.v's [publishedC] / [publishedP]. *)
Lemma lastabs_last (M : list msg) : lastabs M = mabs (last M dmsg).
Proof.
  unfold lastabs. f_equal.
  induction M as [|x M IH]; [reflexivity|].
  destruct M as [|y M]; [reflexivity|].
  simpl length in *.
  replace (S (S (length M)) - 1) with (S (length M)) by lia.
  replace (S (length M) - 1) with (length M) in IH by lia.
  change (nth (S (length M)) (x :: y :: M) dmsg) with (nth (length M) (y :: M) dmsg).
  rewrite IH. reflexivity.
Qed.

Section InvX.
Variable len : nat.
Hypothesis Hlen : 0 < len.

Definition mtx (c : cfg_x) (k : nat) : meta := nth k (metas c) dmeta.

Definition view_okx (c : cfg_x) (v : view) : Prop :=
  vpi v < length (Mpi c) /\ vci v < length (Mci c) /\
  wP v <= pos (P c) /\ wC v <= pos (C c) /\
  mabs (nth (vpi v) (Mpi c) dmsg) <= wP v /\
  mabs (nth (vci v) (Mci c) dmsg) <= wC v /\
  (forall k, k < len -> wpos (mtx c k) < wP v -> wclk (mtx c k) <= kp v) /\
  (forall k, k < len -> rpos (mtx c k) < wC v -> rclk (mtx c k) <= kc v).

Definition msg_okx (c : cfg_x) (m : msg) : Prop :=
  mval m = mabs m mod len /\ view_okx c (mview m).

Definition seenPx (c : cfg_x) := mabs (nth (vci (V (P c))) (Mci c) dmsg).
Definition seenCx (c : cfg_x) := mabs (nth (vpi (V (C c))) (Mpi c) dmsg).

(* pc 0: no window; pc 2: window granted, [off] slots done, more to do; pc 3: window done, index not yet moved *)
Definition pc_ok (t : thr_x) : Prop :=
  (pc t = 0 /\ off t = 0) \/
  (pc t = 2 /\ off t < cnt t /\ cnt t <= ca t) \/
  (pc t = 3 /\ off t = cnt t /\ cnt t <= ca t).

(* the consumer may also be between the load and the store of a reset (pc 5): the loaded position [npos] is
   not behind the local position, not ahead of what the consumer has seen of the producer's index *)
Definition pc_okC (c : cfg_x) : Prop :=
  pc_ok (C c) \/
  (pc (C c) = 5 /\ off (C c) = 0 /\ pos (C c) <= npos (C c) /\ npos (C c) <= seenCx c /\
   nix (C c) = npos (C c) mod len).

Record InvX (c : cfg_x) : Prop := mkInvX {
  i_metas : length (metas c) = len;
  i_npi : 0 < length (Mpi c);
  i_nci : 0 < length (Mci c);
  i_spi : sorted (Mpi c);
  i_sci : sorted (Mci c);
  i_lpi : lastabs (Mpi c) = pos (P c);
  i_lci : lastabs (Mci c) <= pos (C c);                        (* published position <= local position *)
  i_att : det (C c) = false -> lastabs (Mci c) = pos (C c);   (* attached: they are equal             *)
  i_mpi : Forall (msg_okx c) (Mpi c);
  i_mci : Forall (msg_okx c) (Mci c);
  i_wpi : forall i, i < length (Mpi c) -> mabs (nth i (Mpi c) dmsg) <= wP (mview (nth i (Mpi c) dmsg));
  i_wci : forall i, i < length (Mci c) -> mabs (nth i (Mci c) dmsg) <= wC (mview (nth i (Mci c) dmsg));
  i_vP : view_okx c (V (P c));
  i_vC : view_okx c (V (C c));
  i_ixP : ix (P c) = pos (P c) mod len;
  i_ixC : ix (C c) = pos (C c) mod len;
  i_caP : ca (P c) + pos (P c) + 1 <= seenPx c + len;
  i_caC : ca (C c) + pos (C c) <= seenCx c;
  i_pcP : pc_ok (P c);
  i_pcC : pc_okC c;
  i_slot : forall k, k < len ->
     wpos (mtx c k) mod len = k /\ rpos (mtx c k) mod len = k /\
     wpos (mtx c k) < pos (P c) + off (P c) /\ rpos (mtx c k) < pos (C c) + off (C c) /\
     wclk (mtx c k) <= kp (V (P c)) /\ rclk (mtx c k) <= kc (V (C c));
  i_race : race c = false
}.

(* ---- view_okx is stable under "growth" of the configuration ---- *)
Definition growsx (c c' : cfg_x) : Prop :=
  (exists xs, Mpi c' = Mpi c ++ xs) /\ (exists ys, Mci c' = Mci c ++ ys) /\
  pos (P c) <= pos (P c') /\ pos (C c) <= pos (C c') /\
  (forall k, k < len ->
     (mtx c' k = mtx c k) \/
     (pos (P c) <= wpos (mtx c' k) /\ rpos (mtx c' k) = rpos (mtx c k) /\ rclk (mtx c' k) = rclk (mtx c k)) \/
     (pos (C c) <= rpos (mtx c' k) /\ wpos (mtx c' k) = wpos (mtx c k) /\ wclk (mtx c' k) = wclk (mtx c k))).

Lemma view_okx_grows c c' v : growsx c c' -> view_okx c v -> view_okx c' v.
Proof.
  intros (Hpi & Hci & HpP & HpC & Hm) (H1 & H2 & H3 & H4 & H5 & H6 & H7 & H8).
  destruct Hpi as [xs Hpi]. destruct Hci as [ys Hci].
  unfold view_okx. rewrite Hpi, Hci, !app_length.
  repeat split; try lia.
  - rewrite app_nth1 by lia; auto.
  - rewrite app_nth1 by lia; auto.
  - intros k Hk Hw. destruct (Hm k Hk) as [E|[(E1&E2&E3)|(E1&E2&E3)]].
    + rewrite E in *; auto.
    + lia.
    + rewrite E2, E3 in *; auto.
  - intros k Hk Hw. destruct (Hm k Hk) as [E|[(E1&E2&E3)|(E1&E2&E3)]].
    + rewrite E in *; auto.
    + rewrite E2, E3 in *; auto.
    + lia.
Qed.

Lemma msgs_okx_grows c c' M : growsx c c' -> Forall (msg_okx c) M -> Forall (msg_okx c') M.
Proof.
  intros G F. eapply Forall_impl; [|exact F].
  intros m [A B]; split; auto. eapply view_okx_grows; eauto.
Qed.

Lemma posC_le_posPx c : InvX c -> pos (C c) <= pos (P c).
Proof.
  intros I. pose proof (i_caC c I) as H1. pose proof (i_lpi c I) as H2.
  destruct (i_vC c I) as (A&_).
  pose proof (sorted_last_x (Mpi c) (vpi (V (C c))) (i_spi c I) A). unfold seenCx in *. lia.
Qed.
Lemma posP_ltx c : InvX c -> pos (P c) + 1 <= pos (C c) + len.
Proof.
  intros I. pose proof (i_caP c I) as H1. pose proof (i_lci c I) as H2.
  destruct (i_vP c I) as (_&A&_).
  pose proof (sorted_last_x (Mci c) (vci (V (P c))) (i_sci c I) A). unfold seenPx in *. lia.
Qed.

(* the frontier of a thread never passes what it has seen of the other index *)
Lemma frontC_le_posP c : InvX c -> pos (C c) + off (C c) <= pos (P c).
Proof.
  intros I. pose proof (i_caC c I) as H1. pose proof (i_lpi c I) as H2.
  pose proof (posC_le_posPx c I) as H3.
  destruct (i_vC c I) as (A&_).
  pose proof (sorted_last_x (Mpi c) (vpi (V (C c))) (i_spi c I) A) as H4. unfold seenCx in *.
  destruct (i_pcC c I) as [[[_ X]|[(_&X&Y)|(_&X&Y)]]|(_&X&_)]; lia.
Qed.
Lemma frontP_lt c : InvX c -> pos (P c) + off (P c) + 1 <= pos (C c) + len.
Proof.
  intros I. pose proof (i_caP c I) as H1. pose proof (i_lci c I) as H2.
  pose proof (posP_ltx c I) as H3.
  destruct (i_vP c I) as (_&A&_).
  pose proof (sorted_last_x (Mci c) (vci (V (P c))) (i_sci c I) A) as H4. unfold seenPx in *.
  destruct (i_pcP c I) as [[_ X]|[(_&X&Y)|(_&X&Y)]]; lia.
Qed.
(* the remembered availability never exceeds the capacity len - 1 *)
Lemma caP_cap c : InvX c -> ca (P c) + 1 <= len.
Proof.
  intros I. pose proof (i_caP c I) as H1. pose proof (i_lci c I) as H2.
  pose proof (posC_le_posPx c I) as H3.
  destruct (i_vP c I) as (_&A&_).
  pose proof (sorted_last_x (Mci c) (vci (V (P c))) (i_sci c I) A) as H4. unfold seenPx in *. lia.
Qed.
Lemma caC_cap c : InvX c -> ca (C c) + 1 <= len.
Proof.
  intros I. pose proof (i_caC c I) as H1. pose proof (i_lpi c I) as H2.
  pose proof (posP_ltx c I) as H3.
  destruct (i_vC c I) as (A&_).
  pose proof (sorted_last_x (Mpi c) (vpi (V (C c))) (i_spi c I) A) as H4. unfold seenCx in *. lia.
Qed.

Ltac splits := repeat match goal with |- _ /\ _ => split end.
Ltac inv_fields I :=
  pose proof (i_metas _ I) as Hmetas; pose proof (i_npi _ I) as Hnpi; pose proof (i_nci _ I) as Hnci;
  pose proof (i_spi _ I) as Hspi; pose proof (i_sci _ I) as Hsci;
  pose proof (i_lpi _ I) as Hlpi; pose proof (i_lci _ I) as Hlci; pose proof (i_att _ I) as Hatt;
  pose proof (i_mpi _ I) as Hmpi; pose proof (i_mci _ I) as Hmci;
  pose proof (i_wpi _ I) as Hwpi; pose proof (i_wci _ I) as Hwci;
  pose proof (i_vP _ I) as HvP; pose proof (i_vC _ I) as HvC;
  pose proof (i_ixP _ I) as HixP; pose proof (i_ixC _ I) as HixC;
  pose proof (i_caP _ I) as HcaP; pose proof (i_caC _ I) as HcaC;
  pose proof (i_pcP _ I) as HpcP; pose proof (i_pcC _ I) as HpcC;
  pose proof (i_slot _ I) as Hslot; pose proof (i_race _ I) as Hrace;
  pose proof (posC_le_posPx _ I) as Hcp; pose proof (posP_ltx _ I) as Hpc;
  pose proof (frontC_le_posP _ I) as HfC; pose proof (frontP_lt _ I) as HfP;
  pose proof (caP_cap _ I) as HcapP; pose proof (caC_cap _ I) as HcapC.

(* ================= producer ================= *)

(* ---------- P, pc = 0, remembered availability suffices: grant a window of n = max 1 n0 ---------- *)
Lemma stepP_fast c j n0 : InvX c -> pc (P c) = 0 -> Nat.max 1 n0 <= ca (P c) -> InvX (opP_a true len j n0 c).
Proof.
  intros I Hpc0 Hca. inv_fields I.
  destruct HpcP as [[_ Hoff]|[(X&_)|(X&_)]]; try congruence.
  unfold opP_a. rewrite Hpc0. cbv zeta.
  set (n := Nat.max 1 n0) in *. assert (Hn : 1 <= n) by (unfold n; lia). clearbody n.
  destruct (n <=? ca (P c)) eqn:E; [|apply Nat.leb_gt in E; lia].
  constructor; simpl; auto.
  - right; left; simpl. splits; auto; lia.
  - intros k Hk. destruct (Hslot k Hk) as (S1&S2&S3&S4&S5&S6).
    unfold mtx in *; simpl. splits; auto; lia.
Qed.

(* ---------- P, pc = 0, must look at the consumer's index (acquire load, any admissible message) ---------- *)
Lemma stepP_load c j n0 : InvX c -> pc (P c) = 0 -> ca (P c) < Nat.max 1 n0 -> InvX (opP_a true len j n0 c).
Proof.
  intros I Hpc0 Hca. inv_fields I.
  destruct HpcP as [[_ Hoff]|[(X&_)|(X&_)]]; try congruence.
  unfold opP_a. rewrite Hpc0. cbv zeta.
  set (n := Nat.max 1 n0) in *. assert (Hn : 1 <= n) by (unfold n; lia). clearbody n.
  destruct (n <=? ca (P c)) eqn:E; [apply Nat.leb_le in E; lia|]. clear E.
  destruct HvP as (P1&P2&P3&P4&P5&P6&P7&P8).
  pose proof (pick_bounds_x (vci (V (P c))) (length (Mci c)) j P2) as [Hi1 Hi2].
  set (i := pick (vci (V (P c))) (length (Mci c)) j) in *.
  set (m := nth i (Mci c) dmsg).
  pose proof (Forall_nth_msg _ _ i Hmci Hi2) as [Hmv Hmok]. fold m in Hmv, Hmok.
  pose proof (Hwci i Hi2) as Hmw. fold m in Hmw.
  destruct Hmok as (Q1&Q2&Q3&Q4&Q5&Q6&Q7&Q8).
  assert (Hseen : seenPx c <= mabs m) by (unfold seenPx, m; apply Hsci; lia).
  assert (Hm : mabs m = mabs (nth i (Mci c) dmsg)) by reflexivity.
  clearbody m. clearbody i.
  assert (HmC : mabs m <= pos (C c)) by (rewrite <- Hlci, Hm; apply sorted_last_x; auto).
  assert (Ha : pavail len (ix (P c)) (mval m) = len - 1 - (pos (P c) - mabs m)).
  { rewrite HixP, Hmv. apply pavail_mod; lia. }
  set (v1 := vjoin _ (mview m)).
  assert (Hv1 : view_okx c v1).
  { unfold view_okx, v1, vjoin; simpl. splits; try lia.
    - destruct (Nat.max_spec (vpi (V (P c))) (vpi (mview m))) as [[_ ->]|[_ ->]]; lia.
    - destruct (Nat.max_spec i (vci (mview m))) as [[_ ->]|[_ ->]]; lia.
    - intros k Hk Hw.
      destruct (Nat.max_spec (wP (V (P c))) (wP (mview m))) as [[_ E]|[_ E]]; rewrite E in Hw.
      + specialize (Q7 k Hk Hw); lia.
      + specialize (P7 k Hk Hw); lia.
    - intros k Hk Hw.
      destruct (Nat.max_spec (wC (V (P c))) (wC (mview m))) as [[_ E]|[_ E]]; rewrite E in Hw.
      + specialize (Q8 k Hk Hw); lia.
      + specialize (P8 k Hk Hw); lia. }
  constructor; simpl; auto.
  - (* caP *)
    unfold seenPx; simpl. rewrite Ha.
    assert (mabs m <= mabs (nth (Nat.max i (vci (mview m))) (Mci c) dmsg)) by (rewrite Hm; apply Hsci; lia).
    lia.
  - (* pcP *)
    unfold pc_ok; simpl.
    destruct (n <=? pavail len (ix (P c)) (mval m)) eqn:E;
      [apply Nat.leb_le in E; right; left; splits; auto; lia | left; auto].
  - (* slots *)
    intros k Hk. destruct (Hslot k Hk) as (S1&S2&S3&S4&S5&S6).
    unfold mtx in *; simpl. splits; auto; try lia.
Qed.

(* ---------- P, pc = 2: the non-atomic write of slot (pos + off) mod len of the granted window ---------- *)
Lemma stepP_write c j n0 : InvX c -> pc (P c) = 2 -> InvX (opP_a true len j n0 c).
Proof.
  intros I Hpc2. inv_fields I.
  destruct HpcP as [[X _]|[(_&Hoff&Hcnt)|(X&_)]]; try congruence.
  unfold opP_a. rewrite Hpc2. cbv zeta.
  destruct HvP as (P1&P2&P3&P4&P5&P6&P7&P8).
  assert (Hk0 : wadd len (ix (P c)) (off (P c)) = (pos (P c) + off (P c)) mod len)
    by (rewrite HixP; apply wadd_mod; lia).
  set (k0 := wadd len (ix (P c)) (off (P c))) in *.
  set (q := pos (P c) + off (P c)) in *.
  assert (Hk : k0 < len) by (rewrite Hk0; apply Nat.mod_upper_bound; lia).
  destruct (Hslot _ Hk) as (S1&S2&S3&S4&S5&S6).
  fold (mtx c k0).
  (* the consumer's last read of this slot is one lap (or more) below, and covered by the producer's view *)
  assert (Hr : rpos (mtx c k0) + len <= q).
  { apply (congr_le len);
      [exact Hlen | rewrite (mod_plus_len len Hlen), S2, Hk0; reflexivity | lia]. }
  assert (Hcov : rclk (mtx c k0) <= kc (V (P c))).
  { apply P8; auto. unfold seenPx in HcaP. lia. }
  assert (Hb : negb (rclk (mtx c k0) <=? kc (V (P c))) = false)
    by (apply negb_false_iff, Nat.leb_le; auto).
  rewrite Hb, orb_false_r.
  set (c' := mkCx _ _ _ _ _ _).
  assert (Hmt : forall k, k < len -> k <> k0 -> mtx c' k = mtx c k)
    by (intros; unfold mtx, c'; simpl; apply nth_upd_neq; auto).
  assert (Hmt0 : mtx c' k0 = mkMeta q (kp (V (P c))) (rpos (mtx c k0)) (rclk (mtx c k0)))
    by (unfold mtx, c'; simpl; apply nth_upd_eq; lia).
  assert (G : growsx c c').
  { unfold growsx; splits; simpl; try (exists []; rewrite app_nil_r; reflexivity); try lia.
    intros k Hk'. destruct (Nat.eq_dec k k0) as [->|Hne].
    - right; left. rewrite Hmt0; simpl; splits; auto; lia.
    - left; auto. }
  constructor; simpl; auto.
  - rewrite upd_length; auto.
  - apply (msgs_okx_grows c c' _ G Hmpi).
  - apply (msgs_okx_grows c c' _ G Hmci).
  - apply (view_okx_grows c c' _ G). unfold view_okx; splits; auto.
  - apply (view_okx_grows c c' _ G HvC).
  - unfold pc_ok; simpl.
    destruct (cnt (P c) <=? off (P c) + 1) eqn:E; [apply Nat.leb_le in E | apply Nat.leb_gt in E].
    + right; right; splits; auto; lia.
    + right; left; splits; auto; lia.
  - intros k Hk'. destruct (Nat.eq_dec k k0) as [->|Hne].
    + rewrite Hmt0; simpl. splits; auto; try lia.
    + rewrite (Hmt k Hk' Hne). destruct (Hslot k Hk') as (T1&T2&T3&T4&T5&T6).
      splits; auto; lia.
Qed.

(* ---------- P, pc = 3: advance by cnt + release store of the new index ---------- *)
Lemma stepP_store c j n0 : InvX c -> pc (P c) = 3 -> InvX (opP_a true len j n0 c).
Proof.
  intros I Hpc3. inv_fields I.
  destruct HpcP as [[X _]|[(X&_)|(_&Hoff&Hcnt)]]; try congruence.
  unfold opP_a. rewrite Hpc3. cbv zeta.
  destruct HvP as (P1&P2&P3&P4&P5&P6&P7&P8).
  assert (Hix' : wadd len (ix (P c)) (cnt (P c)) = (pos (P c) + cnt (P c)) mod len)
    by (rewrite HixP; apply wadd_mod; lia).
  set (p' := pos (P c) + cnt (P c)) in *.
  set (v1 := mkV (length (Mpi c)) _ _ _ p' _).
  set (m := mkM _ _ v1).
  set (c' := mkCx _ _ _ _ _ _).
  assert (G : growsx c c').
  { unfold growsx; splits; simpl; try lia.
    - exists [m]; reflexivity.
    - exists []; rewrite app_nil_r; reflexivity.
    - intros; left; reflexivity. }
  assert (Hnth : forall i, i < length (Mpi c) -> nth i (Mpi c ++ [m]) dmsg = nth i (Mpi c) dmsg)
    by (intros; apply nth_app_l; auto).
  assert (Hv1 : view_okx c' v1).
  { unfold view_okx, v1, c'; simpl. rewrite app_length; simpl. splits; try lia.
    - rewrite nth_app_last_x; simpl; lia.
    - intros k Hk Hw. destruct (Hslot k Hk) as (_&_&_&_&S5&_). exact S5.
    - intros k Hk Hw. apply P8; auto. }
  constructor; simpl; auto.
  - rewrite app_length; simpl; lia.
  - apply sorted_app_x; auto. simpl. lia.
  - rewrite lastabs_app_x; reflexivity.
  - apply Forall_app1.
    + apply (msgs_okx_grows c c' _ G Hmpi).
    + split; simpl; auto.
  - apply (msgs_okx_grows c c' _ G Hmci).
  - intros i Hi. rewrite app_length in Hi; simpl in Hi.
    destruct (Nat.eq_dec i (length (Mpi c))) as [->|Hne].
    + rewrite nth_app_last_x; simpl; lia.
    + rewrite Hnth by lia. apply Hwpi; lia.
  - destruct Hv1 as (A1&A2&A3&A4&A5&A6&A7&A8). unfold view_okx; simpl. splits; auto.
  - apply (view_okx_grows c c' _ G HvC).
  - unfold seenPx in *; simpl. lia.
  - unfold seenCx in *; simpl. destruct HvC as (C1&_). rewrite Hnth by auto. auto.
  - left; simpl; auto.
  - (* the consumer's pc: it looks at the same message of the producer's index as before *)
    destruct HvC as (C1&_).
    destruct HpcC as [X|(X1&X2&X3&X4&X5)]; [left; exact X | right].
    unfold seenCx in *; simpl. rewrite Hnth by auto. splits; auto.
  - intros k Hk. destruct (Hslot k Hk) as (S1&S2&S3&S4&S5&S6).
    unfold mtx in *; simpl. splits; auto; try lia.
Qed.

(* ================= consumer ================= *)
Lemma stepC_fast c j n0 : InvX c -> pc (C c) = 0 -> Nat.max 1 n0 <= ca (C c) -> InvX (opC_a true len j n0 c).
Proof.
  intros I Hpc0 Hca. inv_fields I.
  destruct HpcC as [[[_ Hoff]|[(X&_)|(X&_)]]|(X&_)]; try congruence.
  unfold opC_a. rewrite Hpc0. cbv zeta.
  set (n := Nat.max 1 n0) in *. assert (Hn : 1 <= n) by (unfold n; lia). clearbody n.
  destruct (n <=? ca (C c)) eqn:E; [|apply Nat.leb_gt in E; lia].
  constructor; simpl; auto.
  - left; right; left; simpl. splits; auto; lia.
  - intros k Hk. destruct (Hslot k Hk) as (S1&S2&S3&S4&S5&S6).
    unfold mtx in *; simpl. splits; auto; lia.
Qed.

Lemma stepC_load c j n0 : InvX c -> pc (C c) = 0 -> ca (C c) < Nat.max 1 n0 -> InvX (opC_a true len j n0 c).
Proof.
  intros I Hpc0 Hca. inv_fields I.
  destruct HpcC as [[[_ Hoff]|[(X&_)|(X&_)]]|(X&_)]; try congruence.
  unfold opC_a. rewrite Hpc0. cbv zeta.
  set (n := Nat.max 1 n0) in *. assert (Hn : 1 <= n) by (unfold n; lia). clearbody n.
  destruct (n <=? ca (C c)) eqn:E; [apply Nat.leb_le in E; lia|]. clear E.
  destruct HvC as (P1&P2&P3&P4&P5&P6&P7&P8).
  pose proof (pick_bounds_x (vpi (V (C c))) (length (Mpi c)) j P1) as [Hi1 Hi2].
  set (i := pick (vpi (V (C c))) (length (Mpi c)) j) in *.
  set (m := nth i (Mpi c) dmsg).
  pose proof (Forall_nth_msg _ _ i Hmpi Hi2) as [Hmv Hmok]. fold m in Hmv, Hmok.
  pose proof (Hwpi i Hi2) as Hmw. fold m in Hmw.
  destruct Hmok as (Q1&Q2&Q3&Q4&Q5&Q6&Q7&Q8).
  assert (Hseen : seenCx c <= mabs m) by (unfold seenCx, m; apply Hspi; lia).
  assert (Hm : mabs m = mabs (nth i (Mpi c) dmsg)) by reflexivity.
  clearbody m. clearbody i.
  assert (HmP : mabs m <= pos (P c)) by (rewrite <- Hlpi, Hm; apply sorted_last_x; auto).
  assert (Ha : dist len (ix (C c)) (mval m) = mabs m - pos (C c)).
  { rewrite HixC, Hmv. apply dist_mod; lia. }
  set (v1 := vjoin _ (mview m)).
  assert (Hv1 : view_okx c v1).
  { unfold view_okx, v1, vjoin; simpl. splits; try lia.
    - destruct (Nat.max_spec i (vpi (mview m))) as [[_ ->]|[_ ->]]; lia.
    - destruct (Nat.max_spec (vci (V (C c))) (vci (mview m))) as [[_ ->]|[_ ->]]; lia.
    - intros k Hk Hw.
      destruct (Nat.max_spec (wP (V (C c))) (wP (mview m))) as [[_ E]|[_ E]]; rewrite E in Hw.
      + specialize (Q7 k Hk Hw); lia.
      + specialize (P7 k Hk Hw); lia.
    - intros k Hk Hw.
      destruct (Nat.max_spec (wC (V (C c))) (wC (mview m))) as [[_ E]|[_ E]]; rewrite E in Hw.
      + specialize (Q8 k Hk Hw); lia.
      + specialize (P8 k Hk Hw); lia. }
  constructor; simpl; auto.
  - unfold seenCx; simpl. rewrite Ha.
    assert (mabs m <= mabs (nth (Nat.max i (vpi (mview m))) (Mpi c) dmsg)) by (rewrite Hm; apply Hspi; lia).
    lia.
  - left; unfold pc_ok; simpl.
    destruct (n <=? dist len (ix (C c)) (mval m)) eqn:E;
      [apply Nat.leb_le in E; right; left; splits; auto; lia | left; auto].
  - intros k Hk. destruct (Hslot k Hk) as (S1&S2&S3&S4&S5&S6).
    unfold mtx in *; simpl. splits; auto; try lia.
Qed.

(* ---------- C, pc = 2: the non-atomic read of slot (pos + off) mod len of the granted window ---------- *)
Lemma stepC_read c j n0 : InvX c -> pc (C c) = 2 -> InvX (opC_a true len j n0 c).
Proof.
  intros I Hpc2. inv_fields I.
  destruct HpcC as [[[X _]|[(_&Hoff&Hcnt)|(X&_)]]|(X&_)]; try congruence.
  unfold opC_a. rewrite Hpc2. cbv zeta.
  destruct HvC as (P1&P2&P3&P4&P5&P6&P7&P8).
  assert (Hk0 : wadd len (ix (C c)) (off (C c)) = (pos (C c) + off (C c)) mod len)
    by (rewrite HixC; apply wadd_mod; lia).
  set (k0 := wadd len (ix (C c)) (off (C c))) in *.
  set (q := pos (C c) + off (C c)) in *.
  assert (Hk : k0 < len) by (rewrite Hk0; apply Nat.mod_upper_bound; lia).
  destruct (Hslot _ Hk) as (S1&S2&S3&S4&S5&S6).
  fold (mtx c k0).
  (* the producer's last write of this slot is not above the position being read ... *)
  assert (Hw : wpos (mtx c k0) <= q).
  { apply (congr_le len); [exact Hlen | rewrite S1, Hk0; reflexivity | lia]. }
  (* ... hence below the watermark the consumer acquired *)
  assert (Hcov : wclk (mtx c k0) <= kp (V (C c))).
  { apply P7; auto. unfold seenCx in HcaC. lia. }
  assert (Hb : negb (wclk (mtx c k0) <=? kp (V (C c))) = false)
    by (apply negb_false_iff, Nat.leb_le; auto).
  rewrite Hb, orb_false_r.
  set (c' := mkCx _ _ _ _ _ _).
  assert (Hmt : forall k, k < len -> k <> k0 -> mtx c' k = mtx c k)
    by (intros; unfold mtx, c'; simpl; apply nth_upd_neq; auto).
  assert (Hmt0 : mtx c' k0 = mkMeta (wpos (mtx c k0)) (wclk (mtx c k0)) q (kc (V (C c))))
    by (unfold mtx, c'; simpl; apply nth_upd_eq; lia).
  assert (G : growsx c c').
  { unfold growsx; splits; simpl; try (exists []; rewrite app_nil_r; reflexivity); try lia.
    intros k Hk'. destruct (Nat.eq_dec k k0) as [->|Hne].
    - right; right. rewrite Hmt0; simpl; splits; auto; lia.
    - left; auto. }
  constructor; simpl; auto.
  - rewrite upd_length; auto.
  - apply (msgs_okx_grows c c' _ G Hmpi).
  - apply (msgs_okx_grows c c' _ G Hmci).
  - apply (view_okx_grows c c' _ G HvP).
  - apply (view_okx_grows c c' _ G). unfold view_okx; splits; auto.
  - left; unfold pc_ok; simpl.
    destruct (cnt (C c) <=? off (C c) + 1) eqn:E; [apply Nat.leb_le in E | apply Nat.leb_gt in E].
    + right; right; splits; auto; lia.
    + right; left; splits; auto; lia.
  - intros k Hk'. destruct (Nat.eq_dec k k0) as [->|Hne].
    + rewrite Hmt0; simpl. splits; auto; try lia.
    + rewrite (Hmt k Hk' Hne). destruct (Hslot k Hk') as (T1&T2&T3&T4&T5&T6).
      splits; auto; lia.
Qed.

(* ---------- C: the end of an operation WITH a release store ----------
   Used for: pc 3 attached (advance by cnt), pc 5 attached (reset: jump to the loaded position), Sync, Attach.
   Premises: the new local position p' is not behind the frontier of the consumer's reads, and together with the
   new remembered availability it is not ahead of what the consumer has seen of the producer's index. *)
Lemma publishC_inv c ix' p' ca' d :
  InvX c -> pos (C c) + off (C c) <= p' -> p' + ca' <= seenCx c -> ix' = p' mod len ->
  InvX (publishC c ix' p' ca' d).
Proof.
  intros I Hp' Hca' Hix'. inv_fields I.
  unfold publishC. cbv zeta.
  destruct HvC as (P1&P2&P3&P4&P5&P6&P7&P8).
  set (v1 := mkV _ (length (Mci c)) _ _ _ p').
  set (m := mkM _ _ v1).
  set (c' := mkCx _ _ _ _ _ _).
  assert (G : growsx c c').
  { unfold growsx; splits; simpl; try lia.
    - exists []; rewrite app_nil_r; reflexivity.
    - exists [m]; reflexivity.
    - intros; left; reflexivity. }
  assert (Hnth : forall i, i < length (Mci c) -> nth i (Mci c ++ [m]) dmsg = nth i (Mci c) dmsg)
    by (intros; apply nth_app_l; auto).
  assert (Hv1 : view_okx c' v1).
  { unfold view_okx, v1, c'; simpl. rewrite app_length; simpl. splits; try lia.
    - rewrite nth_app_last_x; simpl; lia.
    - intros k Hk Hw. apply P7; auto.
    - intros k Hk Hw. destruct (Hslot k Hk) as (_&_&_&_&_&S6). exact S6. }
  constructor; simpl; auto.
  - rewrite app_length; simpl; lia.
  - apply sorted_app_x; auto. simpl. lia.
  - rewrite lastabs_app_x; simpl; lia.
  - intros _. rewrite lastabs_app_x; reflexivity.
  - apply (msgs_okx_grows c c' _ G Hmpi).
  - apply Forall_app1.
    + apply (msgs_okx_grows c c' _ G Hmci).
    + split; simpl; auto.
  - intros i Hi. rewrite app_length in Hi; simpl in Hi.
    destruct (Nat.eq_dec i (length (Mci c))) as [->|Hne].
    + rewrite nth_app_last_x; simpl; lia.
    + rewrite Hnth by lia. apply Hwci; lia.
  - apply (view_okx_grows c c' _ G (i_vP c I)).
  - destruct Hv1 as (A1&A2&A3&A4&A5&A6&A7&A8). unfold view_okx; simpl. splits; auto.
  - unfold seenPx in *; simpl. destruct (i_vP c I) as (_&C2&_). rewrite Hnth by auto. lia.
  - unfold seenCx in *; simpl. lia.
  - left; left; simpl; auto.
  - intros k Hk. destruct (Hslot k Hk) as (S1&S2&S3&S4&S5&S6).
    unfold mtx in *; simpl. splits; auto; try lia.
Qed.

(* ---------- C detached: the end of an operation WITHOUT a store (only the local index moves) ---------- *)
Lemma localC_inv c ix' p' ca' :
  InvX c -> det (C c) = true -> pos (C c) + off (C c) <= p' -> p' + ca' <= seenCx c -> ix' = p' mod len ->
  InvX (localC c ix' p' ca').
Proof.
  intros I Hdet Hp' Hca' Hix'. inv_fields I.
  unfold localC. cbv zeta.
  set (c' := mkCx _ _ _ _ _ _).
  assert (G : growsx c c').
  { unfold growsx; splits; simpl; try lia.
    - exists []; rewrite app_nil_r; reflexivity.
    - exists []; rewrite app_nil_r; reflexivity.
    - intros; left; reflexivity. }
  constructor; simpl; auto.
  - lia.
  - rewrite Hdet; discriminate.
  - apply (msgs_okx_grows c c' _ G Hmpi).
  - apply (msgs_okx_grows c c' _ G Hmci).
  - apply (view_okx_grows c c' _ G HvP).
  - apply (view_okx_grows c c' _ G HvC).
  - unfold seenCx in *; simpl. lia.
  - left; left; simpl; auto.
  - intros k Hk. destruct (Hslot k Hk) as (S1&S2&S3&S4&S5&S6).
    unfold mtx in *; simpl. splits; auto; try lia.
Qed.

Lemma finishC_inv c ix' p' ca' :
  InvX c -> pos (C c) + off (C c) <= p' -> p' + ca' <= seenCx c -> ix' = p' mod len ->
  InvX (finishC c ix' p' ca').
Proof.
  intros I Hp' Hca' Hix'. unfold finishC.
  destruct (det (C c)) eqn:Hdet.
  - apply localC_inv; auto.
  - apply publishC_inv; auto.
Qed.

(* ---------- C, pc = 3: advance by cnt (published when attached, local when detached) ---------- *)
Lemma stepC_store c j n0 : InvX c -> pc (C c) = 3 -> InvX (opC_a true len j n0 c).
Proof.
  intros I Hpc3. inv_fields I.
  destruct HpcC as [[[X _]|[(X&_)|(_&Hoff&Hcnt)]]|(X&_)]; try congruence.
  unfold opC_a. rewrite Hpc3. cbv zeta.
  apply finishC_inv; auto; try lia.
  rewrite HixC; apply wadd_mod; lia.
Qed.

(* ---------- C, pc = 5: the store of reset_index: jump to the loaded position ---------- *)
Lemma stepC_rstore c j n0 : InvX c -> pc (C c) = 5 -> InvX (opC_a true len j n0 c).
Proof.
  intros I Hpc5. inv_fields I.
  destruct HpcC as [[[X _]|[(X&_)|(X&_)]]|(_&Hoff&Hge&Hle&Hnix)]; try congruence.
  unfold opC_a. rewrite Hpc5. cbv zeta.
  apply finishC_inv; auto; lia.
Qed.

(* ---------- C, pc = 0, Reset: the load of reset_index (acquire, any admissible message) ----------
   The message read is at or after the consumer's view, and everything the consumer was ever granted lies at or
   below the message at its view ([i_caC]): the loaded position is not behind the local position. *)
Lemma resetC_inv c j : InvX c -> pc (C c) = 0 -> InvX (resetC_a true j c).
Proof.
  intros I Hpc0. inv_fields I.
  destruct HpcC as [[[_ Hoff]|[(X&_)|(X&_)]]|(X&_)]; try congruence.
  unfold resetC_a. cbv zeta.
  destruct HvC as (P1&P2&P3&P4&P5&P6&P7&P8).
  pose proof (pick_bounds_x (vpi (V (C c))) (length (Mpi c)) j P1) as [Hi1 Hi2].
  set (i := pick (vpi (V (C c))) (length (Mpi c)) j) in *.
  set (m := nth i (Mpi c) dmsg).
  pose proof (Forall_nth_msg _ _ i Hmpi Hi2) as [Hmv Hmok]. fold m in Hmv, Hmok.
  pose proof (Hwpi i Hi2) as Hmw. fold m in Hmw.
  destruct Hmok as (Q1&Q2&Q3&Q4&Q5&Q6&Q7&Q8).
  assert (Hseen : seenCx c <= mabs m) by (unfold seenCx, m; apply Hspi; lia).
  assert (Hm : mabs m = mabs (nth i (Mpi c) dmsg)) by reflexivity.
  clearbody m. clearbody i.
  set (v1 := vjoin _ (mview m)).
  assert (Hv1 : view_okx c v1).
  { unfold view_okx, v1, vjoin; simpl. splits; try lia.
    - destruct (Nat.max_spec i (vpi (mview m))) as [[_ ->]|[_ ->]]; lia.
    - destruct (Nat.max_spec (vci (V (C c))) (vci (mview m))) as [[_ ->]|[_ ->]]; lia.
    - intros k Hk Hw.
      destruct (Nat.max_spec (wP (V (C c))) (wP (mview m))) as [[_ E]|[_ E]]; rewrite E in Hw.
      + specialize (Q7 k Hk Hw); lia.
      + specialize (P7 k Hk Hw); lia.
    - intros k Hk Hw.
      destruct (Nat.max_spec (wC (V (C c))) (wC (mview m))) as [[_ E]|[_ E]]; rewrite E in Hw.
      + specialize (Q8 k Hk Hw); lia.
      + specialize (P8 k Hk Hw); lia. }
  assert (Hmono : mabs m <= mabs (nth (Nat.max i (vpi (mview m))) (Mpi c) dmsg))
    by (rewrite Hm; apply Hspi; lia).
  constructor; simpl; auto.
  - unfold seenCx in *; simpl. lia.
  - right; unfold seenCx in *; simpl. splits; auto; lia.
  - intros k Hk. destruct (Hslot k Hk) as (S1&S2&S3&S4&S5&S6).
    unfold mtx in *; simpl. splits; auto; try lia.
Qed.

(* ---------- C, pc = 0, Detach ---------- *)
Lemma detachC_inv c : InvX c -> pc (C c) = 0 -> InvX (detachC c).
Proof.
  intros I Hpc0. inv_fields I.
  destruct HpcC as [[[_ Hoff]|[(X&_)|(X&_)]]|(X&_)]; try congruence.
  unfold detachC. cbv zeta.
  constructor; simpl; auto.
  - discriminate.
  - left; left; simpl; auto.
Qed.

(* ---------- C, pc = 0, Sync / Attach: publish the current local position ---------- *)
Lemma syncC_inv c d : InvX c -> pc (C c) = 0 -> InvX (publishC c (ix (C c)) (pos (C c)) (ca (C c)) d).
Proof.
  intros I Hpc0. inv_fields I.
  destruct HpcC as [[[_ Hoff]|[(X&_)|(X&_)]]|(X&_)]; try congruence.
  apply publishC_inv; auto; lia.
Qed.

Lemma opP_inv c j n0 : InvX c -> InvX (opP_a true len j n0 c).
Proof.
  intros I. destruct (i_pcP c I) as [[H0 _]|[[H2 _]|[H3 _]]].
  - destruct (Nat.max 1 n0 <=? ca (P c)) eqn:E; [apply Nat.leb_le in E | apply Nat.leb_gt in E].
    + apply stepP_fast; auto.
    + apply stepP_load; auto.
  - apply stepP_write; auto.
  - apply stepP_store; auto.
Qed.

Lemma opC_inv c j n0 : InvX c -> InvX (opC_a true len j n0 c).
Proof.
  intros I. destruct (i_pcC c I) as [[[H0 _]|[[H2 _]|[H3 _]]]|[H5 _]].
  - destruct (Nat.max 1 n0 <=? ca (C c)) eqn:E; [apply Nat.leb_le in E | apply Nat.leb_gt in E].
    + apply stepC_fast; auto.
    + apply stepC_load; auto.
  - apply stepC_read; auto.
  - apply stepC_store; auto.
  - apply stepC_rstore; auto.
Qed.

Lemma step_invx c s : InvX c -> InvX (step_x len c s).
Proof.
  intros I. destruct s as [[|] k]; unfold step_x, step_a; simpl fst; simpl snd; cbv iota.
  - (* producer: only Op does anything *)
    destruct k as [j n0|j| | |]; simpl; auto. apply opP_inv; auto.
  - (* consumer: Reset / Detach / Attach / Sync are accepted at pc 0 only *)
    unfold stepC_a. destruct k as [j n0|j| | |].
    + apply opC_inv; auto.
    + destruct (pc (C c)) as [|q] eqn:E; auto. apply resetC_inv; auto.
    + destruct (pc (C c)) as [|q] eqn:E; auto. apply detachC_inv; auto.
    + destruct (pc (C c)) as [|q] eqn:E; auto. apply syncC_inv; auto.
    + destruct (pc (C c)) as [|q] eqn:E; auto. apply syncC_inv; auto.
Qed.

(* ---------- additional facts ---------- *)

(* No step moves the consumer's local position backwards - in particular not the store of a reset. *)
Lemma step_posC_mono c s : InvX c -> pos (C c) <= pos (C (step_x len c s)).
Proof.
  intros I. pose proof (i_pcC c I) as HpcC.
  destruct s as [[|] k]; unfold step_x, step_a; simpl fst; simpl snd; cbv iota.
  - destruct k as [j n0|j| | |]; simpl; auto. unfold opP_a.
    destruct (pc (P c)) as [|[|[|[|q]]]]; cbv zeta; simpl; auto.
    destruct (Nat.max 1 n0 <=? ca (P c)); simpl; auto.
  - unfold stepC_a. destruct k as [j n0|j| | |].
    + unfold opC_a, finishC, localC, publishC.
      destruct HpcC as [[[H0 _]|[[H2 _]|[H3 _]]]|(H5&_&Hge&_)];
        [rewrite H0|rewrite H2|rewrite H3|rewrite H5]; cbv zeta.
      * destruct (Nat.max 1 n0 <=? ca (C c)); simpl; auto.
      * simpl; auto.
      * destruct (det (C c)); simpl; lia.
      * destruct (det (C c)); simpl; lia.
    + destruct (pc (C c)) as [|q]; simpl; auto.
    + destruct (pc (C c)) as [|q]; simpl; auto.
    + destruct (pc (C c)) as [|q]; simpl; auto.
    + destruct (pc (C c)) as [|q]; simpl; auto.
Qed.

Lemma init_invx : InvX (init_x len).
Proof.
  assert (Hv : forall kp0 kc0, view_okx (init_x len) (mkV 0 0 kp0 kc0 len len)).
  { intros. unfold view_okx, init_x, mtx; simpl. splits; try lia.
    - intros k Hk Hw. rewrite nth_init_meta by auto. simpl. lia.
    - intros k Hk Hw. rewrite nth_init_meta by auto. simpl. lia. }
  constructor; simpl; auto.
  - rewrite map_length, seq_length; reflexivity.
  - intros i j Hij Hj. simpl in Hj. assert (i = 0) by lia. assert (j = 0) by lia. subst. lia.
  - intros i j Hij Hj. simpl in Hj. assert (i = 0) by lia. assert (j = 0) by lia. subst. lia.
  - constructor; [|constructor]. split; simpl; [symmetry; apply Nat.mod_same; lia | apply Hv].
  - constructor; [|constructor]. split; simpl; [symmetry; apply Nat.mod_same; lia | apply Hv].
  - intros i Hi. assert (i = 0) by lia. subst; simpl; lia.
  - intros i Hi. assert (i = 0) by lia. subst; simpl; lia.
  - apply Hv.
  - apply Hv.
  - symmetry; apply Nat.mod_same; lia.
  - symmetry; apply Nat.mod_same; lia.
  - unfold seenPx; simpl. lia.
  - left; simpl; auto.
  - left; left; simpl; auto.
  - intros k Hk. unfold mtx; simpl. rewrite nth_init_meta by auto. simpl.
    splits; try lia; apply Nat.mod_small; auto.
Qed.

Theorem exec_invx script : InvX (exec_x len (init_x len) script).
Proof.
  unfold exec_x, exec_a. change (step_a true true len) with (step_x len).
  generalize init_invx. generalize (init_x len).
  induction script as [|s script IH]; intros c I; simpl; auto.
  apply IH. apply step_invx; auto.
Qed.
End InvX.

(* Every release/acquire-consistent execution of the extended machine - any interleaving, any stale read, any
   sequence of window sizes, resets, detach / sync / attach commands - is race free. *)
Theorem spsc_x_race_free : forall len script, 0 < len -> race (exec_x len (init_x len) script) = false.
Proof. intros len script Hl. apply (i_race len _ (exec_invx len Hl script)). Qed.

(* The position the consumer has published never exceeds its local position; attached, they are equal
   (at every pc: the local index is set by the step that publishes it). *)
Theorem published_le_local : forall len script, 0 < len ->
  let c := exec_x len (init_x len) script in
  publishedC c <= pos (C c) /\ (det (C c) = false -> publishedC c = pos (C c)).
Proof.
  intros len script Hl c. pose proof (exec_invx len Hl script) as I. fold c in I.
  unfold publishedC. rewrite <- lastabs_last. split; [apply (i_lci len c I) | apply (i_att len c I)].
Qed.

(* The consumer's local position is monotone along every execution: a reset never goes backwards. *)
Theorem consumer_never_goes_back : forall len s1 s2, 0 < len ->
  pos (C (exec_x len (init_x len) s1)) <= pos (C (exec_x len (init_x len) (s1 ++ s2))).
Proof.
  intros len s1 s2 Hl. unfold exec_x, exec_a. rewrite fold_left_app.
  change (step_a true true len) with (step_x len).
  pose proof (exec_invx len Hl s1) as I. unfold exec_x, exec_a in I.
  change (step_a true true len) with (step_x len) in I.
  revert I. generalize (fold_left (step_x len) s1 (init_x len)).
  induction s2 as [|s s2 IH]; intros c I; simpl; auto.
  etransitivity; [apply (step_posC_mono len Hl c s I) | apply IH; apply step_invx; auto].
Qed.

Print Assumptions spsc_x_race_free.
Print Assumptions published_le_local.
Print Assumptions consumer_never_goes_back.
