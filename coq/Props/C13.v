(** * C13: All buffer variants behave identically on the same single-threaded history
    Only statements closed by [exact]; proofs live in Proofs/.
    The Model has one [step] for Concurrent/Local (the atomics of the concurrent variant are
    single-threaded loads/stores here; Proofs about the view machine live in Props/C02.v) and
    differs between Heap and Stack only in the lifetime operations. That the eight implementations
    agree with this one Model is established by the lock-step correspondence run (see DESIGN.md). *)
From Coq Require Import List Arith NArith Bool Lia.
Import ListNotations.
Require Import MRB.Base.Ring MRB.Base.ListAux MRB.Model.Types MRB.Model.Seq MRB.Spec.Pipe.
Require Import MRB.Proofs.Rel MRB.Proofs.Refine MRB.Proofs.Variants.

Theorem C13_heap_stack :
  forall (b : bool) (m : mstate) (o : op), lifetime_op o = false -> step (with_heap b m) o = lift b (step m o).
Proof. exact Variants.heap_irrelevant. Qed.
Print Assumptions C13_heap_stack.

Theorem C13_one_spec :
  forall (h : list op) (m : mstate) (a : pipe), Rel m a ->
  let '(a', ys, ok) := srun a h in ok = true -> let '(m', xs) := run m h in xs = ys /\ Rel m' a'.
Proof. exact Refine.run_refines. Qed.
Print Assumptions C13_one_spec.

(** FORMS (Proofs/Forms.v): detached-then-attached = plain (whole state equal, Model and Spec); async-polled = plain *)
Require MRB.Proofs.Forms.
Theorem C13_detached_block :
  forall (m : Seq.mstate) (a : Pipe.pipe) (K : Types.stage) (os : list Types.op), Rel.Rel m a -> Seq.attached K m = true -> List.Forall (fun o : Types.op => Forms.det_form K o = true) os -> Seq.run m ((Types.Detach K :: nil) ++ os ++ Types.Attach K :: nil) = (fst (Seq.run m os), ((Types.OUnit, nil) :: snd (Seq.run m os) ++ (Types.OUnit, nil) :: nil)%list) /\ (snd (Pipe.srun a os) = true -> Pipe.srun a ((Types.Detach K :: nil) ++ os ++ Types.Attach K :: nil) = (fst (fst (Pipe.srun a os)), ((Types.OUnit, nil) :: snd (fst (Pipe.srun a os)) ++ (Types.OUnit, nil) :: nil)%list, true)).
Proof. exact Forms.C13_detached_block. Qed.
Print Assumptions C13_detached_block.

Theorem C13_detached_form :
  forall (m : Seq.mstate) (a : Pipe.pipe) (K : Types.stage) (o : Types.op), Rel.Rel m a -> Seq.attached K m = true -> Forms.det_form K o = true -> Seq.run m (Types.Detach K :: o :: Types.Attach K :: nil) = (fst (Seq.step m o), ((Types.OUnit, nil) :: snd (Seq.step m o) :: (Types.OUnit, nil) :: nil)%list) /\ (Pipe.ok_op a o = true -> Pipe.srun a (Types.Detach K :: o :: Types.Attach K :: nil) = (fst (Pipe.sstep a o), ((Types.OUnit, nil) :: snd (Pipe.sstep a o) :: (Types.OUnit, nil) :: nil)%list, true)).
Proof. exact Forms.C13_detached_form. Qed.
Print Assumptions C13_detached_form.

Theorem C13_reset_form :
  forall (m : Seq.mstate) (a : Pipe.pipe) (K : Types.stage), Rel.Rel m a -> Seq.attached K m = true -> K <> Types.P -> Seq.run m (Types.Detach K :: Types.DReset K :: Types.Attach K :: nil) = (fst (Seq.step m (Types.Reset K)), ((Types.OUnit, nil) :: snd (Seq.step m (Types.Reset K)) :: (Types.OUnit, nil) :: nil)%list) /\ Pipe.srun a (Types.Detach K :: Types.DReset K :: Types.Attach K :: nil) = (fst (Pipe.sstep a (Types.Reset K)), ((Types.OUnit, nil) :: snd (Pipe.sstep a (Types.Reset K)) :: (Types.OUnit, nil) :: nil)%list, true).
Proof. exact Forms.C13_reset_form. Qed.
Print Assumptions C13_reset_form.

Theorem C13_async_form :
  forall (s : Async.astate) (k : Types.stage) (o : Types.op), Async.future_of o = Some k -> Async.free_iter k s = true -> Seq.det (Seq.it_of k (Async.base s)) = false -> let r := Seq.step (Async.base s) o in Async.base (fst (Async.astep s (Async.APoll o))) = fst r /\ snd (Async.astep s (Async.APoll o)) = (if Async.refused (fst (snd r)) then Types.OPending else fst (snd r), snd (snd r)) /\ Async.held (fst (Async.astep s (Async.APoll o))) = Async.held s /\ (Async.refused (fst (snd r)) = true -> snd (snd r) = nil /\ fst r = Forms.stale k (Async.base s)).
Proof. exact Forms.C13_async_form. Qed.
Print Assumptions C13_async_form.

Theorem C13_async_form_spec :
  forall (s : Async.astate) (a : Pipe.pipe) (k : Types.stage) (o : Types.op), Rel.Rel (Async.base s) a -> Pipe.ok_op a o = true -> Async.future_of o = Some k -> Async.free_iter k s = true -> Seq.det (Seq.it_of k (Async.base s)) = false -> let r := Pipe.sstep a o in Rel.Rel (Async.base (fst (Async.astep s (Async.APoll o)))) (fst r) /\ snd (Async.astep s (Async.APoll o)) = (if Async.refused (fst (snd r)) then Types.OPending else fst (snd r), snd (snd r)) /\ (Async.refused (fst (snd r)) = true -> fst r = a /\ snd (snd r) = nil).
Proof. exact Forms.C13_async_form_spec. Qed.
Print Assumptions C13_async_form_spec.


(** the [IterManager] accessors of the Local and the Concurrent variant (regenerated on every run into gen/Accessors.v): every index
    getter / setter is a plain, unconditional access of its own field, every liveness getter reads its own flag, every liveness setter
    writes its own flag and answers "no flag is set any more" - the two variants differ in nothing but the kind of cell *)
Require MRB.gen.Accessors.
Theorem C13_accessors_source : forallb (fun x => snd x) Accessors.accessors = true /\ length Accessors.accessors = 24 /\ Accessors.extractor_clean = true.
Proof. vm_compute. repeat split. Qed.
Print Assumptions C13_accessors_source.
