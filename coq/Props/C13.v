(** * C13: All buffer variants behave identically on the same single-threaded history
    Only statements closed by [exact]; proofs live in Proofs/.
    The Model has one [step] for Concurrent/Local (the atomics of the concurrent variant are
    single-threaded loads/stores here; Proofs about the view machine live in Props/C02.v) and
    differs between Heap and Stack only in the lifetime operations. That the eight implementations
    agree with this one Model is established by the lock-step correspondence run (see DESIGN.md). *)
From Coq Require Import List Arith NArith Bool Lia.
Import ListNotations.
Require Import MRB.Base.Ring MRB.Base.ListAux MRB.Model.Types MRB.Model.Seq MRB.Spec.Pipe.
Require Import MRB.Proofs.Rel MRB.Proofs.Refine MRB.Proofs.Variants.

Theorem C13_heap_stack :
  forall (b : bool) (m : mstate) (o : op), lifetime_op o = false -> step (with_heap b m) o = lift b (step m o).
Proof. exact Variants.heap_irrelevant. Qed.
Print Assumptions C13_heap_stack.

Theorem C13_one_spec :
  forall (h : list op) (m : mstate) (a : pipe), Rel m a ->
  let '(a', ys, ok) := srun a h in ok = true -> let '(m', xs) := run m h in xs = ys /\ Rel m' a'.
Proof. exact Refine.run_refines. Qed.
Print Assumptions C13_one_spec.
