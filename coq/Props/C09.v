(** * C09: Empty (zeroed) slots are never read or dropped; *_init pushes handle both kinds
    Only statements closed by [exact]; proofs live in Proofs/Ledger.v. *)
From Coq Require Import List Arith NArith Bool Lia.
Import ListNotations.
Require Import MRB.Base.Ring MRB.Base.ListAux MRB.Model.Types MRB.Model.Seq MRB.Spec.Pipe.
Require Import MRB.Proofs.Rel MRB.Proofs.Refine MRB.Proofs.Ledger.

Theorem C09_init_store_safe :
  forall old : BinNums.N, List.existsb zero_ev (Seq.store_ev Seq.SInit old) = false.
Proof. exact Ledger.init_store_safe. Qed.
Print Assumptions C09_init_store_safe.

Theorem C09_init_stores_safe :
  forall olds : list BinNums.N, List.existsb zero_ev (Seq.store_evs Seq.SInit olds) = false.
Proof. exact Ledger.init_stores_safe. Qed.
Print Assumptions C09_init_stores_safe.

Theorem C09_release_skips_empty :
  forall l : list BinNums.N, List.existsb zero_ev (Seq.release_evs l) = false /\ (forall v : BinNums.N, v <> BinNums.N0 -> outs v (Seq.release_evs l) = cnt v l).
Proof. exact Ledger.release_skips_empty. Qed.
Print Assumptions C09_release_skips_empty.

Theorem C09_push_state_mode_independent :
  forall (md1 md2 : Seq.smode) (x : BinNums.N) (m : Seq.mstate), fst (Seq.push md1 x m) = fst (Seq.push md2 x m).
Proof. exact Ledger.push_state_mode_independent. Qed.
Print Assumptions C09_push_state_mode_independent.

Theorem C09_push_slice_state_mode_independent :
  forall (md1 md2 : Seq.smode) (cl : bool) (vs : list BinNums.N) (m : Seq.mstate), fst (Seq.push_slice md1 cl vs m) = fst (Seq.push_slice md2 cl vs m).
Proof. exact Ledger.push_slice_state_mode_independent. Qed.
Print Assumptions C09_push_slice_state_mode_independent.

Theorem C09_pop_move_events :
  forall (m s : Seq.mstate) (x : BinNums.N) (e : list Types.lev), Seq.pop true m = (s, (Types.OVal x, e)) -> Seq.owned m = true -> e = (if Seq.isz x then (Types.LZeroRead :: nil)%list else (Types.LGive x :: nil)%list).
Proof. exact Ledger.pop_move_events. Qed.
Print Assumptions C09_pop_move_events.

Theorem C09_conservation :
  forall (m : Seq.mstate) (a : Pipe.pipe) (o : Types.op) (v : BinNums.N), Rel.Rel m a -> Pipe.ok_op a o = true -> Seq.owned m = true -> vals_ok o = true -> v <> BinNums.N0 -> conserves v m o (Seq.step m o).
Proof. exact Ledger.conservation. Qed.
Print Assumptions C09_conservation.

(** non-vacuity / illustration: a zeroed buffer filled through [*_init] pushes (with a pop_move in between, whose
    vacated cell is refilled) delivers the same values, with no zero event, as the same history on initialised data *)
Definition c09_hist : list op := [PushInit 5; PushInit 6; PushInit 7; PopMove; PushInit 8; PopMove; PopMove; PopMove]%N.
Example C09_same_as_init :
  match init (mkConfig [0;0;0;0]%N false true true), init (mkConfig [91;92;93;94]%N false true true) with
  | Some mz, Some md =>
      map fst (snd (run mz c09_hist)) = map fst (snd (run md c09_hist)) /\
      existsb zero_ev (flat_map snd (snd (run mz c09_hist))) = false /\
      existsb zero_ev (flat_map snd (snd (run md c09_hist))) = false
  | _, _ => False
  end.
Proof. vm_compute. repeat split. Qed.
