(** * C-tie: the functions of [src/ring_buffer/wrappers/unsafe_sync_cell.rs], translated on every run (gen/CellFns.v, vocabulary
      [Model/CellM.v]), are the slot primitives of the Model - for EVERY representation of items by bytes in which a live value is
      never all-zero bytes ([repr_ok]: the hypothesis C08 and C09 state).  Part of the obligations of C08 and C09: the D-tie
      (Props/DTie.v) proves the data-touching functions equal to the Model GIVEN these primitives; here the primitives themselves. *)
From Coq Require Import List NArith Bool.
Import ListNotations.
Require Import MRB.Model.Types MRB.Model.Seq MRB.Model.CellM MRB.gen.CellFns MRB.Proofs.CellTie.

Theorem CT_source_translated : cell_clean = true.
Proof. exact cell_closed. Qed.
Print Assumptions CT_source_translated.

(** the emptiness test looks at all [size_of::<T>()] bytes and answers "empty" exactly for the empty slot *)
Theorem CT_check_zeroed : forall R, repr_ok R -> forall v,
  crun R (g_check_zeroed R PSelf) v = Some (isz v, mkC (r_enc R v) []).
Proof. exact tie_check_zeroed. Qed.
Print Assumptions CT_check_zeroed.

(** [take_inner] hands the item out and leaves the EMPTY slot; [inner_duplicate] / [inner_ref] / [inner_ref_mut] / [as_mut_ptr] leave it as it is *)
Theorem CT_take_and_read : forall R, repr_ok R -> forall v,
  crun R (g_take_inner R) v = Some (v, mkC (r_enc R 0%N) []) /\
  crun R (g_inner_duplicate R) v = Some (v, mkC (r_enc R v) []) /\
  crun R (g_inner_ref R) v = Some (v, mkC (r_enc R v) []) /\
  crun R (g_inner_ref_mut R) v = Some (v, mkC (r_enc R v) []) /\
  crun R (g_as_mut_ptr R) v = Some (PSelf, mkC (r_enc R v) []).
Proof.
  intros R OK v. destruct (tie_inner_ref R OK v) as [A B].
  split; [exact (tie_take_inner R OK v)|]. split; [exact (tie_inner_duplicate R OK v)|]. split; [exact A|]. split; [exact B|].
  first [exact (tie_as_mut_ptr R OK v) | exact (tie_as_mut_ptr R v)].
Qed.
Print Assumptions CT_take_and_read.

(** dropping a cell runs the item's destructor exactly when the slot is occupied - once - and never on an empty slot
    (the rule [Seq.drop_slots] applies to every slot when the buffer is released) *)
Theorem CT_drop : forall R, repr_ok R -> forall v,
  crun R (g_drop R) v = Some (tt, mkC (r_enc R v) (if isz v then [] else [CDropped v])).
Proof. exact tie_drop. Qed.
Print Assumptions CT_drop.

(** cloning a cell clones the item exactly when the slot is occupied; an empty slot is never read as an item and clones to an empty cell *)
Theorem CT_clone : forall R, repr_ok R -> forall v,
  crun R (g_clone R) v = Some (if isz v then (r_enc R 0%N) else r_enc R (r_clone R v), mkC (r_enc R v) (if isz v then [] else [CCloned v])).
Proof. intros R OK v. rewrite (tie_clone R OK v). unfold a_clone. destruct (isz v); reflexivity. Qed.
Print Assumptions CT_clone.

(** the constructors build the cell holding that value / the empty cell *)
Theorem CT_ctors : forall R, repr_ok R -> forall x s,
  g_new R x s = Some (r_enc R x, s) /\ g_from R x s = Some (r_enc R x, s) /\ g_new_zeroed R s = Some (r_enc R 0%N, s) /\
  g_default R s = Some (r_enc R (r_default R), mkC (c_mem s) (c_evs s ++ [CDefault])).
Proof. exact tie_ctors. Qed.
Print Assumptions CT_ctors.

(** the hypothesis is satisfiable (two-byte little-endian items) *)
Example CT_repr_exists : repr_ok le2.
Proof. exact le2_ok. Qed.
