(** * C16: Only concurrent-buffer iterators over sendable items can cross threads
    Statements closed by [exact] / by computation on the clauses regenerated from the source (gen/SendClauses.v). *)
From Coq Require Import List Bool.
Import ListNotations.
Require Import MRB.Model.SendSync MRB.Proofs.SendSyncFacts MRB.gen.SendClauses.

(** for every set of impl headers: the decidable check is sound for all wrappers, buffer kinds and item types *)
Theorem C16_check_sound :
  forall cls : list clause, c16_ok cls = true ->
  forall (t : wty) (conc s y : bool),
    (is_send cls conc s y t = true -> conc = true /\ s = true) /\ is_sync cls conc s y t = false.
Proof. exact SendSyncFacts.c16_ok_sound. Qed.
Print Assumptions C16_check_sound.

(** for every set of impl headers: bounding iterators on (ConcurrentRB, T: Send) and wrappers on (I: Send) suffices *)
Theorem C16_bounds_suffice :
  forall cls : list clause, forallb well_bounded cls = true ->
  forall (t : wty) (conc s y : bool),
    (is_send cls conc s y t = true -> conc = true /\ s = true) /\ is_sync cls conc s y t = false.
Proof. exact SendSyncFacts.well_bounded_suffices. Qed.
Print Assumptions C16_bounds_suffice.

(** the impl headers of the current source (regenerated on every run) *)
Theorem C16_source_closed :
  forallb well_bounded SendClauses.clauses = true /\ c16_ok SendClauses.clauses = true /\
  SendClauses.structure_ok = true /\ SendClauses.extractor_clean = true.
Proof. vm_compute. repeat split. Qed.
Print Assumptions C16_source_closed.

Theorem C16_send :
  forall (t : wty) (conc s y : bool),
    (is_send SendClauses.clauses conc s y t = true -> conc = true /\ s = true) /\
    is_sync SendClauses.clauses conc s y t = false.
Proof. exact (SendSyncFacts.c16_ok_sound SendClauses.clauses (proj1 (proj2 C16_source_closed))). Qed.
Print Assumptions C16_send.

(** the futures returned by the async operations ([MRBFuture], which borrow their iterator mutably): Send at most when the iterator
    is, never Sync - whether derived field-wise (no explicit impl, as in the current source) or decided by an explicit impl header *)
Theorem C16_futures :
  c16_fut_ok SendClauses.clauses = true /\
  forall (t : wty) (conc s y : bool),
    (fut_send SendClauses.clauses conc s y t = true -> conc = true /\ s = true) /\
    fut_sync SendClauses.clauses conc s y t = false.
Proof. assert (H : c16_fut_ok SendClauses.clauses = true) by (vm_compute; reflexivity). split; [exact H | exact (SendSyncFacts.c16_fut_ok_sound SendClauses.clauses H)]. Qed.
Print Assumptions C16_futures.

(** non-vacuity: iterators of a concurrent buffer over Send items (Sync or not) are Send, in every wrapper *)
Example C16_not_vacuous : sendable_when_expected SendClauses.clauses = true.
Proof. vm_compute. reflexivity. Qed.
