(** * C06: Slices cover exactly the requested ring window
    Only statements closed by [exact]; proofs live in Proofs/. *)
From Coq Require Import List Arith NArith Bool Lia.
Import ListNotations.
Require Import MRB.Base.Ring MRB.Base.ListAux MRB.Model.Types MRB.Model.Seq MRB.Spec.Pipe.
Require Import MRB.Proofs.Rel MRB.Proofs.TapeFacts MRB.Proofs.Refine MRB.Proofs.SpecFacts MRB.Proofs.SliceItem MRB.Props.Examples.

Theorem C06_chunk :
  forall len ix n : nat, ix < len -> n <= len - 1 -> let '(h, t) := chunk len ix n in h + t = n /\ ix + h <= len /\ t <= ix /\ (t > 0 -> ix + h = len) /\ (forall k : nat, k < n -> wadd len ix k = (if PeanoNat.Nat.ltb k h then ix + k else k - h)).
Proof. exact SpecFacts.C06_chunk. Qed.
Print Assumptions C06_chunk.

Theorem C06_window :
  forall (m : Seq.mstate) (a : Pipe.pipe) (k : Types.stage) (n : nat), Rel.Rel m a -> Pipe.a_usable k a = true -> n <= Pipe.a_avail k a -> exists h t : list BinNums.N, fst (snd (Seq.step m (Types.GetExact k n))) = Types.OSlices (Seq.ix (Seq.it_of k m)) h t /\ (h ++ t)%list = ListAux.sub (Pipe.tape a) (Types.tget k (Pipe.lpos a)) n /\ length h = fst (chunk (Pipe.slen a) (Seq.ix (Seq.it_of k m)) n) /\ (forall j : nat, j < n -> List.nth j (h ++ t) BinNums.N0 = Seq.slot m (wadd (Pipe.slen a) (Seq.ix (Seq.it_of k m)) j)).
Proof. exact SpecFacts.C06_window. Qed.
Print Assumptions C06_window.

Theorem C06_two_slices :
  forall (m : Seq.mstate) (a : Pipe.pipe) (p n : nat), Rel.Rel m a -> Types.tC (Pipe.ppos a) <= p -> p + n <= Types.tC (Pipe.ppos a) + Pipe.slen a -> Seq.rd m (PeanoNat.Nat.modulo p (Pipe.slen a)) n = (List.firstn (fst (chunk (Pipe.slen a) (PeanoNat.Nat.modulo p (Pipe.slen a)) n)) (ListAux.sub (Pipe.tape a) p n), List.skipn (fst (chunk (Pipe.slen a) (PeanoNat.Nat.modulo p (Pipe.slen a)) n)) (ListAux.sub (Pipe.tape a) p n)).
Proof. exact Refine.rd_eq. Qed.
Print Assumptions C06_two_slices.

Theorem C06_slice_write :
  forall (m : Seq.mstate) (a : Pipe.pipe) (p : nat) (vs : list BinNums.N), Rel.Rel m a -> Types.tC (Pipe.ppos a) <= p -> p + length vs <= Types.tC (Pipe.ppos a) + Pipe.slen a -> forall q : nat, Types.tC (Pipe.ppos a) <= q < Types.tC (Pipe.ppos a) + Pipe.slen a -> List.nth (PeanoNat.Nat.modulo q (Pipe.slen a)) (Seq.slots (Seq.wr m (PeanoNat.Nat.modulo p (Pipe.slen a)) vs)) BinNums.N0 = List.nth q (ListAux.write (Pipe.tape a) p vs) BinNums.N0.
Proof. exact Refine.wr_cont. Qed.
Print Assumptions C06_slice_write.

(** slice-wise and item-wise operations are interchangeable: identical Spec states (tape, positions) and values *)
Theorem C06_push_slice_eq_items :
  forall (vs : list BinNums.N) (a : Pipe.pipe), Pipe.a_attached Types.P a = true -> Pipe.sowned a = false -> length vs <= Pipe.a_avail Types.P a -> Types.tP (Pipe.lpos a) = Types.tP (Pipe.ppos a) -> fst (Pipe.sstep a (Types.PushSlice vs)) = push_each a vs.
Proof. exact SliceItem.push_slice_eq_items. Qed.
Print Assumptions C06_push_slice_eq_items.

(** slice-wise and item-wise operations are interchangeable: identical Spec states (tape, positions) and values *)
Theorem C06_copy_slice_eq_items :
  forall (n : nat) (a : Pipe.pipe), Pipe.a_attached Types.C a = true -> Pipe.sowned a = false -> n <= Pipe.a_avail Types.C a -> length (Pipe.tape a) = Types.tC (Pipe.ppos a) + Pipe.slen a -> Types.tC (Pipe.lpos a) = Types.tC (Pipe.ppos a) -> Types.tC (Pipe.lpos a) + n <= length (Pipe.tape a) -> fst (Pipe.sstep a (Types.CopySlice n)) = fst (copy_each a n) /\ fst (snd (Pipe.sstep a (Types.CopySlice n))) = Types.ODst (snd (copy_each a n)).
Proof. exact SliceItem.copy_slice_eq_items. Qed.
Print Assumptions C06_copy_slice_eq_items.

