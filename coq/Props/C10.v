(** * C10: Operations are non-blocking and publications are never lost
    [trace] lists the atomic accesses of every operation in every state (compared with the hook log of the real crate on
    every run); the theorems bound it. The Model's [step] is a total function without any waiting construct, and the loop
    constructs of the source are regenerated into gen/Structure.v and checked against the allowed list.
    PARTIAL: real-time bounds and OS scheduling are outside the model. *)
From Coq Require Import List Arith NArith Bool Lia String.
Import ListNotations.
Require Import MRB.Model.Types MRB.Model.Seq MRB.Spec.Pipe MRB.Model.Trace MRB.Proofs.Rel MRB.Proofs.SpecFacts MRB.Proofs.ConcFacts MRB.gen.Structure.

Theorem C10_bounded : forall (pr : profile) (m : mstate) (o : op), List.length (trace pr m o) <= 6.
Proof. exact ConcFacts.C10_bounded. Qed.
Print Assumptions C10_bounded.

Theorem C10_one_load_one_store : forall (pr : profile) (m : mstate) (o : op),
  (forall w, o <> Resplit w) -> loads (trace pr m o) <= 1 /\ stores (trace pr m o) <= 1.
Proof. exact ConcFacts.C10_one_load_one_store. Qed.
Print Assumptions C10_one_load_one_store.

Theorem C10_fresh_look_sees_all : forall (m : mstate) (a : pipe) (k : stage),
  Rel.Rel m a -> a_usable k a = true -> fst (snd (step m (Avail k))) = ONum (a_avail k a).
Proof. exact ConcFacts.C10_fresh_look_sees_all. Qed.
Print Assumptions C10_fresh_look_sees_all.

Theorem C10_retry_succeeds : forall (m : mstate) (a : pipe),
  Rel.Rel m a -> a_attached C a = true -> 0 < a_avail C a -> exists v, fst (snd (step m Pop)) = OVal v.
Proof. exact ConcFacts.C10_retry_succeeds. Qed.
Print Assumptions C10_retry_succeeds.

Theorem C10_pop_decreases : forall (m : mstate) (a : pipe) (v : N) (e : list lev) (m' : mstate),
  Rel.Rel m a -> a_attached C a = true -> step m Pop = (m', (OVal v, e)) -> in_flight (fst (sstep a Pop)) + 1 = in_flight a.
Proof. exact ConcFacts.C10_pop_decreases. Qed.
Print Assumptions C10_pop_decreases.

(** the only loop constructs of the crate: the documented busy wait, the two-attempt poll loop (modelled in Async.v),
    the element loops of the *_init slice pushes, and the shared-memory set-up of the vmem feature *)
Open Scope string_scope.
Definition allowed_loops : list (string * string * string) :=
  [("iterators/async_iterators/mod.rs", "poll", "loop");
   ("iterators/iterator_trait.rs", "wait_for", "while");
   ("iterators/sync_iterators/prod_iter.rs", "f", "for");
   ("ring_buffer/storage/heap/vmem_helper.rs", "new", "for");
   ("ring_buffer/storage/heap/vmem_helper.rs", "shm_fd", "for");
   ("ring_buffer/storage/heap/vmem_helper.rs", "shm_fd", "loop")].
Definition t3_eqb (a b : string * string * string) : bool :=
  String.eqb (fst (fst a)) (fst (fst b)) && String.eqb (snd (fst a)) (snd (fst b)) && String.eqb (snd a) (snd b).
Theorem C10_no_other_loops : forallb (fun l => existsb (t3_eqb l) allowed_loops) Structure.loops = true.
Proof. vm_compute. reflexivity. Qed.
Print Assumptions C10_no_other_loops.
