(** * C10: Operations are non-blocking and publications are never lost
    [trace] lists the atomic accesses of every operation in every state (compared with the hook log of the real crate on
    every run); the theorems bound it. The Model's [step] is a total function without any waiting construct, and the loop
    constructs of the source are regenerated into gen/Structure.v and checked against the allowed list.
    PARTIAL: real-time bounds and OS scheduling are outside the model. *)
From Coq Require Import List Arith NArith Bool Lia String.
Import ListNotations.
Require Import MRB.Model.Types MRB.Model.Seq MRB.Spec.Pipe MRB.Model.Trace MRB.Proofs.Rel MRB.Proofs.SpecFacts MRB.Proofs.ConcFacts MRB.gen.Structure.

Theorem C10_bounded : forall (pr : profile) (m : mstate) (o : op), List.length (trace pr m o) <= 6.
Proof. exact ConcFacts.C10_bounded. Qed.
Print Assumptions C10_bounded.

Theorem C10_one_load_one_store : forall (pr : profile) (m : mstate) (o : op),
  (forall w, o <> Resplit w) -> loads (trace pr m o) <= 1 /\ stores (trace pr m o) <= 1.
Proof. exact ConcFacts.C10_one_load_one_store. Qed.
Print Assumptions C10_one_load_one_store.

Theorem C10_fresh_look_sees_all : forall (m : mstate) (a : pipe) (k : stage),
  Rel.Rel m a -> a_usable k a = true -> fst (snd (step m (Avail k))) = ONum (a_avail k a).
Proof. exact ConcFacts.C10_fresh_look_sees_all. Qed.
Print Assumptions C10_fresh_look_sees_all.

Theorem C10_retry_succeeds : forall (m : mstate) (a : pipe),
  Rel.Rel m a -> a_attached C a = true -> 0 < a_avail C a -> exists v, fst (snd (step m Pop)) = OVal v.
Proof. exact ConcFacts.C10_retry_succeeds. Qed.
Print Assumptions C10_retry_succeeds.

Theorem C10_pop_decreases : forall (m : mstate) (a : pipe) (v : N) (e : list lev) (m' : mstate),
  Rel.Rel m a -> a_attached C a = true -> step m Pop = (m', (OVal v, e)) -> in_flight (fst (sstep a Pop)) + 1 = in_flight a.
Proof. exact ConcFacts.C10_pop_decreases. Qed.
Print Assumptions C10_pop_decreases.

(** the only loop constructs of the crate: the documented busy wait, the two-attempt poll loop (modelled in Async.v),
    the element loops of the *_init slice pushes, and the shared-memory set-up of the vmem feature *)
Open Scope string_scope.
Definition allowed_loops : list (string * string * string) :=
  [("iterators/async_iterators/mod.rs", "poll", "loop");
   ("iterators/iterator_trait.rs", "wait_for", "while");
   ("iterators/sync_iterators/prod_iter.rs", "f", "for");
   ("ring_buffer/storage/heap/vmem_helper.rs", "new", "for");
   ("ring_buffer/storage/heap/vmem_helper.rs", "shm_fd", "for");
   ("ring_buffer/storage/heap/vmem_helper.rs", "shm_fd", "loop")].
Definition t3_eqb (a b : string * string * string) : bool :=
  String.eqb (fst (fst a)) (fst (fst b)) && String.eqb (snd (fst a)) (snd (fst b)) && String.eqb (snd a) (snd b).
Theorem C10_no_other_loops : forallb (fun l => existsb (t3_eqb l) allowed_loops) Structure.loops = true.
Proof. vm_compute. reflexivity. Qed.
Print Assumptions C10_no_other_loops.

(** ON THE RELEASE/ACQUIRE MACHINES (Conc/Progress.v): no operation waits for another thread - a step of another thread leaves a thread's whole record
    unchanged, and an operation returns after at most len+1 own steps whatever the others do (also if they never run again); a fresh look (the latest
    message, or a view that has reached it) gives exactly the true availability, a stale one never more; from every reachable state there is a
    continuation after which everything published has been consumed (the pipeline drains) *)
Require MRB.Conc.Progress.
Theorem C10_RAn_other_step :
  forall (len : nat) (c : RAn.cfg_n) (e : Progress.Two.entry) (b : bool), Progress.Two.who e <> b -> Progress.Two.thr b (RAn.step_n len c e) = Progress.Two.thr b c.
Proof. exact Progress.Two.RAn_other_step. Qed.
Print Assumptions C10_RAn_other_step.

Theorem C10_RAn_operation_bounded :
  forall len : nat, 0 < len -> forall (script : list (bool * nat * nat)) (s : list Progress.Two.entry) (b : bool), let c := RAn.exec_n len (RAn.init_n len) script in len + 1 <= Progress.Two.own_steps b s -> exists s1 s2 : list Progress.Two.entry, s = (s1 ++ s2)%list /\ 1 <= Progress.Two.own_steps b s1 /\ Progress.Two.own_steps b s1 <= len + 1 /\ RAn.pc (Progress.Two.thr b (RAn.exec_n len c s1)) = 0.
Proof. exact Progress.Two.RAn_operation_bounded. Qed.
Print Assumptions C10_RAn_operation_bounded.

Theorem C10_RAn_returns_alone :
  forall len : nat, 0 < len -> forall (script : list (bool * nat * nat)) (e : Progress.Two.entry), let c := RAn.exec_n len (RAn.init_n len) script in RAn.pc (Progress.Two.thr (Progress.Two.who e) (RAn.exec_n len c (List.repeat e (Progress.Two.remaining (Progress.Two.thr (Progress.Two.who e) c))))) = 0.
Proof. exact Progress.Two.RAn_returns_alone. Qed.
Print Assumptions C10_RAn_returns_alone.

Theorem C10_RAn_fresh_look_consumer :
  forall len : nat, 0 < len -> forall (script : list (bool * nat * nat)) (j n0 : nat), let c := RAn.exec_n len (RAn.init_n len) script in RAn.pc (RAn.C c) = 0 -> RAn.ca (RAn.C c) < PeanoNat.Nat.max 1 n0 -> List.length (RAn.Mpi c) - 1 <= PeanoNat.Nat.max j (RA.vpi (RAn.V (RAn.C c))) -> let c' := RAn.stepC_n len j n0 c in RAn.ca (RAn.C c') = RAproof.lastabs (RAn.Mpi c) - RAn.pos (RAn.C c) /\ RAproof.lastabs (RAn.Mpi c) = RAn.pos (RAn.P c) /\ (RAn.pc (RAn.C c') = 2 /\ RAn.cnt (RAn.C c') = PeanoNat.Nat.max 1 n0 /\ PeanoNat.Nat.max 1 n0 <= RAn.pos (RAn.P c) - RAn.pos (RAn.C c) \/ RAn.pc (RAn.C c') = 0 /\ RAn.pos (RAn.P c) - RAn.pos (RAn.C c) < PeanoNat.Nat.max 1 n0).
Proof. exact Progress.Two.RAn_fresh_look_consumer. Qed.
Print Assumptions C10_RAn_fresh_look_consumer.

Theorem C10_RAn_fresh_look_producer :
  forall len : nat, 0 < len -> forall (script : list (bool * nat * nat)) (j n0 : nat), let c := RAn.exec_n len (RAn.init_n len) script in RAn.pc (RAn.P c) = 0 -> RAn.ca (RAn.P c) < PeanoNat.Nat.max 1 n0 -> List.length (RAn.Mci c) - 1 <= PeanoNat.Nat.max j (RA.vci (RAn.V (RAn.P c))) -> let c' := RAn.stepP_n len j n0 c in RAn.ca (RAn.P c') = RAproof.lastabs (RAn.Mci c) + len - 1 - RAn.pos (RAn.P c) /\ RAproof.lastabs (RAn.Mci c) = RAn.pos (RAn.C c) /\ (RAn.pc (RAn.P c') = 2 /\ RAn.cnt (RAn.P c') = PeanoNat.Nat.max 1 n0 /\ PeanoNat.Nat.max 1 n0 <= RAn.pos (RAn.C c) + len - 1 - RAn.pos (RAn.P c) \/ RAn.pc (RAn.P c') = 0 /\ RAn.pos (RAn.C c) + len - 1 - RAn.pos (RAn.P c) < PeanoNat.Nat.max 1 n0).
Proof. exact Progress.Two.RAn_fresh_look_producer. Qed.
Print Assumptions C10_RAn_fresh_look_producer.

Theorem C10_RAn_load_sound :
  forall len : nat, 0 < len -> forall (script : list (bool * nat * nat)) (j n0 : nat), let c := RAn.exec_n len (RAn.init_n len) script in (RAn.pc (RAn.C c) = 0 -> RAn.ca (RAn.C c) < PeanoNat.Nat.max 1 n0 -> RAn.ca (RAn.C (RAn.stepC_n len j n0 c)) <= RAn.pos (RAn.P c) - RAn.pos (RAn.C c)) /\ (RAn.pc (RAn.P c) = 0 -> RAn.ca (RAn.P c) < PeanoNat.Nat.max 1 n0 -> RAn.ca (RAn.P (RAn.stepP_n len j n0 c)) <= RAn.pos (RAn.C c) + len - 1 - RAn.pos (RAn.P c)).
Proof. exact Progress.Two.RAn_load_sound. Qed.
Print Assumptions C10_RAn_load_sound.

Theorem C10_RAn_drains :
  forall len : nat, 0 < len -> forall script : list (bool * nat * nat), exists s' : list (bool * nat * nat), let c' := RAn.exec_n len (RAn.init_n len) (script ++ s') in RAn.pc (RAn.P c') = 0 /\ RAn.pc (RAn.C c') = 0 /\ RAn.pos (RAn.C c') = RAn.pos (RAn.P c').
Proof. exact Progress.Two.RAn_drains. Qed.
Print Assumptions C10_RAn_drains.

Theorem C10_RA3n_other_step :
  forall (len : nat) (c : RA3n.cfg3n) (e : Progress.Three.entry) (t : RA3.tid), Progress.Three.who e <> t -> Progress.Three.thr t (RA3n.step3_n len c e) = Progress.Three.thr t c.
Proof. exact Progress.Three.RA3n_other_step. Qed.
Print Assumptions C10_RA3n_other_step.

Theorem C10_RA3n_operation_bounded :
  forall len : nat, 0 < len -> forall (script : list (RA3.tid * nat * nat)) (s : list Progress.Three.entry) (t : RA3.tid), let c := RA3n.exec3_n len (RA3n.init3_n len) script in len + 1 <= Progress.Three.own_steps t s -> exists s1 s2 : list Progress.Three.entry, s = (s1 ++ s2)%list /\ 1 <= Progress.Three.own_steps t s1 /\ Progress.Three.own_steps t s1 <= len + 1 /\ RA3n.pc3 (Progress.Three.thr t (RA3n.exec3_n len c s1)) = 0.
Proof. exact Progress.Three.RA3n_operation_bounded. Qed.
Print Assumptions C10_RA3n_operation_bounded.

Theorem C10_RA3n_fresh_look_worker :
  forall len : nat, 0 < len -> forall (script : list (RA3.tid * nat * nat)) (j n0 : nat), let c := RA3n.exec3_n len (RA3n.init3_n len) script in RA3n.pc3 (RA3n.W3 c) = 0 -> RA3n.ca3 (RA3n.W3 c) < PeanoNat.Nat.max 1 n0 -> List.length (RA3n.Mpi3 c) - 1 <= PeanoNat.Nat.max j (RA3.vpi3 (RA3n.V3 (RA3n.W3 c))) -> let c' := RA3n.stepW3_n len j n0 c in RA3n.ca3 (RA3n.W3 c') = RA3proof.lastabs3 (RA3n.Mpi3 c) - RA3n.pos3 (RA3n.W3 c) /\ RA3proof.lastabs3 (RA3n.Mpi3 c) = RA3n.pos3 (RA3n.P3 c) /\ (RA3n.pc3 (RA3n.W3 c') = 2 /\ RA3n.cnt3 (RA3n.W3 c') = PeanoNat.Nat.max 1 n0 /\ PeanoNat.Nat.max 1 n0 <= RA3n.pos3 (RA3n.P3 c) - RA3n.pos3 (RA3n.W3 c) \/ RA3n.pc3 (RA3n.W3 c') = 0 /\ RA3n.pos3 (RA3n.P3 c) - RA3n.pos3 (RA3n.W3 c) < PeanoNat.Nat.max 1 n0).
Proof. exact Progress.Three.RA3n_fresh_look_worker. Qed.
Print Assumptions C10_RA3n_fresh_look_worker.

Theorem C10_RA3n_fresh_look_consumer :
  forall len : nat, 0 < len -> forall (script : list (RA3.tid * nat * nat)) (j n0 : nat), let c := RA3n.exec3_n len (RA3n.init3_n len) script in RA3n.pc3 (RA3n.C3 c) = 0 -> RA3n.ca3 (RA3n.C3 c) < PeanoNat.Nat.max 1 n0 -> List.length (RA3n.Mwi3 c) - 1 <= PeanoNat.Nat.max j (RA3.vwi3 (RA3n.V3 (RA3n.C3 c))) -> let c' := RA3n.stepC3_n len j n0 c in RA3n.ca3 (RA3n.C3 c') = RA3proof.lastabs3 (RA3n.Mwi3 c) - RA3n.pos3 (RA3n.C3 c) /\ RA3proof.lastabs3 (RA3n.Mwi3 c) = RA3n.pos3 (RA3n.W3 c) /\ (RA3n.pc3 (RA3n.C3 c') = 2 /\ RA3n.cnt3 (RA3n.C3 c') = PeanoNat.Nat.max 1 n0 /\ PeanoNat.Nat.max 1 n0 <= RA3n.pos3 (RA3n.W3 c) - RA3n.pos3 (RA3n.C3 c) \/ RA3n.pc3 (RA3n.C3 c') = 0 /\ RA3n.pos3 (RA3n.W3 c) - RA3n.pos3 (RA3n.C3 c) < PeanoNat.Nat.max 1 n0).
Proof. exact Progress.Three.RA3n_fresh_look_consumer. Qed.
Print Assumptions C10_RA3n_fresh_look_consumer.

Theorem C10_RA3n_drains :
  forall len : nat, 0 < len -> forall script : list (RA3.tid * nat * nat), exists s' : list (RA3.tid * nat * nat), let c' := RA3n.exec3_n len (RA3n.init3_n len) (script ++ s') in RA3n.pc3 (RA3n.P3 c') = 0 /\ RA3n.pc3 (RA3n.W3 c') = 0 /\ RA3n.pc3 (RA3n.C3 c') = 0 /\ RA3n.pos3 (RA3n.W3 c') = RA3n.pos3 (RA3n.P3 c') /\ RA3n.pos3 (RA3n.C3 c') = RA3n.pos3 (RA3n.W3 c').
Proof. exact Progress.Three.RA3n_drains. Qed.
Print Assumptions C10_RA3n_drains.

