(** * C04: Stage order and capacity
    Only statements closed by [exact]; proofs live in Proofs/. *)
From Coq Require Import List Arith NArith Bool Lia.
Import ListNotations.
Require Import MRB.Base.Ring MRB.Base.ListAux MRB.Model.Types MRB.Model.Seq MRB.Spec.Pipe.
Require Import MRB.Proofs.Rel MRB.Proofs.TapeFacts MRB.Proofs.Refine MRB.Proofs.SpecFacts MRB.Props.Examples.

Theorem C04_order :
  forall (m : Seq.mstate) (a : Pipe.pipe), Rel.Rel m a -> Types.tC (Pipe.ppos a) <= Types.tC (Pipe.lpos a) /\ Types.tC (Pipe.lpos a) <= Pipe.a_succ Types.C a /\ Pipe.a_succ Types.C a <= Types.tP (Pipe.ppos a) /\ (Pipe.shasW a = true -> Types.tC (Pipe.lpos a) <= Types.tW (Pipe.ppos a) /\ Types.tW (Pipe.ppos a) <= Types.tW (Pipe.lpos a) <= Types.tP (Pipe.ppos a)) /\ Types.tP (Pipe.ppos a) <= Types.tP (Pipe.lpos a) /\ Types.tP (Pipe.lpos a) < Types.tC (Pipe.ppos a) + Pipe.slen a /\ in_flight a <= Pipe.slen a - 1 /\ (forall k : Types.stage, Types.tget k (Seq.pub m) = PeanoNat.Nat.modulo (Types.tget k (Pipe.ppos a)) (Pipe.slen a)) /\ (forall k : Types.stage, Types.tget k (Pipe.shere a) = true -> Seq.ix (Seq.it_of k m) = PeanoNat.Nat.modulo (Types.tget k (Pipe.lpos a)) (Pipe.slen a)).
Proof. exact SpecFacts.C04_order. Qed.
Print Assumptions C04_order.

Theorem C04_capacity :
  forall (m : Seq.mstate) (a : Pipe.pipe) (v : BinNums.N), Rel.Rel m a -> Pipe.a_attached Types.P a = true -> (fst (snd (Seq.step m (Types.Push v))) = Types.OOk <-> in_flight a < Pipe.slen a - 1) /\ (fst (snd (Seq.step m (Types.Push v))) = Types.OErr v <-> in_flight a = Pipe.slen a - 1).
Proof. exact SpecFacts.C04_capacity. Qed.
Print Assumptions C04_capacity.

Theorem C04_sum :
  forall (m : Seq.mstate) (a : Pipe.pipe), Rel.Rel m a -> Types.tP (Pipe.sdet a) = false -> Types.tW (Pipe.sdet a) = false -> Types.tC (Pipe.sdet a) = false -> Pipe.a_avail Types.P a + (if Pipe.shasW a then Pipe.a_avail Types.W a else 0) + Pipe.a_avail Types.C a = Pipe.slen a - 1.
Proof. exact SpecFacts.C04_sum. Qed.
Print Assumptions C04_sum.

Theorem C04_safe_ops :
  forall (m : Seq.mstate) (a : Pipe.pipe) (o : Types.op), Rel.Rel m a -> safe_op o = true -> refines (Seq.step m o) (Pipe.sstep a o).
Proof. exact SpecFacts.C04_safe_ops. Qed.
Print Assumptions C04_safe_ops.

Theorem C04_preserved :
  forall (m : Seq.mstate) (a : Pipe.pipe) (o : Types.op), Rel.Rel m a -> Pipe.ok_op a o = true -> Rel.Rel (fst (Seq.step m o)) (fst (Pipe.sstep a o)).
Proof. exact SpecFacts.reach_step. Qed.
Print Assumptions C04_preserved.

Theorem C04_initial :
  forall (c : Types.config) (m : Seq.mstate), Seq.init c = Some m -> Reach m.
Proof. exact SpecFacts.reach_init. Qed.
Print Assumptions C04_initial.

(** UNDER CONCURRENCY (release/acquire machines, any interleaving / stale read / window sizes; Conc/OrderFacts.v): at every moment -
    also in mid-operation - consumer <= worker <= producer and the producer is fewer than len slots ahead of the consumer *)
Require MRB.Conc.OrderFacts.
Theorem C04_order_concurrent :
  forall len script, 0 < len ->
  let c := RA3n.exec3_n len (RA3n.init3_n len) script in
  RA3n.pos3 (RA3n.C3 c) <= RA3n.pos3 (RA3n.W3 c) /\ RA3n.pos3 (RA3n.W3 c) <= RA3n.pos3 (RA3n.P3 c) /\
  RA3n.pos3 (RA3n.P3 c) + 1 <= RA3n.pos3 (RA3n.C3 c) + len /\
  RA3n.pos3 (RA3n.C3 c) + RA3n.off3 (RA3n.C3 c) <= RA3n.pos3 (RA3n.W3 c) /\
  RA3n.pos3 (RA3n.W3 c) + RA3n.off3 (RA3n.W3 c) <= RA3n.pos3 (RA3n.P3 c) /\
  RA3n.pos3 (RA3n.P3 c) + RA3n.off3 (RA3n.P3 c) + 1 <= RA3n.pos3 (RA3n.C3 c) + len.
Proof. exact OrderFacts.order_always_3n. Qed.
Print Assumptions C04_order_concurrent.

Theorem C04_order_concurrent_reset_detached :
  forall len script, 0 < len ->
  let c := RAx.exec_x len (RAx.init_x len) script in
  RAx.pos (RAx.C c) + RAx.off (RAx.C c) <= RAx.pos (RAx.P c) /\
  RAx.pos (RAx.P c) + RAx.off (RAx.P c) + 1 <= RAx.pos (RAx.C c) + len.
Proof. exact OrderFacts.order_always_x. Qed.
Print Assumptions C04_order_concurrent_reset_detached.

(** THREE stages with reset_index / detach / sync_index / attach on the WORKER and the consumer, under concurrency (Conc/RA3x.v) *)
Require MRB.Conc.RA3xproof.
Theorem C04_order_concurrent_three_stages_reset_detached :
  forall (len : nat) (script : list (RA3.tid * RA3x.cmd)), 0 < len -> let c := RA3x.exec3_x len (RA3x.init3_x len) script in RA3x.pos3 (RA3x.C3 c) + RA3x.off3 (RA3x.C3 c) <= RA3x.publishedW3 c /\ RA3x.publishedW3 c <= RA3x.pos3 (RA3x.W3 c) /\ RA3x.pos3 (RA3x.W3 c) + RA3x.off3 (RA3x.W3 c) <= RA3x.pos3 (RA3x.P3 c) /\ RA3x.publishedP3 c = RA3x.pos3 (RA3x.P3 c) /\ RA3x.pos3 (RA3x.P3 c) + RA3x.off3 (RA3x.P3 c) + 1 <= RA3x.publishedC3 c + len /\ RA3x.publishedC3 c <= RA3x.pos3 (RA3x.C3 c).
Proof. exact RA3xproof.order_always_3x. Qed.
Print Assumptions C04_order_concurrent_three_stages_reset_detached.

