(** * C11: reset_index leaves nothing available and releases what was skipped
    Only statements closed by [exact]; proofs live in Proofs/. *)
From Coq Require Import List Arith NArith Bool Lia.
Import ListNotations.
Require Import MRB.Base.Ring MRB.Base.ListAux MRB.Model.Types MRB.Model.Seq MRB.Spec.Pipe.
Require Import MRB.Proofs.Rel MRB.Proofs.TapeFacts MRB.Proofs.Refine MRB.Proofs.SpecFacts MRB.Props.Examples.
Require MRB.Conc.RAx MRB.Conc.RAxproof.

Theorem C11_reset :
  forall (m : Seq.mstate) (a : Pipe.pipe) (k : Types.stage), Rel.Rel m a -> Pipe.a_attached k a = true -> k <> Types.P -> let a' := fst (Pipe.sstep a (Types.Reset k)) in let m' := fst (Seq.step m (Types.Reset k)) in Rel.Rel m' a' /\ Pipe.a_avail k a' = 0 /\ Seq.ca (Seq.it_of k m') = 0 /\ (forall n : nat, 0 < n -> fst (snd (Seq.step m' (Types.GetExact k n))) = Types.ONone) /\ Types.tget k (Pipe.lpos a') = Pipe.a_succ k a /\ Types.tget k (Pipe.ppos a') = Pipe.a_succ k a /\ (forall j : Types.stage, j <> k -> Types.tget j (Pipe.lpos a') = Types.tget j (Pipe.lpos a) /\ Pipe.a_succ j a' >= Pipe.a_succ j a).
Proof. exact SpecFacts.C11_reset. Qed.
Print Assumptions C11_reset.


(** under concurrency (release/acquire machine with resets, Conc/RAx.v): a reset while the producer keeps writing
    is race free, and never moves the consumer backwards *)
Theorem C11_reset_concurrent_race_free :
  forall len script, 0 < len -> MRB.Conc.RAx.race (MRB.Conc.RAx.exec_x len (MRB.Conc.RAx.init_x len) script) = false.
Proof. exact MRB.Conc.RAxproof.spsc_x_race_free. Qed.
Print Assumptions C11_reset_concurrent_race_free.

Theorem C11_reset_never_backwards :
  forall len s1 s2, 0 < len ->
  MRB.Conc.RAx.pos (MRB.Conc.RAx.C (MRB.Conc.RAx.exec_x len (MRB.Conc.RAx.init_x len) s1)) <=
  MRB.Conc.RAx.pos (MRB.Conc.RAx.C (MRB.Conc.RAx.exec_x len (MRB.Conc.RAx.init_x len) (s1 ++ s2))).
Proof. exact MRB.Conc.RAxproof.consumer_never_goes_back. Qed.
Print Assumptions C11_reset_never_backwards.

(** THREE stages with reset_index / detach / sync_index / attach on the WORKER and the consumer, under concurrency (Conc/RA3x.v) *)
Require MRB.Conc.RA3xproof.
Theorem C11_reset_three_stages_never_backwards :
  forall (len : nat) (s1 s2 : list (RA3.tid * RA3x.cmd)), 0 < len -> let c1 := RA3x.exec3_x len (RA3x.init3_x len) s1 in let c2 := RA3x.exec3_x len (RA3x.init3_x len) (s1 ++ s2) in RA3x.pos3 (RA3x.P3 c1) <= RA3x.pos3 (RA3x.P3 c2) /\ RA3x.pos3 (RA3x.W3 c1) <= RA3x.pos3 (RA3x.W3 c2) /\ RA3x.pos3 (RA3x.C3 c1) <= RA3x.pos3 (RA3x.C3 c2).
Proof. exact RA3xproof.never_goes_back_3x. Qed.
Print Assumptions C11_reset_three_stages_never_backwards.

