(** * C11: reset_index leaves nothing available and releases what was skipped
    Only statements closed by [exact]; proofs live in Proofs/. *)
From Coq Require Import List Arith NArith Bool Lia.
Import ListNotations.
Require Import MRB.Base.Ring MRB.Base.ListAux MRB.Model.Types MRB.Model.Seq MRB.Spec.Pipe.
Require Import MRB.Proofs.Rel MRB.Proofs.TapeFacts MRB.Proofs.Refine MRB.Proofs.SpecFacts MRB.Props.Examples.

Theorem C11_reset :
  forall (m : Seq.mstate) (a : Pipe.pipe) (k : Types.stage), Rel.Rel m a -> Pipe.a_attached k a = true -> k <> Types.P -> let a' := fst (Pipe.sstep a (Types.Reset k)) in let m' := fst (Seq.step m (Types.Reset k)) in Rel.Rel m' a' /\ Pipe.a_avail k a' = 0 /\ Seq.ca (Seq.it_of k m') = 0 /\ (forall n : nat, 0 < n -> fst (snd (Seq.step m' (Types.GetExact k n))) = Types.ONone) /\ Types.tget k (Pipe.lpos a') = Pipe.a_succ k a /\ Types.tget k (Pipe.ppos a') = Pipe.a_succ k a /\ (forall j : Types.stage, j <> k -> Types.tget j (Pipe.lpos a') = Types.tget j (Pipe.lpos a) /\ Pipe.a_succ j a' >= Pipe.a_succ j a).
Proof. exact SpecFacts.C11_reset. Qed.
Print Assumptions C11_reset.

