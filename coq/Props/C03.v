(** * C03: A slot is accessible to one iterator at a time; slot accesses never race
    Statements closed by [exact] / by computation on the orderings regenerated from the source (gen/Profile.v).
    Proved for the release/acquire view machine of Conc/RA3.v (producer -> worker -> consumer) and Conc/RA.v
    (producer -> consumer) with single-slot operations and remembered availability: every length, every
    interleaving at the granularity of individual atomic accesses, every admissible stale index read.
    PARTIAL with respect to the full API: multi-slot grants, detached moves and reset_index are covered by the
    sequential window-disjointness theorem and by the event-trace / scripted correspondence, not by the view-machine proof;
    conformance of compiler and CPU to C11 release/acquire is assumed; scope (K4): accesses through a granted
    reference happen before the iterator's next advance (observation O1 in DESIGN.md). *)
From Coq Require Import List Arith Bool Lia.
Import ListNotations.
Require Import MRB.Model.Types MRB.Model.Seq MRB.Spec.Pipe MRB.Model.Trace.
Require Import MRB.Conc.RA MRB.Conc.RAg MRB.Conc.RAn MRB.Conc.RAnproof MRB.Conc.RA3 MRB.Conc.RA3g MRB.Conc.RA3n MRB.Conc.RA3nproof MRB.Proofs.ConcClosing MRB.Proofs.Rel MRB.Proofs.SpecFacts MRB.gen.Profile.

Theorem C03_race_free_three_stages :
  forall p : profile, profile_ok p = true -> forall (len : nat) (script : list (tid * nat)), 0 < len ->
  RA3.race3 (gexec3 (ge_acq (p_idx_load p)) (ge_rel (p_idx_store p)) len (ginit3 len) script) = false.
Proof. exact ConcClosing.race_free_3stage. Qed.
Print Assumptions C03_race_free_three_stages.

Theorem C03_race_free_two_stages :
  forall p : profile, profile_ok p = true -> forall (len : nat) (script : list (bool * nat)), 0 < len ->
  RA.race (gexec (ge_acq (p_idx_load p)) (ge_rel (p_idx_store p)) len (ginit len) script) = false.
Proof. exact ConcClosing.race_free_2stage. Qed.
Print Assumptions C03_race_free_two_stages.

(** multi-slot operations (push_slice / copy_slice style windows of any size, one slot access per step, remembered
    availability), two stages: every length, every interleaving, every admissible stale read *)
Theorem C03_race_free_slices :
  forall (len : nat) (script : list (bool * nat * nat)), 0 < len -> RAn.race (exec_n len (init_n len) script) = false.
Proof. exact RAnproof.spsc_n_race_free. Qed.
Print Assumptions C03_race_free_slices.

Theorem C03_race_free_slices_three_stages :
  forall (len : nat) (script : list (RA3.tid * nat * nat)), 0 < len ->
  RA3n.race3 (RA3n.exec3_n len (RA3n.init3_n len) script) = false.
Proof. exact RA3nproof.pipeline3_n_race_free. Qed.
Print Assumptions C03_race_free_slices_three_stages.

(** the orderings the source really passes (regenerated on every run) satisfy the hypothesis *)
Theorem C03_observed_ok : profile_ok Profile.observed = true /\ Profile.extractor_clean = true.
Proof. vm_compute. split; reflexivity. Qed.
Print Assumptions C03_observed_ok.

Theorem C03_source : forall (len : nat) (script : list (tid * nat)), 0 < len ->
  RA3.race3 (gexec3 (ge_acq (p_idx_load Profile.observed)) (ge_rel (p_idx_store Profile.observed)) len (ginit3 len) script) = false.
Proof. exact (ConcClosing.race_free_3stage Profile.observed (proj1 C03_observed_ok)). Qed.
Print Assumptions C03_source.

(** exclusivity of grants (all operation forms, sequential states): the windows of the three iterators are disjoint *)
Theorem C03_windows_disjoint :
  forall (m : mstate) (a : pipe), Rel.Rel m a ->
  tC (lpos a) + a_avail Types.C a <= (if shasW a then tW (lpos a) else tP (lpos a)) /\
  (shasW a = true -> tW (lpos a) + a_avail Types.W a <= tP (lpos a)) /\
  tP (lpos a) + a_avail Types.P a < tC (ppos a) + slen a /\ tC (ppos a) <= tC (lpos a).
Proof. exact SpecFacts.C01_windows_disjoint. Qed.
Print Assumptions C03_windows_disjoint.

(** non-vacuity: the detector finds the race when an ordering is weakened *)
Example C03_relaxed_load_races : RA.race (gexec false true 2 (ginit 2) [(true, 0); (true, 0); (true, 0); (false, 1); (false, 0)]) = true.
Proof. exact RAg.relaxed_load_races. Qed.
Example C03_relaxed_worker_load_races : RA3.race3 (gexec3 false true 2 (ginit3 2) [(TP, 0); (TP, 0); (TP, 0); (TW, 1); (TW, 0)]) = true.
Proof. exact RA3g.relaxed_worker_load_races. Qed.

(** THREE stages with reset_index / detach / sync_index / attach on the WORKER and the consumer, under concurrency (Conc/RA3x.v) *)
Require MRB.Conc.RA3xproof.
Theorem C03_race_free_three_stages_reset_detached :
  forall (len : nat) (script : list (RA3.tid * RA3x.cmd)), 0 < len -> RA3x.race3 (RA3x.exec3_x len (RA3x.init3_x len) script) = false.
Proof. exact RA3xproof.pipeline3_x_race_free. Qed.
Print Assumptions C03_race_free_three_stages_reset_detached.

