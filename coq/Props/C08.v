(** * C08: Every stored value is destroyed exactly once (no leak, no double drop)
    Only statements closed by [exact]; proofs live in Proofs/Ledger.v. *)
From Coq Require Import List Arith NArith Bool Lia.
Import ListNotations.
Require Import MRB.Base.Ring MRB.Base.ListAux MRB.Model.Types MRB.Model.Seq MRB.Spec.Pipe.
Require Import MRB.Proofs.Rel MRB.Proofs.Refine MRB.Proofs.Ledger.

Theorem C08_conservation :
  forall (m : Seq.mstate) (a : Pipe.pipe) (o : Types.op) (v : BinNums.N), Rel.Rel m a -> Pipe.ok_op a o = true -> Seq.owned m = true -> vals_ok o = true -> v <> BinNums.N0 -> conserves v m o (Seq.step m o).
Proof. exact Ledger.conservation. Qed.
Print Assumptions C08_conservation.

Theorem C08_history :
  forall (v : BinNums.N) (h : list Types.op), v <> BinNums.N0 -> forall (m : Seq.mstate) (a : Pipe.pipe), Rel.Rel m a -> Seq.owned m = true -> List.forallb vals_ok h = true -> snd (Pipe.srun a h) = true -> cnt v (live (fst (Seq.run m h))) + tot_out v h (snd (Seq.run m h)) = cnt v (live m) + tot_in v (snd (Seq.run m h)).
Proof. exact Ledger.history_conservation. Qed.
Print Assumptions C08_history.

Theorem C08_released_balance :
  forall (v : BinNums.N) (h : list Types.op) (m : Seq.mstate) (a : Pipe.pipe), v <> BinNums.N0 -> Rel.Rel m a -> Seq.owned m = true -> List.forallb vals_ok h = true -> snd (Pipe.srun a h) = true -> Seq.freed (fst (Seq.run m h)) = true -> tot_out v h (snd (Seq.run m h)) = cnt v (live m) + tot_in v (snd (Seq.run m h)).
Proof. exact Ledger.released_balance. Qed.
Print Assumptions C08_released_balance.

Theorem C08_release_drops_all :
  forall l : list BinNums.N, List.existsb zero_ev (Seq.release_evs l) = false /\ (forall v : BinNums.N, v <> BinNums.N0 -> outs v (Seq.release_evs l) = cnt v l).
Proof. exact Ledger.release_skips_empty. Qed.
Print Assumptions C08_release_drops_all.

Theorem C08_overwrite_drops_once :
  forall old : BinNums.N, Seq.isz old = false -> Seq.store_ev Seq.SAssign old = (Types.LDrop old :: nil)%list.
Proof. exact Ledger.assign_occupied. Qed.
Print Assumptions C08_overwrite_drops_once.

Theorem C08_pop_move_hands_out :
  forall (m s : Seq.mstate) (x : BinNums.N) (e : list Types.lev), Seq.pop true m = (s, (Types.OVal x, e)) -> Seq.owned m = true -> e = (if Seq.isz x then (Types.LZeroRead :: nil)%list else (Types.LGive x :: nil)%list).
Proof. exact Ledger.pop_move_events. Qed.
Print Assumptions C08_pop_move_hands_out.

(** non-vacuity: an owned history that respects the contract and the value rule, released at the end *)
Definition c08_cfg := mkConfig [1;2;3;4]%N true true true.
Definition c08_hist : list op := [Push 5; PushSliceClone [6;7]%N; Advance W 2; PopMove; CloneItem; PushInit 8; DropIter P; DropIter C; DropIter W]%N.
Example C08_example :
  match init c08_cfg, a_init c08_cfg with
  | Some m, Some a => snd (srun a c08_hist) = true /\ forallb vals_ok c08_hist = true /\ owned m = true /\
                      freed (fst (run m c08_hist)) = true
  | _, _ => False
  end.
Proof. vm_compute. repeat split. Qed.
