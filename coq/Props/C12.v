(** * C12: Detached iterators move only locally, to the exact position, until synced
    Only statements closed by [exact]; proofs live in Proofs/. *)
From Coq Require Import List Arith NArith Bool Lia.
Import ListNotations.
Require Import MRB.Base.Ring MRB.Base.ListAux MRB.Model.Types MRB.Model.Seq MRB.Spec.Pipe.
Require Import MRB.Proofs.Rel MRB.Proofs.TapeFacts MRB.Proofs.Refine MRB.Proofs.SpecFacts MRB.Props.Examples.
Require MRB.Conc.RAx MRB.Conc.RAxproof.

Theorem C12_local :
  forall (a : Pipe.pipe) (k : Types.stage) (o : Types.op), Pipe.a_detached k a = true -> detached_op k o = true -> let a' := fst (Pipe.sstep a o) in observed a' = observed a /\ Pipe.tape a' = Pipe.tape a /\ (forall j : Types.stage, j <> k -> Types.tget j (Pipe.lpos a') = Types.tget j (Pipe.lpos a) /\ Pipe.a_avail j a' = Pipe.a_avail j a).
Proof. exact SpecFacts.C12_local. Qed.
Print Assumptions C12_local.

Theorem C12_position :
  forall (m : Seq.mstate) (a : Pipe.pipe) (k : Types.stage), Rel.Rel m a -> Pipe.a_detached k a = true -> (forall i : nat, Pipe.ok_op a (Types.SetIndex k i) = true -> Seq.ix (Seq.it_of k (fst (Seq.step m (Types.SetIndex k i)))) = i) /\ (forall n : nat, Pipe.ok_op a (Types.GoBack k n) = true -> Seq.ix (Seq.it_of k (fst (Seq.step m (Types.GoBack k n)))) = PeanoNat.Nat.modulo (Types.tget k (Pipe.lpos a) - n) (Pipe.slen a) /\ Seq.ix (Seq.it_of k (fst (Seq.step m (Types.GoBack k n)))) = wsub (Pipe.slen a) (Seq.ix (Seq.it_of k m)) n) /\ (forall n : nat, Pipe.ok_op a (Types.Advance k n) = true -> Seq.ix (Seq.it_of k (fst (Seq.step m (Types.Advance k n)))) = PeanoNat.Nat.modulo (Types.tget k (Pipe.lpos a) + n) (Pipe.slen a)) /\ Seq.ix (Seq.it_of k (fst (Seq.step m (Types.DReset k)))) = Seq.succ_idx k m.
Proof. exact SpecFacts.C12_position. Qed.
Print Assumptions C12_position.

Theorem C12_bounded_after_jump :
  forall (m : Seq.mstate) (a : Pipe.pipe) (o : Types.op) (n : nat) (k : Types.stage), Rel.Rel m a -> Pipe.ok_op a o = true -> let m' := fst (Seq.step m o) in let a' := fst (Pipe.sstep a o) in Pipe.a_usable k a' = true -> (fst (snd (Seq.step m' (Types.GetExact k n))) = Types.ONone <-> Pipe.a_avail k a' < n) /\ fst (snd (Seq.step m' (Types.Avail k))) = Types.ONum (Pipe.a_avail k a').
Proof. exact SpecFacts.C12_bounded_after_jump. Qed.
Print Assumptions C12_bounded_after_jump.

Theorem C12_sync :
  forall (m : Seq.mstate) (a : Pipe.pipe) (k : Types.stage), Rel.Rel m a -> Pipe.a_detached k a = true -> Types.tget k (Seq.pub (fst (Seq.step m (Types.Sync k)))) = Seq.ix (Seq.it_of k m) /\ Types.tget k (Seq.pub (fst (Seq.step m (Types.Attach k)))) = Seq.ix (Seq.it_of k m) /\ Types.tget k (Pipe.ppos (fst (Pipe.sstep a (Types.Sync k)))) = Types.tget k (Pipe.lpos a).
Proof. exact SpecFacts.C12_sync. Qed.
Print Assumptions C12_sync.

Theorem C12_go_back_ring :
  forall len a n : nat, 0 < len -> n <= a -> n <= len -> wsub len (PeanoNat.Nat.modulo a len) n = PeanoNat.Nat.modulo (a - n) len.
Proof. exact Ring.wsub_mod. Qed.
Print Assumptions C12_go_back_ring.


(** under concurrency (Conc/RAx.v: Detach / Sync / Attach commands interleaved with a running producer):
    detached operation is race free; what the consumer has published never exceeds its local position,
    and equals it whenever it is attached *)
Theorem C12_detached_concurrent_race_free :
  forall len script, 0 < len -> MRB.Conc.RAx.race (MRB.Conc.RAx.exec_x len (MRB.Conc.RAx.init_x len) script) = false.
Proof. exact MRB.Conc.RAxproof.spsc_x_race_free. Qed.
Print Assumptions C12_detached_concurrent_race_free.

Theorem C12_published_le_local :
  forall len script, 0 < len ->
  let c := MRB.Conc.RAx.exec_x len (MRB.Conc.RAx.init_x len) script in
  MRB.Conc.RAx.publishedC c <= MRB.Conc.RAx.pos (MRB.Conc.RAx.C c) /\
  (MRB.Conc.RAx.det (MRB.Conc.RAx.C c) = false -> MRB.Conc.RAx.publishedC c = MRB.Conc.RAx.pos (MRB.Conc.RAx.C c)).
Proof. exact MRB.Conc.RAxproof.published_le_local. Qed.
Print Assumptions C12_published_le_local.

(** THREE stages with reset_index / detach / sync_index / attach on the WORKER and the consumer, under concurrency (Conc/RA3x.v) *)
Require MRB.Conc.RA3xproof.
Theorem C12_published_le_local_three_stages :
  forall (len : nat) (script : list (RA3.tid * RA3x.cmd)), 0 < len -> let c := RA3x.exec3_x len (RA3x.init3_x len) script in (RA3x.publishedW3 c <= RA3x.pos3 (RA3x.W3 c) /\ (RA3x.det3 (RA3x.W3 c) = false -> RA3x.publishedW3 c = RA3x.pos3 (RA3x.W3 c))) /\ (RA3x.publishedC3 c <= RA3x.pos3 (RA3x.C3 c) /\ (RA3x.det3 (RA3x.C3 c) = false -> RA3x.publishedC3 c = RA3x.pos3 (RA3x.C3 c))) /\ RA3x.publishedP3 c = RA3x.pos3 (RA3x.P3 c).
Proof. exact RA3xproof.published_le_local_3x. Qed.
Print Assumptions C12_published_le_local_three_stages.

