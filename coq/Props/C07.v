(** * C07: Heap buffer freed exactly once, after its last iterator, in any drop order/race
    Concurrent half: the liveness protocol (one read-modify-write per dropped iterator) as a finite machine; the theorems
    hold for every schedule of any length (reachable-state closure computed and checked inside the kernel).
    Sequential half: [drop_iter] of the Model (tied to the code by the `life` suite: all drop orders at random states). *)
From Coq Require Import List Arith NArith Bool Lia.
Import ListNotations.
Require Import MRB.Model.Types MRB.Model.Seq MRB.Model.Trace MRB.Conc.Drop MRB.Proofs.ConcClosing MRB.Proofs.ConcFacts MRB.gen.Profile.

Theorem C07_once_three : forall script : list th, good (mkB3 true true true) (dexec true true (mkB3 true true true) script) = true.
Proof. exact Drop.drop3_good. Qed.
Print Assumptions C07_once_three.

Theorem C07_once_two : forall script : list th, good (mkB3 true false true) (dexec true true (mkB3 true false true) script) = true.
Proof. exact Drop.drop2_good. Qed.
Print Assumptions C07_once_two.

Theorem C07_once_any_ok_profile : forall p : profile, profile_ok p = true -> forall script : list th,
  good (mkB3 true true true) (dexec (ge_acq (p_alive_rmw p)) (ge_rel (p_alive_rmw p)) (mkB3 true true true) script) = true /\
  good (mkB3 true false true) (dexec (ge_acq (p_alive_rmw p)) (ge_rel (p_alive_rmw p)) (mkB3 true false true) script) = true.
Proof. exact ConcClosing.drop_good. Qed.
Print Assumptions C07_once_any_ok_profile.

(** the source: acquire-release RMW whose returned value alone decides, fences present *)
Theorem C07_source_closed : profile_ok Profile.observed = true /\ Profile.rmw_decides = true /\ Profile.extractor_clean = true.
Proof. vm_compute. repeat split. Qed.
Print Assumptions C07_source_closed.

Theorem C07_seq_drop : forall (m : mstate) (k : stage),
  let m' := fst (drop_iter k m) in
  tget k (flag m') = false /\ (forall j, j <> k -> tget j (flag m') = tget j (flag m)) /\
  here (it_of k m') = false /\
  (freed m' = (freed m || (negb (tP (flag m')) && negb (tW (flag m')) && negb (tC (flag m')) && heap m))) /\
  (heap m = false -> freed m' = freed m) /\ slots m' = slots m /\ pub m' = pub m.
Proof. exact ConcFacts.C07_seq_drop. Qed.
Print Assumptions C07_seq_drop.

(** what was wrong on the pinned tree (fixed by 7af37e8), and what a weakened RMW would break *)
Theorem C07_pinned_refuted : exists s, pfrees (prun s) = 2.
Proof. exact Drop.pinned_protocol_refuted. Qed.
Example C07_relaxed_rmw_is_bad : uaf (dexec false false (mkB3 true false true) [TP; TC; TP; TC; TC]) = true.
Proof. exact Drop.relaxed_rmw_is_bad. Qed.

(** observing a peer as dead (Conc/DeadObs.v): release/acquire machine with stale reads, a second dropping thread in the release sequence *)
Require MRB.Conc.DeadObs.
Theorem C07_dead_only_after_drop :
  forall (k : nat) (acq rel xacq zacq zrel : bool) (script : list (DeadObs.tid * nat)), let c := DeadObs.exec k acq rel xacq zacq zrel script in DeadObs.saw_dead c -> DeadObs.dropped c /\ DeadObs.dw c = k /\ List.map DeadObs.ival (DeadObs.I c) = List.seq 0 (S k).
Proof. exact DeadObs.dead_only_after_drop. Qed.
Print Assumptions C07_dead_only_after_drop.

Theorem C07_dead_implies_published_visible :
  forall (k : nat) (acq rel xacq zacq zrel : bool) (script : list (DeadObs.tid * nat)), acq = true -> rel = true -> let c := DeadObs.exec k acq rel xacq zacq zrel script in DeadObs.race c = false /\ (DeadObs.saw_dead c -> DeadObs.dw c <= DeadObs.vd (DeadObs.V (DeadObs.Y c)) /\ length (DeadObs.I c) - 1 <= DeadObs.vi (DeadObs.V (DeadObs.Y c))) /\ (DeadObs.idx_read c -> DeadObs.n (DeadObs.Y c) = k /\ DeadObs.n (DeadObs.Y c) = DeadObs.ival (List.last (DeadObs.I c) DeadObs.dI)).
Proof. exact DeadObs.dead_implies_published_visible. Qed.
Print Assumptions C07_dead_implies_published_visible.


(** L-tie: the drop path of the source (translated on every run into gen/LifeFns.v: [Drop for XIter] -> [BufRef::set_X_alive(false)] - fence,
    the variant's liveness setter, fence, release if that call cleared the last flag - -> [BufRef::drop] - free the box iff this handle owns
    one) is the Model's [drop_iter], for the Local and the Concurrent variant and every combination of flags: same flags afterwards, the
    buffer released exactly when the last flag went on a heap (boxed) buffer, nothing touched after the release *)
Require MRB.Model.LifeM MRB.gen.LifeFns MRB.Proofs.LifeTie.
Theorem C07_drop_path_source :
  LifeFns.life_clean = true /\
  forall (V : bool) (k : Types.stage) (s : Seq.mstate), Seq.freed s = false ->
  LifeTie.l_drop k V (LifeM.mkLE (Seq.heap s)) (LifeM.mkLS (Seq.flag s) (Seq.freed s) []) =
  Some (tt, LifeM.mkLS (Seq.flag (fst (Seq.drop_iter k s))) (Seq.freed (fst (Seq.drop_iter k s)))
                 ([LifeM.EFence; LifeM.ESet k false; LifeM.EFence] ++ (if Seq.freed (fst (Seq.drop_iter k s)) then [LifeM.EFree] else []))).
Proof. split; [exact LifeTie.life_closed | exact LifeTie.tie_drop]. Qed.
Print Assumptions C07_drop_path_source.
