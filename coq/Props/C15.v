(** * C15: A task awaiting an async operation is woken; satisfiable waits do not hang
    (a) registration holds and is proved; (b) "some later enabling operation invokes that waker" is FALSE of the faithful
    model (and of the code: nothing calls Waker::wake) - known finding F8; it is refuted below. *)
From Coq Require Import List Arith NArith Bool Lia.
Import ListNotations.
Require Import MRB.Base.Ring MRB.Base.ListAux MRB.Model.Types MRB.Model.Seq MRB.Spec.Pipe MRB.Model.Async.
Require Import MRB.Proofs.Rel MRB.Proofs.Refine MRB.Proofs.AsyncFacts.

Theorem C15_registered :
  forall (s : Async.astate) (a : Pipe.pipe) (k : Types.stage) (o : Types.op), Rel.Rel (Async.base s) a -> Pipe.ok_op a o = true -> Async.refused (fst (snd (Seq.step (Async.base s) o))) = true -> exists m2 : Seq.mstate, Async.poll k o s = (Async.register k (Async.set_base m2 s), (Types.OPending, nil)) /\ Rel.Rel m2 a /\ Pipe.sstep a o = (a, (fst (snd (Pipe.sstep a o)), nil)) /\ Types.tget k (Async.wk (fst (Async.poll k o s))) = Some (Async.task s) /\ Async.held (fst (Async.poll k o s)) = Async.held s.
Proof. exact AsyncFacts.poll_pending. Qed.
Print Assumptions C15_registered.

Theorem C15_never_woken :
  forall (h : list Async.aop) (s : Async.astate), Async.wakes (fst (Async.arun s h)) = Async.wakes s.
Proof. exact AsyncFacts.never_woken_run. Qed.
Print Assumptions C15_never_woken.

(** the last poller wins: another task polling the same pending future replaces the registered waker *)
Definition c15_cfg := mkConfig [0;0]%N false true false.
Example C15_last_poller_wins :
  match init c15_cfg with
  | Some m => let s := fst (arun (a_init_state m) [ASetTask 1; AHold Pop; ASetTask 2; ARepoll C]) in
      tget C (wk s) = Some 2 /\ tget C (held s) = Some Pop
  | None => False
  end.
Proof. vm_compute. split; reflexivity. Qed.

(** (b) refuted: a consumer task is Pending on an empty buffer with its waker registered; the producer pushes - the
    awaited operation is now possible (polling again would complete) - yet no wake-up has been made, and by
    [C15_never_woken] none ever will: under an executor that polls only on wake-up the task stays parked for ever. *)
Theorem C15_refuted :
  exists (m : mstate) (h : list aop),
    init c15_cfg = Some m /\
    let s := fst (arun (a_init_state m) h) in
    tget C (held s) = Some Pop /\ tget C (wk s) = Some 1 /\
    fst (snd (astep s (ARepoll C))) = OVal 7%N /\                 (* the wait is satisfiable *)
    wakes s = 0 /\ forall h', wakes (fst (arun s h')) = 0.          (* nobody was or will be woken *)
Proof.
  destruct (init c15_cfg) as [m|] eqn:E; [|vm_compute in E; discriminate].
  exists m, [ASetTask 1; AHold Pop; ASetTask 0; APoll (Push 7%N)].
  vm_compute in E. inversion E; subst m. split; [reflexivity|].
  match goal with |- context[arun ?s0 ?h] => remember (fst (arun s0 h)) as s eqn:Es end.
  vm_compute in Es. cbv zeta. subst s.
  repeat match goal with |- _ /\ _ => split end; try reflexivity.
  intros h'. rewrite AsyncFacts.never_woken_run. reflexivity.
Qed.
Print Assumptions C15_refuted.

(** the source registers the polling task's waker between the two attempts - after a failed first attempt, before the re-check
    (gen/PollGen.v, the symbolic execution of [MRBFuture::poll] regenerated on every run) *)
Require MRB.Model.PollShape MRB.gen.PollGen.
Theorem C15_registration_before_recheck :
  PollGen.poll_clean = true /\
  PollGen.poll_shape = [([true], [PollShape.PAttempt], PollShape.PReady);
                        ([false; true], [PollShape.PAttempt; PollShape.PRegister; PollShape.PAttempt], PollShape.PReady);
                        ([false; false], [PollShape.PAttempt; PollShape.PRegister; PollShape.PAttempt], PollShape.PPending)].
Proof. split; reflexivity. Qed.
Print Assumptions C15_registration_before_recheck.

(** ** the re-check after registration, on the branch no sequential history reaches: ANOTHER stage acts during [register_waker]
       ([Async.poll_inj]: attempt; registration; one async step [d] of another stage; second attempt - the harness performs [d] inside the
       polling task's [Waker::clone]).  The source's [poll] (gen/PollGen.v) run with the injected step at its [PRegister] event is
       [poll_inj]; and whatever [d] made possible is seen by the second attempt: the poll answers with the operation's result - the
       wake-up that would have announced it cannot be lost, because it is not needed. *)
Require MRB.Proofs.AsyncInj.
Theorem C15_poll_with_injected_step_is_source :
  PollGen.poll_clean = true /\
  forall (k : stage) (o : op) (d : aop) (s : astate), PollShape.poll_inj_by_shape PollGen.poll_shape k o d s = Some (poll_inj k o d s).
Proof. split; [reflexivity | exact AsyncInj.poll_inj_is_source_shape]. Qed.
Print Assumptions C15_poll_with_injected_step_is_source.

Theorem C15_no_lost_wakeup_during_registration :
  forall (s : astate) (k : stage) (o : op) (d : aop),
    refused (fst (snd (Seq.step (base s) o))) = true ->                                   (* the first attempt is refused *)
    let s1 := register k (set_base (fst (Seq.step (base s) o)) s) in                      (* the polling task is registered ... *)
    let si := fst (astep s1 d) in                                                         (* ... the other stage acts ... *)
    tget k (wk s1) = Some (task s) /\
    (refused (fst (snd (Seq.step (base si) o))) = false ->                                (* ... and made the operation possible: *)
     fst (snd (fst (poll_inj k o d s))) = fst (snd (Seq.step (base si) o)) /\             (* the poll answers with its result, *)
     fst (snd (fst (poll_inj k o d s))) <> OPending).                                     (* never Pending *)
Proof.
  intros s k o d H. cbv zeta. split; [exact (AsyncInj.inj_registered_before s k o)|].
  intros H2. destruct (AsyncInj.inj_no_lost_wakeup s k o d H H2) as [E N]. split; [rewrite E; reflexivity | exact N].
Qed.
Print Assumptions C15_no_lost_wakeup_during_registration.

(** the hypotheses are met: a consumer polls [pop] on an empty buffer, the producer pushes 7 while the consumer's waker is being
    registered - the poll answers [7], and the consumer task is the registered one *)
Example C15_injected_push_is_seen :
  exists m : mstate, init c15_cfg = Some m /\
    let s := a_init_state m in
    refused (fst (snd (Seq.step (base s) Pop))) = true /\
    snd (poll_inj C Pop (APoll (Push 7%N)) s) = Some OOk /\
    fst (snd (fst (poll_inj C Pop (APoll (Push 7%N)) s))) = OVal 7%N /\
    tget C (wk (fst (fst (poll_inj C Pop (APoll (Push 7%N)) s)))) = Some 0.
Proof.
  destruct (init c15_cfg) as [m|] eqn:E; [|vm_compute in E; discriminate].
  exists m. vm_compute in E. inversion E; subst m. split; [reflexivity|]. vm_compute. repeat split; reflexivity.
Qed.
