(** * D-tie for the vmem build: the bodies compiled with feature [vmem] (gen/DataFnsV.v, translated from the source on every run) -
      [next_chunk(_mut)] handing out ONE slice of the double mapping, [_push_slice] / [_extract_slice] running their closure once over
      it - do exactly what the Model's functions do: a window of the double mapping starting at the local index is, cell by cell, the
      ring window (head run up to the physical end, tail run from slot 0).  Statements closed by [exact]; part of the obligations of C17. *)
From Coq Require Import List Arith NArith Bool Lia Permutation.
Import ListNotations.
Require Import MRB.Base.Ring MRB.Base.ListAux MRB.Model.Types MRB.Model.Seq MRB.Model.KernelM MRB.Model.DataM.
Require Import MRB.gen.Kernels MRB.Proofs.KernelTie MRB.Proofs.DataTie MRB.Proofs.DataTieSlices MRB.Proofs.DataTieV.
Require MRB.gen.DataFnsV.

Theorem DTV_source_translated : DataFnsV.data_clean = true.
Proof. exact data_v_closed. Qed.
Print Assumptions DTV_source_translated.

(** one slice [count] cells long, starting at the local index, inside the [2*len] cells of the double mapping *)
Theorem DTV_chunks : forall k s src out n, wf k s ->
  (exists r d, drun (DataFnsV.d_next_chunk (denv_of k s src) n) (view k s out) = Some (r, d) /\ grantv_res k s out n r d) /\
  (exists r d, drun (DataFnsV.d_next_chunk_mut (denv_of k s src) n) (view k s out) = Some (r, d) /\ grantv_res k s out n r d) /\
  (exists r d, drun (DataFnsV.d_get_workable_slice_exact (denv_of k s src) n) (view k s out) = Some (r, d) /\ grantv_res k s out n r d) /\
  (exists r d, drun (DataFnsV.d_get_next_slices_mut (denv_of k s src) n) (view k s out) = Some (r, d) /\ grantv_res k s out n r d) /\
  (exists r d, drun (DataFnsV.d_peek_slice (denv_of k s src) n) (view k s out) = Some (r, d) /\ grantv_res k s out n r d).
Proof.
  intros k s src out n H. destruct (tie_slice_wrappers_v k s src out n H) as (A & B & C0).
  repeat split; [exact (tie_next_chunk_v k s src out n H) | exact (tie_next_chunk_mut_v k s src out n H) | exact A | exact B | exact C0].
Qed.
Print Assumptions DTV_chunks.

(** what such a slice reads is the Model's head slice followed by its tail slice (C17: "a contiguous window resolves to the ring slots") *)
Theorem DTV_mirror_reads_window : forall len (slots0 : list cell) o n, length slots0 = len -> o < len -> n <= len ->
  let '(h, t) := chunk len o n in
  map (fun j => nth ((o + j) mod len) slots0 0%N) (seq 0 n) = sub slots0 o h ++ sub slots0 0 t.
Proof. exact mirror_reads_window. Qed.
Print Assumptions DTV_mirror_reads_window.

Theorem DTV_push_slices : forall s vs out, wf P s -> det (it_of P s) = false ->
  (owned s = false -> exists r d, drun (DataFnsV.d_push_slice (denv_of P s vs) (src_sl (denv_of P s vs))) (view P s out) = Some (r, d) /\ push_slice_res s vs out SCopy false r d) /\
  (owned s = false -> exists r d, drun (DataFnsV.d_push_slice_init (denv_of P s vs) (src_sl (denv_of P s vs))) (view P s out) = Some (r, d) /\ push_slice_res s vs out SCopy false r d) /\
  (exists r d, drun (DataFnsV.d_push_slice_clone (denv_of P s vs) (src_sl (denv_of P s vs))) (view P s out) = Some (r, d) /\ push_slice_res s vs out SAssign true r d) /\
  (exists r d, drun (DataFnsV.d_push_slice_clone_init (denv_of P s vs) (src_sl (denv_of P s vs))) (view P s out) = Some (r, d) /\ push_slice_res s vs out SInit true r d).
Proof.
  intros s vs out H A. repeat split;
  [exact (tie_push_slice_v s vs out H A) | exact (tie_push_slice_init_v s vs out H A) | exact (tie_push_slice_clone_v s vs out H A) | exact (tie_push_slice_clone_init_v s vs out H A)].
Qed.
Print Assumptions DTV_push_slices.

Theorem DTV_extract_slices : forall s src out, wf C s -> det (it_of C s) = false ->
  (owned s = false -> exists r d, drun (DataFnsV.d_copy_slice (denv_of C s src) (mkSl RDst 0 (length out))) (view C s out) = Some (r, d) /\ extract_slice_res s out false r d) /\
  (exists r d, drun (DataFnsV.d_clone_slice (denv_of C s src) (mkSl RDst 0 (length out))) (view C s out) = Some (r, d) /\ extract_slice_res s out true r d).
Proof. intros s src out H A. split; [exact (tie_copy_slice_v s src out H A) | exact (tie_clone_slice_v s src out H A)]. Qed.
Print Assumptions DTV_extract_slices.
