(** Non-vacuity: concrete reachable states and a concrete contract-respecting history
    (three stages, len 4, wrap-around, slices across the physical end, reset, detached moves). *)
From Coq Require Import List Arith NArith Bool Lia.
Import ListNotations.
Require Import MRB.Base.Ring MRB.Model.Types MRB.Model.Seq MRB.Spec.Pipe.
Require Import MRB.Proofs.Rel MRB.Proofs.Refine MRB.Proofs.SpecFacts.

Definition ex_cfg : config := mkConfig [0; 0; 0; 0]%N true true false.

Definition ex_hist : list op :=
  [Push 11; PushSlice [12; 13]%N; Avail W; Edit W 0 100; Advance W 2; GetExact C 2; Pop; CopySlice 1;
   PushSlice [14; 15]%N; Detach W; Advance W 1; GoBack W 1; SetIndex W 3; Sync W; Attach W;
   Reset W; PeekAvail; Reset C; Avail P; Push 16; DropIter P; DropIter W; DropIter C]%N.

Example ex_init : exists m a, init ex_cfg = Some m /\ a_init ex_cfg = Some a /\ Rel m a /\
  a_usable P a = true /\ a_usable W a = true /\ a_usable C a = true.
Proof.
  pose proof (init_refines ex_cfg) as R.
  destruct (init ex_cfg) as [m|] eqn:Em; [|discriminate].
  destruct (a_init ex_cfg) as [a|] eqn:Ea; [|vm_compute in Ea; discriminate].
  exists m, a. repeat match goal with |- _ /\ _ => split end; auto; vm_compute in Ea; inversion Ea; subst a; reflexivity.
Qed.

(** the example history respects the contract at every step ... *)
Example ex_hist_ok : match a_init ex_cfg with
  | Some a => snd (srun a ex_hist) = true
  | None => False end.
Proof. vm_compute. reflexivity. Qed.

(** ... and the consumer obtained the edited first item, then the second one, in push order *)
Example ex_hist_outputs : match init ex_cfg with
  | Some m => let outs := map fst (snd (run m ex_hist)) in
      nth 6 outs OBad = OVal 111%N /\ nth 7 outs OBad = ODst [12%N] /\ nth 5 outs OBad = OSlices 0 [111; 12]%N []
  | None => False end.
Proof. vm_compute. repeat split. Qed.

(** a full buffer exists: the refusal clauses are not vacuous *)
Example ex_full : match a_init ex_cfg with
  | Some a => let a' := fst (fst (srun a [PushSlice [1; 2; 3]%N])) in
      a_avail P a' = 0 /\ in_flight a' = slen a' - 1 /\ a_attached P a' = true
  | None => False end.
Proof. vm_compute. repeat split. Qed.

(** [C05_available_then_advance] is not vacuous: on the fresh example buffer the producer's [available()] answers 3 (= len - 1), and after
    the two steps [avail P], [adv P =3] the consumer finds exactly those three slots *)
Example ex_avail_then_advance : match init ex_cfg, a_init ex_cfg with
  | Some m, Some a =>
      fst (snd (step m (Avail P))) = ONum 3 /\
      ok_op (fst (sstep a (Avail P))) (Advance P 3) = true /\
      a_avail C (fst (fst (srun a [Avail P; Advance P 3; Avail W; Advance W 3]))) = 3
  | _, _ => False end.
Proof. vm_compute. repeat split. Qed.
