(** * C18: Construction and every split start a consistent, correctly sized session
    Only statements closed by [exact]; proofs live in Proofs/. *)
From Coq Require Import List Arith NArith Bool Lia.
Import ListNotations.
Require Import MRB.Base.Ring MRB.Base.ListAux MRB.Model.Types MRB.Model.Seq MRB.Spec.Pipe.
Require Import MRB.Proofs.Rel MRB.Proofs.TapeFacts MRB.Proofs.Refine MRB.Proofs.SpecFacts MRB.Props.Examples.

Theorem C18_construct :
  forall c : Types.config, (length (Types.c_init c) = 0 <-> Seq.init c = None) /\ (forall m : Seq.mstate, Seq.init c = Some m -> exists a : Pipe.pipe, Pipe.a_init c = Some a /\ Rel.Rel m a /\ Seq.mlen m = length (Types.c_init c) /\ Seq.slots m = Types.c_init c /\ Pipe.a_avail Types.P a = Seq.mlen m - 1 /\ Pipe.a_avail Types.C a = 0 /\ (Pipe.shasW a = true -> Pipe.a_avail Types.W a = 0)).
Proof. exact SpecFacts.C18_construct. Qed.
Print Assumptions C18_construct.

Theorem C18_split :
  forall (m : Seq.mstate) (a : Pipe.pipe) (w : bool), Rel.Rel m a -> let m' := Seq.do_split w m in let a' := Pipe.a_split w a in Rel.Rel m' a' /\ Pipe.a_avail Types.P a' = Pipe.slen a - 1 /\ Pipe.a_avail Types.C a' = 0 /\ (w = true -> Pipe.a_avail Types.W a' = 0) /\ Seq.slots m' = Seq.slots m.
Proof. exact SpecFacts.C18_split. Qed.
Print Assumptions C18_split.

Theorem C18_init_refines :
  forall c : Types.config, match Seq.init c with | Some m => match Pipe.a_init c with | Some a => Rel.Rel m a | None => False end | None => match Pipe.a_init c with | Some _ => False | None => True end end.
Proof. exact Refine.init_refines. Qed.
Print Assumptions C18_init_refines.

(** EVERY split function of the source (regenerated on every run into gen/SplitFns.v: sync and async, heap and stack, also the ones that only
    exist without the `alloc` feature) creates producer and consumer, sets exactly the liveness bits of the iterators it creates and - when it
    can be reached by a buffer that was split before: every [&mut self] split, and every by-value split whose impl is not restricted to heap
    storage (F11) - resets all three published indices; such a function does to the buffer exactly what the Model's [do_split] does *)
Require MRB.Model.Splits MRB.Proofs.SplitFacts MRB.gen.SplitFns.
Theorem C18_splits_source : forallb Splits.split_ok SplitFns.splits = true /\ SplitFns.extractor_clean = true.
Proof. vm_compute. split; reflexivity. Qed.
Print Assumptions C18_splits_source.

Theorem C18_split_is_model_split :
  forall f, In f SplitFns.splits -> forall s, (Splits.sp_borrow f = false -> Splits.sp_heap_only f = true -> Seq.pub s = Types.mkTri 0 0 0) ->
  Splits.apply_split f s = Seq.do_split (Splits.sp_worker f) s.
Proof. exact (SplitFacts.all_ok_are_do_split SplitFns.splits (proj1 C18_splits_source)). Qed.
Print Assumptions C18_split_is_model_split.

(** the heap constructors of the source (regenerated on every run into gen/Ctors.v): a [default(capacity)] / [new_zeroed(capacity)]
    buffer has exactly [capacity] cells (without vmem; with vmem: [C17_round]), and [_from] of both variants is the plain constructor
    (length of the storage, zero length refused, published indices 0, no liveness flag set) - the state [init] of the Model starts from *)
Require MRB.gen.Ctors.
Theorem C18_constructors_source :
  (forall capacity, Ctors.default_len capacity = capacity /\ Ctors.new_zeroed_len capacity = capacity) /\
  forallb (fun x => snd x) Ctors.from_ok = true /\ length Ctors.from_ok = 2 /\ Ctors.extractor_clean = true.
Proof. split; [intros; split; reflexivity | vm_compute; repeat split]. Qed.
Print Assumptions C18_constructors_source.
