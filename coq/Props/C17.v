(** * C17: vmem: the two mappings mirror each other; contents and ownership preserved
    Model of the address space built by vmem_helper::new (Model/Vmem.v) over the call sequence regenerated from the
    source (gen/VmemCalls.v).  "All other properties hold unchanged in this configuration" is the correspondence run of
    the whole sequential model against a `--features vmem` build of the harness around the physical end.
    PARTIAL: the semantics of mmap / memcpy is modelled (validated on the running kernel by that build). *)
From Coq Require Import List Arith Bool Lia.
Import ListNotations.
Require Import MRB.Base.Ring MRB.Model.Vmem MRB.Proofs.VmemFacts MRB.gen.VmemCalls.

Theorem C17_mirror :
  forall (size : nat) (s : vstate), mirrored s = true -> forall o : nat, o < size ->
  resolve size s Lo o = resolve size s Hi o /\ exists ob, resolve size s Lo o = Some (ob, o) /\ obj_has_data s = true.
Proof. exact VmemFacts.mirrored_aliases. Qed.
Print Assumptions C17_mirror.

(** the calls of the current source build a mirrored mapping that holds the supplied data; the release drops the items
    once, before unmapping both halves, and the source box is released without dropping them *)
Theorem C17_source_closed :
  mirrored (vexec_calls VmemCalls.calls) = true /\ data_intact (vexec_calls VmemCalls.calls) = true /\
  release_ok VmemCalls.release = true /\ VmemCalls.extractor_clean = true.
Proof. vm_compute. repeat split. Qed.
Print Assumptions C17_source_closed.

Theorem C17_contents_and_mirror_of_source :
  forall size o : nat, o < size ->
  resolve size (vexec_calls VmemCalls.calls) Lo o = resolve size (vexec_calls VmemCalls.calls) Hi o /\
  exists ob, resolve size (vexec_calls VmemCalls.calls) Lo o = Some (ob, o) /\ obj_has_data (vexec_calls VmemCalls.calls) = true.
Proof. intros size o H. exact (VmemFacts.mirrored_aliases size _ (proj1 C17_source_closed) o H). Qed.
Print Assumptions C17_contents_and_mirror_of_source.

Theorem C17_round :
  forall page m : nat, 0 < page ->
  m <= page_mul page m /\ page_mul page m mod page = 0 /\ page_mul page m < m + page /\
  forall k, m <= k * page -> page_mul page m <= k * page.
Proof. exact VmemFacts.page_mul_spec. Qed.
Print Assumptions C17_round.

Theorem C17_slice :
  forall len ix n j : nat, 0 < len -> ix < len -> n <= len - 1 -> j < n ->
  ix + j < 2 * len /\ (ix + j) mod len = wadd len ix j /\ (if ix + j <? len then ix + j else ix + j - len) = wadd len ix j.
Proof. exact VmemFacts.window_in_mirror. Qed.
Print Assumptions C17_slice.

(** what was wrong on the pinned tree (fixed by 24d7404) *)
Theorem C17_pinned_refuted : mirrored (vexec_calls pinned_calls) = false /\ data_intact (vexec_calls pinned_calls) = false.
Proof. exact VmemFacts.pinned_calls_refuted. Qed.

(** the body of vmem_helper::get_page_size_mul, translated from the source on every run, is the Model's rounding for all inputs *)
Theorem C17_round_source : forall page m, 0 < page -> VmemCalls.page_round page m = page_mul page m.
Proof. intros page m Hp. unfold VmemCalls.page_round, page_mul. rewrite VmemFacts.div_ceil_eq by exact Hp. reflexivity. Qed.
Print Assumptions C17_round_source.
