(** * C05: available() never over-reports; requests are all-or-nothing
    Only statements closed by [exact]; proofs live in Proofs/. *)
From Coq Require Import List Arith NArith Bool Lia.
Import ListNotations.
Require Import MRB.Base.Ring MRB.Base.ListAux MRB.Model.Types MRB.Model.Seq MRB.Spec.Pipe.
Require Import MRB.Proofs.Rel MRB.Proofs.TapeFacts MRB.Proofs.Refine MRB.Proofs.SpecFacts MRB.Props.Examples.

Theorem C05_exact :
  forall (m : Seq.mstate) (a : Pipe.pipe) (k : Types.stage), Rel.Rel m a -> Pipe.a_usable k a = true -> fst (snd (Seq.step m (Types.Avail k))) = Types.ONum (Pipe.a_avail k a).
Proof. exact SpecFacts.C05_exact. Qed.
Print Assumptions C05_exact.

Theorem C05_iff :
  forall (m : Seq.mstate) (a : Pipe.pipe) (k : Types.stage) (n : nat), Rel.Rel m a -> Pipe.a_usable k a = true -> fst (snd (Seq.step m (Types.GetExact k n))) = Types.ONone <-> Pipe.a_avail k a < n.
Proof. exact SpecFacts.C05_iff. Qed.
Print Assumptions C05_iff.

Theorem C05_refused_noop :
  forall (m : Seq.mstate) (a : Pipe.pipe) (k : Types.stage) (n : nat), Rel.Rel m a -> Pipe.a_usable k a = true -> Pipe.a_avail k a < n -> Seq.step m (Types.GetExact k n) = (Seq.set_ca k (Pipe.a_avail k a) m, (Types.ONone, nil)) /\ Pipe.sstep a (Types.GetExact k n) = (a, (Types.ONone, nil)).
Proof. exact SpecFacts.C05_refused_noop. Qed.
Print Assumptions C05_refused_noop.

Theorem C05_refused_push :
  forall (m : Seq.mstate) (a : Pipe.pipe) (v : BinNums.N), Rel.Rel m a -> Pipe.a_attached Types.P a = true -> Pipe.a_avail Types.P a = 0 -> Seq.step m (Types.Push v) = (Seq.set_ca Types.P 0 m, (Types.OErr v, nil)) /\ Pipe.sstep a (Types.Push v) = (a, (Types.OErr v, nil)).
Proof. exact SpecFacts.C05_refused_push. Qed.
Print Assumptions C05_refused_push.

Theorem C05_check :
  forall (m : Seq.mstate) (a : Pipe.pipe) (k : Types.stage) (n : nat) (g : bool) (m' : Seq.mstate), Rel.Rel m a -> Pipe.a_usable k a = true -> Seq.check k n m = (g, m') -> g = PeanoNat.Nat.leb n (Pipe.a_avail k a) /\ Rel.Rel m' a.
Proof. exact Refine.rel_check. Qed.
Print Assumptions C05_check.

(** UNDER CONCURRENCY (Conc/ConcExtras.v, release/acquire machines, every interleaving and stale read): the remembered availability never
    exceeds the true one measured against the REAL position of the followed thread - it errs only towards refusing - and every granted
    window lies within it *)
Require MRB.Conc.ConcExtras.
Theorem C05_concurrent_under_two_stages :
  forall (len : nat) (script : list (bool * nat * nat)), 0 < len -> let c := RAn.exec_n len (RAn.init_n len) script in (RAn.pos (RAn.C c) + RAn.ca (RAn.C c) <= RAn.pos (RAn.P c) /\ RAn.off (RAn.C c) <= RAn.ca (RAn.C c)) /\ RAn.pos (RAn.P c) + RAn.ca (RAn.P c) + 1 <= RAn.pos (RAn.C c) + len /\ RAn.off (RAn.P c) <= RAn.ca (RAn.P c).
Proof. exact ConcExtras.TwoStage.ca_under_n. Qed.
Print Assumptions C05_concurrent_under_two_stages.

Theorem C05_concurrent_under_three_stages :
  forall (len : nat) (script : list (RA3.tid * nat * nat)), 0 < len -> let c := RA3n.exec3_n len (RA3n.init3_n len) script in (RA3n.pos3 (RA3n.C3 c) + RA3n.ca3 (RA3n.C3 c) <= RA3n.pos3 (RA3n.W3 c) /\ RA3n.off3 (RA3n.C3 c) <= RA3n.ca3 (RA3n.C3 c)) /\ (RA3n.pos3 (RA3n.W3 c) + RA3n.ca3 (RA3n.W3 c) <= RA3n.pos3 (RA3n.P3 c) /\ RA3n.off3 (RA3n.W3 c) <= RA3n.ca3 (RA3n.W3 c)) /\ RA3n.pos3 (RA3n.P3 c) + RA3n.ca3 (RA3n.P3 c) + 1 <= RA3n.pos3 (RA3n.C3 c) + len /\ RA3n.off3 (RA3n.P3 c) <= RA3n.ca3 (RA3n.P3 c).
Proof. exact ConcExtras.ThreeStage.ca_under_3n. Qed.
Print Assumptions C05_concurrent_under_three_stages.

Theorem C05_concurrent_under_reset_detached :
  forall (len : nat) (script : list (bool * RAx.cmd)), 0 < len -> let c := RAx.exec_x len (RAx.init_x len) script in (RAx.pos (RAx.C c) + RAx.ca (RAx.C c) <= RAx.pos (RAx.P c) /\ RAx.off (RAx.C c) <= RAx.ca (RAx.C c)) /\ RAx.pos (RAx.P c) + RAx.ca (RAx.P c) + 1 <= RAx.pos (RAx.C c) + len /\ RAx.pos (RAx.P c) + RAx.ca (RAx.P c) + 1 <= RAx.publishedC c + len /\ RAx.off (RAx.P c) <= RAx.ca (RAx.P c).
Proof. exact ConcExtras.Extended.ca_under_x. Qed.
Print Assumptions C05_concurrent_under_reset_detached.

Theorem C05_concurrent_granted_within :
  forall (len : nat) (script : list (RA3.tid * nat * nat)), 0 < len -> let c := RA3n.exec3_n len (RA3n.init3_n len) script in (RA3n.pc3 (RA3n.C3 c) = 2 \/ RA3n.pc3 (RA3n.C3 c) = 3 -> RA3n.pos3 (RA3n.C3 c) + RA3n.cnt3 (RA3n.C3 c) <= RA3n.pos3 (RA3n.W3 c)) /\ (RA3n.pc3 (RA3n.W3 c) = 2 \/ RA3n.pc3 (RA3n.W3 c) = 3 -> RA3n.pos3 (RA3n.W3 c) + RA3n.cnt3 (RA3n.W3 c) <= RA3n.pos3 (RA3n.P3 c)) /\ (RA3n.pc3 (RA3n.P3 c) = 2 \/ RA3n.pc3 (RA3n.P3 c) = 3 -> RA3n.pos3 (RA3n.P3 c) + RA3n.cnt3 (RA3n.P3 c) + 1 <= RA3n.pos3 (RA3n.C3 c) + len) /\ (RA3n.pc3 (RA3n.C3 c) = 2 -> RA3n.pos3 (RA3n.C3 c) + RA3n.off3 (RA3n.C3 c) < RA3n.pos3 (RA3n.W3 c)) /\ (RA3n.pc3 (RA3n.W3 c) = 2 -> RA3n.pos3 (RA3n.W3 c) + RA3n.off3 (RA3n.W3 c) < RA3n.pos3 (RA3n.P3 c)) /\ (RA3n.pc3 (RA3n.P3 c) = 2 -> RA3n.pos3 (RA3n.P3 c) + RA3n.off3 (RA3n.P3 c) + 1 < RA3n.pos3 (RA3n.C3 c) + len).
Proof. exact ConcExtras.ThreeStage.granted_within_3n. Qed.
Print Assumptions C05_concurrent_granted_within.

Theorem C05_concurrent_granted_within_reset_detached :
  forall (len : nat) (script : list (bool * RAx.cmd)), 0 < len -> let c := RAx.exec_x len (RAx.init_x len) script in (RAx.pc (RAx.C c) = 2 \/ RAx.pc (RAx.C c) = 3 -> RAx.pos (RAx.C c) + RAx.cnt (RAx.C c) <= RAx.pos (RAx.P c)) /\ (RAx.pc (RAx.P c) = 2 \/ RAx.pc (RAx.P c) = 3 -> RAx.pos (RAx.P c) + RAx.cnt (RAx.P c) + 1 <= RAx.pos (RAx.C c) + len) /\ (RAx.pc (RAx.C c) = 2 -> RAx.pos (RAx.C c) + RAx.off (RAx.C c) < RAx.pos (RAx.P c)) /\ (RAx.pc (RAx.P c) = 2 -> RAx.pos (RAx.P c) + RAx.off (RAx.P c) + 1 < RAx.pos (RAx.C c) + len) /\ (RAx.pc (RAx.C c) = 5 -> RAx.pos (RAx.C c) <= RAx.npos (RAx.C c) <= RAx.pos (RAx.P c)).
Proof. exact ConcExtras.Extended.granted_within_x. Qed.
Print Assumptions C05_concurrent_granted_within_reset_detached.


(** the usual loop body [let n = it.available(); unsafe { it.advance(n) }] (the history lines [avail K] / [adv K =n], where the real iterator
    advances by what the crate itself answered): the answer is the true availability, advancing by it respects the contract, and the two
    steps together refine the Spec *)
Theorem C05_available_then_advance :
  forall (m : Seq.mstate) (a : Pipe.pipe) (k : Types.stage) (n : nat), Rel.Rel m a -> fst (snd (Seq.step m (Types.Avail k))) = Types.ONum n -> n = Pipe.a_avail k a /\ Pipe.ok_op (fst (Pipe.sstep a (Types.Avail k))) (Types.Advance k n) = true /\ Refine.refines (Seq.step (fst (Seq.step m (Types.Avail k))) (Types.Advance k n)) (Pipe.sstep (fst (Pipe.sstep a (Types.Avail k))) (Types.Advance k n)).
Proof. exact SpecFacts.avail_then_advance. Qed.
Print Assumptions C05_available_then_advance.
