(** * C05: available() never over-reports; requests are all-or-nothing
    Only statements closed by [exact]; proofs live in Proofs/. *)
From Coq Require Import List Arith NArith Bool Lia.
Import ListNotations.
Require Import MRB.Base.Ring MRB.Base.ListAux MRB.Model.Types MRB.Model.Seq MRB.Spec.Pipe.
Require Import MRB.Proofs.Rel MRB.Proofs.TapeFacts MRB.Proofs.Refine MRB.Proofs.SpecFacts MRB.Props.Examples.

Theorem C05_exact :
  forall (m : Seq.mstate) (a : Pipe.pipe) (k : Types.stage), Rel.Rel m a -> Pipe.a_usable k a = true -> fst (snd (Seq.step m (Types.Avail k))) = Types.ONum (Pipe.a_avail k a).
Proof. exact SpecFacts.C05_exact. Qed.
Print Assumptions C05_exact.

Theorem C05_iff :
  forall (m : Seq.mstate) (a : Pipe.pipe) (k : Types.stage) (n : nat), Rel.Rel m a -> Pipe.a_usable k a = true -> fst (snd (Seq.step m (Types.GetExact k n))) = Types.ONone <-> Pipe.a_avail k a < n.
Proof. exact SpecFacts.C05_iff. Qed.
Print Assumptions C05_iff.

Theorem C05_refused_noop :
  forall (m : Seq.mstate) (a : Pipe.pipe) (k : Types.stage) (n : nat), Rel.Rel m a -> Pipe.a_usable k a = true -> Pipe.a_avail k a < n -> Seq.step m (Types.GetExact k n) = (Seq.set_ca k (Pipe.a_avail k a) m, (Types.ONone, nil)) /\ Pipe.sstep a (Types.GetExact k n) = (a, (Types.ONone, nil)).
Proof. exact SpecFacts.C05_refused_noop. Qed.
Print Assumptions C05_refused_noop.

Theorem C05_refused_push :
  forall (m : Seq.mstate) (a : Pipe.pipe) (v : BinNums.N), Rel.Rel m a -> Pipe.a_attached Types.P a = true -> Pipe.a_avail Types.P a = 0 -> Seq.step m (Types.Push v) = (Seq.set_ca Types.P 0 m, (Types.OErr v, nil)) /\ Pipe.sstep a (Types.Push v) = (a, (Types.OErr v, nil)).
Proof. exact SpecFacts.C05_refused_push. Qed.
Print Assumptions C05_refused_push.

Theorem C05_check :
  forall (m : Seq.mstate) (a : Pipe.pipe) (k : Types.stage) (n : nat) (g : bool) (m' : Seq.mstate), Rel.Rel m a -> Pipe.a_usable k a = true -> Seq.check k n m = (g, m') -> g = PeanoNat.Nat.leb n (Pipe.a_avail k a) /\ Rel.Rel m' a.
Proof. exact Refine.rel_check. Qed.
Print Assumptions C05_check.

