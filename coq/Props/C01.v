(** * C01: Consumer gets exactly the pushed items, once, in order, with the worker's edits
    Only statements closed by [exact]; proofs live in Proofs/. *)
From Coq Require Import List Arith NArith Bool Lia.
Import ListNotations.
Require Import MRB.Base.Ring MRB.Base.ListAux MRB.Model.Types MRB.Model.Seq MRB.Spec.Pipe.
Require Import MRB.Proofs.Rel MRB.Proofs.TapeFacts MRB.Proofs.Refine MRB.Proofs.SpecFacts MRB.Proofs.Fifo MRB.Props.Examples.

Theorem C01_refines :
  forall (h : list Types.op) (m : Seq.mstate) (a : Pipe.pipe), Rel.Rel m a -> let '(a', ys, ok) := Pipe.srun a h in ok = true -> let '(m', xs) := Seq.run m h in xs = ys /\ Rel.Rel m' a'.
Proof. exact Refine.run_refines. Qed.
Print Assumptions C01_refines.

Theorem C01_step_refines :
  forall (m : Seq.mstate) (a : Pipe.pipe) (o : Types.op), Rel.Rel m a -> Pipe.ok_op a o = true -> refines (Seq.step m o) (Pipe.sstep a o).
Proof. exact Refine.step_refines. Qed.
Print Assumptions C01_step_refines.

Theorem C01_init_refines :
  forall c : Types.config, match Seq.init c with | Some m => match Pipe.a_init c with | Some a => Rel.Rel m a | None => False end | None => match Pipe.a_init c with | Some _ => False | None => True end end.
Proof. exact Refine.init_refines. Qed.
Print Assumptions C01_init_refines.

Theorem C01_frame :
  forall (m : Seq.mstate) (a : Pipe.pipe) (o : Types.op) (k : Types.stage), Rel.Rel m a -> Pipe.ok_op a o = true -> actor o = Some k -> TFrame (Types.tget k (Pipe.lpos a)) (Types.tget k (Pipe.lpos a) + Pipe.a_avail k a) (Pipe.tape a) (Pipe.tape (fst (Pipe.sstep a o))).
Proof. exact SpecFacts.C01_frame. Qed.
Print Assumptions C01_frame.

Theorem C01_windows_disjoint :
  forall (m : Seq.mstate) (a : Pipe.pipe), Rel.Rel m a -> Types.tC (Pipe.lpos a) + Pipe.a_avail Types.C a <= (if Pipe.shasW a then Types.tW (Pipe.lpos a) else Types.tP (Pipe.lpos a)) /\ (Pipe.shasW a = true -> Types.tW (Pipe.lpos a) + Pipe.a_avail Types.W a <= Types.tP (Pipe.lpos a)) /\ Types.tP (Pipe.lpos a) + Pipe.a_avail Types.P a < Types.tC (Pipe.ppos a) + Pipe.slen a /\ Types.tC (Pipe.ppos a) <= Types.tC (Pipe.lpos a).
Proof. exact SpecFacts.C01_windows_disjoint. Qed.
Print Assumptions C01_windows_disjoint.

Theorem C01_read_item :
  forall (a : Pipe.pipe) (mv : bool) (a' : Pipe.pipe) (v : BinNums.N) (evs : list Types.lev), Pipe.a_attached Types.C a = true -> Pipe.sstep a (if mv then Types.PopMove else Types.Pop) = (a', (Types.OVal v, evs)) -> 1 <= Pipe.a_avail Types.C a /\ v = List.nth (Types.tC (Pipe.lpos a)) (Pipe.tape a) BinNums.N0 /\ Types.tC (Pipe.lpos a') = Types.tC (Pipe.lpos a) + 1.
Proof. exact SpecFacts.C01_read_item. Qed.
Print Assumptions C01_read_item.

Theorem C01_read_slice :
  forall (a : Pipe.pipe) (n : nat) (a' : Pipe.pipe) (vs : list BinNums.N) (evs : list Types.lev), Pipe.a_attached Types.C a = true -> Pipe.sowned a = false -> Pipe.sstep a (Types.CopySlice n) = (a', (Types.ODst vs, evs)) -> n <= Pipe.a_avail Types.C a /\ vs = ListAux.sub (Pipe.tape a) (Types.tC (Pipe.lpos a)) n /\ Types.tC (Pipe.lpos a') = Types.tC (Pipe.lpos a) + n.
Proof. exact SpecFacts.C01_read_slice. Qed.
Print Assumptions C01_read_slice.

Theorem C01_push_position :
  forall (a : Pipe.pipe) (v : BinNums.N) (a' : Pipe.pipe) (evs : list Types.lev), Pipe.a_attached Types.P a = true -> Pipe.sstep a (Types.Push v) = (a', (Types.OOk, evs)) -> Types.tP (Pipe.lpos a) < length (Pipe.tape a) -> List.nth (Types.tP (Pipe.lpos a)) (Pipe.tape a') BinNums.N0 = v /\ Types.tP (Pipe.lpos a') = Types.tP (Pipe.lpos a) + 1.
Proof. exact SpecFacts.C01_push_position. Qed.
Print Assumptions C01_push_position.

(** END-TO-END FIFO (two-stage pipeline, plain items, push / push_slice / pop / copy_item / copy_slice / peeks): what the
    consumer has obtained, followed by what is still in the buffer, is exactly what was in flight at the start followed by the
    accepted pushes - nothing lost, duplicated, reordered or invented; from a fresh buffer the consumed sequence is a prefix
    of the accepted one; at most len-1 items are in flight *)
Theorem C01_fifo :
  forall (m : Seq.mstate) (a : Pipe.pipe) (h : list Types.op), Rel.Rel m a -> Pipe.shasW a = false -> Pipe.sowned a = false -> Types.tP (Pipe.sdet a) = false -> Types.tC (Pipe.sdet a) = false -> List.forallb fifo_op h = true -> snd (Pipe.srun a h) = true /\ (pending a ++ accepted a h)%list = (consumed a h ++ pending (fst (fst (Pipe.srun a h))))%list /\ length (pending (fst (fst (Pipe.srun a h)))) <= Pipe.slen a - 1.
Proof. exact Fifo.FIFO_rel. Qed.
Print Assumptions C01_fifo.

Theorem C01_fifo_from_init :
  forall (c : Types.config) (a : Pipe.pipe) (h : list Types.op), Pipe.a_init c = Some a -> Types.c_worker c = false -> Types.c_owned c = false -> List.forallb fifo_op h = true -> snd (Pipe.srun a h) = true /\ accepted a h = (consumed a h ++ pending (fst (fst (Pipe.srun a h))))%list /\ (exists rest : list BinNums.N, accepted a h = (consumed a h ++ rest)%list) /\ length (pending (fst (fst (Pipe.srun a h)))) <= length (Types.c_init c) - 1.
Proof. exact Fifo.FIFO_init. Qed.
Print Assumptions C01_fifo_from_init.

(** THREE-STAGE end-to-end statement (Proofs/Fifo3.v): what the consumer obtains at position p is the value pushed at p with exactly the
    worker's edits recorded for p, in order; edits only touch published-but-unreleased positions; released positions never change *)
Require MRB.Proofs.Fifo3.
Theorem C01_fifo3 :
  forall (h : list Types.op) (a : Pipe.pipe), Fifo3.Inv3 a -> List.forallb Fifo3.fifo3_op h = true -> snd (Pipe.srun a h) = true -> let a' := Fifo.sfinal a h in Types.tP (Pipe.ppos a') = Types.tP (Pipe.ppos a) + length (Fifo.accepted a h) /\ Types.tC (Pipe.ppos a') = Types.tC (Pipe.ppos a) + length (Fifo.consumed a h) /\ Fifo.consumed a h = ListAux.sub (Pipe.tape a') (Types.tC (Pipe.ppos a)) (Types.tC (Pipe.ppos a') - Types.tC (Pipe.ppos a)) /\ (forall p : nat, p < Types.tP (Pipe.ppos a') -> List.nth p (Pipe.tape a') BinNums.N0 = Fifo3.expected a h p) /\ Fifo.consumed a h = List.map (Fifo3.expected a h) (List.seq (Types.tC (Pipe.ppos a)) (length (Fifo.consumed a h))) /\ (forall (q : nat) (e : Fifo3.wedit), List.In (q, e) (Fifo3.edits a h) -> Types.tW (Pipe.ppos a) <= q < Types.tP (Pipe.ppos a')) /\ Types.tC (Pipe.ppos a') <= Types.tW (Pipe.ppos a') /\ Types.tW (Pipe.ppos a') <= Types.tP (Pipe.ppos a') /\ Types.tP (Pipe.ppos a') - Types.tC (Pipe.ppos a') <= Pipe.slen a - 1.
Proof. exact Fifo3.FIFO3. Qed.
Print Assumptions C01_fifo3.

Theorem C01_fifo3_discipline :
  forall (h1 : list Types.op) (o : Types.op) (h2 : list Types.op) (a : Pipe.pipe), Fifo3.Inv3 a -> List.forallb Fifo3.fifo3_op (h1 ++ o :: h2) = true -> snd (Pipe.srun a (h1 ++ o :: h2)) = true -> let a1 := Fifo.sfinal a h1 in let a' := Fifo.sfinal a (h1 ++ o :: h2) in (forall (q : nat) (e : Fifo3.wedit), List.In (q, e) (Fifo3.edits1 a1 o) -> Types.tC (Pipe.ppos a1) <= Types.tW (Pipe.ppos a1) /\ Types.tW (Pipe.ppos a1) <= q < Types.tP (Pipe.ppos a1)) /\ Fifo.consumed1 a1 o = ListAux.sub (Pipe.tape a1) (Types.tC (Pipe.ppos a1)) (length (Fifo.consumed1 a1 o)) /\ Types.tC (Pipe.ppos a1) + length (Fifo.consumed1 a1 o) <= Types.tW (Pipe.ppos a1) /\ (forall j : nat, j < length (Fifo.accepted1 a1 o) -> List.nth (Types.tP (Pipe.ppos a1) + j) (Pipe.tape (fst (Pipe.sstep a1 o))) BinNums.N0 = List.nth j (Fifo.accepted1 a1 o) BinNums.N0) /\ (forall p : nat, p < Types.tW (Pipe.ppos a1) -> List.nth p (Pipe.tape a') BinNums.N0 = List.nth p (Pipe.tape a1) BinNums.N0) /\ Types.tW (Pipe.ppos a1) <= Types.tW (Pipe.ppos a').
Proof. exact Fifo3.FIFO3_discipline. Qed.
Print Assumptions C01_fifo3_discipline.

Theorem C01_fifo3_model :
  forall (m : Seq.mstate) (a : Pipe.pipe) (h : list Types.op), Rel.Rel m a -> Pipe.shasW a = true -> Pipe.sowned a = false -> Types.tP (Pipe.sdet a) = false -> Types.tW (Pipe.sdet a) = false -> Types.tC (Pipe.sdet a) = false -> List.forallb Fifo3.fifo3_op h = true -> snd (Pipe.srun a h) = true -> let a' := fst (fst (Pipe.srun a h)) in snd (Seq.run m h) = snd (fst (Pipe.srun a h)) /\ Rel.Rel (fst (Seq.run m h)) a' /\ Fifo3.consumed_outs h (snd (Seq.run m h)) = Fifo.consumed a h /\ Types.tP (Pipe.ppos a') = Types.tP (Pipe.ppos a) + length (Fifo.accepted a h) /\ Types.tC (Pipe.ppos a') = Types.tC (Pipe.ppos a) + length (Fifo.consumed a h) /\ Fifo.consumed a h = ListAux.sub (Pipe.tape a') (Types.tC (Pipe.ppos a)) (Types.tC (Pipe.ppos a') - Types.tC (Pipe.ppos a)) /\ (forall p : nat, p < Types.tP (Pipe.ppos a') -> List.nth p (Pipe.tape a') BinNums.N0 = Fifo3.expected a h p) /\ Fifo.consumed a h = List.map (Fifo3.expected a h) (List.seq (Types.tC (Pipe.ppos a)) (length (Fifo.consumed a h))) /\ (forall (q : nat) (e : Fifo3.wedit), List.In (q, e) (Fifo3.edits a h) -> Types.tW (Pipe.ppos a) <= q < Types.tP (Pipe.ppos a')) /\ Types.tC (Pipe.ppos a') <= Types.tW (Pipe.ppos a') /\ Types.tW (Pipe.ppos a') <= Types.tP (Pipe.ppos a') /\ Types.tP (Pipe.ppos a') - Types.tC (Pipe.ppos a') <= Pipe.slen a - 1.
Proof. exact Fifo3.FIFO3_rel. Qed.
Print Assumptions C01_fifo3_model.

Theorem C01_fifo3_from_init :
  forall (c : Types.config) (a : Pipe.pipe) (h : list Types.op), Pipe.a_init c = Some a -> Types.c_worker c = true -> Types.c_owned c = false -> List.forallb Fifo3.fifo3_op h = true -> snd (Pipe.srun a h) = true -> let a' := fst (fst (Pipe.srun a h)) in Fifo.consumed a h = List.map (fun k : nat => Fifo3.apply_edits (Fifo3.edits_at k (Fifo3.edits a h)) (List.nth k (Fifo.accepted a h) BinNums.N0)) (List.seq 0 (length (Fifo.consumed a h))) /\ length (Fifo.consumed a h) <= length (Fifo.accepted a h) /\ length (Fifo.accepted a h) - length (Fifo.consumed a h) <= length (Types.c_init c) - 1 /\ Types.tP (Pipe.ppos a') = length (Fifo.accepted a h) /\ Types.tC (Pipe.ppos a') = length (Fifo.consumed a h) /\ Types.tC (Pipe.ppos a') <= Types.tW (Pipe.ppos a') /\ Types.tW (Pipe.ppos a') <= Types.tP (Pipe.ppos a') /\ (forall (q : nat) (e : Fifo3.wedit), List.In (q, e) (Fifo3.edits a h) -> q < length (Fifo.accepted a h)).
Proof. exact Fifo3.FIFO3_init. Qed.
Print Assumptions C01_fifo3_from_init.

Theorem C01_fifo3_no_edits :
  forall (c : Types.config) (a : Pipe.pipe) (h : list Types.op), Pipe.a_init c = Some a -> Types.c_worker c = true -> Types.c_owned c = false -> List.forallb Fifo3.fifo3_op h = true -> snd (Pipe.srun a h) = true -> Fifo3.edits a h = nil -> Fifo.consumed a h = List.firstn (length (Fifo.consumed a h)) (Fifo.accepted a h).
Proof. exact Fifo3.FIFO3_init_no_edits. Qed.
Print Assumptions C01_fifo3_no_edits.

