(** * K-tie: the arithmetic kernels translated from the Rust source on every run equal the Model's, for all inputs.
    Statements closed by [exact]. Part of the obligations of C01 C04 C05 C06 C11 C12. *)
From Coq Require Import List Arith Bool Lia.
Import ListNotations.
Require Import MRB.Base.Ring MRB.Model.Types MRB.Model.Seq MRB.Model.KernelM MRB.gen.Kernels MRB.Proofs.KernelTie.

Theorem K_available :
  forall len succ ix ca : nat, ix < len -> succ < len -> len + len < usize_max ->
  run (g_prod_available (mkE succ len)) (mkL ix ca) = Some (pavail len ix succ, mkL ix (pavail len ix succ), []) /\
  run (g_work_available (mkE succ len)) (mkL ix ca) = Some (dist len ix succ, mkL ix (dist len ix succ), []) /\
  run (g_cons_available (mkE succ len)) (mkL ix ca) = Some (dist len ix succ, mkL ix (dist len ix succ), []).
Proof. intros. repeat split; [apply tie_prod_available | apply tie_work_available | apply tie_cons_available]; auto. Qed.
Print Assumptions K_available.

Theorem K_advance :
  forall len succ ix ca n : nat, ix < len -> succ < len -> len + len < usize_max -> n <= len ->
  run (g_advance_local (mkE succ len) n) (mkL ix ca) = Some (tt, mkL (wadd len ix n) (ca - n), []) /\
  run (g_advance (mkE succ len) n) (mkL ix ca) = Some (tt, mkL (wadd len ix n) (ca - n), [wadd len ix n]).
Proof. intros. split; [apply tie_advance_local | apply tie_advance]; auto. Qed.
Print Assumptions K_advance.

Theorem K_check :
  forall len succ ix ca n : nat, ix < len -> succ < len -> len + len < usize_max ->
  run (g_check (mkE succ len) (g_prod_available (mkE succ len)) n) (mkL ix ca) =
    Some (if n <=? ca then true else n <=? pavail len ix succ, if n <=? ca then mkL ix ca else mkL ix (pavail len ix succ), []) /\
  run (g_check (mkE succ len) (g_cons_available (mkE succ len)) n) (mkL ix ca) =
    Some (if n <=? ca then true else n <=? dist len ix succ, if n <=? ca then mkL ix ca else mkL ix (dist len ix succ), []).
Proof. intros. split; [apply tie_check_prod | apply tie_check_cons]; auto. Qed.
Print Assumptions K_check.

Theorem K_reset_and_detached :
  forall len succ ix ca : nat,
  (run (g_cons_reset (mkE succ len)) (mkL ix ca) = Some (tt, mkL succ 0, [succ]) /\
   run (g_work_reset (mkE succ len)) (mkL ix ca) = Some (tt, mkL succ 0, [succ])) /\
  (forall i, run (g_set_index (mkE succ len) i) (mkL ix ca) = Some (tt, mkL i 0, [])) /\
  run (g_dreset (mkE succ len)) (mkL ix ca) = Some (tt, mkL succ 0, []) /\
  (run (g_sync_index (mkE succ len)) (mkL ix ca) = Some (tt, mkL ix ca, [ix]) /\
   run (g_sync_index_async (mkE succ len)) (mkL ix ca) = Some (tt, mkL ix ca, [ix])).
Proof. intros. repeat split; reflexivity. Qed.
Print Assumptions K_reset_and_detached.

Theorem K_attach :
  forall len succ ix ca : nat,
  run (g_attach (mkE succ len)) (mkL ix ca) = Some (tt, mkL ix ca, [ix]) /\
  run (g_attach_async (mkE succ len)) (mkL ix ca) = Some (tt, mkL ix ca, [ix]).
Proof. intros. apply tie_attach. Qed.
Print Assumptions K_attach.

Theorem K_go_back :
  forall len succ ix ca n : nat, ix < len -> succ < len -> len + len < usize_max -> n <= len -> ca + n < usize_max ->
  run (g_go_back (mkE succ len) n) (mkL ix ca) = Some (tt, mkL (wsub len ix n) (ca + n), []) /\
  run (g_go_back_async (mkE succ len) n) (mkL ix ca) = Some (tt, mkL (wsub len ix n) (ca + n), []).
Proof. intros. apply tie_go_back; auto. Qed.
Print Assumptions K_go_back.

Theorem K_detached_advance :
  forall len succ ix ca n : nat, ix < len -> succ < len -> len + len < usize_max -> n <= len ->
  run (g_dadvance (mkE succ len) n) (mkL ix ca) = Some (tt, mkL (wadd len ix n) (ca - n), []) /\
  run (g_dadvance_async (mkE succ len) n) (mkL ix ca) = Some (tt, mkL (wadd len ix n) (ca - n), []).
Proof. intros. apply tie_dadvance; auto. Qed.
Print Assumptions K_detached_advance.

Theorem K_next_chunk :
  forall len succ ix ca n : nat, ix < len -> succ < len -> len + len < usize_max -> n <= len ->
  let '(h, t) := chunk len ix n in
  exists w, run (g_next_chunk_cond (mkE succ len) n) (mkL ix ca) = Some (w, mkL ix ca, []) /\
            run (g_next_chunk_mut_cond (mkE succ len) n) (mkL ix ca) = Some (w, mkL ix ca, []) /\
    (w = true -> run (g_next_chunk_head (mkE succ len) n) (mkL ix ca) = Some (h, mkL ix ca, []) /\
                 run (g_next_chunk_tail (mkE succ len) n) (mkL ix ca) = Some (t, mkL ix ca, []) /\
                 run (g_next_chunk_mut_head (mkE succ len) n) (mkL ix ca) = Some (h, mkL ix ca, []) /\
                 run (g_next_chunk_mut_tail (mkE succ len) n) (mkL ix ca) = Some (t, mkL ix ca, [])) /\
    (w = false -> run (g_next_chunk_nowrap (mkE succ len) n) (mkL ix ca) = Some (h, mkL ix ca, []) /\
                  run (g_next_chunk_mut_nowrap (mkE succ len) n) (mkL ix ca) = Some (h, mkL ix ca, []) /\ t = 0).
Proof. intros. apply tie_next_chunk; auto. Qed.
Print Assumptions K_next_chunk.

Theorem K_extractor_clean : Kernels.extractor_clean = true.
Proof. reflexivity. Qed.
Print Assumptions K_extractor_clean.

(** the thread-local arithmetic of the release/acquire machines (Conc/RAn, RA3n, RAx) IS the translated source arithmetic: request gate =
    [check] + [_available] on the value read, publication = [advance] incl. the value stored, reset / detached advance / sync likewise *)
Require MRB.Conc.MachineTie.
Theorem KTie_machine_is_source_arithmetic :
  forall (len : nat) (script : list (bool * nat * nat)), 0 < len -> len + len < KernelM.usize_max -> let c := RAn.exec_n len (RAn.init_n len) script in (forall j n0 : nat, RAn.pc (RAn.P c) = 0 -> KernelM.run (Kernels.g_check {| KernelM.e_succ := RA.mval (MachineTie.msgP c j); KernelM.e_len := len |} (Kernels.g_prod_available {| KernelM.e_succ := RA.mval (MachineTie.msgP c j); KernelM.e_len := len |}) (PeanoNat.Nat.max 1 n0)) {| KernelM.l_index := RAn.ix (RAn.P c); KernelM.l_cached := RAn.ca (RAn.P c) |} = Some (PeanoNat.Nat.eqb (RAn.pc (RAn.P (RAn.stepP_a true len j n0 c))) 2, {| KernelM.l_index := RAn.ix (RAn.P (RAn.stepP_a true len j n0 c)); KernelM.l_cached := RAn.ca (RAn.P (RAn.stepP_a true len j n0 c)) |}, nil)) /\ (forall j n0 : nat, RAn.pc (RAn.C c) = 0 -> KernelM.run (Kernels.g_check {| KernelM.e_succ := RA.mval (MachineTie.msgC c j); KernelM.e_len := len |} (Kernels.g_cons_available {| KernelM.e_succ := RA.mval (MachineTie.msgC c j); KernelM.e_len := len |}) (PeanoNat.Nat.max 1 n0)) {| KernelM.l_index := RAn.ix (RAn.C c); KernelM.l_cached := RAn.ca (RAn.C c) |} = Some (PeanoNat.Nat.eqb (RAn.pc (RAn.C (RAn.stepC_a true len j n0 c))) 2, {| KernelM.l_index := RAn.ix (RAn.C (RAn.stepC_a true len j n0 c)); KernelM.l_cached := RAn.ca (RAn.C (RAn.stepC_a true len j n0 c)) |}, nil)) /\ (forall j n0 succ : nat, RAn.pc (RAn.P c) = 3 -> succ < len -> KernelM.run (Kernels.g_advance {| KernelM.e_succ := succ; KernelM.e_len := len |} (RAn.cnt (RAn.P c))) {| KernelM.l_index := RAn.ix (RAn.P c); KernelM.l_cached := RAn.ca (RAn.P c) |} = Some (tt, {| KernelM.l_index := RAn.ix (RAn.P (RAn.stepP_a true len j n0 c)); KernelM.l_cached := RAn.ca (RAn.P (RAn.stepP_a true len j n0 c)) |}, (RA.mval (List.last (RAn.Mpi (RAn.stepP_a true len j n0 c)) RA.dmsg) :: nil)%list)) /\ (forall j n0 succ : nat, RAn.pc (RAn.C c) = 3 -> succ < len -> KernelM.run (Kernels.g_advance {| KernelM.e_succ := succ; KernelM.e_len := len |} (RAn.cnt (RAn.C c))) {| KernelM.l_index := RAn.ix (RAn.C c); KernelM.l_cached := RAn.ca (RAn.C c) |} = Some (tt, {| KernelM.l_index := RAn.ix (RAn.C (RAn.stepC_a true len j n0 c)); KernelM.l_cached := RAn.ca (RAn.C (RAn.stepC_a true len j n0 c)) |}, (RA.mval (List.last (RAn.Mci (RAn.stepC_a true len j n0 c)) RA.dmsg) :: nil)%list)).
Proof. exact MachineTie.machine_is_source_arithmetic. Qed.
Print Assumptions KTie_machine_is_source_arithmetic.

Theorem KTie_machine_check_worker :
  forall (acqW : bool) (len : nat), len + len < KernelM.usize_max -> forall (c : RA3n.cfg3n) (j n0 : nat), RA3n.pc3 (RA3n.W3 c) = 0 -> RA3n.ix3 (RA3n.W3 c) < len -> RA3.mval3 (MachineTie.msgW c j) < len -> let t := RA3n.W3 c in let t' := RA3n.W3 (RA3n.stepW3_a acqW len j n0 c) in KernelM.run (Kernels.g_check {| KernelM.e_succ := RA3.mval3 (MachineTie.msgW c j); KernelM.e_len := len |} (Kernels.g_work_available {| KernelM.e_succ := RA3.mval3 (MachineTie.msgW c j); KernelM.e_len := len |}) (PeanoNat.Nat.max 1 n0)) {| KernelM.l_index := RA3n.ix3 t; KernelM.l_cached := RA3n.ca3 t |} = Some (PeanoNat.Nat.eqb (RA3n.pc3 t') 2, {| KernelM.l_index := RA3n.ix3 t'; KernelM.l_cached := RA3n.ca3 t' |}, nil).
Proof. exact MachineTie.machine_check_W. Qed.
Print Assumptions KTie_machine_check_worker.

Theorem KTie_machine_reset_attached :
  forall (acqC : bool) (len : nat) (c : RAx.cfg_x) (j j' n' : nat), RAx.pc (RAx.C c) = 0 -> RAx.det (RAx.C c) = false -> let c2 := RAx.opC_a acqC len j' n' (RAx.resetC_a acqC j c) in KernelM.run (Kernels.g_cons_reset {| KernelM.e_succ := RA.mval (MachineTie.msgXC c j); KernelM.e_len := len |}) {| KernelM.l_index := RAx.ix (RAx.C c); KernelM.l_cached := RAx.ca (RAx.C c) |} = Some (tt, {| KernelM.l_index := RAx.ix (RAx.C c2); KernelM.l_cached := RAx.ca (RAx.C c2) |}, (RA.mval (List.last (RAx.Mci c2) RA.dmsg) :: nil)%list).
Proof. exact MachineTie.machine_reset_attached. Qed.
Print Assumptions KTie_machine_reset_attached.

Theorem KTie_machine_reset_detached :
  forall (acqC : bool) (len : nat) (c : RAx.cfg_x) (j j' n' : nat), RAx.pc (RAx.C c) = 0 -> RAx.det (RAx.C c) = true -> let c2 := RAx.opC_a acqC len j' n' (RAx.resetC_a acqC j c) in KernelM.run (Kernels.g_dreset {| KernelM.e_succ := RA.mval (MachineTie.msgXC c j); KernelM.e_len := len |}) {| KernelM.l_index := RAx.ix (RAx.C c); KernelM.l_cached := RAx.ca (RAx.C c) |} = Some (tt, {| KernelM.l_index := RAx.ix (RAx.C c2); KernelM.l_cached := RAx.ca (RAx.C c2) |}, nil) /\ RAx.Mci c2 = RAx.Mci c.
Proof. exact MachineTie.machine_reset_detached. Qed.
Print Assumptions KTie_machine_reset_detached.

Theorem KTie_machine_advance_detached :
  forall (acqC : bool) (len : nat) (c : RAx.cfg_x) (j n0 succ : nat), RAx.pc (RAx.C c) = 3 -> RAx.det (RAx.C c) = true -> RAx.ix (RAx.C c) < len -> succ < len -> len + len < KernelM.usize_max -> RAx.cnt (RAx.C c) <= len -> let c2 := RAx.opC_a acqC len j n0 c in KernelM.run (Kernels.g_dadvance {| KernelM.e_succ := succ; KernelM.e_len := len |} (RAx.cnt (RAx.C c))) {| KernelM.l_index := RAx.ix (RAx.C c); KernelM.l_cached := RAx.ca (RAx.C c) |} = Some (tt, {| KernelM.l_index := RAx.ix (RAx.C c2); KernelM.l_cached := RAx.ca (RAx.C c2) |}, nil) /\ RAx.Mci c2 = RAx.Mci c.
Proof. exact MachineTie.machine_advance_detached. Qed.
Print Assumptions KTie_machine_advance_detached.

Theorem KTie_machine_sync :
  forall (acqC : bool) (len : nat) (c : RAx.cfg_x) (succ : nat), RAx.pc (RAx.C c) = 0 -> let c2 := RAx.stepC_a acqC len RAx.Sync c in let c3 := RAx.stepC_a acqC len RAx.Attach c in KernelM.run (Kernels.g_sync_index {| KernelM.e_succ := succ; KernelM.e_len := len |}) {| KernelM.l_index := RAx.ix (RAx.C c); KernelM.l_cached := RAx.ca (RAx.C c) |} = Some (tt, {| KernelM.l_index := RAx.ix (RAx.C c2); KernelM.l_cached := RAx.ca (RAx.C c2) |}, (RA.mval (List.last (RAx.Mci c2) RA.dmsg) :: nil)%list) /\ KernelM.run (Kernels.g_sync_index {| KernelM.e_succ := succ; KernelM.e_len := len |}) {| KernelM.l_index := RAx.ix (RAx.C c); KernelM.l_cached := RAx.ca (RAx.C c) |} = Some (tt, {| KernelM.l_index := RAx.ix (RAx.C c3); KernelM.l_cached := RAx.ca (RAx.C c3) |}, (RA.mval (List.last (RAx.Mci c3) RA.dmsg) :: nil)%list).
Proof. exact MachineTie.machine_sync. Qed.
Print Assumptions KTie_machine_sync.

