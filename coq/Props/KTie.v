(** * K-tie: the arithmetic kernels translated from the Rust source on every run equal the Model's, for all inputs.
    Statements closed by [exact]. Part of the obligations of C01 C04 C05 C06 C11 C12. *)
From Coq Require Import List Arith Bool Lia.
Import ListNotations.
Require Import MRB.Base.Ring MRB.Model.Types MRB.Model.Seq MRB.Model.KernelM MRB.gen.Kernels MRB.Proofs.KernelTie.

Theorem K_available :
  forall len succ ix ca : nat, ix < len -> succ < len -> len + len < usize_max ->
  run (g_prod_available (mkE succ len)) (mkL ix ca) = Some (pavail len ix succ, mkL ix (pavail len ix succ), []) /\
  run (g_work_available (mkE succ len)) (mkL ix ca) = Some (dist len ix succ, mkL ix (dist len ix succ), []) /\
  run (g_cons_available (mkE succ len)) (mkL ix ca) = Some (dist len ix succ, mkL ix (dist len ix succ), []).
Proof. intros. repeat split; [apply tie_prod_available | apply tie_work_available | apply tie_cons_available]; auto. Qed.
Print Assumptions K_available.

Theorem K_advance :
  forall len succ ix ca n : nat, ix < len -> succ < len -> len + len < usize_max -> n <= len ->
  run (g_advance_local (mkE succ len) n) (mkL ix ca) = Some (tt, mkL (wadd len ix n) (ca - n), []) /\
  run (g_advance (mkE succ len) n) (mkL ix ca) = Some (tt, mkL (wadd len ix n) (ca - n), [wadd len ix n]).
Proof. intros. split; [apply tie_advance_local | apply tie_advance]; auto. Qed.
Print Assumptions K_advance.

Theorem K_check :
  forall len succ ix ca n : nat, ix < len -> succ < len -> len + len < usize_max ->
  run (g_check (mkE succ len) (g_prod_available (mkE succ len)) n) (mkL ix ca) =
    Some (if n <=? ca then true else n <=? pavail len ix succ, if n <=? ca then mkL ix ca else mkL ix (pavail len ix succ), []) /\
  run (g_check (mkE succ len) (g_cons_available (mkE succ len)) n) (mkL ix ca) =
    Some (if n <=? ca then true else n <=? dist len ix succ, if n <=? ca then mkL ix ca else mkL ix (dist len ix succ), []).
Proof. intros. split; [apply tie_check_prod | apply tie_check_cons]; auto. Qed.
Print Assumptions K_check.

Theorem K_reset_and_detached :
  forall len succ ix ca : nat,
  (run (g_cons_reset (mkE succ len)) (mkL ix ca) = Some (tt, mkL succ 0, [succ]) /\
   run (g_work_reset (mkE succ len)) (mkL ix ca) = Some (tt, mkL succ 0, [succ])) /\
  (forall i, run (g_set_index (mkE succ len) i) (mkL ix ca) = Some (tt, mkL i 0, [])) /\
  run (g_dreset (mkE succ len)) (mkL ix ca) = Some (tt, mkL succ 0, []) /\
  (run (g_sync_index (mkE succ len)) (mkL ix ca) = Some (tt, mkL ix ca, [ix]) /\
   run (g_sync_index_async (mkE succ len)) (mkL ix ca) = Some (tt, mkL ix ca, [ix])).
Proof. intros. repeat split; reflexivity. Qed.
Print Assumptions K_reset_and_detached.

Theorem K_go_back :
  forall len succ ix ca n : nat, ix < len -> succ < len -> len + len < usize_max -> n <= len -> ca + n < usize_max ->
  run (g_go_back (mkE succ len) n) (mkL ix ca) = Some (tt, mkL (wsub len ix n) (ca + n), []) /\
  run (g_go_back_async (mkE succ len) n) (mkL ix ca) = Some (tt, mkL (wsub len ix n) (ca + n), []).
Proof. intros. apply tie_go_back; auto. Qed.
Print Assumptions K_go_back.

Theorem K_detached_advance :
  forall len succ ix ca n : nat, ix < len -> succ < len -> len + len < usize_max -> n <= len ->
  run (g_dadvance (mkE succ len) n) (mkL ix ca) = Some (tt, mkL (wadd len ix n) (ca - n), []) /\
  run (g_dadvance_async (mkE succ len) n) (mkL ix ca) = Some (tt, mkL (wadd len ix n) (ca - n), []).
Proof. intros. apply tie_dadvance; auto. Qed.
Print Assumptions K_detached_advance.

Theorem K_next_chunk :
  forall len succ ix ca n : nat, ix < len -> succ < len -> len + len < usize_max -> n <= len ->
  let '(h, t) := chunk len ix n in
  exists w, run (g_next_chunk_cond (mkE succ len) n) (mkL ix ca) = Some (w, mkL ix ca, []) /\
            run (g_next_chunk_mut_cond (mkE succ len) n) (mkL ix ca) = Some (w, mkL ix ca, []) /\
    (w = true -> run (g_next_chunk_head (mkE succ len) n) (mkL ix ca) = Some (h, mkL ix ca, []) /\
                 run (g_next_chunk_tail (mkE succ len) n) (mkL ix ca) = Some (t, mkL ix ca, []) /\
                 run (g_next_chunk_mut_head (mkE succ len) n) (mkL ix ca) = Some (h, mkL ix ca, []) /\
                 run (g_next_chunk_mut_tail (mkE succ len) n) (mkL ix ca) = Some (t, mkL ix ca, [])) /\
    (w = false -> run (g_next_chunk_nowrap (mkE succ len) n) (mkL ix ca) = Some (h, mkL ix ca, []) /\
                  run (g_next_chunk_mut_nowrap (mkE succ len) n) (mkL ix ca) = Some (h, mkL ix ca, []) /\ t = 0).
Proof. intros. apply tie_next_chunk; auto. Qed.
Print Assumptions K_next_chunk.

Theorem K_extractor_clean : Kernels.extractor_clean = true.
Proof. reflexivity. Qed.
Print Assumptions K_extractor_clean.
