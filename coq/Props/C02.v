(** * C02: Concurrent pipeline: the consumed sequence is always a prefix of the produced one
    Proved for the three-stage release/acquire view machine (Conc/RA3.v + Conc/RA3values.v): for every length, every pushed
    sequence [pv], every worker transformation [f], every interleaving at atomic-access granularity and every admissible stale
    read, the consumer's log is at every moment [f (pv len); f (pv (len+1)); ...] up to the number of reads it has made.
    PARTIAL: single-slot operations (slice and detached forms are covered by the sequential refinement, the event-trace
    correspondence and the scripted executions); C11 conformance of compiler/CPU assumed. *)
From Coq Require Import List Arith Bool Lia.
Import ListNotations.
Require Import MRB.Model.Trace MRB.Conc.RA MRB.Conc.RA3 MRB.Conc.RA3proof MRB.Conc.RA3values MRB.Proofs.ConcClosing MRB.gen.Profile.

Theorem C02_prefix :
  forall (len : nat) (pv f init : nat -> nat) (script : list (tid * nat)), 0 < len ->
  let '(c, v) := vexec len pv f (init3 len) (vinit0 len init) script in
  clog v = map (fun p => f (pv p)) (seq len (done (C3 c) - len)) /\ race3 c = false.
Proof. exact RA3values.consumed_is_prefix. Qed.
Print Assumptions C02_prefix.

(** the value layer is a faithful extension: its machine component is the machine of the race-freedom theorem *)
Theorem C02_same_machine :
  forall (len : nat) (pv f : nat -> nat) (script : list (tid * nat)) (c : cfg3) (v : vst),
  fst (vexec len pv f c v script) = exec3 len c script.
Proof. intros. apply RA3values.vexec_fst. Qed.
Print Assumptions C02_same_machine.

Theorem C02_observed_ok : profile_ok Profile.observed = true /\ Profile.extractor_clean = true.
Proof. vm_compute. split; reflexivity. Qed.

(** non-vacuity: a concrete execution with a stale read in which the consumer has read two transformed items *)
Example C02_example :
  let '(c, v) := vexec 3 (fun p => 10 * p) (fun x => x + 1) (init3 3) (vinit0 3 (fun _ => 0))
      [(TP,0);(TP,0);(TP,0);(TP,0);(TP,0);(TP,0);(TW,9);(TW,0);(TW,0);(TC,1);(TC,0);(TC,0);(TW,0);(TW,0);(TW,0);(TC,0);(TC,9);(TC,0);(TC,0)] in
  clog v = [31; 41].
Proof. vm_compute. reflexivity. Qed.
