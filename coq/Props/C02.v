(** * C02: Concurrent pipeline: the consumed sequence is always a prefix of the produced one
    Proved for the three-stage release/acquire view machine (Conc/RA3.v + Conc/RA3values.v): for every length, every pushed
    sequence [pv], every worker transformation [f], every interleaving at atomic-access granularity and every admissible stale
    read, the consumer's log is at every moment [f (pv len); f (pv (len+1)); ...] up to the number of reads it has made.
    Multi-slot (slice) operations: C02_prefix_slices; reset_index / detached consumer: C02_values_reset_detached ff.
    PARTIAL: detached worker / producer forms are covered by the sequential refinement, the event-trace
    correspondence and the scripted executions; C11 conformance of compiler/CPU assumed. *)
From Coq Require Import List Arith Bool Lia.
Import ListNotations.
Require Import MRB.Model.Trace MRB.Conc.RA MRB.Conc.RA3 MRB.Conc.RA3proof MRB.Conc.RA3values MRB.Proofs.ConcClosing MRB.gen.Profile.
From Coq Require Import Sorted.
Require MRB.Conc.RA3n MRB.Conc.RA3nvalues MRB.Conc.RAx MRB.Conc.RAxvalues.

Theorem C02_prefix :
  forall (len : nat) (pv f init : nat -> nat) (script : list (tid * nat)), 0 < len ->
  let '(c, v) := vexec len pv f (init3 len) (vinit0 len init) script in
  clog v = map (fun p => f (pv p)) (seq len (done (C3 c) - len)) /\ race3 c = false.
Proof. exact RA3values.consumed_is_prefix. Qed.
Print Assumptions C02_prefix.

(** the value layer is a faithful extension: its machine component is the machine of the race-freedom theorem *)
Theorem C02_same_machine :
  forall (len : nat) (pv f : nat -> nat) (script : list (tid * nat)) (c : cfg3) (v : vst),
  fst (vexec len pv f c v script) = exec3 len c script.
Proof. intros. apply RA3values.vexec_fst. Qed.
Print Assumptions C02_same_machine.

(** MULTI-SLOT windows (slice operations of any size; other threads interleave between the slot accesses of one call), three
    stages: at every moment - also in the middle of a window - the consumer's log is the prefix with the worker's edits *)
Theorem C02_prefix_slices :
  forall (len : nat) (pv f init : nat -> nat) (script : list (RA3.tid * nat * nat)), 0 < len ->
  let '(c, v) := RA3nvalues.vexec_n len pv f (RA3n.init3_n len) (RA3nvalues.vinit0 len init) script in
  c = RA3n.exec3_n len (RA3n.init3_n len) script /\
  RA3nvalues.clog v = map (fun p => f (pv p)) (seq len (RA3nvalues.consumed len c)) /\
  RA3n.race3 c = false.
Proof. exact RA3nvalues.consumed_is_prefix_n. Qed.
Print Assumptions C02_prefix_slices.

(** two stages with reset_index and a detached consumer: every value read is the value pushed at that position (never a stale,
    overwritten or not yet written slot), positions strictly increase and stay below what the producer published (nothing
    duplicated or reordered); without resets the log is exactly a prefix (nothing lost) *)
Theorem C02_values_reset_detached :
  forall (len : nat) (pv init : nat -> nat) (script : list (bool * RAx.cmd)), 0 < len ->
  let v := RAxvalues.vrun len pv init script in RAxvalues.clog v = map pv (RAxvalues.plog v).
Proof. exact RAxvalues.consumed_values_x. Qed.
Print Assumptions C02_values_reset_detached.

Theorem C02_positions_increasing :
  forall (len : nat) (pv init : nat -> nat) (script : list (bool * RAx.cmd)), 0 < len ->
  let c := RAx.exec_x len (RAx.init_x len) script in
  let v := RAxvalues.vrun len pv init script in
  StronglySorted lt (RAxvalues.plog v) /\ Forall (fun p => len <= p < RAx.publishedP c) (RAxvalues.plog v).
Proof. exact RAxvalues.consumed_positions_increasing_x. Qed.
Print Assumptions C02_positions_increasing.

Theorem C02_no_reset_prefix :
  forall (len : nat) (pv init : nat -> nat) (script : list (bool * RAx.cmd)), 0 < len ->
  (forall t j, ~ In (t, RAx.Reset j) script) ->
  let v := RAxvalues.vrun len pv init script in RAxvalues.plog v = seq len (length (RAxvalues.plog v)).
Proof. exact RAxvalues.no_reset_prefix_x. Qed.
Print Assumptions C02_no_reset_prefix.

Theorem C02_observed_ok : profile_ok Profile.observed = true /\ Profile.extractor_clean = true.
Proof. vm_compute. split; reflexivity. Qed.

(** non-vacuity: a concrete execution with a stale read in which the consumer has read two transformed items *)
Example C02_example :
  let '(c, v) := vexec 3 (fun p => 10 * p) (fun x => x + 1) (init3 3) (vinit0 3 (fun _ => 0))
      [(TP,0);(TP,0);(TP,0);(TP,0);(TP,0);(TP,0);(TW,9);(TW,0);(TW,0);(TC,1);(TC,0);(TC,0);(TW,0);(TW,0);(TW,0);(TC,0);(TC,9);(TC,0);(TC,0)] in
  clog v = [31; 41].
Proof. vm_compute. reflexivity. Qed.

(** JOINED CONSERVATION (second sentence of the property; Conc/ConcExtras.v): at every moment, and in particular once all threads are between
    operations, consumed ++ still-in-buffer (ring order, consumer to producer) = the accepted pushes, the worker's transformation applied
    exactly to the released ones *)
Require MRB.Conc.ConcExtras.
Theorem C02_conservation_any_time :
  forall (len : nat) (pv f init : nat -> nat) (script : list (RA3.tid * nat * nat)), 0 < len -> let '(c, v) := RA3nvalues.vexec_n len pv f (RA3n.init3_n len) (RA3nvalues.vinit0 len init) script in c = RA3n.exec3_n len (RA3n.init3_n len) script /\ (RA3nvalues.clog v ++ ConcExtras.ThreeStage.ring3 len v (RA3nvalues.fr (RA3n.C3 c)) (RA3nvalues.fr (RA3n.P3 c)))%list = List.map (ConcExtras.ThreeStage.item3 pv f (RA3nvalues.fr (RA3n.W3 c))) (List.seq len (RA3nvalues.fr (RA3n.P3 c) - len)).
Proof. exact ConcExtras.ThreeStage.conservation_3n_any_time. Qed.
Print Assumptions C02_conservation_any_time.

Theorem C02_joined_conservation :
  forall (len : nat) (pv f init : nat -> nat) (script : list (RA3.tid * nat * nat)), 0 < len -> let '(c, v) := RA3nvalues.vexec_n len pv f (RA3n.init3_n len) (RA3nvalues.vinit0 len init) script in RA3n.pc3 (RA3n.P3 c) = 0 -> RA3n.pc3 (RA3n.W3 c) = 0 -> RA3n.pc3 (RA3n.C3 c) = 0 -> (RA3nvalues.clog v ++ ConcExtras.ThreeStage.ring3 len v (RA3n.pos3 (RA3n.C3 c)) (RA3n.pos3 (RA3n.P3 c)))%list = List.map (ConcExtras.ThreeStage.item3 pv f (RA3n.pos3 (RA3n.W3 c))) (List.seq len (RA3n.pos3 (RA3n.P3 c) - len)).
Proof. exact ConcExtras.ThreeStage.joined_conservation_3n. Qed.
Print Assumptions C02_joined_conservation.

Theorem C02_joined_conservation_caught_up :
  forall (len : nat) (pv f init : nat -> nat) (script : list (RA3.tid * nat * nat)), 0 < len -> let '(c, v) := RA3nvalues.vexec_n len pv f (RA3n.init3_n len) (RA3nvalues.vinit0 len init) script in RA3n.pc3 (RA3n.P3 c) = 0 -> RA3n.pc3 (RA3n.W3 c) = 0 -> RA3n.pc3 (RA3n.C3 c) = 0 -> RA3n.pos3 (RA3n.W3 c) = RA3n.pos3 (RA3n.P3 c) -> (RA3nvalues.clog v ++ ConcExtras.ThreeStage.ring3 len v (RA3n.pos3 (RA3n.C3 c)) (RA3n.pos3 (RA3n.P3 c)))%list = List.map (fun p : nat => f (pv p)) (List.seq len (RA3n.pos3 (RA3n.P3 c) - len)).
Proof. exact ConcExtras.ThreeStage.joined_conservation_3n_caught_up. Qed.
Print Assumptions C02_joined_conservation_caught_up.

Theorem C02_joined_conservation_detached :
  forall (len : nat) (pv init : nat -> nat) (script : list (bool * RAx.cmd)), 0 < len -> (forall j : nat, ~ List.In (false, RAx.Reset j) script) -> let c := RAx.exec_x len (RAx.init_x len) script in let v := RAxvalues.vrun len pv init script in RAx.pc (RAx.P c) = 0 -> RAx.pc (RAx.C c) = 0 -> (RAxvalues.clog v ++ ConcExtras.Extended.ringx len v (RAx.pos (RAx.C c)) (RAx.pos (RAx.P c)))%list = List.map pv (List.seq len (RAx.pos (RAx.P c) - len)).
Proof. exact ConcExtras.Extended.joined_conservation_x. Qed.
Print Assumptions C02_joined_conservation_detached.

(** THREE stages with reset_index / detach / sync_index / attach on worker and consumer (Conc/RA3xvalues.v): every value the consumer gets is the
    pushed value, transformed exactly once iff the worker touched that position (never if the worker skipped it by reset_index), positions strictly
    increase and stay below the worker's PUBLISHED position; without resets: exactly the prefix, everything transformed; the worker never edits a
    position the consumer has read or could read *)
Require MRB.Conc.RA3xvalues.
Theorem C02_values_three_stages_reset_detached :
  forall (len : nat) (pv f init : nat -> nat) (script : list (RA3.tid * RA3x.cmd)), 0 < len -> let v := RA3xvalues.vrun len pv f init script in RA3xvalues.clog v = List.map (fun p : nat => if List.existsb (PeanoNat.Nat.eqb p) (RA3xvalues.wlog v) then f (pv p) else pv p) (RA3xvalues.plog v).
Proof. exact RA3xvalues.consumed_values_3x. Qed.
Print Assumptions C02_values_three_stages_reset_detached.

Theorem C02_positions_three_stages_reset_detached :
  forall (len : nat) (pv f init : nat -> nat) (script : list (RA3.tid * RA3x.cmd)), 0 < len -> let c := RA3x.exec3_x len (RA3x.init3_x len) script in let v := RA3xvalues.vrun len pv f init script in Sorted.StronglySorted lt (RA3xvalues.plog v) /\ List.Forall (fun p : nat => len <= p < RA3x.publishedW3 c) (RA3xvalues.plog v) /\ Sorted.StronglySorted lt (RA3xvalues.wlog v) /\ List.Forall (fun p : nat => len <= p < RA3x.publishedP3 c) (RA3xvalues.wlog v).
Proof. exact RA3xvalues.consumed_positions_increasing_3x. Qed.
Print Assumptions C02_positions_three_stages_reset_detached.

Theorem C02_no_reset_prefix_three_stages :
  forall (len : nat) (pv f init : nat -> nat) (script : list (RA3.tid * RA3x.cmd)), 0 < len -> (forall (t : RA3.tid) (j : nat), ~ List.In (t, RA3x.Reset j) script) -> let v := RA3xvalues.vrun len pv f init script in RA3xvalues.plog v = List.seq len (length (RA3xvalues.plog v)) /\ RA3xvalues.wlog v = List.seq len (length (RA3xvalues.wlog v)) /\ RA3xvalues.clog v = List.map (fun p : nat => f (pv p)) (RA3xvalues.plog v).
Proof. exact RA3xvalues.no_reset_prefix_3x. Qed.
Print Assumptions C02_no_reset_prefix_three_stages.

Theorem C02_edit_status_frozen :
  forall (len : nat) (pv f init : nat -> nat) (s1 s2 : list (RA3.tid * RA3x.cmd)), 0 < len -> let c1 := RA3x.exec3_x len (RA3x.init3_x len) s1 in let v1 := RA3xvalues.vrun len pv f init s1 in let v2 := RA3xvalues.vrun len pv f init (s1 ++ s2) in (exists l : list nat, RA3xvalues.wlog v2 = (RA3xvalues.wlog v1 ++ l)%list /\ List.Forall (fun p : nat => RA3x.pos3 (RA3x.W3 c1) + RA3x.off3 (RA3x.W3 c1) <= p) l) /\ (exists l : list nat, RA3xvalues.plog v2 = (RA3xvalues.plog v1 ++ l)%list) /\ (exists l : list nat, RA3xvalues.clog v2 = (RA3xvalues.clog v1 ++ l)%list) /\ (forall p : nat, p < RA3x.pos3 (RA3x.W3 c1) + RA3x.off3 (RA3x.W3 c1) -> List.existsb (PeanoNat.Nat.eqb p) (RA3xvalues.wlog v2) = List.existsb (PeanoNat.Nat.eqb p) (RA3xvalues.wlog v1)) /\ RA3x.publishedW3 c1 <= RA3x.pos3 (RA3x.W3 c1) + RA3x.off3 (RA3x.W3 c1) /\ List.Forall (fun p : nat => p < RA3x.publishedW3 c1) (RA3xvalues.plog v1).
Proof. exact RA3xvalues.edit_status_frozen_3x. Qed.
Print Assumptions C02_edit_status_frozen.

