(** * C14: Polling an async op equals one synchronous attempt; Pending has no effect
    Only statements closed by [exact]; proofs live in Proofs/AsyncFacts.v. *)
From Coq Require Import List Arith NArith Bool Lia.
Import ListNotations.
Require Import MRB.Base.Ring MRB.Base.ListAux MRB.Model.Types MRB.Model.Seq MRB.Spec.Pipe MRB.Model.Async.
Require Import MRB.Proofs.Rel MRB.Proofs.Refine MRB.Proofs.AsyncFacts.

Theorem C14_ready :
  forall (s : Async.astate) (a : Pipe.pipe) (k : Types.stage) (o : Types.op), Rel.Rel (Async.base s) a -> Pipe.ok_op a o = true -> Async.refused (fst (snd (Seq.step (Async.base s) o))) = false -> Async.poll k o s = (Async.set_base (fst (Seq.step (Async.base s) o)) s, snd (Seq.step (Async.base s) o)) /\ Rel.Rel (fst (Seq.step (Async.base s) o)) (fst (Pipe.sstep a o)) /\ snd (Seq.step (Async.base s) o) = snd (Pipe.sstep a o).
Proof. exact AsyncFacts.poll_ready. Qed.
Print Assumptions C14_ready.

Theorem C14_pending_noop :
  forall (s : Async.astate) (a : Pipe.pipe) (k : Types.stage) (o : Types.op), Rel.Rel (Async.base s) a -> Pipe.ok_op a o = true -> Async.refused (fst (snd (Seq.step (Async.base s) o))) = true -> exists m2 : Seq.mstate, Async.poll k o s = (Async.register k (Async.set_base m2 s), (Types.OPending, nil)) /\ Rel.Rel m2 a /\ Pipe.sstep a o = (a, (fst (snd (Pipe.sstep a o)), nil)) /\ Types.tget k (Async.wk (fst (Async.poll k o s))) = Some (Async.task s) /\ Async.held (fst (Async.poll k o s)) = Async.held s.
Proof. exact AsyncFacts.poll_pending. Qed.
Print Assumptions C14_pending_noop.

Theorem C14_same_buffer :
  forall (m m' : Seq.mstate) (a : Pipe.pipe), Rel.Rel m a -> Rel.Rel m' a -> Seq.pub m = Seq.pub m' /\ Seq.slots m = Seq.slots m' /\ Seq.flag m = Seq.flag m' /\ Seq.freed m = Seq.freed m' /\ (forall j : Types.stage, Types.tget j (Pipe.shere a) = true -> Seq.ix (Seq.it_of j m) = Seq.ix (Seq.it_of j m') /\ Seq.det (Seq.it_of j m) = Seq.det (Seq.it_of j m')).
Proof. exact AsyncFacts.same_spec_same_buffer. Qed.
Print Assumptions C14_same_buffer.

Theorem C14_refused_spec_noop :
  forall (a : Pipe.pipe) (o : Types.op), Async.refused (fst (snd (Pipe.sstep a o))) = true -> Pipe.sstep a o = (a, (fst (snd (Pipe.sstep a o)), nil)).
Proof. exact AsyncFacts.sstep_refused_same. Qed.
Print Assumptions C14_refused_spec_noop.

(** non-vacuity: a push future on a full buffer is Pending, keeps its value (no ledger event), and completes - storing the
    value exactly once - when polled again after the consumer made room *)
Definition c14_cfg := mkConfig [1;2;3]%N false true true.
Definition c14_hist : list aop := [APoll (Push 10); APoll (Push 11); AHold (Push 12); ARepoll P; APoll PopMove; ARepoll P; APoll PopMove]%N.
Example C14_example :
  match init c14_cfg with
  | Some m => map (fun x => (fst x, snd x)) (snd (arun (a_init_state m) c14_hist)) =
      [(OOk, [LDrop 1; LTake 10]); (OOk, [LDrop 2; LTake 11]); (OPending, []); (OPending, []); (OVal 10, [LGive 10]);
       (OOk, [LDrop 3; LTake 12]); (OVal 11, [LGive 11])]%N
  | None => False
  end.
Proof. vm_compute. reflexivity. Qed.
