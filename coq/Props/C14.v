(** * C14: Polling an async op equals one synchronous attempt; Pending has no effect
    Only statements closed by [exact]; proofs live in Proofs/AsyncFacts.v. *)
From Coq Require Import List Arith NArith Bool Lia.
Import ListNotations.
Require Import MRB.Base.Ring MRB.Base.ListAux MRB.Model.Types MRB.Model.Seq MRB.Spec.Pipe MRB.Model.Async.
Require Import MRB.Proofs.Rel MRB.Proofs.Refine MRB.Proofs.AsyncFacts.

Theorem C14_ready :
  forall (s : Async.astate) (a : Pipe.pipe) (k : Types.stage) (o : Types.op), Rel.Rel (Async.base s) a -> Pipe.ok_op a o = true -> Async.refused (fst (snd (Seq.step (Async.base s) o))) = false -> Async.poll k o s = (Async.set_base (fst (Seq.step (Async.base s) o)) s, snd (Seq.step (Async.base s) o)) /\ Rel.Rel (fst (Seq.step (Async.base s) o)) (fst (Pipe.sstep a o)) /\ snd (Seq.step (Async.base s) o) = snd (Pipe.sstep a o).
Proof. exact AsyncFacts.poll_ready. Qed.
Print Assumptions C14_ready.

Theorem C14_pending_noop :
  forall (s : Async.astate) (a : Pipe.pipe) (k : Types.stage) (o : Types.op), Rel.Rel (Async.base s) a -> Pipe.ok_op a o = true -> Async.refused (fst (snd (Seq.step (Async.base s) o))) = true -> exists m2 : Seq.mstate, Async.poll k o s = (Async.register k (Async.set_base m2 s), (Types.OPending, nil)) /\ Rel.Rel m2 a /\ Pipe.sstep a o = (a, (fst (snd (Pipe.sstep a o)), nil)) /\ Types.tget k (Async.wk (fst (Async.poll k o s))) = Some (Async.task s) /\ Async.held (fst (Async.poll k o s)) = Async.held s.
Proof. exact AsyncFacts.poll_pending. Qed.
Print Assumptions C14_pending_noop.

Theorem C14_same_buffer :
  forall (m m' : Seq.mstate) (a : Pipe.pipe), Rel.Rel m a -> Rel.Rel m' a -> Seq.pub m = Seq.pub m' /\ Seq.slots m = Seq.slots m' /\ Seq.flag m = Seq.flag m' /\ Seq.freed m = Seq.freed m' /\ (forall j : Types.stage, Types.tget j (Pipe.shere a) = true -> Seq.ix (Seq.it_of j m) = Seq.ix (Seq.it_of j m') /\ Seq.det (Seq.it_of j m) = Seq.det (Seq.it_of j m')).
Proof. exact AsyncFacts.same_spec_same_buffer. Qed.
Print Assumptions C14_same_buffer.

Theorem C14_refused_spec_noop :
  forall (a : Pipe.pipe) (o : Types.op), Async.refused (fst (snd (Pipe.sstep a o))) = true -> Pipe.sstep a o = (a, (fst (snd (Pipe.sstep a o)), nil)).
Proof. exact AsyncFacts.sstep_refused_same. Qed.
Print Assumptions C14_refused_spec_noop.

(** non-vacuity: a push future on a full buffer is Pending, keeps its value (no ledger event), and completes - storing the
    value exactly once - when polled again after the consumer made room *)
Definition c14_cfg := mkConfig [1;2;3]%N false true true.
Definition c14_hist : list aop := [APoll (Push 10); APoll (Push 11); AHold (Push 12); ARepoll P; APoll PopMove; ARepoll P; APoll PopMove]%N.
Example C14_example :
  match init c14_cfg with
  | Some m => map (fun x => (fst x, snd x)) (snd (arun (a_init_state m) c14_hist)) =
      [(OOk, [LDrop 1; LTake 10]); (OOk, [LDrop 2; LTake 11]); (OPending, []); (OPending, []); (OVal 10, [LGive 10]);
       (OOk, [LDrop 3; LTake 12]); (OVal 11, [LGive 11])]%N
  | None => False
  end.
Proof. vm_compute. reflexivity. Qed.

(** WHOLE ASYNC HISTORIES (Proofs/AsyncRefine.v): an async history is observationally the synchronous history of its resolving polls;
    a pending push is stored exactly once, at the poll that resolves, with its value - or never if the future is dropped *)
Require MRB.Proofs.AsyncRefine.
Theorem C14_history_refines :
  forall (h : list Async.aop) (s : Async.astate) (a : Pipe.pipe), Rel.Rel (Async.base s) a -> snd (Pipe.srun a (AsyncRefine.erase s h)) = true -> Rel.Rel (Async.base (fst (Async.arun s h))) (fst (fst (Pipe.srun a (AsyncRefine.erase s h)))) /\ AsyncRefine.obs s h = snd (fst (Pipe.srun a (AsyncRefine.erase s h))) /\ AsyncRefine.ledger (snd (Async.arun s h)) = AsyncRefine.ledger (snd (fst (Pipe.srun a (AsyncRefine.erase s h)))).
Proof. exact AsyncRefine.async_refines. Qed.
Print Assumptions C14_history_refines.

Theorem C14_history_is_sync :
  forall (h : list Async.aop) (s : Async.astate) (a : Pipe.pipe), Rel.Rel (Async.base s) a -> snd (Pipe.srun a (AsyncRefine.erase s h)) = true -> let m_async := Async.base (fst (Async.arun s h)) in let m_sync := fst (Seq.run (Async.base s) (AsyncRefine.erase s h)) in AsyncRefine.obs s h = snd (Seq.run (Async.base s) (AsyncRefine.erase s h)) /\ AsyncRefine.ledger (snd (Async.arun s h)) = AsyncRefine.ledger (snd (Seq.run (Async.base s) (AsyncRefine.erase s h))) /\ Seq.pub m_async = Seq.pub m_sync /\ Seq.slots m_async = Seq.slots m_sync /\ Seq.flag m_async = Seq.flag m_sync /\ Seq.freed m_async = Seq.freed m_sync /\ (forall j : Types.stage, Seq.here (Seq.it_of j m_async) = Seq.here (Seq.it_of j m_sync)) /\ (forall j : Types.stage, Seq.here (Seq.it_of j m_async) = true -> Seq.ix (Seq.it_of j m_async) = Seq.ix (Seq.it_of j m_sync) /\ Seq.det (Seq.it_of j m_async) = Seq.det (Seq.it_of j m_sync)).
Proof. exact AsyncRefine.async_is_sync. Qed.
Print Assumptions C14_history_is_sync.

Theorem C14_held_value_kept :
  forall (v : BinNums.N) (s : Async.astate) (h1 h2 : list Async.aop), let s1 := fst (Async.astep s (Async.AHold (Types.Push v))) in fst (snd (Async.astep s (Async.AHold (Types.Push v)))) = Types.OPending -> AsyncRefine.kept Types.P s1 (h1 ++ h2) = true -> Types.tget Types.P (Async.held s1) = Some (Types.Push v) /\ Types.tget Types.P (Async.held (fst (Async.arun s1 h1))) = Some (Types.Push v) /\ Types.tget Types.P (Async.held (fst (Async.arun s (Async.AHold (Types.Push v) :: h1)))) = Some (Types.Push v) /\ AsyncRefine.attempt (fst (Async.arun s1 h1)) (Async.ARepoll Types.P) = Some (Types.Push v).
Proof. exact AsyncRefine.held_value_kept. Qed.
Print Assumptions C14_held_value_kept.

Theorem C14_pending_push_stored_once :
  forall (v : BinNums.N) (s : Async.astate) (mid : list Async.aop), let s1 := fst (Async.astep s (Async.AHold (Types.Push v))) in let s2 := fst (Async.arun s1 mid) in AsyncRefine.held_wf s -> fst (snd (Async.astep s (Async.AHold (Types.Push v)))) = Types.OPending -> AsyncRefine.kept Types.P s1 mid = true -> AsyncRefine.visible (fst (snd (Async.astep s2 (Async.ARepoll Types.P)))) = true -> AsyncRefine.erase s (Async.AHold (Types.Push v) :: mid ++ Async.ARepoll Types.P :: nil) = (AsyncRefine.erase s1 mid ++ Types.Push v :: nil)%list /\ (forall g : Types.op, List.In g (AsyncRefine.erase s1 mid) -> Async.future_of g <> Some Types.P) /\ AsyncRefine.performed s2 (Async.ARepoll Types.P) = Some (Types.Push v) /\ Types.tget Types.P (Async.held (fst (Async.astep s2 (Async.ARepoll Types.P)))) = None.
Proof. exact AsyncRefine.pending_push_stored_once. Qed.
Print Assumptions C14_pending_push_stored_once.

Theorem C14_dropped_push_not_stored :
  forall (v : BinNums.N) (s : Async.astate) (mid : list Async.aop), let s1 := fst (Async.astep s (Async.AHold (Types.Push v))) in let s2 := fst (Async.arun s1 mid) in AsyncRefine.held_wf s -> fst (snd (Async.astep s (Async.AHold (Types.Push v)))) = Types.OPending -> AsyncRefine.kept Types.P s1 mid = true -> AsyncRefine.erase s (Async.AHold (Types.Push v) :: mid ++ Async.ADropFut Types.P :: nil) = AsyncRefine.erase s1 mid /\ (forall g : Types.op, List.In g (AsyncRefine.erase s1 mid) -> Async.future_of g <> Some Types.P) /\ Async.astep s2 (Async.ADropFut Types.P) = (Async.set_held Types.P None s2, (Types.OUnit, nil)) /\ Types.tget Types.P (Async.held (fst (Async.astep s2 (Async.ADropFut Types.P)))) = None.
Proof. exact AsyncRefine.dropped_push_not_stored. Qed.
Print Assumptions C14_dropped_push_not_stored.

Theorem C14_resolved_push_result :
  forall (v : BinNums.N) (s : Async.astate) (a : Pipe.pipe), Rel.Rel (Async.base s) a -> Types.tget Types.P (Async.held s) = Some (Types.Push v) -> AsyncRefine.visible (fst (snd (Async.astep s (Async.ARepoll Types.P)))) = true -> let s' := fst (Async.astep s (Async.ARepoll Types.P)) in let a' := fst (Pipe.sstep a (Types.Push v)) in Rel.Rel (Async.base s') a' /\ snd (Async.astep s (Async.ARepoll Types.P)) = (Types.OOk, Pipe.a_ev a (Seq.store_ev Seq.SAssign (Pipe.a_cell (Types.tP (Pipe.lpos a)) a) ++ Types.LTake v :: nil)) /\ List.nth (Types.tP (Pipe.lpos a)) (Pipe.tape a') BinNums.N0 = v /\ Types.tP (Pipe.lpos a') = Types.tP (Pipe.lpos a) + 1 /\ Types.tget Types.P (Async.held s') = None.
Proof. exact AsyncRefine.resolved_push_result. Qed.
Print Assumptions C14_resolved_push_result.

Theorem C14_completes_when_condition_true :
  forall (k : Types.stage) (f : Types.op) (s : Async.astate) (a : Pipe.pipe), Rel.Rel (Async.base s) a -> AsyncRefine.held_wf s -> Types.tget k (Async.held s) = Some f -> Async.refused (fst (snd (Pipe.sstep a f))) = false -> fst (snd (Async.astep s (Async.ARepoll k))) <> Types.OPending /\ snd (Async.astep s (Async.ARepoll k)) = snd (Pipe.sstep a f) /\ Rel.Rel (Async.base (fst (Async.astep s (Async.ARepoll k)))) (fst (Pipe.sstep a f)) /\ Types.tget k (Async.held (fst (Async.astep s (Async.ARepoll k)))) = None.
Proof. exact AsyncRefine.completes_when_condition_true. Qed.
Print Assumptions C14_completes_when_condition_true.

Theorem C14_pending_while_condition_false :
  forall (k : Types.stage) (f : Types.op) (s : Async.astate) (a : Pipe.pipe), Rel.Rel (Async.base s) a -> AsyncRefine.held_wf s -> Types.tget k (Async.held s) = Some f -> Async.refused (fst (snd (Pipe.sstep a f))) = true -> snd (Async.astep s (Async.ARepoll k)) = (Types.OPending, nil) /\ Rel.Rel (Async.base (fst (Async.astep s (Async.ARepoll k)))) a /\ Types.tget k (Async.held (fst (Async.astep s (Async.ARepoll k)))) = Some f.
Proof. exact AsyncRefine.pending_while_condition_false. Qed.
Print Assumptions C14_pending_while_condition_false.


(** P-tie: the body of [MRBFuture::poll], executed symbolically on every run for every sequence of attempt outcomes (gen/PollGen.v:
    which events - attempt of the stored operation, registration of the polling task's waker - happen in which order, how the poll
    ends; the by-reference and the by-value form must agree), is the Model's [poll] *)
Require MRB.Model.PollShape MRB.gen.PollGen.
Theorem C14_poll_is_source :
  PollGen.poll_clean = true /\
  forall (k : Types.stage) (o : Types.op) (s : Async.astate), PollShape.poll_by_shape PollGen.poll_shape k o s = Some (Async.poll k o s).
Proof. split; [exact AsyncFacts.poll_source_closed | exact AsyncFacts.poll_is_source_shape]. Qed.
Print Assumptions C14_poll_is_source.

(** every async method of the source (19: the four common ones, six of the producer, nine of the consumer; regenerated on every run):
    the operation its future attempts is exactly the synchronous method of the same name on the wrapped iterator, called with the
    future's own payload, stored in the slot (by reference / by value) the future's type announces *)
Theorem C14_async_methods_source :
  forallb (fun x => snd x) PollGen.async_methods = true /\ PollGen.async_clean = true /\ 19 <= length PollGen.async_methods.
Proof. vm_compute. repeat split; repeat constructor. Qed.
Print Assumptions C14_async_methods_source.

(** a poll during whose waker registration another stage acts ([Async.poll_inj], the "second attempt succeeds" branch of [poll]):
    against the Spec it is the injected operation (if that step performed one) followed by the polled operation (if the poll
    resolved) - same answer, same ledger, related states; the refused first attempt took, dropped, duplicated and stored nothing *)
Require MRB.Proofs.AsyncInj.
Theorem C14_poll_with_injected_step_refines :
  forall (s : Async.astate) (k : Types.stage) (o : Types.op) (d : Async.aop),
    Async.refused (fst (snd (Seq.step (Async.base s) o))) = true ->
    forall a : Pipe.pipe, Rel.Rel (Async.base s) a -> Async.future_of o = Some k ->
    let s1 := Async.register k (Async.set_base (fst (Seq.step (Async.base s) o)) s) in
    let g := AsyncRefine.performed s1 d in
    (forall f, g = Some f -> Pipe.ok_op a f = true) ->
    let a1 := match g with Some f => fst (Pipe.sstep a f) | None => a end in
    let l1 := match g with Some f => snd (snd (Pipe.sstep a f)) | None => nil end in
    let r := Async.poll_inj k o d s in
    let x := fst (snd (fst r)) in
    Async.refused x = false /\
    (AsyncRefine.visible x = true ->
       Rel.Rel (Async.base (fst (fst r))) (fst (Pipe.sstep a1 o)) /\ x = fst (snd (Pipe.sstep a1 o)) /\
       snd (snd (fst r)) = (l1 ++ snd (snd (Pipe.sstep a1 o)))%list) /\
    (AsyncRefine.visible x = false -> Rel.Rel (Async.base (fst (fst r))) a1 /\ snd (snd (fst r)) = l1).
Proof. intros s k o d H a R F. cbv zeta. intros OK. exact (AsyncInj.poll_inj_refines s k o d H a R F OK). Qed.
Print Assumptions C14_poll_with_injected_step_refines.
