(** * D-tie: the data-touching functions translated from the Rust source on every run (gen/DataFns.v, by tools/data_translate.py)
      do exactly what the Model's functions do - for all lengths, states, arguments - and never reach undefined behaviour.
      Statements closed by [exact].  Part of the obligations of C01 C05 C06 C08 C09.
      ([wf k s]: index and successor index below len, len cells, 2*len representable, remembered availability <= len; it holds in
      every state related to a Spec state, [DT_wf_reachable].) *)
From Coq Require Import List Arith NArith Bool Lia Permutation.
Import ListNotations.
Require Import MRB.Base.Ring MRB.Base.ListAux MRB.Model.Types MRB.Model.Seq MRB.Model.KernelM MRB.Model.DataM MRB.Spec.Pipe MRB.Proofs.Rel.
Require Import MRB.gen.Kernels MRB.gen.DataFns MRB.Proofs.KernelTie MRB.Proofs.DataTie MRB.Proofs.DataTieSlices MRB.Proofs.DataTieRel.

Theorem DT_source_translated : DataFns.data_clean = true.
Proof. exact data_closed. Qed.
Print Assumptions DT_source_translated.

Theorem DT_wf_reachable : forall m a k, Rel m a -> a_usable k a = true -> mlen m + mlen m < usize_max -> wf k m.
Proof. exact rel_wf. Qed.
Print Assumptions DT_wf_reachable.

(** single items: the pointer handed out is the cell at the local index, iff [check(1)] grants *)
Theorem DT_next_ref_forms : forall k s src out, wf k s ->
  (exists r d, drun (d_next_ref (denv_of k s src)) (view k s out) = Some (r, d) /\ grant_one_res k s out r d) /\
  (exists r d, drun (d_next_ref_mut (denv_of k s src)) (view k s out) = Some (r, d) /\ grant_one_res k s out r d) /\
  (exists r d, drun (d_next_ref_mut_init (denv_of k s src)) (view k s out) = Some (r, d) /\ grant_one_res k s out r d).
Proof. intros k s src out H. repeat split; [exact (tie_next_ref k s src out H) | exact (tie_next_ref_mut k s src out H) | exact (tie_next_ref_mut_init k s src out H)]. Qed.
Print Assumptions DT_next_ref_forms.

Theorem DT_single_item_wrappers : forall k s src out, wf k s ->
  (exists r d, drun (d_get_workable (denv_of k s src)) (view k s out) = Some (r, d) /\ grant_one_res k s out r d) /\
  (exists r d, drun (d_get_next_item_mut (denv_of k s src)) (view k s out) = Some (r, d) /\ grant_one_res k s out r d) /\
  (exists r d, drun (d_get_next_item_mut_init (denv_of k s src)) (view k s out) = Some (r, d) /\ grant_one_res k s out r d) /\
  (exists r d, drun (d_peek_ref (denv_of k s src)) (view k s out) = Some (r, d) /\ grant_one_res k s out r d).
Proof. exact tie_single_item_wrappers. Qed.
Print Assumptions DT_single_item_wrappers.

(** [pop_move] / [pop] (= [next] / [next_duplicate]): value, emptied cell, publication, ledger event *)
Theorem DT_pop : forall s src out, wf C s -> det (it_of C s) = false ->
  (exists r d, drun (d_pop_move (denv_of C s src)) (view C s out) = Some (r, d) /\ pop_res s out true r d) /\
  (exists r d, drun (d_pop (denv_of C s src)) (view C s out) = Some (r, d) /\ pop_res s out false r d).
Proof. exact tie_pop_wrappers. Qed.
Print Assumptions DT_pop.

(** [push] / [push_init]: the value lands in the cell at the producer's index; [push] drops the old contents (an all-zero one
    included), [push_init] only a non-zero one; refused pushes hand the value back and touch nothing *)
Theorem DT_push : forall s src out v, wf P s -> det (it_of P s) = false ->
  (exists r d, drun (d_push (denv_of P s src) v) (view P s out) = Some (r, d) /\ push_res s out v SAssign r d) /\
  (exists r d, drun (d_push_init (denv_of P s src) v) (view P s out) = Some (r, d) /\ push_res s out v SInit r d).
Proof. intros s src out v H A. split; [exact (tie_push s src out v H A) | exact (tie_push_init s src out v H A)]. Qed.
Print Assumptions DT_push.

Theorem DT_extract_item : forall s src o0, wf C s -> det (it_of C s) = false ->
  (owned s = false -> exists r d, drun (d_copy_item (denv_of C s src) (LDst 0)) (view C s [o0]) = Some (r, d) /\ extract_item_res s o0 false r d) /\
  (exists r d, drun (d_clone_item (denv_of C s src) (LDst 0)) (view C s [o0]) = Some (r, d) /\ extract_item_res s o0 true r d).
Proof. intros s src o0 H A. split; [exact (tie_copy_item s src o0 H A) | exact (tie_clone_item s src o0 H A)]. Qed.
Print Assumptions DT_extract_item.

(** [next_chunk] / [next_chunk_mut] and their wrappers: the two raw slices are exactly [chunk] of the window, inside the allocation *)
Theorem DT_chunks : forall k s src out n, wf k s ->
  (exists r d, drun (d_next_chunk (denv_of k s src) n) (view k s out) = Some (r, d) /\ grant_res k s out n r d) /\
  (exists r d, drun (d_next_chunk_mut (denv_of k s src) n) (view k s out) = Some (r, d) /\ grant_res k s out n r d) /\
  (exists r d, drun (d_get_workable_slice_exact (denv_of k s src) n) (view k s out) = Some (r, d) /\ grant_res k s out n r d) /\
  (exists r d, drun (d_get_next_slices_mut (denv_of k s src) n) (view k s out) = Some (r, d) /\ grant_res k s out n r d) /\
  (exists r d, drun (d_peek_slice (denv_of k s src) n) (view k s out) = Some (r, d) /\ grant_res k s out n r d).
Proof.
  intros k s src out n H. destruct (tie_slice_wrappers k s src out n H) as (A & B & C0).
  repeat split; [exact (tie_next_chunk k s src out n H) | exact (tie_next_chunk_mut k s src out n H) | exact A | exact B | exact C0].
Qed.
Print Assumptions DT_chunks.

Theorem DT_fresh_look_forms : forall k s src out, wf k s ->
  (exists r d, drun (d_get_workable_slice_avail (denv_of k s src)) (view k s out) = Some (r, d) /\
     match fresh k s with
     | 0 => r = None /\ agrees k (fst (refresh k s)) [] [] d /\ d_out d = out
     | S _ => grant_res k (fst (refresh k s)) out (fresh k s) r d
     end) /\
  (exists r d, drun (d_peek_available (denv_of k s src)) (view k s out) = Some (r, d) /\ grant_res k (fst (refresh k s)) out (fresh k s) r d) /\
  (forall rhs, rhs <> 0 ->
   exists r d, drun (d_get_workable_slice_multiple_of (denv_of k s src) rhs) (view k s out) = Some (r, d) /\
     match fresh k s - fresh k s mod rhs with
     | 0 => r = None /\ agrees k (fst (refresh k s)) [] [] d /\ d_out d = out
     | S _ => grant_res k (fst (refresh k s)) out (fresh k s - fresh k s mod rhs) r d
     end) /\
  drun (d_get_workable_slice_multiple_of (denv_of k s src) 0) (view k s out) = None.
Proof.
  intros k s src out H. repeat split;
  [exact (tie_get_workable_slice_avail k s src out H) | exact (tie_peek_available k s src out H)
  | exact (tie_get_workable_slice_multiple_of k s src out H) | exact (tie_multiple_of_zero_panics k s src out H)].
Qed.
Print Assumptions DT_fresh_look_forms.

(** the four slice pushes: all-or-nothing, the values land in the window's cells in order (split at the physical end exactly like
    [chunk]), clones get fresh identities, old contents are dropped according to the method's mode *)
Theorem DT_push_slices : forall s vs out, wf P s -> det (it_of P s) = false ->
  (owned s = false -> exists r d, drun (d_push_slice (denv_of P s vs) (src_sl (denv_of P s vs))) (view P s out) = Some (r, d) /\ push_slice_res s vs out SCopy false r d) /\
  (owned s = false -> exists r d, drun (d_push_slice_init (denv_of P s vs) (src_sl (denv_of P s vs))) (view P s out) = Some (r, d) /\ push_slice_res s vs out SCopy false r d) /\
  (exists r d, drun (d_push_slice_clone (denv_of P s vs) (src_sl (denv_of P s vs))) (view P s out) = Some (r, d) /\ push_slice_res s vs out SAssign true r d) /\
  (exists r d, drun (d_push_slice_clone_init (denv_of P s vs) (src_sl (denv_of P s vs))) (view P s out) = Some (r, d) /\ push_slice_res s vs out SInit true r d).
Proof.
  intros s vs out H A. repeat split;
  [exact (tie_push_slice s vs out H A) | exact (tie_push_slice_init s vs out H A) | exact (tie_push_slice_clone s vs out H A) | exact (tie_push_slice_clone_init s vs out H A)].
Qed.
Print Assumptions DT_push_slices.

Theorem DT_extract_slices : forall s src out, wf C s -> det (it_of C s) = false ->
  (owned s = false -> exists r d, drun (d_copy_slice (denv_of C s src) (mkSl RDst 0 (length out))) (view C s out) = Some (r, d) /\ extract_slice_res s out false r d) /\
  (exists r d, drun (d_clone_slice (denv_of C s src) (mkSl RDst 0 (length out))) (view C s out) = Some (r, d) /\ extract_slice_res s out true r d).
Proof. intros s src out H A. split; [exact (tie_copy_slice s src out H A) | exact (tie_clone_slice s src out H A)]. Qed.
Print Assumptions DT_extract_slices.

(** [wait_for], the one busy-waiting call: every round is one fresh look; nothing is published, no cell is touched; it returns in the
    first round in which enough items are there (fuel = number of rounds granted to the loop) *)
Theorem DT_wait_for : forall k s src out fuel count, wf k s ->
  drun (d_wait_for (denv_of k s src) fuel count) (view k s out) =
  Some (match fuel with 0 => None | S _ => if count <=? fresh k s then Some tt else None end,
        match fuel with 0 => view k s out | S _ => view k (fst (refresh k s)) out end).
Proof. intros k s src out fuel count H. exact (tie_wait_for k s src out H fuel count). Qed.
Print Assumptions DT_wait_for.

(** the [Detached] wrapper and the [AsyncIterator] trait only pass [available], [wait_for], [index], [buf_len], [get_workable*]
    (resp. [index], [available], [advance]) on to the wrapped iterator - a [delegate!] line or an equivalent hand-written body *)
Theorem DT_pass_through : forallb (fun x => snd x) DataFns.pass_through = true.
Proof. exact pass_through_closed. Qed.
Print Assumptions DT_pass_through.

(** wiring: the published index each iterator follows ([succ_index]) and the one it publishes to ([set_atomic_index]), translated from
    the three iterator files, are the Model's: producer <- consumer, worker <- producer, consumer <- worker (W) or producer (!W) *)
Theorem DT_wiring : forall k s, succ_idx k s = tget (g_succ k (hasW s)) (pub s) /\ g_pub k = k.
Proof. exact tie_wiring. Qed.
Print Assumptions DT_wiring.

(** non-vacuity: a concrete state satisfies [wf] (so the theorems above apply to it); [usize_max = 2^64] is never evaluated *)
Lemma small_lt_usize_max : forall n, n <= 1000 -> n + n < usize_max.
Proof.
  intros n H. unfold usize_max.
  pose proof (Nat.pow_le_mono_r 2 11 64 ltac:(discriminate) ltac:(repeat constructor)) as H0.
  change (2 ^ 11) with 2048 in H0. set (big := 2 ^ 64) in *. clearbody big. lia.
Qed.
Opaque usize_max.
Example DT_wf_example :
  let s := mkM 3 [5; 0; 7]%N (mkTri 1 0 0) (mkTri true false true) (mkTri (mkIter 1 0 false true) gone_iter (mkIter 0 0 false true)) false true true false 1000000%N in
  wf P s /\ det (it_of P s) = false /\ fst (check P 1 s) = true.
Proof.
  cbv zeta. split; [|split; reflexivity].
  constructor; cbn [mlen slots its it_of tget ix ca succ_idx pub tC length tP hasW].
  - lia.
  - lia.
  - reflexivity.
  - apply small_lt_usize_max. lia.
  - lia.
Qed.

(** CAPSTONE: the translated source refines the tape Spec (D-tie composed with [step_refines]): in every Model state related to a Spec
    state, running the function translated from the Rust source answers what the Spec answers and leaves the cells, indices,
    publication, clone identities and ledger of a state again related to the Spec's next state *)
Require MRB.Proofs.Refine MRB.Proofs.DataTieSpec.
Theorem DT_source_refines_spec_push : forall m a, Rel m a -> mlen m + mlen m < usize_max -> forall v src out, a_attached P a = true ->
  exists r d, drun (d_push (denv_of P m src) v) (view P m out) = Some (r, d) /\
    let '(a', (o, evs)) := sstep a (Push v) in
    (match r, o with Ok _, OOk => True | Err x, OErr y => x = y /\ x = v | _, _ => False end) /\
    exists m', Rel m' a' /\ agrees P m' (match r with Ok _ => [tP (pub m')] | Err _ => [] end) evs d.
Proof. exact DataTieSpec.push_source_refines_spec. Qed.
Print Assumptions DT_source_refines_spec_push.

Theorem DT_source_refines_spec_pop : forall m a, Rel m a -> mlen m + mlen m < usize_max -> forall src out, a_attached C a = true ->
  exists r d, drun (d_pop (denv_of C m src)) (view C m out) = Some (r, d) /\
    let '(a', (o, evs)) := sstep a Pop in
    (match r, o with Some v, OVal v' => v = v' | None, ONone => True | _, _ => False end) /\
    exists m', Rel m' a' /\ agrees C m' (match r with Some _ => [tC (pub m')] | None => [] end) evs d.
Proof. exact DataTieSpec.pop_source_refines_spec. Qed.
Print Assumptions DT_source_refines_spec_pop.

Theorem DT_source_refines_spec_push_slice : forall m a, Rel m a -> mlen m + mlen m < usize_max -> forall vs out, a_attached P a = true ->
  exists r d, drun (d_push_slice_clone_init (denv_of P m vs) (src_sl (denv_of P m vs))) (view P m out) = Some (r, d) /\
    let '(a', (o, evs)) := sstep a (PushSliceCloneInit vs) in
    (match r, o with Some _, OOk => True | None, ONone => True | _, _ => False end) /\
    exists m' evs0, Rel m' a' /\ agrees P m' (match r with Some _ => [tP (pub m')] | None => [] end) evs0 d /\ evs0 = evs.
Proof. exact DataTieSpec.push_slice_clone_init_source_refines_spec. Qed.
Print Assumptions DT_source_refines_spec_push_slice.

Theorem DT_source_refines_spec_slices : forall m a, Rel m a -> mlen m + mlen m < usize_max -> forall k n src out, a_usable k a = true ->
  exists r d, drun (d_get_workable_slice_exact (denv_of k m src) n) (view k m out) = Some (r, d) /\
    let '(a', (o, _)) := sstep a (GetExact k n) in
    (match r, o with
     | Some (s1, s2), OSlices i h t => s_off s1 = i /\ h = sub (slots m) (s_off s1) (s_len s1) /\ t = sub (slots m) (s_off s2) (s_len s2) /\ s_len s1 + s_len s2 = n
     | None, ONone => True
     | _, _ => False
     end) /\
    exists m', Rel m' a' /\ agrees k m' [] [] d.
Proof. exact DataTieSpec.slice_exact_source_refines_spec. Qed.
Print Assumptions DT_source_refines_spec_slices.

(** ** the access discipline of the translated functions

    In the monad the source is translated into, reading or writing a buffer cell is defined only INSIDE THE WINDOW THE ITERATOR HOLDS
    ([DataM.in_window]: [l_cached] cells from the local index on, cyclically - what an Acquire load of the successor's index has shown to be
    its own and what it has not yet published away).  Every [DT_*] statement above says "the translated function runs" ([= Some ..]) for all
    states the contract allows; with [DT_access_inside_window] each of them therefore also says that the function touches no cell before an
    availability check has covered it ([DT_granted_covers]) and none after [advance] has handed it on.  A data read hoisted above the
    index load, or a write sunk below the publication, is undefined in some state and its tie theorem no longer checks. *)
Theorem DT_access_inside_window : forall E i d,
  (forall v d', rd E (LBuf i) d = Some (v, d') -> i < length (d_slots d) /\ in_window d i = true) /\
  (forall m v u d', store_mode E m (LBuf i) v d = Some (u, d') -> i < length (d_slots d) /\ in_window d i = true) /\
  (forall v d', take_inner E (LBuf i) d = Some (v, d') -> i < length (d_slots d) /\ in_window d i = true) /\
  (forall v d', inner_duplicate E (LBuf i) d = Some (v, d') -> i < length (d_slots d) /\ in_window d i = true) /\
  (forall b d', check_zeroed E (LBuf i) d = Some (b, d') -> i < length (d_slots d) /\ in_window d i = true).
Proof. exact access_inside_window. Qed.
Print Assumptions DT_access_inside_window.

Theorem DT_granted_covers : forall k n s s1, check k n s = (true, s1) -> n <= ca (it_of k s1).
Proof. exact check_grants. Qed.
Print Assumptions DT_granted_covers.

(** nothing held, nothing touched: with a remembered availability of 0 even the cell at the local index is out of reach *)
Theorem DT_nothing_held_nothing_read : forall E ix0 sl pubs evs nid out,
  rd E (LBuf ix0) (mkD (mkL ix0 0) sl pubs evs nid out) = None.
Proof. exact nothing_held_nothing_read. Qed.
Print Assumptions DT_nothing_held_nothing_read.
