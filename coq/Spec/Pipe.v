(** * The Spec: a pipeline over an unbounded tape of absolute positions.

    No ring arithmetic and no remembered availability.  Position [p] of the tape is "the [p]-th slot
    visited by the iterators"; the producer writes position [p] before the worker may edit it, and the
    worker releases it before the consumer may read it.  The live window of the ring is
    [[cpos, cpos + len)] where [cpos] is the position the consumer has published; when the consumer
    publishes progress the tape grows, and a new position [q] starts with the (stale) contents of
    position [q - len] - the same physical slot.  Exactly-once / in-order / capacity facts are
    statements about positions; they are proved in Proofs/SpecFacts.v.  The Model refines this Spec
    (Proofs/Refine.v). *)
From Coq Require Import List Arith NArith Bool.
Import ListNotations.
Require Import MRB.Base.Ring MRB.Base.ListAux MRB.Model.Types MRB.Model.Seq.

Record pipe := mkS {
  slen : nat;
  tape : list cell;        (* length = published consumer position + slen *)
  ppos : tri nat;          (* published absolute positions *)
  lpos : tri nat;          (* local absolute positions of the iterators *)
  sdet : tri bool;
  shere : tri bool;
  sflag : tri bool;
  shasW : bool; sheap : bool; sowned : bool; sfreed : bool;
  snid : N
}.

Definition a_set_tape t a := mkS (slen a) t (ppos a) (lpos a) (sdet a) (shere a) (sflag a) (shasW a) (sheap a) (sowned a) (sfreed a) (snid a).
Definition a_set_lpos k p a := mkS (slen a) (tape a) (ppos a) (tset k p (lpos a)) (sdet a) (shere a) (sflag a) (shasW a) (sheap a) (sowned a) (sfreed a) (snid a).
Definition a_set_det k b a := mkS (slen a) (tape a) (ppos a) (lpos a) (tset k b (sdet a)) (shere a) (sflag a) (shasW a) (sheap a) (sowned a) (sfreed a) (snid a).
Definition a_set_nid n a := mkS (slen a) (tape a) (ppos a) (lpos a) (sdet a) (shere a) (sflag a) (shasW a) (sheap a) (sowned a) (sfreed a) n.

(** growing the tape: a new position starts with the contents of the same physical slot *)
Fixpoint extend (len n : nat) (t : list cell) : list cell :=
  match n with
  | 0 => t
  | S n' => extend len n' (t ++ [nth (length t - len) t 0%N])
  end.

(** publishing a position; the consumer's publication moves the window *)
Definition a_publish (k : stage) (p : nat) (a : pipe) : pipe :=
  let t := match k with C => extend (slen a) (p + slen a - length (tape a)) (tape a) | _ => tape a end in
  mkS (slen a) t (tset k p (ppos a)) (lpos a) (sdet a) (shere a) (sflag a) (shasW a) (sheap a) (sowned a) (sfreed a) (snid a).

(** the position an iterator may not reach: producer <- consumer + len, worker <- producer,
    consumer <- worker (W) or producer (!W) *)
Definition a_succ (k : stage) (a : pipe) : nat :=
  match k with
  | P => tC (ppos a) + slen a
  | W => tP (ppos a)
  | C => if shasW a then tW (ppos a) else tP (ppos a)
  end.

(** true availability (the producer keeps one slot free) *)
Definition a_avail (k : stage) (a : pipe) : nat :=
  match k with
  | P => a_succ P a - 1 - tget P (lpos a)
  | _ => a_succ k a - tget k (lpos a)
  end.

Definition a_advance (k : stage) (n : nat) (a : pipe) : pipe :=
  let p := tget k (lpos a) + n in
  let a1 := a_set_lpos k p a in
  if tget k (sdet a) then a1 else a_publish k p a1.

Definition a_usable (k : stage) (a : pipe) : bool :=
  negb (sfreed a) && tget k (shere a) && (match k with W => shasW a | _ => true end).
Definition a_attached k a := a_usable k a && negb (tget k (sdet a)).
Definition a_detached k a := a_usable k a && tget k (sdet a).
Definition a_plain a := negb (sowned a).

Definition ares := (pipe * (out * list lev))%type.
Definition a_ret (a : pipe) (o : out) : ares := (a, (o, [])).
Definition a_ev (a : pipe) (l : list lev) : list lev := if sowned a then l else [].
Definition a_rete (a : pipe) (o : out) (l : list lev) : ares := (a, (o, a_ev a l)).
Definition a_bad (a : pipe) : ares := (a, (OBad, [])).

(** the window of [n] positions at the iterator, shown as the two slices the ring would give *)
Definition a_window (k : stage) (n : nat) (a : pipe) : out :=
  let p := tget k (lpos a) in
  let i := p mod slen a in
  let w := sub (tape a) p n in
  let '(h, _) := chunk (slen a) i n in
  OSlices i (firstn h w) (skipn h w).

Definition a_grant (k : stage) (n : nat) (a : pipe) : ares :=
  if n <=? a_avail k a then a_ret a (a_window k n a) else a_ret a ONone.

Definition a_cell (p : nat) (a : pipe) : cell := nth p (tape a) 0%N.

Definition a_grant_one (k : stage) (a : pipe) : ares :=
  if 1 <=? a_avail k a then
    let p := tget k (lpos a) in a_ret a (ORef (p mod slen a) (a_cell p a))
  else a_ret a ONone.

Definition a_clones (a : pipe) (vs : list cell) : list cell * pipe :=
  if sowned a then (ids (snid a) (length vs), a_set_nid (snid a + N.of_nat (length vs))%N a) else (vs, a).

Definition a_push (m : smode) (v : cell) (a : pipe) : ares :=
  if 1 <=? a_avail P a then
    let p := tget P (lpos a) in
    let old := a_cell p a in
    a_rete (a_advance P 1 (a_set_tape (upd p v (tape a)) a)) OOk (store_ev m old ++ [LTake v])
  else a_ret a (OErr v).

Definition a_push_slice (m : smode) (cl : bool) (vs : list cell) (a : pipe) : ares :=
  let n := length vs in
  if n <=? a_avail P a then
    let p := tget P (lpos a) in
    let olds := sub (tape a) p n in
    let '(news, a2) := if cl then a_clones a vs else (vs, a) in
    a_rete (a_advance P n (a_set_tape (write (tape a2) p news) a2)) OOk
           ((if cl then clone_evs vs news else []) ++ store_evs m olds)
  else a_ret a ONone.

Definition a_pop (move : bool) (a : pipe) : ares :=
  if 1 <=? a_avail C a then
    let p := tget C (lpos a) in
    let v := a_cell p a in
    let a2 := if move then a_set_tape (upd p 0%N (tape a)) a else a in
    a_rete (a_advance C 1 a2) (OVal v)
           (if isz v then [LZeroRead] else if move then [LGive v] else [LDup v])
  else a_ret a ONone.

Definition a_extract_item (cl : bool) (a : pipe) : ares :=
  if 1 <=? a_avail C a then
    let v := a_cell (tget C (lpos a)) a in
    let '(news, a2) := if cl then a_clones a [v] else ([v], a) in
    a_rete (a_advance C 1 a2) (ODst news) (if cl then clone_evs [v] news else [])
  else a_ret a ONone.

Definition a_extract_slice (cl : bool) (n : nat) (a : pipe) : ares :=
  if n <=? a_avail C a then
    let w := sub (tape a) (tget C (lpos a)) n in
    let '(news, a2) := if cl then a_clones a w else (w, a) in
    a_rete (a_advance C n a2) (ODst news) (if cl then clone_evs w news else [])
  else a_ret a ONone.

Definition a_poke (m : smode) (k : stage) (off : nat) (v : cell) (a : pipe) : ares :=
  let p := tget k (lpos a) + off in
  a_rete (a_set_tape (upd p v (tape a)) a) OUnit (store_ev m (a_cell p a) ++ [LTake v]).

Definition a_edit (k : stage) (off : nat) (d : N) (a : pipe) : ares :=
  let p := tget k (lpos a) + off in
  a_ret (a_set_tape (upd p (a_cell p a + d)%N (tape a)) a) OUnit.

(** the position inside [ppos k, ppos k + len) whose ring index is [i] *)
Definition a_locate (k : stage) (i : nat) (a : pipe) : nat :=
  let b := tget k (ppos a) in b + dist (slen a) (b mod slen a) i.

(** the contents of the physical slots, in slot order *)
Definition a_ring (a : pipe) : list cell :=
  let b := tC (ppos a) in
  map (fun j => nth (b + dist (slen a) (b mod slen a) j) (tape a) 0%N) (seq 0 (slen a)).

Definition a_drop_iter (k : stage) (a : pipe) : ares :=
  let fl := tset k false (sflag a) in
  let last := negb (tP fl) && negb (tW fl) && negb (tC fl) in
  let rel := last && sheap a in
  let a1 := mkS (slen a) (tape a) (ppos a) (tset k (tget k (ppos a)) (lpos a)) (tset k false (sdet a))
                (tset k false (shere a)) fl (shasW a) (sheap a) (sowned a) (sfreed a || rel) (snid a) in
  a_rete a1 OUnit (if rel then release_evs (a_ring a) else []).

Definition a_no_iters (a : pipe) : bool :=
  negb (tP (shere a)) && negb (tW (shere a)) && negb (tC (shere a)).

Definition a_split (w : bool) (a : pipe) : pipe :=
  mkS (slen a) (a_ring a) (mkTri 0 0 0) (mkTri 0 0 0) (mkTri false false false)
      (mkTri true w true) (mkTri true (if w then true else tW (sflag a)) true)
      w (sheap a) (sowned a) (sfreed a) (snid a).

Definition sstep (a : pipe) (o : op) : ares :=
  match o with
  | Avail k => if a_usable k a then a_ret a (ONum (a_avail k a)) else a_bad a
  | Advance k n => if a_usable k a then a_ret (a_advance k n a) OUnit else a_bad a
  | GetOne k => if a_usable k a then a_grant_one k a else a_bad a
  | GetExact k n => if a_usable k a then a_grant k n a else a_bad a
  | GetAvail k =>
      if a_usable k a then
        match a_avail k a with 0 => a_ret a ONone | n => a_ret a (a_window k n a) end
      else a_bad a
  | GetMult k r =>
      if a_usable k a then
        match r with
        | 0 => a_ret a OPanic
        | _ => match a_avail k a - a_avail k a mod r with 0 => a_ret a ONone | m => a_ret a (a_window k m a) end
        end
      else a_bad a
  | Poke k off v => if a_usable k a then a_poke SAssign k off v a else a_bad a
  | PokeInit k off v => if a_usable k a then a_poke SWrite k off v a else a_bad a
  | Edit k off d => if a_usable k a && a_plain a then a_edit k off d a else a_bad a
  | Push v => if a_attached P a then a_push SAssign v a else a_bad a
  | PushInit v => if a_attached P a then a_push SInit v a else a_bad a
  | PushSlice vs => if a_attached P a && a_plain a then a_push_slice SCopy false vs a else a_bad a
  | PushSliceInit vs => if a_attached P a && a_plain a then a_push_slice SCopy false vs a else a_bad a
  | PushSliceClone vs => if a_attached P a then a_push_slice SAssign true vs a else a_bad a
  | PushSliceCloneInit vs => if a_attached P a then a_push_slice SInit true vs a else a_bad a
  | NextItemInit => if a_attached P a then a_grant_one P a else a_bad a
  | PeekAvail => if a_attached C a then a_ret a (a_window C (a_avail C a) a) else a_bad a
  | Pop => if a_attached C a then a_pop false a else a_bad a
  | PopMove => if a_attached C a then a_pop true a else a_bad a
  | CopyItem => if a_attached C a && a_plain a then a_extract_item false a else a_bad a
  | CloneItem => if a_attached C a then a_extract_item true a else a_bad a
  | CopySlice n => if a_attached C a && a_plain a then a_extract_slice false n a else a_bad a
  | CloneSlice n => if a_attached C a then a_extract_slice true n a else a_bad a
  | Reset k =>
      match k with
      | P => a_bad a
      | _ => if a_attached k a then
               let p := a_succ k a in a_ret (a_publish k p (a_set_lpos k p a)) OUnit
             else a_bad a
      end
  | Detach k => if a_attached k a then a_ret (a_set_det k true a) OUnit else a_bad a
  | Attach k => if a_detached k a then a_ret (a_set_det k false (a_publish k (tget k (lpos a)) a)) OUnit else a_bad a
  | Sync k => if a_detached k a then a_ret (a_publish k (tget k (lpos a)) a) OUnit else a_bad a
  | SetIndex k i => if a_detached k a then a_ret (a_set_lpos k (a_locate k i a) a) OUnit else a_bad a
  | GoBack k n => if a_detached k a then a_ret (a_set_lpos k (tget k (lpos a) - n) a) OUnit else a_bad a
  | DReset k =>
      if a_detached k a then a_ret (a_set_lpos k (a_locate k (a_succ k a mod slen a) a) a) OUnit else a_bad a
  | DropIter k => if a_usable k a then a_drop_iter k a else a_bad a
  | DropBuf =>
      if negb (sheap a) && negb (sfreed a) && a_no_iters a then
        a_rete (mkS (slen a) (tape a) (ppos a) (lpos a) (sdet a) (shere a) (sflag a) (shasW a) (sheap a) (sowned a) true (snid a))
               OUnit (release_evs (a_ring a))
      else a_bad a
  | Resplit w =>
      if negb (sheap a) && negb (sfreed a) && a_no_iters a then a_ret (a_split w a) OUnit else a_bad a
  end.

(** ** The contract: the crate's documented [# Safety] rules, on the Spec state. *)
Definition a_limit (k : stage) (a : pipe) : nat :=
  match k with P => a_succ P a - 1 | _ => a_succ k a end.

Definition ok_op (a : pipe) (o : op) : bool :=
  match o with
  | Advance k n => n <=? a_avail k a                              (* K1 *)
  | Poke k off _ | PokeInit k off _ | Edit k off _ => off <? a_avail k a   (* K4 *)
  | GoBack k n => n <=? tget k (lpos a) - tget k (ppos a)         (* K5 *)
  | SetIndex k i => (i <? slen a) && (a_locate k i a <=? a_limit k a)      (* K5 *)
  | DReset k => a_locate k (a_succ k a mod slen a) a <=? a_limit k a       (* K5; never for a producer ahead of the consumer *)
  | _ => true
  end.

Definition a_init (c : config) : option pipe :=
  match length (c_init c) with
  | 0 => None
  | len =>
    Some (mkS len (c_init c) (mkTri 0 0 0) (mkTri 0 0 0) (mkTri false false false)
              (mkTri true (c_worker c) true) (mkTri true (c_worker c) true)
              (c_worker c) (c_heap c) (c_owned c) false first_clone_id)
  end.

(** a history together with the check that every operation respects the contract when it is issued *)
Fixpoint srun (a : pipe) (h : list op) : pipe * list (out * list lev) * bool :=
  match h with
  | [] => (a, [], true)
  | o :: r =>
    let okh := ok_op a o in
    let '(a1, x) := sstep a o in
    let '(a2, xs, okr) := srun a1 r in
    (a2, x :: xs, okh && okr)
  end.
