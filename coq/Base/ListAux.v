(** * List helpers: point update, contiguous sub-list, contiguous run write. *)
From Coq Require Import List Arith Lia Bool.
Import ListNotations.
Require Import MRB.Base.Ring.

Section L.
Context {A : Type} (d : A).

Fixpoint upd (k : nat) (x : A) (l : list A) : list A :=
  match l, k with
  | [], _ => []
  | _ :: t, 0 => x :: t
  | h :: t, S k' => h :: upd k' x t
  end.

(** [sub l i n]: the [n] elements of [l] starting at [i] (a raw slice). *)
Definition sub (l : list A) (i n : nat) : list A := firstn n (skipn i l).

(** [write l i vs]: store [vs] into consecutive slots starting at [i]. *)
Fixpoint write (l : list A) (i : nat) (vs : list A) : list A :=
  match vs with [] => l | v :: r => write (upd i v l) (S i) r end.

Lemma upd_length k x l : length (upd k x l) = length l.
Proof. revert k; induction l; destruct k; simpl; auto. Qed.
Lemma nth_upd_eq k x l : k < length l -> nth k (upd k x l) d = x.
Proof. revert k; induction l; destruct k; simpl; intros; try lia; auto. apply IHl; lia. Qed.
Lemma nth_upd_neq k j x l : k <> j -> nth j (upd k x l) d = nth j l d.
Proof. revert k j; induction l; destruct k, j; simpl; intros; try lia; auto. Qed.
Lemma nth_upd k j x l : k < length l -> nth j (upd k x l) d = if Nat.eqb k j then x else nth j l d.
Proof.
  intros. destruct (Nat.eqb_spec k j) as [->|]; [apply nth_upd_eq | apply nth_upd_neq]; auto.
Qed.
Lemma upd_out k x l : length l <= k -> upd k x l = l.
Proof. revert k; induction l; destruct k; simpl; intros; try lia; auto. f_equal; apply IHl; lia. Qed.

Lemma write_length l i vs : length (write l i vs) = length l.
Proof. revert l i; induction vs; intros; simpl; auto. rewrite IHvs, upd_length; auto. Qed.

Lemma nth_write l i vs k : i + length vs <= length l ->
  nth k (write l i vs) d = if (i <=? k) && (k <? i + length vs) then nth (k - i) vs d else nth k l d.
Proof.
  revert l i. induction vs as [|v r IH]; intros l i Hlen; simpl in *.
  - destruct (i <=? k) eqn:E1; simpl; auto. destruct (k <? i + 0) eqn:E2; auto.
    apply Nat.leb_le in E1; apply Nat.ltb_lt in E2; lia.
  - rewrite IH by (rewrite upd_length; lia).
    destruct (Nat.eq_dec k i) as [->|Hne].
    + replace (S i <=? i) with false by (symmetry; apply Nat.leb_gt; lia). simpl.
      replace (i <=? i) with true by (symmetry; apply Nat.leb_le; lia).
      replace (i <? i + S (length r)) with true by (symmetry; apply Nat.ltb_lt; lia). simpl.
      rewrite Nat.sub_diag. apply nth_upd_eq; lia.
    + rewrite nth_upd_neq by auto.
      destruct (i <=? k) eqn:E1; [apply Nat.leb_le in E1 | apply Nat.leb_gt in E1].
      * replace (S i <=? k) with true by (symmetry; apply Nat.leb_le; lia).
        replace (k <? i + S (length r)) with (k <? S i + length r) by (f_equal; lia).
        destruct (k <? S i + length r) eqn:E2; simpl; auto.
        replace (k - i) with (S (k - S i)) by lia. reflexivity.
      * replace (S i <=? k) with false by (symmetry; apply Nat.leb_gt; lia). reflexivity.
Qed.

Lemma nth_firstn_lt (l : list A) n j : j < n -> nth j (firstn n l) d = nth j l d.
Proof. revert n j; induction l; intros [|n] [|j] H; simpl; auto; try lia. apply IHl; lia. Qed.
Lemma nth_skipn_add (l : list A) i j : nth j (skipn i l) d = nth (i + j) l d.
Proof. revert i; induction l; intros [|i]; simpl; auto. destruct j; auto. Qed.

Lemma nth_sub l i n j : j < n -> nth j (sub l i n) d = nth (i + j) l d.
Proof. intros Hj. unfold sub. rewrite nth_firstn_lt by auto. apply nth_skipn_add. Qed.
Lemma sub_length l i n : i + n <= length l -> length (sub l i n) = n.
Proof. intros. unfold sub. rewrite firstn_length, skipn_length. lia. Qed.

(** extensionality through [nth] *)
Lemma nth_ext_d (l1 l2 : list A) : length l1 = length l2 ->
  (forall j, j < length l1 -> nth j l1 d = nth j l2 d) -> l1 = l2.
Proof. intros. apply nth_ext with (d := d) (d' := d); auto. Qed.

End L.
