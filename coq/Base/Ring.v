(** * Ring arithmetic: the crate's own formulas (no remainder: add/subtract [len] once)
      and the three bridge lemmas to absolute positions ([idx = pos mod len]). *)
From Coq Require Import List Arith Lia Bool.
Import ListNotations.

Global Arguments Nat.leb : simpl never.
Global Arguments Nat.ltb : simpl never.
Global Arguments Nat.modulo : simpl never.
Global Arguments Nat.div : simpl never.

(** [advance_local]: add, wrap once at [len]. *)
Definition wadd (len i n : nat) : nat := if len <=? i + n then i + n - len else i + n.
(** consumer / worker [_available]. *)
Definition dist (len a b : nat) : nat := if a <=? b then b - a else len - a + b.
(** producer [_available] (one slot is kept free). *)
Definition pavail (len p c : nat) : nat := if p <? c then c - p - 1 else len - p + c - 1.
(** [Detached::go_back] (after fix F2). *)
Definition wsub (len i n : nat) : nat := if i <? n then len - (n - i) else i - n.
(** [next_chunk(_mut)]: lengths of the head and tail slices. *)
Definition chunk (len ix n : nat) : nat * nat :=
  if len <=? ix + n then (len - ix, ix + n - len) else (n, 0).

Ltac cases := repeat match goal with
  | |- context[if ?b then _ else _] => destruct b eqn:?
  | H: context[if ?b then _ else _] |- _ => destruct b eqn:?
  end; try rewrite ?Nat.leb_le, ?Nat.leb_gt, ?Nat.ltb_lt, ?Nat.ltb_ge in *.

Lemma wadd_lt len i n : i < len -> n <= len -> wadd len i n < len.
Proof. unfold wadd; intros; cases; lia. Qed.

Lemma wsub_lt len i n : i < len -> 0 < len -> wsub len i n < len.
Proof. unfold wsub; intros; cases; lia. Qed.

Lemma dist_wadd len i j n : i < len -> j < len -> n <= dist len i j ->
  dist len (wadd len i n) j = dist len i j - n.
Proof. unfold dist, wadd; intros; cases; lia. Qed.

Lemma pavail_dist len p c : p < len -> c < len -> pavail len p c + dist len c p = len - 1.
Proof. unfold pavail, dist; intros; cases; lia. Qed.

Lemma chunk_sum len ix n : ix < len -> fst (chunk len ix n) + snd (chunk len ix n) = n.
Proof. unfold chunk; intros; cases; simpl; lia. Qed.

Lemma chunk_bounds len ix n : ix < len -> n <= len ->
  ix + fst (chunk len ix n) <= len /\ snd (chunk len ix n) <= ix.
Proof. unfold chunk; intros; cases; simpl; lia. Qed.

(** ** Bridges to absolute positions *)
Lemma wadd_mod len a n : 0 < len -> n <= len -> wadd len (a mod len) n = (a + n) mod len.
Proof.
  intros Hl Hn. unfold wadd.
  pose proof (Nat.mod_upper_bound a len ltac:(lia)) as Hb.
  pose proof (Nat.div_mod a len ltac:(lia)) as Hd.
  set (r := a mod len) in *. set (q := a / len) in *.
  destruct (len <=? r + n) eqn:E; [apply Nat.leb_le in E | apply Nat.leb_gt in E].
  - apply Nat.mod_unique with (q := q + 1); nia.
  - apply Nat.mod_unique with (q := q); nia.
Qed.

Lemma dist_mod len a b : 0 < len -> a <= b -> b - a < len -> dist len (a mod len) (b mod len) = b - a.
Proof.
  intros Hl Hab Hd.
  replace b with (a + (b - a)) at 1 by lia.
  rewrite <- wadd_mod by lia.
  pose proof (Nat.mod_upper_bound a len ltac:(lia)).
  unfold dist, wadd; cases; lia.
Qed.

Lemma pavail_mod len p c : 0 < len -> c <= p -> p - c < len ->
  pavail len (p mod len) (c mod len) = len - 1 - (p - c).
Proof.
  intros Hl Hcp Hd.
  pose proof (dist_mod len c p Hl Hcp Hd) as D.
  pose proof (Nat.mod_upper_bound p len ltac:(lia)).
  pose proof (Nat.mod_upper_bound c len ltac:(lia)).
  unfold pavail, dist in *; cases; lia.
Qed.

Lemma wsub_mod len a n : 0 < len -> n <= a -> n <= len -> wsub len (a mod len) n = (a - n) mod len.
Proof.
  intros Hl Hn Hnl.
  pose proof (wadd_mod len (a - n) n Hl Hnl) as H.
  replace (a - n + n) with a in H by lia.
  pose proof (Nat.mod_upper_bound (a - n) len ltac:(lia)) as Hb.
  rewrite <- H. unfold wsub, wadd. set (r := (a - n) mod len) in *. cases; lia.
Qed.

(** congruent and closer than [len] => not above *)
Lemma congr_le len a b : 0 < len -> a mod len = b mod len -> a < b + len -> a <= b.
Proof.
  intros Hl Hm Hlt.
  pose proof (Nat.div_mod a len ltac:(lia)) as Ha.
  pose proof (Nat.div_mod b len ltac:(lia)) as Hb.
  pose proof (Nat.mod_upper_bound a len ltac:(lia)).
  rewrite Hm in Ha.
  assert (a / len <= b / len) by nia. nia.
Qed.

Lemma congr_eq len a b : 0 < len -> a mod len = b mod len -> a < b + len -> b < a + len -> a = b.
Proof. intros. assert (a <= b) by (eapply congr_le; eauto). assert (b <= a) by (eapply congr_le; eauto). lia. Qed.

Lemma mod_add_len len a : 0 < len -> (a + len) mod len = a mod len.
Proof.
  intros. replace (a + len) with (a + 1 * len) by lia. apply Nat.mod_add. lia.
Qed.

(** position of [b + j] in terms of the ring index of [b] *)
Lemma pos_split len b j : 0 < len -> j <= len ->
  (b + j) mod len = if len <=? b mod len + j then b mod len + j - len else b mod len + j.
Proof. intros. rewrite <- wadd_mod by auto. reflexivity. Qed.
