(** * C13 (model level): heap and stack storage differ only in who releases the buffer. *)
From Coq Require Import List Arith NArith Bool Lia.
Import ListNotations.
Require Import MRB.Base.Ring MRB.Base.ListAux MRB.Model.Types MRB.Model.Seq.

Definition with_heap (b : bool) (m : mstate) : mstate :=
  mkM (mlen m) (slots m) (pub m) (flag m) (its m) (hasW m) b (owned m) (freed m) (nid m).

Definition lifetime_op (o : op) : bool :=
  match o with DropIter _ | DropBuf | Resplit _ => true | _ => false end.

Definition lift (b : bool) (r : res) : res := (with_heap b (fst r), snd r).

Lemma it_of_heap b k m : it_of k (with_heap b m) = it_of k m. Proof. reflexivity. Qed.
Lemma slot_heap b m i : slot (with_heap b m) i = slot m i. Proof. reflexivity. Qed.
Lemma slots_heap b m : slots (with_heap b m) = slots m. Proof. reflexivity. Qed.
Lemma set_slots_heap b sl m : set_slots sl (with_heap b m) = with_heap b (set_slots sl m). Proof. reflexivity. Qed.
Lemma usable_heap b k m : usable k (with_heap b m) = usable k m. Proof. reflexivity. Qed.
Lemma attached_heap b k m : attached k (with_heap b m) = attached k m. Proof. reflexivity. Qed.
Lemma detached_heap b k m : detached k (with_heap b m) = detached k m. Proof. reflexivity. Qed.
Lemma plain_heap b m : plain (with_heap b m) = plain m. Proof. reflexivity. Qed.
Lemma refresh_heap b k m : refresh k (with_heap b m) = (with_heap b (fst (refresh k m)), snd (refresh k m)).
Proof. reflexivity. Qed.
Lemma check_heap b k n m : check k n (with_heap b m) = (fst (check k n m), with_heap b (snd (check k n m))).
Proof. unfold check, it_of. simpl. destruct (n <=? ca (tget k (its m))); reflexivity. Qed.
Lemma advance_heap b k n m : advance k n (with_heap b m) = with_heap b (advance k n m).
Proof. unfold advance, it_of. simpl. destruct (det (tget k (its m))); reflexivity. Qed.
Lemma rd_heap b m i n : rd (with_heap b m) i n = rd m i n. Proof. reflexivity. Qed.
Lemma wr_heap b m i vs : wr (with_heap b m) i vs = with_heap b (wr m i vs).
Proof. unfold wr. simpl. destruct (chunk (mlen m) i (length vs)); reflexivity. Qed.
Lemma clones_heap b m vs : clones (with_heap b m) vs = (fst (clones m vs), with_heap b (snd (clones m vs))).
Proof. unfold clones. simpl. destruct (owned m); reflexivity. Qed.

Lemma grant_heap b k n m : grant k n (with_heap b m) = lift b (grant k n m).
Proof.
  unfold grant, lift. rewrite check_heap. destruct (check k n m) as [g m1]. simpl.
  destruct g; [|reflexivity]. rewrite it_of_heap, rd_heap. destruct (rd m1 (ix (it_of k m1)) n). reflexivity.
Qed.
Lemma grant_one_heap b k m : grant_one k (with_heap b m) = lift b (grant_one k m).
Proof. unfold grant_one, lift. rewrite check_heap. destruct (check k 1 m) as [g m1]. simpl. destruct g; rewrite ?it_of_heap, ?slot_heap; reflexivity. Qed.
Lemma push_heap b md v m : push md v (with_heap b m) = lift b (push md v m).
Proof.
  unfold push, lift. rewrite check_heap. destruct (check P 1 m) as [g m1]. simpl. destruct g; [|reflexivity].
  rewrite ?it_of_heap, ?slot_heap, ?slots_heap.
  rewrite set_slots_heap.
  rewrite advance_heap. unfold rete, ev. simpl. unfold advance. simpl. destruct (det (it_of P m1)); reflexivity.
Qed.
Lemma pop_heap b mv m : pop mv (with_heap b m) = lift b (pop mv m).
Proof.
  unfold pop, lift. rewrite check_heap. destruct (check C 1 m) as [g m1]. simpl. destruct g; [|reflexivity].
  rewrite ?it_of_heap, ?slot_heap, ?slots_heap.
  destruct mv.
  - rewrite set_slots_heap.
    rewrite advance_heap. unfold rete, ev. simpl. unfold advance. simpl. destruct (det (it_of C m1)); reflexivity.
  - rewrite advance_heap. unfold rete, ev. simpl. unfold advance. simpl. destruct (det (it_of C m1)); reflexivity.
Qed.
Lemma owned_advance k n m : owned (advance k n m) = owned m.
Proof. unfold advance. destruct (det (it_of k m)); reflexivity. Qed.
Lemma owned_wr m i vs : owned (wr m i vs) = owned m.
Proof. unfold wr. destruct (chunk (mlen m) i (length vs)); reflexivity. Qed.
Lemma owned_heap b m : owned (with_heap b m) = owned m. Proof. reflexivity. Qed.

Lemma push_slice_heap b md cl vs m : push_slice md cl vs (with_heap b m) = lift b (push_slice md cl vs m).
Proof.
  unfold push_slice, lift. rewrite check_heap. destruct (check P (length vs) m) as [g m1]. cbn [fst snd]. destruct g; [|reflexivity].
  rewrite ?it_of_heap, rd_heap. destruct (rd m1 (ix (it_of P m1)) (length vs)) as [h t].
  destruct cl.
  - rewrite clones_heap. destruct (clones m1 vs) as [news m2]. cbn [fst snd]. rewrite wr_heap, advance_heap.
    unfold rete, ev. cbn [fst snd]. rewrite owned_heap. reflexivity.
  - rewrite wr_heap, advance_heap. unfold rete, ev. cbn [fst snd]. rewrite owned_heap. reflexivity.
Qed.
Lemma extract_item_heap b cl m : extract_item cl (with_heap b m) = lift b (extract_item cl m).
Proof.
  unfold extract_item, lift. rewrite check_heap. destruct (check C 1 m) as [g m1]. cbn [fst snd]. destruct g; [|reflexivity].
  rewrite ?it_of_heap, ?slot_heap.
  destruct cl.
  - rewrite clones_heap. destruct (clones m1 [slot m1 (ix (it_of C m1))]) as [news m2]. cbn [fst snd]. rewrite advance_heap.
    unfold rete, ev. cbn [fst snd]. rewrite owned_heap. reflexivity.
  - rewrite advance_heap. unfold rete, ev. cbn [fst snd]. rewrite owned_heap. reflexivity.
Qed.
Lemma extract_slice_heap b cl n m : extract_slice cl n (with_heap b m) = lift b (extract_slice cl n m).
Proof.
  unfold extract_slice, lift. rewrite check_heap. destruct (check C n m) as [g m1]. cbn [fst snd]. destruct g; [|reflexivity].
  rewrite ?it_of_heap, rd_heap. destruct (rd m1 (ix (it_of C m1)) n) as [h t].
  destruct cl.
  - rewrite clones_heap. destruct (clones m1 (h ++ t)) as [news m2]. cbn [fst snd]. rewrite advance_heap.
    unfold rete, ev. cbn [fst snd]. rewrite owned_heap. reflexivity.
  - rewrite advance_heap. unfold rete, ev. cbn [fst snd]. rewrite owned_heap. reflexivity.
Qed.

(** every operation except the lifetime ones behaves identically on heap and stack buffers *)
Theorem heap_irrelevant b m o : lifetime_op o = false -> step (with_heap b m) o = lift b (step m o).
Proof.
  intros L. destruct o; try discriminate; cbn [step];
    rewrite ?usable_heap, ?attached_heap, ?detached_heap, ?plain_heap;
    try (match goal with |- context[if ?c then _ else _] => destruct c eqn:? end; [|reflexivity]);
    rewrite ?grant_heap, ?grant_one_heap, ?push_heap, ?pop_heap, ?push_slice_heap, ?extract_item_heap, ?extract_slice_heap,
            ?advance_heap; try reflexivity.
  - rewrite refresh_heap. destruct (refresh k m) as [m1 a] eqn:E. simpl. destruct a; [reflexivity|]. apply grant_heap.
  - rewrite refresh_heap. destruct (refresh k m) as [m1 a] eqn:E. simpl. destruct r; [reflexivity|].
    destruct (a - a mod S r); [reflexivity|]. apply grant_heap.
  - rewrite refresh_heap. destruct (refresh C m) as [m1 a] eqn:E. simpl. apply grant_heap.
  - destruct k; try reflexivity; rewrite ?attached_heap;
      match goal with |- context[if ?c then _ else _] => destruct c eqn:? end; reflexivity.
Qed.
Print Assumptions heap_irrelevant.
