(** * Facts about the tape: growth, and the two-slice view of a contiguous window. *)
From Coq Require Import List Arith NArith Bool Lia.
Import ListNotations.
Require Import MRB.Base.Ring MRB.Base.ListAux MRB.Model.Types MRB.Model.Seq MRB.Spec.Pipe.

Lemma extend_length len n t : length (extend len n t) = length t + n.
Proof. revert t; induction n; intros; simpl; [lia|]. rewrite IHn, app_length; simpl; lia. Qed.

Lemma extend_old len n t q : q < length t -> nth q (extend len n t) 0%N = nth q t 0%N.
Proof.
  revert t; induction n; intros t H; simpl; auto.
  rewrite IHn by (rewrite app_length; simpl; lia). apply app_nth1; auto.
Qed.

Lemma extend_new len n t q : 0 < len -> n <= len -> len <= length t ->
  length t <= q < length t + n -> nth q (extend len n t) 0%N = nth (q - len) t 0%N.
Proof.
  revert t q; induction n; intros t q Hl Hn Ht Hq; simpl; [lia|].
  destruct (Nat.eq_dec q (length t)) as [->|Hne].
  - rewrite extend_old by (rewrite app_length; simpl; lia).
    rewrite app_nth2 by lia. rewrite Nat.sub_diag. reflexivity.
  - rewrite IHn; try (rewrite app_length; simpl); try lia.
    apply app_nth1. lia.
Qed.

Lemma extend_zero len t : extend len 0 t = t.
Proof. reflexivity. Qed.

(** [ids] *)
Lemma ids_length b n : length (ids b n) = n.
Proof. revert b; induction n; intros; simpl; auto. Qed.

(** [sub] of an updated / written list outside the touched range, and general nth facts *)
Lemma sub_nil {A} (l : list A) i : sub l i 0 = [].
Proof. reflexivity. Qed.

Lemma firstn_skipn_sub {A} (l : list A) i h n : h <= n ->
  firstn h (sub l i n) = sub l i h.
Proof. intros. unfold sub. rewrite firstn_firstn. f_equal. lia. Qed.

Lemma skipn_add {A} a b (l : list A) : skipn a (skipn b l) = skipn (b + a) l.
Proof.
  revert l; induction b; intros l; simpl; auto.
  destruct l; simpl; auto. destruct a; reflexivity.
Qed.

Lemma skipn_sub {A} (l : list A) i h n : h <= n ->
  skipn h (sub l i n) = sub l (i + h) (n - h).
Proof.
  intros. unfold sub. rewrite skipn_firstn_comm. f_equal. rewrite skipn_add. reflexivity.
Qed.
