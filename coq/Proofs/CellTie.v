(** * C-tie: the functions of [unsafe_sync_cell.rs], translated on every run ([gen/CellFns.v]), are the slot primitives the Model uses

    For EVERY representation of items by bytes that satisfies [repr_ok] - in particular "a live value is never all-zero bytes", the
    hypothesis C08 and C09 state - and every slot content [v] ([0] = empty):
    - [check_zeroed] answers [isz v] (the emptiness test of [DataM.check_zeroed] and of [Seq]) and touches nothing;
    - [take_inner] hands out [v] and leaves the empty slot ([DataM.take_inner]: [st p 0]);
    - [inner_duplicate] / [inner_ref] / [inner_ref_mut] read [v] and leave the slot as it is;
    - dropping the cell runs the item's destructor exactly when the slot is occupied ([Seq.drop_slots]'s rule), never on an empty one;
    - cloning the cell clones the item exactly when the slot is occupied and answers an empty cell otherwise, never reading an
      empty slot as an item;
    - [new] / [from] / [default] / [new_zeroed] build the cell holding that value / the empty cell. *)
From Coq Require Import List Arith NArith Bool Lia.
Import ListNotations.
Require Import MRB.Model.Types MRB.Model.Seq MRB.Model.CellM MRB.gen.CellFns.
Open Scope cm_scope.

Lemma all_zero_zeros n : all_zero (zeros n) = true.
Proof. induction n as [|n IH]; [reflexivity|]. exact IH. Qed.

Lemma forallb_eqb_sym l : forallb (fun x => N.eqb x 0) l = all_zero l.
Proof. unfold all_zero. induction l as [|a l IH]; [reflexivity|]. cbn [forallb]. rewrite IH, (N.eqb_sym a 0). reflexivity. Qed.

Lemma forallb_eqb0 l : forallb (fun x => N.eqb 0 x) l = all_zero l.
Proof. reflexivity. Qed.
Lemma existsb_ne0 l : existsb (fun x => negb (N.eqb x 0)) l = negb (all_zero l).
Proof. unfold all_zero. induction l as [|a l IH]; [reflexivity|]. cbn [existsb forallb]. rewrite IH, (N.eqb_sym a 0), negb_andb. reflexivity. Qed.
Lemma existsb_ne0' l : existsb (fun x => negb (N.eqb 0 x)) l = negb (all_zero l).
Proof. unfold all_zero. induction l as [|a l IH]; [reflexivity|]. cbn [existsb forallb]. rewrite IH, negb_andb. reflexivity. Qed.

Section Tie.
Variable R : repr.
Hypothesis OK : repr_ok R.

Lemma all_zero_enc v : all_zero (r_enc R v) = isz v.
Proof.
  unfold isz. destruct (N.eqb_spec v 0) as [->|Hn].
  - rewrite (enc_none R OK). apply all_zero_zeros.
  - destruct (all_zero (r_enc R v)) eqn:Ha; [|reflexivity]. elim Hn. exact (live_nonzero R OK v Ha).
Qed.

Lemma bytes_all v es : bytes_at PSelf (size_of R) (mkC (r_enc R v) es) = Some (r_enc R v, mkC (r_enc R v) es).
Proof.
  unfold bytes_at, size_of. cbn [c_mem]. rewrite (enc_len R OK v), Nat.leb_refl.
  rewrite <- (enc_len R OK v) at 1. rewrite firstn_all. reflexivity.
Qed.

Lemma check_zeroed_at v es : g_check_zeroed R PSelf (mkC (r_enc R v) es) = Some (isz v, mkC (r_enc R v) es).
Proof.
  unfold g_check_zeroed, cbind. rewrite bytes_all. unfold all_, any_, cret.
  rewrite ?forallb_eqb_sym, ?forallb_eqb0, ?existsb_ne0, ?existsb_ne0', ?all_zero_enc, ?negb_involutive. reflexivity.
Qed.

Theorem tie_check_zeroed v : crun R (g_check_zeroed R PSelf) v = Some (a_check_zeroed v, mkC (r_enc R v) []).
Proof. unfold crun. apply check_zeroed_at. Qed.

(** one tactic for every function: unfold the translated body and the vocabulary of [CellM], use [check_zeroed_at] where the emptiness
    test is called, split on the slot being empty, finish with the representation's laws (independent of how the body is phrased) *)
Ltac prims := cbn [cbind cret mu_ptr mu_zeroed mu_new mu_into mu_replace mu_read mu_ref mu_drop clone_val default_val
                   g_as_mut_ptr g_new g_new_zeroed g_from g_default g_inner_ref g_inner_ref_mut g_inner_duplicate g_take_inner
                   c_mem c_evs app negb fst snd].
Ltac ctac v :=
  unfold crun; prims; unfold cbind; prims; rewrite ?check_zeroed_at; unfold a_drop, a_clone, a_check_zeroed;
  destruct (isz v); prims; rewrite ?(dec_enc R OK), ?(enc_none R OK); try reflexivity.

Theorem tie_as_mut_ptr v : crun R (g_as_mut_ptr R) v = Some (PSelf, mkC (r_enc R v) []).
Proof. ctac v. Qed.

Theorem tie_take_inner v : crun R (g_take_inner R) v = Some (v, mkC (r_enc R 0%N) []).
Proof. ctac v. Qed.

Theorem tie_inner_duplicate v : crun R (g_inner_duplicate R) v = Some (v, mkC (r_enc R v) []).
Proof. ctac v. Qed.

Theorem tie_inner_ref v : crun R (g_inner_ref R) v = Some (v, mkC (r_enc R v) []) /\ crun R (g_inner_ref_mut R) v = Some (v, mkC (r_enc R v) []).
Proof. split; ctac v. Qed.

(** [Drop]: the destructor of the item runs exactly when the slot is occupied *)
Theorem tie_drop v : crun R (g_drop R) v = Some (tt, mkC (r_enc R v) (a_drop v)).
Proof. unfold g_drop. ctac v. Qed.

(** [Clone]: an empty cell is never read as an item *)
Theorem tie_clone v : crun R (g_clone R) v = Some (r_enc R (fst (a_clone R v)), mkC (r_enc R v) (snd (a_clone R v))).
Proof. unfold g_clone. ctac v. Qed.

Theorem tie_ctors x s :
  g_new R x s = Some (r_enc R x, s) /\ g_from R x s = Some (r_enc R x, s) /\ g_new_zeroed R s = Some (r_enc R 0%N, s)
  /\ g_default R s = Some (r_enc R (r_default R), mkC (c_mem s) (c_evs s ++ [CDefault])).
Proof. prims. rewrite ?(enc_none R OK). repeat split; reflexivity. Qed.

End Tie.

(** the hypothesis is satisfiable: two-byte items, little endian *)
Definition le2 : repr := mkRepr 2 (fun v => [N.modulo v 256; N.div v 256]) (fun b => (nth 0 b 0 + 256 * nth 1 b 0)%N) (fun v => (v + 1000)%N) 7%N.
Lemma le2_ok : repr_ok le2.
Proof.
  constructor; cbn [le2 r_sz r_enc r_dec]; intros.
  - reflexivity.
  - cbn [nth]. rewrite N.add_comm, N.mul_comm. symmetry. rewrite N.mul_comm. apply N.div_mod. discriminate.
  - reflexivity.
  - unfold all_zero in H. cbn [forallb] in H. rewrite !andb_true_iff in H. destruct H as (H1 & H2 & _).
    apply N.eqb_eq in H1, H2. rewrite (N.div_mod v 256) by discriminate. rewrite <- H1, <- H2. reflexivity.
Qed.

Lemma cell_closed : cell_clean = true.
Proof. reflexivity. Qed.
