(** * C14 for whole async histories: an async history is observationally the synchronous history of its
      successful polls.

    [AsyncFacts] describes ONE poll.  Here the one-poll facts are lifted to arbitrary interleavings of direct calls,
    polls, kept (Pending) futures, re-polls, dropped futures and task switches:

    - [erase s h] is the synchronous history the async history [h] amounts to when started in [s];
    - [async_refines]: the buffer after [arun s h] is [Rel]-related to the Spec state after [srun a (erase s h)], the
      results of the performing steps are the Spec's results, and the ledger of the WHOLE async run (Pending polls,
      rejected calls, drops of futures, task switches included) is the Spec's ledger;
    - [async_is_sync]: the same against the sequential Model itself ([run (base s) (erase s h)]);
    - [held_value_kept]: a kept push future keeps its value until it resolves or is dropped;
    - [pending_push_stored_once] / [dropped_push_not_stored]: it is stored exactly once - by the re-poll that resolves -
      or never;
    - [completes_when_possible] / [completes_when_condition_true]: a future polled after its condition has become
      true completes with the synchronous result.

    A Pending poll DOES change the Model (it refreshes the remembered availability, twice) but not the Spec state:
    [Rel] absorbs this, which is why the statements go through the Spec. *)
From Coq Require Import List Arith NArith Bool Lia.
Import ListNotations.
Require Import MRB.Base.Ring MRB.Base.ListAux MRB.Model.Types MRB.Model.Seq MRB.Spec.Pipe MRB.Model.Async.
Require Import MRB.Proofs.Rel MRB.Proofs.TapeFacts MRB.Proofs.Refine MRB.Proofs.SpecFacts MRB.Proofs.AsyncFacts.

(** ** 0. Three facts about the sequential Model that need no relation and no contract *)

Local Ltac crush_step :=
  repeat (match goal with
    | |- context[if ?c then _ else _] => destruct c eqn:?
    | |- context[match ?x with _ => _ end] => destruct x eqn:?
    end; cbn [fst snd]).

(** [step] never answers [OPending], and an [OBad] answer leaves the state alone and has no ledger event *)
Lemma step_out_class m o :
  fst (snd (step m o)) <> OPending /\ (fst (snd (step m o)) = OBad -> step m o = (m, (OBad, []))).
Proof.
  destruct o; cbn [step];
    unfold grant, grant_one, push, push_slice, pop, extract_item, extract_slice, poke, edit, drop_iter, ret, rete, bad;
    crush_step; split; intros; try discriminate; try reflexivity.
Qed.

Lemma step_not_pending m o : fst (snd (step m o)) <> OPending.
Proof. apply step_out_class. Qed.

Lemma step_bad_same m o : fst (snd (step m o)) = OBad -> step m o = (m, (OBad, [])).
Proof. apply step_out_class. Qed.

(** only operations without a [# Safety] rule can be refused: a refused attempt is always within the contract *)
Lemma refused_ok m a o : refused (fst (snd (step m o))) = true -> ok_op a o = true.
Proof.
  destruct o; cbn [ok_op]; try reflexivity; cbn [step]; unfold poke, edit, ret, rete, bad;
    crush_step; cbn [refused]; intros; discriminate.
Qed.

(** operations that exist as futures have no [# Safety] rule *)
Lemma future_ok a f k : future_of f = Some k -> ok_op a f = true.
Proof. destruct f; cbn [future_of ok_op]; intros H; try discriminate; reflexivity. Qed.

(** the Spec: an [OBad] answer changes nothing *)
Lemma sstep_bad_same a o : fst (snd (sstep a o)) = OBad -> sstep a o = (a, (OBad, [])).
Proof.
  destruct o; cbn [sstep];
    unfold a_grant, a_grant_one, a_push, a_push_slice, a_pop, a_extract_item, a_extract_slice, a_poke, a_edit, a_drop_iter,
           a_ret, a_rete, a_bad, a_window;
    crush_step; intros; try discriminate; try reflexivity.
Qed.

(** ** 1. The erased history *)

(** a result the caller can act on: neither "not yet" nor "no such call in this state" *)
Definition visible (x : out) : bool := match x with OPending | OBad => false | _ => true end.

Definition is_pending (x : out) : bool := match x with OPending => true | _ => false end.

(** the synchronous operation an async step attempts *)
Definition attempt (s : astate) (o : aop) : option op :=
  match o with
  | ADirect d | APoll d | AHold d => Some d
  | ARepoll k => tget k (held s)
  | ADropFut _ | ASetTask _ | ARewrap _ => None
  end.

(** the synchronous operation an async step performs: the attempted one, if the step answers with a result *)
Definition performed (s : astate) (o : aop) : option op :=
  match attempt s o with
  | Some f => if visible (fst (snd (astep s o))) then Some f else None
  | None => None
  end.

Fixpoint erase (s : astate) (h : list aop) : list op :=
  match h with
  | [] => []
  | o :: r => (match performed s o with Some f => [f] | None => [] end) ++ erase (fst (astep s o)) r
  end.

(** the results (answer and ledger events) of the performing steps, in order *)
Fixpoint obs (s : astate) (h : list aop) : list (out * list lev) :=
  match h with
  | [] => []
  | o :: r => (match performed s o with Some _ => [snd (astep s o)] | None => [] end) ++ obs (fst (astep s o)) r
  end.

(** all ledger events of a run *)
Definition ledger (xs : list (out * list lev)) : list lev := concat (map snd xs).

(** projections of [arun] / [srun] / [run] *)
Lemma arun_cons s o r :
  fst (arun s (o :: r)) = fst (arun (fst (astep s o)) r) /\
  snd (arun s (o :: r)) = snd (astep s o) :: snd (arun (fst (astep s o)) r).
Proof. cbn [arun]. destruct (astep s o) as [s1 x]. cbn [fst snd]. destruct (arun s1 r) as [s2 xs]. split; reflexivity. Qed.

Lemma srun_cons a o r :
  fst (fst (srun a (o :: r))) = fst (fst (srun (fst (sstep a o)) r)) /\
  snd (fst (srun a (o :: r))) = snd (sstep a o) :: snd (fst (srun (fst (sstep a o)) r)) /\
  snd (srun a (o :: r)) = ok_op a o && snd (srun (fst (sstep a o)) r).
Proof. cbn [srun]. destruct (sstep a o) as [a1 x]. cbn [fst snd]. destruct (srun a1 r) as [[a2 xs] okr]. repeat split; reflexivity. Qed.

Lemma arun_app h1 : forall s h2,
  fst (arun s (h1 ++ h2)) = fst (arun (fst (arun s h1)) h2) /\
  snd (arun s (h1 ++ h2)) = snd (arun s h1) ++ snd (arun (fst (arun s h1)) h2).
Proof.
  induction h1 as [|o r IH]; intros s h2.
  - auto.
  - rewrite <- app_comm_cons. destruct (arun_cons s o (r ++ h2)) as [-> ->]. destruct (arun_cons s o r) as [-> ->].
    destruct (IH (fst (astep s o)) h2) as [-> ->]. auto.
Qed.

Lemma erase_app h1 : forall s h2, erase s (h1 ++ h2) = erase s h1 ++ erase (fst (arun s h1)) h2.
Proof.
  induction h1 as [|o r IH]; intros s h2.
  - reflexivity.
  - rewrite <- app_comm_cons. cbn [erase]. destruct (arun_cons s o r) as [-> _]. rewrite IH, app_assoc. reflexivity.
Qed.

Lemma obs_app h1 : forall s h2, obs s (h1 ++ h2) = obs s h1 ++ obs (fst (arun s h1)) h2.
Proof.
  induction h1 as [|o r IH]; intros s h2.
  - reflexivity.
  - rewrite <- app_comm_cons. cbn [obs]. destruct (arun_cons s o r) as [-> _]. rewrite IH, app_assoc. reflexivity.
Qed.

(** ** 2. One poll, one async step *)

Lemma base_set_held k x s : base (set_held k x s) = base s.  Proof. reflexivity. Qed.
Lemma base_set_base m s : base (set_base m s) = m.           Proof. reflexivity. Qed.

(** a poll never touches the kept futures, the polling task or the wake counter *)
Lemma poll_frame k f s :
  held (fst (poll k f s)) = held s /\ task (fst (poll k f s)) = task s /\ wakes (fst (poll k f s)) = wakes s.
Proof.
  unfold poll. destruct (step (base s) f) as [m1 [x1 e1]]. destruct (refused x1); [|auto].
  destruct (step m1 f) as [m2 [x2 e2]]. destruct (refused x2); auto.
Qed.

Lemma poll_not_refused k f s : refused (fst (snd (step (base s) f))) = false ->
  poll k f s = (set_base (fst (step (base s) f)) s, snd (step (base s) f)).
Proof. unfold poll. destruct (step (base s) f) as [m1 [x1 e1]]. simpl. intros ->. reflexivity. Qed.

(** a poll never answers with a refusal: that is what Pending stands for *)
Lemma poll_out_not_refused k f s : refused (fst (snd (poll k f s))) = false.
Proof.
  unfold poll. destruct (step (base s) f) as [m1 [x1 e1]]. destruct (refused x1) eqn:R1; [|exact R1].
  destruct (step m1 f) as [m2 [x2 e2]]. destruct (refused x2) eqn:R2; [reflexivity | exact R2].
Qed.

(** one poll against the Spec: either it answers with the Spec's result of the operation and the buffer is the
    Spec's next state, or it answers Pending / OBad, has no ledger event and the buffer is still the Spec's state.
    The contract is only needed for a poll that answers with a result. *)
Lemma poll_sim s a k f : Rel (base s) a ->
  (visible (fst (snd (poll k f s))) = true -> ok_op a f = true) ->
  (visible (fst (snd (poll k f s))) = true /\
     Rel (base (fst (poll k f s))) (fst (sstep a f)) /\ snd (poll k f s) = snd (sstep a f)) \/
  (visible (fst (snd (poll k f s))) = false /\
     Rel (base (fst (poll k f s))) a /\ snd (snd (poll k f s)) = []).
Proof.
  intros R OKv.
  destruct (refused (fst (snd (step (base s) f)))) eqn:Rf.
  - (* refused: Pending *)
    pose proof (refused_ok _ a _ Rf) as OK.
    destruct (poll_pending s a k f R OK Rf) as (m2 & E & R2 & _). right. rewrite E. simpl. auto.
  - rewrite (poll_not_refused k f s Rf) in *. cbn [fst snd base] in *.
    destruct (visible (fst (snd (step (base s) f)))) eqn:V.
    + left. specialize (OKv eq_refl). destruct (step_refines _ _ f R OKv) as [E R1]. auto.
    + right. destruct (fst (snd (step (base s) f))) eqn:X; try discriminate.
      * exfalso. exact (step_not_pending _ _ X).
      * rewrite (step_bad_same _ _ X). simpl. auto.
Qed.

(** the async step in terms of the poll it makes *)
Definition gate_fut (k : stage) (s : astate) : bool := free_iter k s && negb (det (it_of k (base s))).

Lemma astep_poll_shape s f k : future_of f = Some k -> gate_fut k s = true ->
  astep s (APoll f) = poll k f s.
Proof. unfold gate_fut. intros F G. cbn [astep]. rewrite F, G. reflexivity. Qed.

Lemma astep_hold_shape s f k : future_of f = Some k -> gate_fut k s = true ->
  snd (astep s (AHold f)) = snd (poll k f s) /\
  base (fst (astep s (AHold f))) = base (fst (poll k f s)) /\
  held (fst (astep s (AHold f))) =
    if is_pending (fst (snd (poll k f s))) then tset k (Some f) (held s) else held s.
Proof.
  unfold gate_fut. intros F G. cbn [astep]. rewrite F, G.
  pose proof (poll_frame k f s) as (H & _). destruct (poll k f s) as [s1 [x e]]. cbn [fst snd] in *.
  destruct x; cbn [fst snd base held set_held is_pending]; rewrite ?H; auto.
Qed.

Lemma astep_repoll_shape s f k : tget k (held s) = Some f ->
  snd (astep s (ARepoll k)) = snd (poll k f s) /\
  base (fst (astep s (ARepoll k))) = base (fst (poll k f s)) /\
  held (fst (astep s (ARepoll k))) =
    if is_pending (fst (snd (poll k f s))) then held s else tset k None (held s).
Proof.
  intros Hh. cbn [astep]. rewrite Hh.
  pose proof (poll_frame k f s) as (H & _). destruct (poll k f s) as [s1 [x e]]. cbn [fst snd] in *.
  destruct x; cbn [fst snd base held set_held is_pending]; rewrite ?H; auto.
Qed.

(** a step that performs [f]: the Spec's result of [f], and the Spec's next state *)
Lemma astep_performed s a o f : Rel (base s) a -> performed s o = Some f -> ok_op a f = true ->
  Rel (base (fst (astep s o))) (fst (sstep a f)) /\ snd (astep s o) = snd (sstep a f).
Proof.
  intros R Pf OK. unfold performed in Pf.
  destruct (attempt s o) as [g|] eqn:At; [|discriminate].
  destruct (visible (fst (snd (astep s o)))) eqn:V; [|discriminate]. inversion Pf; subst g; clear Pf.
  destruct o as [d|d|d|k|k|n|k]; cbn [attempt] in At; try discriminate.
  - (* ADirect *) inversion At; subst d; clear At. cbn [astep] in *.
    destruct (direct_of f (base s)) as [k|]; [|discriminate V].
    destruct (free_iter k s); [|discriminate V].
    destruct (step_refines _ _ f R OK) as [E R1].
    destruct (step (base s) f) as [m1 x]. cbn [fst snd base set_base] in *. auto.
  - (* APoll *) inversion At; subst d; clear At.
    destruct (future_of f) as [k|] eqn:F; [|cbn [astep] in V; rewrite F in V; discriminate V].
    destruct (gate_fut k s) eqn:G;
      [|cbn [astep] in V; unfold gate_fut in G; rewrite F, G in V; discriminate V].
    rewrite (astep_poll_shape s f k F G) in *.
    destruct (poll_sim s a k f R (fun _ => OK)) as [(_ & R1 & E)|(V' & _)]; [auto | congruence].
  - (* AHold *) inversion At; subst d; clear At.
    destruct (future_of f) as [k|] eqn:F; [|cbn [astep] in V; rewrite F in V; discriminate V].
    destruct (gate_fut k s) eqn:G;
      [|cbn [astep] in V; unfold gate_fut in G; rewrite F, G in V; discriminate V].
    destruct (astep_hold_shape s f k F G) as (Eo & Eb & _). rewrite Eo in *. rewrite Eb.
    destruct (poll_sim s a k f R (fun _ => OK)) as [(_ & R1 & E)|(V' & _)]; [auto | congruence].
  - (* ARepoll *)
    destruct (astep_repoll_shape s f k At) as (Eo & Eb & _). rewrite Eo in *. rewrite Eb.
    destruct (poll_sim s a k f R (fun _ => OK)) as [(_ & R1 & E)|(V' & _)]; [auto | congruence].
Qed.

(** a step that performs nothing - a Pending poll, a rejected call, a dropped future, a task switch: the buffer is
    still the Spec's state and there is no ledger event.  No contract needed. *)
Lemma astep_silent s a o : Rel (base s) a -> performed s o = None ->
  Rel (base (fst (astep s o))) a /\ snd (snd (astep s o)) = [].
Proof.
  intros R Pf. unfold performed in Pf.
  destruct o as [d|d|d|k|k|n|k]; cbn [attempt] in Pf.
  - (* ADirect *) cbn [astep] in *.
    destruct (direct_of d (base s)) as [k|]; [|auto].
    destruct (free_iter k s); [|auto].
    destruct (step (base s) d) as [m1 [x e]] eqn:E. cbn [fst snd base set_base] in *.
    destruct (visible x) eqn:V; [discriminate|].
    destruct x; try discriminate.
    + exfalso. apply (step_not_pending (base s) d). rewrite E. reflexivity.
    + pose proof (step_bad_same (base s) d) as B. rewrite E in B. specialize (B eq_refl). inversion B; subst. auto.
  - (* APoll *)
    destruct (future_of d) as [k|] eqn:F; [|cbn [astep]; rewrite F; auto].
    destruct (gate_fut k s) eqn:G; [|cbn [astep]; unfold gate_fut in G; rewrite F, G; auto].
    rewrite (astep_poll_shape s d k F G) in *.
    destruct (poll_sim s a k d R) as [(V & _)|(_ & R1 & E)]; [|rewrite V in Pf; discriminate|auto].
    intros V. rewrite V in Pf. discriminate.
  - (* AHold *)
    destruct (future_of d) as [k|] eqn:F; [|cbn [astep]; rewrite F; auto].
    destruct (gate_fut k s) eqn:G; [|cbn [astep]; unfold gate_fut in G; rewrite F, G; auto].
    destruct (astep_hold_shape s d k F G) as (Eo & Eb & _). rewrite Eo in *. rewrite Eb.
    destruct (poll_sim s a k d R) as [(V & _)|(_ & R1 & E)]; [|rewrite V in Pf; discriminate|auto].
    intros V. rewrite V in Pf. discriminate.
  - (* ARepoll *)
    destruct (tget k (held s)) as [f|] eqn:Hh; [|cbn [astep]; rewrite Hh; auto].
    destruct (astep_repoll_shape s f k Hh) as (Eo & Eb & _). rewrite Eo in *. rewrite Eb.
    destruct (poll_sim s a k f R) as [(V & _)|(_ & R1 & E)]; [|rewrite V in Pf; discriminate|auto].
    intros V. rewrite V in Pf. discriminate.
  - (* ADropFut *) cbn [astep]. destruct (tget k (held s)); auto.
  - (* ASetTask *) cbn [astep]. auto.
  - (* ARewrap *) cbn [astep]. destruct (free_iter k s && usable k (base s) && negb (det (it_of k (base s)))); auto.
Qed.

(** ** 3. Whole histories *)

(** THE THEOREM.  For every async history, started in any async state whose buffer is related to a Spec state: if
    the erased (synchronous) history respects the contract, then
    - the buffer after the async run is related to the Spec state after the erased run,
    - the results of the performing steps are exactly the Spec's results of the erased run,
    - the ledger of the whole async run is the Spec's ledger: the steps that are not in the erased history - Pending
      polls in particular - took, dropped, duplicated and lost nothing. *)
Theorem async_refines h : forall s a, Rel (base s) a -> snd (srun a (erase s h)) = true ->
  Rel (base (fst (arun s h))) (fst (fst (srun a (erase s h)))) /\
  obs s h = snd (fst (srun a (erase s h))) /\
  ledger (snd (arun s h)) = ledger (snd (fst (srun a (erase s h)))).
Proof.
  induction h as [|o r IH]; intros s a R OK.
  - simpl. auto.
  - destruct (arun_cons s o r) as [-> ->]. cbn [erase obs] in *.
    destruct (performed s o) as [f|] eqn:Pf.
    + cbn [app] in *. destruct (srun_cons a f (erase (fst (astep s o)) r)) as (-> & -> & Ek). rewrite Ek in OK.
      apply andb_prop in OK as [OKf OKr].
      destruct (astep_performed s a o f R Pf OKf) as [R1 E].
      destruct (IH _ _ R1 OKr) as (R2 & O2 & L2).
      repeat match goal with |- _ /\ _ => split end.
      * exact R2.
      * rewrite O2, E. reflexivity.
      * unfold ledger in *. cbn [map concat]. rewrite L2, E. reflexivity.
    + cbn [app] in *. destruct (astep_silent s a o R Pf) as [R1 E].
      destruct (IH _ _ R1 OK) as (R2 & O2 & L2).
      repeat match goal with |- _ /\ _ => split end.
      * exact R2.
      * exact O2.
      * unfold ledger in *. cbn [map concat]. rewrite E, L2. reflexivity.
Qed.

(** the same against the sequential Model: the async run and the synchronous run of the erased history give the same
    results and the same ledger, and end in states that show the same buffer (published indices, slot contents,
    liveness flags, storage; local index and detached flag of every iterator that still exists) - they may differ
    in the remembered availabilities only. *)
Theorem async_is_sync h s a : Rel (base s) a -> snd (srun a (erase s h)) = true ->
  let m_async := base (fst (arun s h)) in
  let m_sync := fst (run (base s) (erase s h)) in
  obs s h = snd (run (base s) (erase s h)) /\
  ledger (snd (arun s h)) = ledger (snd (run (base s) (erase s h))) /\
  pub m_async = pub m_sync /\ slots m_async = slots m_sync /\ flag m_async = flag m_sync /\ freed m_async = freed m_sync /\
  (forall j, here (it_of j m_async) = here (it_of j m_sync)) /\
  (forall j, here (it_of j m_async) = true ->
     ix (it_of j m_async) = ix (it_of j m_sync) /\ det (it_of j m_async) = det (it_of j m_sync)).
Proof.
  intros R OK. cbv zeta.
  destruct (async_refines h s a R OK) as (R2 & O2 & L2).
  pose proof (run_refines (erase s h) (base s) a R) as RR.
  destruct (srun a (erase s h)) as [[a' ys] ok]. cbn [fst snd] in *. subst ok. specialize (RR eq_refl).
  destruct (run (base s) (erase s h)) as [m' xs]. cbn [fst snd]. destruct RR as [-> R'].
  destruct (same_spec_same_buffer _ _ _ R2 R') as (A & B & C0 & D & E).
  repeat match goal with |- _ /\ _ => split end; auto.
  - intros j. rewrite (r_here _ _ R2 j), (r_here _ _ R' j). reflexivity.
  - intros j Hj. apply E. rewrite <- (r_here _ _ R2 j). exact Hj.
Qed.

(** ** 4. A kept future keeps its operation - a kept push keeps its value *)

(** the steps that end the life of the future kept on iterator [k]: a re-poll that is not Pending, and the drop *)
Definition releases (k : stage) (s : astate) (o : aop) : bool :=
  match o with
  | ARepoll k' => stage_eqb k k' && negb (is_pending (fst (snd (astep s o))))
  | ADropFut k' => stage_eqb k k'
  | _ => false
  end.

(** no step of the history releases the future kept on [k] *)
Fixpoint kept (k : stage) (s : astate) (h : list aop) : bool :=
  match h with
  | [] => true
  | o :: r => negb (releases k s o) && kept k (fst (astep s o)) r
  end.

Lemma kept_app k h1 : forall s h2, kept k s (h1 ++ h2) = kept k s h1 && kept k (fst (arun s h1)) h2.
Proof.
  induction h1 as [|o r IH]; intros s h2.
  - reflexivity.
  - rewrite <- app_comm_cons. cbn [kept]. destruct (arun_cons s o r) as [-> _]. rewrite IH, andb_assoc. reflexivity.
Qed.

(** AHold that answers Pending keeps the future *)
Lemma hold_pending s f : fst (snd (astep s (AHold f))) = OPending ->
  exists k, future_of f = Some k /\ tget k (held s) = None /\ tget k (held (fst (astep s (AHold f)))) = Some f.
Proof.
  intros X. destruct (future_of f) as [k|] eqn:F; [|cbn [astep] in X; rewrite F in X; discriminate X].
  destruct (gate_fut k s) eqn:G; [|cbn [astep] in X; unfold gate_fut in G; rewrite F, G in X; discriminate X].
  destruct (astep_hold_shape s f k F G) as (Eo & _ & Eh). rewrite Eo in X. rewrite Eh, X. cbn [is_pending].
  exists k. repeat match goal with |- _ /\ _ => split end; auto.
  - unfold gate_fut, free_iter in G. destruct (tget k (held s)); [discriminate G | reflexivity].
  - apply tget_tset_same.
Qed.

(** one step: whatever else happens - other stages' calls and polls, task switches, drops and re-polls of other
    futures, re-polls of this one that stay Pending - the kept future is the same *)
Lemma held_step k f s o : tget k (held s) = Some f -> releases k s o = false ->
  tget k (held (fst (astep s o))) = Some f.
Proof.
  intros Hh Rl. destruct o as [d|d|d|k'|k'|n|k']; cbn [releases] in Rl.
  - cbn [astep]. destruct (direct_of d (base s)) as [j|]; [|exact Hh]. destruct (free_iter j s); [|exact Hh].
    destruct (step (base s) d). exact Hh.
  - cbn [astep]. destruct (future_of d) as [j|]; [|exact Hh].
    destruct (free_iter j s && negb (det (it_of j (base s)))); [|exact Hh].
    destruct (poll_frame j d s) as (-> & _). exact Hh.
  - destruct (future_of d) as [j|] eqn:F; [|cbn [astep]; rewrite F; exact Hh].
    destruct (gate_fut j s) eqn:G; [|cbn [astep]; unfold gate_fut in G; rewrite F, G; exact Hh].
    destruct (astep_hold_shape s d j F G) as (_ & _ & ->).
    destruct (is_pending (fst (snd (poll j d s)))); [|exact Hh].
    rewrite tget_tset_other; [exact Hh|]. intros ->.
    unfold gate_fut, free_iter in G. rewrite Hh in G. discriminate G.
  - destruct (tget k' (held s)) as [g|] eqn:Hk'; [|cbn [astep]; rewrite Hk'; exact Hh].
    destruct (astep_repoll_shape s g k' Hk') as (Eo & _ & ->). rewrite Eo in Rl.
    destruct (is_pending (fst (snd (poll k' g s)))); [exact Hh|].
    rewrite andb_true_r in Rl. rewrite tget_tset_other; [exact Hh|]. intros ->.
    destruct (stage_eqb_spec k k); [discriminate Rl | congruence].
  - cbn [astep]. destruct (tget k' (held s)) eqn:Hk'; [|exact Hh]. cbn [fst held set_held].
    rewrite tget_tset_other; [exact Hh|]. intros ->.
    destruct (stage_eqb_spec k k); [discriminate Rl | congruence].
  - exact Hh.
  - cbn [astep]. destruct (free_iter k' s && usable k' (base s) && negb (det (it_of k' (base s)))); exact Hh.
Qed.

(** ... and a releasing step frees the iterator *)
Lemma held_release k f s o : tget k (held s) = Some f -> releases k s o = true ->
  tget k (held (fst (astep s o))) = None.
Proof.
  intros Hh Rl. destruct o as [d|d|d|k'|k'|n|k']; cbn [releases] in Rl; try discriminate Rl.
  - apply andb_prop in Rl as [Ek Np]. destruct (stage_eqb_spec k k') as [<-|]; [|discriminate Ek].
    destruct (astep_repoll_shape s f k Hh) as (Eo & _ & ->). rewrite Eo in Np.
    destruct (is_pending (fst (snd (poll k f s)))); [discriminate Np|]. apply tget_tset_same.
  - destruct (stage_eqb_spec k k') as [<-|]; [|discriminate Rl].
    cbn [astep]. rewrite Hh. cbn [fst held set_held]. apply tget_tset_same.
Qed.

Theorem held_kept_run k f h : forall s, tget k (held s) = Some f -> kept k s h = true ->
  tget k (held (fst (arun s h))) = Some f.
Proof.
  induction h as [|o r IH]; intros s Hh K.
  - exact Hh.
  - destruct (arun_cons s o r) as [-> _]. cbn [kept] in K. apply andb_prop in K as [K1 K2].
    apply negb_true_iff in K1. apply IH; [apply held_step; assumption | exact K2].
Qed.

(** while a future is kept its iterator is borrowed: every other call or future on that iterator is rejected *)
Lemma borrowed k f s : tget k (held s) = Some f ->
  (forall d, direct_of d (base s) = Some k -> astep s (ADirect d) = (s, (OBad, []))) /\
  (forall g, future_of g = Some k -> astep s (APoll g) = (s, (OBad, [])) /\ astep s (AHold g) = (s, (OBad, []))).
Proof.
  intros Hh. split.
  - intros d D. cbn [astep]. rewrite D. unfold free_iter. rewrite Hh. reflexivity.
  - intros g F. cbn [astep]. rewrite F. unfold free_iter. rewrite Hh. auto.
Qed.

(** (3) a push future that was created with value [v] and answered Pending holds [Push v] - the same [v] - after
    every prefix of every continuation in which it neither resolves nor is dropped *)
Theorem held_value_kept v s h1 h2 :
  let s1 := fst (astep s (AHold (Push v))) in
  fst (snd (astep s (AHold (Push v)))) = OPending ->
  kept P s1 (h1 ++ h2) = true ->
  tget P (held s1) = Some (Push v) /\
  tget P (held (fst (arun s1 h1))) = Some (Push v) /\
  tget P (held (fst (arun s (AHold (Push v) :: h1)))) = Some (Push v) /\
  attempt (fst (arun s1 h1)) (ARepoll P) = Some (Push v).
Proof.
  cbv zeta. intros X K.
  destruct (hold_pending s (Push v) X) as (k & F & _ & Hh). cbn [future_of] in F. inversion F; subst k; clear F.
  rewrite kept_app in K. apply andb_prop in K as [K1 _].
  pose proof (held_kept_run P (Push v) h1 _ Hh K1) as H1.
  destruct (arun_cons s (AHold (Push v)) h1) as [-> _].
  repeat match goal with |- _ /\ _ => split end; auto.
Qed.

(** ** 5. Exactly once *)

(** futures are kept on the iterator they borrow *)
Definition held_wf (s : astate) : Prop := forall k f, tget k (held s) = Some f -> future_of f = Some k.

Lemma held_wf_init m : held_wf (a_init_state m).
Proof. intros k f. destruct k; simpl; discriminate. Qed.

Lemma held_wf_step s o : held_wf s -> held_wf (fst (astep s o)).
Proof.
  intros Wf k f. destruct o as [d|d|d|k'|k'|n|k'].
  - cbn [astep]. destruct (direct_of d (base s)) as [j|]; [|apply Wf]. destruct (free_iter j s); [|apply Wf].
    destruct (step (base s) d). apply Wf.
  - cbn [astep]. destruct (future_of d) as [j|]; [|apply Wf].
    destruct (free_iter j s && negb (det (it_of j (base s)))); [|apply Wf].
    destruct (poll_frame j d s) as (-> & _). apply Wf.
  - destruct (future_of d) as [j|] eqn:F; [|cbn [astep]; rewrite F; apply Wf].
    destruct (gate_fut j s) eqn:G; [|cbn [astep]; unfold gate_fut in G; rewrite F, G; apply Wf].
    destruct (astep_hold_shape s d j F G) as (_ & _ & ->).
    destruct (is_pending (fst (snd (poll j d s)))); [|apply Wf].
    destruct (stage_eqb_spec j k) as [<-|Ne].
    + rewrite tget_tset_same. intros E. inversion E; subst. exact F.
    + rewrite tget_tset_other by exact Ne. apply Wf.
  - destruct (tget k' (held s)) as [g|] eqn:Hk'; [|cbn [astep]; rewrite Hk'; apply Wf].
    destruct (astep_repoll_shape s g k' Hk') as (_ & _ & ->).
    destruct (is_pending (fst (snd (poll k' g s)))); [apply Wf|].
    destruct (stage_eqb_spec k' k) as [<-|Ne].
    + rewrite tget_tset_same. discriminate.
    + rewrite tget_tset_other by exact Ne. apply Wf.
  - cbn [astep]. destruct (tget k' (held s)) eqn:Hk'; [|apply Wf]. cbn [fst held set_held].
    destruct (stage_eqb_spec k' k) as [<-|Ne].
    + rewrite tget_tset_same. discriminate.
    + rewrite tget_tset_other by exact Ne. apply Wf.
  - apply Wf.
  - cbn [astep]. destruct (free_iter k' s && usable k' (base s) && negb (det (it_of k' (base s)))); apply Wf.
Qed.

Lemma held_wf_run h : forall s, held_wf s -> held_wf (fst (arun s h)).
Proof.
  induction h as [|o r IH]; intros s Wf; [exact Wf|].
  destruct (arun_cons s o r) as [-> _]. apply IH, held_wf_step, Wf.
Qed.

(** while the future on [k] is kept, nothing that borrows iterator [k] as a future is performed *)
Lemma kept_no_future_on k f h : forall s, held_wf s -> tget k (held s) = Some f -> kept k s h = true ->
  forall g, In g (erase s h) -> future_of g <> Some k.
Proof.
  induction h as [|o r IH]; intros s Wf Hh K g Hin; [destruct Hin|].
  cbn [kept] in K. apply andb_prop in K as [K1 K2]. apply negb_true_iff in K1.
  cbn [erase] in Hin. apply in_app_or in Hin as [Hin|Hin].
  - unfold performed in Hin. destruct (attempt s o) as [g'|] eqn:At; [|destruct Hin].
    destruct (visible (fst (snd (astep s o)))) eqn:V; [|destruct Hin].
    destruct Hin as [<-|[]]. intros F.
    destruct (borrowed k f s Hh) as [_ B].
    destruct o as [d|d|d|k'|k'|n|k']; cbn [attempt] in At; try discriminate At.
    + inversion At; subst d; clear At. cbn [astep] in V.
      destruct g'; cbn [future_of] in F; try discriminate F; cbn [direct_of] in V; try discriminate V.
    + inversion At; subst d. destruct (B g' F) as [E _]. rewrite E in V. discriminate V.
    + inversion At; subst d. destruct (B g' F) as [_ E]. rewrite E in V. discriminate V.
    + pose proof (Wf k' g' At) as F'. assert (k' = k) by congruence. subst k'.
      cbn [releases] in K1. destruct (stage_eqb_spec k k); [|congruence]. cbn [andb] in K1.
      apply negb_false_iff in K1. destruct (fst (snd (astep s (ARepoll k)))); discriminate.
  - apply (IH (fst (astep s o))); auto.
    + apply held_wf_step, Wf.
    + apply held_step; assumption.
Qed.

(** a pending push is stored exactly once, by the re-poll that finally answers, with the value it was created with:
    the erased history of "keep [Push v] (Pending) ; anything that does not release it ; re-poll (answers)" is the
    erased middle part - in which the producer performs nothing at all, no other push in particular - followed by
    exactly one [Push v]. *)
Theorem pending_push_stored_once v s mid :
  let s1 := fst (astep s (AHold (Push v))) in
  let s2 := fst (arun s1 mid) in
  held_wf s ->
  fst (snd (astep s (AHold (Push v)))) = OPending ->
  kept P s1 mid = true ->
  visible (fst (snd (astep s2 (ARepoll P)))) = true ->
  erase s (AHold (Push v) :: mid ++ [ARepoll P]) = erase s1 mid ++ [Push v] /\
  (forall g, In g (erase s1 mid) -> future_of g <> Some P) /\
  performed s2 (ARepoll P) = Some (Push v) /\
  tget P (held (fst (astep s2 (ARepoll P)))) = None.
Proof.
  cbv zeta. intros Wf X K V.
  destruct (hold_pending s (Push v) X) as (k & F & _ & Hh). cbn [future_of] in F. inversion F; subst k; clear F.
  pose proof (held_kept_run P (Push v) mid _ Hh K) as H2.
  set (s1 := fst (astep s (AHold (Push v)))) in *. set (s2 := fst (arun s1 mid)) in *.
  assert (E1 : performed s (AHold (Push v)) = None).
  { unfold performed. cbn [attempt]. rewrite X. reflexivity. }
  assert (E2 : performed s2 (ARepoll P) = Some (Push v)).
  { unfold performed. cbn [attempt]. rewrite H2, V. reflexivity. }
  destruct (astep_repoll_shape s2 (Push v) P H2) as (Eo & _ & Eh).
  repeat match goal with |- _ /\ _ => split end.
  - cbn [erase]. fold s1. rewrite E1. cbn [app]. rewrite erase_app. fold s2. cbn [erase]. rewrite E2. reflexivity.
  - apply (kept_no_future_on P (Push v) mid s1); auto. apply held_wf_step, Wf.
  - exact E2.
  - rewrite Eh. rewrite Eo in V. destruct (fst (snd (poll P (Push v) s2))); try discriminate V; apply tget_tset_same.
Qed.

(** ... or never: a push future dropped while Pending contributes nothing - the value went back to the caller with
    the Pending answer (no [LTake v] anywhere: the Pending polls have no ledger event, [async_refines]) *)
Theorem dropped_push_not_stored v s mid :
  let s1 := fst (astep s (AHold (Push v))) in
  let s2 := fst (arun s1 mid) in
  held_wf s ->
  fst (snd (astep s (AHold (Push v)))) = OPending ->
  kept P s1 mid = true ->
  erase s (AHold (Push v) :: mid ++ [ADropFut P]) = erase s1 mid /\
  (forall g, In g (erase s1 mid) -> future_of g <> Some P) /\
  astep s2 (ADropFut P) = (set_held P None s2, (OUnit, [])) /\
  tget P (held (fst (astep s2 (ADropFut P)))) = None.
Proof.
  cbv zeta. intros Wf X K.
  destruct (hold_pending s (Push v) X) as (k & F & _ & Hh). cbn [future_of] in F. inversion F; subst k; clear F.
  pose proof (held_kept_run P (Push v) mid _ Hh K) as H2.
  set (s1 := fst (astep s (AHold (Push v)))) in *. set (s2 := fst (arun s1 mid)) in *.
  assert (E1 : performed s (AHold (Push v)) = None).
  { unfold performed. cbn [attempt]. rewrite X. reflexivity. }
  assert (E3 : astep s2 (ADropFut P) = (set_held P None s2, (OUnit, []))).
  { cbn [astep]. rewrite H2. reflexivity. }
  repeat match goal with |- _ /\ _ => split end.
  - cbn [erase]. fold s1. rewrite E1. cbn [app]. rewrite erase_app. fold s2. cbn [erase performed attempt].
    rewrite app_nil_r. reflexivity.
  - apply (kept_no_future_on P (Push v) mid s1); auto. apply held_wf_step, Wf.
  - exact E3.
  - rewrite E3. reflexivity.
Qed.

(** what the answering re-poll of a kept [Push v] does, in Spec terms: it answers [Ok], takes ownership of exactly
    [v], and [v] is what the producer's position holds afterwards *)
Theorem resolved_push_result v s a :
  Rel (base s) a -> tget P (held s) = Some (Push v) ->
  visible (fst (snd (astep s (ARepoll P)))) = true ->
  let s' := fst (astep s (ARepoll P)) in
  let a' := fst (sstep a (Push v)) in
  Rel (base s') a' /\
  snd (astep s (ARepoll P)) = (OOk, a_ev a (store_ev SAssign (a_cell (tP (lpos a)) a) ++ [LTake v])) /\
  nth (tP (lpos a)) (tape a') 0%N = v /\ tP (lpos a') = tP (lpos a) + 1 /\
  tget P (held s') = None.
Proof.
  cbv zeta. intros R Hh V.
  assert (Pf : performed s (ARepoll P) = Some (Push v)).
  { unfold performed. cbn [attempt]. rewrite Hh, V. reflexivity. }
  destruct (astep_performed s a (ARepoll P) (Push v) R Pf eq_refl) as [R1 E].
  destruct (astep_repoll_shape s (Push v) P Hh) as (Eo & _ & Eh).
  pose proof (poll_out_not_refused P (Push v) s) as NR. rewrite <- Eo, E in NR.
  rewrite E in V |- *.
  assert (Hl : tP (lpos a) < length (tape a)).
  { pose proof (r_tape _ _ R). pose proof (r_oP _ _ R). pose proof (r_pos _ _ R). lia. }
  destruct (a_attached P a) eqn:G; [|cbn [sstep] in V; rewrite G in V; discriminate V].
  assert (S : sstep a (Push v) =
              (fst (sstep a (Push v)), (OOk, a_ev a (store_ev SAssign (a_cell (tP (lpos a)) a) ++ [LTake v])))).
  { destruct (1 <=? a_avail P a) eqn:Av.
    - cbn [sstep]. rewrite G. unfold a_push. rewrite Av. unfold a_rete, a_ev, a_advance. cbn [fst].
      destruct (tget P (sdet (a_set_tape (upd (tget P (lpos a)) v (tape a)) a))); reflexivity.
    - exfalso. cbn [sstep] in NR. rewrite G in NR. unfold a_push in NR. rewrite Av in NR. discriminate NR. }
  destruct (C01_push_position a v _ _ G S Hl) as [T L].
  repeat match goal with |- _ /\ _ => split end; auto.
  - rewrite S at 1. reflexivity.
  - rewrite Eh, <- Eo, E. rewrite S at 1. cbn [fst snd is_pending]. apply tget_tset_same.
Qed.

(** ** 6. A future polled after its condition has become true completes *)

(** (4) on the Model: if the synchronous operation would succeed on the buffer as it is, then the re-poll of the kept
    future / a fresh poll / a fresh poll-and-keep answers - not Pending - with exactly the synchronous result, moves
    the buffer exactly as the synchronous operation does, and leaves the iterator free.  No relation, no contract. *)
Theorem completes_when_possible k f s :
  refused (fst (snd (step (base s) f))) = false ->
  let sync := step (base s) f in
  (tget k (held s) = Some f ->
     astep s (ARepoll k) = (set_held k None (set_base (fst sync) s), snd sync) /\
     fst (snd (astep s (ARepoll k))) <> OPending /\
     tget k (held (fst (astep s (ARepoll k)))) = None) /\
  (future_of f = Some k -> gate_fut k s = true ->
     astep s (APoll f) = (set_base (fst sync) s, snd sync) /\
     astep s (AHold f) = (set_base (fst sync) s, snd sync) /\
     fst (snd (astep s (AHold f))) <> OPending /\
     tget k (held (fst (astep s (APoll f)))) = None /\
     tget k (held (fst (astep s (AHold f)))) = None).
Proof.
  intros Rf. cbv zeta. pose proof (poll_not_refused k f s Rf) as Ep.
  pose proof (step_not_pending (base s) f) as Np.
  split.
  - intros Hh.
    assert (E : astep s (ARepoll k) = (set_held k None (set_base (fst (step (base s) f)) s), snd (step (base s) f))).
    { cbn [astep]. rewrite Hh, Ep. destruct (step (base s) f) as [m1 [x e]]. cbn [fst snd] in *.
      destruct x; try reflexivity. exfalso. apply Np. reflexivity. }
    rewrite E. cbn [fst snd held set_held set_base]. repeat match goal with |- _ /\ _ => split end; auto.
    apply tget_tset_same.
  - intros F G.
    assert (Fr : tget k (held s) = None).
    { unfold gate_fut, free_iter in G. destruct (tget k (held s)); [discriminate G | reflexivity]. }
    assert (E1 : astep s (APoll f) = (set_base (fst (step (base s) f)) s, snd (step (base s) f))).
    { rewrite (astep_poll_shape s f k F G). exact Ep. }
    assert (E2 : astep s (AHold f) = (set_base (fst (step (base s) f)) s, snd (step (base s) f))).
    { unfold gate_fut in G. cbn [astep]. rewrite F, G, Ep. destruct (step (base s) f) as [m1 [x e]]. cbn [fst snd] in *.
      destruct x; try reflexivity. exfalso. apply Np. reflexivity. }
    rewrite E1, E2. cbn [fst snd held set_base]. repeat match goal with |- _ /\ _ => split end; auto.
Qed.

(** (4) on the Spec - "its condition has become true" is a fact about the buffer, not about what the iterator
    remembers: whatever the (possibly stale) remembered availability says, if the TRUE state of the buffer lets the
    operation succeed, then the kept future completes at its next poll, with the Spec's result. *)
Theorem completes_when_condition_true k f s a :
  Rel (base s) a -> held_wf s -> tget k (held s) = Some f ->
  refused (fst (snd (sstep a f))) = false ->
  fst (snd (astep s (ARepoll k))) <> OPending /\
  snd (astep s (ARepoll k)) = snd (sstep a f) /\
  Rel (base (fst (astep s (ARepoll k)))) (fst (sstep a f)) /\
  tget k (held (fst (astep s (ARepoll k)))) = None.
Proof.
  intros R Wf Hh Rs.
  pose proof (future_ok a f k (Wf k f Hh)) as OK.
  destruct (step_refines _ _ f R OK) as [E R1].
  assert (Rf : refused (fst (snd (step (base s) f))) = false) by (rewrite E; exact Rs).
  destruct (completes_when_possible k f s Rf) as [A _]. destruct (A Hh) as (Ea & Np & Hn).
  repeat match goal with |- _ /\ _ => split end; auto.
  - rewrite Ea. cbn [snd]. exact E.
  - rewrite Ea. cbn [fst base set_held set_base]. exact R1.
Qed.

(** ... and conversely a kept future whose condition is still false stays Pending and stays kept *)
Theorem pending_while_condition_false k f s a :
  Rel (base s) a -> held_wf s -> tget k (held s) = Some f ->
  refused (fst (snd (sstep a f))) = true ->
  snd (astep s (ARepoll k)) = (OPending, []) /\
  Rel (base (fst (astep s (ARepoll k)))) a /\
  tget k (held (fst (astep s (ARepoll k)))) = Some f.
Proof.
  intros R Wf Hh Rs.
  pose proof (future_ok a f k (Wf k f Hh)) as OK.
  destruct (step_refines _ _ f R OK) as [E _].
  assert (Rf : refused (fst (snd (step (base s) f))) = true) by (rewrite E; exact Rs).
  destruct (poll_pending s a k f R OK Rf) as (m2 & Ep & R2 & _).
  destruct (astep_repoll_shape s f k Hh) as (Eo & Eb & Eh). rewrite Eo, Eb, Eh, Ep. cbn [fst snd is_pending base register set_base].
  auto.
Qed.

(** ** 7. Examples *)

(** a two-slot buffer of plain numbers holds one item.  The second push is Pending (buffer full), its value is kept;
    the consumer pops; the re-poll stores the kept value. *)
Definition ex1_cfg := mkConfig [0;0]%N false true false.
Definition ex1_hist : list aop :=
  [APoll (Push 7); AHold (Push 8); ARepoll P; APoll Pop; ARepoll P; APoll Pop; APoll Pop]%N.

Example ex1_run :
  match init ex1_cfg with
  | Some m =>
      let s := a_init_state m in
      map fst (snd (arun s ex1_hist)) = [OOk; OPending; OPending; OVal 7; OOk; OVal 8; OPending]%N /\
      erase s ex1_hist = [Push 7; Pop; Push 8; Pop]%N /\
      obs s ex1_hist = [(OOk, []); (OVal 7, []); (OOk, []); (OVal 8, [])]%N /\
      obs s ex1_hist = snd (run m (erase s ex1_hist)) /\
      slots (base (fst (arun s ex1_hist))) = [7; 8]%N /\
      held (fst (arun s ex1_hist)) = mkTri None None None
  | None => False
  end.
Proof. vm_compute. repeat split; reflexivity. Qed.

(** three slots of owned items (two in flight at most), a task switch and a direct call while the push is kept, a
    second push that is dropped while Pending: it is not in the erased history and its value is never taken. *)
Definition ex2_cfg := mkConfig [1;2;3]%N false true true.
Definition ex2_hist : list aop :=
  [APoll (Push 10); APoll (Push 11); AHold (Push 12); ASetTask 1; ARepoll P; ADirect (Avail P); ADirect (Avail C);
   APoll PopMove; ARepoll P; AHold (Push 13); ADropFut P; APoll PopMove]%N.

Example ex2_run :
  match init ex2_cfg, a_init ex2_cfg with
  | Some m, Some a =>
      let s := a_init_state m in
      map fst (snd (arun s ex2_hist)) =
        [OOk; OOk; OPending; OUnit; OPending; OBad; ONum 2; OVal 10; OOk; OPending; OUnit; OVal 11]%N /\
      erase s ex2_hist = [Push 10; Push 11; Avail C; PopMove; Push 12; PopMove]%N /\
      obs s ex2_hist = [(OOk, [LDrop 1; LTake 10]); (OOk, [LDrop 2; LTake 11]); (ONum 2, []); (OVal 10, [LGive 10]);
                        (OOk, [LDrop 3; LTake 12]); (OVal 11, [LGive 11])]%N /\
      snd (srun a (erase s ex2_hist)) = true /\
      obs s ex2_hist = snd (fst (srun a (erase s ex2_hist))) /\
      ledger (snd (arun s ex2_hist)) = [LDrop 1; LTake 10; LDrop 2; LTake 11; LGive 10; LDrop 3; LTake 12; LGive 11]%N /\
      slots (base (fst (arun s ex2_hist))) = [0; 0; 12]%N /\
      tget P (wk (fst (arun s ex2_hist))) = Some 1 /\ wakes (fst (arun s ex2_hist)) = 0
  | _, _ => False
  end.
Proof. vm_compute. repeat split; reflexivity. Qed.

(** a poll can also answer OBad - the future was created on an iterator that is gone: such a step performs nothing *)
Example ex3_run :
  match init ex1_cfg with
  | Some m =>
      let s := a_init_state m in
      let h := [ADirect (DropIter P); APoll (Push 5); APoll Pop]%N in
      map fst (snd (arun s h)) = [OUnit; OBad; OPending] /\ erase s h = [DropIter P]
  | None => False
  end.
Proof. vm_compute. repeat split; reflexivity. Qed.

Print Assumptions async_refines.
Print Assumptions async_is_sync.
Print Assumptions held_value_kept.
Print Assumptions held_kept_run.
Print Assumptions pending_push_stored_once.
Print Assumptions dropped_push_not_stored.
Print Assumptions resolved_push_result.
Print Assumptions completes_when_possible.
Print Assumptions completes_when_condition_true.
Print Assumptions pending_while_condition_false.
