(** * D-tie: the DATA-TOUCHING functions TRANSLATED FROM THE RUST SOURCE on every run (gen/DataFns.v) do, for all inputs, exactly
      what the functions of the executable Model do (Model/Seq.v: [grant_one], [grant], [push], [push_slice], [pop],
      [extract_item], [extract_slice] and the [step] cases built from them) - same result, same cells, same local index and
      remembered availability, same publications, same clone identities, the same ledger events (as a multiset for the slice
      forms: the crate interleaves per element what the Model lists per kind) - and never hit undefined behaviour
      (out-of-bounds pointer arithmetic, a slice that leaves the allocation, unchecked overflow).
      Preconditions: the iterator's index and its successor's published index lie below [len], the cell array has [len]
      cells, [2*len] is representable. *)
From Coq Require Import List Arith NArith Bool Lia Permutation.
Import ListNotations.
Require Import MRB.Base.Ring MRB.Base.ListAux MRB.Model.Types MRB.Model.Seq MRB.Model.KernelM MRB.Model.DataM.
Require Import MRB.gen.Kernels MRB.gen.DataFns MRB.Proofs.KernelTie.

Opaque usize_max.

(** the iterator's own [_available], as translated *)
Definition avail_kernel (k : stage) (E : env) : M nat :=
  match k with P => g_prod_available E | W => g_work_available E | C => g_cons_available E end.

Definition env_of (k : stage) (s : mstate) : env := mkE (succ_idx k s) (mlen s).
Definition denv_of (k : stage) (s : mstate) (src : list cell) : denv :=
  mkDE (env_of k s) (avail_kernel k (env_of k s)) (owned s) src.
Definition local_of (k : stage) (s : mstate) : lst := mkL (ix (it_of k s)) (ca (it_of k s)).
(** what the translated code sees of a Model state *)
Definition view (k : stage) (s : mstate) (out : list cell) : dst :=
  mkD (local_of k s) (slots s) [] [] (nid s) out.

Record wf (k : stage) (s : mstate) : Prop := mkWf {
  wf_ix : ix (it_of k s) < mlen s;
  wf_succ : succ_idx k s < mlen s;
  wf_slots : length (slots s) = mlen s;
  wf_max : mlen s + mlen s < usize_max;
  wf_ca : ca (it_of k s) <= mlen s        (* the remembered availability never exceeds the true one (Rel, I3), which is below len *)
}.

(** ** the kernels, lifted *)
Lemma avail_kernel_run k s : wf k s ->
  run (avail_kernel k (env_of k s)) (local_of k s) = Some (fresh k s, mkL (ix (it_of k s)) (fresh k s), []).
Proof.
  intros [H1 H2 H3 H4 _]. unfold env_of, local_of, fresh, avail_of.
  destruct k; simpl; [apply tie_prod_available | apply tie_work_available | apply tie_cons_available]; auto.
Qed.

Lemma check_run k n s : wf k s ->
  run (g_check (env_of k s) (avail_kernel k (env_of k s)) n) (local_of k s) =
  Some (fst (check k n s), local_of k (snd (check k n s)), []).
Proof.
  intros Hwf. pose proof (avail_kernel_run k s Hwf) as A. unfold run in A.
  unfold g_check, run, KernelM.bind, get_cached, orelse, geb, KernelM.ret, check, refresh, local_of in *. cbn [l_cached].
  destruct (n <=? ca (it_of k s)) eqn:C; cbn [fst snd]; [reflexivity|].
  rewrite A. unfold set_ca, it_of, set_it. cbn [its ix ca]. rewrite tget_tset_same. reflexivity.
Qed.

Lemma check_keeps_all k n s :
  let s1 := snd (check k n s) in
  slots s1 = slots s /\ mlen s1 = mlen s /\ pub s1 = pub s /\ nid s1 = nid s /\ owned s1 = owned s /\
  ix (it_of k s1) = ix (it_of k s) /\ succ_idx k s1 = succ_idx k s /\ det (it_of k s1) = det (it_of k s).
Proof.
  unfold check, refresh. destruct (n <=? ca (it_of k s)); cbn [snd]; [repeat split|].
  unfold set_ca, set_it, it_of, succ_idx. cbn. rewrite tget_tset_same. cbn. destruct k; repeat split.
Qed.

Lemma wf_check k n s : wf k s -> wf k (snd (check k n s)).
Proof.
  intros [H1 H2 H3 H4 H5]. destruct (check_keeps_all k n s) as (A & B & _ & _ & _ & F & G & _).
  constructor; rewrite ?A, ?B, ?F, ?G; auto.
  unfold check, refresh. destruct (n <=? ca (it_of k s)); cbn [snd]; [exact H5|].
  unfold set_ca, set_it, it_of. cbn. rewrite tget_tset_same. cbn.
  unfold fresh, avail_of, pavail, dist. destruct k; cases; lia.
Qed.

Lemma advance_run k n s : wf k s -> n <= mlen s ->
  run (g_advance (env_of k s) n) (local_of k s) =
  Some (tt, mkL (wadd (mlen s) (ix (it_of k s)) n) (ca (it_of k s) - n), [wadd (mlen s) (ix (it_of k s)) n]).
Proof. intros [H1 H2 H3 H4 _] Hn. unfold env_of, local_of. apply tie_advance; auto. Qed.

(** the Model's [advance] of an attached iterator, componentwise *)
Lemma advance_attached k n s : det (it_of k s) = false ->
  local_of k (advance k n s) = mkL (wadd (mlen s) (ix (it_of k s)) n) (ca (it_of k s) - n) /\
  tget k (pub (advance k n s)) = wadd (mlen s) (ix (it_of k s)) n /\
  slots (advance k n s) = slots s /\ nid (advance k n s) = nid s /\ mlen (advance k n s) = mlen s /\ owned (advance k n s) = owned s.
Proof.
  intros D. unfold advance, local_of. rewrite D. unfold set_pub, set_ix_ca, set_it, it_of. cbn.
  rewrite !tget_tset_same. cbn. repeat split.
Qed.

(** ** how a translated run and a Model result agree *)
Record agrees (k : stage) (s' : mstate) (pubs : list nat) (evs : list lev) (d : dst) : Prop := mkAg {
  ag_l : d_l d = local_of k s';
  ag_slots : d_slots d = slots s';
  ag_pubs : d_pubs d = pubs;
  ag_evs : Permutation (d_evs d) evs;
  ag_nid : d_nid d = nid s'
}.

Ltac dm := unfold drun, dbind, dret, then_, cell_at, inner_ref, take_inner, inner_duplicate, rd, st, emit, assign_move, write_move,
  assign, write_, store_mode, check_zeroed, clone_, is_buf, set_slots_d, set_out_d, buf_ptr; cbn [d_l d_slots d_pubs d_evs d_nid d_out dn_E dn_avail dn_owned dn_src denv_of].

(** rewriting [lift (g_check ..)] on a state whose local part is [local_of k s] *)
Lemma lift_check k n s sl pubs evs nid out : wf k s ->
  lift (g_check (env_of k s) (avail_kernel k (env_of k s)) n) (mkD (local_of k s) sl pubs evs nid out) =
  Some (fst (check k n s), mkD (local_of k (snd (check k n s))) sl pubs evs nid out).
Proof.
  intros Hwf. unfold lift. cbn [d_l d_slots d_pubs d_evs d_nid d_out].
  pose proof (check_run k n s Hwf) as R. unfold run in R. rewrite R. rewrite app_nil_r. reflexivity.
Qed.

Lemma lift_avail k s sl pubs evs nid out : wf k s ->
  lift (avail_kernel k (env_of k s)) (mkD (local_of k s) sl pubs evs nid out) =
  Some (fresh k s, mkD (local_of k (fst (refresh k s))) sl pubs evs nid out).
Proof.
  intros Hwf. unfold lift. cbn [d_l d_slots d_pubs d_evs d_nid d_out].
  pose proof (avail_kernel_run k s Hwf) as R. unfold run in R. rewrite R. rewrite app_nil_r.
  unfold refresh, local_of, set_ca, set_it, it_of. cbn. rewrite tget_tset_same. reflexivity.
Qed.

Lemma lift_advance k n s0 s sl pubs evs nid out : wf k s -> n <= mlen s -> env_of k s0 = env_of k s ->
  lift (g_advance (env_of k s0) n) (mkD (local_of k s) sl pubs evs nid out) =
  Some (tt, mkD (mkL (wadd (mlen s) (ix (it_of k s)) n) (ca (it_of k s) - n)) sl
                (pubs ++ [wadd (mlen s) (ix (it_of k s)) n]) evs nid out).
Proof.
  intros Hwf Hn He. unfold lift. cbn [d_l d_slots d_pubs d_evs d_nid d_out]. rewrite He.
  pose proof (advance_run k n s Hwf Hn) as R. unfold run in R. rewrite R. reflexivity.
Qed.

Lemma env_check k n s : env_of k (snd (check k n s)) = env_of k s.
Proof. destruct (check_keeps_all k n s) as (_ & B & _ & _ & _ & _ & G & _). unfold env_of. rewrite B, G. reflexivity. Qed.

(** a granted request of [n] leaves at least [n] in the remembered availability: the window the iterator holds covers what it asked for *)
Lemma check_grants k n s s1 : check k n s = (true, s1) -> n <= ca (it_of k s1).
Proof.
  unfold check, refresh. destruct (n <=? ca (it_of k s)) eqn:E0; intros H; inversion H; subst.
  - apply Nat.leb_le. exact E0.
  - unfold set_ca, set_it, it_of. cbn [its]. rewrite tget_tset_same. cbn [ca]. apply Nat.leb_le. assumption.
Qed.

(** the cell at the local index lies in the window as soon as one slot is held; the cell [j] further on (no wrap) when more than [j] are *)
Lemma window_here ix0 ca0 sl pubs evs nid out : 1 <= ca0 -> in_window (mkD (mkL ix0 ca0) sl pubs evs nid out) ix0 = true.
Proof. intros H. unfold in_window. cbn [d_l d_slots l_index l_cached]. rewrite Nat.leb_refl. apply Nat.ltb_lt. lia. Qed.
Lemma window_ahead ix0 ca0 sl pubs evs nid out j : j < ca0 -> in_window (mkD (mkL ix0 ca0) sl pubs evs nid out) (ix0 + j) = true.
Proof.
  intros H. unfold in_window. cbn [d_l d_slots l_index l_cached].
  replace (ix0 <=? ix0 + j) with true by (symmetry; apply Nat.leb_le; lia). apply Nat.ltb_lt. lia.
Qed.
Lemma window_wrapped ix0 ca0 sl pubs evs nid out i : i < ix0 -> ix0 <= length sl -> i + length sl - ix0 < ca0 ->
  in_window (mkD (mkL ix0 ca0) sl pubs evs nid out) i = true.
Proof.
  intros H H1 H2. unfold in_window. cbn [d_l d_slots l_index l_cached].
  replace (ix0 <=? i) with false by (symmetry; apply Nat.leb_gt; lia). apply Nat.ltb_lt. lia.
Qed.

Lemma window_here_l k s1 sl pubs evs nid out : 1 <= ca (it_of k s1) ->
  in_window (mkD (local_of k s1) sl pubs evs nid out) (ix (it_of k s1)) = true.
Proof. apply window_here. Qed.

Lemma ltb01 : (0 <? 1) = true. Proof. reflexivity. Qed.
Lemma ltb_true a b : a < b -> (a <? b) = true. Proof. intros. apply Nat.ltb_lt. auto. Qed.
Lemma leb_true a b : a <= b -> (a <=? b) = true. Proof. intros. apply Nat.leb_le. auto. Qed.

Lemma lift_get_index l sl pubs evs nid out :
  lift get_index (mkD l sl pubs evs nid out) = Some (l_index l, mkD l sl pubs evs nid out).
Proof. unfold lift, get_index. cbn. rewrite app_nil_r. destruct l; reflexivity. Qed.

Lemma lift_buf_len E l sl pubs evs nid out :
  lift (buf_len E) (mkD l sl pubs evs nid out) = Some (e_len E, mkD l sl pubs evs nid out).
Proof. unfold lift, buf_len, KernelM.ret. cbn. rewrite app_nil_r. destruct l; reflexivity. Qed.

Lemma lift_uadd a b l sl pubs evs nid out : a + b < usize_max ->
  lift (uadd a b) (mkD l sl pubs evs nid out) = Some (a + b, mkD l sl pubs evs nid out).
Proof. intros H. unfold lift, uadd. cbn. rewrite (ltb_true _ _ H), app_nil_r. reflexivity. Qed.
Lemma lift_usub a b l sl pubs evs nid out : b <= a ->
  lift (usub a b) (mkD l sl pubs evs nid out) = Some (a - b, mkD l sl pubs evs nid out).
Proof. intros H. unfold lift, usub. cbn. rewrite (leb_true _ _ H), app_nil_r. reflexivity. Qed.
Lemma ptr_add_ok o i l sl pubs evs nid out : o + i <= length sl ->
  ptr_add (LBuf o) i (mkD l sl pubs evs nid out) = Some (LBuf (o + i), mkD l sl pubs evs nid out).
Proof. intros H. unfold ptr_add. cbn. rewrite (leb_true _ _ H). reflexivity. Qed.
Lemma raw_parts_ok o n l sl pubs evs nid out : o + n <= length sl ->
  raw_parts (LBuf o) n (mkD l sl pubs evs nid out) = Some (mkSl RBuf o n, mkD l sl pubs evs nid out).
Proof. intros H. unfold raw_parts. cbn. rewrite (leb_true _ _ H). reflexivity. Qed.

(** ** single items: [next_ref] / [next_ref_mut] / [next_ref_mut_init] = [grant_one] *)
Section One.
Variables (k : stage) (s : mstate) (src out : list cell).
Hypothesis Hwf : wf k s.
Local Notation E := (denv_of k s src).

Lemma ix_check n : ix (it_of k (snd (check k n s))) < length (slots s).
Proof.
  destruct (check_keeps_all k n s) as (_ & _ & _ & _ & _ & F & _). cbv zeta in F. rewrite F.
  destruct Hwf as [H1 _ H3 _ _]. lia.
Qed.

Definition grant_one_res (r : option loc) (d : dst) : Prop :=
  let '(s', (o, _)) := grant_one k s in
  agrees k s' [] [] d /\ d_out d = out /\
  match r, o with
  | Some (LBuf i), ORef j v => i = j /\ v = nth i (slots s) 0%N
  | None, ONone => True
  | _, _ => False
  end.

Ltac one_tac :=
  unfold view, grant_one_res, grant_one; dm;
  rewrite lift_check by exact Hwf; pose proof (ix_check 1) as Hi;
  destruct (check k 1 s) as [g s1] eqn:C; cbn [fst snd] in *;
  destruct (check_keeps_all k 1 s) as (A & B & Pb & Nd & _); rewrite C in *; cbn [snd] in *;
  destruct g; dm;
  [ rewrite lift_get_index; repeat (progress (dm; cbn [local_of l_index]; rewrite ?(ltb_true _ _ Hi)));
    eexists _, _; split; [reflexivity|]; unfold ret; split; [|split]; [constructor; cbn; auto | reflexivity | ];
    split; [reflexivity|]; unfold slot; rewrite A; reflexivity
  | eexists _, _; split; [reflexivity|]; unfold ret; split; [|split]; [constructor; cbn; auto | reflexivity | exact I] ].

Theorem tie_next_ref_mut_init : exists r d, drun (d_next_ref_mut_init E) (view k s out) = Some (r, d) /\ grant_one_res r d.
Proof. unfold d_next_ref_mut_init. one_tac. Qed.

Theorem tie_next_ref : exists r d, drun (d_next_ref E) (view k s out) = Some (r, d) /\ grant_one_res r d.
Proof. unfold d_next_ref. one_tac. Qed.

Theorem tie_next_ref_mut : exists r d, drun (d_next_ref_mut E) (view k s out) = Some (r, d) /\ grant_one_res r d.
Proof. unfold d_next_ref_mut. one_tac. Qed.
End One.



Lemma pass_on_unit (m : DM unit) d : (v <~ m ;; dret tt) d = m d.
Proof. unfold dbind, dret. destruct (m d) as [[[] d']|]; reflexivity. Qed.
Lemma seq_unit (m : DM unit) d : (m ;;~ dret tt) d = m d.
Proof. unfold dbind, dret. destruct (m d) as [[[] d']|]; reflexivity. Qed.

(** wrappers that only pass a call on: the translated body is [v <~ callee ;; dret v] *)
Lemma pass_on {A} (m : DM A) d : (v <~ m ;; dret v) d = m d.
Proof. unfold dbind, dret. destruct (m d) as [[x d']|]; reflexivity. Qed.

(** a wrapper whose translated body only passes the call on (whatever the nesting of blocks around it) *)
Ltac via R G := unfold drun, dbind, dret in *; rewrite R; eexists _, _; split; [reflexivity | exact G].

Theorem tie_single_item_wrappers k s src out : wf k s ->
  (exists r d, drun (d_get_workable (denv_of k s src)) (view k s out) = Some (r, d) /\ grant_one_res k s out r d) /\
  (exists r d, drun (d_get_next_item_mut (denv_of k s src)) (view k s out) = Some (r, d) /\ grant_one_res k s out r d) /\
  (exists r d, drun (d_get_next_item_mut_init (denv_of k s src)) (view k s out) = Some (r, d) /\ grant_one_res k s out r d) /\
  (exists r d, drun (d_peek_ref (denv_of k s src)) (view k s out) = Some (r, d) /\ grant_one_res k s out r d).
Proof.
  intros Hwf.
  destruct (tie_next_ref_mut k s src out Hwf) as (r1 & d1 & R1 & G1).
  destruct (tie_next_ref_mut_init k s src out Hwf) as (r2 & d2 & R2 & G2).
  destruct (tie_next_ref k s src out Hwf) as (r3 & d3 & R3 & G3).
  repeat split; [unfold d_get_workable; via R1 G1 | unfold d_get_next_item_mut; via R1 G1 | unfold d_get_next_item_mut_init; via R2 G2 | unfold d_peek_ref; via R3 G3].
Qed.

(** ** [next] / [next_duplicate] = [pop] *)
Section Pop.
Variables (s : mstate) (src out : list cell).
Hypothesis Hwf : wf C s.
Hypothesis Hatt : det (it_of C s) = false.
Local Notation E := (denv_of C s src).

Definition pop_res (mv : bool) (r : option cell) (d : dst) : Prop :=
  let '(s', (o, evs)) := pop mv s in
  agrees C s' (match r with Some _ => [tC (pub s')] | None => [] end) evs d /\ d_out d = out /\
  match r, o with Some v, OVal v' => v = v' | None, ONone => True | _, _ => False end.

Lemma one_le_len k s0 : wf k s0 -> 1 <= mlen s0.
Proof. intros [H _ _ _ _]. lia. Qed.

Theorem tie_next : exists r d, drun (d_next E) (view C s out) = Some (r, d) /\ pop_res true r d.
Proof.
  unfold d_next, view, pop_res, pop. dm. cbn [denv_of dn_E dn_avail dn_owned dn_src].
  rewrite lift_check by exact Hwf. pose proof (ix_check C s Hwf 1) as Hi.
  pose proof (wf_check C 1 s Hwf) as Hwf1. pose proof (env_check C 1 s) as He.
  destruct (check C 1 s) as [g s1] eqn:Ck. cbn [fst snd] in *.
  destruct (check_keeps_all C 1 s) as (A & B & Pb & Nd & Ow & Ix & Sc & Dt). rewrite Ck in *. cbn [snd] in *.
  destruct g; dm.
  - pose proof (check_grants _ _ _ _ Ck) as Hg.
    rewrite lift_get_index. repeat (progress (dm; cbn [local_of l_index andb]; rewrite ?(ltb_true _ _ Hi), ?(window_here_l C s1), ?window_here by exact Hg)).
    rewrite (lift_advance C 1 s s1) by (first [exact Hwf1 | exact (one_le_len _ _ Hwf1) | exact He | symmetry; exact He]).
    set (s2 := set_slots (upd (ix (it_of C s1)) 0%N (slots s1)) s1).
    assert (D2 : det (it_of C s2) = false) by (unfold s2, set_slots, it_of in *; cbn [its] in *; congruence).
    destruct (advance_attached C 1 s2 D2) as (L & Pu & Sl & Ni & Ml & Oa).
    eexists _, _. split; [reflexivity|]. unfold rete, slot. cbn [fst snd].
    split; [|split]; [constructor; cbn [d_l d_slots d_pubs d_evs d_nid] | reflexivity | rewrite A; reflexivity].
    + rewrite L. reflexivity.
    + rewrite Sl. unfold s2. cbn. rewrite A. reflexivity.
    + cbn [tget] in Pu. rewrite Pu. unfold s2. reflexivity.
    + unfold ev. rewrite Oa. unfold s2. cbn [owned set_slots]. rewrite Ow, A.
      destruct (owned s); cbn; [|constructor]. destruct (isz _); apply Permutation_refl.
    + rewrite Ni. unfold s2. cbn. auto.
  - eexists _, _. split; [reflexivity|]. unfold ret. split; [|split]; [constructor; cbn; auto | reflexivity | exact I].
Qed.

Theorem tie_next_duplicate : exists r d, drun (d_next_duplicate E) (view C s out) = Some (r, d) /\ pop_res false r d.
Proof.
  unfold d_next_duplicate, view, pop_res, pop. dm. cbn [denv_of dn_E dn_avail dn_owned dn_src].
  rewrite lift_check by exact Hwf. pose proof (ix_check C s Hwf 1) as Hi.
  pose proof (wf_check C 1 s Hwf) as Hwf1. pose proof (env_check C 1 s) as He.
  destruct (check C 1 s) as [g s1] eqn:Ck. cbn [fst snd] in *.
  destruct (check_keeps_all C 1 s) as (A & B & Pb & Nd & Ow & Ix & Sc & Dt). rewrite Ck in *. cbn [snd] in *.
  destruct g; dm.
  - pose proof (check_grants _ _ _ _ Ck) as Hg.
    rewrite lift_get_index. repeat (progress (dm; cbn [local_of l_index andb]; rewrite ?(ltb_true _ _ Hi), ?(window_here_l C s1), ?window_here by exact Hg)).
    rewrite (lift_advance C 1 s s1) by (first [exact Hwf1 | exact (one_le_len _ _ Hwf1) | exact He | symmetry; exact He]).
    assert (D2 : det (it_of C s1) = false) by congruence.
    destruct (advance_attached C 1 s1 D2) as (L & Pu & Sl & Ni & Ml & Oa).
    eexists _, _. split; [reflexivity|]. unfold rete, slot. cbn [fst snd].
    split; [|split]; [constructor; cbn [d_l d_slots d_pubs d_evs d_nid] | reflexivity | rewrite A; reflexivity].
    + rewrite L. reflexivity.
    + rewrite Sl. auto.
    + cbn [tget] in Pu. rewrite Pu. reflexivity.
    + unfold ev. rewrite Oa, Ow, A.
      destruct (owned s); cbn; [|constructor]. destruct (isz _); apply Permutation_refl.
    + rewrite Ni. auto.
  - eexists _, _. split; [reflexivity|]. unfold ret. split; [|split]; [constructor; cbn; auto | reflexivity | exact I].
Qed.

Theorem tie_pop_wrappers :
  (exists r d, drun (d_pop_move E) (view C s out) = Some (r, d) /\ pop_res true r d) /\
  (exists r d, drun (d_pop E) (view C s out) = Some (r, d) /\ pop_res false r d).
Proof.
  destruct tie_next as (r1 & d1 & R1 & G1). destruct tie_next_duplicate as (r2 & d2 & R2 & G2).
  split; [unfold d_pop_move; via R1 G1 | unfold d_pop; via R2 G2].
Qed.
End Pop.

(** ** [_push] with the closures of [push] / [push_init] = the Model's [push] *)
Section Push.
Variables (s : mstate) (src out : list cell) (v : cell).
Hypothesis Hwf : wf P s.
Hypothesis Hatt : det (it_of P s) = false.
Local Notation E := (denv_of P s src).

Definition push_res (m : smode) (r : result unit cell) (d : dst) : Prop :=
  let '(s', (o, evs)) := push m v s in
  agrees P s' (match r with Ok _ => [tP (pub s')] | Err _ => [] end) evs d /\ d_out d = out /\
  match r, o with Ok _, OOk => True | Err x, OErr y => x = y /\ x = v | _, _ => False end.

Ltac push_tac :=
  unfold view, push_res, push; dm; cbn [denv_of dn_E dn_avail dn_owned dn_src];
  rewrite lift_check by exact Hwf; pose proof (ix_check P s Hwf 1) as Hi;
  pose proof (wf_check P 1 s Hwf) as Hwf1; pose proof (env_check P 1 s) as He;
  destruct (check P 1 s) as [g s1] eqn:Ck; cbn [fst snd] in *;
  destruct (check_keeps_all P 1 s) as (A & B & Pb & Nd & Ow & Ix & Sc & Dt); rewrite Ck in *; cbn [snd] in *;
  destruct g; dm;
  [ pose proof (check_grants _ _ _ _ Ck) as Hg;
    rewrite lift_get_index; repeat (progress (dm; cbn [local_of l_index andb]; rewrite ?(ltb_true _ _ Hi), ?(window_here_l P s1), ?window_here by exact Hg))
  | eexists _, _; split; [reflexivity|]; unfold ret; split; [|split]; [constructor; cbn; auto | reflexivity | split; reflexivity] ].

Theorem tie_push : exists r d, drun (d_push E v) (view P s out) = Some (r, d) /\ push_res SAssign r d.
Proof.
  unfold d_push, d__push, d_next_ref_mut_init, d_advance. push_tac.
  rewrite (lift_advance P 1 s s1) by (first [exact Hwf1 | exact (one_le_len _ _ Hwf1) | symmetry; exact He]).
  set (s2 := set_slots (upd (ix (it_of P s1)) v (slots s1)) s1).
  assert (D2 : det (it_of P s2) = false) by (unfold s2, set_slots, it_of in *; cbn [its] in *; congruence).
  destruct (advance_attached P 1 s2 D2) as (L & Pu & Sl & Ni & Ml & Oa).
  eexists _, _. split; [reflexivity|]. unfold rete, slot. cbn [fst snd].
  split; [|split]; [constructor; cbn [d_l d_slots d_pubs d_evs d_nid] | reflexivity | exact I].
  - rewrite L. reflexivity.
  - rewrite Sl. unfold s2. cbn. rewrite A. reflexivity.
  - cbn [tget] in Pu. rewrite Pu. unfold s2. reflexivity.
  - unfold ev. rewrite Oa. unfold s2. cbn [owned set_slots]. rewrite Ow, A.
    destruct (owned s); cbn [app]; [|constructor]. apply Permutation_refl.
  - rewrite Ni. unfold s2. cbn. auto.
Qed.

Theorem tie_push_init : exists r d, drun (d_push_init E v) (view P s out) = Some (r, d) /\ push_res SInit r d.
Proof.
  unfold d_push_init, d__push, d_next_ref_mut_init, d_advance. push_tac.
  set (old := nth (ix (it_of P s1)) (slots s) 0%N).
  destruct (isz old) eqn:Z; repeat (progress (dm; cbn [local_of l_index andb]; rewrite ?(ltb_true _ _ Hi), ?(window_here_l P s1), ?window_here by exact Hg));
  rewrite (lift_advance P 1 s s1) by (first [exact Hwf1 | exact (one_le_len _ _ Hwf1) | symmetry; exact He]);
  set (s2 := set_slots (upd (ix (it_of P s1)) v (slots s1)) s1);
  (assert (D2 : det (it_of P s2) = false) by (unfold s2, set_slots, it_of in *; cbn [its] in *; congruence));
  destruct (advance_attached P 1 s2 D2) as (L & Pu & Sl & Ni & Ml & Oa);
  (eexists _, _; split; [reflexivity|]); unfold rete, slot; cbn [fst snd];
  (split; [|split]; [constructor; cbn [d_l d_slots d_pubs d_evs d_nid] | reflexivity | exact I]);
  try (rewrite L; reflexivity); try (rewrite Sl; unfold s2; cbn; rewrite A; reflexivity);
  try (cbn [tget] in Pu; rewrite Pu; unfold s2; reflexivity); try (rewrite Ni; unfold s2; cbn; auto; fail);
  unfold ev; rewrite Oa; unfold s2; cbn [owned set_slots]; rewrite Ow, A; fold old; unfold store_ev; rewrite Z;
  destruct (owned s); cbn [app]; try constructor; apply Permutation_refl.
Qed.
End Push.

(** ** [_extract_item] with the closures of [copy_item] / [clone_item] = the Model's [extract_item] *)
Section ExtractItem.
Variables (s : mstate) (src : list cell) (o0 : cell).
Hypothesis Hwf : wf C s.
Hypothesis Hatt : det (it_of C s) = false.
Local Notation E := (denv_of C s src).
Local Notation out := [o0].

Definition extract_item_res (cl : bool) (r : option unit) (d : dst) : Prop :=
  let '(s', (o, evs)) := extract_item cl s in
  agrees C s' (match r with Some _ => [tC (pub s')] | None => [] end) evs d /\
  match r, o with Some _, ODst news => d_out d = news | None, ONone => d_out d = out | _, _ => False end.

Ltac xi_tac :=
  unfold view, extract_item_res, extract_item; dm; cbn [denv_of dn_E dn_avail dn_owned dn_src];
  rewrite lift_check by exact Hwf; pose proof (ix_check C s Hwf 1) as Hi;
  pose proof (wf_check C 1 s Hwf) as Hwf1; pose proof (env_check C 1 s) as He;
  destruct (check C 1 s) as [g s1] eqn:Ck; cbn [fst snd] in *;
  destruct (check_keeps_all C 1 s) as (A & B & Pb & Nd & Ow & Ix & Sc & Dt); rewrite Ck in *; cbn [snd] in *;
  destruct g; dm;
  [ pose proof (check_grants _ _ _ _ Ck) as Hg;
    rewrite lift_get_index; repeat (progress (dm; cbn [local_of l_index length upd nth andb]; rewrite ?(ltb_true _ _ Hi), ?ltb01, ?(window_here_l C s1), ?window_here by exact Hg))
  | eexists _, _; split; [reflexivity|]; unfold ret; split; [constructor; cbn; auto | reflexivity] ].

Theorem tie_copy_item : owned s = false ->
  exists r d, drun (d_copy_item E (LDst 0)) (view C s out) = Some (r, d) /\ extract_item_res false r d.
Proof.
  intros Hpl. unfold d_copy_item, d__extract_item, d_next_ref, d_advance. xi_tac.
  rewrite (lift_advance C 1 s s1) by (first [exact Hwf1 | exact (one_le_len _ _ Hwf1) | symmetry; exact He]).
  assert (D2 : det (it_of C s1) = false) by congruence.
  destruct (advance_attached C 1 s1 D2) as (L & Pu & Sl & Ni & Ml & Oa).
  eexists _, _. split; [reflexivity|]. unfold rete, slot. cbn [fst snd].
  split; [constructor; cbn [d_l d_slots d_pubs d_evs d_nid] | cbn [d_out]; rewrite A; reflexivity].
  - rewrite L. reflexivity.
  - rewrite Sl. auto.
  - cbn [tget] in Pu. rewrite Pu. reflexivity.
  - unfold ev. rewrite Oa, Ow, Hpl. constructor.
  - rewrite Ni. auto.
Qed.

Theorem tie_clone_item :
  exists r d, drun (d_clone_item E (LDst 0)) (view C s out) = Some (r, d) /\ extract_item_res true r d.
Proof.
  unfold d_clone_item, d__extract_item, d_next_ref, d_advance. xi_tac.
  rewrite (lift_advance C 1 s s1) by (first [exact Hwf1 | exact (one_le_len _ _ Hwf1) | symmetry; exact He]).
  unfold clones. rewrite Ow. cbn [length ids].
  destruct (owned s) eqn:Own.
  - set (s2 := set_nid (nid s1 + N.of_nat 1) s1).
    assert (D2 : det (it_of C s2) = false) by (unfold s2, set_nid, it_of in *; cbn [its] in *; congruence).
    destruct (advance_attached C 1 s2 D2) as (L & Pu & Sl & Ni & Ml & Oa).
    eexists _, _. split; [reflexivity|]. unfold rete, slot. cbn [fst snd].
    split; [constructor; cbn [d_l d_slots d_pubs d_evs d_nid] | cbn [d_out]; rewrite Nd; reflexivity].
    + rewrite L. reflexivity.
    + rewrite Sl. unfold s2. cbn. auto.
    + cbn [tget] in Pu. rewrite Pu. reflexivity.
    + unfold ev. rewrite Oa. unfold s2. cbn [owned set_nid]. rewrite Ow, A, Nd. cbn [clone_evs app].
      apply Permutation_refl.
    + rewrite Ni. unfold s2. cbn [nid set_nid]. rewrite Nd. cbn. lia.
  - assert (D2 : det (it_of C s1) = false) by congruence.
    destruct (advance_attached C 1 s1 D2) as (L & Pu & Sl & Ni & Ml & Oa).
    eexists _, _. split; [reflexivity|]. unfold rete, slot. cbn [fst snd].
    split; [constructor; cbn [d_l d_slots d_pubs d_evs d_nid] | cbn [d_out]; rewrite A; reflexivity].
    + rewrite L. reflexivity.
    + rewrite Sl. auto.
    + cbn [tget] in Pu. rewrite Pu. reflexivity.
    + unfold ev. rewrite Oa, Ow. constructor.
    + rewrite Ni. auto.
Qed.
End ExtractItem.

(** ** [next_chunk] / [next_chunk_mut] = [grant]: the two raw slices are exactly the Model's [chunk] of the window, inside the allocation *)
Lemma granted_le_len k n s : wf k s -> fst (check k n s) = true -> n <= mlen s.
Proof.
  intros [H1 H2 H3 H4 H5]. unfold check, refresh. destruct (n <=? ca (it_of k s)) eqn:C; cbn [fst].
  - intros _. apply Nat.leb_le in C. lia.
  - intros G. apply Nat.leb_le in G. unfold fresh, avail_of, pavail, dist in G. destruct k; cases; lia.
Qed.

(** the proofs do not depend on how the source spells the wrap test ([a + b >= len], [len <= a + b], [a + b < len] with swapped
    branches ...): both cases of the test are decided by [lia] wherever a comparison occurs *)
Ltac decide_cmps :=
  repeat (match goal with
  | |- context[?a <=? ?b] => first [bt (a <=? b) | bf (a <=? b)]
  | |- context[?a <? ?b] => first [bt (a <? b) | bf (a <? b)]
  | |- context[?a =? ?b] => first [replace (a =? b) with true by (symmetry; apply Nat.eqb_eq; lia) | replace (a =? b) with false by (symmetry; apply Nat.eqb_neq; lia)]
  end; cbn [negb fst snd]).

Section Chunk.
Variables (k : stage) (s : mstate) (src out : list cell) (n : nat).
Hypothesis Hwf : wf k s.
Local Notation E := (denv_of k s src).

Definition grant_res (r : option (sl * sl)) (d : dst) : Prop :=
  let '(s', (o, _)) := grant k n s in
  agrees k s' [] [] d /\ d_out d = out /\
  match r, o with
  | Some (a, b), OSlices i h t =>
      a = mkSl RBuf i (fst (chunk (mlen s) i n)) /\ b = mkSl RBuf 0 (snd (chunk (mlen s) i n)) /\
      h = sub (slots s) (s_off a) (s_len a) /\ t = sub (slots s) (s_off b) (s_len b) /\
      s_off a + s_len a <= length (slots s) /\ s_off b + s_len b <= length (slots s) /\ s_len a + s_len b = n
  | None, ONone => True
  | _, _ => False
  end.

Ltac chunk_tac :=
  unfold view, grant_res, grant; dm; cbn [denv_of dn_E dn_avail dn_owned dn_src];
  rewrite lift_check by exact Hwf; pose proof (ix_check k s Hwf n) as Hi;
  pose proof (wf_check k n s Hwf) as Hwf1; pose proof (granted_le_len k n s Hwf) as Hn;
  destruct (check k n s) as [g s1] eqn:Ck; cbn [fst snd] in *;
  destruct (check_keeps_all k n s) as (A & B & Pb & Nd & Ow & Ix & Sc & Dt); rewrite Ck in *; cbn [snd] in *;
  destruct Hwf as [W1 W2 W3 W4 W5];
  destruct g; dm;
  [ specialize (Hn eq_refl); rewrite lift_buf_len; dm; cbn [env_of e_len]; rewrite lift_get_index; dm; cbn [local_of l_index];
    rewrite lift_uadd by lia; dm
  | eexists _, _; split; [reflexivity|]; unfold ret; split; [|split]; [constructor; cbn; auto | reflexivity | exact I] ].

Lemma chunk_facts : forall i, i < mlen s -> n <= mlen s -> length (slots s) = mlen s ->
  let '(h, t) := chunk (mlen s) i n in i + h <= length (slots s) /\ 0 + t <= length (slots s) /\ h + t = n.
Proof. intros i Hi Hn Hl. unfold chunk. cases; cbn; lia. Qed.

Ltac mem_step :=
  repeat (first [ rewrite lift_get_index | rewrite lift_uadd by lia | rewrite lift_usub by lia
                | rewrite ptr_add_ok by lia | rewrite raw_parts_ok by lia ]; dm; cbn [local_of l_index]).

Ltac chunk_finish :=
  unfold Seq.rd, chunk, geb, gtb;
  match goal with HA : slots ?x = slots s, HB : mlen ?x = mlen s |- _ =>
    rewrite ?HA, ?HB; destruct (Nat.le_gt_cases (mlen s) (ix (it_of k x) + n)) end;
  decide_cmps; mem_step; decide_cmps; mem_step;
  (eexists _, _; split; [reflexivity|]); unfold ret; (split; [|split]; [constructor; cbn; auto | reflexivity | ]);
  cbn [fst snd s_off s_len empty_sl]; unfold empty_sl; decide_cmps; cbn [fst snd s_off s_len];
  repeat split; try reflexivity; try lia; try (f_equal; lia).

Theorem tie_next_chunk_mut : exists r d, drun (d_next_chunk_mut E n) (view k s out) = Some (r, d) /\ grant_res r d.
Proof. unfold d_next_chunk_mut. chunk_tac. chunk_finish. Qed.

Theorem tie_next_chunk : exists r d, drun (d_next_chunk E n) (view k s out) = Some (r, d) /\ grant_res r d.
Proof. unfold d_next_chunk. chunk_tac. chunk_finish. Qed.
End Chunk.

Theorem tie_slice_wrappers k s src out n : wf k s ->
  (exists r d, drun (d_get_workable_slice_exact (denv_of k s src) n) (view k s out) = Some (r, d) /\ grant_res k s out n r d) /\
  (exists r d, drun (d_get_next_slices_mut (denv_of k s src) n) (view k s out) = Some (r, d) /\ grant_res k s out n r d) /\
  (exists r d, drun (d_peek_slice (denv_of k s src) n) (view k s out) = Some (r, d) /\ grant_res k s out n r d).
Proof.
  intros Hwf.
  destruct (tie_next_chunk_mut k s src out n Hwf) as (r1 & d1 & R1 & G1).
  destruct (tie_next_chunk k s src out n Hwf) as (r2 & d2 & R2 & G2).
  repeat split; [unfold d_get_workable_slice_exact; via R1 G1 | unfold d_get_next_slices_mut; via R1 G1 | unfold d_peek_slice; via R2 G2].
Qed.

(** ** the forms that first take a fresh look: [get_workable_slice_avail], [get_workable_slice_multiple_of], [peek_available] *)
Lemma fresh_le_len k s : wf k s -> fresh k s <= mlen s.
Proof. intros [H1 H2 H3 H4 H5]. unfold fresh, avail_of, pavail, dist. destruct k; cases; lia. Qed.

Lemma wf_refresh k s : wf k s -> wf k (fst (refresh k s)).
Proof.
  intros Hwf. pose proof (fresh_le_len k s Hwf) as Hf. destruct Hwf as [H1 H2 H3 H4 H5].
  unfold refresh. cbn [fst]. unfold set_ca, set_it.
  constructor; unfold it_of in *; cbn [its mlen slots]; rewrite ?tget_tset_same; cbn [ix ca]; auto;
  unfold succ_idx in *; cbn [pub hasW]; destruct k; auto.
Qed.

Lemma denv_refresh k s src : denv_of k (fst (refresh k s)) src = denv_of k s src.
Proof. unfold denv_of, env_of, refresh, set_ca, set_it, succ_idx. cbn. destruct k; reflexivity. Qed.

Lemma view_refresh k s out :
  mkD (local_of k (fst (refresh k s))) (slots s) [] [] (nid s) out = view k (fst (refresh k s)) out.
Proof. reflexivity. Qed.

Section AvailForms.
Variables (k : stage) (s : mstate) (src out : list cell).
Hypothesis Hwf : wf k s.
Local Notation E := (denv_of k s src).
Local Notation s1 := (fst (refresh k s)).

Theorem tie_get_workable_slice_avail :
  exists r d, drun (d_get_workable_slice_avail E) (view k s out) = Some (r, d) /\
    match fresh k s with
    | 0 => r = None /\ agrees k s1 [] [] d /\ d_out d = out
    | S _ => grant_res k s1 out (fresh k s) r d
    end.
Proof.
  unfold d_get_workable_slice_avail, d_available, view. dm. cbn [denv_of dn_avail].
  rewrite lift_avail by exact Hwf. dm.
  destruct (fresh k s) eqn:F; decide_cmps.
  - dm. eexists _, _. split; [reflexivity|]. split; [reflexivity|]. split; [constructor; cbn; auto | reflexivity].
  - rewrite view_refresh. rewrite <- (denv_refresh k s src).
    destruct (tie_next_chunk_mut k s1 src out (S n) (wf_refresh k s Hwf)) as (r & d & R & G).
    unfold d_get_workable_slice_exact. via R G.
Qed.

Theorem tie_peek_available :
  exists r d, drun (d_peek_available E) (view k s out) = Some (r, d) /\ grant_res k s1 out (fresh k s) r d.
Proof.
  unfold d_peek_available, d_available, view. dm. cbn [denv_of dn_avail].
  rewrite lift_avail by exact Hwf. dm.
  rewrite view_refresh. rewrite <- (denv_refresh k s src).
  destruct (tie_next_chunk k s1 src out (fresh k s) (wf_refresh k s Hwf)) as (r & d & R & G).
  unfold d_peek_slice. via R G.
Qed.

(** [rhs = 0] panics (remainder by zero) after the fresh look, as the Model says ([OPanic]); otherwise: *)
Theorem tie_get_workable_slice_multiple_of rhs : rhs <> 0 ->
  exists r d, drun (d_get_workable_slice_multiple_of E rhs) (view k s out) = Some (r, d) /\
    match fresh k s - fresh k s mod rhs with
    | 0 => r = None /\ agrees k s1 [] [] d /\ d_out d = out
    | S _ => grant_res k s1 out (fresh k s - fresh k s mod rhs) r d
    end.
Proof.
  intros Hr. unfold d_get_workable_slice_multiple_of, d_available, view. dm. cbn [denv_of dn_avail].
  rewrite lift_avail by exact Hwf. dm. unfold umod. destruct rhs as [|r']; [congruence|]. dm.
  pose proof (Nat.mod_le (fresh k s) (S r') ltac:(lia)) as Hm.
  rewrite lift_usub by exact Hm. dm.
  destruct (fresh k s - fresh k s mod S r') eqn:F; decide_cmps.
  - dm. eexists _, _. split; [reflexivity|]. split; [reflexivity|]. split; [constructor; cbn; auto | reflexivity].
  - rewrite view_refresh. rewrite <- (denv_refresh k s src).
    destruct (tie_next_chunk_mut k s1 src out (S n) (wf_refresh k s Hwf)) as (r & d & R & G).
    unfold d_get_workable_slice_exact. via R G.
Qed.

Theorem tie_multiple_of_zero_panics : drun (d_get_workable_slice_multiple_of E 0) (view k s out) = None.
Proof.
  unfold d_get_workable_slice_multiple_of, d_available, view. dm. cbn [denv_of dn_avail].
  rewrite lift_avail by exact Hwf. dm. reflexivity.
Qed.
End AvailForms.

(** ** [wait_for]: the one busy-waiting call.  Every round is one fresh look ([_available]: one Acquire load of the successor's index,
      remembered); nothing is published, no cell is touched; it returns in the first round in which enough items are there.  (In this
      sequential view the successor does not move: either it returns at once or it is still spinning when the fuel runs out.) *)
Lemma lift_avail_env k s0 s sl pubs evs nid out : wf k s -> env_of k s0 = env_of k s ->
  lift (avail_kernel k (env_of k s0)) (mkD (local_of k s) sl pubs evs nid out) =
  Some (fresh k s, mkD (local_of k (fst (refresh k s))) sl pubs evs nid out).
Proof. intros Hwf He. rewrite He. apply lift_avail. exact Hwf. Qed.

Lemma env_refresh k s : env_of k (fst (refresh k s)) = env_of k s.
Proof. unfold env_of, refresh, set_ca, set_it, succ_idx. cbn. destruct k; reflexivity. Qed.

Section WaitFor.
Variables (k : stage) (s : mstate) (src out : list cell).
Hypothesis Hwf : wf k s.
Local Notation E := (denv_of k s src).
Local Notation s1 := (fst (refresh k s)).

Lemma refresh_idem : fresh k s1 = fresh k s /\ fst (refresh k s1) = s1.
Proof.
  destruct s as [ml sl pb fl [[ia ca0 da ha] [ib cb db hb] [ic cc dc hc]] hw hp ow fr ni].
  unfold refresh, fresh, set_ca, set_it, it_of, succ_idx. destruct k; cbn; split; reflexivity.
Qed.

Theorem tie_wait_for fuel count :
  drun (d_wait_for E fuel count) (view k s out) =
  Some (match fuel with 0 => None | S _ => if count <=? fresh k s then Some tt else None end,
        match fuel with 0 => view k s out | S _ => view k s1 out end).
Proof.
  unfold d_wait_for, drun. destruct fuel as [|f]; [reflexivity|].
  assert (Hloop : forall f', while_ (S f') (v1 <~ d_available E;; dret (v1 <? count)) (dret tt) (view k s out) =
                            Some (count <=? fresh k s, view k s1 out)).
  { intros f'. cbn [while_]. unfold d_available, view. dm. cbn [denv_of dn_avail].
    rewrite lift_avail by exact Hwf. dm.
    destruct (fresh k s <? count) eqn:Lt.
    - (* not enough: the next rounds see the same *)
      assert (Hle : (count <=? fresh k s) = false) by (apply Nat.leb_gt; apply Nat.ltb_lt in Lt; lia).
      rewrite Hle. clear Hle.
      assert (Hw1 : wf k s1) by (apply wf_refresh; exact Hwf).
      destruct refresh_idem as (Rf & Rs).
      induction f' as [|f'' IH]; [reflexivity|].
      cbn [while_]. dm. unfold view.
      rewrite (lift_avail_env k s s1) by (first [exact Hw1 | symmetry; apply env_refresh]). dm. rewrite Rf, Lt, Rs. exact IH.
    - assert (Hle : (count <=? fresh k s) = true) by (apply Nat.leb_le; apply Nat.ltb_ge in Lt; lia).
      rewrite Hle. reflexivity. }
  unfold dbind at 1. rewrite Hloop. destruct (count <=? fresh k s); reflexivity.
Qed.

Corollary wait_for_publishes_nothing fuel count r d :
  drun (d_wait_for E fuel count) (view k s out) = Some (r, d) -> d_pubs d = [] /\ d_slots d = slots s /\ d_evs d = [] /\ d_out d = out.
Proof. rewrite tie_wait_for. intros H. inversion H. destruct fuel; cbn; auto. Qed.
End WaitFor.

(** the wrappers ([Detached], the [AsyncIterator] trait) only pass these calls on to the wrapped iterator *)
Theorem pass_through_closed : forallb (fun x => snd x) DataFns.pass_through = true.
Proof. reflexivity. Qed.

(** ** wiring: which published index each iterator follows and which one it publishes to, as written in the source *)
Theorem tie_wiring k s : succ_idx k s = tget (g_succ k (hasW s)) (pub s) /\ g_pub k = k.
Proof. unfold succ_idx, g_succ, g_pub. destruct k; split; try reflexivity. destruct (hasW s); reflexivity. Qed.

(** and so a publication of the Model ([set_pub k]) is the store the source performs, the successor read by [fresh] the load it performs *)
Corollary wiring_set_pub k i s : set_pub k i s = set_pub (g_pub k) i s.
Proof. destruct (tie_wiring k s) as [_ H]. rewrite H. reflexivity. Qed.

(** ** the access discipline every [= Some ..] of this file (and of DataTieSlices / DataTieV) carries

    Reading or writing a buffer cell is DEFINED only inside the window the iterator holds ([in_window]: [l_cached] cells from the local
    index on, cyclically).  So each tie theorem - "the translated function runs and gives the Model's result" - also says: the function
    touches no cell before an availability check has covered it (a granted [check n] leaves [n <= l_cached], [check_grants]) and no
    cell after [advance] has published it away ([advance] moves the local index past it and takes it out of [l_cached]).  That is
    the source-level half of C03's disjoint windows and of C02's "data before publication / data after the index is read". *)
Theorem access_inside_window E i d :
  (forall v d', rd E (LBuf i) d = Some (v, d') -> i < length (d_slots d) /\ in_window d i = true) /\
  (forall m v u d', store_mode E m (LBuf i) v d = Some (u, d') -> i < length (d_slots d) /\ in_window d i = true) /\
  (forall v d', take_inner E (LBuf i) d = Some (v, d') -> i < length (d_slots d) /\ in_window d i = true) /\
  (forall v d', inner_duplicate E (LBuf i) d = Some (v, d') -> i < length (d_slots d) /\ in_window d i = true) /\
  (forall b d', check_zeroed E (LBuf i) d = Some (b, d') -> i < length (d_slots d) /\ in_window d i = true).
Proof.
  assert (R : forall v d', rd E (LBuf i) d = Some (v, d') -> i < length (d_slots d) /\ in_window d i = true).
  { intros v d'. unfold rd. destruct (i <? length (d_slots d)) eqn:A; destruct (in_window d i) eqn:B; cbn [andb]; intros H; try discriminate.
    split; [apply Nat.ltb_lt; exact A | reflexivity]. }
  split; [exact R|].
  assert (R2 : forall A (k : cell -> DM A) a d', dbind (rd E (LBuf i)) k d = Some (a, d') -> i < length (d_slots d) /\ in_window d i = true).
  { intros A k a d'. unfold dbind. destruct (rd E (LBuf i) d) as [[x dx]|] eqn:Hr; [|discriminate]. intros _. exact (R x dx eq_refl). }
  repeat split; intros; eapply R2; match goal with H : _ = Some _ |- _ => exact H end.
Qed.

(** outside the window nothing is defined: in particular not at the local index while nothing is held *)
Lemma nothing_held_nothing_read E ix0 sl pubs evs nid out :
  rd E (LBuf ix0) (mkD (mkL ix0 0) sl pubs evs nid out) = None.
Proof. unfold rd, in_window. cbn [d_l d_slots l_index l_cached]. rewrite Nat.leb_refl, Nat.sub_diag. cbn. rewrite andb_false_r. reflexivity. Qed.
