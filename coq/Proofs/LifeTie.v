(** * L-tie: the drop path TRANSLATED FROM THE RUST SOURCE on every run (gen/LifeFns.v: [Drop for ProdIter / WorkIter / ConsIter] ->
      [BufRef::set_X_alive(false)] -> the variant's liveness setter -> [BufRef::drop]) is the Model's [drop_iter], for both variants:
      same flags, the buffer released exactly when the last flag went and the handle owns the box; the trace is
      fence, the one flag update, fence, then the release - nothing is touched after the release. *)
From Coq Require Import List Bool.
Import ListNotations.
Require Import MRB.Model.Types MRB.Model.Seq MRB.Model.LifeM MRB.gen.LifeFns.

Definition l_drop (k : stage) := match k with P => l_drop_prod | W => l_drop_work | C => l_drop_cons end.

Theorem tie_drop (V : bool) (k : stage) (s : mstate) : freed s = false ->
  let s' := fst (drop_iter k s) in
  l_drop k V (mkLE (heap s)) (mkLS (flag s) (freed s) []) =
  Some (tt, mkLS (flag s') (freed s')
                 ([EFence; ESet k false; EFence] ++ (if freed s' then [EFree] else []))).
Proof.
  intros Hf. unfold drop_iter. cbn [fst flag freed]. rewrite Hf. cbn [orb].
  destruct (flag s) as [fp fw fc] eqn:Fl.
  destruct V, k; cbn [l_drop];
    unfold l_drop_prod, l_drop_work, l_drop_cons, l_bufref_set_prod_alive, l_bufref_set_work_alive, l_bufref_set_cons_alive,
           lc_set_prod_alive, lc_set_work_alive, lc_set_cons_alive, ll_set_prod_alive, ll_set_work_alive, ll_set_cons_alive,
           l_bufref_drop, lbind, lret, fence_, emit_l, rmw_flag, put_flag, get_flag, needs_drop, free_, none_set;
    cbn [l_flags l_freed l_trace le_needs_drop tset tget tP tW tC app];
    destruct fp, fw, fc, (heap s); cbn; rewrite ?Hf; reflexivity.
Qed.

(** what the Model's ledger says is released is released by this path: the release happens only in the call that cleared the last flag *)
Corollary drop_releases_last_only V k s : freed s = false ->
  forall st, l_drop k V (mkLE (heap s)) (mkLS (flag s) (freed s) []) = Some (tt, st) ->
  (l_freed st = true <-> (heap s = true /\ tget P (tset k false (flag s)) = false /\ tget W (tset k false (flag s)) = false /\ tget C (tset k false (flag s)) = false)).
Proof.
  intros Hf st H. rewrite (tie_drop V k s Hf) in H. inversion H; subst st. cbn [l_freed].
  unfold drop_iter. cbn [fst freed flag]. rewrite Hf. cbn [orb].
  destruct (flag s) as [fp fw fc]. destruct k, fp, fw, fc, (heap s); cbn; split; intros; try discriminate; try tauto; repeat split; auto;
  try (destruct H0 as (? & ? & ? & ?); discriminate).
Qed.

Theorem life_closed : LifeFns.life_clean = true.
Proof. reflexivity. Qed.
