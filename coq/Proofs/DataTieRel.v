(** * The preconditions of the D-tie hold in every state related to a Spec state (hence in every state reachable by a
      contract-respecting history, [run_refines]) for every usable iterator, provided [2*len] is representable. *)
From Coq Require Import List Arith NArith Bool Lia.
Import ListNotations.
Require Import MRB.Base.Ring MRB.Base.ListAux MRB.Model.Types MRB.Model.Seq MRB.Model.KernelM MRB.Spec.Pipe MRB.Proofs.Rel MRB.Proofs.DataTie.

Theorem rel_wf m a k : Rel m a -> a_usable k a = true -> mlen m + mlen m < usize_max -> wf k m.
Proof.
  intros R U Hmax. pose proof (usable_here _ _ U) as H.
  destruct (r_it _ _ R k H) as (_ & Hix & Hca).
  pose proof (r_pos _ _ R) as Hl. pose proof (r_len _ _ R) as Hlen.
  pose proof (window_bounds m a k R U) as [Hlo Hhi].
  constructor.
  - rewrite Hix, Hlen. apply Nat.mod_upper_bound. lia.
  - unfold succ_idx. rewrite Hlen.
    pose proof (r_pub _ _ R P) as EP. pose proof (r_pub _ _ R W) as EW. pose proof (r_pub _ _ R C) as EC. simpl in EP, EW, EC.
    destruct k; [rewrite EC | rewrite EP | destruct (hasW m); [rewrite EW | rewrite EP]]; apply Nat.mod_upper_bound; lia.
  - rewrite (r_slots _ _ R). lia.
  - exact Hmax.
  - rewrite Hlen. lia.
Qed.
