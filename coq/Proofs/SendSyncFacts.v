(** * C16: facts about the auto-trait model *)
From Coq Require Import List Bool Lia.
Import ListNotations.
Require Import MRB.Model.SendSync.

Lemma all_wty_complete t : In t all_wty.
Proof. destruct t as [[]|[]|[]|[]]; simpl; tauto. Qed.
Lemma bools_complete b : In b bools.
Proof. destruct b; simpl; tauto. Qed.

(** the decidable check is sound for every instantiation of wrapper, buffer kind and item type *)
Theorem c16_ok_sound cls : c16_ok cls = true ->
  forall t conc s y,
    (is_send cls conc s y t = true -> conc = true /\ s = true) /\ is_sync cls conc s y t = false.
Proof.
  unfold c16_ok. intros H t conc s y.
  rewrite forallb_forall in H. specialize (H t (all_wty_complete t)).
  rewrite forallb_forall in H. specialize (H conc (bools_complete conc)).
  rewrite forallb_forall in H. specialize (H s (bools_complete s)).
  rewrite forallb_forall in H. specialize (H y (bools_complete y)).
  apply andb_prop in H as [H1 H2]. apply negb_true_iff in H2. split; auto.
  intros E. rewrite E in H1. simpl in H1. apply andb_prop in H1. tauto.
Qed.

(** a sufficient condition on impl headers, for any set of impls: iterators bounded on a concurrent buffer and a
    Send item, wrappers bounded on a Send iterator, and no Sync impl at all *)
Definition is_iter_con (c : tycon) : bool :=
  match c with TDet | TADet | TFut => false | _ => true end.

Definition well_bounded (cl : clause) : bool :=
  trait_eqb (cl_trait cl) TrSend &&
  (if is_iter_con (cl_type cl) then cl_conc cl && cl_item_send cl else cl_inner_send cl).

Lemma holds_iter cls conc s y c inner : forallb well_bounded cls = true -> is_iter_con c = true ->
  holds cls conc s y TrSend c inner = true -> conc = true /\ s = true.
Proof.
  intros WB IC H. unfold holds in H. apply existsb_exists in H as (cl & Hin & Hc).
  rewrite forallb_forall in WB. specialize (WB cl Hin). unfold well_bounded in WB.
  repeat (apply andb_prop in Hc as [Hc ?]).
  assert (cl_type cl = c) by (destruct (cl_type cl), c; simpl in *; congruence). subst c.
  rewrite IC in WB. apply andb_prop in WB as [_ WB]. apply andb_prop in WB as [W1 W2].
  unfold implb in *. rewrite W1, W2 in *. simpl in *. auto.
Qed.

Lemma holds_wrap cls conc s y c inner : forallb well_bounded cls = true -> is_iter_con c = false ->
  holds cls conc s y TrSend c inner = true -> inner = true.
Proof.
  intros WB IC H. unfold holds in H. apply existsb_exists in H as (cl & Hin & Hc).
  rewrite forallb_forall in WB. specialize (WB cl Hin). unfold well_bounded in WB.
  repeat (apply andb_prop in Hc as [Hc ?]).
  assert (cl_type cl = c) by (destruct (cl_type cl), c; simpl in *; congruence). subst c.
  rewrite IC in WB. apply andb_prop in WB as [_ WB].
  unfold implb in *. rewrite WB in *. simpl in *. auto.
Qed.

Lemma holds_sync cls conc s y c inner : forallb well_bounded cls = true -> holds cls conc s y TrSync c inner = false.
Proof.
  intros WB. unfold holds. apply not_true_is_false. intros H. apply existsb_exists in H as (cl & Hin & Hc).
  rewrite forallb_forall in WB. specialize (WB cl Hin). unfold well_bounded in WB.
  apply andb_prop in WB as [W _]. repeat (apply andb_prop in Hc as [Hc ?]).
  destruct (cl_trait cl); simpl in *; congruence.
Qed.

Theorem well_bounded_suffices cls : forallb well_bounded cls = true ->
  forall t conc s y,
    (is_send cls conc s y t = true -> conc = true /\ s = true) /\ is_sync cls conc s y t = false.
Proof.
  intros WB t conc s y. split.
  - destruct t as [i|i|i|i]; simpl; intros H.
    + eapply holds_iter; eauto. destruct i; reflexivity.
    + eapply holds_iter; eauto. destruct i; reflexivity.
    + apply holds_wrap in H; auto. eapply holds_iter; eauto. destruct i; reflexivity.
    + apply holds_wrap in H; auto. eapply holds_iter; eauto. destruct i; reflexivity.
  - destruct t; simpl; apply holds_sync; auto.
Qed.

(** and conversely the bounds are not vacuous: a concurrent buffer over a Send item is sendable *)
Definition sendable_when_expected (cls : list clause) : bool :=
  forallb (fun t => forallb (fun y => is_send cls true true y t) bools) all_wty.

(** futures of async operations *)
Theorem c16_fut_ok_sound cls : c16_fut_ok cls = true ->
  forall t conc s y,
    (fut_send cls conc s y t = true -> conc = true /\ s = true) /\ fut_sync cls conc s y t = false.
Proof.
  unfold c16_fut_ok. intros H t conc s y.
  rewrite forallb_forall in H. specialize (H t (all_wty_complete t)).
  rewrite forallb_forall in H. specialize (H conc (bools_complete conc)).
  rewrite forallb_forall in H. specialize (H s (bools_complete s)).
  rewrite forallb_forall in H. specialize (H y (bools_complete y)).
  apply andb_prop in H as [H1 H2]. apply negb_true_iff in H2. split; auto.
  intros E. rewrite E in H1. simpl in H1. apply andb_prop in H1. tauto.
Qed.
