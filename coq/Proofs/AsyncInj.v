(** * A poll with another stage acting during the waker registration ([Async.poll_inj]) - C15's "re-check after registration", C08 / C14
      on the branch of [MRBFuture::poll] no sequential history reaches (the SECOND attempt succeeds).

    - [poll_inj_is_source_shape]: [poll_inj] is what the source's [poll] (gen/PollGen.v, symbolic execution on every run) does when the
      injected step runs inside [register_waker];
    - [inj_registered_before]: when the injected step runs, the polling task's waker is already the one registered in the iterator;
    - [inj_no_lost_wakeup]: if after the injected step the operation is possible, the poll answers with its result - never [Pending];
    - [poll_inj_refines]: against the Spec the whole thing is the injected operation (if it performed one) followed by the polled
      operation (if it resolved): same answers, same ledger - a refused first attempt took, dropped, duplicated and lost nothing,
      and the payload of a resolved push is stored exactly once. *)
From Coq Require Import List Arith NArith Bool Lia.
Import ListNotations.
Require Import MRB.Base.Ring MRB.Base.ListAux MRB.Model.Types MRB.Model.Seq MRB.Spec.Pipe MRB.Model.Async.
Require Import MRB.Proofs.Rel MRB.Proofs.TapeFacts MRB.Proofs.Refine MRB.Proofs.SpecFacts MRB.Proofs.AsyncFacts MRB.Proofs.AsyncRefine.
Require Import MRB.Model.PollShape MRB.gen.PollGen.

Theorem poll_inj_is_source_shape k o d s :
  poll_inj_by_shape PollGen.poll_shape k o d s = Some (poll_inj k o d s).
Proof.
  unfold PollGen.poll_shape, poll_inj. cbn [poll_inj_by_shape run_entry_inj run_events_inj].
  destruct (step (base s) o) as [m1 [x1 e1]] eqn:E1. cbn [app].
  destruct (refused x1) eqn:R1; cbn [negb Bool.eqb].
  - change (register k (set_base m1 s)) with (register k (set_base m1 s)).
    destruct (astep (register k (set_base m1 s)) d) as [si [xi ei]] eqn:Ei.
    destruct (step (base si) o) as [m2 [x2 e2]] eqn:E2.
    destruct (refused x2) eqn:R2; cbn [negb Bool.eqb]; rewrite <- ?app_assoc; reflexivity.
  - reflexivity.
Qed.

(** a first attempt that goes through: no registration, nothing injected - the plain poll *)
Theorem poll_inj_ready k o d s : refused (fst (snd (step (base s) o))) = false ->
  poll_inj k o d s = (poll k o s, None).
Proof. unfold poll_inj, poll. destruct (step (base s) o) as [m1 [x1 e1]]. cbn [fst snd]. intros ->. reflexivity. Qed.

Section Inj.
Variables (s : astate) (k : stage) (o : op) (d : aop).
Hypothesis REF : refused (fst (snd (step (base s) o))) = true.

Let s1 := register k (set_base (fst (step (base s) o)) s).
Let si := fst (astep s1 d).

Lemma poll_inj_unfold :
  poll_inj k o d s =
  (set_base (fst (step (base si) o)) si,
   ((if refused (fst (snd (step (base si) o))) then OPending else fst (snd (step (base si) o))),
    snd (snd (step (base s) o)) ++ snd (snd (astep s1 d)) ++ snd (snd (step (base si) o))),
   Some (fst (snd (astep s1 d)))).
Proof.
  unfold poll_inj, si, s1. destruct (step (base s) o) as [m1 [x1 e1]]. cbn [fst snd] in *. rewrite REF.
  destruct (astep (register k (set_base m1 s)) d) as [sj [xi ei]]. cbn [fst snd].
  destruct (step (base sj) o) as [m2 [x2 e2]]. reflexivity.
Qed.

(** the registration precedes everything the other stage does *)
Theorem inj_registered_before : tget k (wk s1) = Some (task s).
Proof. unfold s1, register. cbn [wk]. apply tget_tset_same. Qed.

(** C15: no lost wake-up - what the other stage made possible during the registration is seen by the second attempt *)
Theorem inj_no_lost_wakeup : refused (fst (snd (step (base si) o))) = false ->
  snd (fst (poll_inj k o d s)) =
    (fst (snd (step (base si) o)), snd (snd (step (base s) o)) ++ snd (snd (astep s1 d)) ++ snd (snd (step (base si) o))) /\
  fst (snd (fst (poll_inj k o d s))) <> OPending.
Proof.
  intros H. rewrite poll_inj_unfold. cbn [fst snd]. rewrite H. split; [reflexivity|]. apply step_not_pending.
Qed.

(** against the Spec *)
Variable a : pipe.
Hypothesis R : Rel (base s) a.
Hypothesis F : future_of o = Some k.
Let g := performed s1 d.
Hypothesis OKg : forall f, g = Some f -> ok_op a f = true.
Let a1 := match g with Some f => fst (sstep a f) | None => a end.

Lemma first_attempt_silent : Rel (base s1) a /\ snd (snd (step (base s) o)) = [].
Proof.
  pose proof (future_ok a o k F) as OK.
  pose proof (step_refines _ _ o R OK) as [E R1].
  assert (Hs : refused (fst (snd (sstep a o))) = true) by (rewrite <- E; exact REF).
  pose proof (sstep_refused_same a o Hs) as Same.
  unfold s1. cbn [base register set_base]. rewrite Same in R1. cbn [fst] in R1. split; [exact R1|].
  rewrite E, Same. reflexivity.
Qed.

Lemma injected_sim : Rel (base si) a1 /\ snd (snd (astep s1 d)) = match g with Some f => snd (snd (sstep a f)) | None => [] end
  /\ (forall f, g = Some f -> fst (snd (astep s1 d)) = fst (snd (sstep a f))).
Proof.
  destruct first_attempt_silent as [R1 _]. unfold a1, si. subst g.
  destruct (performed s1 d) as [f|] eqn:Pf.
  - destruct (astep_performed s1 a d f R1 Pf (OKg f eq_refl)) as [R2 E]. rewrite E. split; [exact R2|]. split; [reflexivity|].
    intros f' H. inversion H; subst. reflexivity.
  - destruct (astep_silent s1 a d R1 Pf) as [R2 E]. split; [exact R2|]. split; [exact E|]. intros f H. discriminate.
Qed.

Theorem poll_inj_refines :
  let r := poll_inj k o d s in
  let x := fst (snd (fst r)) in
  refused x = false /\
  (visible x = true ->
     Rel (base (fst (fst r))) (fst (sstep a1 o)) /\ x = fst (snd (sstep a1 o)) /\
     snd (snd (fst r)) = (match g with Some f => snd (snd (sstep a f)) | None => [] end) ++ snd (snd (sstep a1 o))) /\
  (visible x = false ->
     Rel (base (fst (fst r))) a1 /\
     snd (snd (fst r)) = (match g with Some f => snd (snd (sstep a f)) | None => [] end)).
Proof.
  cbv zeta. rewrite poll_inj_unfold. cbn [fst snd base set_base].
  destruct first_attempt_silent as [_ E1]. destruct injected_sim as (R2 & E2 & _). rewrite E1, E2. cbn [app].
  pose proof (future_ok a1 o k F) as OK.
  pose proof (step_refines _ _ o R2 OK) as [E R3].
  destruct (refused (fst (snd (step (base si) o)))) eqn:Rf.
  - (* second attempt refused too: Pending *)
    assert (Hs : refused (fst (snd (sstep a1 o))) = true) by (rewrite <- E; exact Rf).
    pose proof (sstep_refused_same a1 o Hs) as Same.
    split; [reflexivity|]. split; [intros V; discriminate V|]. intros _.
    rewrite Same in R3. cbn [fst] in R3. split; [exact R3|]. rewrite E, Same. cbn [snd]. rewrite app_nil_r. reflexivity.
  - split; [exact Rf|]. split.
    + intros V. split; [exact R3|]. split; [rewrite E; reflexivity|]. rewrite E. reflexivity.
    + intros V. destruct (fst (snd (step (base si) o))) eqn:X; try discriminate V.
      * exfalso. exact (step_not_pending _ _ X).
      * rewrite (step_bad_same _ _ X) in *. cbn [fst snd] in *. split; [exact R2|]. rewrite app_nil_r. reflexivity.
Qed.

End Inj.
