(** * C17: facts about the double mapping *)
From Coq Require Import List Arith Bool Lia.
Import ListNotations.
Require Import MRB.Base.Ring MRB.Model.Vmem.

(** whatever the call sequence: if the final state is [mirrored], every offset resolves, in both halves, to the same byte
    of the same object - a write through one view is read through the other - and the object holds the supplied data *)
Theorem mirrored_aliases size s : mirrored s = true ->
  forall o, o < size -> resolve size s Lo o = resolve size s Hi o /\ exists ob, resolve size s Lo o = Some (ob, o) /\ obj_has_data s = true.
Proof.
  unfold mirrored, resolve. destruct (lo s) as [| |ob off]; try discriminate. destruct off; try discriminate.
  destruct (hi s) as [| |ob' off']; try discriminate. destruct off'; try discriminate.
  intros H o Ho. apply andb_prop in H as [E D]. apply Nat.eqb_eq in E. subst. simpl. split; auto. exists ob'. auto.
Qed.

(** the repaired call sequence (what the extractor must find) is mirrored; the pinned one is not *)
Definition good_calls : list vcall := [VShmCreate; VReserve 2; VMapShared Lo true 0; VMapShared Hi true 0; VClose; VCopyIn true].
Definition pinned_calls : list vcall := [VReserve 2; VMapAnon Hi true; VCopyOut].
Example good_calls_mirrored : mirrored (vexec_calls good_calls) = true.
Proof. reflexivity. Qed.
Theorem pinned_calls_refuted : mirrored (vexec_calls pinned_calls) = false /\ data_intact (vexec_calls pinned_calls) = false.
Proof. split; reflexivity. Qed.

Lemma div_ceil_eq a b : 0 < b -> div_ceil a b = (a + b - 1) / b.
Proof.
  intros Hb. unfold div_ceil.
  pose proof (Nat.div_mod a b ltac:(lia)) as D. pose proof (Nat.mod_upper_bound a b ltac:(lia)) as U.
  set (q := a / b) in *. set (r := a mod b) in *.
  destruct (r =? 0) eqn:E; [apply Nat.eqb_eq in E | apply Nat.eqb_neq in E].
  - rewrite Nat.add_0_r. apply (Nat.div_unique _ b q (b - 1)); lia.
  - apply (Nat.div_unique _ b (q + 1) (r - 1)); lia.
Qed.

(** page rounding: the least multiple of the page size that is >= the request *)
Theorem page_mul_spec page m : 0 < page ->
  m <= page_mul page m /\ page_mul page m mod page = 0 /\ page_mul page m < m + page /\
  forall k, m <= k * page -> page_mul page m <= k * page.
Proof.
  intros Hp. unfold page_mul.
  pose proof (Nat.div_mod (m + page - 1) page ltac:(lia)) as D.
  pose proof (Nat.mod_upper_bound (m + page - 1) page ltac:(lia)) as U.
  set (q := (m + page - 1) / page) in *. set (r := (m + page - 1) mod page) in *.
  repeat split.
  - nia.
  - apply Nat.mod_mul. lia.
  - nia.
  - intros k Hk. assert (q <= k); [|nia].
    destruct (Nat.le_gt_cases q k); auto. exfalso. assert (k + 1 <= q) by lia. nia.
Qed.

(** a contiguous window of [n <= len - 1] slots starting at ring index [ix] lies inside the two views and element [j]
    is ring position [(ix + j) mod len]: the single slice handed out under vmem addresses exactly the slots the
    two-slice form addresses *)
Theorem window_in_mirror len ix n j : 0 < len -> ix < len -> n <= len - 1 -> j < n ->
  ix + j < 2 * len /\ (ix + j) mod len = wadd len ix j /\ (if ix + j <? len then ix + j else ix + j - len) = wadd len ix j.
Proof.
  intros Hl Hi Hn Hj. unfold wadd. repeat split; try lia.
  - destruct (len <=? ix + j) eqn:E; [apply Nat.leb_le in E | apply Nat.leb_gt in E].
    + transitivity ((ix + j - len + 1 * len) mod len); [f_equal; lia|]. rewrite Nat.mod_add by lia. apply Nat.mod_small. lia.
    + apply Nat.mod_small. lia.
  - destruct (len <=? ix + j) eqn:E; [apply Nat.leb_le in E | apply Nat.leb_gt in E].
    + replace (ix + j <? len) with false by (symmetry; apply Nat.ltb_ge; lia). reflexivity.
    + replace (ix + j <? len) with true by (symmetry; apply Nat.ltb_lt; lia). reflexivity.
Qed.
