(** * C06, second sentence: slice-wise and item-wise operations are interchangeable (on the Spec; the Model refines it) *)
From Coq Require Import List Arith NArith Bool Lia.
Import ListNotations.
Require Import MRB.Base.Ring MRB.Base.ListAux MRB.Model.Types MRB.Model.Seq MRB.Spec.Pipe.
Require Import MRB.Proofs.Rel MRB.Proofs.TapeFacts MRB.Proofs.Refine MRB.Proofs.Ledger.

Definition push_each (a : pipe) (vs : list N) : pipe := fold_left (fun a v => fst (sstep a (Push v))) vs a.

Lemma advance_P_attached a n : tP (sdet a) = false ->
  a_advance P n a = mkS (slen a) (tape a) (tset P (tP (lpos a) + n) (ppos a)) (tset P (tP (lpos a) + n) (lpos a))
                        (sdet a) (shere a) (sflag a) (shasW a) (sheap a) (sowned a) (sfreed a) (snid a).
Proof. intros D. unfold a_advance. simpl. rewrite D. reflexivity. Qed.

(** pushing a slice = pushing its items one by one: same tape, same positions, same everything *)
Theorem push_slice_eq_items vs : forall a, a_attached P a = true -> sowned a = false -> length vs <= a_avail P a ->
  tP (lpos a) = tP (ppos a) ->
  fst (sstep a (PushSlice vs)) = push_each a vs.
Proof.
  induction vs as [|v r IH]; intros a G O L Q.
  - cbn [sstep push_each fold_left]. unfold a_plain. rewrite G, O. simpl. unfold a_push_slice. simpl.
    pose proof (attached_det _ _ G) as D. simpl in D. rewrite advance_P_attached by auto.
    destruct a as [sl tp pp lp sd sh sf hw hp ow fr ni]. destruct pp, lp. simpl in *. rewrite !Nat.add_0_r. subst. reflexivity.
  - cbn [push_each fold_left]. fold (push_each (fst (sstep a (Push v))) r).
    pose proof (attached_det _ _ G) as D. simpl in D.
    assert (E1 : fst (sstep a (Push v)) =
                 a_advance P 1 (a_set_tape (upd (tP (lpos a)) v (tape a)) a)).
    { cbn [sstep]. rewrite G. unfold a_push. cbn [length] in L. replace (1 <=? a_avail P a) with true by (symmetry; apply Nat.leb_le; lia). reflexivity. }
    rewrite E1. set (a1 := a_advance P 1 (a_set_tape (upd (tP (lpos a)) v (tape a)) a)).
    assert (G1 : a_attached P a1 = true).
    { unfold a1. rewrite advance_P_attached by (simpl; auto). unfold a_attached, a_usable in *. simpl in *. exact G. }
    assert (O1 : sowned a1 = false) by (unfold a1; rewrite advance_P_attached by (simpl; auto); simpl; auto).
    assert (L1 : length r <= a_avail P a1).
    { unfold a1. rewrite advance_P_attached by (simpl; auto). unfold a_avail, a_succ in *. simpl in *. lia. }
    assert (Q1 : tP (lpos a1) = tP (ppos a1)) by (unfold a1; rewrite advance_P_attached by (simpl; auto); simpl; auto).
    rewrite <- (IH a1 G1 O1 L1 Q1).
    cbn [sstep]. unfold a_plain. rewrite G, O, G1, O1. simpl. unfold a_push_slice.
    replace (length (v :: r) <=? a_avail P a) with true by (symmetry; apply Nat.leb_le; auto).
    replace (length r <=? a_avail P a1) with true by (symmetry; apply Nat.leb_le; auto).
    simpl fst.
    assert (A1 : a1 = mkS (slen a) (upd (tP (lpos a)) v (tape a)) (tset P (tP (lpos a) + 1) (ppos a)) (tset P (tP (lpos a) + 1) (lpos a))
                        (sdet a) (shere a) (sflag a) (shasW a) (sheap a) (sowned a) (sfreed a) (snid a))
      by (unfold a1; apply advance_P_attached; simpl; auto).
    rewrite A1. rewrite !advance_P_attached by (simpl; auto). simpl.
    replace (tP (lpos a) + 1) with (S (tP (lpos a))) by lia.
    f_equal; destruct (ppos a), (lpos a); simpl; f_equal; lia.
Qed.

(** the consumer: copying a slice of n = copying n items one by one (state and, concatenated, the values) *)
Fixpoint copy_each (a : pipe) (n : nat) : pipe * list N :=
  match n with
  | 0 => (a, [])
  | S k => let '(a1, (o, _)) := sstep a CopyItem in
           let '(a2, vs) := copy_each a1 k in
           (a2, (match o with ODst l => l | _ => [] end) ++ vs)
  end.

Lemma sowned_advance k n a : sowned (a_advance k n a) = sowned a.
Proof. unfold a_advance, a_publish. destruct (tget k (sdet a)); destruct k; reflexivity. Qed.

Lemma extend_extend len a b t : extend len a (extend len b t) = extend len (b + a) t.
Proof. revert t; induction b; intros t; simpl; auto. Qed.

Lemma advance_C_attached a n : tC (sdet a) = false -> length (tape a) = tC (ppos a) + slen a -> tC (lpos a) = tC (ppos a) ->
  a_advance C n a = mkS (slen a) (extend (slen a) n (tape a)) (tset C (tC (lpos a) + n) (ppos a)) (tset C (tC (lpos a) + n) (lpos a))
                        (sdet a) (shere a) (sflag a) (shasW a) (sheap a) (sowned a) (sfreed a) (snid a).
Proof.
  intros D T E. unfold a_advance, a_publish. simpl. rewrite D. simpl. rewrite T, E. f_equal. f_equal. lia.
Qed.

Lemma sub_extend len k t p n : p + n <= length t -> sub (extend len k t) p n = sub t p n.
Proof.
  intros H. apply (nth_ext_d 0%N).
  - rewrite !sub_length; auto. rewrite extend_length. lia.
  - rewrite sub_length by (rewrite extend_length; lia). intros j Hj.
    rewrite !(nth_sub 0%N) by auto. apply extend_old. lia.
Qed.

Theorem copy_slice_eq_items n : forall a, a_attached C a = true -> sowned a = false -> n <= a_avail C a ->
  length (tape a) = tC (ppos a) + slen a -> tC (lpos a) = tC (ppos a) -> tC (lpos a) + n <= length (tape a) ->
  fst (sstep a (CopySlice n)) = fst (copy_each a n) /\
  fst (snd (sstep a (CopySlice n))) = ODst (snd (copy_each a n)).
Proof.
  induction n as [|k IH]; intros a G O L T E B.
  - cbn [sstep copy_each]. unfold a_plain. rewrite G, O. simpl. unfold a_extract_slice. simpl.
    pose proof (attached_det _ _ G) as D. simpl in D. rewrite advance_C_attached by auto. simpl. split; auto.
    destruct a as [sl tp pp lp sd sh sf hw hp ow fr ni]. destruct pp, lp. simpl in *. rewrite !Nat.add_0_r. subst. reflexivity.
  - pose proof (attached_det _ _ G) as D. simpl in D.
    cbn [copy_each].
    assert (E1 : sstep a CopyItem = (a_advance C 1 a, (ODst [a_cell (tC (lpos a)) a], []))).
    { cbn [sstep]. unfold a_plain. rewrite G, O. cbn [negb andb]. unfold a_extract_item.
      replace (1 <=? a_avail C a) with true by (symmetry; apply Nat.leb_le; lia).
      unfold a_rete, a_ev. rewrite sowned_advance, O. reflexivity. }
    rewrite E1. set (a1 := a_advance C 1 a).
    assert (A1 : a1 = mkS (slen a) (extend (slen a) 1 (tape a)) (tset C (tC (lpos a) + 1) (ppos a)) (tset C (tC (lpos a) + 1) (lpos a))
                        (sdet a) (shere a) (sflag a) (shasW a) (sheap a) (sowned a) (sfreed a) (snid a)) by (apply advance_C_attached; auto).
    assert (G1 : a_attached C a1 = true) by (rewrite A1; unfold a_attached, a_usable in *; simpl in *; exact G).
    assert (O1 : sowned a1 = false) by (rewrite A1; auto).
    assert (L1 : k <= a_avail C a1).
    { rewrite A1. unfold a_avail, a_succ in *. simpl in *. destruct (shasW a); lia. }
    assert (T1 : length (tape a1) = tC (ppos a1) + slen a1) by (rewrite A1; cbn -[extend]; rewrite extend_length; lia).
    assert (E1' : tC (lpos a1) = tC (ppos a1)) by (rewrite A1; simpl; auto).
    assert (B1 : tC (lpos a1) + k <= length (tape a1)) by (rewrite A1; cbn -[extend]; rewrite extend_length; lia).
    destruct (IH a1 G1 O1 L1 T1 E1' B1) as [S1 S2].
    destruct (copy_each a1 k) as [a2 vs] eqn:EC. simpl in S1, S2. simpl fst. simpl snd.
    cbn [sstep] in *. unfold a_plain in *. rewrite G, O in *. rewrite G1, O1 in *. simpl in *.
    unfold a_extract_slice in *.
    replace (S k <=? a_avail C a) with true by (symmetry; apply Nat.leb_le; auto).
    replace (k <=? a_avail C a1) with true in * by (symmetry; apply Nat.leb_le; auto).
    unfold a_rete, a_ev in *. simpl in *. rewrite ?O, ?O1 in *. simpl in *.
    split.
    + rewrite <- S1. rewrite advance_C_attached by auto.
      assert (D1 : tC (sdet a1) = false) by (rewrite A1; cbn; auto).
      rewrite (advance_C_attached a1 k D1 T1 E1').
      rewrite A1. cbn -[extend]. rewrite O. f_equal; try reflexivity; f_equal; lia.
    + inversion S2 as [S3]. f_equal. clear S3.
      rewrite A1. cbn -[extend sub].
      change (tape a ++ [nth (length (tape a) - slen a) (tape a) 0%N]) with (extend (slen a) 1 (tape a)).
      rewrite sub_extend by lia.
      unfold a_cell. rewrite (Ledger.sub_cons_nth (tape a) (tC (lpos a)) k) by lia.
      replace (tC (lpos a) + 1) with (S (tC (lpos a))) by lia. reflexivity.
Qed.
