(** * C07 (sequential half), C10: bounded operations, publications are found *)
From Coq Require Import List Arith NArith Bool Lia.
Import ListNotations.
Require Import MRB.Base.Ring MRB.Base.ListAux MRB.Model.Types MRB.Model.Seq MRB.Spec.Pipe MRB.Model.Trace.
Require Import MRB.Proofs.Rel MRB.Proofs.Refine MRB.Proofs.SpecFacts.

(** ** C10: every operation is a bounded, loop-free micro-program *)
Lemma t_check_len pr k n m : length (t_check pr k n m) <= 1.
Proof. unfold t_check, t_fresh. destruct (n <=? ca (it_of k m)); simpl; lia. Qed.
Lemma t_pub_len pr k m : length (t_pub pr k m) <= 1.
Proof. unfold t_pub. destruct (det (it_of k m)); simpl; lia. Qed.
Lemma t_request_len pr k n m b : length (t_request pr k n m b) <= 2.
Proof.
  unfold t_request. destruct (check k n m) as [g m1]. rewrite app_length.
  pose proof (t_check_len pr k n m). destruct (g && b); [pose proof (t_pub_len pr k (advance k n m1))|]; simpl; lia.
Qed.

(** at most six atomic accesses per call (re-split: 3 index stores + 3 liveness RMWs; drop: fence, RMW, fence, free),
    whatever the state, the arguments (slice length included) and the ordering profile: no operation waits *)
Theorem C10_bounded pr m o : length (trace pr m o) <= 6.
Proof.
  destruct o; cbn [trace];
    repeat match goal with
    | |- context[if ?c then _ else _] => destruct c
    | |- context[match ?k with P => _ | W => _ | C => _ end] => destruct k
    end; cbn [length app]; try lia;
    try (etransitivity; [apply t_request_len|lia]); try (etransitivity; [apply t_check_len|lia]);
    try (etransitivity; [apply t_pub_len|lia]).
  all: unfold t_drop, t_fresh; repeat (rewrite app_length); cbn [length];
    repeat match goal with |- context[if ?c then _ else _] => destruct c end; cbn [length]; lia.
Qed.

(** one successor-index load and one own-index store at most (reset: exactly one of each) *)
Lemma loads_app a b : loads (a ++ b) = loads a + loads b.
Proof. unfold loads. rewrite filter_app, app_length. reflexivity. Qed.
Lemma stores_app a b : stores (a ++ b) = stores a + stores b.
Proof. unfold stores. rewrite filter_app, app_length. reflexivity. Qed.

Theorem C10_one_load_one_store pr m o : (forall w, o <> Resplit w) -> loads (trace pr m o) <= 1 /\ stores (trace pr m o) <= 1.
Proof.
  intros NR. destruct o; try (exfalso; eapply NR; reflexivity); cbn [trace];
    unfold t_request, t_check, t_pub, t_fresh, t_drop, st_own;
    repeat match goal with
    | |- context[check ?k ?n ?m] => destruct (check k n m)
    | |- context[if ?c then _ else _] => destruct c
    | |- context[match ?k with P => _ | W => _ | C => _ end] => destruct k
    end; rewrite ?loads_app, ?stores_app; unfold loads, stores; cbn; lia.
Qed.

(** ** C10: publications are found (sequentially consistent runs: the next fresh look sees everything published) *)
Theorem C10_fresh_look_sees_all m a k : Rel m a -> a_usable k a = true ->
  fst (snd (step m (Avail k))) = ONum (a_avail k a).
Proof. apply C05_exact. Qed.

(** a retrying stage succeeds as soon as something has been released to it: the pipeline drains *)
Theorem C10_retry_succeeds m a : Rel m a -> a_attached C a = true -> 0 < a_avail C a ->
  exists v, fst (snd (step m Pop)) = OVal v.
Proof.
  intros R G H. pose proof (step_refines m a Pop R eq_refl) as [E _]. rewrite E. cbn [sstep]. rewrite G.
  unfold a_pop. replace (1 <=? a_avail C a) with true by (symmetry; apply Nat.leb_le; lia). simpl. eexists. reflexivity.
Qed.

(** each successful consumer step removes one item from the buffer: the number of items in flight is a decreasing
    measure for a draining pipeline *)
Theorem C10_pop_decreases m a v e m' : Rel m a -> a_attached C a = true ->
  step m Pop = (m', (OVal v, e)) -> in_flight (fst (sstep a Pop)) + 1 = in_flight a.
Proof.
  intros R G H. pose proof (step_refines m a Pop R eq_refl) as [E _]. rewrite H in E. simpl in E.
  cbn [sstep] in *. rewrite G in *. unfold a_pop in *.
  destruct (1 <=? a_avail C a) eqn:L; [apply Nat.leb_le in L|simpl in E; discriminate].
  pose proof (attached_det _ _ G) as D. simpl in D.
  simpl. unfold in_flight, a_advance. simpl. rewrite D. simpl.
  pose proof (r_att _ _ R C (attached_det _ _ G)) as A. simpl in A.
  pose proof (r_oC _ _ R). pose proof (r_oP _ _ R). pose proof (r_oS _ _ R). unfold a_avail, a_succ in *. simpl in *.
  destruct (shasW a); lia.
Qed.

(** ** C07, sequential half: the flag of a dropped iterator is cleared, the others are untouched, and a heap buffer is
    released exactly by the drop that clears the last flag; iterators never release a stack buffer *)
Theorem C07_seq_drop m k :
  let m' := fst (drop_iter k m) in
  tget k (flag m') = false /\ (forall j, j <> k -> tget j (flag m') = tget j (flag m)) /\
  here (it_of k m') = false /\
  (freed m' = (freed m || (negb (tP (flag m')) && negb (tW (flag m')) && negb (tC (flag m')) && heap m))) /\
  (heap m = false -> freed m' = freed m) /\ slots m' = slots m /\ pub m' = pub m.
Proof.
  unfold drop_iter, rete. simpl. unfold it_of. simpl. rewrite !tget_tset_same.
  repeat match goal with |- _ /\ _ => split end; auto.
  - intros j Hj. apply tget_tset_other; auto.
  - intros ->. rewrite !andb_false_r, orb_false_r. reflexivity.
Qed.
