(** * End-to-end FIFO for the sequential Spec: two-stage pipeline (producer -> consumer), plain items.

    Over histories made of pushes, advancing consumer reads, peeks and availability queries,
    what the consumer has obtained, followed by what is still in the buffer, is exactly what was in
    flight at the start followed by the accepted pushes:

        pending a ++ accepted a h = consumed a h ++ pending (final state)

    so nothing is lost, duplicated, reordered or invented.  Also: at most [len - 1] items are ever
    in flight. *)
From Coq Require Import List Arith NArith Bool Lia.
Import ListNotations.
Require Import MRB.Base.Ring MRB.Base.ListAux MRB.Model.Types MRB.Model.Seq MRB.Spec.Pipe.
Require Import MRB.Proofs.Rel MRB.Proofs.TapeFacts MRB.Proofs.Refine.

(** ** The operations of the theorem *)
Definition fifo_op (o : op) : bool :=
  match o with
  | Push _ | PushSlice _ | Avail P => true                    (* producer *)
  | Pop | CopyItem | CopySlice _ | Avail C => true            (* consumer, advancing reads *)
  | GetExact C _ | GetOne C => true                           (* consumer, peeks *)
  | _ => false
  end.

(** every such operation respects the contract, whatever the state *)
Lemma fifo_op_ok a o : fifo_op o = true -> ok_op a o = true.
Proof. destruct o; try discriminate; reflexivity. Qed.

(** ** Ghost functions *)

(** the items in flight: positions from the consumer's to the producer's *)
Definition pending (a : pipe) : list N :=
  sub (tape a) (tC (lpos a)) (tP (lpos a) - tC (lpos a)).

(** what one operation makes the buffer accept *)
Definition accepted1 (a : pipe) (o : op) : list N :=
  match o with
  | Push v => match fst (snd (sstep a o)) with OOk => [v] | _ => [] end
  | PushSlice vs => match fst (snd (sstep a o)) with OOk => vs | _ => [] end
  | _ => []
  end.

(** what one operation hands to the consumer while advancing *)
Definition consumed1 (a : pipe) (o : op) : list N :=
  match o with
  | Pop => match fst (snd (sstep a o)) with OVal v => [v] | _ => [] end
  | CopyItem => match fst (snd (sstep a o)) with ODst l => l | _ => [] end
  | CopySlice _ => match fst (snd (sstep a o)) with ODst l => l | _ => [] end
  | _ => []
  end.

Fixpoint accepted (a : pipe) (h : list op) : list N :=
  match h with
  | [] => []
  | o :: r => accepted1 a o ++ accepted (fst (sstep a o)) r
  end.

Fixpoint consumed (a : pipe) (h : list op) : list N :=
  match h with
  | [] => []
  | o :: r => consumed1 a o ++ consumed (fst (sstep a o)) r
  end.

Fixpoint sfinal (a : pipe) (h : list op) : pipe :=
  match h with
  | [] => a
  | o :: r => sfinal (fst (sstep a o)) r
  end.

(** [sfinal] is the final state of [srun], and the histories of the theorem respect the contract *)
Lemma sfinal_srun h : forall a, sfinal a h = fst (fst (srun a h)).
Proof.
  induction h as [|o r IH]; intros a; simpl; auto.
  rewrite IH. destruct (sstep a o) as [a1 x]. simpl.
  destruct (srun a1 r) as [[a2 xs] okr]. reflexivity.
Qed.

Lemma fifo_history_ok h : forall a, forallb fifo_op h = true -> snd (srun a h) = true.
Proof.
  induction h as [|o r IH]; intros a H; simpl; auto.
  simpl in H. apply andb_prop in H as [Ho Hr].
  rewrite (fifo_op_ok a o Ho).
  destruct (sstep a o) as [a1 x]. specialize (IH a1 Hr).
  destruct (srun a1 r) as [[a2 xs] okr]. simpl in *. exact IH.
Qed.

(** ** The invariant: a reachable two-stage plain state with nothing detached *)
Record Inv (a : pipe) : Prop := mkInv {
  i_rel : exists m, Rel m a;
  i_noW : shasW a = false;
  i_plain : sowned a = false;
  i_detP : tP (sdet a) = false;
  i_detC : tC (sdet a) = false
}.

(** the facts about positions the proofs need *)
Lemma inv_order a : Inv a ->
  tC (ppos a) <= tC (lpos a) /\ tC (lpos a) + a_avail C a <= tP (lpos a) /\
  tP (lpos a) + a_avail P a <= tC (ppos a) + slen a - 1 /\
  length (tape a) = tC (ppos a) + slen a /\ 0 < slen a /\
  tC (lpos a) = tC (ppos a) /\ tP (lpos a) = tP (ppos a).
Proof.
  intros I. destruct (i_rel a I) as [m R].
  pose proof (r_oC _ _ R) as HC. pose proof (r_oP _ _ R) as HP. pose proof (r_oS _ _ R) as HS.
  pose proof (r_pos _ _ R) as Hl. pose proof (r_tape _ _ R) as Ht.
  pose proof (r_att _ _ R C (i_detC a I)) as AC. pose proof (r_att _ _ R P (i_detP a I)) as AP.
  unfold a_avail, a_succ in *. rewrite (i_noW a I) in *. simpl in *.
  repeat match goal with |- _ /\ _ => split end; lia.
Qed.

(** ** List facts *)
Lemma firstn_add {A} n m (l : list A) : firstn (n + m) l = firstn n l ++ firstn m (skipn n l).
Proof.
  revert l; induction n as [|n IH]; intros l; simpl; auto.
  destruct l as [|x l]; simpl.
  - rewrite firstn_nil. reflexivity.
  - f_equal. apply IH.
Qed.

Lemma sub_split {A} (l : list A) i n1 n2 : sub l i (n1 + n2) = sub l i n1 ++ sub l (i + n1) n2.
Proof. unfold sub. rewrite firstn_add, skipn_add. reflexivity. Qed.

Lemma sub_ext (l l' : list N) i n : i + n <= length l -> i + n <= length l' ->
  (forall q, i <= q < i + n -> nth q l' 0%N = nth q l 0%N) -> sub l' i n = sub l i n.
Proof.
  intros H1 H2 H. apply (nth_ext_d 0%N).
  - rewrite !sub_length; auto.
  - intros j Hj. rewrite sub_length in Hj by auto. rewrite !(nth_sub 0%N) by auto. apply H. lia.
Qed.

Lemma sub_write_same (l : list N) i vs : i + length vs <= length l ->
  sub (write l i vs) i (length vs) = vs.
Proof.
  intros H. apply (nth_ext_d 0%N).
  - rewrite sub_length; auto. rewrite write_length; auto.
  - intros j Hj. rewrite sub_length in Hj by (rewrite write_length; auto).
    rewrite (nth_sub 0%N) by auto. rewrite (nth_write 0%N) by auto.
    bt (i <=? i + j). bt (i + j <? i + length vs). simpl. f_equal. lia.
Qed.

Lemma sub_one (l : list N) i : i < length l -> sub l i 1 = [nth i l 0%N].
Proof.
  intros H. apply (nth_ext_d 0%N).
  - rewrite sub_length by lia. reflexivity.
  - intros j Hj. rewrite sub_length in Hj by lia. rewrite (nth_sub 0%N) by auto.
    assert (j = 0) as -> by lia. rewrite Nat.add_0_r. reflexivity.
Qed.

(** ** The two moves *)

(** storing [vs] at the producer's position and advancing appends [vs] to the items in flight *)
Lemma produce a vs : Inv a -> length vs <= a_avail P a ->
  pending (a_advance P (length vs) (a_set_tape (write (tape a) (tP (lpos a)) vs) a)) = pending a ++ vs.
Proof.
  intros I L. destruct (inv_order a I) as (H1 & H2 & H3 & H4 & H5 & H6 & H7).
  unfold a_advance. cbn [tget a_set_tape sdet]. rewrite (i_detP a I).
  unfold pending. cbn [a_publish a_set_lpos a_set_tape tape lpos tget tset tP tC].
  replace (tP (lpos a) + length vs - tC (lpos a)) with ((tP (lpos a) - tC (lpos a)) + length vs) by lia.
  rewrite sub_split.
  replace (tC (lpos a) + (tP (lpos a) - tC (lpos a))) with (tP (lpos a)) by lia.
  rewrite sub_write_same by lia. f_equal.
  apply sub_ext; rewrite ?write_length; try lia.
  intros q Hq. rewrite (nth_write 0%N) by lia.
  bf (tP (lpos a) <=? q). reflexivity.
Qed.

(** advancing the consumer by [n] removes the first [n] items in flight and keeps the rest *)
Lemma consume a n : Inv a -> n <= a_avail C a ->
  pending a = sub (tape a) (tC (lpos a)) n ++ pending (a_advance C n a).
Proof.
  intros I L. destruct (inv_order a I) as (H1 & H2 & H3 & H4 & H5 & H6 & H7).
  unfold a_advance. cbn [tget]. rewrite (i_detC a I).
  unfold pending at 2. cbn [a_publish a_set_lpos tape lpos tget tset tP tC slen].
  unfold pending.
  replace (tP (lpos a) - tC (lpos a)) with (n + (tP (lpos a) - (tC (lpos a) + n))) by lia.
  rewrite sub_split. f_equal.
  replace (n + (tP (lpos a) - (tC (lpos a) + n)) - n) with (tP (lpos a) - (tC (lpos a) + n)) by lia.
  symmetry. apply sub_ext; rewrite ?extend_length; try lia.
  intros q Hq. apply extend_old. lia.
Qed.

(** ** The invariant is preserved *)
Lemma adv_fields k n a :
  shasW (a_advance k n a) = shasW a /\ sowned (a_advance k n a) = sowned a /\
  sdet (a_advance k n a) = sdet a.
Proof. unfold a_advance. destruct (tget k (sdet a)); destruct k; simpl; auto. Qed.

Lemma step_fields a o : fifo_op o = true ->
  shasW (fst (sstep a o)) = shasW a /\ sowned (fst (sstep a o)) = sowned a /\
  sdet (fst (sstep a o)) = sdet a.
Proof.
  intros F.
  destruct o; try discriminate; try (destruct k; try discriminate); cbn [sstep];
    match goal with |- context[if ?g then _ else _] => destruct g end; try (simpl; auto; fail).
  - unfold a_grant_one. destruct (1 <=? a_avail C a); simpl; auto.
  - unfold a_grant. destruct (n <=? a_avail C a); simpl; auto.
  - unfold a_push. destruct (1 <=? a_avail P a); simpl; auto.
    apply (adv_fields P 1 (a_set_tape (upd (tP (lpos a)) v (tape a)) a)).
  - unfold a_push_slice. destruct (length vs <=? a_avail P a); simpl; auto.
    apply (adv_fields P (length vs) (a_set_tape (write (tape a) (tP (lpos a)) vs) a)).
  - unfold a_pop. destruct (1 <=? a_avail C a); simpl; auto. apply adv_fields.
  - unfold a_extract_item. destruct (1 <=? a_avail C a); simpl; auto. apply adv_fields.
  - unfold a_extract_slice. destruct (n <=? a_avail C a); simpl; auto. apply adv_fields.
Qed.

Lemma inv_step a o : Inv a -> fifo_op o = true -> Inv (fst (sstep a o)).
Proof.
  intros I F. destruct (i_rel a I) as [m R].
  destruct (step_fields a o F) as (E1 & E2 & E3).
  constructor.
  - exists (fst (step m o)). apply (step_refines m a o R (fifo_op_ok a o F)).
  - rewrite E1. apply (i_noW a I).
  - rewrite E2. apply (i_plain a I).
  - rewrite E3. apply (i_detP a I).
  - rewrite E3. apply (i_detC a I).
Qed.

Lemma inv_run h : forall a, Inv a -> forallb fifo_op h = true -> Inv (sfinal a h).
Proof.
  induction h as [|o r IH]; intros a I H; simpl; auto.
  simpl in H. apply andb_prop in H as [Ho Hr]. apply IH; auto. apply inv_step; auto.
Qed.

(** ** One step *)
Lemma fifo_step a o : Inv a -> fifo_op o = true ->
  pending a ++ accepted1 a o = consumed1 a o ++ pending (fst (sstep a o)).
Proof.
  intros I F. destruct (inv_order a I) as (H1 & H2 & H3 & H4 & H5 & H6 & H7).
  destruct o; try discriminate; try (destruct k; try discriminate);
    unfold accepted1, consumed1; cbn [sstep];
    match goal with |- context[if ?g then _ else _] => destruct g end;
    try (simpl; rewrite app_nil_r; reflexivity).
  - (* GetOne C *)
    unfold a_grant_one. destruct (1 <=? a_avail C a); simpl; rewrite app_nil_r; reflexivity.
  - (* GetExact C n *)
    unfold a_grant. destruct (n <=? a_avail C a); simpl; rewrite app_nil_r; reflexivity.
  - (* Push v *)
    unfold a_push. destruct (1 <=? a_avail P a) eqn:L; [apply Nat.leb_le in L|];
      cbn [a_rete a_ret fst snd app]; [|rewrite app_nil_r; reflexivity].
    symmetry. exact (produce a [v] I L).
  - (* PushSlice vs *)
    unfold a_push_slice. destruct (length vs <=? a_avail P a) eqn:L; [apply Nat.leb_le in L|];
      cbn [a_rete a_ret fst snd app]; [|rewrite app_nil_r; reflexivity].
    symmetry. exact (produce a vs I L).
  - (* Pop *)
    unfold a_pop. destruct (1 <=? a_avail C a) eqn:L; [apply Nat.leb_le in L|];
      cbn [a_rete a_ret fst snd]; [|rewrite app_nil_r; reflexivity].
    rewrite app_nil_r. rewrite (consume a 1 I L). f_equal.
    unfold a_cell. cbn [tget]. apply sub_one. lia.
  - (* CopyItem *)
    unfold a_extract_item. destruct (1 <=? a_avail C a) eqn:L; [apply Nat.leb_le in L|];
      cbn [a_rete a_ret fst snd]; [|rewrite app_nil_r; reflexivity].
    rewrite app_nil_r. rewrite (consume a 1 I L). f_equal.
    unfold a_cell. cbn [tget]. apply sub_one. lia.
  - (* CopySlice n *)
    unfold a_extract_slice. destruct (n <=? a_avail C a) eqn:L; [apply Nat.leb_le in L|];
      cbn [a_rete a_ret fst snd]; [|rewrite app_nil_r; reflexivity].
    rewrite app_nil_r. exact (consume a n I L).
Qed.

(** ** The end-to-end theorem *)
Theorem FIFO h : forall a, Inv a -> forallb fifo_op h = true ->
  pending a ++ accepted a h = consumed a h ++ pending (sfinal a h).
Proof.
  induction h as [|o r IH]; intros a I H; simpl.
  - rewrite app_nil_r. reflexivity.
  - simpl in H. apply andb_prop in H as [Ho Hr].
    rewrite app_assoc, (fifo_step a o I Ho), <- !app_assoc. f_equal.
    apply IH; auto. apply inv_step; auto.
Qed.

(** the same, on the final state of [srun] and with the invariant spelled out: any state related
    to a Model state, two stages, plain items, nothing detached; the history respects the contract *)
Theorem FIFO_rel m a h :
  Rel m a -> shasW a = false -> sowned a = false -> tP (sdet a) = false -> tC (sdet a) = false ->
  forallb fifo_op h = true ->
  snd (srun a h) = true /\
  pending a ++ accepted a h = consumed a h ++ pending (fst (fst (srun a h))) /\
  length (pending (fst (fst (srun a h)))) <= slen a - 1.
Proof.
  intros R HW HO DP DC H.
  assert (I : Inv a) by (constructor; eauto).
  rewrite <- sfinal_srun.
  repeat match goal with |- _ /\ _ => split end.
  - apply fifo_history_ok; auto.
  - apply FIFO; auto.
  - pose proof (inv_run h a I H) as I'.
    destruct (inv_order _ I') as (H1 & H2 & H3 & H4 & H5 & H6 & H7).
    assert (E : slen (sfinal a h) = slen a).
    { clear - H. revert a. induction h as [|o r IH]; intros a; simpl; auto.
      simpl in H. apply andb_prop in H as [Ho Hr]. rewrite (IH Hr).
      clear - Ho. destruct o; try discriminate; try (destruct k; try discriminate); cbn [sstep];
        match goal with |- context[if ?g then _ else _] => destruct g end; try reflexivity.
      - unfold a_grant_one. destruct (1 <=? a_avail C a); reflexivity.
      - unfold a_grant. destruct (n <=? a_avail C a); reflexivity.
      - unfold a_push. destruct (1 <=? a_avail P a); simpl; auto.
        unfold a_advance; simpl. destruct (tP (sdet a)); reflexivity.
      - unfold a_push_slice. destruct (length vs <=? a_avail P a); simpl; auto.
        unfold a_advance; simpl. destruct (tP (sdet a)); reflexivity.
      - unfold a_pop. destruct (1 <=? a_avail C a); simpl; auto.
        unfold a_advance; simpl. destruct (tC (sdet a)); reflexivity.
      - unfold a_extract_item. destruct (1 <=? a_avail C a); simpl; auto.
        unfold a_advance; simpl. destruct (tC (sdet a)); reflexivity.
      - unfold a_extract_slice. destruct (n <=? a_avail C a); simpl; auto.
        unfold a_advance; simpl. destruct (tC (sdet a)); reflexivity. }
    rewrite <- E. unfold pending. rewrite sub_length by lia. lia.
Qed.

(** ** Capacity: never more than [len - 1] items in flight *)
Theorem FIFO_capacity a : Inv a -> length (pending a) <= slen a - 1.
Proof.
  intros I. destruct (inv_order a I) as (H1 & H2 & H3 & H4 & H5 & H6 & H7).
  unfold pending. rewrite sub_length by lia. lia.
Qed.

Corollary FIFO_capacity_run a h : Inv a -> forallb fifo_op h = true ->
  length (pending (sfinal a h)) <= slen (sfinal a h) - 1.
Proof. intros I H. apply FIFO_capacity. apply inv_run; auto. Qed.

(** ** From the initial state: nothing in flight *)
Lemma inv_init c a : a_init c = Some a -> c_worker c = false -> c_owned c = false ->
  Inv a /\ pending a = [].
Proof.
  intros Ha HW HO. pose proof (init_refines c) as R. rewrite Ha in R.
  destruct (init c) as [m|]; [|contradiction].
  unfold a_init in Ha. destruct (length (c_init c)) eqn:E; try discriminate.
  inversion Ha; subst; clear Ha.
  split.
  - constructor; simpl; auto. exists m. exact R.
  - reflexivity.
Qed.

Theorem FIFO_init c a h : a_init c = Some a -> c_worker c = false -> c_owned c = false ->
  forallb fifo_op h = true ->
  snd (srun a h) = true /\
  accepted a h = consumed a h ++ pending (fst (fst (srun a h))) /\
  (exists rest, accepted a h = consumed a h ++ rest) /\
  length (pending (fst (fst (srun a h)))) <= length (c_init c) - 1.
Proof.
  intros Ha HW HO H. destruct (inv_init c a Ha HW HO) as [I E0].
  pose proof (FIFO h a I H) as F. rewrite E0 in F. simpl in F.
  rewrite <- sfinal_srun.
  repeat match goal with |- _ /\ _ => split end; auto.
  - apply fifo_history_ok; auto.
  - eexists; exact F.
  - destruct (i_rel a I) as [m R].
    destruct (FIFO_rel m a h R (i_noW a I) (i_plain a I) (i_detP a I) (i_detC a I) H) as (_ & _ & Cap).
    rewrite <- sfinal_srun in Cap.
    assert (El : slen a = length (c_init c)).
    { unfold a_init in Ha. destruct (length (c_init c)) eqn:E; try discriminate.
      inversion Ha; subst; reflexivity. }
    rewrite <- El. exact Cap.
Qed.

Print Assumptions FIFO.
Print Assumptions FIFO_rel.
Print Assumptions FIFO_init.
