(** * Consequences of the refinement: the sequential property statements (C01, C04, C05, C06, C11, C12, C18). *)
From Coq Require Import List Arith NArith Bool Lia.
Import ListNotations.
Require Import MRB.Base.Ring MRB.Base.ListAux MRB.Model.Types MRB.Model.Seq MRB.Spec.Pipe.
Require Import MRB.Proofs.Rel MRB.Proofs.TapeFacts MRB.Proofs.Refine.

(** Reachable: related to some Spec state; every state reached by a contract-respecting history is. *)
Definition Reach (m : mstate) : Prop := exists a, Rel m a.

Theorem reach_init c m : init c = Some m -> Reach m.
Proof.
  intros H. pose proof (init_refines c) as R. rewrite H in R.
  destruct (a_init c) as [a|]; [exists a; auto | contradiction].
Qed.

Theorem reach_step m a o : Rel m a -> ok_op a o = true -> Rel (fst (step m o)) (fst (sstep a o)).
Proof. intros R OK. apply (step_refines m a o R OK). Qed.

(** ** C04: stage order and capacity *)

(** in-flight items: between the consumer's published position and the producer's local one *)
Definition in_flight (a : pipe) : nat := tP (lpos a) - tC (ppos a).

Theorem C04_order m a : Rel m a ->
  tC (ppos a) <= tC (lpos a) /\ tC (lpos a) <= a_succ C a /\ a_succ C a <= tP (ppos a) /\
  (shasW a = true -> tC (lpos a) <= tW (ppos a) /\ tW (ppos a) <= tW (lpos a) /\ tW (lpos a) <= tP (ppos a)) /\
  tP (ppos a) <= tP (lpos a) /\ tP (lpos a) < tC (ppos a) + slen a /\
  in_flight a <= slen a - 1 /\
  (forall k, tget k (pub m) = tget k (ppos a) mod slen a) /\
  (forall k, tget k (shere a) = true -> ix (it_of k m) = tget k (lpos a) mod slen a).
Proof.
  intros R. pose proof (r_oC _ _ R). pose proof (r_oP _ _ R). pose proof (r_oS _ _ R). pose proof (r_oW _ _ R).
  pose proof (r_pos _ _ R). unfold in_flight.
  repeat match goal with |- _ /\ _ => split end; try lia.
  - intros E. specialize (H2 E). unfold a_succ in *. rewrite E in *. lia.
  - apply (r_pub _ _ R).
  - intros k Hk. destruct (r_it _ _ R k Hk) as (_ & E & _). exact E.
Qed.

(** a push is accepted iff fewer than len-1 items are in flight *)
Theorem C04_capacity m a v : Rel m a -> a_attached P a = true ->
  (fst (snd (step m (Push v))) = OOk <-> in_flight a < slen a - 1) /\
  (fst (snd (step m (Push v))) = OErr v <-> in_flight a = slen a - 1).
Proof.
  intros R G. pose proof (step_refines m a (Push v) R eq_refl) as [E _].
  rewrite E. cbn [sstep]. rewrite G. unfold a_push.
  pose proof (r_oP _ _ R). pose proof (r_pos _ _ R). pose proof (r_oC _ _ R). pose proof (r_oS _ _ R).
  unfold a_avail, a_succ, in_flight. simpl.
  destruct (1 <=? tC (ppos a) + slen a - 1 - tP (lpos a)) eqn:L; [apply Nat.leb_le in L | apply Nat.leb_gt in L]; simpl;
    split; split; intros; try discriminate; try lia; auto.
Qed.

(** with nothing detached, the availabilities of all stages sum to len-1 *)
Theorem C04_sum m a : Rel m a ->
  tP (sdet a) = false -> tW (sdet a) = false -> tC (sdet a) = false ->
  a_avail P a + (if shasW a then a_avail W a else 0) + a_avail C a = slen a - 1.
Proof.
  intros R DP DW DC.
  pose proof (r_att _ _ R P DP) as AP. pose proof (r_att _ _ R W DW) as AW. pose proof (r_att _ _ R C DC) as AC.
  pose proof (r_oC _ _ R). pose proof (r_oP _ _ R). pose proof (r_oS _ _ R). pose proof (r_oW _ _ R). pose proof (r_pos _ _ R).
  unfold a_avail, a_succ in *. simpl in *. destruct (shasW a); try (specialize (H2 eq_refl)); lia.
Qed.

(** ... and that is what three fresh [available()] calls return *)
Theorem C05_exact m a k : Rel m a -> a_usable k a = true ->
  fst (snd (step m (Avail k))) = ONum (a_avail k a).
Proof.
  intros R U. pose proof (step_refines m a (Avail k) R eq_refl) as [E _]. rewrite E. cbn [sstep]. rewrite U. reflexivity.
Qed.

(** safe operations: the contract holds for them whatever the arguments and whatever the state *)
Definition safe_op (o : op) : bool :=
  match o with
  | Advance _ _ | Poke _ _ _ | PokeInit _ _ _ | Edit _ _ _ | SetIndex _ _ | GoBack _ _ => false  (* unsafe fns / raw accesses *)
  | DReset P => false         (* known finding F9: a safe fn without a meaning for a producer *)
  | _ => true
  end.

Lemma dreset_ok m a k : Rel m a -> a_detached k a = true -> k <> P ->
  a_locate k (a_succ k a mod slen a) a <= a_limit k a.
Proof.
  intros R G NP. pose proof (detached_usable _ _ G) as U.
  pose proof (r_pos _ _ R) as Hl.
  pose proof (r_oC _ _ R). pose proof (r_oP _ _ R). pose proof (r_oS _ _ R). pose proof (r_oW _ _ R).
  assert (HW : match k with W => shasW a = true | _ => True end) by (destruct k; auto; apply usable_W; auto).
  unfold a_locate, a_limit.
  assert (E : tget k (ppos a) <= a_succ k a /\ a_succ k a - tget k (ppos a) < slen a).
  { unfold a_succ in *. destruct k; try congruence; simpl in *; destruct (shasW a); intuition lia. }
  rewrite dist_mod by lia. destruct k; try congruence; lia.
Qed.

Theorem C04_safe_ops m a o : Rel m a -> safe_op o = true ->
  refines (step m o) (sstep a o).
Proof.
  intros R S. destruct o; try discriminate; try (apply step_refines; auto; fail).
  (* DReset W / C *)
  destruct k; try discriminate.
  - destruct (a_detached W a) eqn:G.
    + apply step_refines; auto. simpl. apply Nat.leb_le. apply (dreset_ok m a W R G). congruence.
    + cbn [step sstep]. rewrite (detached_eq _ _ _ R), G. apply refines_bad; auto.
  - destruct (a_detached C a) eqn:G.
    + apply step_refines; auto. simpl. apply Nat.leb_le. apply (dreset_ok m a C R G). congruence.
    + cbn [step sstep]. rewrite (detached_eq _ _ _ R), G. apply refines_bad; auto.
Qed.

(** ** C05: requests are all-or-nothing *)

(** a request for [n] slots succeeds exactly when [n <= availability], whatever was remembered *)
Theorem C05_iff m a k n : Rel m a -> a_usable k a = true ->
  (fst (snd (step m (GetExact k n))) = ONone <-> a_avail k a < n).
Proof.
  intros R U. pose proof (step_refines m a (GetExact k n) R eq_refl) as [E _]. rewrite E. cbn [sstep]. rewrite U.
  unfold a_grant, a_window. destruct (n <=? a_avail k a) eqn:L; [apply Nat.leb_le in L | apply Nat.leb_gt in L]; simpl.
  - destruct (chunk _ _ _). split; [discriminate | lia].
  - split; auto.
Qed.

(** a refused request changes nothing but the requester's remembered availability *)
Theorem C05_refused_noop m a k n : Rel m a -> a_usable k a = true -> a_avail k a < n ->
  step m (GetExact k n) = (set_ca k (a_avail k a) m, (ONone, [])) /\ sstep a (GetExact k n) = (a, (ONone, [])).
Proof.
  intros R U L. cbn [step sstep]. rewrite (usable_eq _ _ _ R), U.
  unfold grant, a_grant, check.
  destruct (r_it _ _ R k (usable_here _ _ U)) as (_ & _ & Hca).
  bf (n <=? ca (it_of k m)). destruct (rel_refresh m a k R U) as [-> _].
  bf (n <=? a_avail k a). auto.
Qed.

Theorem C05_refused_push m a v : Rel m a -> a_attached P a = true -> a_avail P a = 0 ->
  step m (Push v) = (set_ca P 0 m, (OErr v, [])) /\ sstep a (Push v) = (a, (OErr v, [])).
Proof.
  intros R G L. pose proof (attached_usable _ _ G) as U. cbn [step sstep]. rewrite (attached_eq _ _ _ R), G.
  unfold push, a_push, check.
  destruct (r_it _ _ R P (usable_here _ _ U)) as (_ & _ & Hca).
  bf (1 <=? ca (it_of P m)). destruct (rel_refresh m a P R U) as [-> _].
  rewrite L. simpl. auto.
Qed.

(** ** C06: slice geometry *)
Theorem C06_chunk len ix n : ix < len -> n <= len - 1 ->
  let '(h, t) := chunk len ix n in
  h + t = n /\ ix + h <= len /\ t <= ix /\ (t > 0 -> ix + h = len) /\
  (forall k, k < n -> wadd len ix k = if k <? h then ix + k else k - h).
Proof.
  intros Hi Hn. unfold chunk. destruct (len <=? ix + n) eqn:E; [apply Nat.leb_le in E | apply Nat.leb_gt in E].
  - repeat match goal with |- _ /\ _ => split end; try lia.
    intros k Hk. unfold wadd. destruct (k <? len - ix) eqn:E2; [apply Nat.ltb_lt in E2 | apply Nat.ltb_ge in E2].
    + bf (len <=? ix + k). reflexivity.
    + bt (len <=? ix + k). lia.
  - repeat match goal with |- _ /\ _ => split end; try lia.
    intros k Hk. unfold wadd. bt (k <? n). bf (len <=? ix + k). reflexivity.
Qed.

(** the slices handed out are the window of the tape, i.e. element [j] is ring position [(index+j) mod len] *)
Theorem C06_window m a k n : Rel m a -> a_usable k a = true -> n <= a_avail k a ->
  exists h t, fst (snd (step m (GetExact k n))) = OSlices (ix (it_of k m)) h t /\
    h ++ t = sub (tape a) (tget k (lpos a)) n /\
    length h = fst (chunk (slen a) (ix (it_of k m)) n) /\
    forall j, j < n -> nth j (h ++ t) 0%N = slot m (wadd (slen a) (ix (it_of k m)) j).
Proof.
  intros R U L. pose proof (step_refines m a (GetExact k n) R eq_refl) as [E _]. rewrite E. cbn [sstep]. rewrite U.
  unfold a_grant. bt (n <=? a_avail k a). unfold a_window. simpl.
  pose proof (window_bounds m a k R U) as [Wlo Whi]. pose proof (r_pos _ _ R) as Hl. pose proof (r_tape _ _ R) as Ht.
  rewrite (ix_eq m a k R U).
  destruct (chunk (slen a) (tget k (lpos a) mod slen a) n) as [h t] eqn:Ec. simpl.
  exists (firstn h (sub (tape a) (tget k (lpos a)) n)), (skipn h (sub (tape a) (tget k (lpos a)) n)).
  repeat match goal with |- _ /\ _ => split end; auto.
  - apply firstn_skipn.
  - rewrite firstn_length, sub_length by lia.
    assert (Hm : tget k (lpos a) mod slen a < slen a) by (apply Nat.mod_upper_bound; lia).
    pose proof (chunk_sum (slen a) (tget k (lpos a) mod slen a) n Hm) as Hc. rewrite Ec in Hc. simpl in Hc. lia.
  - intros j Hj. rewrite firstn_skipn. rewrite (nth_sub 0%N) by auto.
    rewrite wadd_mod by lia. rewrite slot_eq by (auto; lia). reflexivity.
Qed.

(** ** C11: reset_index *)
Theorem C11_reset m a k : Rel m a -> a_attached k a = true -> k <> P ->
  let a' := fst (sstep a (Reset k)) in
  let m' := fst (step m (Reset k)) in
  Rel m' a' /\
  (* nothing available, and nothing remembered *)
  a_avail k a' = 0 /\ ca (it_of k m') = 0 /\
  (* every getter of that iterator is refused until the iterator ahead publishes *)
  (forall n, 0 < n -> fst (snd (step m' (GetExact k n))) = ONone) /\
  (* the iterator sits exactly on the position of the iterator ahead *)
  tget k (lpos a') = a_succ k a /\ tget k (ppos a') = a_succ k a /\
  (* everything skipped is released to the iterator behind *)
  (forall j, j <> k -> tget j (lpos a') = tget j (lpos a) /\ a_succ j a' >= a_succ j a).
Proof.
  intros R G NP. pose proof (attached_usable _ _ G) as U.
  pose proof (step_refines m a (Reset k) R eq_refl) as [_ R'].
  cbv zeta. destruct k; try congruence; cbn [step sstep] in *; rewrite (attached_eq _ _ _ R), G in *; simpl fst in *.
  - repeat match goal with |- _ /\ _ => split end; auto.
    + unfold a_avail, a_succ. simpl. lia.
    + intros n Hn. assert (U' : a_usable W (a_publish W (a_succ W a) (a_set_lpos W (a_succ W a) a)) = true) by exact U.
      apply (C05_iff _ _ W n R' U'). unfold a_avail, a_succ. simpl. lia.
    + intros j Hj. destruct j; try congruence; simpl; split; auto; unfold a_succ; simpl; try lia.
      destruct (shasW a) eqn:E; simpl; auto.
      pose proof (limit_avail m a W R U) as (L1 & L2 & L3). unfold a_limit, a_succ in *. simpl in *. lia.
  - repeat match goal with |- _ /\ _ => split end; auto.
    + unfold a_avail, a_succ. simpl. destruct (shasW a); lia.
    + intros n Hn. assert (U' : a_usable C (a_publish C (a_succ C a) (a_set_lpos C (a_succ C a) a)) = true) by exact U.
      apply (C05_iff _ _ C n R' U'). unfold a_avail, a_succ. simpl. destruct (shasW a); lia.
    + intros j Hj. destruct j; try congruence; simpl; split; auto; unfold a_succ; simpl; try lia.
      pose proof (limit_avail m a C R U) as (L1 & L2 & L3). unfold a_limit, a_succ in *. simpl in *.
      destruct (shasW a); lia.
Qed.

(** ** C12: detached iterators *)

(** what the other iterators observe: published positions and liveness *)
Definition observed (a : pipe) := (ppos a, sflag a, slen a, shasW a).

Definition detached_op (k : stage) (o : op) : bool :=
  match o with
  | Avail j | Advance j _ | GetOne j | GetExact j _ | GetAvail j | GetMult j _
  | SetIndex j _ | GoBack j _ | DReset j => stage_eqb j k
  | _ => false
  end.

(** no operation on a detached iterator changes anything the others observe (positions, flags, contents excepted
    only through explicit writes), nor any other iterator's availability *)
Theorem C12_local a k o : a_detached k a = true -> detached_op k o = true ->
  let a' := fst (sstep a o) in
  observed a' = observed a /\ tape a' = tape a /\
  (forall j, j <> k -> tget j (lpos a') = tget j (lpos a) /\ a_avail j a' = a_avail j a).
Proof.
  intros G D. pose proof (detached_usable _ _ G) as U. pose proof (detached_det _ _ G) as Dt.
  assert (K : forall j, stage_eqb j k = true -> j = k) by (intros j; destruct (stage_eqb_spec j k); auto; discriminate).
  destruct o; try discriminate; simpl in D; apply K in D; subst; cbn [sstep]; rewrite ?U, ?G; cbv zeta.
  - simpl. repeat split; auto.
  - simpl. unfold a_advance. rewrite Dt. simpl. repeat split; auto;
      unfold a_avail, a_succ; destruct k, j; simpl; try congruence; auto.
  - unfold a_grant_one. destruct (1 <=? a_avail k a); simpl; repeat split; auto.
  - unfold a_grant. destruct (n <=? a_avail k a); simpl; repeat split; auto.
  - destruct (a_avail k a); simpl; repeat split; auto.
  - destruct r; simpl; [repeat split; auto|]. destruct (a_avail k a - a_avail k a mod S r); simpl; repeat split; auto.
  - simpl. repeat split; auto; unfold a_avail, a_succ; destruct k, j; simpl; try congruence; auto.
  - simpl. repeat split; auto; unfold a_avail, a_succ; destruct k, j; simpl; try congruence; auto.
  - simpl. repeat split; auto; unfold a_avail, a_succ; destruct k, j; simpl; try congruence; auto.
Qed.

(** local moves land on exactly the requested ring position *)
Theorem C12_position m a k : Rel m a -> a_detached k a = true ->
  (forall i, ok_op a (SetIndex k i) = true -> ix (it_of k (fst (step m (SetIndex k i)))) = i) /\
  (forall n, ok_op a (GoBack k n) = true ->
     ix (it_of k (fst (step m (GoBack k n)))) = (tget k (lpos a) - n) mod slen a /\
     ix (it_of k (fst (step m (GoBack k n)))) = wsub (slen a) (ix (it_of k m)) n) /\
  (forall n, ok_op a (Advance k n) = true ->
     ix (it_of k (fst (step m (Advance k n)))) = (tget k (lpos a) + n) mod slen a) /\
  (ix (it_of k (fst (step m (DReset k)))) = succ_idx k m).
Proof.
  intros R G. pose proof (detached_usable _ _ G) as U. pose proof (detached_det _ _ G) as Dt.
  pose proof (usable_here _ _ U) as Hh.
  repeat match goal with |- _ /\ _ => split end.
  - intros i OK. cbn [step]. rewrite (detached_eq _ _ _ R), G. simpl. unfold set_ix_ca, it_of, set_it. simpl.
    rewrite tget_tset_same. reflexivity.
  - intros n OK. pose proof (step_refines m a (GoBack k n) R OK) as [_ R'].
    cbn [step sstep] in *. rewrite (detached_eq _ _ _ R), G in *. simpl fst in *.
    split.
    + pose proof (r_it _ _ R' k) as IT. simpl in IT. specialize (IT Hh). destruct IT as (_ & E & _).
      rewrite tget_tset_same in E. exact E.
    + unfold set_ix_ca, it_of, set_it. simpl. rewrite tget_tset_same. simpl. rewrite (r_len _ _ R). reflexivity.
  - intros n OK. pose proof (step_refines m a (Advance k n) R OK) as [_ R'].
    cbn [step sstep] in *. rewrite (usable_eq _ _ _ R), U in *. simpl fst in *.
    unfold a_advance in *. rewrite Dt in *.
    pose proof (r_it _ _ R' k) as IT. simpl in IT. specialize (IT Hh). destruct IT as (_ & E & _).
    rewrite tget_tset_same in E. exact E.
  - cbn [step]. rewrite (detached_eq _ _ _ R), G. simpl. unfold set_ix_ca, it_of, set_it. simpl.
    rewrite tget_tset_same. reflexivity.
Qed.

(** after any local move, getters grant at most the true distance to the iterator ahead *)
Theorem C12_bounded_after_jump m a o n k : Rel m a -> ok_op a o = true ->
  let m' := fst (step m o) in let a' := fst (sstep a o) in
  a_usable k a' = true ->
  (fst (snd (step m' (GetExact k n))) = ONone <-> a_avail k a' < n) /\
  fst (snd (step m' (Avail k))) = ONum (a_avail k a').
Proof.
  intros R OK m' a' U. pose proof (step_refines m a o R OK) as [_ R'].
  split; [apply (C05_iff m' a' k n R' U) | apply (C05_exact m' a' k R' U)].
Qed.

(** [sync_index] / [attach] publish the local position in one step *)
Theorem C12_sync m a k : Rel m a -> a_detached k a = true ->
  tget k (pub (fst (step m (Sync k)))) = ix (it_of k m) /\
  tget k (pub (fst (step m (Attach k)))) = ix (it_of k m) /\
  tget k (ppos (fst (sstep a (Sync k)))) = tget k (lpos a).
Proof.
  intros R G. cbn [step sstep]. rewrite (detached_eq _ _ _ R), G. simpl.
  unfold set_pub, set_det, set_it, it_of, a_publish. simpl. rewrite !tget_tset_same. auto.
Qed.

(** ** C18: constructors and splits *)
Theorem C18_construct c :
  (length (c_init c) = 0 <-> init c = None) /\
  forall m, init c = Some m ->
    exists a, a_init c = Some a /\ Rel m a /\
      mlen m = length (c_init c) /\ slots m = c_init c /\
      a_avail P a = mlen m - 1 /\ a_avail C a = 0 /\ (shasW a = true -> a_avail W a = 0).
Proof.
  split.
  - unfold init. destruct (length (c_init c)); split; intros; try discriminate; auto.
  - intros m Hm. pose proof (init_refines c) as R. rewrite Hm in R.
    destruct (a_init c) as [a|] eqn:Ea; [|contradiction]. exists a. split; auto. split; auto.
    unfold init, a_init in *. destruct (length (c_init c)) eqn:E; try discriminate.
    inversion Hm; subst; clear Hm. inversion Ea; subst; clear Ea.
    unfold a_avail, a_succ. simpl. repeat split; auto; try lia. destruct (c_worker c); lia.
Qed.

Theorem C18_split m a w : Rel m a ->
  let m' := do_split w m in let a' := a_split w a in
  Rel m' a' /\ a_avail P a' = slen a - 1 /\ a_avail C a' = 0 /\ (w = true -> a_avail W a' = 0) /\
  slots m' = slots m.
Proof.
  intros R. pose proof (split_refines m a w R) as R'. cbv zeta. split; auto.
  unfold a_split, a_avail, a_succ. simpl. repeat split; auto; try lia. destruct w; lia.
Qed.

(** ** C01: what the consumer obtains *)

(** the stage that performs an operation *)
Definition actor (o : op) : option stage :=
  match o with
  | Avail k | Advance k _ | GetOne k | GetExact k _ | GetAvail k | GetMult k _
  | Poke k _ _ | PokeInit k _ _ | Edit k _ _ | Reset k | Detach k | Attach k | Sync k
  | SetIndex k _ | GoBack k _ | DReset k | DropIter k => Some k
  | Push _ | PushInit _ | PushSlice _ | PushSliceInit _ | PushSliceClone _ | PushSliceCloneInit _ | NextItemInit => Some P
  | PeekAvail | Pop | PopMove | CopyItem | CloneItem | CopySlice _ | CloneSlice _ => Some C
  | DropBuf | Resplit _ => None
  end.

(** the windows of the three stages are disjoint intervals of positions, in pipeline order *)
Theorem C01_windows_disjoint m a : Rel m a ->
  tC (lpos a) + a_avail C a <= (if shasW a then tW (lpos a) else tP (lpos a)) /\
  (shasW a = true -> tW (lpos a) + a_avail W a <= tP (lpos a)) /\
  tP (lpos a) + a_avail P a < tC (ppos a) + slen a /\
  tC (ppos a) <= tC (lpos a).
Proof.
  intros R. pose proof (r_oC _ _ R). pose proof (r_oP _ _ R). pose proof (r_oS _ _ R). pose proof (r_oW _ _ R).
  pose proof (r_pos _ _ R). unfold a_avail, a_succ in *. simpl.
  destruct (shasW a); repeat match goal with |- _ /\ _ => split end; intros; try discriminate; intuition lia.
Qed.

(** [TFrame lo hi t t']: [t'] extends [t] and differs from it only inside [[lo, hi)] *)
Definition TFrame (lo hi : nat) (t t' : list N) : Prop :=
  length t <= length t' /\ forall p, p < length t -> ~ (lo <= p < hi) -> nth p t' 0%N = nth p t 0%N.

Lemma tf_refl lo hi t : TFrame lo hi t t.
Proof. split; auto. Qed.

Lemma tf_trans lo hi t t' t'' : TFrame lo hi t t' -> TFrame lo hi t' t'' -> TFrame lo hi t t''.
Proof.
  intros [L1 F1] [L2 F2]. split; [lia|]. intros p Hp Hn. rewrite F2 by (auto; lia). apply F1; auto.
Qed.

Lemma tf_upd lo hi t q v : lo <= q < hi -> TFrame lo hi t (upd q v t).
Proof. intros Hq. split; [rewrite upd_length; auto|]. intros p Hp Hn. apply nth_upd_neq. lia. Qed.

Lemma tf_write lo hi t q vs : lo <= q -> q + length vs <= hi -> q + length vs <= length t -> TFrame lo hi t (write t q vs).
Proof.
  intros H1 H2 H3. split; [rewrite write_length; auto|]. intros p Hp Hn.
  rewrite (nth_write 0%N) by auto.
  destruct (q <=? p) eqn:E1; simpl; auto. destruct (p <? q + length vs) eqn:E2; auto.
  apply Nat.leb_le in E1. apply Nat.ltb_lt in E2. lia.
Qed.

Lemma tf_extend lo hi len n t : TFrame lo hi t (extend len n t).
Proof. split; [rewrite extend_length; lia|]. intros p Hp _. apply extend_old; auto. Qed.

Lemma tf_publish lo hi k q a : TFrame lo hi (tape a) (tape (a_publish k q a)).
Proof. unfold a_publish. destruct k; simpl; try apply tf_refl. apply tf_extend. Qed.

Lemma tf_advance lo hi k n a : TFrame lo hi (tape a) (tape (a_advance k n a)).
Proof.
  unfold a_advance. destruct (tget k (sdet a)); simpl; [apply tf_refl|].
  apply (tf_publish lo hi k _ (a_set_lpos k (tget k (lpos a) + n) a)).
Qed.

Lemma clones_tape a vs : tape (snd (a_clones a vs)) = tape a.
Proof. unfold a_clones. destruct (sowned a); reflexivity. Qed.

(** an operation changes the tape only inside the acting iterator's own window; it never shrinks it *)
Theorem C01_frame m a o k : Rel m a -> ok_op a o = true -> actor o = Some k ->
  TFrame (tget k (lpos a)) (tget k (lpos a) + a_avail k a) (tape a) (tape (fst (sstep a o))).
Proof.
  intros R OK A.
  assert (LT : a_usable k a = true -> tget k (lpos a) + a_avail k a <= length (tape a)).
  { intros U. pose proof (window_bounds m a k R U). rewrite (r_tape _ _ R). lia. }
  destruct o; simpl in A; inversion A; subst; clear A; cbn [sstep ok_op] in *;
    try (match goal with |- context[if ?g then _ else _] => destruct g eqn:G end; [|apply tf_refl]);
    try (apply tf_refl); cbn [tget] in *.
  - apply tf_advance.
  - unfold a_grant_one. destruct (1 <=? a_avail k a); apply tf_refl.
  - unfold a_grant. destruct (n <=? a_avail k a); apply tf_refl.
  - destruct (a_avail k a); apply tf_refl.
  - destruct r; [apply tf_refl|]. destruct (a_avail k a - a_avail k a mod S r); apply tf_refl.
  - apply Nat.ltb_lt in OK. apply tf_upd. lia.
  - apply Nat.ltb_lt in OK. apply tf_upd. lia.
  - apply Nat.ltb_lt in OK. apply tf_upd. lia.
  - unfold a_push. destruct (1 <=? a_avail P a) eqn:L; [apply Nat.leb_le in L|apply tf_refl]. simpl fst.
    eapply tf_trans; [|apply tf_advance]. apply tf_upd. lia.
  - unfold a_push. destruct (1 <=? a_avail P a) eqn:L; [apply Nat.leb_le in L|apply tf_refl]. simpl fst.
    eapply tf_trans; [|apply tf_advance]. apply tf_upd. lia.
  - apply andb_prop in G as [G _]. pose proof (LT (attached_usable _ _ G)).
    unfold a_push_slice. destruct (length vs <=? a_avail P a) eqn:L; [apply Nat.leb_le in L|apply tf_refl]. simpl fst.
    eapply tf_trans; [|apply tf_advance]. apply tf_write; lia.
  - apply andb_prop in G as [G _]. pose proof (LT (attached_usable _ _ G)).
    unfold a_push_slice. destruct (length vs <=? a_avail P a) eqn:L; [apply Nat.leb_le in L|apply tf_refl]. simpl fst.
    eapply tf_trans; [|apply tf_advance]. apply tf_write; lia.
  - pose proof (LT (attached_usable _ _ G)).
    unfold a_push_slice. destruct (length vs <=? a_avail P a) eqn:L; [apply Nat.leb_le in L|apply tf_refl].
    pose proof (clones_tape a vs) as CT. destruct (a_clones a vs) as [news a2] eqn:Ecl. simpl in CT. simpl fst.
    eapply tf_trans; [|apply tf_advance]. simpl. rewrite CT.
    assert (length news = length vs).
    { unfold a_clones in Ecl. destruct (sowned a); inversion Ecl; subst; auto. apply ids_length. }
    unfold a_avail, a_succ in *; simpl in *. apply tf_write; lia.
  - pose proof (LT (attached_usable _ _ G)).
    unfold a_push_slice. destruct (length vs <=? a_avail P a) eqn:L; [apply Nat.leb_le in L|apply tf_refl].
    pose proof (clones_tape a vs) as CT. destruct (a_clones a vs) as [news a2] eqn:Ecl. simpl in CT. simpl fst.
    eapply tf_trans; [|apply tf_advance]. simpl. rewrite CT.
    assert (length news = length vs).
    { unfold a_clones in Ecl. destruct (sowned a); inversion Ecl; subst; auto. apply ids_length. }
    unfold a_avail, a_succ in *; simpl in *. apply tf_write; lia.
  - unfold a_grant_one. destruct (1 <=? a_avail P a); apply tf_refl.
  - unfold a_pop. destruct (1 <=? a_avail C a) eqn:L; [apply Nat.leb_le in L|apply tf_refl]. simpl fst.
    eapply tf_trans; [|apply tf_advance]. apply tf_refl.
  - unfold a_pop. destruct (1 <=? a_avail C a) eqn:L; [apply Nat.leb_le in L|apply tf_refl]. simpl fst.
    eapply tf_trans; [|apply tf_advance]. apply tf_upd. lia.
  - unfold a_extract_item. destruct (1 <=? a_avail C a) eqn:L; [|apply tf_refl]. simpl fst. apply tf_advance.
  - unfold a_extract_item. destruct (1 <=? a_avail C a) eqn:L; [|apply tf_refl].
    pose proof (clones_tape a [a_cell (tget C (lpos a)) a]) as CT. destruct (a_clones a [a_cell (tget C (lpos a)) a]) as [news a2].
    simpl in CT. simpl fst. rewrite <- CT. apply tf_advance.
  - unfold a_extract_slice. destruct (n <=? a_avail C a) eqn:L; [|apply tf_refl]. simpl fst. apply tf_advance.
  - unfold a_extract_slice. destruct (n <=? a_avail C a) eqn:L; [|apply tf_refl].
    pose proof (clones_tape a (sub (tape a) (tget C (lpos a)) n)) as CT. destruct (a_clones a (sub (tape a) (tget C (lpos a)) n)) as [news a2].
    simpl in CT. simpl fst. rewrite <- CT. apply tf_advance.
  - (* Reset *) destruct k; try apply tf_refl.
    + destruct (a_attached W a); [|apply tf_refl]. simpl fst. apply (tf_publish _ _ W _ (a_set_lpos W _ a)).
    + destruct (a_attached C a); [|apply tf_refl]. simpl fst. apply (tf_publish _ _ C _ (a_set_lpos C _ a)).
  - (* Attach *) simpl fst. apply (tf_publish _ _ k).
  - simpl fst. apply (tf_publish _ _ k).
Qed.

(** single-item reads of the consumer: the item at the consumer's position, inside the released region *)
Theorem C01_read_item a (mv : bool) a' v evs : a_attached C a = true ->
  sstep a (if mv then PopMove else Pop) = (a', (OVal v, evs)) ->
  1 <= a_avail C a /\ v = nth (tC (lpos a)) (tape a) 0%N /\ tC (lpos a') = tC (lpos a) + 1.
Proof.
  intros G H. destruct mv; cbn [sstep] in H; rewrite G in H; unfold a_pop in H;
    destruct (1 <=? a_avail C a) eqn:L; try discriminate; apply Nat.leb_le in L;
    inversion H; subst; clear H; repeat split; auto;
    unfold a_advance; simpl; destruct (tC (sdet a)); reflexivity.
Qed.

(** slice reads: exactly the next [n] positions, in order, all released *)
Theorem C01_read_slice a n a' vs evs : a_attached C a = true -> sowned a = false ->
  sstep a (CopySlice n) = (a', (ODst vs, evs)) ->
  n <= a_avail C a /\ vs = sub (tape a) (tC (lpos a)) n /\ tC (lpos a') = tC (lpos a) + n.
Proof.
  intros G O H. cbn [sstep] in H. unfold a_plain in H. rewrite G, O in H. simpl in H. unfold a_extract_slice in H.
  destruct (n <=? a_avail C a) eqn:L; try discriminate. apply Nat.leb_le in L.
  inversion H; subst; clear H. repeat split; auto.
  unfold a_advance; simpl; destruct (tC (sdet a)); reflexivity.
Qed.

(** an accepted push stores the value at the producer's position and moves one position on:
    successive pushes fill consecutive positions *)
Theorem C01_push_position a v a' evs : a_attached P a = true ->
  sstep a (Push v) = (a', (OOk, evs)) -> tP (lpos a) < length (tape a) ->
  nth (tP (lpos a)) (tape a') 0%N = v /\ tP (lpos a') = tP (lpos a) + 1.
Proof.
  intros G H Hl. cbn [sstep] in H. rewrite G in H. unfold a_push in H.
  destruct (1 <=? a_avail P a) eqn:L; try discriminate. inversion H; subst; clear H.
  split.
  - destruct (tf_advance 0 0 P 1 (a_set_tape (upd (tP (lpos a)) v (tape a)) a)) as [_ F].
    simpl in F. rewrite F by (try rewrite upd_length; auto; lia). apply nth_upd_eq; auto.
  - unfold a_advance; simpl; destruct (tP (sdet a)); reflexivity.
Qed.

(** the usual loop body [let n = it.available(); unsafe { it.advance(n) }] (history lines [avail K], [adv K =n]): whatever number the
    Model's [available()] answers, advancing by it respects rule K1, and the two steps together refine the Spec - for every stage,
    attached or detached, in every reachable state *)
Theorem avail_then_advance m a k n : Rel m a ->
  fst (snd (step m (Avail k))) = ONum n ->
  n = a_avail k a /\
  ok_op (fst (sstep a (Avail k))) (Advance k n) = true /\
  refines (step (fst (step m (Avail k))) (Advance k n)) (sstep (fst (sstep a (Avail k))) (Advance k n)).
Proof.
  intros R H. pose proof (step_refines m a (Avail k) R eq_refl) as [E R1].
  rewrite E in H.
  assert (S : sstep a (Avail k) = a_ret a (ONum (a_avail k a)) \/ sstep a (Avail k) = a_bad a)
    by (cbn [sstep]; destruct (a_usable k a); auto).
  destruct S as [S|S]; rewrite S in H, R1 |- *; cbn [a_ret a_bad fst snd] in H, R1 |- *; [| discriminate H].
  injection H as H. subst n. split; [reflexivity|].
  assert (OK : ok_op a (Advance k (a_avail k a)) = true) by (cbn [ok_op]; apply Nat.leb_refl).
  split; [exact OK|]. apply (step_refines _ a _ R1 OK).
Qed.
