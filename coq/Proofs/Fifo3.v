(** * End-to-end FIFO for the sequential Spec: three-stage pipeline (producer -> worker -> consumer),
      plain items, attached iterators.

    Histories are made of pushes, the worker's in-place accesses through its granted window
    ([Edit W] = [*r += d], [Poke W] / [PokeInit W] = [*r = v]), the worker's release [Advance W n],
    the consumer's advancing reads, and peeks / availability queries of every stage.  The history must
    respect the contract ([snd (srun a h) = true]: the worker touches only offsets below its
    availability and releases no more than its availability).

    For such a history, with [a' = sfinal a h] the final state:

    - what the consumer obtained, in order, is exactly the final tape at the consecutive positions
      [[cpos a, cpos a')];
    - the final tape at every position [p] below the producer's is the value that was there at the start
      (or, for a position pushed during [h], the pushed value: the [k]-th accepted value sits at position
      [ppos a + k]) with exactly the worker's edits recorded for [p] applied, in the order they were issued;
    - every edit is issued on a position that, at that moment, the producer has published, the worker has
      not released, and (hence) the consumer has not read; every read of the consumer covers released
      positions only; the contents of a released position never change again;
    - consumer <= worker <= producer on positions and at most [len - 1] positions are in flight.

    So the consumer sees each pushed value exactly once, in order, with all of the worker's edits and
    nothing else: nothing lost, duplicated, reordered, invented, or seen half-processed. *)
From Coq Require Import List Arith NArith Bool Lia.
Import ListNotations.
Require Import MRB.Base.Ring MRB.Base.ListAux MRB.Model.Types MRB.Model.Seq MRB.Spec.Pipe.
Require Import MRB.Proofs.Rel MRB.Proofs.TapeFacts MRB.Proofs.Refine MRB.Proofs.Fifo.

(** ** The operations of the theorem *)
Definition fifo3_op (o : op) : bool :=
  match o with
  | Push _ | PushSlice _ | Avail P => true                              (* producer *)
  | Edit W _ _ | Poke W _ _ | PokeInit W _ _ => true                    (* worker, in-place accesses *)
  | Advance W _ => true                                                 (* worker, release *)
  | Avail W | GetOne W | GetExact W _ | GetAvail W => true              (* worker, grants *)
  | Pop | CopyItem | CopySlice _ | Avail C => true                      (* consumer, advancing reads *)
  | GetExact C _ | GetOne C => true                                     (* consumer, peeks *)
  | _ => false
  end.

(** every operation of the two-stage theorem is one of these *)
Lemma fifo_op_fifo3 o : fifo_op o = true -> fifo3_op o = true.
Proof. destruct o; try discriminate; try (destruct k; try discriminate); reflexivity. Qed.

(** ** Ghost functions *)

(** one in-place access of the worker: [*r += d] or [*r = v] *)
Inductive wedit := EAdd (d : N) | ESet (v : N).

Definition apply_edit (e : wedit) (x : N) : N :=
  match e with EAdd d => (x + d)%N | ESet v => v end.

(** a list of accesses, oldest first *)
Definition apply_edits (es : list wedit) (x : N) : N := fold_left (fun y e => apply_edit e y) es x.

(** the accesses recorded for position [p], in the order they were issued *)
Fixpoint edits_at (p : nat) (eds : list (nat * wedit)) : list wedit :=
  match eds with
  | [] => []
  | (q, e) :: r => if q =? p then e :: edits_at p r else edits_at p r
  end.

(** the access one operation performs, with its absolute position *)
Definition edits1 (a : pipe) (o : op) : list (nat * wedit) :=
  match o with
  | Edit W off d =>
      match fst (snd (sstep a o)) with OUnit => [(tW (lpos a) + off, EAdd d)] | _ => [] end
  | Poke W off v | PokeInit W off v =>
      match fst (snd (sstep a o)) with OUnit => [(tW (lpos a) + off, ESet v)] | _ => [] end
  | _ => []
  end.

Fixpoint edits (a : pipe) (h : list op) : list (nat * wedit) :=
  match h with
  | [] => []
  | o :: r => edits1 a o ++ edits (fst (sstep a o)) r
  end.

(** the value position [p] starts with: what the tape holds if the producer is already past [p],
    otherwise the accepted value that lands on [p] (the [k]-th one lands on [tP (lpos a) + k]) *)
Definition src1 (a : pipe) (acc : list N) (p : nat) : N :=
  if p <? tP (lpos a) then nth p (tape a) 0%N else nth (p - tP (lpos a)) acc 0%N.

Definition src (a : pipe) (h : list op) (p : nat) : N := src1 a (accepted a h) p.

(** what the consumer must see at position [p] *)
Definition expected (a : pipe) (h : list op) (p : nat) : N :=
  apply_edits (edits_at p (edits a h)) (src a h p).

Lemma apply_edits_app es1 es2 x : apply_edits (es1 ++ es2) x = apply_edits es2 (apply_edits es1 x).
Proof. unfold apply_edits. apply fold_left_app. Qed.

Lemma edits_at_app p e1 e2 : edits_at p (e1 ++ e2) = edits_at p e1 ++ edits_at p e2.
Proof.
  induction e1 as [|[q e] r IH]; simpl; auto.
  destruct (q =? p); simpl; rewrite IH; reflexivity.
Qed.

Lemma edits_at_none p eds : (forall q e, In (q, e) eds -> q <> p) -> edits_at p eds = [].
Proof.
  induction eds as [|[q e] r IH]; intros H; simpl; auto.
  destruct (q =? p) eqn:E.
  - apply Nat.eqb_eq in E. exfalso. apply (H q e); simpl; auto.
  - apply IH. intros q' e' Hin. apply (H q' e'). simpl; auto.
Qed.

Lemma srun_ok_cons a o r : snd (srun a (o :: r)) = ok_op a o && snd (srun (fst (sstep a o)) r).
Proof.
  simpl. destruct (sstep a o) as [a1 x]. simpl. destruct (srun a1 r) as [[a2 xs] okr]. reflexivity.
Qed.

Lemma srun_ok_app h1 : forall a h2,
  snd (srun a (h1 ++ h2)) = snd (srun a h1) && snd (srun (sfinal a h1) h2).
Proof.
  induction h1 as [|o r IH]; intros a h2.
  - reflexivity.
  - change ((o :: r) ++ h2) with (o :: (r ++ h2)). rewrite !srun_ok_cons, IH, andb_assoc. reflexivity.
Qed.

Lemma sfinal_app h1 : forall a h2, sfinal a (h1 ++ h2) = sfinal (sfinal a h1) h2.
Proof. induction h1 as [|o r IH]; intros a h2; simpl; auto. Qed.

(** ** The invariant: a reachable three-stage plain state with nothing detached *)
Record Inv3 (a : pipe) : Prop := mkInv3 {
  j_rel : exists m, Rel m a;
  j_W : shasW a = true;
  j_plain : sowned a = false;
  j_detP : tP (sdet a) = false;
  j_detW : tW (sdet a) = false;
  j_detC : tC (sdet a) = false
}.

(** the facts about positions the proofs need *)
Lemma inv3_order a : Inv3 a ->
  tC (lpos a) = tC (ppos a) /\ tW (lpos a) = tW (ppos a) /\ tP (lpos a) = tP (ppos a) /\
  tC (lpos a) <= tW (lpos a) /\ tW (lpos a) <= tP (lpos a) /\ tP (lpos a) <= tC (lpos a) + slen a - 1 /\
  0 < slen a /\ length (tape a) = tC (lpos a) + slen a /\
  a_avail C a = tW (lpos a) - tC (lpos a) /\ a_avail W a = tP (lpos a) - tW (lpos a) /\
  a_avail P a = tC (lpos a) + slen a - 1 - tP (lpos a).
Proof.
  intros I. destruct (j_rel a I) as [m R].
  pose proof (r_oC _ _ R) as HC. pose proof (r_oP _ _ R) as HP. pose proof (r_oW _ _ R (j_W a I)) as HW.
  pose proof (r_pos _ _ R) as Hl. pose proof (r_tape _ _ R) as Ht.
  pose proof (r_att _ _ R C (j_detC a I)) as AC. pose proof (r_att _ _ R P (j_detP a I)) as AP.
  pose proof (r_att _ _ R W (j_detW a I)) as AW.
  unfold a_avail, a_succ in *. rewrite (j_W a I) in *. simpl in *.
  repeat match goal with |- _ /\ _ => split end; lia.
Qed.

(** ** What one step does *)

(** [StepSpec a a1 acc eds cons]: going from [a] to [a1] accepts [acc], performs the accesses [eds]
    and hands [cons] to the consumer *)
Record StepSpec (a a1 : pipe) (acc : list N) (eds : list (nat * wedit)) (cons : list N) : Prop := mkSS {
  ss_P : tP (lpos a1) = tP (lpos a) + length acc;
  ss_C : tC (lpos a1) = tC (lpos a) + length cons;
  ss_W : tW (lpos a) <= tW (lpos a1);
  (* the consumer reads released positions only, and what it gets is what they hold *)
  ss_rel : tC (lpos a1) <= tW (lpos a);
  ss_cons : cons = sub (tape a) (tC (lpos a)) (length cons);
  (* the worker touches only positions the producer has published and the worker has not released *)
  ss_eds : forall q e, In (q, e) eds -> tW (lpos a) <= q < tP (lpos a);
  ss_tape : forall p, p < tP (lpos a1) ->
              nth p (tape a1) 0%N = apply_edits (edits_at p eds) (src1 a acc p)
}.

Lemma spec_noop a : Inv3 a -> StepSpec a a [] [] [].
Proof.
  intros I. destruct (inv3_order a I) as (E1 & E2 & E3 & O1 & O2 & O3 & Hl & Ht & AC & AW & AP).
  constructor; cbn [length]; try lia.
  - reflexivity.
  - intros q e [].
  - intros p Hp. cbn [edits_at]. unfold apply_edits; cbn [fold_left]. unfold src1.
    bt (p <? tP (lpos a)). reflexivity.
Qed.

(** storing [vs] at the producer's position and advancing *)
Lemma spec_produce a vs : Inv3 a -> length vs <= a_avail P a ->
  StepSpec a (a_advance P (length vs) (a_set_tape (write (tape a) (tP (lpos a)) vs) a)) vs [] [].
Proof.
  intros I L. destruct (inv3_order a I) as (E1 & E2 & E3 & O1 & O2 & O3 & Hl & Ht & AC & AW & AP).
  unfold a_advance. cbn [tget a_set_tape sdet]. rewrite (j_detP a I).
  constructor; cbn [a_publish a_set_lpos a_set_tape tape lpos tget tset tP tW tC length]; try lia.
  - reflexivity.
  - intros q e [].
  - intros p Hp. cbn [edits_at]. unfold apply_edits; cbn [fold_left].
    rewrite (nth_write 0%N) by lia. unfold src1.
    destruct (p <? tP (lpos a)) eqn:E; [apply Nat.ltb_lt in E | apply Nat.ltb_ge in E].
    + bf (tP (lpos a) <=? p). reflexivity.
    + bt (tP (lpos a) <=? p). bt (p <? tP (lpos a) + length vs). reflexivity.
Qed.

(** one in-place access of the worker at offset [off] of its window *)
Lemma spec_edit a off e : Inv3 a -> off < a_avail W a ->
  StepSpec a
    (a_set_tape (upd (tW (lpos a) + off) (apply_edit e (nth (tW (lpos a) + off) (tape a) 0%N)) (tape a)) a)
    [] [(tW (lpos a) + off, e)] [].
Proof.
  intros I L. destruct (inv3_order a I) as (E1 & E2 & E3 & O1 & O2 & O3 & Hl & Ht & AC & AW & AP).
  constructor; cbn [a_set_tape tape lpos length]; try lia.
  - reflexivity.
  - intros q e' [H|[]]. inversion H; subst. lia.
  - intros p Hp. rewrite (nth_upd 0%N) by lia. cbn [edits_at]. unfold src1. bt (p <? tP (lpos a)).
    destruct (tW (lpos a) + off =? p) eqn:E.
    + apply Nat.eqb_eq in E. subst p. reflexivity.
    + reflexivity.
Qed.

(** the worker's release *)
Lemma spec_advW a n : Inv3 a -> n <= a_avail W a -> StepSpec a (a_advance W n a) [] [] [].
Proof.
  intros I L. destruct (inv3_order a I) as (E1 & E2 & E3 & O1 & O2 & O3 & Hl & Ht & AC & AW & AP).
  unfold a_advance. cbn [tget]. rewrite (j_detW a I).
  constructor; cbn [a_publish a_set_lpos tape lpos tget tset tP tW tC length]; try lia.
  - reflexivity.
  - intros q e [].
  - intros p Hp. cbn [edits_at]. unfold apply_edits; cbn [fold_left]. unfold src1.
    bt (p <? tP (lpos a)). reflexivity.
Qed.

(** advancing the consumer by [n] hands over the next [n] positions *)
Lemma spec_consume a n : Inv3 a -> n <= a_avail C a ->
  StepSpec a (a_advance C n a) [] [] (sub (tape a) (tC (lpos a)) n).
Proof.
  intros I L. destruct (inv3_order a I) as (E1 & E2 & E3 & O1 & O2 & O3 & Hl & Ht & AC & AW & AP).
  assert (SL : length (sub (tape a) (tC (lpos a)) n) = n) by (apply sub_length; lia).
  unfold a_advance. cbn [tget]. rewrite (j_detC a I).
  constructor; rewrite ?SL; cbn [a_publish a_set_lpos tape lpos tget tset tP tW tC length slen]; try lia.
  - reflexivity.
  - intros q e [].
  - intros p Hp. cbn [edits_at]. unfold apply_edits; cbn [fold_left]. unfold src1.
    bt (p <? tP (lpos a)). apply extend_old. lia.
Qed.

(** ** The invariant is preserved *)
Lemma step_fields3 a o : fifo3_op o = true ->
  shasW (fst (sstep a o)) = shasW a /\ sowned (fst (sstep a o)) = sowned a /\
  sdet (fst (sstep a o)) = sdet a.
Proof.
  intros F.
  destruct o; try discriminate; try (destruct k; try discriminate); cbn [sstep];
    match goal with |- context[if ?g then _ else _] => destruct g end; try (simpl; auto; fail).
  - apply (adv_fields W n a).
  - unfold a_grant_one. destruct (1 <=? a_avail W a); simpl; auto.
  - unfold a_grant_one. destruct (1 <=? a_avail C a); simpl; auto.
  - unfold a_grant. destruct (n <=? a_avail W a); simpl; auto.
  - unfold a_grant. destruct (n <=? a_avail C a); simpl; auto.
  - destruct (a_avail W a); simpl; auto.
  - unfold a_push. destruct (1 <=? a_avail P a); simpl; auto.
    apply (adv_fields P 1 (a_set_tape (upd (tP (lpos a)) v (tape a)) a)).
  - unfold a_push_slice. destruct (length vs <=? a_avail P a); simpl; auto.
    apply (adv_fields P (length vs) (a_set_tape (write (tape a) (tP (lpos a)) vs) a)).
  - unfold a_pop. destruct (1 <=? a_avail C a); simpl; auto. apply adv_fields.
  - unfold a_extract_item. destruct (1 <=? a_avail C a); simpl; auto. apply adv_fields.
  - unfold a_extract_slice. destruct (n <=? a_avail C a); simpl; auto. apply adv_fields.
Qed.

Lemma inv3_step a o : Inv3 a -> fifo3_op o = true -> ok_op a o = true -> Inv3 (fst (sstep a o)).
Proof.
  intros I F OK. destruct (j_rel a I) as [m R].
  destruct (step_fields3 a o F) as (E1 & E2 & E3).
  constructor.
  - exists (fst (step m o)). apply (step_refines m a o R OK).
  - rewrite E1. apply (j_W a I).
  - rewrite E2. apply (j_plain a I).
  - rewrite E3. apply (j_detP a I).
  - rewrite E3. apply (j_detW a I).
  - rewrite E3. apply (j_detC a I).
Qed.

(** ** One step *)
Lemma step3_spec a o : Inv3 a -> fifo3_op o = true -> ok_op a o = true ->
  StepSpec a (fst (sstep a o)) (accepted1 a o) (edits1 a o) (consumed1 a o).
Proof.
  intros I F OK.
  destruct o; try discriminate; try (destruct k; try discriminate);
    unfold accepted1, consumed1, edits1; cbn [sstep ok_op] in *;
    match goal with |- context[if ?g then _ else _] => destruct g eqn:G end;
    try (simpl; apply spec_noop; exact I).
  - (* Advance W n *) apply Nat.leb_le in OK. exact (spec_advW a n I OK).
  - unfold a_grant_one. destruct (1 <=? a_avail W a); simpl; apply spec_noop; exact I.
  - unfold a_grant_one. destruct (1 <=? a_avail C a); simpl; apply spec_noop; exact I.
  - unfold a_grant. destruct (n <=? a_avail W a); simpl; apply spec_noop; exact I.
  - unfold a_grant. destruct (n <=? a_avail C a); simpl; apply spec_noop; exact I.
  - destruct (a_avail W a); simpl; apply spec_noop; exact I.
  - (* Poke W off v *) apply Nat.ltb_lt in OK. exact (spec_edit a off (ESet v) I OK).
  - (* PokeInit W off v *) apply Nat.ltb_lt in OK. exact (spec_edit a off (ESet v) I OK).
  - (* Edit W off d *) apply Nat.ltb_lt in OK. exact (spec_edit a off (EAdd d) I OK).
  - (* Push v *)
    unfold a_push. destruct (1 <=? a_avail P a) eqn:L; [apply Nat.leb_le in L|];
      cbn [a_rete a_ret fst snd]; [|apply spec_noop; exact I].
    exact (spec_produce a [v] I L).
  - (* PushSlice vs *)
    unfold a_push_slice. destruct (length vs <=? a_avail P a) eqn:L; [apply Nat.leb_le in L|];
      cbn [a_rete a_ret fst snd]; [|apply spec_noop; exact I].
    exact (spec_produce a vs I L).
  - (* Pop *)
    unfold a_pop. destruct (1 <=? a_avail C a) eqn:L; [apply Nat.leb_le in L|];
      cbn [a_rete a_ret fst snd]; [|apply spec_noop; exact I].
    destruct (inv3_order a I) as (E1 & E2 & E3 & O1 & O2 & O3 & Hl & Ht & AC & AW & AP).
    unfold a_cell. cbn [tget]. rewrite <- sub_one by lia. exact (spec_consume a 1 I L).
  - (* CopyItem *)
    unfold a_extract_item. destruct (1 <=? a_avail C a) eqn:L; [apply Nat.leb_le in L|];
      cbn [a_rete a_ret fst snd]; [|apply spec_noop; exact I].
    destruct (inv3_order a I) as (E1 & E2 & E3 & O1 & O2 & O3 & Hl & Ht & AC & AW & AP).
    unfold a_cell. cbn [tget]. rewrite <- sub_one by lia. exact (spec_consume a 1 I L).
  - (* CopySlice n *)
    unfold a_extract_slice. destruct (n <=? a_avail C a) eqn:L; [apply Nat.leb_le in L|];
      cbn [a_rete a_ret fst snd]; [|apply spec_noop; exact I].
    exact (spec_consume a n I L).
Qed.

(** one step leaves every released position alone *)
Lemma step_stable a a1 acc eds cons : StepSpec a a1 acc eds cons -> tW (lpos a) <= tP (lpos a) ->
  forall p, p < tW (lpos a) -> nth p (tape a1) 0%N = nth p (tape a) 0%N.
Proof.
  intros S O p Hp. rewrite (ss_tape _ _ _ _ _ S) by (rewrite (ss_P _ _ _ _ _ S); lia).
  rewrite edits_at_none.
  - unfold apply_edits; cbn [fold_left]. unfold src1. bt (p <? tP (lpos a)). reflexivity.
  - intros q e Hin. pose proof (ss_eds _ _ _ _ _ S q e Hin). lia.
Qed.

(** ** Whole histories *)

(** [RunSpec a a' acc eds cons]: going from [a] to [a'] accepted [acc], performed the accesses [eds]
    and handed [cons] to the consumer *)
Record RunSpec (a a' : pipe) (acc : list N) (eds : list (nat * wedit)) (cons : list N) : Prop := mkRS {
  rs_inv : Inv3 a';
  rs_P : tP (lpos a') = tP (lpos a) + length acc;
  rs_C : tC (lpos a') = tC (lpos a) + length cons;
  rs_W : tW (lpos a) <= tW (lpos a');
  (* a released position keeps its contents for ever *)
  rs_stable : forall p, p < tW (lpos a) -> nth p (tape a') 0%N = nth p (tape a) 0%N;
  (* the consumer got the final contents of the positions it went over *)
  rs_cons : cons = sub (tape a') (tC (lpos a)) (length cons);
  rs_eds : forall q e, In (q, e) eds -> tW (lpos a) <= q < tP (lpos a');
  (* final contents = initial / pushed value with the accesses recorded for the position *)
  rs_tape : forall p, p < tP (lpos a') ->
              nth p (tape a') 0%N = apply_edits (edits_at p eds) (src1 a acc p)
}.

Lemma run3 h : forall a, Inv3 a -> forallb fifo3_op h = true -> snd (srun a h) = true ->
  RunSpec a (sfinal a h) (accepted a h) (edits a h) (consumed a h).
Proof.
  induction h as [|o r IH]; intros a I F OK.
  - destruct (inv3_order a I) as (E1 & E2 & E3 & O1 & O2 & O3 & Hl & Ht & AC & AW & AP).
    cbn [sfinal accepted edits consumed]. constructor; cbn [length]; auto; try lia.
    + intros q e [].
    + intros p Hp. cbn [edits_at]. unfold apply_edits; cbn [fold_left]. unfold src1.
      bt (p <? tP (lpos a)). reflexivity.
  - simpl in F. apply andb_prop in F as [Fo Fr].
    rewrite srun_ok_cons in OK. apply andb_prop in OK as [Oo Or].
    pose proof (step3_spec a o I Fo Oo) as S. pose proof (inv3_step a o I Fo Oo) as I1.
    pose proof (IH _ I1 Fr Or) as Rn.
    cbn [sfinal accepted consumed edits].
    set (a1 := fst (sstep a o)) in *. set (a' := sfinal a1 r) in *.
    destruct (inv3_order a I) as (E1 & E2 & E3 & O1 & O2 & O3 & Hl & Ht & AC & AW & AP).
    destruct (inv3_order a1 I1) as (F1 & F2 & F3 & P1 & P2 & P3 & Hl1 & Ht1 & AC1 & AW1 & AP1).
    destruct (inv3_order a' (rs_inv _ _ _ _ _ Rn)) as (G1 & G2 & G3 & Q1 & Q2 & Q3 & Hl' & Ht' & AC' & AW' & AP').
    clear E1 E2 E3 F1 F2 F3 G1 G2 G3 AC AW AP AC1 AW1 AP1 AC' AW' AP'.
    pose proof (step_stable _ _ _ _ _ S O2) as ST1.
    destruct S as [sP sC sW sR sCo sE sT]. destruct Rn as [rI rP rC rW rSt rCo rE rT].
    assert (ST : forall p, p < tW (lpos a) -> nth p (tape a') 0%N = nth p (tape a) 0%N).
    { intros p Hp. rewrite rSt by lia. apply ST1. exact Hp. }
    constructor.
    + exact rI.
    + rewrite app_length. lia.
    + rewrite app_length. lia.
    + lia.
    + exact ST.
    + rewrite app_length, sub_split. f_equal.
      * etransitivity; [exact sCo|]. symmetry. apply sub_ext; try lia.
        intros q Hq. apply ST. lia.
      * rewrite <- sC. exact rCo.
    + intros q e Hin. apply in_app_or in Hin as [Hin|Hin].
      * pose proof (sE q e Hin). lia.
      * pose proof (rE q e Hin). lia.
    + intros p Hp. rewrite edits_at_app, apply_edits_app. rewrite rT by exact Hp. f_equal.
      destruct (p <? tP (lpos a1)) eqn:E; [apply Nat.ltb_lt in E | apply Nat.ltb_ge in E].
      * unfold src1 at 1. bt (p <? tP (lpos a1)). rewrite sT by exact E. f_equal.
        unfold src1. destruct (p <? tP (lpos a)) eqn:E4; [reflexivity | apply Nat.ltb_ge in E4].
        rewrite app_nth1 by lia. reflexivity.
      * rewrite edits_at_none by (intros q e Hin; pose proof (sE q e Hin); lia).
        unfold apply_edits; cbn [fold_left]. unfold src1.
        bf (p <? tP (lpos a1)). bf (p <? tP (lpos a)). rewrite app_nth2 by lia. f_equal. clear - sP E. lia.
Qed.

(** the ring never changes size *)
Lemma adv_slen k n a : slen (a_advance k n a) = slen a.
Proof. unfold a_advance. destruct (tget k (sdet a)); destruct k; reflexivity. Qed.

Lemma step_slen3 a o : fifo3_op o = true -> slen (fst (sstep a o)) = slen a.
Proof.
  intros F.
  destruct o; try discriminate; try (destruct k; try discriminate); cbn [sstep];
    match goal with |- context[if ?g then _ else _] => destruct g end; try reflexivity.
  - apply (adv_slen W n a).
  - unfold a_grant_one. destruct (1 <=? a_avail W a); reflexivity.
  - unfold a_grant_one. destruct (1 <=? a_avail C a); reflexivity.
  - unfold a_grant. destruct (n <=? a_avail W a); reflexivity.
  - unfold a_grant. destruct (n <=? a_avail C a); reflexivity.
  - destruct (a_avail W a); reflexivity.
  - unfold a_push. destruct (1 <=? a_avail P a); try reflexivity.
    apply (adv_slen P 1 (a_set_tape (upd (tP (lpos a)) v (tape a)) a)).
  - unfold a_push_slice. destruct (length vs <=? a_avail P a); try reflexivity.
    apply (adv_slen P (length vs) (a_set_tape (write (tape a) (tP (lpos a)) vs) a)).
  - unfold a_pop. destruct (1 <=? a_avail C a); try reflexivity. apply (adv_slen C 1 a).
  - unfold a_extract_item. destruct (1 <=? a_avail C a); try reflexivity. apply (adv_slen C 1 a).
  - unfold a_extract_slice. destruct (n <=? a_avail C a); try reflexivity. apply (adv_slen C n a).
Qed.

Lemma run_slen3 h : forall a, forallb fifo3_op h = true -> slen (sfinal a h) = slen a.
Proof.
  induction h as [|o r IH]; intros a F; simpl; auto.
  simpl in F. apply andb_prop in F as [Fo Fr]. rewrite (IH _ Fr). apply step_slen3. exact Fo.
Qed.

Lemma sub_map_seq (l : list N) n : forall i, i + n <= length l ->
  sub l i n = map (fun p => nth p l 0%N) (seq i n).
Proof.
  induction n as [|n IH]; intros i H.
  - reflexivity.
  - change (S n) with (1 + n) at 1. rewrite sub_split, sub_one by lia. cbn [seq map app]. f_equal.
    replace (i + 1) with (S i) by lia. apply IH. lia.
Qed.

(** ** The end-to-end theorem *)
Theorem FIFO3 h a : Inv3 a -> forallb fifo3_op h = true -> snd (srun a h) = true ->
  let a' := sfinal a h in
  (* positions: one per accepted / consumed value *)
  tP (ppos a') = tP (ppos a) + length (accepted a h) /\
  tC (ppos a') = tC (ppos a) + length (consumed a h) /\
  (* (i) the consumer obtained, in order, the final contents of the positions it went over *)
  consumed a h = sub (tape a') (tC (ppos a)) (tC (ppos a') - tC (ppos a)) /\
  (* (ii) final contents of every position below the producer: the initial / pushed value with
     exactly the worker's accesses recorded for that position, in order *)
  (forall p, p < tP (ppos a') -> nth p (tape a') 0%N = expected a h p) /\
  consumed a h = map (expected a h) (seq (tC (ppos a)) (length (consumed a h))) /\
  (* every access went to a position between the worker's initial and the producer's final position *)
  (forall q e, In (q, e) (edits a h) -> tW (ppos a) <= q < tP (ppos a')) /\
  (* (iii) stage order and capacity *)
  tC (ppos a') <= tW (ppos a') /\ tW (ppos a') <= tP (ppos a') /\
  tP (ppos a') - tC (ppos a') <= slen a - 1.
Proof.
  intros I F OK a'. pose proof (run3 h a I F OK) as Rn. fold a' in Rn.
  pose proof (run_slen3 h a F) as SL. fold a' in SL.
  destruct (inv3_order a I) as (E1 & E2 & E3 & O1 & O2 & O3 & Hl & Ht & AC & AW & AP).
  destruct (inv3_order a' (rs_inv _ _ _ _ _ Rn)) as (G1 & G2 & G3 & Q1 & Q2 & Q3 & Hl' & Ht' & AC' & AW' & AP').
  destruct Rn as [rI rP rC rW rSt rCo rE rT].
  clear AC AW AP AC' AW' AP'.
  rewrite <- E1, <- E2, <- E3, <- G1, <- G2, <- G3.
  assert (X : forall p, p < tP (lpos a') -> nth p (tape a') 0%N = expected a h p) by exact rT.
  repeat match goal with |- _ /\ _ => split end; auto; try lia.
  - replace (tC (lpos a') - tC (lpos a)) with (length (consumed a h)) by lia. exact rCo.
  - etransitivity; [exact rCo|]. rewrite sub_map_seq by lia. apply map_ext_in.
    intros p Hp. apply in_seq in Hp. apply X. lia.
Qed.

(** ** Nothing is seen half-processed: the discipline at every step of the history *)
Theorem FIFO3_discipline h1 o h2 a :
  Inv3 a -> forallb fifo3_op (h1 ++ o :: h2) = true -> snd (srun a (h1 ++ o :: h2)) = true ->
  let a1 := sfinal a h1 in          (* the state in which [o] is issued *)
  let a' := sfinal a (h1 ++ o :: h2) in
  (* an access of the worker goes to a position that the producer has published, the worker has not
     released and the consumer has not reached *)
  (forall q e, In (q, e) (edits1 a1 o) ->
     tC (ppos a1) <= tW (ppos a1) /\ tW (ppos a1) <= q /\ q < tP (ppos a1)) /\
  (* a read of the consumer returns the contents of the next positions, all released by the worker *)
  consumed1 a1 o = sub (tape a1) (tC (ppos a1)) (length (consumed1 a1 o)) /\
  tC (ppos a1) + length (consumed1 a1 o) <= tW (ppos a1) /\
  (* an accepted push lands on the producer's position, beyond everything the worker may touch *)
  (forall j, j < length (accepted1 a1 o) ->
     nth (tP (ppos a1) + j) (tape (fst (sstep a1 o))) 0%N = nth j (accepted1 a1 o) 0%N) /\
  (* what has been released never changes again, and the worker never goes back *)
  (forall p, p < tW (ppos a1) -> nth p (tape a') 0%N = nth p (tape a1) 0%N) /\
  tW (ppos a1) <= tW (ppos a').
Proof.
  intros I F OK a1 a'.
  rewrite forallb_app in F. apply andb_prop in F as [F1 F2].
  rewrite srun_ok_app in OK. apply andb_prop in OK as [OK1 OK2]. fold a1 in OK2.
  pose proof (run3 h1 a I F1 OK1) as R1. fold a1 in R1.
  pose proof (rs_inv _ _ _ _ _ R1) as I1.
  pose proof (run3 (o :: h2) a1 I1 F2 OK2) as R2.
  assert (Ea : sfinal a1 (o :: h2) = a') by (unfold a', a1; rewrite sfinal_app; reflexivity).
  rewrite Ea in R2.
  simpl in F2. apply andb_prop in F2 as [Fo _].
  rewrite srun_ok_cons in OK2. apply andb_prop in OK2 as [Oo _].
  pose proof (step3_spec a1 o I1 Fo Oo) as S.
  pose proof (inv3_step a1 o I1 Fo Oo) as I2.
  destruct (inv3_order a1 I1) as (E1 & E2 & E3 & O1 & O2 & O3 & Hl & Ht & AC & AW & AP).
  destruct (inv3_order a' (rs_inv _ _ _ _ _ R2)) as (G1 & G2 & G3 & _).
  clear AC AW AP.
  rewrite <- E1, <- E2, <- E3, <- G2.
  repeat match goal with |- _ /\ _ => split end.
  - intros q e Hin. pose proof (ss_eds _ _ _ _ _ S q e Hin). lia.
  - exact (ss_cons _ _ _ _ _ S).
  - pose proof (ss_C _ _ _ _ _ S). pose proof (ss_rel _ _ _ _ _ S). lia.
  - intros j Hj. rewrite (ss_tape _ _ _ _ _ S) by (rewrite (ss_P _ _ _ _ _ S); lia).
    rewrite edits_at_none by (intros q e Hin; pose proof (ss_eds _ _ _ _ _ S q e Hin); lia).
    unfold apply_edits; cbn [fold_left]. unfold src1. bf (tP (lpos a1) + j <? tP (lpos a1)).
    f_equal. lia.
  - exact (rs_stable _ _ _ _ _ R2).
  - exact (rs_W _ _ _ _ _ R2).
Qed.

(** ** The same on the outputs of the executable Model *)

(** what the results of a run say the consumer obtained *)
Definition consumed_out (o : op) (x : out * list lev) : list N :=
  match o with
  | Pop => match fst x with OVal v => [v] | _ => [] end
  | CopyItem => match fst x with ODst l => l | _ => [] end
  | CopySlice _ => match fst x with ODst l => l | _ => [] end
  | _ => []
  end.

Fixpoint consumed_outs (h : list op) (xs : list (out * list lev)) : list N :=
  match h, xs with
  | o :: r, x :: xr => consumed_out o x ++ consumed_outs r xr
  | _, _ => []
  end.

Lemma consumed_outs_spec h : forall a, consumed a h = consumed_outs h (snd (fst (srun a h))).
Proof.
  induction h as [|o r IH]; intros a.
  - reflexivity.
  - cbn [consumed srun]. unfold consumed1. specialize (IH (fst (sstep a o))).
    destruct (sstep a o) as [a1 x]. cbn [fst snd] in *.
    destruct (srun a1 r) as [[a2 xs] okr]. cbn [fst snd consumed_outs] in *.
    rewrite IH. destruct o; reflexivity.
Qed.

(** any state related to a Model state, three stages, plain items, nothing detached; the history
    respects the contract: the Model returns the Spec's results, and the theorem holds for them *)
Theorem FIFO3_rel m a h :
  Rel m a -> shasW a = true -> sowned a = false ->
  tP (sdet a) = false -> tW (sdet a) = false -> tC (sdet a) = false ->
  forallb fifo3_op h = true -> snd (srun a h) = true ->
  let a' := fst (fst (srun a h)) in
  snd (run m h) = snd (fst (srun a h)) /\ Rel (fst (run m h)) a' /\
  consumed_outs h (snd (run m h)) = consumed a h /\
  tP (ppos a') = tP (ppos a) + length (accepted a h) /\
  tC (ppos a') = tC (ppos a) + length (consumed a h) /\
  consumed a h = sub (tape a') (tC (ppos a)) (tC (ppos a') - tC (ppos a)) /\
  (forall p, p < tP (ppos a') -> nth p (tape a') 0%N = expected a h p) /\
  consumed a h = map (expected a h) (seq (tC (ppos a)) (length (consumed a h))) /\
  (forall q e, In (q, e) (edits a h) -> tW (ppos a) <= q < tP (ppos a')) /\
  tC (ppos a') <= tW (ppos a') /\ tW (ppos a') <= tP (ppos a') /\
  tP (ppos a') - tC (ppos a') <= slen a - 1.
Proof.
  intros R HW HO DP DW DC F OK a'.
  assert (I : Inv3 a) by (constructor; eauto).
  pose proof (FIFO3 h a I F OK) as T. cbv zeta in T. rewrite sfinal_srun in T. fold a' in T.
  pose proof (run_refines h m a R) as RR. pose proof (consumed_outs_spec h a) as CO.
  unfold a'. destruct (srun a h) as [[a2 ys] ok]. cbn [fst snd] in *.
  destruct (run m h) as [m' xs]. cbn [fst snd] in *. destruct (RR OK) as [-> R'].
  repeat match goal with |- _ /\ _ => split end; auto; apply T.
Qed.

(** ** From the initial state: position [k] holds the [k]-th accepted value *)
Lemma inv3_init c a : a_init c = Some a -> c_worker c = true -> c_owned c = false ->
  Inv3 a /\ ppos a = mkTri 0 0 0 /\ lpos a = mkTri 0 0 0 /\ slen a = length (c_init c).
Proof.
  intros Ha HW HO. pose proof (init_refines c) as R. rewrite Ha in R.
  destruct (init c) as [m|]; [|contradiction].
  unfold a_init in Ha. destruct (length (c_init c)) eqn:E; try discriminate.
  inversion Ha; subst; clear Ha.
  split; [|auto].
  constructor; simpl; auto. exists m. exact R.
Qed.

Theorem FIFO3_init c a h : a_init c = Some a -> c_worker c = true -> c_owned c = false ->
  forallb fifo3_op h = true -> snd (srun a h) = true ->
  let a' := fst (fst (srun a h)) in
  (* the [k]-th value consumed is the [k]-th value accepted, with exactly the worker's accesses to
     position [k], in order *)
  consumed a h =
    map (fun k => apply_edits (edits_at k (edits a h)) (nth k (accepted a h) 0%N))
        (seq 0 (length (consumed a h))) /\
  length (consumed a h) <= length (accepted a h) /\
  length (accepted a h) - length (consumed a h) <= length (c_init c) - 1 /\
  tP (ppos a') = length (accepted a h) /\ tC (ppos a') = length (consumed a h) /\
  tC (ppos a') <= tW (ppos a') /\ tW (ppos a') <= tP (ppos a') /\
  (forall q e, In (q, e) (edits a h) -> q < length (accepted a h)).
Proof.
  intros Ha HW HO F OK a'. destruct (inv3_init c a Ha HW HO) as (I & Ep & El & Es).
  pose proof (FIFO3 h a I F OK) as T. cbv zeta in T. rewrite sfinal_srun in T. fold a' in T.
  destruct T as (T1 & T2 & T3 & T4 & T5 & T6 & T7 & T8 & T9).
  rewrite Ep in *. cbn [tP tW tC] in *. rewrite Es in *.
  repeat match goal with |- _ /\ _ => split end; try lia.
  - etransitivity; [exact T5|]. apply map_ext. intros k. unfold expected, src, src1.
    rewrite El. cbn [tP]. bf (k <? 0). rewrite Nat.sub_0_r. reflexivity.
  - intros q e Hin. pose proof (T6 q e Hin). lia.
Qed.

(** a worker that only looks: the consumer gets a prefix of what was accepted, as in the two-stage case *)
Corollary FIFO3_init_no_edits c a h : a_init c = Some a -> c_worker c = true -> c_owned c = false ->
  forallb fifo3_op h = true -> snd (srun a h) = true -> edits a h = [] ->
  consumed a h = firstn (length (consumed a h)) (accepted a h).
Proof.
  intros Ha HW HO F OK Hed. destruct (FIFO3_init c a h Ha HW HO F OK) as (T1 & T2 & _).
  rewrite Hed in T1. etransitivity; [exact T1|]. symmetry.
  change (firstn (length (consumed a h)) (accepted a h))
    with (sub (accepted a h) 0 (length (consumed a h))).
  rewrite sub_map_seq by lia. apply map_ext. intros k. reflexivity.
Qed.

(** ** Examples: the hypotheses are satisfiable, and the contract is needed *)
Definition ex_config : config := mkConfig [0; 0; 0; 0]%N true false false.   (* len 4, worker, plain *)

(** three pushes, the worker edits two of the items and releases two, the consumer pops two *)
Definition ex_h1 : list op :=
  [Push 10; Push 20; Push 30; Edit W 0 5; Poke W 1 7; Advance W 2; Pop; Pop]%N.

(** ... then two more pushes (position 4 wraps to slot 0), more edits (position 4 twice) released in
    two steps, a slice read over the wrap, one more push, and a pop that is refused because the
    worker has not released position 5 *)
Definition ex_h2 : list op :=
  ex_h1 ++ [PushSlice [40; 50]; Edit W 0 1; Advance W 1; GetExact W 2; Edit W 0 2; Edit W 1 3;
            Edit W 1 100; Advance W 2; CopySlice 3; Push 60; Pop]%N.

Example FIFO3_example1 :
  exists a, a_init ex_config = Some a /\
    forallb fifo3_op ex_h1 = true /\ snd (srun a ex_h1) = true /\
    accepted a ex_h1 = [10; 20; 30]%N /\
    edits a ex_h1 = [(0, EAdd 5%N); (1, ESet 7%N)] /\
    consumed a ex_h1 = [15; 7]%N /\
    map (expected a ex_h1) (seq 0 2) = [15; 7]%N /\
    ppos (sfinal a ex_h1) = mkTri 3 2 2.
Proof. eexists. split; [reflexivity|]. vm_compute. repeat split. Qed.

Example FIFO3_example2 :
  exists a m, a_init ex_config = Some a /\ init ex_config = Some m /\
    forallb fifo3_op ex_h2 = true /\ snd (srun a ex_h2) = true /\
    accepted a ex_h2 = [10; 20; 30; 40; 50; 60]%N /\
    edits a ex_h2 = [(0, EAdd 5%N); (1, ESet 7%N); (2, EAdd 1%N); (3, EAdd 2%N); (4, EAdd 3%N); (4, EAdd 100%N)] /\
    consumed a ex_h2 = [15; 7; 31; 42; 153]%N /\
    consumed_outs ex_h2 (snd (run m ex_h2)) = [15; 7; 31; 42; 153]%N /\
    map (expected a ex_h2) (seq 0 5) = [15; 7; 31; 42; 153]%N /\
    ppos (sfinal a ex_h2) = mkTri 6 5 5 /\
    a_ring (sfinal a ex_h2) = [153; 60; 31; 42]%N /\            (* positions 4 and 5 sit in slots 0 and 1 *)
    nth 11 (map fst (snd (fst (srun a ex_h2)))) OBad = OSlices 3 [40%N] [50%N].   (* the wrapped window *)
Proof. eexists. eexists. split; [reflexivity|]. split; [reflexivity|]. vm_compute. repeat split. Qed.

(** a worker that writes outside its granted window breaks the contract ([srun] says so), and then
    the statement fails: the access is overwritten by the push *)
Example FIFO3_contract_needed :
  exists a, a_init ex_config = Some a /\
    let h := [Edit W 0 5; Push 10; Advance W 1; Pop]%N in
    forallb fifo3_op h = true /\ snd (srun a h) = false /\
    consumed a h = [10%N] /\ map (expected a h) (seq 0 1) = [15%N].
Proof. eexists. split; [reflexivity|]. vm_compute. repeat split. Qed.

Print Assumptions FIFO3.
Print Assumptions FIFO3_discipline.
Print Assumptions FIFO3_rel.
Print Assumptions FIFO3_init.
Print Assumptions FIFO3_init_no_edits.
