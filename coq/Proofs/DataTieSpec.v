(** * The translated source refines the Spec: composing the D-tie (translated function = Model function) with the refinement theorem
      (Model step refines Spec step).  For every Model state related to a Spec state and every usable / attached iterator, running the
      function TRANSLATED FROM THE RUST SOURCE answers what the tape Spec answers, and leaves cells, local index, remembered
      availability, publication, clone identities and ledger of a state that is again related to the Spec's next state. *)
From Coq Require Import List Arith NArith Bool Lia Permutation.
Import ListNotations.
Require Import MRB.Base.Ring MRB.Base.ListAux MRB.Model.Types MRB.Model.Seq MRB.Model.KernelM MRB.Model.DataM MRB.Spec.Pipe.
Require Import MRB.Proofs.Rel MRB.Proofs.Refine MRB.gen.Kernels MRB.gen.DataFns MRB.Proofs.KernelTie MRB.Proofs.DataTie MRB.Proofs.DataTieSlices MRB.Proofs.DataTieRel.

Opaque usize_max.

Section S.
Variables (m : mstate) (a : pipe).
Hypothesis R : Rel m a.
Hypothesis Hmax : mlen m + mlen m < usize_max.

Lemma att_det k : a_attached k a = true -> det (it_of k m) = false /\ a_usable k a = true /\ attached k m = true.
Proof.
  intros A. pose proof (attached_eq m a k R) as E. rewrite A in E.
  unfold a_attached in A. apply andb_prop in A as [U D].
  unfold attached in E. apply andb_prop in E as [_ E]. apply negb_true_iff in E.
  repeat split; auto. unfold attached. rewrite (usable_eq m a k R), U, E. reflexivity.
Qed.

(** [push] *)
Theorem push_source_refines_spec v src out : a_attached P a = true ->
  exists r d, drun (d_push (denv_of P m src) v) (view P m out) = Some (r, d) /\
    let '(a', (o, evs)) := sstep a (Push v) in
    (match r, o with Ok _, OOk => True | Err x, OErr y => x = y /\ x = v | _, _ => False end) /\
    exists m', Rel m' a' /\ agrees P m' (match r with Ok _ => [tP (pub m')] | Err _ => [] end) evs d.
Proof.
  intros A. destruct (att_det P A) as (D & U & At).
  destruct (tie_push m src out v (rel_wf m a P R U Hmax) D) as (r & d & Run & Res).
  exists r, d. split; [exact Run|].
  destruct (step_refines m a (Push v) R eq_refl) as [E Rl]. cbn [step] in E, Rl. rewrite At in E, Rl.
  unfold push_res in Res. destruct (push SAssign v m) as [m' [o evs]]. cbn [fst snd] in *.
  destruct (sstep a (Push v)) as [a' [o' evs']]. cbn [fst snd] in *. inversion E; subst o' evs'.
  destruct Res as (Ag & _ & Ho). split; [exact Ho|]. exists m'. split; assumption.
Qed.

(** [pop] *)
Theorem pop_source_refines_spec src out : a_attached C a = true ->
  exists r d, drun (d_pop (denv_of C m src)) (view C m out) = Some (r, d) /\
    let '(a', (o, evs)) := sstep a Pop in
    (match r, o with Some v, OVal v' => v = v' | None, ONone => True | _, _ => False end) /\
    exists m', Rel m' a' /\ agrees C m' (match r with Some _ => [tC (pub m')] | None => [] end) evs d.
Proof.
  intros A. destruct (att_det C A) as (D & U & At).
  destruct (tie_pop_wrappers m src out (rel_wf m a C R U Hmax) D) as (_ & r & d & Run & Res).
  exists r, d. split; [exact Run|].
  destruct (step_refines m a Pop R eq_refl) as [E Rl]. cbn [step] in E, Rl. rewrite At in E, Rl.
  unfold pop_res in Res. destruct (pop false m) as [m' [o evs]]. cbn [fst snd] in *.
  destruct (sstep a Pop) as [a' [o' evs']]. cbn [fst snd] in *. inversion E; subst o' evs'.
  destruct Res as (Ag & _ & Ho). split; [exact Ho|]. exists m'. split; assumption.
Qed.

(** [push_slice_clone_init] (owned or plain items) *)
Theorem push_slice_clone_init_source_refines_spec vs out : a_attached P a = true ->
  exists r d, drun (d_push_slice_clone_init (denv_of P m vs) (src_sl (denv_of P m vs))) (view P m out) = Some (r, d) /\
    let '(a', (o, evs)) := sstep a (PushSliceCloneInit vs) in
    (match r, o with Some _, OOk => True | None, ONone => True | _, _ => False end) /\
    exists m' evs0, Rel m' a' /\ agrees P m' (match r with Some _ => [tP (pub m')] | None => [] end) evs0 d /\ evs0 = evs.
Proof.
  intros A. destruct (att_det P A) as (D & U & At).
  destruct (tie_push_slice_clone_init m vs out (rel_wf m a P R U Hmax) D) as (r & d & Run & Res).
  exists r, d. split; [exact Run|].
  destruct (step_refines m a (PushSliceCloneInit vs) R eq_refl) as [E Rl]. cbn [step] in E, Rl. rewrite At in E, Rl.
  unfold push_slice_res in Res. destruct (push_slice SInit true vs m) as [m' [o evs]]. cbn [fst snd] in *.
  destruct (sstep a (PushSliceCloneInit vs)) as [a' [o' evs']]. cbn [fst snd] in *. inversion E; subst o' evs'.
  destruct Res as (Ag & _ & Ho). split; [exact Ho|]. exists m', evs. split; [exact Rl | split; [exact Ag | reflexivity]].
Qed.

(** [get_workable_slice_exact] on any usable iterator (attached or detached): the two raw slices of the source are the Spec's window *)
Theorem slice_exact_source_refines_spec k n src out : a_usable k a = true ->
  exists r d, drun (d_get_workable_slice_exact (denv_of k m src) n) (view k m out) = Some (r, d) /\
    let '(a', (o, _)) := sstep a (GetExact k n) in
    (match r, o with
     | Some (s1, s2), OSlices i h t => s_off s1 = i /\ h = sub (slots m) (s_off s1) (s_len s1) /\ t = sub (slots m) (s_off s2) (s_len s2) /\ s_len s1 + s_len s2 = n
     | None, ONone => True
     | _, _ => False
     end) /\
    exists m', Rel m' a' /\ agrees k m' [] [] d.
Proof.
  intros U.
  destruct (tie_slice_wrappers k m src out n (rel_wf m a k R U Hmax)) as ((r & d & Run & Res) & _).
  exists r, d. split; [exact Run|].
  destruct (step_refines m a (GetExact k n) R eq_refl) as [E Rl]. cbn [step] in E, Rl.
  rewrite (usable_eq m a k R), U in E, Rl.
  unfold grant_res in Res. destruct (grant k n m) as [m' [o evs]]. cbn [fst snd] in *.
  destruct (sstep a (GetExact k n)) as [a' [o' evs']]. cbn [fst snd] in *. inversion E; subst o' evs'.
  destruct Res as (Ag & _ & Ho). split.
  - destruct r as [[s1 s2]|], o; try contradiction; auto.
    destruct Ho as (E1 & E2 & Hh & Ht & _ & _ & Hs). subst s1 s2. cbn [s_off s_len] in *. repeat split; auto.
  - exists m'. split; assumption.
Qed.
End S.
