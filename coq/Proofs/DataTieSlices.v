(** * D-tie, slice forms: [_push_slice] with the four closures of [push_slice], [push_slice_init], [push_slice_clone],
      [push_slice_clone_init] = the Model's [push_slice]; [_extract_slice] with the closures of [copy_slice] / [clone_slice] = the
      Model's [extract_slice].  The element-wise loops of the source ([for (x, y) in a.iter_mut().zip(b)], [copy_nonoverlapping],
      [clone_from_slice]) are proved, by induction over the number of elements, to store exactly the Model's values into exactly
      the Model's slots; the ledger events agree as multisets (the crate clones and drops element by element, the Model lists
      clones first). *)
From Coq Require Import List Arith NArith Bool Lia Permutation.
Import ListNotations.
Require Import MRB.Base.Ring MRB.Base.ListAux MRB.Model.Types MRB.Model.Seq MRB.Model.KernelM MRB.Model.DataM.
Require Import MRB.gen.Kernels MRB.gen.DataFns MRB.Proofs.KernelTie MRB.Proofs.DataTie.

Opaque usize_max.

(** ** lists *)
Lemma sub_cons_nth' (l : list N) i n : i < length l -> sub l i (S n) = nth i l 0%N :: sub l (S i) n.
Proof.
  unfold sub. revert i. induction l as [|a l IH]; intros [|i] H; simpl in *; try lia; auto.
  apply IH. lia.
Qed.
Lemma sub_upd_after' (l : list N) i x j n : i < j -> sub (upd i x l) j n = sub l j n.
Proof.
  unfold sub. revert i j. induction l as [|a l IH]; intros [|i] [|j] H; simpl; try lia; auto.
  apply IH. lia.
Qed.
Lemma sub_zero (l : list N) i : sub l i 0 = [].
Proof. reflexivity. Qed.
Lemma skipn_skipn' {A} (l : list A) a b : skipn a (skipn b l) = skipn (b + a) l.
Proof. revert l. induction b as [|b IH]; intros l; simpl; auto. destruct l; simpl; auto. destruct a; reflexivity. Qed.
Lemma sub_app_split (l : list N) i a b : sub l i (a + b) = sub l i a ++ sub l (i + a) b.
Proof.
  unfold sub. rewrite <- (firstn_skipn a (firstn (a + b) (skipn i l))) at 1.
  f_equal.
  - rewrite firstn_firstn. f_equal. lia.
  - rewrite skipn_firstn_comm. replace (a + b - a) with b by lia. rewrite skipn_skipn'. reflexivity.
Qed.
Lemma sub_all (l : list N) : sub l 0 (length l) = l.
Proof. unfold sub. simpl. apply firstn_all. Qed.
Lemma sub_firstn (l : list N) h : sub l 0 h = firstn h l.
Proof. reflexivity. Qed.
Lemma sub_skipn (l : list N) h : sub l h (length l - h) = skipn h l.
Proof. unfold sub. rewrite <- (skipn_length h l). apply firstn_all. Qed.
Lemma ids_app b n m : ids b (n + m) = ids b n ++ ids (b + N.of_nat n)%N m.
Proof.
  revert b. induction n as [|n IH]; intros b; simpl.
  - f_equal. lia.
  - f_equal. rewrite IH. f_equal. f_equal. lia.
Qed.
Lemma ids_length b n : length (ids b n) = n.
Proof. revert b; induction n; intros; simpl; auto. Qed.
Lemma write_app (l : list N) i a b : write l i (a ++ b) = write (write l i a) (i + length a) b.
Proof.
  revert l i. induction a as [|x a IH]; intros l i; simpl.
  - f_equal. lia.
  - rewrite IH. f_equal. lia.
Qed.

(** ** loops *)
Lemma for_n_ext n : forall j (f g : nat -> DM unit), (forall j' d, f j' d = g j' d) -> forall d, for_n n j f d = for_n n j g d.
Proof.
  induction n as [|n IH]; intros j f g H d; simpl; auto.
  unfold dbind. rewrite H. destruct (g j d) as [[[] d']|]; auto.
Qed.

(** the element-wise interleaving of clone and store events *)
Fixpoint loop_evs (m : smode) (srcs news olds : list cell) : list lev :=
  match srcs, news, olds with
  | a :: sr, b :: nr, o :: olr => (if isz a then LZeroRead else LMake b) :: store_ev m o ++ loop_evs m sr nr olr
  | _, _, _ => []
  end.

Lemma loop_evs_perm m srcs : forall news olds, length news = length srcs -> length olds = length srcs ->
  Permutation (loop_evs m srcs news olds) (clone_evs srcs news ++ store_evs m olds).
Proof.
  induction srcs as [|a sr IH]; intros [|b nr] [|o olr] H1 H2; simpl in *; try lia; auto.
  constructor. rewrite (IH nr olr) by lia.
  rewrite !app_assoc. apply Permutation_app_tail. apply Permutation_app_comm.
Qed.

Lemma loop_evs_app m s1 n1 o1 s2 n2 o2 : length n1 = length s1 -> length o1 = length s1 ->
  loop_evs m (s1 ++ s2) (n1 ++ n2) (o1 ++ o2) = loop_evs m s1 n1 o1 ++ loop_evs m s2 n2 o2.
Proof.
  revert n1 o1. induction s1 as [|a sr IH]; intros [|b nr] [|o olr] H1 H2; simpl in *; try lia; auto.
  rewrite IH by lia. rewrite <- app_assoc. reflexivity.
Qed.

(** clone events without stores (extraction into the caller's destination) *)
Lemma clone_evs_app s1 : forall n1 s2 n2, length n1 = length s1 ->
  clone_evs (s1 ++ s2) (n1 ++ n2) = clone_evs s1 n1 ++ clone_evs s2 n2.
Proof. induction s1 as [|a sr IH]; intros [|b nr] s2 n2 H; simpl in *; try lia; auto. rewrite IH by lia. reflexivity. Qed.

(** the window test looks at the local part and at the NUMBER of cells only: stores keep it *)
Definition win_range (d : dst) (a n : nat) : Prop := forall i, a <= i < a + n -> in_window d i = true.
Lemma in_window_same d d' i : d_l d' = d_l d -> length (d_slots d') = length (d_slots d) -> in_window d' i = in_window d i.
Proof. intros H1 H2. unfold in_window. rewrite H1, H2. reflexivity. Qed.
Lemma win_range_same d d' a n : d_l d' = d_l d -> length (d_slots d') = length (d_slots d) -> win_range d a n -> win_range d' a n.
Proof. intros H1 H2 H i Hi. rewrite (in_window_same d d' i H1 H2). exact (H i Hi). Qed.
Lemma win_range_tail d a n : win_range d a (S n) -> win_range d (S a) n.
Proof. intros H i Hi. apply H. lia. Qed.

(** the head run of a granted request starts at the local index; its tail run at cell 0 *)
Lemma win_head ix0 ca0 sl pubs evs nid out c : c <= ca0 -> win_range (mkD (mkL ix0 ca0) sl pubs evs nid out) ix0 c.
Proof. intros H i Hi. replace i with (ix0 + (i - ix0)) by lia. apply window_ahead. lia. Qed.
Lemma win_tail ix0 ca0 sl pubs evs nid out t : t <= ix0 -> ix0 <= length sl -> length sl - ix0 + t <= ca0 ->
  win_range (mkD (mkL ix0 ca0) sl pubs evs nid out) 0 t.
Proof. intros H1 H2 H3 i Hi. apply window_wrapped; lia. Qed.

Section Loops.
Variable E : denv.
Local Notation srcl := (dn_src E).

(** canonical bodies *)
Definition copy_body (src dst_ : sl) (j : nat) : DM unit := v <~ rd E (sl_at src j) ;; st (sl_at dst_ j) v.
Definition clone_body (m : smode) (src dst_ : sl) (j : nat) : DM unit :=
  v <~ rd E (sl_at src j) ;; c <~ clone_ E v ;; store_mode E m (sl_at dst_ j) c.

Ltac dmm := unfold dbind, dret, rd, st, emit, store_mode, clone_, is_buf, set_slots_d, set_out_d, sl_at; cbn [s_reg s_off s_len d_l d_slots d_pubs d_evs d_nid d_out].

(** bitwise copy, caller's slice -> buffer *)
Lemma copy_loop_src_buf so o N1 N2 n : forall j d, so + j + n <= length srcl -> o + j + n <= length (d_slots d) -> win_range d (o + j) n ->
  for_n n j (copy_body (mkSl RSrc so N1) (mkSl RBuf o N2)) d =
  Some (tt, set_slots_d (write (d_slots d) (o + j) (sub srcl (so + j) n)) d).
Proof.
  induction n as [|n IH]; intros j d H1 H2 HW.
  - simpl. unfold dret, set_slots_d. destruct d; reflexivity.
  - cbn [for_n]. unfold dbind at 1. unfold copy_body at 1. dmm.
    rewrite (ltb_true (so + j) (length srcl)) by lia. rewrite (ltb_true (o + j) (length (d_slots d))) by lia.
    rewrite (HW (o + j)) by lia. cbn [andb].
    rewrite IH by (first [ cbn [d_slots]; rewrite ?upd_length; lia
                         | replace (o + S j) with (S (o + j)) by lia; apply win_range_tail;
                           apply (win_range_same d); [reflexivity | cbn [d_slots]; apply upd_length | exact HW] ]).
    cbn [d_slots d_l d_pubs d_evs d_nid d_out].
    rewrite sub_cons_nth' by lia. cbn [write]. unfold set_slots_d. cbn.
    replace (so + S j) with (S (so + j)) by lia. replace (o + S j) with (S (o + j)) by lia. reflexivity.
Qed.

(** bitwise copy, buffer -> caller's destination *)
Lemma copy_loop_buf_out o oo N1 N2 n : forall j d, o + j + n <= length (d_slots d) -> oo + j + n <= length (d_out d) -> win_range d (o + j) n ->
  for_n n j (copy_body (mkSl RBuf o N1) (mkSl RDst oo N2)) d =
  Some (tt, set_out_d (write (d_out d) (oo + j) (sub (d_slots d) (o + j) n)) d).
Proof.
  induction n as [|n IH]; intros j d H1 H2 HW.
  - simpl. unfold dret, set_out_d. destruct d; reflexivity.
  - cbn [for_n]. unfold dbind at 1. unfold copy_body at 1. dmm.
    rewrite (ltb_true (o + j) (length (d_slots d))) by lia. rewrite (HW (o + j)) by lia. cbn [andb d_out d_slots d_l d_pubs d_evs d_nid].
    rewrite (ltb_true (oo + j) (length (d_out d))) by lia.
    rewrite IH by (first [ cbn [d_slots d_out]; rewrite ?upd_length; lia
                         | replace (o + S j) with (S (o + j)) by lia; apply win_range_tail;
                           apply (win_range_same d); [reflexivity | reflexivity | exact HW] ]).
    cbn [d_slots d_l d_pubs d_evs d_nid d_out].
    rewrite sub_cons_nth' by lia. cbn [write]. unfold set_out_d. cbn.
    replace (o + S j) with (S (o + j)) by lia. replace (oo + S j) with (S (oo + j)) by lia. reflexivity.
Qed.

(** what an element-wise clone-and-store loop into the buffer leaves behind *)
Definition cloned_vals (nid0 : N) (srcs : list cell) : list cell := if dn_owned E then ids nid0 (length srcs) else srcs.
Definition cloned_nid (nid0 : N) (n : nat) : N := if dn_owned E then (nid0 + N.of_nat n)%N else nid0.

Lemma clone_loop_src_buf m so o N1 N2 n : forall j d, so + j + n <= length srcl -> o + j + n <= length (d_slots d) -> win_range d (o + j) n ->
  for_n n j (clone_body m (mkSl RSrc so N1) (mkSl RBuf o N2)) d =
  Some (tt, mkD (d_l d) (write (d_slots d) (o + j) (cloned_vals (d_nid d) (sub srcl (so + j) n))) (d_pubs d)
                (d_evs d ++ (if dn_owned E then loop_evs m (sub srcl (so + j) n) (ids (d_nid d) n) (sub (d_slots d) (o + j) n) else []))
                (cloned_nid (d_nid d) n) (d_out d)).
Proof.
  unfold cloned_vals, cloned_nid.
  induction n as [|n IH]; intros j d H1 H2 HW.
  - simpl. unfold dret. destruct d. cbn. destruct (dn_owned E); cbn; rewrite ?app_nil_r, ?N.add_0_r; reflexivity.
  - cbn [for_n]. unfold dbind at 1. unfold clone_body at 1.
    assert (HWj : forall l sl pubs evs nid out, l = d_l d -> length sl = length (d_slots d) -> in_window (mkD l sl pubs evs nid out) (o + j) = true).
    { intros l sl pubs evs nid out Hl Hs. rewrite (in_window_same d _ (o + j)) by (cbn [d_l d_slots]; assumption). apply HW. lia. }
    repeat (progress (dmm; rewrite ?(ltb_true (so + j) (length srcl)) by lia; rewrite ?(ltb_true (o + j) (length (d_slots d))) by lia;
                      rewrite ?HWj by reflexivity; rewrite ?(HW (o + j)) by lia; cbn [andb])).
    rewrite IH by (first [ cbn [d_slots]; rewrite ?upd_length; lia
                         | replace (o + S j) with (S (o + j)) by lia; apply win_range_tail;
                           apply (win_range_same d); [reflexivity | cbn [d_slots]; apply upd_length | exact HW] ]).
    cbn [d_slots d_l d_pubs d_evs d_nid d_out].
    rewrite !(sub_cons_nth' srcl) by lia. rewrite (sub_cons_nth' (d_slots d)) by lia.
    rewrite sub_upd_after' by lia.
    replace (so + S j) with (S (so + j)) by lia. replace (o + S j) with (S (o + j)) by lia.
    cbn [length]; rewrite ?sub_length by lia.
    destruct (dn_owned E); cbn [length ids write loop_evs].
    + f_equal. f_equal. f_equal.
      * rewrite <- !app_assoc. reflexivity.
      * lia.
    + rewrite !app_nil_r. reflexivity.
Qed.

(** clone, buffer -> caller's destination (what is dropped in the destination is the caller's) *)
Lemma clone_loop_buf_out m o oo N1 N2 n : forall j d, o + j + n <= length (d_slots d) -> oo + j + n <= length (d_out d) -> win_range d (o + j) n ->
  for_n n j (clone_body m (mkSl RBuf o N1) (mkSl RDst oo N2)) d =
  Some (tt, mkD (d_l d) (d_slots d) (d_pubs d)
                (d_evs d ++ (if dn_owned E then clone_evs (sub (d_slots d) (o + j) n) (ids (d_nid d) n) else []))
                (cloned_nid (d_nid d) n)
                (write (d_out d) (oo + j) (cloned_vals (d_nid d) (sub (d_slots d) (o + j) n)))).
Proof.
  unfold cloned_vals, cloned_nid.
  induction n as [|n IH]; intros j d H1 H2 HW.
  - simpl. unfold dret. destruct d. cbn. destruct (dn_owned E); cbn; rewrite ?app_nil_r, ?N.add_0_r; reflexivity.
  - cbn [for_n]. unfold dbind at 1. unfold clone_body at 1.
    repeat (progress (dmm; rewrite ?(ltb_true (o + j) (length (d_slots d))) by lia; rewrite ?(ltb_true (oo + j) (length (d_out d))) by lia;
                      rewrite ?(HW (o + j)) by lia; cbn [andb])).
    rewrite IH by (first [ cbn [d_slots d_out]; rewrite ?upd_length; lia
                         | replace (o + S j) with (S (o + j)) by lia; apply win_range_tail;
                           apply (win_range_same d); [reflexivity | reflexivity | exact HW] ]).
    cbn [d_slots d_l d_pubs d_evs d_nid d_out].
    rewrite !(sub_cons_nth' (d_slots d)) by lia.
    replace (o + S j) with (S (o + j)) by lia. replace (oo + S j) with (S (oo + j)) by lia.
    cbn [length]; rewrite ?sub_length by lia.
    destruct (dn_owned E); cbn [length ids write clone_evs].
    + f_equal. f_equal. f_equal.
      * rewrite !app_nil_r. rewrite <- !app_assoc. reflexivity.
      * lia.
    + rewrite !app_nil_r. reflexivity.
Qed.
End Loops.

Lemma firstn_upd_before (l : list N) : forall i x n, n <= i -> firstn n (upd i x l) = firstn n l.
Proof.
  induction l as [|a l IHl]; intros [|i] x [|n] H; simpl; auto; try lia. f_equal. apply IHl. lia.
Qed.
Lemma sub_write_before' (l : list N) i vs n : n <= i -> sub (write l i vs) 0 n = sub l 0 n.
Proof.
  revert l i. induction vs as [|v r IH]; intros l i H; simpl; auto.
  rewrite IH by lia. unfold sub. simpl. apply firstn_upd_before. lia.
Qed.

Lemma agrees_is_view k s' out d : agrees k s' [] [] d -> d_out d = out -> d = view k s' out.
Proof.
  intros [A1 A2 A3 A4 A5] Ho. apply Permutation_sym, Permutation_nil in A4. destruct d. cbn in *. subst. reflexivity.
Qed.

(** what a closure handed to [_push_slice] must do with one contiguous run: clone-or-copy [c] elements of the caller's slice into [c]
    cells of the buffer, element by element, in ledger mode [m] *)
Definition run_effect (E : denv) (m : smode) (o so c : nat) (d : dst) : dst :=
  mkD (d_l d) (write (d_slots d) o (cloned_vals E (d_nid d) (sub (dn_src E) so c))) (d_pubs d)
      (d_evs d ++ (if dn_owned E then loop_evs m (sub (dn_src E) so c) (ids (d_nid d) c) (sub (d_slots d) o c) else []))
      (cloned_nid E (d_nid d) c) (d_out d).

Definition store_spec (E : denv) (m : smode) (f : sl -> sl -> DM unit) : Prop :=
  forall o so c d, so + c <= length (dn_src E) -> o + c <= length (d_slots d) -> win_range d o c ->
    f (mkSl RBuf o c) (mkSl RSrc so c) d = Some (tt, run_effect E m o so c d).

Lemma wr_fields s i vs : its (wr s i vs) = its s /\ mlen (wr s i vs) = mlen s /\ nid (wr s i vs) = nid s /\ owned (wr s i vs) = owned s.
Proof. unfold wr. destruct (chunk (mlen s) i (length vs)). cbn. repeat split. Qed.

Section PushSlice.
Variables (s : mstate) (vs out : list cell).
Hypothesis Hwf : wf P s.
Hypothesis Hatt : det (it_of P s) = false.
Local Notation E := (denv_of P s vs).
Local Notation n := (length vs).

Definition push_slice_res (m : smode) (cl : bool) (r : option unit) (d : dst) : Prop :=
  let '(s', (o, evs)) := push_slice m cl vs s in
  agrees P s' (match r with Some _ => [tP (pub s')] | None => [] end) evs d /\ d_out d = out /\
  match r, o with Some _, OOk => True | None, ONone => True | _, _ => False end.

Lemma firstn_ids b h t : firstn h (ids b (h + t)) = ids b h.
Proof. rewrite ids_app. rewrite firstn_app, ids_length, Nat.sub_diag. simpl. rewrite app_nil_r. rewrite <- (ids_length b h) at 1. apply firstn_all. Qed.
Lemma skipn_ids b h t : skipn h (ids b (h + t)) = ids (b + N.of_nat h)%N t.
Proof. rewrite ids_app. rewrite skipn_app, ids_length, Nat.sub_diag. simpl. rewrite <- (ids_length b h) at 1. rewrite skipn_all. reflexivity. Qed.

Theorem push_slice_generic (m : smode) (cl : bool) (f : sl -> sl -> DM unit) :
  store_spec E m f -> (cl = false -> owned s = false) ->
  exists r d, drun (d__push_slice E (src_sl E) f) (view P s out) = Some (r, d) /\ push_slice_res m cl r d.
Proof.
  intros Hf Hcl. unfold d__push_slice, d_advance, src_sl. cbn [s_len dn_src denv_of].
  destruct (tie_next_chunk_mut P s vs out n Hwf) as (r0 & d0 & R0 & G0). unfold drun in *.
  unfold dbind at 1. rewrite R0. clear R0.
  unfold grant_res, grant in G0. unfold push_slice_res, push_slice.
  pose proof (wf_check P n s Hwf) as Hwf1. pose proof (env_check P n s) as He. pose proof (granted_le_len P n s Hwf) as Hn.
  pose proof (ix_check P s Hwf n) as Hi.
  destruct (check P n s) as [g s1] eqn:Ck. cbn [fst snd] in *.
  destruct (check_keeps_all P n s) as (A & B & Pb & Nd & Ow & Ix & Sc & Dt). rewrite Ck in *. cbn [snd] in *.
  destruct g.
  2:{ (* refused *)
      unfold Seq.ret in G0. destruct G0 as (Ag & Ho & Hr). destruct r0 as [[a b]|]; [contradiction|].
      rewrite (agrees_is_view _ _ _ _ Ag Ho). unfold dbind, dret.
      eexists _, _. split; [reflexivity|]. unfold Seq.ret. split; [|split]; [constructor; cbn; auto | reflexivity | exact I]. }
  specialize (Hn eq_refl). pose proof (check_grants _ _ _ _ Ck) as Hg.
  unfold Seq.rd in *. destruct (chunk (mlen s1) (ix (it_of P s1)) n) as [h t] eqn:Ch. unfold Seq.ret in G0.
  destruct G0 as (Ag & Ho & Hr). destruct r0 as [[a b]|]; [|contradiction].
  rewrite B in Ch. rewrite Ch in Hr. cbn [fst snd] in Hr. destruct Hr as (Ha & Hb & _ & _ & Hba & Hbb & Hsum). subst a b.
  cbn [s_off s_len] in *.
  rewrite (agrees_is_view _ _ _ _ Ag Ho). clear Ag Ho d0.
  assert (Hti : t <= ix (it_of P s1)).
  { unfold chunk in Ch. destruct Hwf1 as [W1 _ _ _ _]. rewrite B in W1. revert Ch. cases; intros Ch; inversion Ch; subst; unfold it_of in *; cbn [tget] in *; lia. }
  (* the values stored and the Model's [news] *)
  unfold clones. rewrite Ow.
  assert (Hnews : (if cl then (if owned s then (ids (nid s1) n, set_nid (nid s1 + N.of_nat n) s1) else (vs, s1)) else (vs, s1)) =
                  (cloned_vals E (nid s) vs, if owned s then set_nid (nid s + N.of_nat n) s1 else s1)).
  { unfold cloned_vals. cbn [dn_owned denv_of]. rewrite Nd. destruct cl; [destruct (owned s); reflexivity|]. rewrite (Hcl eq_refl). reflexivity. }
  rewrite Hnews. clear Hnews.
  set (news := cloned_vals E (nid s) vs). set (s2 := if owned s then set_nid (nid s + N.of_nat n) s1 else s1).
  assert (Hnl : length news = n) by (unfold news, cloned_vals; destruct (dn_owned E); rewrite ?ids_length; reflexivity).
  (* run the closure(s) *)
  unfold dbind at 1. unfold dret at 1. cbv iota beta. unfold dbind at 1.
  destruct (h =? n) eqn:Hh; [apply Nat.eqb_eq in Hh | apply Nat.eqb_neq in Hh].
  - (* one contiguous run *)
    assert (t = 0) by lia. subst t. subst h.
    unfold dbind at 1. unfold view. rewrite (Hf (ix (it_of P s1)) 0 n) by (first [cbn [dn_src denv_of d_slots]; rewrite ?A; lia | apply win_head; exact Hg]).
    unfold dret at 1. cbv iota beta. unfold run_effect. cbn [d_l d_slots d_pubs d_evs d_nid d_out dn_src denv_of].
    unfold dbind. cbn [dn_E denv_of]. rewrite ?A, ?Nd.
    rewrite (lift_advance P n s s1) by (first [exact Hwf1 | lia | symmetry; exact He]).
    unfold dret. cbv iota beta.
    assert (D2 : det (it_of P (wr s2 (ix (it_of P s1)) news)) = false).
    { destruct (wr_fields s2 (ix (it_of P s1)) news) as (Wi & _). unfold it_of in *. rewrite Wi. unfold s2, set_nid. destruct (owned s); cbn [its]; congruence. }
    destruct (advance_attached P n (wr s2 (ix (it_of P s1)) news) D2) as (L & Pu & Sl & Ni & Ml & Oa).
    eexists _, _. split; [reflexivity|]. unfold rete. cbn [fst snd].
    assert (Hs2 : slots s2 = slots s /\ mlen s2 = mlen s /\ nid s2 = cloned_nid E (nid s) n /\ owned s2 = owned s /\
                  ix (it_of P s2) = ix (it_of P s1) /\ ca (it_of P s2) = ca (it_of P s1)).
    { unfold s2, cloned_nid. cbn [dn_owned denv_of]. destruct (owned s) eqn:Own; cbn; repeat split; congruence. }
    destruct Hs2 as (S2a & S2b & S2c & S2d & S2e & S2f).
    assert (Hwr : slots (wr s2 (ix (it_of P s1)) news) = write (slots s) (ix (it_of P s1)) news /\
                  ix (it_of P (wr s2 (ix (it_of P s1)) news)) = ix (it_of P s1) /\
                  ca (it_of P (wr s2 (ix (it_of P s1)) news)) = ca (it_of P s1) /\
                  mlen (wr s2 (ix (it_of P s1)) news) = mlen s /\ nid (wr s2 (ix (it_of P s1)) news) = cloned_nid E (nid s) n /\
                  owned (wr s2 (ix (it_of P s1)) news) = owned s).
    { unfold wr. rewrite S2b, Hnl, Ch. cbn [set_slots slots its mlen nid owned it_of].
      rewrite S2a. rewrite <- Hnl at 1 2. rewrite firstn_all, skipn_all. cbn [write].
      unfold it_of in *. repeat split; auto. }
    destruct Hwr as (Wa & Wb & Wc & Wd & We & Wf).
    split; [|split]; [constructor; cbn [d_l d_slots d_pubs d_evs d_nid] | reflexivity | exact I].
    + rewrite L, Wb, Wc, Wd, B. reflexivity.
    + rewrite Sl, Wa. unfold news. rewrite sub_all. reflexivity.
    + cbn [tget] in Pu. rewrite Pu, Wb, Wd, B. reflexivity.
    + unfold ev. rewrite Oa, Wf. cbn [dn_owned denv_of]. destruct (owned s) eqn:Own; [|constructor].
      cbn [app]. rewrite ?A. rewrite (sub_all vs). fold news.
      assert (cl = true) by (destruct cl; auto; specialize (Hcl eq_refl); congruence). subst cl.
      unfold news, cloned_vals. cbn [dn_owned denv_of]. rewrite Own.
      replace (sub (slots s) 0 0) with (@nil N) by reflexivity. rewrite app_nil_r.
      apply loop_evs_perm; rewrite ?ids_length, ?sub_length; auto; lia.
    + rewrite Ni, We. reflexivity.
  - (* two runs: up to the physical end, then from slot 0 *)
    assert (Hh' : h <= n) by lia.
    unfold sl_prefix, sl_suffix. cbn [s_len s_reg s_off]. rewrite (leb_true h n Hh').
    unfold view, dbind, dret.
    assert (Hhl : h = mlen s - ix (it_of P s1)).
    { unfold chunk in Ch. destruct Hwf1 as [W1 _ _ _ _]. rewrite B in W1. revert Ch. cases; intros Ch; inversion Ch; subst; unfold it_of in *; cbn [tget] in *; lia. }
    assert (Hsl : length (slots s) = mlen s) by (destruct Hwf as [_ _ W3 _ _]; exact W3).
    rewrite (Hf (ix (it_of P s1)) 0 h) by (first [cbn [dn_src denv_of d_slots]; rewrite ?A; lia | apply win_head; lia]).
    cbv iota beta. replace (n - h) with t by lia. cbn [Nat.add].
    rewrite (Hf 0 h t) by (first [ unfold run_effect; cbn [dn_src denv_of d_slots]; rewrite ?write_length, ?A; lia
                                 | unfold run_effect; cbn [d_l d_slots]; apply win_tail; rewrite ?write_length, ?A; destruct Hwf1 as [W1 _ _ _ _]; lia ]).
    cbv iota beta. unfold run_effect. cbn [d_l d_slots d_pubs d_evs d_nid d_out dn_src dn_E denv_of]. rewrite ?A, ?Nd.
    rewrite (lift_advance P n s s1) by (first [exact Hwf1 | lia | symmetry; exact He]).
    cbv iota beta.
    assert (D2 : det (it_of P (wr s2 (ix (it_of P s1)) news)) = false).
    { destruct (wr_fields s2 (ix (it_of P s1)) news) as (Wi & _). unfold it_of in *. rewrite Wi. unfold s2, set_nid. destruct (owned s); cbn [its]; congruence. }
    destruct (advance_attached P n (wr s2 (ix (it_of P s1)) news) D2) as (L & Pu & Sl & Ni & Ml & Oa).
    eexists _, _. split; [reflexivity|]. unfold rete. cbn [fst snd].
    assert (Hs2 : slots s2 = slots s /\ mlen s2 = mlen s /\ nid s2 = cloned_nid E (nid s) n /\ owned s2 = owned s /\
                  ix (it_of P s2) = ix (it_of P s1) /\ ca (it_of P s2) = ca (it_of P s1)).
    { unfold s2, cloned_nid. cbn [dn_owned denv_of]. destruct (owned s) eqn:Own; cbn; repeat split; congruence. }
    destruct Hs2 as (S2a & S2b & S2c & S2d & S2e & S2f).
    assert (Hwr : slots (wr s2 (ix (it_of P s1)) news) = write (write (slots s) (ix (it_of P s1)) (firstn h news)) 0 (skipn h news) /\
                  ix (it_of P (wr s2 (ix (it_of P s1)) news)) = ix (it_of P s1) /\
                  ca (it_of P (wr s2 (ix (it_of P s1)) news)) = ca (it_of P s1) /\
                  mlen (wr s2 (ix (it_of P s1)) news) = mlen s /\ nid (wr s2 (ix (it_of P s1)) news) = cloned_nid E (nid s) n /\
                  owned (wr s2 (ix (it_of P s1)) news) = owned s).
    { unfold wr. rewrite S2b, Hnl, Ch. cbn [set_slots slots its mlen nid owned it_of]. rewrite S2a.
      unfold it_of in *. repeat split; auto. }
    destruct Hwr as (Wa & Wb & Wc & Wd & We & Wf).
    assert (Hn2 : n = h + t) by lia.
    assert (Hfn : cloned_vals E (nid s) (sub vs 0 h) = firstn h news /\
                  cloned_vals E (cloned_nid E (nid s) h) (sub vs h t) = skipn h news).
    { unfold news, cloned_vals, cloned_nid. cbn [dn_owned denv_of]. destruct (owned s).
      - rewrite !sub_length by lia. rewrite Hn2. rewrite firstn_ids, skipn_ids. split; reflexivity.
      - split; [reflexivity|]. replace t with (length vs - h) by lia. apply sub_skipn. }
    destruct Hfn as (Hfn1 & Hfn2).
    split; [|split]; [constructor; cbn [d_l d_slots d_pubs d_evs d_nid] | reflexivity | exact I].
    + rewrite L, Wb, Wc, Wd, B. reflexivity.
    + rewrite Sl, Wa, Hfn1, Hfn2. reflexivity.
    + cbn [tget] in Pu. rewrite Pu, Wb, Wd, B. reflexivity.
    + unfold ev. rewrite Oa, Wf. cbn [dn_owned denv_of]. destruct (owned s) eqn:Own; [|constructor].
      cbn [app]. rewrite ?A.
      assert (cl = true) by (destruct cl; auto; specialize (Hcl eq_refl); congruence). subst cl.
      rewrite sub_write_before' by lia.
      unfold cloned_nid at 1. cbn [dn_owned denv_of]. rewrite Own.
      rewrite <- loop_evs_app by (rewrite ?ids_length, ?sub_length; auto; lia).
      rewrite <- ids_app, <- sub_app_split, <- Hn2. cbn [Nat.add]. rewrite (sub_all vs).
      unfold news, cloned_vals. cbn [dn_owned denv_of]. rewrite Own.
      apply loop_evs_perm; rewrite ?ids_length, ?app_length, ?sub_length; auto; lia.
    + rewrite Ni, We. unfold cloned_nid. cbn [dn_owned denv_of]. destruct (owned s); [|reflexivity]. lia.
Qed.
End PushSlice.

(** ** the four closures of the producer's slice methods satisfy [store_spec] *)
Section Closures.
Variable E : denv.

Lemma run_effect_plain m o so c d : dn_owned E = false ->
  run_effect E m o so c d = set_slots_d (write (d_slots d) o (sub (dn_src E) so c)) d.
Proof.
  intros H. unfold run_effect, cloned_vals, cloned_nid, set_slots_d. rewrite H, app_nil_r. reflexivity.
Qed.

(** [copy_from_slice_unchecked(slice, binding)] *)
Lemma spec_copy m (f : sl -> sl -> DM unit) : dn_owned E = false ->
  (forall a b d, f a b d = (v <~ copy_from_slice_unchecked E b a ;; dret tt) d) -> store_spec E m f.
Proof.
  intros Hpl Hf o so c d H1 H2 HW. rewrite Hf. rewrite pass_on_unit. unfold copy_from_slice_unchecked. cbn [s_len].
  rewrite Nat.leb_refl.
  change (fun j : nat => v <~ rd E (sl_at (mkSl RSrc so c) j);; st (sl_at (mkSl RBuf o c) j) v) with (copy_body E (mkSl RSrc so c) (mkSl RBuf o c)).
  rewrite copy_loop_src_buf by (first [lia | rewrite Nat.add_0_r; exact HW]). rewrite run_effect_plain by exact Hpl. rewrite !Nat.add_0_r. reflexivity.
Qed.

(** [binding.clone_from_slice(slice)] *)
Lemma spec_clone (f : sl -> sl -> DM unit) :
  (forall a b d, f a b d = (v <~ clone_from_slice E a b ;; dret tt) d) -> store_spec E SAssign f.
Proof.
  intros Hf o so c d H1 H2 HW. rewrite Hf. rewrite pass_on_unit. unfold clone_from_slice. cbn [s_len].
  rewrite Nat.eqb_refl.
  change (fun j : nat => v <~ rd E (sl_at (mkSl RSrc so c) j);; c0 <~ clone_ E v;; assign E (sl_at (mkSl RBuf o c) j) c0)
    with (clone_body E SAssign (mkSl RSrc so c) (mkSl RBuf o c)).
  rewrite clone_loop_src_buf by (first [lia | rewrite Nat.add_0_r; exact HW]). unfold run_effect. rewrite !Nat.add_0_r. reflexivity.
Qed.

(** a loop [for (x, y) in binding.iter_mut().zip(slice) { body }] whose body is, place by place, the canonical one *)
Lemma spec_zip m (f : sl -> sl -> DM unit) (body : loc -> loc -> DM unit) :
  (forall a b d, f a b d = (for_zip a b body ;;~ dret tt) d) ->
  (forall x y d, body (LBuf x) (LSrc y) d = (v <~ rd E (LSrc y) ;; c <~ clone_ E v ;; store_mode E m (LBuf x) c) d) ->
  store_spec E m f.
Proof.
  intros Hf Hb o so c d H1 H2 HW. rewrite Hf. rewrite seq_unit. unfold for_zip. cbn [s_len]. rewrite Nat.min_id.
  rewrite (for_n_ext c 0 _ (clone_body E m (mkSl RSrc so c) (mkSl RBuf o c))).
  - rewrite clone_loop_src_buf by (first [lia | rewrite Nat.add_0_r; exact HW]). unfold run_effect. rewrite !Nat.add_0_r. reflexivity.
  - intros j' d'. unfold sl_at. cbn [s_reg s_off]. rewrite Hb. reflexivity.
Qed.
End Closures.

Section PushSliceTies.
Variables (s : mstate) (vs out : list cell).
Hypothesis Hwf : wf P s.
Hypothesis Hatt : det (it_of P s) = false.
Local Notation E := (denv_of P s vs).

Ltac via_generic m cl :=
  unfold drun; cbv zeta; rewrite pass_on;
  match goal with |- context[d__push_slice _ _ ?f] =>
    let H := fresh "H" in
    assert (H : store_spec E m f); [| exact (push_slice_generic s vs out Hwf Hatt m cl f H ltac:(first [congruence | assumption | (intros _; assumption)]))]
  end.

Ltac body_tac :=
  let Hx := fresh "Hx" in let Hy := fresh "Hy" in let Hw := fresh "Hw" in let Z := fresh "Z" in
  intros x y d; unfold check_zeroed, write_, assign, store_mode, st, emit, clone_, dbind, dret, is_buf, set_slots_d, rd, in_window;
  cbn [d_l d_slots d_pubs d_evs d_nid d_out dn_src dn_owned denv_of];
  destruct (x <? length (d_slots d)) eqn:Hx; destruct (y <? length vs) eqn:Hy;
  (* the window test of the cell: the same boolean wherever it is asked (stores keep the local part and the number of cells) *)
  match goal with |- context[?c <? l_cached (d_l d)] => destruct (c <? l_cached (d_l d)) eqn:Hw end;
  cbn [andb d_l d_slots d_pubs d_evs d_nid d_out]; try reflexivity;
  repeat (progress (rewrite ?upd_length, ?Hx, ?Hy, ?Hw; cbn [andb d_l d_slots d_pubs d_evs d_nid d_out])); try reflexivity;
  destruct (isz (nth x (d_slots d) 0%N)) eqn:Z; cbn [negb andb d_l d_slots d_pubs d_evs d_nid d_out];
  unfold store_ev; rewrite ?Z;
  repeat (progress (rewrite ?upd_length, ?Hx, ?Hy, ?Hw, ?Z; cbn [negb andb d_l d_slots d_pubs d_evs d_nid d_out]));
  try reflexivity.

Theorem tie_push_slice : owned s = false ->
  exists r d, drun (d_push_slice E (src_sl E)) (view P s out) = Some (r, d) /\ push_slice_res s vs out SCopy false r d.
Proof.
  intros Hpl. unfold d_push_slice. via_generic SCopy false.
  apply spec_copy; [exact Hpl | intros; reflexivity].
Qed.

Theorem tie_push_slice_clone :
  exists r d, drun (d_push_slice_clone E (src_sl E)) (view P s out) = Some (r, d) /\ push_slice_res s vs out SAssign true r d.
Proof.
  unfold d_push_slice_clone. via_generic SAssign true.
  apply spec_clone; intros; reflexivity.
Qed.

Theorem tie_push_slice_clone_init :
  exists r d, drun (d_push_slice_clone_init E (src_sl E)) (view P s out) = Some (r, d) /\ push_slice_res s vs out SInit true r d.
Proof.
  unfold d_push_slice_clone_init. via_generic SInit true.
  eapply spec_zip; [intros; reflexivity|]. body_tac.
Qed.

Theorem tie_push_slice_init : owned s = false ->
  exists r d, drun (d_push_slice_init E (src_sl E)) (view P s out) = Some (r, d) /\ push_slice_res s vs out SCopy false r d.
Proof.
  intros Hpl. unfold d_push_slice_init. via_generic SCopy false.
  eapply spec_zip; [intros; reflexivity|].
  body_tac; rewrite Hpl; cbn [d_evs]; rewrite ?app_nil_r; reflexivity.
Qed.
End PushSliceTies.

(** ** [_extract_slice] *)
Lemma upd_mid (pre : list N) x y rest : upd (length pre) x (pre ++ y :: rest) = pre ++ x :: rest.
Proof. induction pre; simpl; auto. f_equal. auto. Qed.

Lemma write_mid (a : list N) : forall pre l post, length l = length a -> write (pre ++ l ++ post) (length pre) a = pre ++ a ++ post.
Proof.
  induction a as [|x a IH]; intros pre [|y l] post H; simpl in *; try lia; auto.
  rewrite upd_mid.
  replace (pre ++ x :: l ++ post) with ((pre ++ [x]) ++ l ++ post) by (rewrite <- app_assoc; reflexivity).
  replace (S (length pre)) with (length (pre ++ [x])) by (rewrite app_length; simpl; lia).
  rewrite IH by lia. rewrite <- app_assoc. reflexivity.
Qed.

Lemma write_over (pre l a : list N) : length l = length a -> write (pre ++ l) (length pre) a = pre ++ a.
Proof. intros H. pose proof (write_mid a pre l [] H) as W. rewrite !app_nil_r in W. exact W. Qed.

Lemma write_two (outl a b : list N) : length outl = length a + length b ->
  write (write outl 0 a) (length a) b = a ++ b.
Proof.
  intros H.
  assert (Hs : outl = firstn (length a) outl ++ skipn (length a) outl) by (symmetry; apply firstn_skipn).
  assert (L1 : length (firstn (length a) outl) = length a) by (rewrite firstn_length; lia).
  assert (L2 : length (skipn (length a) outl) = length b) by (rewrite skipn_length; lia).
  rewrite Hs at 1.
  pose proof (write_mid a [] (firstn (length a) outl) (skipn (length a) outl) L1) as W1. cbn [app length] in W1.
  rewrite W1. apply write_over. exact L2.
Qed.

Definition xrun_effect (E : denv) (o oo c : nat) (d : dst) : dst :=
  mkD (d_l d) (d_slots d) (d_pubs d)
      (d_evs d ++ (if dn_owned E then clone_evs (sub (d_slots d) o c) (ids (d_nid d) c) else []))
      (cloned_nid E (d_nid d) c)
      (write (d_out d) oo (cloned_vals E (d_nid d) (sub (d_slots d) o c))).

Definition extract_spec (E : denv) (f : sl -> sl -> DM unit) : Prop :=
  forall o oo c d, o + c <= length (d_slots d) -> oo + c <= length (d_out d) -> win_range d o c ->
    f (mkSl RBuf o c) (mkSl RDst oo c) d = Some (tt, xrun_effect E o oo c d).

Section ExtractSlice.
Variables (s : mstate) (src out : list cell).
Hypothesis Hwf : wf C s.
Hypothesis Hatt : det (it_of C s) = false.
Local Notation E := (denv_of C s src).
Local Notation n := (length out).

Definition extract_slice_res (cl : bool) (r : option unit) (d : dst) : Prop :=
  let '(s', (o, evs)) := extract_slice cl n s in
  agrees C s' (match r with Some _ => [tC (pub s')] | None => [] end) evs d /\
  match r, o with Some _, ODst news => d_out d = news | None, ONone => d_out d = out | _, _ => False end.

Theorem extract_slice_generic (cl : bool) (f : sl -> sl -> DM unit) :
  extract_spec E f -> (cl = false -> owned s = false) ->
  exists r d, drun (d__extract_slice E (mkSl RDst 0 n) f) (view C s out) = Some (r, d) /\ extract_slice_res cl r d.
Proof.
  intros Hf Hcl. unfold d__extract_slice, d_advance. cbn [s_len].
  destruct (tie_next_chunk_mut C s src out n Hwf) as (r0 & d0 & R0 & G0). unfold drun in *.
  unfold dbind at 1. rewrite R0. clear R0.
  unfold grant_res, grant in G0. unfold extract_slice_res, extract_slice.
  pose proof (wf_check C n s Hwf) as Hwf1. pose proof (env_check C n s) as He. pose proof (granted_le_len C n s Hwf) as Hn.
  pose proof (ix_check C s Hwf n) as Hi.
  destruct (check C n s) as [g s1] eqn:Ck. cbn [fst snd] in *.
  destruct (check_keeps_all C n s) as (A & B & Pb & Nd & Ow & Ix & Sc & Dt). rewrite Ck in *. cbn [snd] in *.
  destruct g.
  2:{ unfold Seq.ret in G0. destruct G0 as (Ag & Ho & Hr). destruct r0 as [[a b]|]; [contradiction|].
      rewrite (agrees_is_view _ _ _ _ Ag Ho). unfold dbind, dret.
      eexists _, _. split; [reflexivity|]. unfold Seq.ret. split; [constructor; cbn; auto | reflexivity]. }
  specialize (Hn eq_refl). pose proof (check_grants _ _ _ _ Ck) as Hg.
  unfold Seq.rd in *. destruct (chunk (mlen s1) (ix (it_of C s1)) n) as [h t] eqn:Ch. unfold Seq.ret in G0.
  destruct G0 as (Ag & Ho & Hr). destruct r0 as [[a b]|]; [|contradiction].
  rewrite B in Ch. rewrite Ch in Hr. cbn [fst snd] in Hr. destruct Hr as (Ha & Hb & _ & _ & Hba & Hbb & Hsum). subst a b.
  cbn [s_off s_len] in *.
  rewrite (agrees_is_view _ _ _ _ Ag Ho). clear Ag Ho d0.
  set (olds := sub (slots s1) (ix (it_of C s1)) h ++ sub (slots s1) 0 t).
  assert (Hol : length olds = n) by (unfold olds; rewrite app_length, !sub_length by (rewrite ?A; lia); lia).
  unfold clones. rewrite Ow.
  assert (Hnews : (if cl then (if owned s then (ids (nid s1) (length olds), set_nid (nid s1 + N.of_nat (length olds)) s1) else (olds, s1)) else (olds, s1)) =
                  (cloned_vals E (nid s) olds, if owned s then set_nid (nid s + N.of_nat n) s1 else s1)).
  { unfold cloned_vals. cbn [dn_owned denv_of]. rewrite Nd, Hol. destruct cl; [destruct (owned s); reflexivity|]. rewrite (Hcl eq_refl). reflexivity. }
  rewrite Hnews. clear Hnews.
  set (news := cloned_vals E (nid s) olds). set (s2 := if owned s then set_nid (nid s + N.of_nat n) s1 else s1).
  assert (D2 : det (it_of C s2) = false).
  { unfold s2, set_nid, it_of in *. destruct (owned s); cbn [its]; congruence. }
  destruct (advance_attached C n s2 D2) as (L & Pu & Sl & Ni & Ml & Oa).
  assert (Hs2 : slots s2 = slots s /\ mlen s2 = mlen s /\ nid s2 = cloned_nid E (nid s) n /\ owned s2 = owned s /\
                ix (it_of C s2) = ix (it_of C s1) /\ ca (it_of C s2) = ca (it_of C s1)).
  { unfold s2, cloned_nid. cbn [dn_owned denv_of]. destruct (owned s) eqn:Own; cbn; repeat split; congruence. }
  destruct Hs2 as (S2a & S2b & S2c & S2d & S2e & S2f).
  unfold view, dbind, dret.
  destruct (h =? n) eqn:Hh; [apply Nat.eqb_eq in Hh | apply Nat.eqb_neq in Hh].
  - assert (t = 0) by lia. subst t. subst h.
    rewrite (Hf (ix (it_of C s1)) 0 n) by (first [cbn [d_slots d_out]; rewrite ?A; lia | apply win_head; exact Hg]).
    cbv iota beta. unfold xrun_effect. cbn [d_l d_slots d_pubs d_evs d_nid d_out dn_E denv_of]. rewrite ?A, ?Nd.
    rewrite (lift_advance C n s s1) by (first [exact Hwf1 | lia | symmetry; exact He]).
    cbv iota beta.
    eexists _, _. split; [reflexivity|]. unfold rete. cbn [fst snd].
    assert (Holds : olds = sub (slots s) (ix (it_of C s1)) n) by (unfold olds; rewrite A; cbn [sub firstn]; rewrite app_nil_r; reflexivity).
    split; [constructor; cbn [d_l d_slots d_pubs d_evs d_nid] | cbn [d_out]].
    + rewrite L, S2e, S2f, S2b, B. reflexivity.
    + rewrite Sl, S2a. reflexivity.
    + cbn [tget] in Pu. rewrite Pu, S2e, S2b, B. reflexivity.
    + unfold ev. rewrite Oa, S2d. cbn [dn_owned denv_of]. destruct (owned s) eqn:Own; [|constructor].
      cbn [app]. assert (cl = true) by (destruct cl; auto; specialize (Hcl eq_refl); congruence). subst cl.
      unfold news, cloned_vals. cbn [dn_owned denv_of]. rewrite Own, Hol, <- Holds. apply Permutation_refl.
    + rewrite Ni, S2c. reflexivity.
    + unfold news. rewrite Holds.
      apply (write_over [] out).
      unfold cloned_vals. destruct (dn_owned E); rewrite ?ids_length, ?sub_length by lia; try rewrite sub_length by lia; reflexivity.
  - assert (Hh' : h <= n) by lia.
    unfold sl_prefix, sl_suffix. cbn [s_len s_reg s_off]. rewrite (leb_true h n Hh'). unfold dret.
    assert (Hhl : h = mlen s - ix (it_of C s1) /\ t <= ix (it_of C s1)).
    { unfold chunk in Ch. destruct Hwf1 as [W1 _ _ _ _]. rewrite B in W1. revert Ch. cases; intros Ch; inversion Ch; subst; unfold it_of in *; cbn [tget] in *; lia. }
    assert (Hsl : length (slots s) = mlen s) by (destruct Hwf as [_ _ W3 _ _]; exact W3).
    rewrite (Hf (ix (it_of C s1)) 0 h) by (first [cbn [d_slots d_out]; rewrite ?A; lia | apply win_head; lia]).
    cbv iota beta. replace (n - h) with t by lia. cbn [Nat.add].
    rewrite (Hf 0 h t) by (first [ unfold xrun_effect; cbn [d_slots d_out]; rewrite ?write_length, ?A; lia
                                 | unfold xrun_effect; cbn [d_l d_slots]; apply win_tail; rewrite ?A; destruct Hwf1 as [W1 _ _ _ _]; lia ]).
    cbv iota beta. unfold xrun_effect. cbn [d_l d_slots d_pubs d_evs d_nid d_out dn_E denv_of]. rewrite ?A, ?Nd.
    rewrite (lift_advance C n s s1) by (first [exact Hwf1 | lia | symmetry; exact He]).
    cbv iota beta.
    eexists _, _. split; [reflexivity|]. unfold rete. cbn [fst snd].
    assert (Holds : olds = sub (slots s) (ix (it_of C s1)) h ++ sub (slots s) 0 t) by (unfold olds; rewrite A; reflexivity).
    assert (Hn2 : n = h + t) by lia.
    split; [constructor; cbn [d_l d_slots d_pubs d_evs d_nid] | cbn [d_out]].
    + rewrite L, S2e, S2f, S2b, B. reflexivity.
    + rewrite Sl, S2a. reflexivity.
    + cbn [tget] in Pu. rewrite Pu, S2e, S2b, B. reflexivity.
    + unfold ev. rewrite Oa, S2d. cbn [dn_owned denv_of]. destruct (owned s) eqn:Own; [|constructor].
      cbn [app]. assert (cl = true) by (destruct cl; auto; specialize (Hcl eq_refl); congruence). subst cl.
      unfold news, cloned_vals, cloned_nid. cbn [dn_owned denv_of]. rewrite Own, Hol, Holds, Hn2.
      rewrite ids_app, clone_evs_app by (rewrite ids_length, sub_length; auto; lia).
      rewrite ?app_nil_l; apply Permutation_refl.
    + rewrite Ni, S2c. unfold cloned_nid. cbn [dn_owned denv_of]. destruct (owned s); [|reflexivity]. lia.
    + unfold news. rewrite Holds.
      assert (Hc : cloned_vals E (nid s) (sub (slots s) (ix (it_of C s1)) h ++ sub (slots s) 0 t) =
                   cloned_vals E (nid s) (sub (slots s) (ix (it_of C s1)) h) ++ cloned_vals E (cloned_nid E (nid s) h) (sub (slots s) 0 t)).
      { unfold cloned_vals, cloned_nid. destruct (dn_owned E); [|reflexivity].
        rewrite app_length, ids_app. rewrite !sub_length by lia. reflexivity. }
      rewrite Hc.
      assert (Hl1 : length (cloned_vals E (nid s) (sub (slots s) (ix (it_of C s1)) h)) = h)
        by (unfold cloned_vals; destruct (dn_owned E); rewrite ?ids_length, ?sub_length by lia; try rewrite sub_length by lia; reflexivity).
      assert (Hl2 : length (cloned_vals E (cloned_nid E (nid s) h) (sub (slots s) 0 t)) = t)
        by (unfold cloned_vals; destruct (dn_owned E); rewrite ?ids_length, ?sub_length by lia; try rewrite sub_length by lia; reflexivity).
      match goal with |- write (write out 0 ?X) h ?Y = _ =>
        pose proof (write_two out X Y ltac:(rewrite Hl1, Hl2; lia)) as W; rewrite Hl1 in W; exact W end.
Qed.
End ExtractSlice.

Section ExtractClosures.
Variable E : denv.

Lemma xspec_copy (f : sl -> sl -> DM unit) : dn_owned E = false ->
  (forall a b d, f a b d = (v <~ copy_from_slice_unchecked E a b ;; dret tt) d) -> extract_spec E f.
Proof.
  intros Hpl Hf o oo c d H1 H2 HW. rewrite Hf. rewrite pass_on_unit. unfold copy_from_slice_unchecked. cbn [s_len].
  rewrite Nat.leb_refl.
  change (fun j : nat => v <~ rd E (sl_at (mkSl RBuf o c) j);; st (sl_at (mkSl RDst oo c) j) v) with (copy_body E (mkSl RBuf o c) (mkSl RDst oo c)).
  rewrite copy_loop_buf_out by (first [lia | rewrite Nat.add_0_r; exact HW]). unfold xrun_effect, cloned_vals, cloned_nid, set_out_d. rewrite Hpl, app_nil_r, !Nat.add_0_r. reflexivity.
Qed.

Lemma xspec_clone (f : sl -> sl -> DM unit) :
  (forall a b d, f a b d = (v <~ clone_from_slice E b a ;; dret tt) d) -> extract_spec E f.
Proof.
  intros Hf o oo c d H1 H2 HW. rewrite Hf. rewrite pass_on_unit. unfold clone_from_slice. cbn [s_len].
  rewrite Nat.eqb_refl.
  change (fun j : nat => v <~ rd E (sl_at (mkSl RBuf o c) j);; c0 <~ clone_ E v;; assign E (sl_at (mkSl RDst oo c) j) c0)
    with (clone_body E SAssign (mkSl RBuf o c) (mkSl RDst oo c)).
  rewrite clone_loop_buf_out by (first [lia | rewrite Nat.add_0_r; exact HW]). unfold xrun_effect. rewrite !Nat.add_0_r. reflexivity.
Qed.
End ExtractClosures.

Section ExtractSliceTies.
Variables (s : mstate) (src out : list cell).
Hypothesis Hwf : wf C s.
Hypothesis Hatt : det (it_of C s) = false.
Local Notation E := (denv_of C s src).

Theorem tie_copy_slice : owned s = false ->
  exists r d, drun (d_copy_slice E (mkSl RDst 0 (length out))) (view C s out) = Some (r, d) /\ extract_slice_res s out false r d.
Proof.
  intros Hpl. unfold d_copy_slice, drun. cbv zeta. rewrite pass_on.
  match goal with |- context[d__extract_slice _ _ ?f] =>
    apply (extract_slice_generic s src out Hwf Hatt false f); [|intros _; exact Hpl] end.
  apply xspec_copy; [exact Hpl | intros; reflexivity].
Qed.

Theorem tie_clone_slice :
  exists r d, drun (d_clone_slice E (mkSl RDst 0 (length out))) (view C s out) = Some (r, d) /\ extract_slice_res s out true r d.
Proof.
  unfold d_clone_slice, drun. cbv zeta. rewrite pass_on.
  match goal with |- context[d__extract_slice _ _ ?f] =>
    apply (extract_slice_generic s src out Hwf Hatt true f); [|congruence] end.
  apply xspec_clone; intros; reflexivity.
Qed.
End ExtractSliceTies.

Theorem data_closed : DataFns.data_clean = true.
Proof. reflexivity. Qed.
