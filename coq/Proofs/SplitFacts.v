(** * A split function that passes [split_ok] does to the buffer exactly what the Model's [do_split] (the function the refinement
      theorems and C18 are about) does. *)
From Coq Require Import List String Bool Arith.
Import ListNotations.
Require Import MRB.Model.Types MRB.Model.Seq MRB.Model.Splits.

Theorem split_ok_is_do_split f s : split_ok f = true ->
  (sp_borrow f = false -> sp_heap_only f = true -> pub s = mkTri 0 0 0) ->      (* a heap buffer has no [&mut self] split: its by-value split consumes a buffer that has never been split, indices still 0 *)
  apply_split f s = do_split (sp_worker f) s.
Proof.
  intros H Hfresh. unfold split_ok in H.
  repeat match type of H with _ && _ = true => apply andb_prop in H; destruct H as [H ?H] end.
  repeat match goal with E : Bool.eqb _ _ = true |- _ => apply Bool.eqb_prop in E end.
  unfold apply_split, do_split, sp_worker.
  destruct f as [nm br [rp rw rc] [ap aw ac] [ip iw ic] ho]. cbn [sp_name sp_borrow sp_reset sp_alive sp_iters sp_heap_only tP tW tC] in *. subst.
  assert (Hpub : mkTri (if rp then 0 else tP (pub s)) (if rw then 0 else tW (pub s)) (if rc then 0 else tC (pub s)) = mkTri 0 0 0).
  { destruct br, ho; cbn [negb orb andb] in *;
      try (repeat match goal with E : _ && _ = true |- _ => apply andb_prop in E; destruct E as [E ?E] end; subst; reflexivity).
    rewrite (Hfresh eq_refl eq_refl). destruct rp, rw, rc; reflexivity. }
  rewrite Hpub. destruct iw; cbn [orb]; reflexivity.
Qed.

Theorem all_ok_are_do_split fs : forallb split_ok fs = true ->
  forall f, In f fs -> forall s, (sp_borrow f = false -> sp_heap_only f = true -> pub s = mkTri 0 0 0) -> apply_split f s = do_split (sp_worker f) s.
Proof. intros H f Hin s Hf. apply split_ok_is_do_split; auto. rewrite forallb_forall in H. auto. Qed.

(** non-vacuity: the pre-fix async split of a borrowed stack buffer (alive bits only, no index reset) fails the condition, and on a
    buffer whose first session moved the indices it does NOT produce the state of [do_split] *)
Example stale_resplit_rejected :
  split_ok (mkSplit "pre-fix split_async(&mut self)" true (mkTri false false false) (mkTri true false true) (mkTri true false true) false) = false.
Proof. reflexivity. Qed.
(** F11: the pre-fix by-value async split of the concurrent buffer, generic over the storage (so also offered by stack buffers) *)
Example stale_by_value_resplit_rejected :
  split_ok (mkSplit "pre-fix split_async(self), any storage" false (mkTri false false false) (mkTri true false true) (mkTri true false true) false) = false.
Proof. reflexivity. Qed.
