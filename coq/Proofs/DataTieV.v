(** * D-tie for the bodies compiled with feature [vmem] (gen/DataFnsV.v): [next_chunk(_mut)] hand out ONE slice of the double mapping,
      [_push_slice] / [_extract_slice] run their closure once over it.  A slice of the double mapping starting below [len] and at most
      [len] long is, cell by cell, the ring window of the Model: an element loop over it is the loop over the head run (up to the
      physical end) followed by the loop over the tail run (from slot 0) - so everything proved for the two-slice bodies carries over. *)
From Coq Require Import List Arith NArith Bool Lia Permutation.
Import ListNotations.
Require Import MRB.Base.Ring MRB.Base.ListAux MRB.Model.Types MRB.Model.Seq MRB.Model.KernelM MRB.Model.DataM.
Require Import MRB.gen.Kernels MRB.Proofs.KernelTie MRB.Proofs.DataTie MRB.Proofs.DataTieSlices.
Require MRB.gen.DataFnsV.

Opaque usize_max.

(** ** loops *)
Lemma for_n_split a : forall b j (body : nat -> DM unit) d,
  for_n (a + b) j body d = (for_n a j body ;;~ for_n b (j + a) body) d.
Proof.
  induction a as [|a IH]; intros b j body d.
  - cbn [Nat.add for_n]. unfold dbind, dret. rewrite Nat.add_0_r. reflexivity.
  - cbn [Nat.add for_n]. unfold dbind. destruct (body j d) as [[[] d1]|]; [|reflexivity].
    rewrite IH. unfold dbind. replace (S j + a) with (j + S a) by lia. reflexivity.
Qed.

Lemma for_n_shift n : forall j (body : nat -> DM unit) d, for_n n j body d = for_n n 0 (fun i => body (j + i)) d.
Proof.
  induction n as [|n IH]; intros j body d; [reflexivity|].
  cbn [for_n]. unfold dbind. rewrite Nat.add_0_r. destruct (body j d) as [[[] d1]|]; [|reflexivity].
  rewrite IH. rewrite (IH 1). apply for_n_ext. intros i d'. f_equal. lia.
Qed.

Lemma for_n_ext_range n : forall j (f g : nat -> DM unit), (forall j' d, j <= j' < j + n -> f j' d = g j' d) ->
  forall d, for_n n j f d = for_n n j g d.
Proof.
  induction n as [|n IH]; intros j f g H d; [reflexivity|].
  cbn [for_n]. unfold dbind. rewrite H by lia. destruct (g j d) as [[[] d1]|]; [|reflexivity].
  apply IH. intros j' d' Hj. apply H. lia.
Qed.

(** positions of a slice of the double mapping *)
Lemma mirror_head len o j : 0 < len -> o + j < len -> (o + j) mod len = o + j.
Proof. intros. apply Nat.mod_small. lia. Qed.
Lemma mirror_tail len o j : 0 < len -> len <= o + j -> o + j < len + len -> (o + j) mod len = o + j - len.
Proof.
  intros Hl H1 H2. set (r := o + j - len). replace (o + j) with (r + 1 * len) by (unfold r; lia).
  rewrite Nat.mod_add by lia. apply Nat.mod_small. unfold r. lia.
Qed.

Lemma chunk_cases len o n : o < len -> n <= len ->
  let '(h, t) := chunk len o n in
  h + t = n /\ o + h <= len /\ t <= o /\ (forall j, j < h -> o + j < len) /\ (forall i, i < t -> len <= o + h + i /\ o + h + i < len + len /\ o + h + i - len = i).
Proof. intros Ho Hn. unfold chunk. destruct (len <=? o + n) eqn:E; [apply Nat.leb_le in E | apply Nat.leb_gt in E]; repeat split; intros; lia. Qed.

Section Mirror.
Variable E : denv.
Local Notation srcl := (dn_src E).

(** in plain mode a bitwise copy is the clone-and-store loop *)
Lemma copy_is_clone_plain m src dst_ j d : dn_owned E = false ->
  match copy_body E src dst_ j d, clone_body E m src dst_ j d with
  | Some (_, d1), Some (_, d2) => d1 = d2
  | None, None => True
  | _, _ => False
  end.
Proof.
  intros Hpl. unfold copy_body, clone_body, store_mode, clone_, emit, dbind, dret, rd, st, is_buf, in_window. rewrite Hpl.
  destruct (sl_at src j) as [a|a|a], (sl_at dst_ j) as [b|b|b]; cbn [d_l d_slots d_pubs d_evs d_nid d_out];
  repeat match goal with |- context[if ?c then _ else _] => destruct c eqn:? end; cbn [d_l d_slots d_pubs d_evs d_nid d_out];
  cbn [d_l d_slots d_pubs d_evs d_nid d_out] in *;
  try exact I; try congruence; rewrite ?app_nil_r; unfold set_slots_d, set_out_d; destruct d; cbn in *; rewrite ?app_nil_r; try reflexivity; try congruence;
  repeat match goal with H : context[if ?c then _ else _] |- _ => destruct c eqn:? end; try discriminate; try congruence.
Qed.

Lemma copy_loop_is_clone_loop m src dst_ n : dn_owned E = false -> forall j d,
  for_n n j (copy_body E src dst_) d = for_n n j (clone_body E m src dst_) d.
Proof.
  intros Hpl j0 d0. apply for_n_ext. intros j d. pose proof (copy_is_clone_plain m src dst_ j d Hpl) as H.
  destruct (copy_body E src dst_ j d) as [[[] d1]|], (clone_body E m src dst_ j d) as [[[] d2]|]; try contradiction; [subst; reflexivity | reflexivity].
Qed.

(** caller's slice -> a slice of the double mapping: head run, then tail run *)
Lemma clone_loop_src_mirror m so o n N1 N2 d :
  let len := length (d_slots d) in
  o < len -> n <= len -> so + n <= length srcl ->
  (let '(h, t) := chunk len o n in win_range d o h /\ win_range d 0 t) ->
  for_n n 0 (clone_body E m (mkSl RSrc so N1) (mkSl (RBufV len) o N2)) d =
  Some (tt, let '(h, t) := chunk len o n in run_effect E m 0 (so + h) t (run_effect E m o so h d)).
Proof.
  intros len Ho Hn Hs HW. pose proof (chunk_cases len o n Ho Hn) as Hc. destruct (chunk len o n) as [h t].
  destruct HW as [HWh HWt].
  destruct Hc as (Hsum & Hoh & Hto & Hhead & Htail).
  rewrite <- Hsum. rewrite for_n_split. unfold dbind at 1.
  rewrite (for_n_ext_range h 0 _ (clone_body E m (mkSl RSrc so N1) (mkSl RBuf o N2))).
  2:{ intros j' d' Hj. unfold clone_body, sl_at. cbn [s_reg s_off]. rewrite mirror_head by (try apply Hhead; lia). reflexivity. }
  rewrite clone_loop_src_buf by (first [fold len; lia | rewrite Nat.add_0_r; exact HWh]). rewrite !Nat.add_0_r.
  fold (run_effect E m o so h d). cbn [Nat.add].
  rewrite for_n_shift.
  rewrite (for_n_ext_range t 0 _ (clone_body E m (mkSl RSrc (so + h) N1) (mkSl RBuf 0 N2))).
  2:{ intros i d' Hi. unfold clone_body, sl_at. cbn [s_reg s_off Nat.add].
      destruct (Htail i ltac:(lia)) as (T1 & T2 & T3).
      replace (o + (h + i)) with (o + h + i) by lia. rewrite mirror_tail by lia. rewrite T3.
      replace (so + (h + i)) with (so + h + i) by lia. reflexivity. }
  rewrite clone_loop_src_buf by (first [ unfold run_effect; cbn [d_slots]; rewrite ?write_length; fold len; lia
                                       | cbn [Nat.add]; apply (win_range_same d); [reflexivity | unfold run_effect; cbn [d_slots]; apply write_length | exact HWt] ]).
  rewrite !Nat.add_0_r. reflexivity.
Qed.

(** a slice of the double mapping -> the caller's destination *)
Lemma clone_loop_mirror_out m o oo n N1 N2 d :
  let len := length (d_slots d) in
  o < len -> n <= len -> oo + n <= length (d_out d) ->
  (let '(h, t) := chunk len o n in win_range d o h /\ win_range d 0 t) ->
  for_n n 0 (clone_body E m (mkSl (RBufV len) o N1) (mkSl RDst oo N2)) d =
  Some (tt, let '(h, t) := chunk len o n in xrun_effect E 0 (oo + h) t (xrun_effect E o oo h d)).
Proof.
  intros len Ho Hn Hs HW. pose proof (chunk_cases len o n Ho Hn) as Hc. destruct (chunk len o n) as [h t].
  destruct HW as [HWh HWt].
  destruct Hc as (Hsum & Hoh & Hto & Hhead & Htail).
  rewrite <- Hsum. rewrite for_n_split. unfold dbind at 1.
  rewrite (for_n_ext_range h 0 _ (clone_body E m (mkSl RBuf o N1) (mkSl RDst oo N2))).
  2:{ intros j' d' Hj. unfold clone_body, sl_at. cbn [s_reg s_off]. rewrite mirror_head by (try apply Hhead; lia). reflexivity. }
  rewrite clone_loop_buf_out by (first [fold len; lia | rewrite Nat.add_0_r; exact HWh]). rewrite !Nat.add_0_r.
  fold (xrun_effect E o oo h d). cbn [Nat.add].
  rewrite for_n_shift.
  rewrite (for_n_ext_range t 0 _ (clone_body E m (mkSl RBuf 0 N1) (mkSl RDst (oo + h) N2))).
  2:{ intros i d' Hi. unfold clone_body, sl_at. cbn [s_reg s_off Nat.add].
      destruct (Htail i ltac:(lia)) as (T1 & T2 & T3).
      replace (o + (h + i)) with (o + h + i) by lia. rewrite mirror_tail by lia. rewrite T3.
      replace (oo + (h + i)) with (oo + h + i) by lia. reflexivity. }
  rewrite clone_loop_buf_out by (first [ unfold xrun_effect; cbn [d_slots d_out]; rewrite ?write_length; fold len; lia
                                       | cbn [Nat.add]; apply (win_range_same d); [reflexivity | reflexivity | exact HWt] ]).
  rewrite !Nat.add_0_r. reflexivity.
Qed.
End Mirror.

Lemma raw_parts_v_ok o n l sl pubs evs nid out : o + n <= 2 * length sl ->
  raw_parts_v (LBuf o) n (mkD l sl pubs evs nid out) = Some (mkSl (RBufV (length sl)) o n, mkD l sl pubs evs nid out).
Proof. intros H. unfold raw_parts_v. cbn [d_slots]. rewrite (leb_true _ _ H). reflexivity. Qed.

(** ** [next_chunk] / [next_chunk_mut] of the vmem build: one slice of the double mapping, [count] cells from the local index *)
Section ChunkV.
Variables (k : stage) (s : mstate) (src out : list cell) (n : nat).
Hypothesis Hwf : wf k s.
Local Notation E := (denv_of k s src).

Definition grantv_res (r : option sl) (d : dst) : Prop :=
  let '(s', (o, _)) := grant k n s in
  agrees k s' [] [] d /\ d_out d = out /\
  match r, o with
  | Some a, OSlices i h t => a = mkSl (RBufV (mlen s)) i n /\ n <= mlen s /\ i < mlen s /\ i = ix (it_of k s')
  | None, ONone => True
  | _, _ => False
  end.

Ltac chunkv :=
  unfold view, grantv_res, grant; dm; cbn [denv_of dn_E dn_avail dn_owned dn_src];
  rewrite lift_check by exact Hwf; pose proof (ix_check k s Hwf n) as Hi;
  pose proof (granted_le_len k n s Hwf) as Hn;
  destruct (check k n s) as [g s1] eqn:Ck; cbn [fst snd] in *;
  destruct (check_keeps_all k n s) as (A & B & Pb & Nd & Ow & Ix & Sc & Dt); rewrite Ck in *; cbn [snd] in *;
  destruct Hwf as [W1 W2 W3 W4 W5];
  destruct g; dm;
  [ specialize (Hn eq_refl); rewrite lift_get_index; dm; cbn [local_of l_index]; rewrite ptr_add_ok by lia; dm;
    rewrite raw_parts_v_ok by lia; dm;
    unfold Seq.rd; destruct (chunk (mlen s1) (ix (it_of k s1)) n);
    eexists _, _; split; [reflexivity|]; unfold Seq.ret; split; [|split]; [constructor; cbn; auto | reflexivity | ];
    cbn [Nat.add]; rewrite W3; repeat split; auto; lia
  | eexists _, _; split; [reflexivity|]; unfold Seq.ret; split; [|split]; [constructor; cbn; auto | reflexivity | exact I] ].

Theorem tie_next_chunk_mut_v : exists r d, drun (DataFnsV.d_next_chunk_mut E n) (view k s out) = Some (r, d) /\ grantv_res r d.
Proof. unfold DataFnsV.d_next_chunk_mut. chunkv. Qed.

Theorem tie_next_chunk_v : exists r d, drun (DataFnsV.d_next_chunk E n) (view k s out) = Some (r, d) /\ grantv_res r d.
Proof. unfold DataFnsV.d_next_chunk. chunkv. Qed.
End ChunkV.

(** ** the closures over a slice of the double mapping *)
Definition store_spec_v (E : denv) (m : smode) (f : sl -> sl -> DM unit) : Prop :=
  forall o so c d, let len := length (d_slots d) in
    o < len -> c <= len -> so + c <= length (dn_src E) ->
    (let '(h, t) := chunk len o c in win_range d o h /\ win_range d 0 t) ->
    f (mkSl (RBufV len) o c) (mkSl RSrc so c) d =
    Some (tt, let '(h, t) := chunk len o c in run_effect E m 0 (so + h) t (run_effect E m o so h d)).

Definition extract_spec_v (E : denv) (f : sl -> sl -> DM unit) : Prop :=
  forall o oo c d, let len := length (d_slots d) in
    o < len -> c <= len -> oo + c <= length (d_out d) ->
    (let '(h, t) := chunk len o c in win_range d o h /\ win_range d 0 t) ->
    f (mkSl (RBufV len) o c) (mkSl RDst oo c) d =
    Some (tt, let '(h, t) := chunk len o c in xrun_effect E 0 (oo + h) t (xrun_effect E o oo h d)).

Section ClosuresV.
Variable E : denv.

Lemma spec_copy_v m (f : sl -> sl -> DM unit) : dn_owned E = false ->
  (forall a b d, f a b d = (v <~ copy_from_slice_unchecked E b a ;; dret tt) d) -> store_spec_v E m f.
Proof.
  intros Hpl Hf o so c d len H1 H2 H3 HW. rewrite Hf. rewrite pass_on_unit. unfold copy_from_slice_unchecked. cbn [s_len].
  rewrite Nat.leb_refl.
  change (fun j : nat => v <~ rd E (sl_at (mkSl RSrc so c) j);; st (sl_at (mkSl (RBufV len) o c) j) v) with (copy_body E (mkSl RSrc so c) (mkSl (RBufV len) o c)).
  rewrite (copy_loop_is_clone_loop E m) by exact Hpl. apply clone_loop_src_mirror; assumption.
Qed.

Lemma spec_clone_v (f : sl -> sl -> DM unit) :
  (forall a b d, f a b d = (v <~ clone_from_slice E a b ;; dret tt) d) -> store_spec_v E SAssign f.
Proof.
  intros Hf o so c d len H1 H2 H3 HW. rewrite Hf. rewrite pass_on_unit. unfold clone_from_slice. cbn [s_len].
  rewrite Nat.eqb_refl.
  change (fun j : nat => v <~ rd E (sl_at (mkSl RSrc so c) j);; c0 <~ clone_ E v;; assign E (sl_at (mkSl (RBufV len) o c) j) c0)
    with (clone_body E SAssign (mkSl RSrc so c) (mkSl (RBufV len) o c)).
  apply clone_loop_src_mirror; assumption.
Qed.

Lemma spec_zip_v m (f : sl -> sl -> DM unit) (body : loc -> loc -> DM unit) :
  (forall a b d, f a b d = (for_zip a b body ;;~ dret tt) d) ->
  (forall x y d, body (LBuf x) (LSrc y) d = (v <~ rd E (LSrc y) ;; c <~ clone_ E v ;; store_mode E m (LBuf x) c) d) ->
  store_spec_v E m f.
Proof.
  intros Hf Hb o so c d len H1 H2 H3. rewrite Hf. rewrite seq_unit. unfold for_zip. cbn [s_len]. rewrite Nat.min_id.
  rewrite (for_n_ext c 0 _ (clone_body E m (mkSl RSrc so c) (mkSl (RBufV len) o c))).
  - apply clone_loop_src_mirror; assumption.
  - intros j' d'. unfold sl_at. cbn [s_reg s_off]. rewrite Hb. reflexivity.
Qed.

Lemma xspec_copy_v (f : sl -> sl -> DM unit) : dn_owned E = false ->
  (forall a b d, f a b d = (v <~ copy_from_slice_unchecked E a b ;; dret tt) d) -> extract_spec_v E f.
Proof.
  intros Hpl Hf o oo c d len H1 H2 H3. rewrite Hf. rewrite pass_on_unit. unfold copy_from_slice_unchecked. cbn [s_len].
  rewrite Nat.leb_refl.
  change (fun j : nat => v <~ rd E (sl_at (mkSl (RBufV len) o c) j);; st (sl_at (mkSl RDst oo c) j) v) with (copy_body E (mkSl (RBufV len) o c) (mkSl RDst oo c)).
  rewrite (copy_loop_is_clone_loop E SAssign) by exact Hpl. apply clone_loop_mirror_out; assumption.
Qed.

Lemma xspec_clone_v (f : sl -> sl -> DM unit) :
  (forall a b d, f a b d = (v <~ clone_from_slice E b a ;; dret tt) d) -> extract_spec_v E f.
Proof.
  intros Hf o oo c d len H1 H2 H3. rewrite Hf. rewrite pass_on_unit. unfold clone_from_slice. cbn [s_len].
  rewrite Nat.eqb_refl.
  change (fun j : nat => v <~ rd E (sl_at (mkSl (RBufV len) o c) j);; c0 <~ clone_ E v;; assign E (sl_at (mkSl RDst oo c) j) c0)
    with (clone_body E SAssign (mkSl (RBufV len) o c) (mkSl RDst oo c)).
  apply clone_loop_mirror_out; assumption.
Qed.
End ClosuresV.

(** ** [_push_slice] of the vmem build: one call of the closure over the mirrored window = the Model's [push_slice] *)
Section PushSliceV.
Variables (s : mstate) (vs out : list cell).
Hypothesis Hwf : wf P s.
Hypothesis Hatt : det (it_of P s) = false.
Local Notation E := (denv_of P s vs).
Local Notation n := (length vs).

Theorem push_slice_generic_v (m : smode) (cl : bool) (f : sl -> sl -> DM unit) :
  store_spec_v E m f -> (cl = false -> owned s = false) ->
  exists r d, drun (DataFnsV.d__push_slice E (src_sl E) f) (view P s out) = Some (r, d) /\ push_slice_res s vs out m cl r d.
Proof.
  intros Hf Hcl. unfold DataFnsV.d__push_slice, DataFnsV.d_advance, src_sl. cbn [s_len dn_src denv_of].
  destruct (tie_next_chunk_mut_v P s vs out n Hwf) as (r0 & d0 & R0 & G0). unfold drun in *.
  unfold dbind at 1. rewrite R0. clear R0.
  unfold grantv_res, grant in G0. unfold push_slice_res, push_slice.
  pose proof (wf_check P n s Hwf) as Hwf1. pose proof (env_check P n s) as He. pose proof (granted_le_len P n s Hwf) as Hn.
  pose proof (ix_check P s Hwf n) as Hi.
  destruct (check P n s) as [g s1] eqn:Ck. cbn [fst snd] in *.
  destruct (check_keeps_all P n s) as (A & B & Pb & Nd & Ow & Ix & Sc & Dt). rewrite Ck in *. cbn [snd] in *.
  destruct g.
  2:{ unfold Seq.ret in G0. destruct G0 as (Ag & Ho & Hr). destruct r0 as [a|]; [contradiction|].
      rewrite (agrees_is_view _ _ _ _ Ag Ho). unfold dbind, dret.
      eexists _, _. split; [reflexivity|]. unfold Seq.ret. split; [|split]; [constructor; cbn; auto | reflexivity | exact I]. }
  specialize (Hn eq_refl). pose proof (check_grants _ _ _ _ Ck) as Hg.
  unfold Seq.rd in *. destruct (chunk (mlen s1) (ix (it_of P s1)) n) as [h t] eqn:Ch. unfold Seq.ret in G0.
  destruct G0 as (Ag & Ho & Hr). destruct r0 as [a|]; [|contradiction].
  destruct Hr as (Ha & _ & Hil & _). subst a.
  rewrite B in Ch.
  rewrite (agrees_is_view _ _ _ _ Ag Ho). clear Ag Ho d0.
  assert (Hlen : length (slots s) = mlen s) by (destruct Hwf; assumption).
  pose proof (chunk_cases (mlen s) (ix (it_of P s1)) n ltac:(lia) Hn) as Hc. rewrite Ch in Hc.
  destruct Hc as (Hsum & Hba & Hti & _ & _).
  unfold clones. rewrite Ow.
  assert (Hnews : (if cl then (if owned s then (ids (nid s1) n, set_nid (nid s1 + N.of_nat n) s1) else (vs, s1)) else (vs, s1)) =
                  (cloned_vals E (nid s) vs, if owned s then set_nid (nid s + N.of_nat n) s1 else s1)).
  { unfold cloned_vals. cbn [dn_owned denv_of]. rewrite Nd. destruct cl; [destruct (owned s); reflexivity|]. rewrite (Hcl eq_refl). reflexivity. }
  rewrite Hnews. clear Hnews.
  set (news := cloned_vals E (nid s) vs). set (s2 := if owned s then set_nid (nid s + N.of_nat n) s1 else s1).
  assert (Hnl : length news = n) by (unfold news, cloned_vals; destruct (dn_owned E); rewrite ?ids_length; reflexivity).
  unfold view, dbind, dret.
  assert (Hl1 : length (slots s1) = mlen s) by (rewrite A; exact Hlen).
  pose proof (Hf (ix (it_of P s1)) 0 n (mkD (local_of P s1) (slots s1) [] [] (nid s1) out)) as Hf1. cbn [d_slots dn_src denv_of] in Hf1.
  cbv zeta in Hf1. rewrite Hl1 in Hf1. rewrite Hf1 by (first [ lia
                            | rewrite Ch; destruct Hwf1 as [W1 _ _ _ _]; unfold chunk in Ch;
                              destruct (mlen s <=? ix (it_of P s1) + n) eqn:Hwrap; inversion Ch; subst h t;
                              [apply Nat.leb_le in Hwrap | apply Nat.leb_gt in Hwrap];
                              unfold it_of in *; cbn [tget] in *;
                              (split; [apply win_head; unfold it_of in *; cbn [tget] in *; lia | first [apply win_tail; unfold it_of in *; cbn [tget d_slots] in *; lia | intros i0 Hi0; lia]]) ]). clear Hf1.
  rewrite Ch. cbv iota beta. cbn [Nat.add].
  unfold run_effect. cbn [d_l d_slots d_pubs d_evs d_nid d_out dn_src dn_E denv_of]. rewrite ?A, ?Nd.
  rewrite (lift_advance P n s s1) by (first [exact Hwf1 | lia | symmetry; exact He]).
  cbv iota beta.
  assert (D2 : det (it_of P (wr s2 (ix (it_of P s1)) news)) = false).
  { destruct (wr_fields s2 (ix (it_of P s1)) news) as (Wi & _). unfold it_of in *. rewrite Wi. unfold s2, set_nid. destruct (owned s); cbn [its]; congruence. }
  destruct (advance_attached P n (wr s2 (ix (it_of P s1)) news) D2) as (L & Pu & Sl & Ni & Ml & Oa).
  eexists _, _. split; [reflexivity|]. unfold rete. cbn [fst snd].
  assert (Hs2 : slots s2 = slots s /\ mlen s2 = mlen s /\ nid s2 = cloned_nid E (nid s) n /\ owned s2 = owned s /\
                ix (it_of P s2) = ix (it_of P s1) /\ ca (it_of P s2) = ca (it_of P s1)).
  { unfold s2, cloned_nid. cbn [dn_owned denv_of]. destruct (owned s) eqn:Own; cbn; repeat split; congruence. }
  destruct Hs2 as (S2a & S2b & S2c & S2d & S2e & S2f).
  assert (Hwr : slots (wr s2 (ix (it_of P s1)) news) = write (write (slots s) (ix (it_of P s1)) (firstn h news)) 0 (skipn h news) /\
                ix (it_of P (wr s2 (ix (it_of P s1)) news)) = ix (it_of P s1) /\
                ca (it_of P (wr s2 (ix (it_of P s1)) news)) = ca (it_of P s1) /\
                mlen (wr s2 (ix (it_of P s1)) news) = mlen s /\ nid (wr s2 (ix (it_of P s1)) news) = cloned_nid E (nid s) n /\
                owned (wr s2 (ix (it_of P s1)) news) = owned s).
  { unfold wr. rewrite S2b, Hnl, Ch. cbn [set_slots slots its mlen nid owned it_of]. rewrite S2a.
    unfold it_of in *. repeat split; auto. }
  destruct Hwr as (Wa & Wb & Wc & Wd & We & Wf).
  assert (Hn2 : n = h + t) by lia.
  assert (Hfn : cloned_vals E (nid s) (sub vs 0 h) = firstn h news /\
                cloned_vals E (cloned_nid E (nid s) h) (sub vs h t) = skipn h news).
  { unfold news, cloned_vals, cloned_nid. cbn [dn_owned denv_of]. destruct (owned s).
    - rewrite !sub_length by lia. rewrite Hn2. rewrite firstn_ids, skipn_ids. split; reflexivity.
    - split; [reflexivity|]. replace t with (length vs - h) by lia. apply sub_skipn. }
  destruct Hfn as (Hfn1 & Hfn2).
  split; [|split]; [constructor; cbn [d_l d_slots d_pubs d_evs d_nid] | reflexivity | exact I].
  + rewrite L, Wb, Wc, Wd, B. reflexivity.
  + rewrite Sl, Wa, Hfn1, Hfn2. reflexivity.
  + cbn [tget] in Pu. rewrite Pu, Wb, Wd, B. reflexivity.
  + unfold ev. rewrite Oa, Wf. cbn [dn_owned denv_of]. destruct (owned s) eqn:Own; [|constructor].
    cbn [app]. rewrite ?A.
    assert (cl = true) by (destruct cl; auto; specialize (Hcl eq_refl); congruence). subst cl.
    rewrite sub_write_before' by lia.
    unfold cloned_nid at 1. cbn [dn_owned denv_of]. rewrite Own.
    rewrite <- loop_evs_app by (rewrite ?ids_length, ?sub_length; auto; lia).
    rewrite <- ids_app, <- sub_app_split, <- Hn2. cbn [Nat.add]. rewrite (sub_all vs).
    unfold news, cloned_vals. cbn [dn_owned denv_of]. rewrite Own.
    apply loop_evs_perm; rewrite ?ids_length, ?app_length, ?sub_length; auto; lia.
  + rewrite Ni, We. unfold cloned_nid. cbn [dn_owned denv_of]. destruct (owned s); [|reflexivity]. lia.
Qed.
End PushSliceV.

Section PushSliceTiesV.
Variables (s : mstate) (vs out : list cell).
Hypothesis Hwf : wf P s.
Hypothesis Hatt : det (it_of P s) = false.
Local Notation E := (denv_of P s vs).

Ltac via_generic_v m cl :=
  unfold drun; cbv zeta; unfold dbind at 1;
  match goal with |- context[DataFnsV.d__push_slice _ _ ?f] =>
    let H := fresh "H" in
    assert (H : store_spec_v E m f);
    [| destruct (push_slice_generic_v s vs out Hwf Hatt m cl f H ltac:(first [congruence | assumption | (intros _; assumption)])) as (r & d & R & G);
       unfold drun in R; rewrite R; unfold dret; eexists _, _; split; [reflexivity | exact G] ]
  end.

Ltac body_tac_v :=
  let Hx := fresh "Hx" in let Hy := fresh "Hy" in let Hw := fresh "Hw" in let Z := fresh "Z" in
  intros x y d; unfold check_zeroed, write_, assign, store_mode, st, emit, clone_, dbind, dret, is_buf, set_slots_d, rd, in_window;
  cbn [d_l d_slots d_pubs d_evs d_nid d_out dn_src dn_owned denv_of];
  destruct (x <? length (d_slots d)) eqn:Hx; destruct (y <? length vs) eqn:Hy;
  match goal with |- context[?c <? l_cached (d_l d)] => destruct (c <? l_cached (d_l d)) eqn:Hw end;
  cbn [andb d_l d_slots d_pubs d_evs d_nid d_out]; try reflexivity;
  repeat (progress (rewrite ?upd_length, ?Hx, ?Hy, ?Hw; cbn [andb d_l d_slots d_pubs d_evs d_nid d_out])); try reflexivity;
  destruct (isz (nth x (d_slots d) 0%N)) eqn:Z; cbn [negb andb d_l d_slots d_pubs d_evs d_nid d_out];
  unfold store_ev; rewrite ?Z;
  repeat (progress (rewrite ?upd_length, ?Hx, ?Hy, ?Hw, ?Z; cbn [negb andb d_l d_slots d_pubs d_evs d_nid d_out]));
  try reflexivity.

Theorem tie_push_slice_v : owned s = false ->
  exists r d, drun (DataFnsV.d_push_slice E (src_sl E)) (view P s out) = Some (r, d) /\ push_slice_res s vs out SCopy false r d.
Proof.
  intros Hpl. unfold DataFnsV.d_push_slice. via_generic_v SCopy false.
  apply spec_copy_v; [exact Hpl | intros; reflexivity].
Qed.

Theorem tie_push_slice_clone_v :
  exists r d, drun (DataFnsV.d_push_slice_clone E (src_sl E)) (view P s out) = Some (r, d) /\ push_slice_res s vs out SAssign true r d.
Proof.
  unfold DataFnsV.d_push_slice_clone. via_generic_v SAssign true.
  apply spec_clone_v; intros; reflexivity.
Qed.

Theorem tie_push_slice_clone_init_v :
  exists r d, drun (DataFnsV.d_push_slice_clone_init E (src_sl E)) (view P s out) = Some (r, d) /\ push_slice_res s vs out SInit true r d.
Proof.
  unfold DataFnsV.d_push_slice_clone_init. via_generic_v SInit true.
  eapply spec_zip_v; [intros; reflexivity|]. body_tac_v.
Qed.

Theorem tie_push_slice_init_v : owned s = false ->
  exists r d, drun (DataFnsV.d_push_slice_init E (src_sl E)) (view P s out) = Some (r, d) /\ push_slice_res s vs out SCopy false r d.
Proof.
  intros Hpl. unfold DataFnsV.d_push_slice_init. via_generic_v SCopy false.
  eapply spec_zip_v; [intros; reflexivity|].
  body_tac_v; rewrite Hpl; cbn [d_evs]; rewrite ?app_nil_r; reflexivity.
Qed.
End PushSliceTiesV.

(** ** [_extract_slice] of the vmem build *)
Section ExtractSliceV.
Variables (s : mstate) (src out : list cell).
Hypothesis Hwf : wf C s.
Hypothesis Hatt : det (it_of C s) = false.
Local Notation E := (denv_of C s src).
Local Notation n := (length out).

Theorem extract_slice_generic_v (cl : bool) (f : sl -> sl -> DM unit) :
  extract_spec_v E f -> (cl = false -> owned s = false) ->
  exists r d, drun (DataFnsV.d__extract_slice E (mkSl RDst 0 n) f) (view C s out) = Some (r, d) /\ extract_slice_res s out cl r d.
Proof.
  intros Hf Hcl. unfold DataFnsV.d__extract_slice, DataFnsV.d_advance. cbn [s_len].
  destruct (tie_next_chunk_v C s src out n Hwf) as (r0 & d0 & R0 & G0). unfold drun in *.
  unfold dbind at 1. rewrite R0. clear R0.
  unfold grantv_res, grant in G0. unfold extract_slice_res, extract_slice.
  pose proof (wf_check C n s Hwf) as Hwf1. pose proof (env_check C n s) as He. pose proof (granted_le_len C n s Hwf) as Hn.
  pose proof (ix_check C s Hwf n) as Hi.
  destruct (check C n s) as [g s1] eqn:Ck. cbn [fst snd] in *.
  destruct (check_keeps_all C n s) as (A & B & Pb & Nd & Ow & Ix & Sc & Dt). rewrite Ck in *. cbn [snd] in *.
  destruct g.
  2:{ unfold Seq.ret in G0. destruct G0 as (Ag & Ho & Hr). destruct r0 as [a|]; [contradiction|].
      rewrite (agrees_is_view _ _ _ _ Ag Ho). unfold dbind, dret.
      eexists _, _. split; [reflexivity|]. unfold Seq.ret. split; [constructor; cbn; auto | reflexivity]. }
  specialize (Hn eq_refl). pose proof (check_grants _ _ _ _ Ck) as Hg.
  unfold Seq.rd in *. destruct (chunk (mlen s1) (ix (it_of C s1)) n) as [h t] eqn:Ch. unfold Seq.ret in G0.
  destruct G0 as (Ag & Ho & Hr). destruct r0 as [a|]; [|contradiction].
  destruct Hr as (Ha & _ & Hil & _). subst a. rewrite B in Ch.
  assert (Hlen : length (slots s) = mlen s) by (destruct Hwf; assumption).
  pose proof (chunk_cases (mlen s) (ix (it_of C s1)) n ltac:(lia) Hn) as Hc. rewrite Ch in Hc.
  destruct Hc as (Hsum & Hba & Hti & _ & _).
  rewrite (agrees_is_view _ _ _ _ Ag Ho). clear Ag Ho d0.
  set (olds := sub (slots s1) (ix (it_of C s1)) h ++ sub (slots s1) 0 t).
  assert (Hol : length olds = n) by (unfold olds; rewrite app_length, !sub_length by (rewrite ?A; lia); lia).
  unfold clones. rewrite Ow.
  assert (Hnews : (if cl then (if owned s then (ids (nid s1) (length olds), set_nid (nid s1 + N.of_nat (length olds)) s1) else (olds, s1)) else (olds, s1)) =
                  (cloned_vals E (nid s) olds, if owned s then set_nid (nid s + N.of_nat n) s1 else s1)).
  { unfold cloned_vals. cbn [dn_owned denv_of]. rewrite Nd, Hol. destruct cl; [destruct (owned s); reflexivity|]. rewrite (Hcl eq_refl). reflexivity. }
  rewrite Hnews. clear Hnews.
  set (news := cloned_vals E (nid s) olds). set (s2 := if owned s then set_nid (nid s + N.of_nat n) s1 else s1).
  assert (D2 : det (it_of C s2) = false).
  { unfold s2, set_nid, it_of in *. destruct (owned s); cbn [its]; congruence. }
  destruct (advance_attached C n s2 D2) as (L & Pu & Sl & Ni & Ml & Oa).
  assert (Hs2 : slots s2 = slots s /\ mlen s2 = mlen s /\ nid s2 = cloned_nid E (nid s) n /\ owned s2 = owned s /\
                ix (it_of C s2) = ix (it_of C s1) /\ ca (it_of C s2) = ca (it_of C s1)).
  { unfold s2, cloned_nid. cbn [dn_owned denv_of]. destruct (owned s) eqn:Own; cbn; repeat split; congruence. }
  destruct Hs2 as (S2a & S2b & S2c & S2d & S2e & S2f).
  unfold view, dbind, dret.
  assert (Hls1 : length (slots s1) = mlen s) by (rewrite A; exact Hlen).
  pose proof (Hf (ix (it_of C s1)) 0 n (mkD (local_of C s1) (slots s1) [] [] (nid s1) out)) as Hf1. cbn [d_slots d_out] in Hf1.
  cbv zeta in Hf1. rewrite Hls1 in Hf1. rewrite Hf1 by (first [ lia
                            | rewrite Ch; destruct Hwf1 as [W1 _ _ _ _]; unfold chunk in Ch;
                              destruct (mlen s <=? ix (it_of C s1) + n) eqn:Hwrap; inversion Ch; subst h t;
                              [apply Nat.leb_le in Hwrap | apply Nat.leb_gt in Hwrap];
                              unfold it_of in *; cbn [tget] in *;
                              (split; [apply win_head; unfold it_of in *; cbn [tget] in *; lia | first [apply win_tail; unfold it_of in *; cbn [tget d_slots] in *; lia | intros i0 Hi0; lia]]) ]). clear Hf1.
  rewrite Ch. cbv iota beta. cbn [Nat.add].
  unfold xrun_effect. cbn [d_l d_slots d_pubs d_evs d_nid d_out dn_E denv_of]. rewrite ?A, ?Nd.
  rewrite (lift_advance C n s s1) by (first [exact Hwf1 | lia | symmetry; exact He]).
  cbv iota beta.
  eexists _, _. split; [reflexivity|]. unfold rete. cbn [fst snd].
  assert (Holds : olds = sub (slots s) (ix (it_of C s1)) h ++ sub (slots s) 0 t) by (unfold olds; rewrite A; reflexivity).
  assert (Hn2 : n = h + t) by lia.
  split; [constructor; cbn [d_l d_slots d_pubs d_evs d_nid] | cbn [d_out]].
  + rewrite L, S2e, S2f, S2b, B. reflexivity.
  + rewrite Sl, S2a. reflexivity.
  + cbn [tget] in Pu. rewrite Pu, S2e, S2b, B. reflexivity.
  + unfold ev. rewrite Oa, S2d. cbn [dn_owned denv_of]. destruct (owned s) eqn:Own; [|constructor].
    cbn [app]. assert (cl = true) by (destruct cl; auto; specialize (Hcl eq_refl); congruence). subst cl.
    unfold news, cloned_vals, cloned_nid. cbn [dn_owned denv_of]. rewrite Own, Hol, Holds, Hn2.
    rewrite ids_app, clone_evs_app by (rewrite ids_length, sub_length; auto; lia).
    rewrite ?app_nil_l; apply Permutation_refl.
  + rewrite Ni, S2c. unfold cloned_nid. cbn [dn_owned denv_of]. destruct (owned s); [|reflexivity]. lia.
  + unfold news. rewrite Holds.
    assert (Hc : cloned_vals E (nid s) (sub (slots s) (ix (it_of C s1)) h ++ sub (slots s) 0 t) =
                 cloned_vals E (nid s) (sub (slots s) (ix (it_of C s1)) h) ++ cloned_vals E (cloned_nid E (nid s) h) (sub (slots s) 0 t)).
    { unfold cloned_vals, cloned_nid. destruct (dn_owned E); [|reflexivity].
      rewrite app_length, ids_app. rewrite !sub_length by lia. reflexivity. }
    rewrite Hc.
    assert (Hl1 : length (cloned_vals E (nid s) (sub (slots s) (ix (it_of C s1)) h)) = h)
      by (unfold cloned_vals; destruct (dn_owned E); rewrite ?ids_length, ?sub_length by lia; try rewrite sub_length by lia; reflexivity).
    assert (Hl2 : length (cloned_vals E (cloned_nid E (nid s) h) (sub (slots s) 0 t)) = t)
      by (unfold cloned_vals; destruct (dn_owned E); rewrite ?ids_length, ?sub_length by lia; try rewrite sub_length by lia; reflexivity).
    match goal with |- write (write out 0 ?X) h ?Y = _ =>
      pose proof (write_two out X Y ltac:(rewrite Hl1, Hl2; lia)) as W; rewrite Hl1 in W; exact W end.
Qed.
End ExtractSliceV.

Section ExtractSliceTiesV.
Variables (s : mstate) (src out : list cell).
Hypothesis Hwf : wf C s.
Hypothesis Hatt : det (it_of C s) = false.
Local Notation E := (denv_of C s src).

Ltac via_xgeneric_v cl Hside :=
  unfold drun; cbv zeta; unfold dbind at 1;
  match goal with |- context[DataFnsV.d__extract_slice _ _ ?f] =>
    let H := fresh "H" in
    assert (H : extract_spec_v E f);
    [| destruct (extract_slice_generic_v s src out Hwf Hatt cl f H Hside) as (r & d & R & G);
       unfold drun in R; rewrite R; unfold dret; eexists _, _; split; [reflexivity | exact G] ]
  end.

Theorem tie_copy_slice_v : owned s = false ->
  exists r d, drun (DataFnsV.d_copy_slice E (mkSl RDst 0 (length out))) (view C s out) = Some (r, d) /\ extract_slice_res s out false r d.
Proof.
  intros Hpl. unfold DataFnsV.d_copy_slice. via_xgeneric_v false (fun _ : false = false => Hpl).
  apply xspec_copy_v; [exact Hpl | intros; reflexivity].
Qed.

Theorem tie_clone_slice_v :
  exists r d, drun (DataFnsV.d_clone_slice E (mkSl RDst 0 (length out))) (view C s out) = Some (r, d) /\ extract_slice_res s out true r d.
Proof.
  unfold DataFnsV.d_clone_slice.
  assert (Hside : true = false -> owned s = false) by congruence.
  via_xgeneric_v true Hside.
  apply xspec_clone_v; intros; reflexivity.
Qed.
End ExtractSliceTiesV.

(** the slice getters of the vmem build only pass the call on *)
Theorem tie_slice_wrappers_v k s src out n : wf k s ->
  (exists r d, drun (DataFnsV.d_get_workable_slice_exact (denv_of k s src) n) (view k s out) = Some (r, d) /\ grantv_res k s out n r d) /\
  (exists r d, drun (DataFnsV.d_get_next_slices_mut (denv_of k s src) n) (view k s out) = Some (r, d) /\ grantv_res k s out n r d) /\
  (exists r d, drun (DataFnsV.d_peek_slice (denv_of k s src) n) (view k s out) = Some (r, d) /\ grantv_res k s out n r d).
Proof.
  intros Hwf.
  destruct (tie_next_chunk_mut_v k s src out n Hwf) as (r1 & d1 & R1 & G1).
  destruct (tie_next_chunk_v k s src out n Hwf) as (r2 & d2 & R2 & G2).
  repeat split; [unfold DataFnsV.d_get_workable_slice_exact; via R1 G1 | unfold DataFnsV.d_get_next_slices_mut; via R1 G1 | unfold DataFnsV.d_peek_slice; via R2 G2].
Qed.

(** a mirrored slice reads exactly the Model's two slices, head then tail *)
Theorem mirror_reads_window len (slots0 : list cell) o n : length slots0 = len -> o < len -> n <= len ->
  let '(h, t) := chunk len o n in
  map (fun j => nth ((o + j) mod len) slots0 0%N) (seq 0 n) = sub slots0 o h ++ sub slots0 0 t.
Proof.
  intros Hl Ho Hn. pose proof (chunk_cases len o n Ho Hn) as Hc. destruct (chunk len o n) as [h t].
  destruct Hc as (Hsum & Hoh & Hto & Hhead & Htail).
  apply nth_ext with (d := 0%N) (d' := 0%N).
  - rewrite map_length, seq_length, app_length, !sub_length by lia. lia.
  - intros j Hj. rewrite map_length, seq_length in Hj.
    rewrite (nth_indep _ 0%N (nth ((o + 0) mod len) slots0 0%N)) by (rewrite map_length, seq_length; lia).
    rewrite (map_nth (fun j0 => nth ((o + j0) mod len) slots0 0%N) (seq 0 n) 0 j). rewrite seq_nth by lia. cbn [Nat.add].
    destruct (Nat.lt_ge_cases j h) as [Lt|Ge].
    + rewrite app_nth1 by (rewrite sub_length by lia; lia). rewrite nth_sub by lia. rewrite mirror_head by (try apply Hhead; lia). reflexivity.
    + rewrite app_nth2 by (rewrite sub_length by lia; lia). rewrite sub_length by lia. rewrite nth_sub by lia.
      destruct (Htail (j - h) ltac:(lia)) as (T1 & T2 & T3).
      replace (o + j) with (o + h + (j - h)) by lia. rewrite mirror_tail by lia. rewrite T3. reflexivity.
Qed.

Theorem data_v_closed : DataFnsV.data_clean = true.
Proof. reflexivity. Qed.
