(** * C13 (forms of an operation): plain = detached-then-attached = async-polled.

    Part 1.  For every stage [K] and every operation that exists both on a plain iterator and on a detached one
    ([det_form]: available, advance, the get_workable family, and the accesses through a granted reference), the
    history [Detach K; o; Attach K] gives [o] the same output and ledger events as the plain history [o] and ends
    in the same state - on the executable Model (equality of the whole [mstate], remembered availability included,
    no contract needed) and on the Spec (equality of the whole [pipe], under the contract).  Both are generalised
    to a block [Detach K] ++ os ++ [Attach K] versus [os].  The attached / detached [reset_index] pair is covered
    too ([Reset K] versus [Detach K; DReset K; Attach K]).

    Part 2.  Polling the future of an operation once ([APoll]) = the synchronous attempt: Ready with the same
    output, ledger events and buffer state when the attempt succeeds; Pending, no ledger event, and the buffer
    state the failed attempt leaves (only the remembered availability of the borrowed iterator is refreshed)
    when it does not.  Both hold in every Model state. *)
From Coq Require Import List Arith NArith Bool Lia.
Import ListNotations.
Require Import MRB.Base.Ring MRB.Base.ListAux MRB.Model.Types MRB.Model.Seq MRB.Spec.Pipe MRB.Model.Async.
Require Import MRB.Proofs.Rel MRB.Proofs.TapeFacts MRB.Proofs.Refine MRB.Proofs.AsyncFacts.

(** ** The operations that have a detached form, on stage [K] *)
Definition det_form (K : stage) (o : op) : bool :=
  match o with
  | Avail j | Advance j _ | GetOne j | GetExact j _ | GetAvail j | GetMult j _
  | Poke j _ _ | PokeInit j _ _ | Edit j _ _ => stage_eqb j K
  | _ => false
  end.

Lemma stage_eqb_true j K : stage_eqb j K = true -> j = K.
Proof. destruct (stage_eqb_spec j K); auto; discriminate. Qed.

Lemma tset_tset {A} k (x y : A) t : tset k x (tset k y t) = tset k x t.
Proof. destruct k; reflexivity. Qed.

(** * Part 1a: the executable Model *)

(** what [Attach K] does to a detached state *)
Definition m_attach (K : stage) (m : mstate) : mstate := set_det K false (set_pub K (ix (it_of K m)) m).
Definition mlift (K : stage) (r : res) : res := (m_attach K (fst r), snd r).

Lemma usable_att K m : usable K (m_attach K m) = usable K m. Proof. destruct K; reflexivity. Qed.
Lemma plain_att K m : plain (m_attach K m) = plain m. Proof. destruct K; reflexivity. Qed.
Lemma fresh_att K m : fresh K (m_attach K m) = fresh K m. Proof. destruct K; reflexivity. Qed.
Lemma ca_att K m : ca (it_of K (m_attach K m)) = ca (it_of K m). Proof. destruct K; reflexivity. Qed.
Lemma ix_att K m : ix (it_of K (m_attach K m)) = ix (it_of K m). Proof. destruct K; reflexivity. Qed.
Lemma rd_att K m i n : rd (m_attach K m) i n = rd m i n. Proof. destruct K; reflexivity. Qed.
Lemma slot_att K m i : slot (m_attach K m) i = slot m i. Proof. destruct K; reflexivity. Qed.
Lemma set_ca_att K c m : set_ca K c (m_attach K m) = m_attach K (set_ca K c m). Proof. destruct K; reflexivity. Qed.

Lemma refresh_att K m : refresh K (m_attach K m) = (m_attach K (fst (refresh K m)), snd (refresh K m)).
Proof. unfold refresh. cbn [fst snd]. rewrite fresh_att, set_ca_att. reflexivity. Qed.

Lemma check_att K n m : check K n (m_attach K m) = (fst (check K n m), m_attach K (snd (check K n m))).
Proof.
  unfold check. rewrite ca_att. destruct (n <=? ca (it_of K m)); [reflexivity|].
  rewrite refresh_att. unfold refresh. reflexivity.
Qed.

Lemma grant_att K n m : grant K n (m_attach K m) = mlift K (grant K n m).
Proof.
  unfold grant, mlift. rewrite check_att. destruct (check K n m) as [g m1]. cbn [fst snd].
  destruct g; [|reflexivity]. rewrite ix_att, rd_att. destruct (rd m1 (ix (it_of K m1)) n). reflexivity.
Qed.

Lemma grant_one_att K m : grant_one K (m_attach K m) = mlift K (grant_one K m).
Proof.
  unfold grant_one, mlift. rewrite check_att. destruct (check K 1 m) as [g m1]. cbn [fst snd].
  destruct g; [|reflexivity]. rewrite ix_att, slot_att. reflexivity.
Qed.

Lemma advance_att K n m : det (it_of K m) = true -> advance K n (m_attach K m) = m_attach K (advance K n m).
Proof. intros D. unfold advance. rewrite D. destruct K; reflexivity. Qed.

Lemma poke_att md K off v m : poke md K off v (m_attach K m) = mlift K (poke md K off v m).
Proof. destruct K; reflexivity. Qed.

Lemma edit_att K off d m : edit K off d (m_attach K m) = mlift K (edit K off d m).
Proof. destruct K; reflexivity. Qed.

Lemma detached_parts K m : detached K m = true -> usable K m = true /\ det (it_of K m) = true.
Proof. unfold detached. intros H. apply andb_prop in H. exact H. Qed.

Lemma attached_parts K m : attached K m = true -> usable K m = true /\ det (it_of K m) = false.
Proof. unfold attached. intros H. apply andb_prop in H as [U D]. apply negb_true_iff in D. auto. Qed.

(** the commutation: doing [o] on the detached iterator and attaching = attaching and doing [o] *)
Lemma step_attach K o m : detached K m = true -> det_form K o = true ->
  step (m_attach K m) o = mlift K (step m o).
Proof.
  intros Dm F. destruct (detached_parts K m Dm) as [U D].
  destruct o; try discriminate; cbn [det_form] in F; apply stage_eqb_true in F; subst k;
    cbn [step]; rewrite ?usable_att, ?plain_att, U.
  - rewrite refresh_att. unfold refresh. reflexivity.
  - rewrite advance_att by exact D. reflexivity.
  - apply grant_one_att.
  - apply grant_att.
  - rewrite refresh_att. unfold refresh. cbn [fst snd]. destruct (fresh K m); [reflexivity|].
    rewrite grant_att. reflexivity.
  - rewrite refresh_att. unfold refresh. cbn [fst snd]. destruct r; [reflexivity|].
    destruct (fresh K m - fresh K m mod S r); [reflexivity|].
    rewrite grant_att. reflexivity.
  - apply poke_att.
  - apply poke_att.
  - cbn [andb]. destruct (plain m); [apply edit_att | reflexivity].
Qed.

(** a [det_form] operation keeps the iterator detached *)
Lemma det_set_ca K c m : detached K (set_ca K c m) = detached K m. Proof. destruct K; reflexivity. Qed.
Lemma det_check K n m : detached K (snd (check K n m)) = detached K m.
Proof. unfold check. destruct (n <=? ca (it_of K m)); [reflexivity|]. unfold refresh. cbn [snd]. apply det_set_ca. Qed.
Lemma det_grant K n m : detached K (fst (grant K n m)) = detached K m.
Proof.
  unfold grant. pose proof (det_check K n m) as H. destruct (check K n m) as [g m1]. cbn [snd] in H.
  destruct g; [|exact H]. destruct (rd m1 (ix (it_of K m1)) n). exact H.
Qed.
Lemma det_grant_one K m : detached K (fst (grant_one K m)) = detached K m.
Proof.
  unfold grant_one. pose proof (det_check K 1 m) as H. destruct (check K 1 m) as [g m1]. cbn [snd] in H.
  destruct g; exact H.
Qed.

Lemma step_keeps_detached K o m : detached K m = true -> det_form K o = true ->
  detached K (fst (step m o)) = true.
Proof.
  intros Dm F. destruct (detached_parts K m Dm) as [U D].
  destruct o; try discriminate; cbn [det_form] in F; apply stage_eqb_true in F; subst k; cbn [step]; rewrite U.
  - unfold refresh. cbn [ret fst]. rewrite det_set_ca. exact Dm.
  - cbn [ret fst]. unfold advance. rewrite D. rewrite <- Dm. destruct K; reflexivity.
  - rewrite det_grant_one. exact Dm.
  - rewrite det_grant. exact Dm.
  - unfold refresh. destruct (fresh K m); [cbn [ret fst]|rewrite det_grant]; rewrite det_set_ca; exact Dm.
  - unfold refresh. destruct r; [cbn [ret fst]; rewrite det_set_ca; exact Dm|].
    destruct (fresh K m - fresh K m mod S r); [cbn [ret fst]|rewrite det_grant]; rewrite det_set_ca; exact Dm.
  - rewrite <- Dm. destruct K; reflexivity.
  - rewrite <- Dm. destruct K; reflexivity.
  - cbn [andb]. destruct (plain m); [|exact Dm]. rewrite <- Dm. destruct K; reflexivity.
Qed.

Lemma run_app h1 : forall m h2,
  run m (h1 ++ h2) = (fst (run (fst (run m h1)) h2), snd (run m h1) ++ snd (run (fst (run m h1)) h2)).
Proof.
  induction h1 as [|o r IH]; intros m h2; cbn [run app fst snd].
  - destruct (run m h2); reflexivity.
  - destruct (step m o) as [m1 x]. rewrite IH. destruct (run m1 r) as [m2 xs]. cbn [fst snd].
    destruct (run m2 h2) as [m3 ys]. reflexivity.
Qed.

Lemma run_attach K os : Forall (fun o => det_form K o = true) os -> forall m, detached K m = true ->
  run (m_attach K m) os = (m_attach K (fst (run m os)), snd (run m os)) /\ detached K (fst (run m os)) = true.
Proof.
  induction 1 as [|o r Fo Fr IH]; intros m Dm; cbn [run fst snd].
  - auto.
  - rewrite (step_attach K o m Dm Fo). unfold mlift.
    pose proof (step_keeps_detached K o m Dm Fo) as D1.
    destruct (step m o) as [m1 x]. cbn [fst snd] in *.
    destruct (IH m1 D1) as [E D2]. rewrite E. destruct (run m1 r) as [m2 xs]. cbn [fst snd] in *. auto.
Qed.

(** an attached iterator whose local index is the published one (true of every reachable state, see
    [rel_model_synced]): detaching and attaching at once changes nothing *)
Definition msynced (K : stage) (m : mstate) : Prop := tget K (pub m) = ix (it_of K m).

Lemma attach_detach K m : attached K m = true -> msynced K m -> m_attach K (set_det K true m) = m.
Proof.
  intros Am S. destruct (attached_parts K m Am) as [_ D]. unfold msynced in S.
  destruct m as [len sl [pp pw pc] fl [[ip cp dp hp] [iw cw dw hw] [ic cc dc hc]] hW hp' ow fr ni].
  destruct K; cbn in *; subst; reflexivity.
Qed.

Lemma detached_after_detach K m : attached K m = true -> detached K (set_det K true m) = true.
Proof. intros Am. destruct (attached_parts K m Am) as [U _]. unfold detached. replace (usable K (set_det K true m)) with (usable K m) by (destruct K; reflexivity).
  rewrite U. destruct K; reflexivity. Qed.

(** ** Model: detached-then-attached block = plain block (whole state, all outputs, all ledger events) *)
Theorem model_detached_block K os m :
  attached K m = true -> msynced K m -> Forall (fun o => det_form K o = true) os ->
  run m ([Detach K] ++ os ++ [Attach K]) =
  (fst (run m os), (OUnit, []) :: snd (run m os) ++ [(OUnit, [])]).
Proof.
  intros Am S F. cbn [app run step]. rewrite Am. cbn [ret].
  pose proof (detached_after_detach K m Am) as Dd.
  destruct (run_attach K os F (set_det K true m) Dd) as [E D1].
  rewrite (attach_detach K m Am S) in E.
  rewrite run_app. cbn [run step]. rewrite D1. cbn [ret fst snd].
  rewrite E. cbn [fst snd]. reflexivity.
Qed.

(** ** Model: the single-operation form *)
Theorem model_detached_form K o m :
  attached K m = true -> msynced K m -> det_form K o = true ->
  run m [Detach K; o; Attach K] = (fst (step m o), [(OUnit, []); snd (step m o); (OUnit, [])]) /\
  run m [o] = (fst (step m o), [snd (step m o)]).
Proof.
  intros Am S F. split.
  - pose proof (model_detached_block K [o] m Am S (Forall_cons _ F (Forall_nil _))) as H.
    cbn [app] in H. rewrite H. cbn [run]. destruct (step m o) as [m1 x]. reflexivity.
  - cbn [run]. destruct (step m o) as [m1 x]. reflexivity.
Qed.

(** ** Model: [reset_index] attached = detached [reset_index] then attach *)
Theorem model_reset_form K m : attached K m = true -> K <> P ->
  run m [Detach K; DReset K; Attach K] = (fst (step m (Reset K)), [(OUnit, []); snd (step m (Reset K)); (OUnit, [])]).
Proof.
  intros Am NP. destruct (attached_parts K m Am) as [U D].
  pose proof (detached_after_detach K m Am) as Dd.
  cbn [run step]. rewrite Am. cbn [ret]. rewrite Dd. cbn [ret].
  assert (D2 : detached K (set_ix_ca K (succ_idx K (set_det K true m)) 0 (set_det K true m)) = true).
  { etransitivity; [|exact Dd]. destruct K; reflexivity. }
  rewrite D2. cbn [ret fst snd].
  destruct m as [len sl [pp pw pc] fl [[ip cp dp hp] [iw cw dw hw] [ic cc dc hc]] hW hp' ow fr ni].
  destruct K; [congruence| |]; cbn in *; subst; reflexivity.
Qed.

(** * Part 1b: the Spec *)

(** tape facts: growth appends, and commutes with a write that is not a source of the new positions *)
Lemma extend_app len n : forall t, exists s, extend len n t = t ++ s.
Proof.
  induction n as [|n IH]; intros t; cbn [extend].
  - exists []. rewrite app_nil_r. reflexivity.
  - destruct (IH (t ++ [nth (length t - len) t 0%N])) as [s E]. rewrite E, <- app_assoc. eexists. reflexivity.
Qed.

Lemma extend_extend len m : forall n t, extend len n (extend len m t) = extend len (m + n) t.
Proof. induction m as [|m IH]; intros n t; cbn [extend plus]; auto. Qed.

Lemma sub_app_l {A} (l s : list A) i n : i + n <= length l -> sub (l ++ s) i n = sub l i n.
Proof.
  intros H. unfold sub. rewrite skipn_app, firstn_app, skipn_length.
  replace (n - (length l - i)) with 0 by lia. cbn [firstn]. rewrite app_nil_r. reflexivity.
Qed.

Lemma sub_extend len n t i k : i + k <= length t -> sub (extend len n t) i k = sub t i k.
Proof. intros H. destruct (extend_app len n t) as [s ->]. apply sub_app_l. exact H. Qed.

Lemma upd_app {A} p (v : A) : forall l s, p < length l -> upd p v (l ++ s) = upd p v l ++ s.
Proof.
  induction p as [|p IH]; intros [|x l] s H; cbn in *; try lia; auto.
  rewrite IH by lia. reflexivity.
Qed.

Lemma extend_upd len n p v : forall t, len <= length t -> p < length t -> length t + n <= p + len ->
  extend len n (upd p v t) = upd p v (extend len n t).
Proof.
  induction n as [|n IH]; intros t Hl Hp Hn; cbn [extend]; auto.
  rewrite upd_length. rewrite (nth_upd_neq 0%N) by lia. rewrite <- upd_app by lia.
  apply IH; rewrite app_length; cbn [length]; lia.
Qed.

(** what [Attach K] does to a detached Spec state *)
Definition s_attach (K : stage) (a : pipe) : pipe := a_set_det K false (a_publish K (tget K (lpos a)) a).

(** the tape covers the ring window and everything the consumer may be granted (true of every reachable state,
    see [rel_tape_covers]) *)
Definition tape_covers (a : pipe) : Prop :=
  tC (ppos a) + slen a <= length (tape a) /\ a_succ C a <= length (tape a).

(** an attached iterator's local position is its published one (invariant I4 of [Rel]) *)
Definition synced (K : stage) (a : pipe) : Prop := tget K (lpos a) = tget K (ppos a).

Lemma s_usable_att K a : a_usable K (s_attach K a) = a_usable K a. Proof. destruct K; reflexivity. Qed.
Lemma s_plain_att K a : a_plain (s_attach K a) = a_plain a. Proof. destruct K; reflexivity. Qed.
Lemma s_avail_att K a : a_avail K (s_attach K a) = a_avail K a. Proof. destruct K; reflexivity. Qed.

Lemma s_window_att K n a : tape_covers a -> n <= a_avail K a -> a_window K n (s_attach K a) = a_window K n a.
Proof.
  intros [T1 T2] Hn. destruct K; [reflexivity|reflexivity|].
  destruct n as [|n]; [reflexivity|].
  unfold a_window. replace (tape (s_attach C a)) with (extend (slen a) (tC (lpos a) + slen a - length (tape a)) (tape a)) by reflexivity.
  replace (tget C (lpos (s_attach C a))) with (tC (lpos a)) by reflexivity.
  replace (slen (s_attach C a)) with (slen a) by reflexivity. cbn [tget].
  rewrite sub_extend; [reflexivity|]. unfold a_avail in Hn. cbn [tget] in Hn. lia.
Qed.

Lemma s_cell_att K off a : tape_covers a -> off < a_avail K a ->
  a_cell (tget K (lpos a) + off) (s_attach K a) = a_cell (tget K (lpos a) + off) a.
Proof.
  intros [T1 T2] Hn. destruct K; [reflexivity|reflexivity|].
  unfold a_cell. replace (tape (s_attach C a)) with (extend (slen a) (tC (lpos a) + slen a - length (tape a)) (tape a)) by reflexivity.
  apply extend_old. unfold a_avail in Hn. cbn [tget] in *. lia.
Qed.

Lemma s_grant_att K n a : tape_covers a -> a_grant K n (s_attach K a) = (s_attach K (fst (a_grant K n a)), snd (a_grant K n a)).
Proof.
  intros T. unfold a_grant. rewrite s_avail_att. destruct (n <=? a_avail K a) eqn:E; [|reflexivity].
  apply Nat.leb_le in E. rewrite (s_window_att K n a T E). reflexivity.
Qed.

Lemma s_grant_one_att K a : tape_covers a -> a_grant_one K (s_attach K a) = (s_attach K (fst (a_grant_one K a)), snd (a_grant_one K a)).
Proof.
  intros T. unfold a_grant_one. rewrite s_avail_att. destruct (1 <=? a_avail K a) eqn:E; [|reflexivity].
  apply Nat.leb_le in E. pose proof (s_cell_att K 0 a T ltac:(lia)) as H. rewrite Nat.add_0_r in H.
  replace (tget K (lpos (s_attach K a))) with (tget K (lpos a)) by (destruct K; reflexivity).
  replace (slen (s_attach K a)) with (slen a) by (destruct K; reflexivity).
  rewrite H. reflexivity.
Qed.

Lemma s_advance_att K n a : tget K (sdet a) = true -> a_advance K n (s_attach K a) = s_attach K (a_advance K n a).
Proof.
  intros D. unfold a_advance. rewrite D.
  replace (tget K (sdet (s_attach K a))) with false by (destruct K; reflexivity).
  destruct K; [reflexivity|reflexivity|].
  unfold s_attach, a_publish, a_set_lpos, a_set_det. cbn [slen tape ppos lpos sdet shere sflag shasW sheap sowned sfreed snid tget tset tP tW tC].
  f_equal. rewrite extend_length, extend_extend. f_equal. lia.
Qed.

Lemma s_poke_att md K off v a : tape_covers a -> off < a_avail K a ->
  a_poke md K off v (s_attach K a) = (s_attach K (fst (a_poke md K off v a)), snd (a_poke md K off v a)).
Proof.
  intros T Hn. pose proof (s_cell_att K off a T Hn) as Hc. destruct T as [T1 T2].
  destruct K; [reflexivity|reflexivity|].
  unfold a_poke, a_rete, a_ev. replace (tget C (lpos (s_attach C a))) with (tC (lpos a)) by reflexivity.
  cbn [tget] in Hc. rewrite Hc. cbn [fst snd].
  replace (sowned (s_attach C a)) with (sowned a) by reflexivity.
  replace (sowned (a_set_tape (upd (tC (lpos a) + off) v (tape a)) a)) with (sowned a) by reflexivity.
  f_equal.
  unfold s_attach, a_publish, a_set_lpos, a_set_det, a_set_tape. cbn [slen tape ppos lpos sdet shere sflag shasW sheap sowned sfreed snid tget tset tP tW tC].
  f_equal. rewrite upd_length.
  unfold a_avail in Hn. cbn [tget] in Hn.
  destruct (Nat.eq_dec (tC (lpos a) + slen a - length (tape a)) 0) as [Z|NZ].
  - rewrite Z. reflexivity.
  - symmetry. apply extend_upd; lia.
Qed.

Lemma s_edit_att K off d a : tape_covers a -> off < a_avail K a ->
  a_edit K off d (s_attach K a) = (s_attach K (fst (a_edit K off d a)), snd (a_edit K off d a)).
Proof.
  intros T Hn. pose proof (s_cell_att K off a T Hn) as Hc. destruct T as [T1 T2].
  destruct K; [reflexivity|reflexivity|].
  unfold a_edit, a_ret. replace (tget C (lpos (s_attach C a))) with (tC (lpos a)) by reflexivity.
  cbn [tget] in Hc. rewrite Hc. cbn [fst snd]. f_equal.
  unfold s_attach, a_publish, a_set_lpos, a_set_det, a_set_tape. cbn [slen tape ppos lpos sdet shere sflag shasW sheap sowned sfreed snid tget tset tP tW tC].
  f_equal. rewrite upd_length.
  unfold a_avail in Hn. cbn [tget] in Hn.
  destruct (Nat.eq_dec (tC (lpos a) + slen a - length (tape a)) 0) as [Z|NZ].
  - rewrite Z. reflexivity.
  - symmetry. apply extend_upd; lia.
Qed.

Lemma s_detached_parts K a : a_detached K a = true -> a_usable K a = true /\ tget K (sdet a) = true.
Proof. intros H. split; [apply detached_usable | apply detached_det]; exact H. Qed.

(** the contract of a [det_form] operation does not depend on the iterator being attached *)
Lemma s_ok_att K o a : det_form K o = true -> ok_op (s_attach K a) o = ok_op a o.
Proof.
  intros F. destruct o; try discriminate; cbn [det_form] in F; apply stage_eqb_true in F; subst k;
    cbn [ok_op]; rewrite ?s_avail_att; reflexivity.
Qed.

(** the commutation on the Spec *)
Lemma sstep_attach K o a : a_detached K a = true -> tape_covers a -> det_form K o = true -> ok_op a o = true ->
  sstep (s_attach K a) o = (s_attach K (fst (sstep a o)), snd (sstep a o)).
Proof.
  intros Da T F OK. destruct (s_detached_parts K a Da) as [U D].
  destruct o; try discriminate; cbn [det_form] in F; apply stage_eqb_true in F; subst k;
    cbn [sstep ok_op] in OK |- *; rewrite ?s_usable_att, ?s_plain_att, U.
  - rewrite s_avail_att. reflexivity.
  - rewrite s_advance_att by exact D. reflexivity.
  - apply s_grant_one_att; exact T.
  - apply s_grant_att; exact T.
  - rewrite s_avail_att. destruct (a_avail K a) as [|n] eqn:E; [reflexivity|].
    rewrite s_window_att by (auto; lia). reflexivity.
  - destruct r; [reflexivity|]. rewrite s_avail_att.
    destruct (a_avail K a - a_avail K a mod S r) as [|n] eqn:E; [reflexivity|].
    rewrite s_window_att by (auto; lia). reflexivity.
  - apply Nat.ltb_lt in OK. apply s_poke_att; auto.
  - apply Nat.ltb_lt in OK. apply s_poke_att; auto.
  - apply Nat.ltb_lt in OK. cbn [andb]. destruct (a_plain a); [apply s_edit_att; auto | reflexivity].
Qed.

(** a [det_form] operation keeps the iterator detached and the tape covering *)
Lemma sstep_keeps K o a : a_detached K a = true -> tape_covers a -> det_form K o = true ->
  a_detached K (fst (sstep a o)) = true /\ tape_covers (fst (sstep a o)).
Proof.
  intros Da T F. destruct (s_detached_parts K a Da) as [U D].
  destruct o; try discriminate; cbn [det_form] in F; apply stage_eqb_true in F; subst k;
    cbn [sstep]; rewrite U.
  - auto.
  - cbn [a_ret fst]. unfold a_advance. rewrite D. split.
    + rewrite <- Da. destruct K; reflexivity.
    + exact T.
  - unfold a_grant_one. destruct (1 <=? a_avail K a); auto.
  - unfold a_grant. destruct (n <=? a_avail K a); auto.
  - destruct (a_avail K a); auto.
  - destruct r; auto. destruct (a_avail K a - a_avail K a mod S r); auto.
  - split; [rewrite <- Da; destruct K; reflexivity|].
    unfold tape_covers, a_poke, a_rete, a_set_tape, a_succ in *. cbn [fst tape ppos slen shasW]. rewrite upd_length. exact T.
  - split; [rewrite <- Da; destruct K; reflexivity|].
    unfold tape_covers, a_poke, a_rete, a_set_tape, a_succ in *. cbn [fst tape ppos slen shasW]. rewrite upd_length. exact T.
  - cbn [andb]. destruct (a_plain a); [|auto].
    split; [rewrite <- Da; destruct K; reflexivity|].
    unfold tape_covers, a_edit, a_ret, a_set_tape, a_succ in *. cbn [fst tape ppos slen shasW]. rewrite upd_length. exact T.
Qed.

Lemma srun_attach K os : Forall (fun o => det_form K o = true) os -> forall a,
  a_detached K a = true -> tape_covers a -> snd (srun a os) = true ->
  srun (s_attach K a) os = (s_attach K (fst (fst (srun a os))), snd (fst (srun a os)), true) /\
  a_detached K (fst (fst (srun a os))) = true.
Proof.
  induction 1 as [|o r Fo Fr IH]; intros a Da T OK; cbn [srun fst snd] in *.
  - auto.
  - rewrite (s_ok_att K o a Fo).
    destruct (ok_op a o) eqn:Ok.
    2:{ destruct (sstep a o) as [a1 x]. destruct (srun a1 r) as [[a2 xs] okr]. cbn in OK. discriminate. }
    rewrite (sstep_attach K o a Da T Fo Ok).
    destruct (sstep_keeps K o a Da T Fo) as [D1 T1].
    destruct (sstep a o) as [a1 x]. cbn [fst snd] in *.
    specialize (IH a1 D1 T1).
    destruct (srun a1 r) as [[a2 xs] okr]. cbn [fst snd andb] in *.
    destruct (IH OK) as [E D2]. rewrite E. auto.
Qed.

Lemma srun_app h1 : forall a h2,
  srun a (h1 ++ h2) =
  (fst (fst (srun (fst (fst (srun a h1))) h2)),
   snd (fst (srun a h1)) ++ snd (fst (srun (fst (fst (srun a h1))) h2)),
   snd (srun a h1) && snd (srun (fst (fst (srun a h1))) h2)).
Proof.
  induction h1 as [|o r IH]; intros a h2; cbn [srun app fst snd].
  - destruct (srun a h2) as [[a2 ys] ok]. reflexivity.
  - destruct (sstep a o) as [a1 x]. rewrite IH. destruct (srun a1 r) as [[a2 xs] okr]. cbn [fst snd].
    destruct (srun a2 h2) as [[a3 ys] ok2]. cbn [fst snd]. rewrite andb_assoc. reflexivity.
Qed.

Lemma s_attach_detach K a : a_attached K a = true -> synced K a -> tape_covers a ->
  s_attach K (a_set_det K true a) = a.
Proof.
  intros Aa S [T1 T2]. pose proof (attached_det _ _ Aa) as D. unfold synced in S.
  destruct a as [len t [pp pw pc] [lp lw lc] [dp dw dc] sh fl hW hp ow fr ni].
  destruct K; cbn in *; subst; try reflexivity.
  unfold s_attach, a_publish, a_set_det. cbn.
  replace (pc + len - length t) with 0 by lia. reflexivity.
Qed.

Lemma s_detached_after_detach K a : a_attached K a = true -> a_detached K (a_set_det K true a) = true.
Proof.
  intros Aa. pose proof (attached_usable _ _ Aa) as U. unfold a_detached.
  replace (a_usable K (a_set_det K true a)) with (a_usable K a) by (destruct K; reflexivity).
  rewrite U. destruct K; reflexivity.
Qed.

(** ** Spec: detached-then-attached block = plain block, under the contract of the plain block *)
Theorem spec_detached_block K os a :
  a_attached K a = true -> synced K a -> tape_covers a ->
  Forall (fun o => det_form K o = true) os -> snd (srun a os) = true ->
  srun a ([Detach K] ++ os ++ [Attach K]) =
  (fst (fst (srun a os)), (OUnit, []) :: snd (fst (srun a os)) ++ [(OUnit, [])], true).
Proof.
  intros Aa S T F OK. cbn [app srun sstep ok_op]. rewrite Aa. cbn [a_ret].
  pose proof (s_detached_after_detach K a Aa) as Dd.
  assert (Td : tape_covers (a_set_det K true a)) by exact T.
  rewrite <- (s_attach_detach K a Aa S T) in OK at 1.
  pose proof (s_attach_detach K a Aa S T) as Back.
  assert (OKd : snd (srun (a_set_det K true a) os) = true).
  { (* the contract of the plain block is the contract of the detached block *)
    clear - F Dd Td OK. revert OK. generalize (a_set_det K true a) Dd Td. clear Dd Td.
    induction F as [|o r Fo Fr IH]; intros d Dd Td; cbn [srun fst snd]; auto.
    rewrite (s_ok_att K o d Fo). destruct (ok_op d o) eqn:Ok.
    2:{ destruct (sstep (s_attach K d) o) as [a1 x]. destruct (srun a1 r) as [[a2 xs] okr].
        destruct (sstep d o) as [d1 y]. destruct (srun d1 r) as [[d2 ys] okd]. cbn. auto. }
    rewrite (sstep_attach K o d Dd Td Fo Ok).
    destruct (sstep_keeps K o d Dd Td Fo) as [D1 T1].
    destruct (sstep d o) as [d1 y]. cbn [fst snd] in *.
    specialize (IH d1 D1 T1).
    destruct (srun (s_attach K d1) r) as [[a2 xs] okr]. destruct (srun d1 r) as [[d2 ys] okd].
    cbn [fst snd andb] in *. exact IH. }
  destruct (srun_attach K os F (a_set_det K true a) Dd Td OKd) as [E D1].
  rewrite Back in E.
  rewrite srun_app. cbn [srun sstep ok_op]. rewrite D1. cbn [a_ret fst snd].
  rewrite OKd. rewrite E. cbn [fst snd andb]. reflexivity.
Qed.

(** ** Spec: the single-operation form *)
Theorem spec_detached_form K o a :
  a_attached K a = true -> synced K a -> tape_covers a -> det_form K o = true -> ok_op a o = true ->
  srun a [Detach K; o; Attach K] = (fst (sstep a o), [(OUnit, []); snd (sstep a o); (OUnit, [])], true) /\
  srun a [o] = (fst (sstep a o), [snd (sstep a o)], true).
Proof.
  intros Aa S T F OK.
  assert (P1 : srun a [o] = (fst (sstep a o), [snd (sstep a o)], true)).
  { cbn [srun]. rewrite OK. destruct (sstep a o) as [a1 x]. reflexivity. }
  split; [|exact P1].
  pose proof (spec_detached_block K [o] a Aa S T (Forall_cons _ F (Forall_nil _))) as H.
  rewrite P1 in H. cbn [app fst snd] in H. apply H. reflexivity.
Qed.

(** ** Spec: [reset_index] attached = detached [reset_index] then attach *)
Lemma locate_succ K a : 0 < slen a -> tget K (ppos a) <= a_succ K a < tget K (ppos a) + slen a ->
  a_locate K (a_succ K a mod slen a) a = a_succ K a.
Proof. intros Hl Hb. unfold a_locate. rewrite dist_mod by lia. lia. Qed.

Theorem spec_reset_form K a : a_attached K a = true -> K <> P -> 0 < slen a ->
  tget K (ppos a) <= a_succ K a < tget K (ppos a) + slen a ->
  srun a [Detach K; DReset K; Attach K] =
  (fst (sstep a (Reset K)), [(OUnit, []); snd (sstep a (Reset K)); (OUnit, [])], true).
Proof.
  intros Aa NP Hl Hb. pose proof (locate_succ K a Hl Hb) as L.
  pose proof (s_detached_after_detach K a Aa) as Dd. pose proof (attached_det _ _ Aa) as D.
  assert (R1 : sstep a (Reset K) = a_ret (a_publish K (a_succ K a) (a_set_lpos K (a_succ K a) a)) OUnit).
  { destruct K; [congruence| |]; cbn [sstep]; rewrite Aa; reflexivity. }
  rewrite R1. cbn [srun sstep ok_op a_ret fst snd]. rewrite Aa. cbn [a_ret]. rewrite Dd. cbn [a_ret].
  replace (a_locate K (a_succ K (a_set_det K true a) mod slen (a_set_det K true a)) (a_set_det K true a))
    with (a_succ K a) by (rewrite <- L; destruct K; reflexivity).
  replace (a_limit K (a_set_det K true a)) with (a_succ K a) by (destruct K; [congruence| |]; reflexivity).
  rewrite Nat.leb_refl.
  assert (D2 : a_detached K (a_set_lpos K (a_succ K a) (a_set_det K true a)) = true).
  { etransitivity; [|exact Dd]. destruct K; reflexivity. }
  rewrite D2. cbn [a_ret andb]. f_equal. f_equal.
  destruct a as [len t [pp pw pc] [lp lw lc] [dp dw dc] sh fl hW hp ow fr ni].
  destruct K; [congruence| |]; cbn in *; subst; reflexivity.
Qed.

(** ** The hypotheses hold in every reachable state *)
Lemma rel_synced m a K : Rel m a -> a_attached K a = true -> synced K a.
Proof. intros R Aa. apply (r_att _ _ R). apply attached_det. exact Aa. Qed.

Lemma rel_tape_covers m a : Rel m a -> tape_covers a.
Proof.
  intros R. pose proof (r_tape _ _ R) as Ht. pose proof (r_oS _ _ R) as HS. pose proof (r_oP _ _ R) as HP.
  pose proof (r_pos _ _ R) as Hl. unfold tape_covers. lia.
Qed.

Lemma rel_msynced m a K : Rel m a -> attached K m = true -> msynced K m.
Proof.
  intros R Am. rewrite (attached_eq _ _ _ R) in Am.
  pose proof (attached_usable _ _ Am) as U. pose proof (usable_here _ _ U) as H.
  destruct (r_it _ _ R K H) as (_ & Hix & _).
  unfold msynced. rewrite Hix, (r_pub _ _ R K), (r_att _ _ R K (attached_det _ _ Am)). reflexivity.
Qed.

Lemma rel_reset_bounds m a K : Rel m a -> a_usable K a = true -> K <> P ->
  0 < slen a /\ tget K (ppos a) <= a_succ K a < tget K (ppos a) + slen a.
Proof.
  intros R U NP. pose proof (r_pos _ _ R) as Hl. pose proof (r_oC _ _ R) as HC. pose proof (r_oP _ _ R) as HP.
  pose proof (r_oS _ _ R) as HS. split; [exact Hl|].
  destruct K; [congruence| |]; cbn [tget].
  - pose proof (r_oW _ _ R (usable_W _ U)) as HW. unfold a_succ in *. rewrite (usable_W _ U) in *. lia.
  - lia.
Qed.

(** ** C13, detached form, for reachable states: one statement for the Model and the Spec *)
Theorem C13_detached_block m a K os :
  Rel m a -> attached K m = true -> Forall (fun o => det_form K o = true) os ->
  (* Model: no contract needed *)
  run m ([Detach K] ++ os ++ [Attach K]) = (fst (run m os), (OUnit, []) :: snd (run m os) ++ [(OUnit, [])]) /\
  (* Spec: under the contract of the plain block *)
  (snd (srun a os) = true ->
   srun a ([Detach K] ++ os ++ [Attach K]) =
   (fst (fst (srun a os)), (OUnit, []) :: snd (fst (srun a os)) ++ [(OUnit, [])], true)).
Proof.
  intros R Am F. split.
  - apply model_detached_block; auto. eapply rel_msynced; eauto.
  - intros OK. rewrite (attached_eq _ _ _ R) in Am.
    apply spec_detached_block; auto; [eapply rel_synced | eapply rel_tape_covers]; eauto.
Qed.

Theorem C13_detached_form m a K o :
  Rel m a -> attached K m = true -> det_form K o = true ->
  run m [Detach K; o; Attach K] = (fst (step m o), [(OUnit, []); snd (step m o); (OUnit, [])]) /\
  (ok_op a o = true ->
   srun a [Detach K; o; Attach K] = (fst (sstep a o), [(OUnit, []); snd (sstep a o); (OUnit, [])], true)).
Proof.
  intros R Am F. split.
  - apply model_detached_form; auto. eapply rel_msynced; eauto.
  - intros OK. rewrite (attached_eq _ _ _ R) in Am.
    apply spec_detached_form; auto; [eapply rel_synced | eapply rel_tape_covers]; eauto.
Qed.

Theorem C13_reset_form m a K :
  Rel m a -> attached K m = true -> K <> P ->
  run m [Detach K; DReset K; Attach K] = (fst (step m (Reset K)), [(OUnit, []); snd (step m (Reset K)); (OUnit, [])]) /\
  srun a [Detach K; DReset K; Attach K] = (fst (sstep a (Reset K)), [(OUnit, []); snd (sstep a (Reset K)); (OUnit, [])], true).
Proof.
  intros R Am NP. split; [apply model_reset_form; auto|].
  rewrite (attached_eq _ _ _ R) in Am.
  destruct (rel_reset_bounds m a K R (attached_usable _ _ Am) NP) as [Hl Hb].
  apply spec_reset_form; auto.
Qed.

(** * Part 2: async-polled = plain *)

(** a refused check leaves exactly the refreshed remembered availability, and refusing is idempotent *)
Lemma ca_set_ca k c m : ca (it_of k (set_ca k c m)) = c. Proof. destruct k; reflexivity. Qed.
Lemma fresh_set_ca k c m : fresh k (set_ca k c m) = fresh k m. Proof. destruct k; reflexivity. Qed.
Lemma set_ca_idem k c m : set_ca k c (set_ca k c m) = set_ca k c m. Proof. destruct k; reflexivity. Qed.
Lemma usable_set_ca j k c m : usable j (set_ca k c m) = usable j m. Proof. destruct j, k; reflexivity. Qed.
Lemma attached_set_ca j k c m : attached j (set_ca k c m) = attached j m. Proof. destruct j, k; reflexivity. Qed.
Lemma plain_set_ca k c m : plain (set_ca k c m) = plain m. Proof. destruct k; reflexivity. Qed.

Definition stale (k : stage) (m : mstate) : mstate := set_ca k (fresh k m) m.

Lemma refresh_stale k m : refresh k (stale k m) = (stale k m, fresh k m).
Proof. unfold refresh, stale. rewrite fresh_set_ca, set_ca_idem. reflexivity. Qed.

Lemma check_refused k n m : fst (check k n m) = false ->
  snd (check k n m) = stale k m /\ check k n (stale k m) = (false, stale k m).
Proof.
  unfold check. destruct (n <=? ca (it_of k m)) eqn:E1; cbn [fst snd]; [discriminate|].
  unfold refresh at 1 2. cbn [fst snd]. intros E2. split; [reflexivity|].
  unfold stale at 1. rewrite ca_set_ca, E2. fold (stale k m). rewrite refresh_stale, E2. reflexivity.
Qed.

Ltac open_lets := repeat match goal with
  | |- context[let '(_, _) := ?x in _] => destruct x
  | H : context[let '(_, _) := ?x in _] |- _ => destruct x
  end.

(** function-level: a refused attempt only refreshes the remembered availability, emits nothing, and is idempotent *)
Ltac refused_fn k n m :=
  let g := fresh "g" in let m1 := fresh "m1" in let Ck := fresh "Ck" in let H := fresh "H" in
  pose proof (check_refused k n m) as H; destruct (check k n m) as [g m1] eqn:Ck; cbn [fst snd] in H;
  destruct g;
  [ intros Hr; exfalso; revert Hr; open_lets; cbn; discriminate
  | intros _; destruct (H eq_refl) as [-> ->]; cbn [ret fst snd]; auto ].

Lemma grant_refused k n m : refused (fst (snd (grant k n m))) = true ->
  grant k n m = ret (stale k m) ONone /\ grant k n (stale k m) = ret (stale k m) ONone.
Proof. unfold grant. refused_fn k n m. Qed.
Lemma grant_one_refused k m : refused (fst (snd (grant_one k m))) = true ->
  grant_one k m = ret (stale k m) ONone /\ grant_one k (stale k m) = ret (stale k m) ONone.
Proof. unfold grant_one. refused_fn k 1 m. Qed.
Lemma push_refused md v m : refused (fst (snd (push md v m))) = true ->
  push md v m = ret (stale P m) (OErr v) /\ push md v (stale P m) = ret (stale P m) (OErr v).
Proof. unfold push. refused_fn P 1 m. Qed.
Lemma push_slice_refused md cl vs m : refused (fst (snd (push_slice md cl vs m))) = true ->
  push_slice md cl vs m = ret (stale P m) ONone /\ push_slice md cl vs (stale P m) = ret (stale P m) ONone.
Proof. unfold push_slice. refused_fn P (length vs) m. Qed.
Lemma pop_refused mv m : refused (fst (snd (pop mv m))) = true ->
  pop mv m = ret (stale C m) ONone /\ pop mv (stale C m) = ret (stale C m) ONone.
Proof. unfold pop. refused_fn C 1 m. Qed.
Lemma extract_item_refused cl m : refused (fst (snd (extract_item cl m))) = true ->
  extract_item cl m = ret (stale C m) ONone /\ extract_item cl (stale C m) = ret (stale C m) ONone.
Proof. unfold extract_item. refused_fn C 1 m. Qed.
Lemma extract_slice_refused cl n m : refused (fst (snd (extract_slice cl n m))) = true ->
  extract_slice cl n m = ret (stale C m) ONone /\ extract_slice cl n (stale C m) = ret (stale C m) ONone.
Proof. unfold extract_slice. refused_fn C n m. Qed.

(** a grant of at most the just-refreshed availability is never refused *)
Lemma grant_stale_ok k n m : n <= fresh k m -> refused (fst (snd (grant k n (stale k m)))) = false.
Proof.
  intros H. unfold grant, check. unfold stale at 1. rewrite ca_set_ca.
  replace (n <=? fresh k m) with true by (symmetry; apply Nat.leb_le; exact H).
  destruct (rd (stale k m) (ix (it_of k (stale k m))) n). reflexivity.
Qed.

Lemma usable_stale j k m : usable j (stale k m) = usable j m. Proof. apply usable_set_ca. Qed.
Lemma attached_stale j k m : attached j (stale k m) = attached j m. Proof. apply attached_set_ca. Qed.
Lemma plain_stale k m : plain (stale k m) = plain m. Proof. apply plain_set_ca. Qed.
Lemma refresh_is k m : refresh k m = (stale k m, fresh k m). Proof. reflexivity. Qed.

(** operation-level: a refused synchronous attempt of an operation that exists as a future leaves the buffer with only
    the borrowed iterator's remembered availability refreshed, emits no ledger event, and a second attempt in that
    state is the same refusal with the same state *)
Lemma step_refused m o k : future_of o = Some k -> refused (fst (snd (step m o))) = true ->
  fst (step m o) = stale k m /\ snd (snd (step m o)) = [] /\ step (stale k m) o = step m o.
Proof.
  intros Fu. destruct o; try discriminate; cbn [future_of] in Fu; injection Fu as <-; cbn [step];
    rewrite ?usable_stale, ?attached_stale, ?plain_stale;
    (match goal with |- context[if ?c then _ else _] => destruct c eqn:Cond end; [|cbn; discriminate]).
  - intros Hr. destruct (grant_one_refused _ _ Hr) as [E1 E2]. rewrite E1, E2. cbn. auto.
  - intros Hr. destruct (grant_refused _ _ _ Hr) as [E1 E2]. rewrite E1, E2. cbn. auto.
  - rewrite refresh_stale, refresh_is. destruct (fresh k0 m) as [|n] eqn:F; [cbn; auto|].
    intros Hr. pose proof (grant_stale_ok k0 (S n) m ltac:(lia)). congruence.
  - rewrite refresh_stale, refresh_is. destruct r; [cbn; discriminate|].
    destruct (fresh k0 m - fresh k0 m mod S r) as [|n] eqn:F; [cbn; auto|].
    intros Hr. pose proof (grant_stale_ok k0 (S n) m ltac:(lia)). congruence.
  - intros Hr. destruct (push_refused _ _ _ Hr) as [E1 E2]. rewrite E1, E2. cbn. auto.
  - intros Hr. destruct (push_slice_refused _ _ _ _ Hr) as [E1 E2]. rewrite E1, E2. cbn. auto.
  - intros Hr. destruct (push_slice_refused _ _ _ _ Hr) as [E1 E2]. rewrite E1, E2. cbn. auto.
  - intros Hr. destruct (grant_one_refused _ _ Hr) as [E1 E2]. rewrite E1, E2. cbn. auto.
  - rewrite refresh_is. intros Hr. pose proof (grant_stale_ok C (fresh C m) m ltac:(lia)). congruence.
  - intros Hr. destruct (pop_refused _ _ Hr) as [E1 E2]. rewrite E1, E2. cbn. auto.
  - intros Hr. destruct (pop_refused _ _ Hr) as [E1 E2]. rewrite E1, E2. cbn. auto.
  - intros Hr. destruct (extract_item_refused _ _ Hr) as [E1 E2]. rewrite E1, E2. cbn. auto.
  - intros Hr. destruct (extract_item_refused _ _ Hr) as [E1 E2]. rewrite E1, E2. cbn. auto.
  - intros Hr. destruct (extract_slice_refused _ _ _ Hr) as [E1 E2]. rewrite E1, E2. cbn. auto.
  - intros Hr. destruct (extract_slice_refused _ _ _ Hr) as [E1 E2]. rewrite E1, E2. cbn. auto.
Qed.

(** ** [MRBFuture::poll], first poll, in every Model state *)
Theorem poll_form s k o : future_of o = Some k ->
  (refused (fst (snd (step (base s) o))) = false ->
     poll k o s = (set_base (fst (step (base s) o)) s, snd (step (base s) o))) /\
  (refused (fst (snd (step (base s) o))) = true ->
     poll k o s = (register k (set_base (fst (step (base s) o)) s), (OPending, [])) /\
     fst (step (base s) o) = stale k (base s) /\ snd (snd (step (base s) o)) = []).
Proof.
  intros Fu. split; intros Hr.
  - unfold poll. destruct (step (base s) o) as [m1 [x1 e1]]. cbn [fst snd] in *. rewrite Hr. reflexivity.
  - destruct (step_refused (base s) o k Fu Hr) as (E1 & E2 & E3).
    repeat match goal with |- _ /\ _ => split end; auto.
    unfold poll. destruct (step (base s) o) as [m1 [x1 e1]] eqn:E. cbn [fst snd] in *. rewrite Hr.
    subst m1 e1. rewrite E3. rewrite Hr. reflexivity.
Qed.

(** ** C13, async form: creating the future of [o], polling it once and dropping it ([APoll o]) leaves the buffer
    exactly as the synchronous [o] does, with the same ledger events, and returns the same output - or [Pending]
    where the synchronous form returns its refusal ([None] / [Err(value)]); in that case no ledger event occurs
    and only the remembered availability of the borrowed iterator has been refreshed. *)
Theorem C13_async_form s k o :
  future_of o = Some k -> free_iter k s = true -> det (it_of k (base s)) = false ->
  let r := step (base s) o in
  base (fst (astep s (APoll o))) = fst r /\
  snd (astep s (APoll o)) = ((if refused (fst (snd r)) then OPending else fst (snd r)), snd (snd r)) /\
  held (fst (astep s (APoll o))) = held s /\
  (refused (fst (snd r)) = true -> snd (snd r) = [] /\ fst r = stale k (base s)).
Proof.
  intros Fu Fr D. cbv zeta. cbn [astep]. rewrite Fu, Fr, D. cbn [negb andb].
  destruct (poll_form s k o Fu) as [Hready Hpend].
  destruct (refused (fst (snd (step (base s) o)))) eqn:Hr.
  - destruct (Hpend eq_refl) as (E & E1 & E2). rewrite E. cbn [fst snd base set_base register held].
    rewrite E2. repeat match goal with |- _ /\ _ => split end; auto.
  - rewrite (Hready eq_refl). cbn [fst snd base set_base held].
    repeat match goal with |- _ /\ _ => split end; auto; try discriminate.
    destruct (step (base s) o) as [m1 [x1 e1]]. reflexivity.
Qed.

(** the same against the Spec, for reachable states and contract-respecting operations: Ready carries the Spec's
    output and events and the buffer refines the Spec's next state; Pending leaves the Spec state untouched *)
Theorem C13_async_form_spec s a k o :
  Rel (base s) a -> ok_op a o = true ->
  future_of o = Some k -> free_iter k s = true -> det (it_of k (base s)) = false ->
  let r := sstep a o in
  Rel (base (fst (astep s (APoll o)))) (fst r) /\
  snd (astep s (APoll o)) = ((if refused (fst (snd r)) then OPending else fst (snd r)), snd (snd r)) /\
  (refused (fst (snd r)) = true -> fst r = a /\ snd (snd r) = []).
Proof.
  intros R OK Fu Fr D. cbv zeta.
  destruct (C13_async_form s k o Fu Fr D) as (E1 & E2 & _ & _).
  pose proof (step_refines _ _ o R OK) as [E R1].
  rewrite E1, E2, E. split; [exact R1|]. split; [reflexivity|].
  intros Hr. pose proof (AsyncFacts.sstep_refused_same a o Hr) as Same. rewrite Same. auto.
Qed.

(** * Non-vacuity and sharpness: concrete states *)

(** len 4, two stages, plain items, two items pushed *)
Definition ex_cfg : config := mkConfig [0; 0; 0; 0]%N false true false.
Definition ex_m0 : mstate :=
  do_split false (mkM 4 [0; 0; 0; 0]%N (mkTri 0 0 0) (mkTri false false false)
                      (mkTri gone_iter gone_iter gone_iter) false true false false first_clone_id).
Definition ex_a0 : pipe :=
  mkS 4 [0; 0; 0; 0]%N (mkTri 0 0 0) (mkTri 0 0 0) (mkTri false false false)
      (mkTri true false true) (mkTri true false true) false true false false first_clone_id.
Definition ex_m : mstate := fst (run ex_m0 [Push 11; Push 22]%N).
Definition ex_a : pipe := fst (fst (srun ex_a0 [Push 11; Push 22]%N)).

Example ex_init : init ex_cfg = Some ex_m0 /\ a_init ex_cfg = Some ex_a0.
Proof. split; reflexivity. Qed.

Example ex_rel : Rel ex_m ex_a.
Proof.
  pose proof (init_refines ex_cfg) as R0. destruct ex_init as [-> ->] in R0.
  pose proof (run_refines [Push 11; Push 22]%N ex_m0 ex_a0 R0) as H.
  unfold ex_m, ex_a. destruct (srun ex_a0 [Push 11; Push 22]%N) as [[a' ys] ok] eqn:Es.
  assert (Hok : ok = true) by (apply (f_equal snd) in Es; vm_compute in Es; congruence).
  specialize (H Hok). destruct (run ex_m0 [Push 11; Push 22]%N) as [m' xs]. destruct H as [_ R]. exact R.
Qed.

(** the hypotheses of the detached-form theorems hold there *)
Example ex_hyps :
  attached C ex_m = true /\ msynced C ex_m /\ a_attached C ex_a = true /\ synced C ex_a /\ tape_covers ex_a /\
  ok_op ex_a (Advance C 1) = true /\ snd (srun ex_a [GetExact C 2; Poke C 0 7%N; Advance C 1; GetOne C; Advance C 1]) = true.
Proof. vm_compute. repeat match goal with |- _ /\ _ => split end; auto. Qed.

(** consumer: detach, advance 1, attach = advance 1 (Model and Spec), in numbers *)
Example ex_model_advance :
  run ex_m [Detach C; Advance C 1; Attach C] = (fst (run ex_m [Advance C 1]), [(OUnit, []); (OUnit, []); (OUnit, [])]) /\
  fst (run ex_m [Advance C 1]) =
  mkM 4 [11; 22; 0; 0]%N (mkTri 2 0 1) (mkTri true false true)
      (mkTri (mkIter 2 1 false true) gone_iter (mkIter 1 0 false true)) false true false false first_clone_id.
Proof. vm_compute. split; reflexivity. Qed.

Example ex_spec_advance :
  srun ex_a [Detach C; Advance C 1; Attach C] =
  (fst (fst (srun ex_a [Advance C 1])), [(OUnit, []); (OUnit, []); (OUnit, [])], true) /\
  tape (fst (fst (srun ex_a [Advance C 1]))) = [11; 22; 0; 0; 11]%N /\
  ppos (fst (fst (srun ex_a [Advance C 1]))) = mkTri 2 0 1.
Proof. vm_compute. repeat match goal with |- _ /\ _ => split end; reflexivity. Qed.

(** a block with grants, a write through the granted reference, and two advances *)
Definition ex_block : list op := [GetExact C 2; Poke C 0 7%N; Advance C 1; GetOne C; Advance C 1].

Example ex_model_block :
  run ex_m ([Detach C] ++ ex_block ++ [Attach C]) =
  (fst (run ex_m ex_block), (OUnit, []) :: snd (run ex_m ex_block) ++ [(OUnit, [])]) /\
  map fst (snd (run ex_m ex_block)) = [OSlices 0 [11; 22]%N []; OUnit; OUnit; ORef 1 22%N; OUnit].
Proof. vm_compute. split; reflexivity. Qed.

Example ex_spec_block :
  srun ex_a ([Detach C] ++ ex_block ++ [Attach C]) =
  (fst (fst (srun ex_a ex_block)), (OUnit, []) :: snd (fst (srun ex_a ex_block)) ++ [(OUnit, [])], true) /\
  tape (fst (fst (srun ex_a ex_block))) = [7; 22; 0; 0; 7; 22]%N.
Proof. vm_compute. split; reflexivity. Qed.

(** producer: detach, look at the next slot, write it, advance, attach = the same without detaching *)
Example ex_model_producer :
  run ex_m [Detach P; GetExact P 1; PokeInit P 0 33%N; Advance P 1; Attach P] =
  (fst (run ex_m [GetExact P 1; PokeInit P 0 33%N; Advance P 1]),
   (OUnit, []) :: snd (run ex_m [GetExact P 1; PokeInit P 0 33%N; Advance P 1]) ++ [(OUnit, [])]) /\
  slots (fst (run ex_m [GetExact P 1; PokeInit P 0 33%N; Advance P 1])) = [11; 22; 33; 0]%N /\
  tP (pub (fst (run ex_m [GetExact P 1; PokeInit P 0 33%N; Advance P 1]))) = 3.
Proof. vm_compute. repeat match goal with |- _ /\ _ => split end; reflexivity. Qed.

(** reset_index, attached and detached *)
Example ex_model_reset :
  run ex_m [Detach C; DReset C; Attach C] = (fst (step ex_m (Reset C)), [(OUnit, []); (OUnit, []); (OUnit, [])]) /\
  tC (pub (fst (step ex_m (Reset C)))) = 2.
Proof. vm_compute. split; reflexivity. Qed.

(** sharpness 1: [msynced] cannot be dropped from the Model theorem for arbitrary (unreachable) records: with a
    published consumer index 1 and a local index 0, detach / attach republishes *)
Definition ex_unsynced : mstate :=
  mkM 4 [0; 0; 0; 0]%N (mkTri 0 0 1) (mkTri true false true) (mkTri new_iter gone_iter new_iter)
      false true false false first_clone_id.

Example model_detached_form_unsynced_refuted :
  attached C ex_unsynced = true /\ det_form C (Avail C) = true /\
  fst (run ex_unsynced [Detach C; Avail C; Attach C]) <> fst (step ex_unsynced (Avail C)).
Proof.
  repeat match goal with |- _ /\ _ => split end; try reflexivity.
  intros H. apply (f_equal (fun x => tC (pub x))) in H. vm_compute in H. discriminate.
Qed.

(** sharpness 2: on the Spec the block form needs the contract (the Model does not): a write beyond the granted
    window (offset 3 with availability 0) lands on a tape position that exists only once the consumer has published *)
Definition ex_bad_block : list op := [Advance C 2; Poke C 3 9%N].

Example spec_detached_block_without_contract_refuted :
  a_attached C ex_a = true /\ synced C ex_a /\ tape_covers ex_a /\
  Forall (fun o => det_form C o = true) ex_bad_block /\
  snd (srun ex_a ex_bad_block) = false /\
  tape (fst (fst (srun ex_a ([Detach C] ++ ex_bad_block ++ [Attach C])))) = [11; 22; 0; 0; 11; 22]%N /\
  tape (fst (fst (srun ex_a ex_bad_block))) = [11; 22; 0; 0; 11; 9]%N /\
  (* while the Model agrees even there *)
  run ex_m ([Detach C] ++ ex_bad_block ++ [Attach C]) =
  (fst (run ex_m ex_bad_block), (OUnit, []) :: snd (run ex_m ex_bad_block) ++ [(OUnit, [])]).
Proof.
  repeat match goal with |- _ /\ _ => split end; vm_compute; auto.
Qed.

(** async: the consumer's [pop] future resolves at the first poll with the synchronous result ... *)
Example ex_async_ready :
  astep (a_init_state ex_m) (APoll Pop) = (set_base (fst (step ex_m Pop)) (a_init_state ex_m), (OVal 11%N, [])) /\
  snd (step ex_m Pop) = (OVal 11%N, []).
Proof. vm_compute. split; reflexivity. Qed.

(** ... and a request for three items when two are there is Pending; the only trace in the buffer is the
    consumer's remembered availability, refreshed from 0 to 2 exactly as by the refused synchronous call *)
Example ex_async_pending :
  snd (astep (a_init_state ex_m) (APoll (CopySlice 3))) = (OPending, []) /\
  snd (step ex_m (CopySlice 3)) = (ONone, []) /\
  base (fst (astep (a_init_state ex_m) (APoll (CopySlice 3)))) = fst (step ex_m (CopySlice 3)) /\
  fst (step ex_m (CopySlice 3)) = set_ca C 2 ex_m /\ ca (it_of C ex_m) = 0.
Proof. vm_compute. repeat match goal with |- _ /\ _ => split end; reflexivity. Qed.

Print Assumptions model_detached_block.
Print Assumptions model_detached_form.
Print Assumptions model_reset_form.
Print Assumptions spec_detached_block.
Print Assumptions spec_detached_form.
Print Assumptions spec_reset_form.
Print Assumptions C13_detached_block.
Print Assumptions C13_detached_form.
Print Assumptions C13_reset_form.
Print Assumptions poll_form.
Print Assumptions C13_async_form.
Print Assumptions C13_async_form_spec.
Print Assumptions ex_rel.
Print Assumptions model_detached_form_unsynced_refuted.
Print Assumptions spec_detached_block_without_contract_refuted.
