(** * The refinement relation between Model states and Spec states, and its basic consequences. *)
From Coq Require Import List Arith NArith Bool Lia.
Import ListNotations.
Require Import MRB.Base.Ring MRB.Base.ListAux MRB.Model.Types MRB.Model.Seq MRB.Spec.Pipe.

Record Rel (m : mstate) (a : pipe) : Prop := mkRel {
  r_len : mlen m = slen a;
  r_pos : 0 < slen a;
  r_slots : length (slots m) = slen a;
  r_tape : length (tape a) = tC (ppos a) + slen a;
  (* I2: every ring index is the position modulo len *)
  r_pub : forall k, tget k (pub m) = tget k (ppos a) mod slen a;
  r_here : forall k, here (it_of k m) = tget k (shere a);
  r_it : forall k, tget k (shere a) = true ->
           det (it_of k m) = tget k (sdet a) /\
           ix (it_of k m) = tget k (lpos a) mod slen a /\
           (* I3: the remembered availability never exceeds the true one *)
           ca (it_of k m) <= a_avail k a;
  (* I4: an attached (or absent) iterator's local position is its published one *)
  r_att : forall k, tget k (sdet a) = false -> tget k (lpos a) = tget k (ppos a);
  r_gone : forall k, tget k (shere a) = false -> tget k (sdet a) = false;
  r_flag : flag m = sflag a;
  r_hasW : hasW m = shasW a;
  r_heap : heap m = sheap a;
  r_owned : owned m = sowned a;
  r_freed : freed m = sfreed a;
  r_nid : nid m = snid a;
  r_noW : shasW a = false -> tW (shere a) = false /\ tW (ppos a) = 0;
  (* stage order and capacity, on positions *)
  r_oC : tC (ppos a) <= tC (lpos a) <= a_succ C a;
  r_oW : shasW a = true -> tW (ppos a) <= tW (lpos a) <= tP (ppos a);
  r_oP : tP (ppos a) <= tP (lpos a) <= tC (ppos a) + slen a - 1;
  r_oS : a_succ C a <= tP (ppos a);
  (* I5: contents of the live window *)
  r_cont : forall p, tC (ppos a) <= p < tC (ppos a) + slen a ->
             nth (p mod slen a) (slots m) 0%N = nth p (tape a) 0%N
}.

Lemma usable_eq m a k : Rel m a -> usable k m = a_usable k a.
Proof.
  intros R. unfold usable, a_usable. rewrite (r_freed _ _ R), (r_here _ _ R k), (r_hasW _ _ R). reflexivity.
Qed.

Lemma usable_here a k : a_usable k a = true -> tget k (shere a) = true.
Proof. unfold a_usable. intros H. apply andb_prop in H as [H _]. apply andb_prop in H as [_ H]. exact H. Qed.

Lemma usable_W a : a_usable W a = true -> shasW a = true.
Proof. unfold a_usable. intros H. apply andb_prop in H as [_ H]. exact H. Qed.

Lemma attached_eq m a k : Rel m a -> attached k m = a_attached k a.
Proof.
  intros R. unfold attached, a_attached. rewrite (usable_eq m a k R).
  destruct (a_usable k a) eqn:U; simpl; auto.
  destruct (r_it _ _ R k (usable_here _ _ U)) as (D & _). rewrite D. reflexivity.
Qed.

Lemma detached_eq m a k : Rel m a -> detached k m = a_detached k a.
Proof.
  intros R. unfold detached, a_detached. rewrite (usable_eq m a k R).
  destruct (a_usable k a) eqn:U; simpl; auto.
  destruct (r_it _ _ R k (usable_here _ _ U)) as (D & _). rewrite D. reflexivity.
Qed.

Lemma plain_eq m a : Rel m a -> plain m = a_plain a.
Proof. intros R. unfold plain, a_plain. rewrite (r_owned _ _ R). reflexivity. Qed.

(** positions of every usable iterator lie inside the live window, and so does everything it may be granted *)
Lemma window_bounds m a k : Rel m a -> a_usable k a = true ->
  tC (ppos a) <= tget k (lpos a) /\ tget k (lpos a) + a_avail k a <= tC (ppos a) + slen a - 1.
Proof.
  intros R U. pose proof (r_oC _ _ R) as HC. pose proof (r_oP _ _ R) as HP. pose proof (r_oS _ _ R) as HS.
  pose proof (r_pos _ _ R) as Hl.
  destruct k; unfold a_avail; simpl.
  - unfold a_succ. lia.
  - pose proof (r_oW _ _ R (usable_W _ U)) as HW. unfold a_succ in *. simpl in *.
    rewrite (usable_W _ U) in *. lia.
  - unfold a_succ in *. destruct (shasW a); lia.
Qed.

(** fresh availability computed by the Model = true availability of the Spec *)
Lemma fresh_eq m a k : Rel m a -> a_usable k a = true -> fresh k m = a_avail k a.
Proof.
  intros R U. pose proof (usable_here _ _ U) as H.
  destruct (r_it _ _ R k H) as (_ & Hix & _).
  pose proof (r_pos _ _ R) as Hl.
  pose proof (window_bounds m a k R U) as [Hlo Hhi].
  unfold fresh. rewrite (r_len _ _ R), Hix.
  pose proof (r_oC _ _ R) as HC. pose proof (r_oP _ _ R) as HP. pose proof (r_oS _ _ R) as HS.
  pose proof (r_pub _ _ R P) as EP. pose proof (r_pub _ _ R W) as EW. pose proof (r_pub _ _ R C) as EC.
  simpl in EP, EW, EC.
  destruct k; unfold avail_of, succ_idx, a_avail, a_succ in *; simpl in *.
  - rewrite EC. rewrite pavail_mod by lia. lia.
  - pose proof (r_oW _ _ R (usable_W _ U)) as HW. rewrite EP.
    rewrite dist_mod by lia. reflexivity.
  - rewrite (r_hasW _ _ R). destruct (shasW a) eqn:E.
    + rewrite EW. rewrite dist_mod by lia. reflexivity.
    + rewrite EP. rewrite dist_mod by lia. reflexivity.
Qed.
