(** * C14 / C15: polling an async operation *)
From Coq Require Import List Arith NArith Bool Lia.
Import ListNotations.
Require Import MRB.Base.Ring MRB.Base.ListAux MRB.Model.Types MRB.Model.Seq MRB.Spec.Pipe MRB.Model.Async.
Require Import MRB.Proofs.Rel MRB.Proofs.TapeFacts MRB.Proofs.Refine.

(** in the Spec a refused request changes nothing and produces no ledger event *)
Lemma sstep_refused_same a o : refused (fst (snd (sstep a o))) = true -> sstep a o = (a, (fst (snd (sstep a o)), [])).
Proof.
  destruct o; cbn [sstep];
    unfold a_grant, a_grant_one, a_push, a_push_slice, a_pop, a_extract_item, a_extract_slice, a_poke, a_edit, a_drop_iter,
           a_ret, a_rete, a_bad, a_window;
    repeat (match goal with
     | |- context[if ?c then _ else _] => destruct c eqn:?
     | |- context[match ?x with _ => _ end] => destruct x eqn:?
     end; cbn [fst snd refused]); intros H; try discriminate; try reflexivity.
Qed.

Section Poll.
Variables (s : astate) (a : pipe) (k : stage) (o : op).
Hypothesis R : Rel (base s) a.
Hypothesis OK : ok_op a o = true.

(** the sync attempt succeeds: the poll resolves with its result, and the state is the sync one *)
Theorem poll_ready : refused (fst (snd (step (base s) o))) = false ->
  poll k o s = (set_base (fst (step (base s) o)) s, snd (step (base s) o)) /\
  Rel (fst (step (base s) o)) (fst (sstep a o)) /\ snd (step (base s) o) = snd (sstep a o).
Proof.
  intros H. pose proof (step_refines _ _ o R OK) as [E R1].
  unfold poll. destruct (step (base s) o) as [m1 [x1 e1]]. simpl in *. rewrite H. auto.
Qed.

(** the sync attempt fails: Pending, no ledger event, the buffer as the Spec sees it is untouched, and the polling
    task's waker is the one registered in the iterator *)
Theorem poll_pending : refused (fst (snd (step (base s) o))) = true ->
  exists m2, poll k o s = (register k (set_base m2 s), (OPending, [])) /\
    Rel m2 a /\ sstep a o = (a, (fst (snd (sstep a o)), [])) /\
    tget k (wk (fst (poll k o s))) = Some (task s) /\ held (fst (poll k o s)) = held s.
Proof.
  intros H. pose proof (step_refines _ _ o R OK) as [E R1].
  assert (Hs : refused (fst (snd (sstep a o))) = true) by (rewrite <- E; exact H).
  pose proof (sstep_refused_same a o Hs) as Same.
  unfold poll. destruct (step (base s) o) as [m1 [x1 e1]] eqn:E1. simpl in *. rewrite H.
  rewrite Same in R1, E. simpl in R1, E.
  pose proof (step_refines m1 a o R1 OK) as [E2 R2].
  destruct (step m1 o) as [m2 [x2 e2]] eqn:E2'. simpl in *.
  rewrite Same in R2, E2. simpl in R2, E2. inversion E; subst. inversion E2; subst.
  rewrite Hs. exists m2. simpl. rewrite tget_tset_same. repeat match goal with |- _ /\ _ => split end; auto.
Qed.
End Poll.

(** two Model states related to the same Spec state show the same buffer: indices, flags, contents *)
Lemma same_spec_same_buffer m m' a : Rel m a -> Rel m' a ->
  pub m = pub m' /\ slots m = slots m' /\ flag m = flag m' /\ freed m = freed m' /\
  forall j, tget j (shere a) = true -> ix (it_of j m) = ix (it_of j m') /\ det (it_of j m) = det (it_of j m').
Proof.
  intros R R'. repeat match goal with |- _ /\ _ => split end.
  - pose proof (r_pub _ _ R) as A. pose proof (r_pub _ _ R') as B.
    destruct (pub m) as [p w c], (pub m') as [p' w' c'].
    pose proof (A P); pose proof (A W); pose proof (A C); pose proof (B P); pose proof (B W); pose proof (B C). simpl in *. congruence.
  - rewrite (slots_ring m a R), (slots_ring m' a R'). reflexivity.
  - rewrite (r_flag _ _ R), (r_flag _ _ R'). reflexivity.
  - rewrite (r_freed _ _ R), (r_freed _ _ R'). reflexivity.
  - intros j Hj. destruct (r_it _ _ R j Hj) as (A & B & _). destruct (r_it _ _ R' j Hj) as (A' & B' & _). split; congruence.
Qed.

(** nothing ever wakes *)
Theorem never_woken s o : wakes (fst (astep s o)) = wakes s.
Proof.
  assert (PW : forall k f s0, wakes (fst (poll k f s0)) = wakes s0).
  { intros k f s0. unfold poll. destruct (step (base s0) f) as [m1 [x1 e1]]. destruct (refused x1); [|reflexivity].
    destruct (step m1 f) as [m2 [x2 e2]]. destruct (refused x2); reflexivity. }
  destruct o; simpl.
  - destruct (direct_of o (base s)); [|reflexivity]. destruct (free_iter s0 s); [|reflexivity].
    destruct (step (base s) o). reflexivity.
  - destruct (future_of o); [|reflexivity]. destruct (free_iter s0 s && negb (det (it_of s0 (base s)))); [|reflexivity]. apply PW.
  - destruct (future_of o); [|reflexivity]. destruct (free_iter s0 s && negb (det (it_of s0 (base s)))); [|reflexivity].
    pose proof (PW s0 o s) as H. destruct (poll s0 o s) as [s1 [x e]]. simpl in *. destruct x; simpl; auto.
  - destruct (tget k (held s)); [|reflexivity].
    pose proof (PW k o s) as H. destruct (poll k o s) as [s1 [x e]]. simpl in *. destruct x; simpl; auto.
  - destruct (tget k (held s)); reflexivity.
  - reflexivity.
  - destruct (free_iter k s && usable k (base s) && negb (det (it_of k (base s)))); reflexivity.
Qed.

Theorem never_woken_run h : forall s, wakes (fst (arun s h)) = wakes s.
Proof.
  induction h as [|o r IH]; intros s; simpl; auto.
  pose proof (never_woken s o) as H. destruct (astep s o) as [s1 x]. simpl in H.
  specialize (IH s1). destruct (arun s1 r) as [s2 xs]. simpl in *. congruence.
Qed.

(** * P-tie: [MRBFuture::poll] as the source runs it (gen/PollGen.v: the body executed symbolically on every run - one attempt; if it
      fails, registration of the polling task's waker, then a second attempt; [Pending] only after that) is the Model's [poll]. *)
Require Import MRB.Model.PollShape MRB.gen.PollGen.

Theorem poll_is_source_shape k o s : poll_by_shape PollGen.poll_shape k o s = Some (poll k o s).
Proof.
  unfold PollGen.poll_shape, poll. cbn [poll_by_shape run_entry run_events].
  destruct (step (base s) o) as [m1 [x1 e1]] eqn:E1. cbn [app].
  destruct (refused x1) eqn:R1; cbn [negb Bool.eqb].
  - (* first attempt fails *)
    change (base (register k (set_base m1 s))) with m1.
    destruct (step m1 o) as [m2 [x2 e2]] eqn:E2.
    destruct (refused x2) eqn:R2; cbn [negb Bool.eqb]; reflexivity.
  - reflexivity.
Qed.

Theorem poll_source_closed : PollGen.poll_clean = true.
Proof. reflexivity. Qed.
