(** * K-tie: the arithmetic kernels TRANSLATED FROM THE RUST SOURCE on every run (gen/Kernels.v) equal, for all inputs,
      the functions the Model and all the theorems are about - and never hit an undefined [unchecked_*] operation.
      Preconditions: indices below [len], and [2*len] (resp. [cached + len]) representable, which holds because a Rust
      allocation is at most [isize::MAX] bytes. *)
From Coq Require Import List Arith Bool Lia.
Import ListNotations.
Require Import MRB.Base.Ring MRB.Model.Types MRB.Model.Seq MRB.Model.KernelM MRB.gen.Kernels.

Opaque usize_max.

Ltac kt := unfold run, bind, ret, get_index, get_cached, set_index, set_cached, publish, succ_index, buf_len, uadd, usub, ssub,
  orelse, geb, gtb; simpl.
Ltac bt e := replace e with true by (symmetry; first [apply Nat.leb_le | apply Nat.ltb_lt]; lia).
Ltac bf e := replace e with false by (symmetry; first [apply Nat.leb_gt | apply Nat.ltb_ge]; lia).

Ltac dec := repeat (match goal with
  | |- context[if ?a <=? ?b then _ else _] => first [bt (a <=? b) | bf (a <=? b)]
  | |- context[if ?a <? ?b then _ else _] => first [bt (a <? b) | bf (a <? b)]
  | |- context[?a <=? ?b] => first [bt (a <=? b) | bf (a <=? b)]
  | |- context[?a <? ?b] => first [bt (a <? b) | bf (a <? b)]
  end; cbn [fst snd l_index l_cached app]).

(** robust finishers: the proofs below do not depend on HOW the source writes its arithmetic - every comparison of the goal is split
    with its specification, equalities of results are closed componentwise by [lia] (so [a - b - 1] and [a - (b + 1)], swapped
    branches, negated conditions ... all go through), contradictory branches by [lia] as well *)
Ltac eqm :=
  lazymatch goal with
  | |- Some _ = Some _ => apply f_equal; eqm
  | |- (_, _) = (_, _) => apply f_equal2; eqm
  | |- mkL _ _ = mkL _ _ => apply f_equal2; eqm
  | |- @eq nat _ _ => lia
  | |- cons _ _ = cons _ _ => apply f_equal2; eqm
  | |- _ => first [reflexivity | exfalso; lia]
  end.
Ltac split_cmp :=
  repeat (match goal with
  | |- context[?a <=? ?b] => destruct (Nat.leb_spec a b)
  | |- context[?a <? ?b] => destruct (Nat.ltb_spec a b)
  | |- context[?a =? ?b] => destruct (Nat.eqb_spec a b)
  | |- context[negb true] => cbn [negb]
  | |- context[negb false] => cbn [negb]
  end; cbn [fst snd l_index l_cached app andb orb negb]).
Ltac crunch := split_cmp; first [eqm | exfalso; lia].

Section Tie.
Variables (len succ ix ca : nat).
Hypothesis Hix : ix < len.
Hypothesis Hsucc : succ < len.
Hypothesis Hmax : len + len < usize_max.
Local Notation E := (mkE succ len).
Local Notation s := (mkL ix ca).

Theorem tie_prod_available : run (g_prod_available E) s = Some (pavail len ix succ, mkL ix (pavail len ix succ), []).
Proof.
  unfold g_prod_available, pavail. kt. crunch.
Qed.

Theorem tie_work_available : run (g_work_available E) s = Some (dist len ix succ, mkL ix (dist len ix succ), []).
Proof.
  unfold g_work_available, dist. kt. crunch.
Qed.

Theorem tie_cons_available : run (g_cons_available E) s = Some (dist len ix succ, mkL ix (dist len ix succ), []).
Proof.
  unfold g_cons_available, dist. kt. crunch.
Qed.

Theorem tie_advance_local n : n <= len ->
  run (g_advance_local E n) s = Some (tt, mkL (wadd len ix n) (ca - n), []).
Proof.
  intros Hn. unfold g_advance_local, wadd. kt. crunch.
Qed.

Theorem tie_advance n : n <= len ->
  run (g_advance E n) s = Some (tt, mkL (wadd len ix n) (ca - n), [wadd len ix n]).
Proof.
  intros Hn. pose proof (tie_advance_local n Hn) as T. unfold run in T.
  unfold g_advance, run, bind. rewrite T. reflexivity.
Qed.

(** [check]: the decision and the refreshed remembered availability, for each of the three [_available] *)
Theorem tie_check_prod n :
  run (g_check E (g_prod_available E) n) s =
  Some (if n <=? ca then true else n <=? pavail len ix succ, if n <=? ca then s else mkL ix (pavail len ix succ), []).
Proof.
  pose proof tie_prod_available as T. unfold run in T.
  unfold g_check, run, bind, get_cached, orelse, geb, ret. cbn [l_cached].
  destruct (n <=? ca) eqn:C; [reflexivity|]. rewrite T. reflexivity.
Qed.

Theorem tie_check_cons n :
  run (g_check E (g_cons_available E) n) s =
  Some (if n <=? ca then true else n <=? dist len ix succ, if n <=? ca then s else mkL ix (dist len ix succ), []).
Proof.
  pose proof tie_cons_available as T. unfold run in T.
  unfold g_check, run, bind, get_cached, orelse, geb, ret. cbn [l_cached].
  destruct (n <=? ca) eqn:C; [reflexivity|]. rewrite T. reflexivity.
Qed.

Theorem tie_check_work n :
  run (g_check E (g_work_available E) n) s =
  Some (if n <=? ca then true else n <=? dist len ix succ, if n <=? ca then s else mkL ix (dist len ix succ), []).
Proof.
  pose proof tie_work_available as T. unfold run in T.
  unfold g_check, run, bind, get_cached, orelse, geb, ret. cbn [l_cached].
  destruct (n <=? ca) eqn:C; [reflexivity|]. rewrite T. reflexivity.
Qed.

Theorem tie_reset : run (g_cons_reset E) s = Some (tt, mkL succ 0, [succ]) /\ run (g_work_reset E) s = Some (tt, mkL succ 0, [succ]).
Proof. split; reflexivity. Qed.

Theorem tie_set_index i : run (g_set_index E i) s = Some (tt, mkL i 0, []).
Proof. reflexivity. Qed.
Theorem tie_dreset : run (g_dreset E) s = Some (tt, mkL succ 0, []).
Proof. reflexivity. Qed.
Theorem tie_sync : run (g_sync_index E) s = Some (tt, s, [ix]) /\ run (g_sync_index_async E) s = Some (tt, s, [ix]).
Proof. split; reflexivity. Qed.

(** [attach] (both wrappers): one publication of the local index, nothing else *)
Theorem tie_attach : run (g_attach E) s = Some (tt, s, [ix]) /\ run (g_attach_async E) s = Some (tt, s, [ix]).
Proof. split; reflexivity. Qed.

(** [go_back] (after fix F2): defined whenever the move stays within one lap, and then lands on [wsub] *)
Theorem tie_go_back n : n <= len -> ca + n < usize_max ->
  run (g_go_back E n) s = Some (tt, mkL (wsub len ix n) (ca + n), []) /\
  run (g_go_back_async E n) s = Some (tt, mkL (wsub len ix n) (ca + n), []).
Proof.
  intros Hn Hc. unfold g_go_back, g_go_back_async, wsub. kt.
  destruct (Nat.lt_ge_cases ix n) as [C|C]; dec; split; reflexivity.
Qed.

Theorem tie_dadvance n : n <= len ->
  run (g_dadvance E n) s = Some (tt, mkL (wadd len ix n) (ca - n), []) /\ run (g_dadvance_async E n) s = Some (tt, mkL (wadd len ix n) (ca - n), []).
Proof.
  intros Hn. pose proof (tie_advance_local n Hn) as T. unfold run in T.
  unfold g_dadvance, g_dadvance_async, run, bind. rewrite T. split; reflexivity.
Qed.

(** [next_chunk(_mut)]: the wrap condition and the slice lengths are [chunk] *)
Theorem tie_next_chunk n : n <= len ->
  let '(h, t) := chunk len ix n in
  exists w, run (g_next_chunk_cond E n) s = Some (w, s, []) /\ run (g_next_chunk_mut_cond E n) s = Some (w, s, []) /\
    (w = true -> run (g_next_chunk_head E n) s = Some (h, s, []) /\ run (g_next_chunk_tail E n) s = Some (t, s, []) /\
                 run (g_next_chunk_mut_head E n) s = Some (h, s, []) /\ run (g_next_chunk_mut_tail E n) s = Some (t, s, [])) /\
    (w = false -> run (g_next_chunk_nowrap E n) s = Some (h, s, []) /\ run (g_next_chunk_mut_nowrap E n) s = Some (h, s, []) /\ t = 0).
Proof.
  intros Hn. unfold chunk. destruct (len <=? ix + n) eqn:C; [apply Nat.leb_le in C | apply Nat.leb_gt in C].
  - exists true. unfold g_next_chunk_cond, g_next_chunk_mut_cond, g_next_chunk_head, g_next_chunk_tail, g_next_chunk_mut_head, g_next_chunk_mut_tail.
    repeat split; intros; try discriminate; kt; dec; try reflexivity; lia.
  - exists false. unfold g_next_chunk_cond, g_next_chunk_mut_cond, g_next_chunk_nowrap, g_next_chunk_mut_nowrap.
    repeat split; intros; try discriminate; kt; dec; try reflexivity; lia.
Qed.
End Tie.

(** the Model's [check] is exactly the translated one (on the iterator-local state) *)
Theorem model_check_is_translated k n m :
  fst (check k n m) = (if n <=? ca (it_of k m) then true else n <=? fresh k m) /\
  ca (it_of k (snd (check k n m))) = (if n <=? ca (it_of k m) then ca (it_of k m) else fresh k m) /\
  ix (it_of k (snd (check k n m))) = ix (it_of k m).
Proof.
  unfold check, refresh. destruct (n <=? ca (it_of k m)); simpl; auto.
  unfold set_ca, it_of, set_it. simpl. rewrite tget_tset_same. simpl. auto.
Qed.

Theorem kernels_closed : Kernels.extractor_clean = true.
Proof. reflexivity. Qed.
