(** * C08 / C09: the ownership ledger of owned items.

    [live m]: the values the buffer owns (non-empty cells of an unreleased buffer).  Every operation is
    accounted for: what enters (taken from the caller, cloned into the buffer) equals what stays plus what
    leaves (destroyed, handed out, or - off contract - lost).  Under the documented initialisation rules no
    empty cell is ever read or dropped and nothing is lost, so every value leaves exactly once. *)
From Coq Require Import List Arith NArith Bool Lia.
Import ListNotations.
Require Import MRB.Base.Ring MRB.Base.ListAux MRB.Model.Types MRB.Model.Seq MRB.Spec.Pipe.
Require Import MRB.Proofs.Rel MRB.Proofs.TapeFacts MRB.Proofs.Refine.

Definition live (m : mstate) : list N := if freed m then [] else slots m.
Definition cnt (v : N) (l : list N) : nat := count_occ N.eq_dec l v.
Definition is (v x : N) : nat := if N.eq_dec x v then 1 else 0.
Arguments cnt : simpl never.
Arguments is : simpl never.

Definition ev_in (v : N) (e : lev) : nat := match e with LTake x | LMake x => is v x | _ => 0 end.
Definition ev_out (v : N) (e : lev) : nat := match e with LDrop x | LGive x | LLost x => is v x | _ => 0 end.
Definition ins (v : N) (l : list lev) : nat := fold_right (fun e n => ev_in v e + n) 0 l.
Definition outs (v : N) (l : list lev) : nat := fold_right (fun e n => ev_out v e + n) 0 l.

(** clones made by [clone_item] / [clone_slice] go straight to the caller *)
Definition handed (o : op) : bool := match o with CloneItem | CloneSlice _ => true | _ => false end.

(** the caller never passes an all-zero value as a live one *)
Definition vals_ok (o : op) : bool :=
  match o with
  | Push v | PushInit v | Poke _ _ v | PokeInit _ _ v => negb (isz v)
  | PushSliceClone vs | PushSliceCloneInit vs => forallb (fun v => negb (isz v)) vs
  | _ => true
  end.

Lemma ins_app v l1 l2 : ins v (l1 ++ l2) = ins v l1 + ins v l2.
Proof. induction l1; simpl; auto. rewrite IHl1. lia. Qed.
Lemma outs_app v l1 l2 : outs v (l1 ++ l2) = outs v l1 + outs v l2.
Proof. induction l1; simpl; auto. rewrite IHl1. lia. Qed.
Lemma cnt_app v l1 l2 : cnt v (l1 ++ l2) = cnt v l1 + cnt v l2.
Proof. unfold cnt. apply count_occ_app. Qed.
Lemma cnt_cons v x l : cnt v (x :: l) = is v x + cnt v l.
Proof. unfold cnt, is. simpl. destruct (N.eq_dec x v); lia. Qed.

Lemma cnt_upd v i x l : i < length l ->
  cnt v (upd i x l) + is v (nth i l 0%N) = cnt v l + is v x.
Proof.
  revert i; induction l as [|y l IH]; intros i H; simpl in *; [lia|].
  destruct i; simpl.
  - rewrite !cnt_cons. lia.
  - rewrite !cnt_cons. specialize (IH i ltac:(lia)). lia.
Qed.

Lemma sub_cons_nth (l : list N) i n : i < length l -> sub l i (S n) = nth i l 0%N :: sub l (S i) n.
Proof.
  revert i; induction l as [|y l IH]; intros i H; simpl in *; [lia|].
  destruct i; simpl; auto. unfold sub in *. simpl. apply IH. lia.
Qed.

Lemma sub_upd_after (l : list N) i x j n : i < j -> sub (upd i x l) j n = sub l j n.
Proof.
  intros H. apply (nth_ext_d 0%N).
  - unfold sub. rewrite !firstn_length, !skipn_length, upd_length. reflexivity.
  - intros k Hk. unfold sub in *. rewrite firstn_length in Hk.
    rewrite !(nth_firstn_lt 0%N) by lia. rewrite !(nth_skipn_add 0%N). apply nth_upd_neq. lia.
Qed.

Lemma cnt_write v l i vs : i + length vs <= length l ->
  cnt v (write l i vs) + cnt v (sub l i (length vs)) = cnt v l + cnt v vs.
Proof.
  revert l i; induction vs as [|x vs IH]; intros l i H; simpl in *.
  - unfold sub. simpl. unfold cnt. simpl. lia.
  - rewrite sub_cons_nth by lia. rewrite !cnt_cons.
    specialize (IH (upd i x l) (S i)). rewrite upd_length in IH. specialize (IH ltac:(lia)).
    rewrite sub_upd_after in IH by lia.
    pose proof (cnt_upd v i x l ltac:(lia)). lia.
Qed.

Lemma sub_write_before (l : list N) i vs n : n <= i -> i + length vs <= length l -> sub (write l i vs) 0 n = sub l 0 n.
Proof.
  intros H Hb. apply (nth_ext_d 0%N).
  - unfold sub. rewrite !firstn_length, !skipn_length, write_length. reflexivity.
  - intros k Hk. unfold sub in *. rewrite firstn_length in Hk. simpl in *.
    rewrite !(nth_firstn_lt 0%N) by lia.
    rewrite (nth_write 0%N) by auto. bf (i <=? k). reflexivity.
Qed.

(** the two-slice write of [_push_slice]: what it overwrites is what the two slices held *)
Lemma cnt_wr v m i vs : length (slots m) = mlen m -> i < mlen m -> length vs <= mlen m ->
  cnt v (slots (wr m i vs)) + cnt v (fst (rd m i (length vs)) ++ snd (rd m i (length vs))) = cnt v (slots m) + cnt v vs.
Proof.
  intros Hl Hi Hn. unfold wr, rd. pose proof (chunk_sum (mlen m) i (length vs) Hi) as Hs.
  pose proof (chunk_bounds (mlen m) i (length vs) Hi Hn) as [Hb1 Hb2].
  destruct (chunk (mlen m) i (length vs)) as [h t]. simpl in *.
  rewrite cnt_app.
  pose proof (cnt_write v (slots m) i (firstn h vs)) as W1. rewrite firstn_length in W1.
  replace (Nat.min h (length vs)) with h in W1 by lia. specialize (W1 ltac:(lia)).
  pose proof (cnt_write v (write (slots m) i (firstn h vs)) 0 (skipn h vs)) as W2.
  rewrite skipn_length, write_length in W2. replace (length vs - h) with t in W2 by lia. specialize (W2 ltac:(lia)).
  rewrite sub_write_before in W2 by (try rewrite firstn_length; lia).
  assert (cnt v vs = cnt v (firstn h vs) + cnt v (skipn h vs)) by (rewrite <- cnt_app, firstn_skipn; reflexivity).
  lia.
Qed.

Lemma outs_store v md olds : md <> SCopy -> v <> 0%N -> outs v (store_evs md olds) = cnt v olds.
Proof.
  intros Hm Hv. induction olds as [|o r IH]; simpl; auto.
  rewrite outs_app, IH, cnt_cons. f_equal.
  unfold store_ev, isz, is. destruct md; try congruence;
    destruct (N.eqb_spec o 0); simpl; unfold is; try (subst; destruct (N.eq_dec 0 v); congruence); lia.
Qed.
Lemma ins_store v md olds : ins v (store_evs md olds) = 0.
Proof. induction olds as [|o r IH]; simpl; auto. rewrite ins_app, IH. destruct md; simpl; destruct (isz o); reflexivity. Qed.
Lemma outs_store_ev v md o : md <> SCopy -> v <> 0%N -> outs v (store_ev md o) = is v o.
Proof.
  intros Hm Hv. unfold store_ev, isz, is. destruct md; try congruence;
    destruct (N.eqb_spec o 0); simpl; unfold is; try (subst; destruct (N.eq_dec 0 v); congruence); lia.
Qed.
Lemma ins_store_ev v md o : ins v (store_ev md o) = 0.
Proof. destruct md; simpl; destruct (isz o); reflexivity. Qed.

Lemma ins_clone_evs v srcs news : length srcs = length news -> forallb (fun x => negb (isz x)) srcs = true ->
  ins v (clone_evs srcs news) = cnt v news /\ outs v (clone_evs srcs news) = 0.
Proof.
  revert news; induction srcs as [|a sr IH]; intros [|b nr] L F; simpl in *; try discriminate; auto.
  apply andb_prop in F as [Fa Fr]. destruct (isz a); try discriminate. simpl.
  destruct (IH nr ltac:(lia) Fr) as [-> ->]. rewrite cnt_cons. auto.
Qed.
Lemma outs_clone_evs v srcs news : outs v (clone_evs srcs news) = 0.
Proof. revert news; induction srcs as [|a sr IH]; intros [|b nr]; simpl; auto. destruct (isz a); simpl; auto. Qed.

Lemma outs_release v l : v <> 0%N -> outs v (release_evs l) = cnt v l.
Proof.
  intros Hv. induction l as [|x l IH]; simpl; auto. unfold release_evs in *. simpl. rewrite outs_app, IH, cnt_cons. f_equal.
  unfold isz, is. destruct (N.eqb_spec x 0); simpl; unfold is; try (subst; destruct (N.eq_dec 0 v); congruence); lia.
Qed.
Lemma ins_release v l : ins v (release_evs l) = 0.
Proof. induction l as [|x l IH]; simpl; auto. unfold release_evs in *. simpl. rewrite ins_app, IH. destruct (isz x); reflexivity. Qed.

(** state facts *)
Lemma live_advance k n m : live (advance k n m) = live m.
Proof. unfold live, advance. destruct (det (it_of k m)); reflexivity. Qed.
Lemma owned_adv k n m : owned (advance k n m) = owned m.
Proof. unfold advance. destruct (det (it_of k m)); reflexivity. Qed.

Lemma check_keeps k n m : live (snd (check k n m)) = live m /\ slots (snd (check k n m)) = slots m /\
  owned (snd (check k n m)) = owned m /\ mlen (snd (check k n m)) = mlen m /\ freed (snd (check k n m)) = freed m.
Proof. unfold check. destruct (n <=? ca (it_of k m)); simpl; auto. Qed.

Lemma owned_wr m i vs : owned (wr m i vs) = owned m.
Proof. unfold wr. destruct (chunk (mlen m) i (length vs)); reflexivity. Qed.
Lemma freed_wr m i vs : freed (wr m i vs) = freed m.
Proof. unfold wr. destruct (chunk (mlen m) i (length vs)); reflexivity. Qed.

(** ** Conservation, operation by operation *)
Definition conserves (v : N) (m : mstate) (o : op) (r : res) : Prop :=
  cnt v (live (fst r)) + outs v (snd (snd r)) + (if handed o then ins v (snd (snd r)) else 0)
  = cnt v (live m) + ins v (snd (snd r)).

Lemma conserves_same v m o m' x : live m' = live m -> conserves v m o (m', (x, [])).
Proof. intros H. unfold conserves. simpl. rewrite H. destruct (handed o); lia. Qed.

Section Cons.
Variables (m : mstate) (a : pipe) (v : N).
Hypothesis R : Rel m a.
Hypothesis Hv : v <> 0%N.
Hypothesis Ow : owned m = true.

Lemma ix_lt k : a_usable k a = true -> ix (it_of k m) < mlen m.
Proof.
  intros U. rewrite (ix_eq m a k R U), (r_len _ _ R). apply Nat.mod_upper_bound. pose proof (r_pos _ _ R). lia.
Qed.

Lemma not_freed k : a_usable k a = true -> freed m = false.
Proof.
  intros U. rewrite (r_freed _ _ R). unfold a_usable in U. apply andb_prop in U as [U _]. apply andb_prop in U as [U _].
  apply negb_true_iff in U. exact U.
Qed.

Lemma check_facts k n g m1 : a_usable k a = true -> check k n m = (g, m1) ->
  Rel m1 a /\ slots m1 = slots m /\ owned m1 = true /\ mlen m1 = mlen m /\ freed m1 = false /\ live m1 = live m /\
  (g = true -> n <= mlen m - 1).
Proof.
  intros U E. destruct (rel_check _ _ _ _ _ _ R U E) as [Hg R1].
  pose proof (check_keeps k n m) as (A & B & C & D & F). rewrite E in *. simpl in *.
  repeat match goal with |- _ /\ _ => split end; auto; try congruence.
  - rewrite F. eapply not_freed; eauto.
  - intros ->. symmetry in Hg. apply Nat.leb_le in Hg.
    pose proof (window_bounds m a k R U) as [W1 W2]. rewrite (r_len _ _ R). lia.
Qed.

Lemma push_cons md x : a_usable P a = true -> md <> SCopy -> conserves v m (Push x) (push md x m).
Proof.
  intros U Hm. unfold push. destruct (check P 1 m) as [g m1] eqn:E.
  destruct (check_facts P 1 g m1 U E) as (R1 & S1 & O1 & L1 & F1 & V1 & _).
  destruct g; [|apply conserves_same; auto].
  unfold conserves, rete, ev. simpl. rewrite owned_adv. simpl. rewrite O1.
  rewrite live_advance. unfold live. simpl. rewrite F1.
  assert (F0 : freed m = false) by (eapply not_freed; eauto). rewrite F0.
  assert (I : ix (it_of P m1) < length (slots m1)).
  { rewrite (r_slots _ _ R1), (ix_eq m1 a P R1 U). apply Nat.mod_upper_bound. pose proof (r_pos _ _ R). lia. }
  rewrite outs_app, ins_app, ins_store_ev, outs_store_ev by auto. simpl.
  pose proof (cnt_upd v (ix (it_of P m1)) x (slots m1) I) as C. unfold slot, it_of in *. simpl in *. rewrite S1 in C at 3. lia.
Qed.

Lemma pop_cons (mv : bool) : a_usable C a = true -> conserves v m (if mv then PopMove else Pop) (pop mv m).
Proof.
  intros U. unfold pop. destruct (check C 1 m) as [g m1] eqn:E.
  destruct (check_facts C 1 g m1 U E) as (R1 & S1 & O1 & L1 & F1 & V1 & _).
  destruct g; [|apply conserves_same; auto].
  assert (F0 : freed m = false) by (eapply not_freed; eauto).
  assert (I : ix (it_of C m1) < length (slots m1)).
  { rewrite (r_slots _ _ R1), (ix_eq m1 a C R1 U). apply Nat.mod_upper_bound. pose proof (r_pos _ _ R). lia. }
  unfold conserves, rete, ev. simpl. rewrite owned_adv. destruct mv; simpl; rewrite O1, live_advance; unfold live; simpl; rewrite ?F1, ?F0.
  - pose proof (cnt_upd v (ix (it_of C m1)) 0%N (slots m1) I) as K. unfold slot, it_of in *. simpl in *. rewrite S1 in K at 3.
    assert (is v 0%N = 0) by (unfold is; destruct (N.eq_dec 0 v); congruence).
    destruct (isz (nth (ix (tC (its m1))) (slots m1) 0%N)) eqn:Z; simpl.
    + unfold isz in Z. apply N.eqb_eq in Z. rewrite Z in *. lia.
    + lia.
  - rewrite S1. destruct (isz (slot m1 (ix (tC (its m1))))); simpl; lia.
Qed.

Lemma poke_cons md k off x : a_usable k a = true -> off < a_avail k a -> md <> SCopy ->
  conserves v m (Poke k off x) (poke md k off x m).
Proof.
  intros U Hoff Hm. unfold poke.
  assert (F0 : freed m = false) by (eapply not_freed; eauto).
  pose proof (window_bounds m a k R U) as [W1 W2]. pose proof (r_pos _ _ R) as Hl.
  assert (I : wadd (mlen m) (ix (it_of k m)) off < length (slots m)).
  { rewrite (r_slots _ _ R), (r_len _ _ R). apply wadd_lt; try lia. rewrite <- (r_len _ _ R). apply ix_lt; auto. }
  unfold conserves, rete, ev. simpl. rewrite Ow. unfold live. simpl. rewrite F0.
  rewrite outs_app, ins_app, ins_store_ev, outs_store_ev by auto. simpl.
  pose proof (cnt_upd v _ x (slots m) I) as K. unfold slot. lia.
Qed.

Lemma push_slice_cons md cl vs o : a_usable P a = true -> md <> SCopy -> cl = true ->
  forallb (fun x => negb (isz x)) vs = true -> handed o = false ->
  conserves v m o (push_slice md cl vs m).
Proof.
  intros U Hm -> NZ Ho. unfold push_slice. destruct (check P (length vs) m) as [g m1] eqn:E.
  destruct (check_facts P (length vs) g m1 U E) as (R1 & S1 & O1 & L1 & F1 & V1 & B1).
  destruct g; [|unfold conserves; simpl; rewrite V1, Ho; lia]. specialize (B1 eq_refl).
  assert (F0 : freed m = false) by (eapply not_freed; eauto).
  assert (I : ix (it_of P m1) < mlen m1).
  { rewrite (r_len _ _ R1), (ix_eq m1 a P R1 U). apply Nat.mod_upper_bound. pose proof (r_pos _ _ R). lia. }
  destruct (rd m1 (ix (it_of P m1)) (length vs)) as [h t] eqn:Er.
  unfold clones. rewrite O1.
  set (news := ids (nid m1) (length vs)). set (m2 := set_nid (nid m1 + N.of_nat (length vs)) m1).
  assert (Ln : length news = length vs) by apply ids_length.
  pose proof (cnt_wr v m2 (ix (it_of P m1)) news) as W. rewrite Ln in W.
  assert (Erd : rd m2 (ix (it_of P m1)) (length vs) = (h, t)) by exact Er.
  rewrite Erd in W. cbn [fst snd] in W.
  specialize (W ltac:(unfold m2; cbn [slots mlen set_nid]; rewrite (r_slots _ _ R1), (r_len _ _ R1); reflexivity) I ltac:(unfold m2; cbn [mlen set_nid]; lia)).
  change (slots m2) with (slots m1) in W.
  unfold conserves, rete, ev. simpl. rewrite Ho, owned_adv.
  rewrite owned_wr. change (owned m2) with (owned m1). rewrite O1, live_advance. unfold live.
  rewrite freed_wr. change (freed m2) with (freed m1). rewrite F1, F0.
  rewrite outs_app, ins_app, ins_store, outs_store by auto.
  destruct (ins_clone_evs v vs news (eq_sym Ln) NZ) as [-> ->].
  unfold it_of in *. simpl in *. rewrite <- S1. lia.
Qed.

Lemma extract_item_cons : a_usable C a = true -> conserves v m CloneItem (extract_item true m).
Proof.
  intros U. unfold extract_item. destruct (check C 1 m) as [g m1] eqn:E.
  destruct (check_facts C 1 g m1 U E) as (R1 & S1 & O1 & L1 & F1 & V1 & _).
  destruct g; [|apply conserves_same; auto].
  unfold clones. rewrite O1. unfold conserves, rete, ev. simpl. rewrite owned_adv. simpl. rewrite O1, live_advance.
  unfold live. simpl. rewrite F1. assert (F0 : freed m = false) by (eapply not_freed; eauto). rewrite F0, S1.
  unfold it_of; simpl. destruct (isz (slot m1 (ix (tC (its m1))))); simpl; lia.
Qed.

Lemma extract_slice_cons n : a_usable C a = true -> conserves v m (CloneSlice n) (extract_slice true n m).
Proof.
  intros U. unfold extract_slice. destruct (check C n m) as [g m1] eqn:E.
  destruct (check_facts C n g m1 U E) as (R1 & S1 & O1 & L1 & F1 & V1 & _).
  destruct g; [|apply conserves_same; auto].
  destruct (rd m1 (ix (it_of C m1)) n) as [h t].
  unfold clones. rewrite O1. unfold conserves, rete, ev. simpl. rewrite owned_adv. simpl. rewrite O1, live_advance.
  unfold live. simpl. rewrite F1. assert (F0 : freed m = false) by (eapply not_freed; eauto). rewrite F0, S1.
  rewrite outs_clone_evs. lia.
Qed.

Lemma drop_iter_cons k : a_usable k a = true -> conserves v m (DropIter k) (drop_iter k m).
Proof.
  intros U. assert (F0 : freed m = false) by (eapply not_freed; eauto).
  unfold drop_iter, conserves, rete, ev, live. simpl. rewrite Ow, F0. simpl.
  destruct (negb (tP (tset k false (flag m))) && negb (tW (tset k false (flag m))) && negb (tC (tset k false (flag m))) && heap m); simpl.
  - rewrite outs_release, ins_release by auto. unfold cnt. simpl. lia.
  - lia.
Qed.
End Cons.

(** every operation of a contract-respecting history over owned items is accounted for *)
Theorem conservation m a o v : Rel m a -> ok_op a o = true -> owned m = true -> vals_ok o = true -> v <> 0%N ->
  conserves v m o (step m o).
Proof.
  intros R OK Ow VO Hv.
  assert (PL : plain m = false) by (unfold plain; rewrite Ow; reflexivity).
  destruct o; cbn [step ok_op vals_ok] in *; unfold ret, bad in *; rewrite ?PL, ?andb_false_r;
    rewrite ?(usable_eq _ _ _ R), ?(attached_eq _ _ _ R), ?(detached_eq _ _ _ R);
    try (match goal with |- context[if ?g then _ else _] => destruct g eqn:G end; [|apply conserves_same; reflexivity]);
    try (apply conserves_same; reflexivity).
  - apply conserves_same. apply live_advance.
  - unfold grant_one. destruct (check k 1 m) as [g m1] eqn:E. destruct (check_keeps k 1 m) as (A & _). rewrite E in A.
    destruct g; apply conserves_same; auto.
  - unfold grant. destruct (check k n m) as [g m1] eqn:E. destruct (check_keeps k n m) as (A & _). rewrite E in A.
    destruct g; [destruct (rd m1 (ix (it_of k m1)) n)|]; apply conserves_same; auto.
  - unfold refresh. destruct (fresh k m) eqn:F; [apply conserves_same; reflexivity|].
    unfold grant. destruct (check k (S n) (set_ca k (S n) m)) as [g m1] eqn:E.
    destruct (check_keeps k (S n) (set_ca k (S n) m)) as (A & _). rewrite E in A.
    destruct g; [destruct (rd m1 (ix (it_of k m1)) (S n))|]; apply conserves_same; auto.
  - unfold refresh. destruct r; [apply conserves_same; reflexivity|].
    destruct (fresh k m - fresh k m mod S r) eqn:F; [apply conserves_same; reflexivity|].
    unfold grant. destruct (check k (S n) (set_ca k (fresh k m) m)) as [g m1] eqn:E.
    destruct (check_keeps k (S n) (set_ca k (fresh k m) m)) as (A & _). rewrite E in A.
    destruct g; [destruct (rd m1 (ix (it_of k m1)) (S n))|]; apply conserves_same; auto.
  - apply Nat.ltb_lt in OK. apply (poke_cons m a v R Hv Ow SAssign k off v0 G OK). discriminate.
  - apply Nat.ltb_lt in OK. pose proof (poke_cons m a v R Hv Ow SWrite k off v0 G OK ltac:(discriminate)) as H. exact H.
  - pose proof (attached_usable _ _ G) as U. apply (push_cons m a v R Hv Ow SAssign v0 U). discriminate.
  - pose proof (attached_usable _ _ G) as U. pose proof (push_cons m a v R Hv Ow SInit v0 U ltac:(discriminate)) as H. exact H.
  - pose proof (attached_usable _ _ G) as U. apply (push_slice_cons m a v R Hv Ow SAssign true vs); auto. discriminate.
  - pose proof (attached_usable _ _ G) as U. apply (push_slice_cons m a v R Hv Ow SInit true vs); auto. discriminate.
  - unfold grant_one. destruct (check P 1 m) as [g m1] eqn:E. destruct (check_keeps P 1 m) as (A & _). rewrite E in A.
    destruct g; apply conserves_same; auto.
  - unfold refresh. unfold grant. destruct (check C (fresh C m) (set_ca C (fresh C m) m)) as [g m1] eqn:E.
    destruct (check_keeps C (fresh C m) (set_ca C (fresh C m) m)) as (A & _). rewrite E in A.
    destruct g; [destruct (rd m1 (ix (it_of C m1)) (fresh C m))|]; apply conserves_same; auto.
  - pose proof (attached_usable _ _ G) as U. apply (pop_cons m a v R Hv Ow false U).
  - pose proof (attached_usable _ _ G) as U. apply (pop_cons m a v R Hv Ow true U).
  - pose proof (attached_usable _ _ G) as U. apply (extract_item_cons m a v R Hv Ow U).
  - pose proof (attached_usable _ _ G) as U. apply (extract_slice_cons m a v R Hv Ow n U).
  - destruct k; try (apply conserves_same; reflexivity);
      rewrite ?(attached_eq _ _ _ R); match goal with |- context[if ?g then _ else _] => destruct g end; apply conserves_same; reflexivity.
  - apply (drop_iter_cons m a v R Hv Ow k G).
  - apply andb_prop in G as [G _]. apply andb_prop in G as [_ G]. apply negb_true_iff in G.
    unfold conserves, rete, ev, live. simpl. rewrite Ow, G. rewrite outs_release, ins_release by auto. unfold cnt. simpl. lia.
Qed.
Print Assumptions conservation.

(** ** Whole histories *)
Lemma owned_step m o : owned (fst (step m o)) = owned m.
Proof.
  destruct o; cbn [step]; unfold ret, bad, rete, grant, grant_one, push, push_slice, pop, extract_item, extract_slice,
    poke, edit, drop_iter, refresh, clones;
  repeat (match goal with
   | |- context[check ?k ?n ?s] => let g := fresh "g" in let m1 := fresh "m1" in let E := fresh "E" in
        destruct (check k n s) as [g m1] eqn:E; pose proof (check_keeps k n s) as (_ & _ & ? & _); rewrite E in *; cbn [fst snd] in *
   | |- context[rd ?s ?i ?n] => destruct (rd s i n)
   | |- context[if ?c then _ else _] => destruct c eqn:?
   | |- context[match ?x with _ => _ end] => destruct x eqn:?
   end; cbn [fst snd]); unfold rete, ret; cbn [fst snd]; rewrite ?owned_adv, ?owned_wr; cbn [owned set_slots set_nid set_pub set_ix_ca set_ca set_det set_it do_split]; try congruence; auto.
Qed.

Fixpoint tot_in (v : N) (xs : list (out * list lev)) : nat :=
  match xs with [] => 0 | (_, e) :: r => ins v e + tot_in v r end.
Fixpoint tot_out (v : N) (h : list op) (xs : list (out * list lev)) : nat :=
  match h, xs with
  | o :: hr, (_, e) :: r => outs v e + (if handed o then ins v e else 0) + tot_out v hr r
  | _, _ => 0
  end.

(** along every contract-respecting history over owned items: what the buffer still owns plus everything that
    left it (destroyed, handed out, lost) equals what it owned at the start plus everything that entered *)
Theorem history_conservation v h : v <> 0%N -> forall m a, Rel m a -> owned m = true -> forallb vals_ok h = true ->
  snd (srun a h) = true ->
  cnt v (live (fst (run m h))) + tot_out v h (snd (run m h)) = cnt v (live m) + tot_in v (snd (run m h)).
Proof.
  intros Hv. induction h as [|o r IH]; intros m a R Ow VO OK; simpl in *; [lia|].
  apply andb_prop in VO as [VO1 VO2].
  destruct (sstep a o) as [a1 y] eqn:Es. destruct (srun a1 r) as [[a2 ys] okr] eqn:Er. simpl in OK.
  apply andb_prop in OK as [Ho Hr].
  pose proof (conservation m a o v R Ho Ow VO1 Hv) as Cv.
  pose proof (step_refines m a o R Ho) as [_ R1]. rewrite Es in R1. simpl in R1.
  pose proof (owned_step m o) as Os.
  destruct (step m o) as [m1 [x e]] eqn:Em. simpl in *.
  specialize (IH m1 a1 R1 ltac:(congruence) VO2). rewrite Er in IH. specialize (IH Hr).
  destruct (run m1 r) as [m2 xs]. simpl in *. unfold conserves in Cv. simpl in Cv. lia.
Qed.
Print Assumptions history_conservation.

(** a released buffer owns nothing: everything that entered has left *)
Corollary released_balance v h m a : v <> 0%N -> Rel m a -> owned m = true -> forallb vals_ok h = true ->
  snd (srun a h) = true -> freed (fst (run m h)) = true ->
  tot_out v h (snd (run m h)) = cnt v (live m) + tot_in v (snd (run m h)).
Proof.
  intros Hv R Ow VO OK F. pose proof (history_conservation v h Hv m a R Ow VO OK) as H.
  unfold live in H at 1. rewrite F in H. unfold cnt in H at 1. simpl in H. exact H.
Qed.

(** ** C09: empty cells *)
Definition zero_ev (e : lev) : bool := match e with LZeroDrop | LZeroRead | LLost _ => true | _ => false end.

(** the *_init stores never drop an empty cell and never lose an occupied one, whatever the cell holds *)
Theorem init_store_safe old : existsb zero_ev (store_ev SInit old) = false.
Proof. unfold store_ev. destruct (isz old); reflexivity. Qed.

Theorem init_stores_safe olds : existsb zero_ev (store_evs SInit olds) = false.
Proof. induction olds as [|o r IH]; cbn [store_evs]; auto. rewrite existsb_app, IH. rewrite (init_store_safe o). reflexivity. Qed.

(** releasing a buffer skips empty cells and drops every occupied one exactly once *)
Theorem release_skips_empty l : existsb zero_ev (release_evs l) = false /\
  forall v, v <> 0%N -> outs v (release_evs l) = cnt v l.
Proof.
  split; [|intros; apply outs_release; auto].
  induction l; simpl; auto. unfold release_evs in *. simpl. rewrite existsb_app, IHl. destruct (isz a); reflexivity.
Qed.

(** plain stores onto occupied cells drop the old value exactly once and nothing else *)
Theorem assign_occupied old : isz old = false -> store_ev SAssign old = [LDrop old].
Proof. unfold store_ev. intros ->. reflexivity. Qed.

(** the state after a push does not depend on how the old contents were treated: an [*_init] push onto an
    empty cell and a plain push onto an occupied one leave the same kind of state - there is no hidden
    "was zeroed" bit, only contents *)
Theorem push_state_mode_independent md1 md2 x m : fst (push md1 x m) = fst (push md2 x m).
Proof. unfold push. destruct (check P 1 m) as [g m1]. destruct g; reflexivity. Qed.

Theorem push_slice_state_mode_independent md1 md2 cl vs m : fst (push_slice md1 cl vs m) = fst (push_slice md2 cl vs m).
Proof.
  unfold push_slice. destruct (check P (length vs) m) as [g m1]. destruct g; [|reflexivity].
  destruct (rd m1 (ix (it_of P m1)) (length vs)). destruct (if cl then clones m1 vs else (vs, m1)). reflexivity.
Qed.

(** pop_move leaves the cell empty; the moved value is accounted as handed out, an empty cell as a zero read *)
Theorem pop_move_events m : forall s x e, pop true m = (s, (OVal x, e)) -> owned m = true ->
  e = (if isz x then [LZeroRead] else [LGive x]).
Proof.
  unfold pop. intros s x e. destruct (check C 1 m) as [g m1] eqn:E. pose proof (check_keeps C 1 m) as (_ & _ & O & _).
  rewrite E in O. simpl in O. destruct g; [|discriminate].
  unfold rete, ev. intros H Ow. inversion H; subst. rewrite owned_adv. simpl. rewrite O, Ow. reflexivity.
Qed.
